(** Pipeline proofs, part 4: the tasks and the postprocessing interpreter of Pipeline_Tasks.v.
    - labels and token ids of every task (alignment, what each label is), the one place where alignment fails;
    - the structure of [postproc] (chain, switch, on_mark, switch_on_mark), an induction principle for [qcfg];
    - clipping keeps a prefix within the bound and preserves alignment; postprocessing without TokenMasking changes
      nothing but that;
    - the whole item path is a function of (configurations, max_length, item, seed, incoming marks): the file index only
      selects the per-source configuration. *)
From TU Require Import RNG_Model RNG_Proofs.
From TU Require Import Base C01_Model C01_Proofs C10_Model C10_Proofs C14_Model C14_Seeded JSON_Model.
From TU Require JSON_Roundtrip.
From TU Require Import Pipeline_Model Pipeline_Proofs Pipeline_Proofs2 Pipeline_Tasks.
Require Import Lia.
Local Open Scope nat_scope.

(** * lists *)
Lemma removelast_length {A} (l : list A) : length (removelast l) = length l - 1.
Proof.
  induction l as [|a l IH]; [reflexivity|]. destruct l as [|b l]; [reflexivity|].
  change (removelast (a :: b :: l)) with (a :: removelast (b :: l)). cbn [length] in *. lia.
Qed.

Lemma tl_length {A} (l : list A) : length (tl l) = length l - 1.
Proof. destruct l; cbn [tl length]; lia. Qed.

Lemma removelast_firstn_len {A} (l : list A) : removelast l = firstn (length l - 1) l.
Proof.
  induction l as [|a l IH]; [reflexivity|]. destruct l as [|b l]; [reflexivity|].
  change (removelast (a :: b :: l)) with (a :: removelast (b :: l)). rewrite IH. cbn [length].
  replace (S (S (length l)) - 1) with (S (S (length l) - 1)) by lia. reflexivity.
Qed.

Lemma nth_tl {A} (l : list A) j d : nth j (tl l) d = nth (S j) l d.
Proof. destruct l; [destruct j; reflexivity|reflexivity]. Qed.

Lemma zids_length l : length (zids l) = length l.
Proof. apply map_length. Qed.

Lemma nth_firstn_lt {A} : forall n (l : list A) j d, j < n -> nth j (firstn n l) d = nth j l d.
Proof.
  induction n as [|n IH]; intros l j d H; [lia|]. destruct l as [|a l]; [reflexivity|].
  destruct j as [|j]; [reflexivity|]. cbn [firstn nth]. apply IH. lia.
Qed.

Lemma nlist_eqb_refl' : forall l, nlist_eqb l l = true.
Proof. intros l. apply nlist_eqb_eq. reflexivity. Qed.

Lemma firstn_prefix {A} n (l : list A) : exists r, l = firstn n l ++ r.
Proof. exists (skipn n l). symmetry. apply firstn_skipn. Qed.

(** * generation *)
(** the labels: position j predicts token j + 1 of the full sequence, -1 inside the masked prefix *)
Lemma gen_labels_length : forall ml ids, ml <= length ids -> length (gen_labels ml ids) = length ids - 1.
Proof.
  intros ml ids H. unfold gen_labels. rewrite tl_length, app_length, repeat_length, zids_length, skipn_length. lia.
Qed.

Lemma gen_labels_nth : forall ml ids j, ml <= length ids -> S j < length ids ->
  nth j (gen_labels ml ids) 0%Z = if S j <? ml then (-1)%Z else Z.of_N (nth (S j) ids 0%N).
Proof.
  intros ml ids j Hml Hj. unfold gen_labels. rewrite nth_tl.
  destruct (S j <? ml) eqn:E.
  - apply Nat.ltb_lt in E. rewrite app_nth1 by (rewrite repeat_length; exact E).
    rewrite (nth_indep _ 0%Z (-1)%Z) by (rewrite repeat_length; lia). apply nth_repeat.
  - apply Nat.ltb_ge in E. rewrite app_nth2 by (rewrite repeat_length; exact E). rewrite repeat_length.
    unfold zids. change 0%Z with (Z.of_N 0%N). rewrite map_nth. f_equal.
    rewrite <- (firstn_skipn ml ids) at 2. rewrite app_nth2 by (rewrite firstn_length; lia).
    rewrite firstn_length, Nat.min_l by exact Hml. reflexivity.
Qed.

(** the general shape, for whatever mask length the prefix tokenization gives *)
Lemma task_gen_shape : forall mask b ign sep x ids' pad labels,
  task_gen mask b ign sep x = ROk (TIGen ids' pad labels) ->
  exists ml ids, gen_mask_len mask b ign sep x = Some ml /\
    byte_tokenize b (it_in x ++ osep sep ++ it_tg x) ign = Some ids /\
    ids' = removelast ids /\ pad = b_pad b /\ labels = gen_labels ml ids.
Proof.
  intros mask b ign sep x ids' pad labels H. unfold task_gen in H.
  destruct (gen_mask_len mask b ign sep x) as [ml|]; [|discriminate].
  destruct (byte_tokenize b (it_in x ++ osep sep ++ it_tg x) ign) as [ids|]; [|discriminate].
  injection H as <- <- <-. exists ml, ids. repeat split; reflexivity.
Qed.

Lemma task_gen_is_gen : forall mask b ign sep x t, task_gen mask b ign sep x = ROk t ->
  exists ids pad labels, t = TIGen ids pad labels.
Proof.
  intros mask b ign sep x t H. unfold task_gen in H.
  destruct (gen_mask_len mask b ign sep x); [|discriminate].
  destruct (byte_tokenize b _ ign); [|discriminate]. injection H as <-. eauto.
Qed.

(** whenever the masked prefix is not longer than the whole sequence: one label per remaining token id, label j is
    token j + 1 (the next token), -1 while token j + 1 still belongs to the masked prefix *)
Lemma task_gen_aligned : forall mask b ign sep x ml ids,
  gen_mask_len mask b ign sep x = Some ml ->
  byte_tokenize b (it_in x ++ osep sep ++ it_tg x) ign = Some ids -> ml <= length ids ->
  task_gen mask b ign sep x = ROk (TIGen (removelast ids) (b_pad b) (gen_labels ml ids)) /\
  length (gen_labels ml ids) = length (removelast ids) /\
  (forall j, S j < length ids ->
     nth j (gen_labels ml ids) 0%Z = if S j <? ml then (-1)%Z else Z.of_N (nth (S j) ids 0%N)) /\
  (forall j, j < length (removelast ids) -> nth j (removelast ids) 0%N = nth j ids 0%N).
Proof.
  intros mask b ign sep x ml ids Hm Ht Hle. unfold task_gen. rewrite Hm, Ht. split; [reflexivity|].
  split; [rewrite gen_labels_length, removelast_length by exact Hle; reflexivity|].
  split; [intros j Hj; apply gen_labels_nth; assumption|].
  intros j Hj. rewrite removelast_firstn_len. rewrite removelast_length in Hj.
  apply nth_firstn_lt. exact Hj.
Qed.

(** with special tokens ignored the premise always holds: the bytes of input ++ separator are a prefix of the bytes
    of input ++ separator ++ target *)
Lemma gen_mask_le_ign : forall mask b sep x ml ids,
  gen_mask_len mask b true sep x = Some ml ->
  byte_tokenize b (it_in x ++ osep sep ++ it_tg x) true = Some ids -> ml <= length ids.
Proof.
  intros mask b sep x ml ids Hm Ht. rewrite byte_tokenize_ign in Ht. injection Ht as <-.
  unfold gen_mask_len in Hm. destruct mask.
  - rewrite byte_tokenize_ign in Hm. cbn [option_map] in Hm. injection Hm as <-.
    unfold add_pre_suf. rewrite (app_assoc (it_in x)), (utf8s_app (it_in x ++ osep sep)). rewrite !app_length.
    unfold byte, cp, str in *. lia.
  - injection Hm as <-. lia.
Qed.

Lemma gen_mask_total_ign : forall mask b sep x, exists ml, gen_mask_len mask b true sep x = Some ml.
Proof.
  intros mask b sep x. unfold gen_mask_len. destruct mask; [|eauto]. rewrite byte_tokenize_ign. cbn [option_map]. eauto.
Qed.

Lemma task_gen_aligned_ign : forall mask b sep x, exists ml ids,
  gen_mask_len mask b true sep x = Some ml /\
  ids = add_pre_suf b (utf8s (it_in x ++ osep sep ++ it_tg x)) /\ ml <= length ids /\
  task_gen mask b true sep x = ROk (TIGen (removelast ids) (b_pad b) (gen_labels ml ids)) /\
  length (gen_labels ml ids) = length (removelast ids).
Proof.
  intros mask b sep x. destruct (gen_mask_total_ign mask b sep x) as [ml Hm].
  exists ml, (add_pre_suf b (utf8s (it_in x ++ osep sep ++ it_tg x))).
  pose proof (byte_tokenize_ign b (it_in x ++ osep sep ++ it_tg x)) as Ht.
  pose proof (gen_mask_le_ign mask b sep x ml _ Hm Ht) as Hle.
  destruct (task_gen_aligned mask b true sep x ml _ Hm Ht Hle) as (H1 & H2 & _).
  repeat split; assumption.
Qed.

(** ... and without that premise alignment fails: special tokens NOT ignored, no suffix token, the input ends inside a
    special token that the target completes ("<b" + ">" with the special token "<b>"): the prefix alone has three
    tokens, the whole text ONE, so there are two labels for one token id *)
Definition misaligned_base : base := {| b_off := 256; b_sv := [[60; 98; 62]]%N; b_pre := [256%N]; b_suf := []; b_pad := 256%N |}.
Lemma task_gen_misaligned : exists ids pad labels,
  task_gen true misaligned_base false None (mk_item [60; 98]%N [62]%N) = ROk (TIGen ids pad labels) /\
  length labels <> length ids.
Proof. exists [256%N], 256%N, [(-1)%Z; (-1)%Z]. split; [vm_compute; reflexivity|discriminate]. Qed.

(** * conditional generation: decoder input = target ids without the last, label j = target id j + 1 *)
Lemma task_cond_spec : forall bi ii bt it x ids tids,
  byte_tokenize bi (it_in x) ii = Some ids -> byte_tokenize bt (it_tg x) it = Some tids ->
  task_cond bi ii bt it x = ROk (TICond ids (b_pad bi) (removelast tids) (b_pad bt) (tl (zids tids))) /\
  length (tl (zids tids)) = length (removelast tids) /\
  (forall j, S j < length tids -> nth j (tl (zids tids)) 0%Z = Z.of_N (nth (S j) tids 0%N)).
Proof.
  intros bi ii bt it x ids tids Hi Ht. unfold task_cond. rewrite Hi, Ht. split; [reflexivity|].
  split; [rewrite tl_length, zids_length, removelast_length; reflexivity|].
  intros j Hj. rewrite nth_tl. unfold zids. change 0%Z with (Z.of_N 0%N). apply map_nth.
Qed.

(** * classification: the label is an index of the target text among the classes, the last one if it is listed twice *)
Lemma class_idx_spec : forall cl t k j, class_idx cl t k = Some j ->
  k <= j /\ nth_error cl (j - k) = Some t /\ (forall j', j < j' -> nth_error cl (j' - k) <> Some t).
Proof.
  induction cl as [|c r IH]; intros t k j H; [discriminate|]. cbn [class_idx] in H.
  destruct (class_idx r t (S k)) as [j0|] eqn:E.
  - injection H as <-. destruct (IH t (S k) j0 E) as (H1 & H2 & H3). split; [lia|]. split.
    + replace (j0 - k) with (S (j0 - S k)) by lia. exact H2.
    + intros j' Hj'. replace (j' - k) with (S (j' - S k)) by lia. apply H3. exact Hj'.
  - destruct (nlist_eqb c t) eqn:Ec; [|discriminate]. injection H as <-.
    apply nlist_eqb_eq in Ec. subst c. split; [lia|]. rewrite Nat.sub_diag. split; [reflexivity|].
    intros j' Hj'. replace (j' - k) with (S (j' - S k)) by lia. cbn [nth_error].
    intros Hc. clear -E Hc. revert E Hc. generalize (j' - S k) as m. generalize (S k) as k'.
    induction r as [|c r IH]; intros k' m E Hc; [destruct m; discriminate|].
    cbn [class_idx] in E. destruct (class_idx r t (S k')) eqn:E'; [discriminate|].
    destruct (nlist_eqb c t) eqn:Ec; [discriminate|].
    destruct m as [|m]; cbn [nth_error] in Hc.
    + injection Hc as ->. rewrite nlist_eqb_refl' in Ec. discriminate.
    + exact (IH (S k') m E' Hc).
Qed.

Lemma class_idx_none : forall cl t k, class_idx cl t k = None -> ~ In t cl.
Proof.
  induction cl as [|c r IH]; intros t k H; [intros []|]. cbn [class_idx] in H.
  destruct (class_idx r t (S k)) eqn:E; [discriminate|].
  destruct (nlist_eqb c t) eqn:Ec; [discriminate|]. intros [->|Hin].
  - rewrite nlist_eqb_refl' in Ec. discriminate.
  - exact (IH t (S k) E Hin).
Qed.

Lemma task_class_spec : forall b ign cl x,
  match task_class b ign cl x with
  | ROk (TIClass ids pad label) =>
      byte_tokenize b (it_in x) ign = Some ids /\ pad = b_pad b /\
      exists k, label = Z.of_nat k /\ nth_error cl k = Some (it_tg x) /\ (forall k', k < k' -> nth_error cl k' <> Some (it_tg x))
  | ROk _ => False
  | RErr e => (e = 4%N /\ ~ In (it_tg x) cl) \/ (e = 2%N /\ byte_tokenize b (it_in x) ign = None)
  | RPanic _ => False
  end.
Proof.
  intros b ign cl x. unfold task_class. destruct (byte_tokenize b (it_in x) ign) as [ids|]; [|right; auto].
  destruct (class_idx cl (it_tg x) 0) as [k|] eqn:E.
  - destruct (class_idx_spec _ _ _ _ E) as (_ & H2 & H3). rewrite Nat.sub_0_r in H2.
    split; [reflexivity|]. split; [reflexivity|]. exists k. split; [reflexivity|]. split; [exact H2|].
    intros k' Hk'. specialize (H3 k' Hk'). rewrite Nat.sub_0_r in H3. exact H3.
  - left. split; [reflexivity|]. exact (class_idx_none _ _ _ E).
Qed.

(** * whitespace correction: ids per byte, labels per character, -1 for prefix and suffix tokens *)
Lemma task_wsc_shape : forall g b x ids pad labels, task (TWsc g b) x = ROk (TISeq ids pad labels) ->
  ids = b_pre b ++ utf8s (it_in x) ++ b_suf b /\ pad = b_pad b /\
  exists ops, C10_Model.operations (seg_of g (it_in x)) (seg_of g (it_tg x)) = Some ops /\
    labels = repeat (-1)%Z (length (b_pre b)) ++ map op_code ops ++ repeat (-1)%Z (length (b_suf b)) /\
    length labels = length (b_pre b) + length (seg_of g (it_in x)) + length (b_suf b).
Proof.
  intros g b x ids pad labels H. cbn [task] in H. unfold task_wsc in H. rewrite byte_tokenize_ign in H.
  destruct (operations (seg_of g (it_in x)) (seg_of g (it_tg x))) as [ops|] eqn:E; [|discriminate].
  cbn [t_ids t_labels] in H. injection H as <- <- <-. split; [reflexivity|]. split; [reflexivity|].
  exists ops. split; [reflexivity|]. split; [reflexivity|].
  unfold C14_Model.labels. rewrite !app_length, !repeat_length, map_length, (operations_length _ _ _ E). lia.
Qed.

(** every task returns the variant of [TrainTaskInput] that belongs to it, and never panics *)
Lemma task_variant : forall t x,
  match task t x, t with
  | ROk (TISeq _ _ _), TWsc _ _ => True
  | ROk (TIGen _ _ _), TGen _ _ _ _ => True
  | ROk (TICond _ _ _ _ _), TCond _ _ _ _ => True
  | ROk (TIClass _ _ _), TClass _ _ _ => True
  | ROk _, _ => False
  | RErr _, _ => True
  | RPanic _, _ => False
  end.
Proof.
  intros [g b|mask b ign sep|bi ii bt it|b ign cl] x; cbn [task].
  - unfold task_wsc. destruct (byte_tokenize b (it_in x) true); [|exact Logic.I].
    destruct (operations _ _); exact Logic.I.
  - unfold task_gen. destruct (gen_mask_len mask b ign sep x); [|exact Logic.I].
    destruct (byte_tokenize b _ ign); exact Logic.I.
  - unfold task_cond. destruct (byte_tokenize bi _ ii); [|exact Logic.I]. destruct (byte_tokenize bt _ it); exact Logic.I.
  - unfold task_class. destruct (byte_tokenize b _ ign); [|exact Logic.I]. destruct (class_idx cl _ 0); exact Logic.I.
Qed.

(** * alignment of a task input, and clipping *)
(** one label per token id (generation, sequence classification over per-token labels) / per decoder input id *)
Definition aligned (t : tinput) : Prop :=
  match t with
  | TIClass _ _ _ => True
  | TISeq ids _ ls => True
  | TIGen ids _ ls => length ls = length ids
  | TICond _ _ tids _ ls => length ls = length tids
  end.

(** [a] is [b] cut off: every sequence a prefix, everything else the same *)
Definition tin_prefix (a b : tinput) : Prop :=
  match a, b with
  | TIClass ia pa la, TIClass ib pb lb => pa = pb /\ la = lb /\ exists r, ib = ia ++ r
  | TISeq ia pa la, TISeq ib pb lb => pa = pb /\ (exists r, ib = ia ++ r) /\ exists r, lb = la ++ r
  | TIGen ia pa la, TIGen ib pb lb => pa = pb /\ (exists r, ib = ia ++ r) /\ exists r, lb = la ++ r
  | TICond ia pa ta qa la, TICond ib pb tb qb lb =>
      pa = pb /\ qa = qb /\ (exists r, ib = ia ++ r) /\ (exists r, tb = ta ++ r) /\ exists r, lb = la ++ r
  | _, _ => False
  end.

Lemma tin_prefix_refl : forall t, tin_prefix t t.
Proof. intros [ids p l|ids p ls|ids p ls|ids p tids q ls]; cbn [tin_prefix]; repeat split; exists []; symmetry; apply app_nil_r. Qed.

Lemma prefix_trans {A} (a b c : list A) : (exists r, b = a ++ r) -> (exists r, c = b ++ r) -> exists r, c = a ++ r.
Proof. intros [r ->] [r' ->]. exists (r ++ r'). symmetry. apply app_assoc. Qed.

Lemma tin_prefix_trans : forall a b c, tin_prefix a b -> tin_prefix b c -> tin_prefix a c.
Proof.
  intros [ia pa la|ia pa la|ia pa la|ia pa ta qa la] [ib pb lb|ib pb lb|ib pb lb|ib pb tb qb lb]
         [ic pc lc|ic pc lc|ic pc lc|ic pc tc qc lc]; cbn [tin_prefix]; try tauto.
  - intros (-> & -> & H1) (-> & -> & H2). repeat split. eapply prefix_trans; eassumption.
  - intros (-> & H1 & H1') (-> & H2 & H2'). repeat split; eapply prefix_trans; eassumption.
  - intros (-> & H1 & H1') (-> & H2 & H2'). repeat split; eapply prefix_trans; eassumption.
  - intros (-> & -> & H1 & H1' & H1'') (-> & -> & H2 & H2' & H2''). repeat split; eapply prefix_trans; eassumption.
Qed.

(** clipping keeps a prefix of every sequence, and every sequence is then within the bound *)
Lemma clip_prefix : forall n t, tin_prefix (clip n t) t.
Proof.
  intros n [ids p l|ids p ls|ids p ls|ids p tids q ls]; cbn [clip tin_prefix]; repeat split; apply firstn_prefix.
Qed.

Definition within (n : nat) (t : tinput) : Prop :=
  match t with
  | TIClass ids _ _ => length ids <= n
  | TISeq ids _ ls | TIGen ids _ ls => length ids <= n /\ length ls <= n
  | TICond ids _ tids _ ls => length ids <= n /\ length tids <= n /\ length ls <= n
  end.

Lemma clip_within : forall n t, within n (clip n t).
Proof.
  intros n [ids p l|ids p ls|ids p ls|ids p tids q ls]; cbn [clip within]; rewrite ?firstn_length; lia.
Qed.

Lemma clip_aligned : forall n t, aligned t -> aligned (clip n t).
Proof.
  intros n [ids p l|ids p ls|ids p ls|ids p tids q ls]; cbn [clip aligned]; intros H; rewrite ?firstn_length; lia.
Qed.

Lemma clip_exact : forall n t, tin_ids (clip n t) = firstn n (tin_ids t).
Proof. intros n [ids p l|ids p ls|ids p ls|ids p tids q ls]; reflexivity. Qed.

Lemma clip_noop : forall n t, tin_len t <= n -> within n t -> clip n t = t.
Proof.
  intros n [ids p l|ids p ls|ids p ls|ids p tids q ls]; cbn [clip within tin_len]; intros Hl Hw;
    rewrite ?firstn_all2 by lia; reflexivity.
Qed.

(** * induction over postprocessing configurations *)
Section QInd.
Variable P : qcfg -> Prop.
Hypothesis HNone : P QNone.
Hypothesis HChain : forall l, Forall P l -> P (QChain l).
Hypothesis HSwitch : forall l ps, Forall P l -> P (QSwitch l ps).
Hypothesis HOnMark : forall k v l, Forall P l -> P (QOnMark k v l).
Hypothesis HSOM : forall k vs l, Forall P l -> P (QSwitchOnMark k vs l).
Hypothesis HClip : P QClip.
Hypothesis HOpq : forall id, P (QOpaque id).

Fixpoint qcfg_ind' (c : qcfg) : P c :=
  let go := fix go (l : list qcfg) : Forall P l :=
              match l with [] => Forall_nil P | c :: r => Forall_cons c (qcfg_ind' c) (go r) end in
  match c with
  | QNone => HNone
  | QChain l => HChain l (go l)
  | QSwitch l ps => HSwitch l ps (go l)
  | QOnMark k v l => HOnMark k v l (go l)
  | QSwitchOnMark k vs l => HSOM k vs l (go l)
  | QClip => HClip
  | QOpaque id => HOpq id
  end.
End QInd.

Section QStructure.
Variable qopq : nat -> xitem -> info -> res (xitem * info).
Variable maxlen : nat.
Notation postproc := (postproc qopq maxlen).
Notation qchain_run := (qchain_run qopq maxlen).
Notation qpick_run := (qpick_run qopq maxlen).

Lemma postproc_chain : forall l x i, postproc (QChain l) x i = qchain_run l x i.
Proof.
  induction l as [|c r IH]; intros x i; [reflexivity|]. cbn [Pipeline_Tasks.postproc Pipeline_Tasks.qchain_run].
  destruct (Pipeline_Tasks.postproc qopq maxlen c x i) as [[x' i']| |]; [|reflexivity|reflexivity]. apply (IH x' i').
Qed.

Lemma qpick_fix : forall l k x i,
  (fix pick (l : list qcfg) (k : nat) {struct l} : res (xitem * info) :=
     match l with
     | [] => RPanic 1
     | c :: r => match k with O => postproc c x i | S k' => pick r k' end
     end) l k = qpick_run l k x i.
Proof. induction l as [|c r IH]; intros k x i; [reflexivity|]. cbn [Pipeline_Tasks.qpick_run]. destruct k; [reflexivity|]. apply IH. Qed.

Lemma postproc_switch : forall l ps x i,
  postproc (QSwitch l ps) x i = qpick_run l (switch_choice ps (i_seed i)) x i.
Proof. intros l ps x i. cbn [Pipeline_Tasks.postproc]. apply qpick_fix. Qed.

(** [on_mark]: the chain runs iff the mark is set to the value; otherwise the item passes unchanged *)
Lemma postproc_on_mark : forall k v l x i,
  postproc (QOnMark k v l) x i =
  match mark_get k (i_marks i) with
  | Some m => if nlist_eqb m v then qchain_run l x i else ROk (x, i)
  | None => ROk (x, i)
  end.
Proof.
  intros k v l x i. cbn [Pipeline_Tasks.postproc]. destruct (mark_get k (i_marks i)) as [m|]; [|reflexivity].
  destruct (nlist_eqb m v); [|reflexivity]. exact (postproc_chain l x i).
Qed.

(** [switch_on_mark]: the alternative whose value the mark has *)
Lemma postproc_switch_on_mark : forall k vs l x i,
  postproc (QSwitchOnMark k vs l) x i =
  match mark_get k (i_marks i) with
  | None => RPanic 8
  | Some m => match C01_Model.index_of m vs with
              | None => RPanic 9
              | Some idx => qpick_run l idx x i
              end
  end.
Proof.
  intros k vs l x i. cbn [Pipeline_Tasks.postproc]. destruct (mark_get k (i_marks i)) as [m|]; [|reflexivity].
  destruct (C01_Model.index_of m vs) as [idx|]; [|reflexivity]. apply qpick_fix.
Qed.

Lemma qchain_app : forall l1 l2 x i,
  qchain_run (l1 ++ l2) x i = rbind (qchain_run l1 x i) (fun xi => qchain_run l2 (fst xi) (snd xi)).
Proof.
  induction l1 as [|c r IH]; intros l2 x i; [reflexivity|]. cbn [app Pipeline_Tasks.qchain_run].
  destruct (Pipeline_Tasks.postproc qopq maxlen c x i) as [[x' i']| |]; [apply IH|reflexivity|reflexivity].
Qed.

Lemma qpick_run_nth : forall l k c x i, nth_error l k = Some c -> qpick_run l k x i = postproc c x i.
Proof.
  induction l as [|c0 r IH]; intros k c x i H; [destruct k; discriminate|].
  destruct k as [|k]; cbn [nth_error Pipeline_Tasks.qpick_run] in *; [injection H as <-; reflexivity|]. apply IH. exact H.
Qed.

(** a switch accepted by the constructor runs exactly one alternative, with an in-range index, for every seed *)
Lemma q_switch_exact : forall l ps x i, qcfg_ok (QSwitch l ps) = true ->
  exists c, nth_error l (switch_choice ps (i_seed i)) = Some c /\ switch_choice ps (i_seed i) < length l /\
            postproc (QSwitch l ps) x i = postproc c x i.
Proof.
  intros l ps x i H. cbn [qcfg_ok] in H. rewrite !andb_true_iff in H. destruct H as [[[_ H2] H3] _].
  apply Nat.eqb_eq in H3. assert (Hne : l <> []) by (intros ->; discriminate).
  assert (Hps : ps <> []) by (intros ->; destruct l; [contradiction|discriminate]).
  pose proof (switch_choice_lt ps (i_seed i) Hps) as Hk. rewrite <- H3 in Hk.
  destruct (nth_error l (switch_choice ps (i_seed i))) as [c|] eqn:E.
  - exists c. split; [reflexivity|]. split; [exact Hk|]. rewrite postproc_switch. apply qpick_run_nth. exact E.
  - apply nth_error_None in E. lia.
Qed.

Lemma index_of_lt : forall m vs k, C01_Model.index_of m vs = Some k -> k < length vs /\ nth_error vs k = Some m.
Proof.
  intros m vs. induction vs as [|v r IH]; intros k H; [discriminate|]. cbn [C01_Model.index_of] in H.
  destruct (C01_Model.str_eqb m v) eqn:E.
  - injection H as <-. apply C01_Proofs.str_eqb_eq in E. subst v. cbn [length nth_error]. split; [lia|reflexivity].
  - destruct (C01_Model.index_of m r) as [j|]; [|discriminate]. cbn [option_map] in H. injection H as <-.
    destruct (IH j eq_refl) as [H1 H2]. cbn [length nth_error]. split; [lia|exact H2].
Qed.

(** a switch_on_mark accepted by the constructor, applied to an info whose mark has one of the supported values, runs
    the alternative of that value (the index is in range); the two panics are exactly "mark not set" and "value not supported" *)
Lemma q_switch_on_mark_exact : forall k vs l x i m, qcfg_ok (QSwitchOnMark k vs l) = true ->
  mark_get k (i_marks i) = Some m -> In m vs ->
  exists idx c, C01_Model.index_of m vs = Some idx /\ nth_error vs idx = Some m /\ nth_error l idx = Some c /\
                postproc (QSwitchOnMark k vs l) x i = postproc c x i.
Proof.
  intros k vs l x i m H Hm Hin. cbn [qcfg_ok] in H. rewrite !andb_true_iff in H. destruct H as [[[_ _] H3] _].
  apply Nat.eqb_eq in H3.
  destruct (C01_Model.index_of m vs) as [idx|] eqn:E.
  - destruct (index_of_lt _ _ _ E) as [Hlt Hnth]. destruct (nth_error l idx) as [c|] eqn:El.
    + exists idx, c. repeat split; try assumption. rewrite postproc_switch_on_mark, Hm, E. apply qpick_run_nth. exact El.
    + apply nth_error_None in El. lia.
  - exfalso. clear -E Hin. induction vs as [|v r IH]; [contradiction|]. cbn [C01_Model.index_of] in E.
    destruct (C01_Model.str_eqb m v) eqn:Ev; [discriminate|]. destruct Hin as [->|Hin].
    + rewrite C01_Proofs.str_eqb_refl in Ev. discriminate.
    + destruct (C01_Model.index_of m r); [discriminate|]. exact (IH Hin eq_refl).
Qed.
Lemma post_chain_app_l : forall l1 l2 x i,
  postproc (QChain (l1 ++ l2)) x i =
  rbind (postproc (QChain l1) x i) (fun xi => postproc (QChain l2) (fst xi) (snd xi)).
Proof.
  intros. rewrite !postproc_chain, qchain_app. destruct (qchain_run l1 x i) as [[x' i']| |]; cbn [rbind fst snd];
    [rewrite postproc_chain|..]; reflexivity.
Qed.

Lemma post_on_mark_l : forall k v l x i,
  postproc (QOnMark k v l) x i =
  match mark_get k (i_marks i) with
  | Some m => if nlist_eqb m v then postproc (QChain l) x i else ROk (x, i)
  | None => ROk (x, i)
  end.
Proof. intros. rewrite postproc_on_mark, postproc_chain. reflexivity. Qed.

Lemma post_som_panics_l : forall k vs l x i,
  (mark_get k (i_marks i) = None -> postproc (QSwitchOnMark k vs l) x i = RPanic 8) /\
  (forall m, mark_get k (i_marks i) = Some m -> C01_Model.index_of m vs = None ->
             postproc (QSwitchOnMark k vs l) x i = RPanic 9).
Proof.
  intros k vs l x i. rewrite postproc_switch_on_mark. split.
  - intros ->. reflexivity.
  - intros m -> ->. reflexivity.
Qed.
End QStructure.

(** * what the modelled postprocessing can do to an item: nothing but cut its sequences *)
Definition post_rel (x : xitem) (i : info) (r : res (xitem * info)) : Prop :=
  match r with
  | ROk (x', i') => i' = i /\ x_data x' = x_data x /\ tin_prefix (x_in x') (x_in x) /\ (aligned (x_in x) -> aligned (x_in x'))
  | RErr _ => False
  | RPanic _ => True
  end.

Lemma post_rel_refl : forall x i, post_rel x i (ROk (x, i)).
Proof. intros x i. cbn [post_rel]. repeat split; [apply tin_prefix_refl|auto]. Qed.

Section PostFacts.
Variable maxlen : nat.
Notation postproc := (postproc qopq_none maxlen).

Lemma qchain_rel : forall l, Forall (fun c => q_has_opaque c = false -> forall x i, post_rel x i (postproc c x i)) l ->
  existsb q_has_opaque l = false -> forall x i, post_rel x i (qchain_run qopq_none maxlen l x i).
Proof.
  induction l as [|c r IH]; intros HF Hop x i; [apply post_rel_refl|].
  cbn [existsb] in Hop. apply orb_false_iff in Hop. destruct Hop as [Hc Hr].
  inversion HF as [|? ? Hhd Htl]; subst. cbn [qchain_run].
  pose proof (Hhd Hc x i) as H1. destruct (Pipeline_Tasks.postproc qopq_none maxlen c x i) as [[x1 i1]| |];
    cbn [post_rel] in H1; [|contradiction|exact Logic.I].
  destruct H1 as (-> & Hd & Hp & Ha). pose proof (IH Htl Hr x1 i) as H2.
  destruct (qchain_run qopq_none maxlen r x1 i) as [[x2 i2]| |]; cbn [post_rel] in *; [|contradiction|exact Logic.I].
  destruct H2 as (-> & Hd2 & Hp2 & Ha2). repeat split; [congruence|eapply tin_prefix_trans; eassumption|auto].
Qed.

Lemma qpick_rel : forall l, Forall (fun c => q_has_opaque c = false -> forall x i, post_rel x i (postproc c x i)) l ->
  existsb q_has_opaque l = false -> forall k x i,
  match qpick_run qopq_none maxlen l k x i with RErr _ => False | r => post_rel x i r end.
Proof.
  induction l as [|c r IH]; intros HF Hop k x i; [exact Logic.I|].
  cbn [existsb] in Hop. apply orb_false_iff in Hop. destruct Hop as [Hc Hr].
  inversion HF as [|? ? Hhd Htl]; subst. cbn [qpick_run]. destruct k as [|k].
  - pose proof (Hhd Hc x i) as H. destruct (Pipeline_Tasks.postproc qopq_none maxlen c x i) as [[x1 i1]| |]; cbn [post_rel] in *; auto.
  - exact (IH Htl Hr k x i).
Qed.

(** without TokenMasking: the info is returned unchanged, the data untouched, every sequence of the task input a prefix
    of what it was, alignment preserved; the result is never an Err *)
Lemma postproc_rel : forall c, q_has_opaque c = false -> forall x i, post_rel x i (postproc c x i).
Proof.
  induction c using qcfg_ind'; intros Hop x i; cbn [q_has_opaque] in Hop.
  - apply post_rel_refl.
  - rewrite postproc_chain. apply qchain_rel; assumption.
  - rewrite postproc_switch. pose proof (qpick_rel l H Hop (switch_choice ps (i_seed i)) x i) as Hp.
    destruct (qpick_run _ _ _ _ _ _) as [[x1 i1]| |]; [exact Hp|contradiction|exact Logic.I].
  - rewrite postproc_on_mark. destruct (mark_get k (i_marks i)) as [m|]; [|apply post_rel_refl].
    destruct (nlist_eqb m v); [|apply post_rel_refl]. apply qchain_rel; assumption.
  - rewrite postproc_switch_on_mark. destruct (mark_get k (i_marks i)) as [m|]; [|exact Logic.I].
    destruct (C01_Model.index_of m vs) as [idx|]; [|exact Logic.I].
    pose proof (qpick_rel l H Hop idx x i) as Hp.
    destruct (qpick_run _ _ _ _ _ _) as [[x1 i1]| |]; [exact Hp|contradiction|exact Logic.I].
  - cbn [Pipeline_Tasks.postproc post_rel x_data x_in]. repeat split; [apply clip_prefix|apply clip_aligned].
  - discriminate.
Qed.
End PostFacts.

(** * the file index is irrelevant: it flows through, nothing reads it *)
Definition set_file (f : nat) (i : info) : info := mk_info (i_seed i) f (i_marks i).
Definition rmap {A B} (h : A -> B) (r : res A) : res B :=
  match r with ROk a => ROk (h a) | RErr e => RErr e | RPanic s => RPanic s end.
Definition snd_file {A} (f : nat) (p : A * info) : A * info := (fst p, set_file f (snd p)).

Lemma apply_part_file : forall p (h : str -> info -> res str) x i f,
  (forall s, h s (set_file f i) = h s i) ->
  apply_part p h x (set_file f i) = rmap (snd_file f) (apply_part p h x i).
Proof.
  intros p h x i f Hh. unfold apply_part. destruct p; rewrite Hh.
  - destruct (h (it_in x) i); reflexivity.
  - destruct (h (it_tg x) i); reflexivity.
Qed.

Lemma substring_file : forall subs g x i f,
  substring subs g x (set_file f i) = rmap (snd_file f) (substring subs g x i).
Proof.
  intros subs g x i f. unfold substring. cbn [set_file i_seed].
  destruct (subs (seg_of g (it_in x))) as [poss| |]; cbn [rbind rmap]; [|reflexivity|reflexivity].
  destruct (random_range _ _) as [[idx st]|]; [|reflexivity].
  destruct (nth_error poss (N.to_nat idx)) as [[s e]|]; [|reflexivity].
  destruct (find_sub_ignoring_ws _ _ _); reflexivity.
Qed.

Lemma preproc_file : forall c, has_unmodelled c = false -> forall x i fl,
  preproc opq_std c x (set_file fl i) = rmap (snd_file fl) (preproc opq_std c x i).
Proof.
  induction c using cfg_ind'; intros Hop x i fl; cbn [has_unmodelled] in Hop;
    try (cbn [Pipeline_Model.preproc]; apply apply_part_file; intros; reflexivity);
    try (cbn [Pipeline_Model.preproc]; apply substring_file).
  - reflexivity.
  - (* chain *)
    rewrite !preproc_chain. revert x i. induction l as [|c r IHr]; intros x i; [reflexivity|].
    cbn [existsb] in Hop. apply orb_false_iff in Hop. destruct Hop as [Hc Hr].
    inversion H as [|? ? Hhd Htl]; subst. cbn [chain_run]. rewrite (Hhd Hc x i fl).
    destruct (preproc opq_std c x i) as [[a j]| |]; cbn [rmap snd_file fst snd]; [|reflexivity|reflexivity].
    exact (IHr Htl Hr a j).
  - reflexivity.
  - (* switch *)
    rewrite !preproc_switch. cbn [set_file i_seed]. generalize (switch_choice ps (i_seed i)) as k.
    induction l as [|c r IHr]; intros k; [reflexivity|].
    cbn [existsb] in Hop. apply orb_false_iff in Hop. destruct Hop as [Hc Hr].
    inversion H as [|? ? Hhd Htl]; subst. cbn [pick_run]. destruct k as [|k]; [apply Hhd; assumption|].
    apply IHr; assumption.
  - reflexivity.
  - (* opaque: ids 0 and 1 are JsonDecode *)
    cbn [Pipeline_Model.preproc]. destruct id as [|[|id]]; [| |discriminate]; cbn [opq_std];
      apply apply_part_file; intros; reflexivity.
Qed.

Lemma postproc_file : forall maxlen c, q_has_opaque c = false -> forall x i f,
  postproc qopq_none maxlen c x (set_file f i) = rmap (snd_file f) (postproc qopq_none maxlen c x i).
Proof.
  intros maxlen. induction c using qcfg_ind'; intros Hop x i f; cbn [q_has_opaque] in Hop.
  - reflexivity.
  - rewrite !postproc_chain. revert x i. induction l as [|c r IHr]; intros x i; [reflexivity|].
    cbn [existsb] in Hop. apply orb_false_iff in Hop. destruct Hop as [Hc Hr].
    inversion H as [|? ? Hhd Htl]; subst. cbn [qchain_run]. rewrite (Hhd Hc x i f).
    destruct (postproc qopq_none maxlen c x i) as [[a j]| |]; cbn [rmap snd_file fst snd]; [|reflexivity|reflexivity].
    exact (IHr Htl Hr a j).
  - rewrite !postproc_switch. cbn [set_file i_seed]. generalize (switch_choice ps (i_seed i)) as k.
    induction l as [|c r IHr]; intros k; [reflexivity|].
    cbn [existsb] in Hop. apply orb_false_iff in Hop. destruct Hop as [Hc Hr].
    inversion H as [|? ? Hhd Htl]; subst. cbn [qpick_run]. destruct k as [|k]; [apply Hhd; assumption|].
    apply IHr; assumption.
  - rewrite !postproc_on_mark. cbn [set_file i_marks]. destruct (mark_get k (i_marks i)) as [m|]; [|reflexivity].
    destruct (nlist_eqb m v); [|reflexivity].
    revert x i. induction l as [|c r IHr]; intros x i; [reflexivity|].
    cbn [existsb] in Hop. apply orb_false_iff in Hop. destruct Hop as [Hc Hr].
    inversion H as [|? ? Hhd Htl]; subst. cbn [qchain_run]. rewrite (Hhd Hc x i f).
    destruct (postproc qopq_none maxlen c x i) as [[a j]| |]; cbn [rmap snd_file fst snd]; [|reflexivity|reflexivity].
    exact (IHr Htl Hr a j).
  - rewrite !postproc_switch_on_mark. cbn [set_file i_marks]. destruct (mark_get k (i_marks i)) as [m|]; [|reflexivity].
    destruct (C01_Model.index_of m vs) as [idx|]; [|reflexivity]. revert idx.
    induction l as [|c r IHr]; intros idx; [reflexivity|].
    cbn [existsb] in Hop. apply orb_false_iff in Hop. destruct Hop as [Hc Hr].
    inversion H as [|? ? Hhd Htl]; subst. cbn [qpick_run]. destruct idx as [|idx]; [apply Hhd; assumption|].
    apply IHr; assumption.
  - reflexivity.
  - discriminate.
Qed.

(** the whole item path, global configurations without unmodelled stages: the result is a function of
    (configurations, max_length, item, seed, incoming marks) — the file index does not matter *)
Lemma pipeline_t_file : forall c t q maxlen x i f, has_unmodelled c = false -> q_has_opaque q = false ->
  pipeline_t opq_std qopq_none (PGlobal c) t (QGlobal q) maxlen x (set_file f i) =
  pipeline_t opq_std qopq_none (PGlobal c) t (QGlobal q) maxlen x i.
Proof.
  intros c t q maxlen x i f Hc Hq. unfold pipeline_t, preprocess, postprocess. rewrite (preproc_file c Hc x i f).
  destruct (preproc opq_std c x i) as [[a j]| |]; cbn [rmap rbind snd_file fst snd]; [|reflexivity|reflexivity].
  destruct (task t a) as [inp| |]; cbn [rbind]; [|reflexivity|reflexivity].
  rewrite (postproc_file maxlen q Hq _ j f).
  destruct (postproc qopq_none maxlen q _ j) as [[y k]| |]; reflexivity.
Qed.

Lemma pipeline_t_function_of_seed : forall c t q maxlen x i i', has_unmodelled c = false -> q_has_opaque q = false ->
  i_seed i = i_seed i' -> i_marks i = i_marks i' ->
  pipeline_t opq_std qopq_none (PGlobal c) t (QGlobal q) maxlen x i =
  pipeline_t opq_std qopq_none (PGlobal c) t (QGlobal q) maxlen x i'.
Proof.
  intros c t q maxlen x i i' Hc Hq Hs Hm.
  rewrite <- (pipeline_t_file c t q maxlen x i (i_file i') Hc Hq). f_equal.
  destruct i as [s f m], i' as [s' f' m']. cbn [i_seed i_marks i_file set_file] in *. subst. reflexivity.
Qed.

(** what the pipeline's Ok result looks like, for every configuration without TokenMasking: the data is what the
    preprocessing returns, the task input is the task's, cut by the postprocessing; alignment of the task's output
    survives *)
Lemma pipeline_t_ok : forall opq p t q maxlen x i y, qp_has_opaque q = false ->
  pipeline_t opq qopq_none p t q maxlen x i = ROk y ->
  exists a j inp, preprocess opq p x i = ROk (a, j) /\ task t a = ROk inp /\
    x_data y = a /\ tin_prefix (x_in y) inp /\ (aligned inp -> aligned (x_in y)).
Proof.
  intros opq p t q maxlen x i y Hq H. unfold pipeline_t in H.
  destruct (preprocess opq p x i) as [[a j]| |]; cbn [rbind fst snd] in H; [|discriminate|discriminate].
  destruct (task t a) as [inp| |] eqn:Et; cbn [rbind] in H; [|discriminate|discriminate].
  assert (Hrel : post_rel (mk_xitem a inp) j (postprocess qopq_none maxlen q (mk_xitem a inp) j)).
  { unfold postprocess. destruct q as [c|l]; cbn [qp_has_opaque] in Hq.
    - apply postproc_rel. exact Hq.
    - destruct (nth_error l (i_file j)) as [c|] eqn:E; [|exact Logic.I]. apply postproc_rel.
      apply nth_error_In in E. destruct (q_has_opaque c) eqn:Eo; [|reflexivity].
      assert (existsb q_has_opaque l = true) by (apply existsb_exists; eauto). congruence. }
  destruct (postprocess qopq_none maxlen q (mk_xitem a inp) j) as [[y' k]| |]; cbn [rbind fst post_rel] in *;
    [|discriminate|discriminate].
  injection H as <-. destruct Hrel as (_ & Hd & Hp & Ha). cbn [x_data x_in] in *.
  exists a, j, inp. repeat split; assumption.
Qed.

(** * JsonDecode: a string printed by serde_json is decoded to itself; the decoded text of a printed string literal
    surrounded by json whitespace likewise (JSON_Props.json_string_roundtrip underneath) *)
Lemma json_decode_roundtrip : forall s, json_decode (json_string s) = ROk s.
Proof.
  intros s. unfold json_decode.
  pose proof (JSON_Roundtrip.json_roundtrip_l (JStr s)) as H.
  cbn [print] in H. rewrite H; [reflexivity|reflexivity|cbn; lia].
Qed.

(** * the executable statement of the item line holds of the model's own output *)
Lemma check_item_run_with : forall opq unm v, check_item v (run_item_with opq unm v) = true \/ run_item_with opq unm v = v_outside.
Proof.
  intros opq unm v. unfold run_item_with.
  destruct (negb (pcfg_dom _) || negb (qpcfg_dom _) || unm _ || qp_has_opaque _); [right; reflexivity|].
  left. destruct (v_task (v_nth 2 v)) as [t|]; [|reflexivity].
  destruct (negb (pcfg_ok _) || negb (qpcfg_ok _)); [reflexivity|].
  destruct (pipeline_t _ _ _ _ _ _ _ _) as [y| |]; [|reflexivity|reflexivity].
  destruct (x_in y); reflexivity.
Qed.

Lemma check_item_run : forall v, check_item v (run_item v) = true \/ run_item v = v_outside.
Proof. intros v. apply check_item_run_with. Qed.

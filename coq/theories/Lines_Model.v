(** Lines: the loader's line reader (src/data/loading.rs:23-93), from file bytes to strings.

      count_lines(p)  = LossyUtf8Reader::new(BufReader::new(open(p)?)).lines().count()
      LossyUtf8Lines::next:
          let mut buf = vec![];
          match self.reader.read_until(b'\n', &mut buf) {
              Ok(0) => None,
              Ok(_) => { strip the line terminator; Some(Ok(String::from_utf8_lossy(&buf).to_string())) }
              Err(e) => Some(Err(..)) }                       (an I/O error: outside the model)

    [read_until] (std/src/io/mod.rs): appends the bytes up to and INCLUDING the first 10, or all
    remaining bytes when there is none.  [String::from_utf8_lossy] = [Utf8Chunks] (core/src/str/lossy.rs):
    one U+FFFD per maximal invalid subpart (the lead byte and the continuation bytes accepted so far; the
    offending byte starts the next chunk).  The terminator rule is the REPAIRED one (/repo 833c360): the final '\n'
    is removed if there is one, then a '\r' before it; the pinned tree popped the last byte unconditionally
    ([strip_eol_pinned], kept for [lines_pinned_truncates]).  Definitions only. *)
From TU Require Import Base C01_Model.
Open Scope N_scope.

(** * read_until(b'\n') *)
Fixpoint read_until_nl (b : list byte) : list byte * list byte :=
  match b with
  | [] => ([], [])
  | x :: r => if x =? 10 then ([x], r)
              else let (c, r') := read_until_nl r in (x :: c, r')
  end.

(** all chunks the iterator reads, in order: structural form (proved equal to iterating
    [read_until_nl] until it returns 0 bytes: Lines_Proofs.chunks_unfold) *)
Definition cons_chunk (x : byte) (cs : list (list byte)) : list (list byte) :=
  match cs with [] => [[x]] | c :: cs' => (x :: c) :: cs' end.
Fixpoint chunks (b : list byte) : list (list byte) :=
  match b with
  | [] => []
  | x :: r => if x =? 10 then [x] :: chunks r else cons_chunk x (chunks r)
  end.

(** * the line terminator *)
(** repaired (/repo 833c360):  if buf.last() == Some(&b'\n') { buf.pop(); if buf.last() == Some(&b'\r') { buf.pop(); } } *)
Definition strip_eol (c : list byte) : list byte :=
  if last c 0 =? 10 then
    let c1 := removelast c in
    if last c1 0 =? 13 then removelast c1 else c1
  else c.

(** pinned tree:  buf.pop(); if !buf.is_empty() && *buf.last().unwrap() == b'\r' { buf.pop(); } *)
Definition strip_eol_pinned (c : list byte) : list byte :=
  let c1 := removelast c in
  if last c1 0 =? 13 then removelast c1 else c1.

(** * String::from_utf8_lossy *)
Definition REPL : cp := 65533.

(** core::str::validations::utf8_char_width on a non-ASCII lead byte *)
Definition char_width (b : byte) : N :=
  if b <? 194 then 0 else if b <? 224 then 2 else if b <? 240 then 3 else if b <? 245 then 4 else 0.

(** the (lead, second byte) tables of Utf8Chunks::next *)
Definition ok3 (b0 b1 : byte) : bool :=
  if b0 =? 224 then (160 <=? b1) && (b1 <=? 191)
  else if b0 =? 237 then (128 <=? b1) && (b1 <=? 159)
  else (128 <=? b1) && (b1 <=? 191).
Definition ok4 (b0 b1 : byte) : bool :=
  if b0 =? 240 then (144 <=? b1) && (b1 <=? 191)
  else if b0 =? 244 then (128 <=? b1) && (b1 <=? 143)
  else (128 <=? b1) && (b1 <=? 191).

Definition cp2 (b0 b1 : byte) : cp := (b0 - 192) * 64 + (b1 - 128).
Definition cp3 (b0 b1 b2 : byte) : cp := (b0 - 224) * 4096 + (b1 - 128) * 64 + (b2 - 128).
Definition cp4 (b0 b1 b2 b3 : byte) : cp :=
  (b0 - 240) * 262144 + (b1 - 128) * 4096 + (b2 - 128) * 64 + (b3 - 128).

(** every [REPL :: lossy r] below is one invalid chunk: the bytes before [r] since the last
    decoded character; decoding resumes AT the offending byte (it is not consumed) *)
Fixpoint lossy (l : list byte) : str :=
  match l with
  | [] => []
  | b0 :: r0 =>
    if b0 <? 128 then b0 :: lossy r0
    else if char_width b0 =? 2 then
      match r0 with
      | b1 :: r1 => if cont b1 then cp2 b0 b1 :: lossy r1 else REPL :: lossy r0
      | [] => REPL :: lossy r0
      end
    else if char_width b0 =? 3 then
      match r0 with
      | b1 :: r1 =>
        if ok3 b0 b1 then
          match r1 with
          | b2 :: r2 => if cont b2 then cp3 b0 b1 b2 :: lossy r2 else REPL :: lossy r1
          | [] => REPL :: lossy r1
          end
        else REPL :: lossy r0
      | [] => REPL :: lossy r0
      end
    else if char_width b0 =? 4 then
      match r0 with
      | b1 :: r1 =>
        if ok4 b0 b1 then
          match r1 with
          | b2 :: r2 =>
            if cont b2 then
              match r2 with
              | b3 :: r3 => if cont b3 then cp4 b0 b1 b2 b3 :: lossy r3 else REPL :: lossy r2
              | [] => REPL :: lossy r2
              end
            else REPL :: lossy r1
          | [] => REPL :: lossy r1
          end
        else REPL :: lossy r0
      | [] => REPL :: lossy r0
      end
    else REPL :: lossy r0
  end.

(** * The iterator *)
(** one call of LossyUtf8Lines::next on the remaining bytes: [None] = Ok(0) *)
Definition next_line (b : list byte) : option (str * list byte) :=
  match b with
  | [] => None
  | _ => let (c, r) := read_until_nl b in Some (lossy (strip_eol c), r)
  end.

(** [.lines()] drained *)
Definition lossy_lines (b : list byte) : list str := map (fun c => lossy (strip_eol c)) (chunks b).

(** [count_lines]: the same iterator, counted; every read chunk is one item whatever it decodes to *)
Definition count_lines (b : list byte) : nat := length (chunks b).

(** the closed form proved equal to it (Lines_Proofs.count_lines_closed): the number of '\n' bytes, plus one for a
    non-empty unterminated last line *)
Definition count_nl (b : list byte) : nat := length (filter (N.eqb 10) b).
Definition count_lines_spec (b : list byte) : nat :=
  Nat.add (count_nl b) (match b with [] => O | _ => if last b 0 =? 10 then O else S O end).

(** the pinned tree *)
Definition lossy_lines_pinned (b : list byte) : list str := map (fun c => lossy (strip_eol_pinned c)) (chunks b).

(** * Writing files *)
Definition LF : list byte := [10].
Definition CRLF : list byte := [13; 10].
(** a line and whether it is written with CR LF *)
Definition file_of (lines : list (str * bool)) : list byte :=
  flat_map (fun l : str * bool => utf8s (fst l) ++ (if snd l then CRLF else LF)) lines.

Definition no_nl (s : str) : bool := forallb (fun c => negb (c =? 10)) s.
Definition not_cr_end (s : str) : bool := negb (last s 0 =? 13).

From TU Require Import Base C11_Model.
From Coq Require Import Lia.
Open Scope N_scope.

Lemma remove_def seg : remove seg = concat (strip_cl seg).
Proof. reflexivity. Qed.

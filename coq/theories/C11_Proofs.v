From TU Require Import Base C11_Model.
From Coq Require Import Lia.
Open Scope N_scope.

(** * A. maximal runs: facts that determine [wordsP] *)
Section WordsP.
  Context {A : Type} (ws : A -> bool).
  Let nws := fun x => negb (ws x).

  Definition wordok (w : list A) : Prop := w <> [] /\ forallb nws w = true.

  Lemma wordsP_head_nonempty l : head_is nws l = true -> wordsP ws l <> [].
  Proof.
    destruct l as [|c r]; cbn; [discriminate|]. unfold nws. intros H.
    destruct (ws c); [discriminate|]. unfold attach.
    destruct (head_is _ r); [destruct (wordsP ws r)|]; discriminate.
  Qed.

  Lemma wordsP_app_ws g x : forallb ws g = true -> wordsP ws (g ++ x) = wordsP ws x.
  Proof.
    induction g as [|c g IH]; cbn; [reflexivity|]. intros H.
    apply andb_true_iff in H as [H1 H2]. rewrite H1. auto.
  Qed.

  Lemma wordsP_allws g : forallb ws g = true -> wordsP ws g = [].
  Proof. intros H. rewrite <- (app_nil_r g). rewrite wordsP_app_ws; auto. Qed.

  (** a non-empty whitespace-free run in front of [x] *)
  Lemma wordsP_app_word w x :
    w <> [] -> forallb nws w = true ->
    wordsP ws (w ++ x) =
      if head_is nws x
      then match wordsP ws x with y :: rest => (w ++ y) :: rest | [] => [w] end
      else w :: wordsP ws x.
  Proof.
    induction w as [|c w IH]; [congruence|]. intros _ H. cbn in H.
    apply andb_true_iff in H as [Hc Hw]. unfold nws in Hc. apply negb_true_iff in Hc.
    cbn [app wordsP]. rewrite Hc.
    destruct w as [|d w].
    - cbn [app]. unfold attach. destruct (head_is _ x); reflexivity.
    - rewrite IH; [|discriminate|exact Hw].
      cbn [app head_is]. cbn in Hw. apply andb_true_iff in Hw as [Hd _]. unfold nws in Hd. rewrite Hd.
      unfold attach. destruct (head_is nws x).
      + destruct (wordsP ws x); reflexivity.
      + reflexivity.
  Qed.

  Lemma wordsP_word w : w <> [] -> forallb nws w = true -> wordsP ws w = [w].
  Proof.
    intros H1 H2. rewrite <- (app_nil_r w) at 1. rewrite wordsP_app_word by assumption. reflexivity.
  Qed.

  Lemma wordsP_word_ws w c x :
    w <> [] -> forallb nws w = true -> ws c = true -> wordsP ws (w ++ c :: x) = w :: wordsP ws x.
  Proof.
    intros H1 H2 Hc. rewrite wordsP_app_word by assumption. cbn [head_is wordsP]. unfold nws at 1.
    rewrite Hc. reflexivity.
  Qed.

  Lemma attach_app (c : A) opn (W1 W2 : list (list A)) :
    (opn = true -> W1 <> []) -> attach c opn (W1 ++ W2) = attach c opn W1 ++ W2.
  Proof.
    unfold attach. destruct opn; [|reflexivity]. intros H. destruct W1; [exfalso; apply (H eq_refl); reflexivity|reflexivity].
  Qed.

  (** splitting at a whitespace element splits the words *)
  Lemma wordsP_split a c b : ws c = true -> wordsP ws (a ++ c :: b) = wordsP ws a ++ wordsP ws b.
  Proof.
    intros Hc. induction a as [|x a IH]; cbn [app wordsP].
    - rewrite Hc. reflexivity.
    - destruct (ws x); [exact IH|]. rewrite IH. fold nws.
      assert (E : head_is nws (a ++ c :: b) = head_is nws a).
      { destruct a; cbn; [unfold nws; rewrite Hc; reflexivity|reflexivity]. }
      rewrite E. apply attach_app. apply wordsP_head_nonempty.
  Qed.

  Lemma wordsP_ok l : Forall wordok (wordsP ws l).
  Proof.
    induction l as [|c r IH]; cbn [wordsP]; [constructor|].
    destruct (ws c) eqn:Ec; [exact IH|]. unfold attach.
    assert (Hc : nws c = true) by (unfold nws; rewrite Ec; reflexivity).
    destruct (head_is _ r).
    - destruct (wordsP ws r) as [|y rest].
      + constructor; [|constructor]. split; [discriminate|]. cbn. rewrite Hc. reflexivity.
      + inversion IH as [|? ? [Hy1 Hy2] Hr]; subst. constructor; [|exact Hr].
        split; [discriminate|]. cbn. rewrite Hc. exact Hy2.
    - constructor; [|exact IH]. split; [discriminate|]. cbn. rewrite Hc. reflexivity.
  Qed.
End WordsP.

(** * B. join *)
Lemma join_cons {A} (sep w : list A) r : r <> [] -> join sep (w :: r) = w ++ sep ++ join sep r.
Proof. destruct r; [congruence|reflexivity]. Qed.

Lemma join_one {A} (sep w : list A) : join sep [w] = w.
Proof. reflexivity. Qed.

(** * C. clean on code points *)
Fixpoint clean_cp (lw ne : bool) (s : str) : str :=
  match s with
  | [] => []
  | c :: r => if is_ws c then clean_cp true ne r
              else (if lw && ne then [32] else []) ++ c :: clean_cp false true r
  end.

Lemma head_ws_nonws (s : str) : head_is nonws_cp s = true -> head_is is_ws s = false.
Proof. destruct s; cbn; [reflexivity|]. unfold nonws_cp. apply negb_true_iff. Qed.

Lemma join_attach (c : cp) (r : str) :
  join [32] (attach c (head_is nonws_cp r) (words r)) =
  c :: match words r with
       | [] => []
       | _ :: _ => (if head_is is_ws r then [32] else []) ++ join [32] (words r)
       end.
Proof.
  destruct r as [|d r']; [reflexivity|].
  cbn [head_is]. unfold nonws_cp at 1. destruct (is_ws d) eqn:Ed; cbn [negb attach].
  - destruct (words (d :: r')) eqn:Ew; [reflexivity|]. rewrite join_cons by discriminate. reflexivity.
  - assert (Hne : wordsP is_ws (d :: r') <> []).
    { apply wordsP_head_nonempty. cbn [head_is]. rewrite Ed. reflexivity. }
    unfold words. destruct (wordsP is_ws (d :: r')) as [|x rest]; [congruence|].
    cbn [app]. destruct rest; reflexivity.
Qed.

Lemma clean_cp_true s : forall lw,
  clean_cp lw true s =
  match words s with
  | [] => []
  | _ :: _ => (if lw || head_is is_ws s then [32] else []) ++ join [32] (words s)
  end.
Proof.
  induction s as [|c r IH]; intros lw; [reflexivity|].
  cbn [clean_cp]. unfold words in *. cbn [wordsP head_is]. destruct (is_ws c) eqn:Ec.
  - rewrite IH. rewrite orb_true_r. reflexivity.
  - rewrite IH. rewrite andb_true_r, orb_false_r. cbn [orb].
    pose proof (join_attach c r) as J. unfold words, nonws_cp in J.
    destruct (attach c _ (wordsP is_ws r)) eqn:Ea.
    + exfalso. unfold attach in Ea. destruct (head_is _ r); [destruct (wordsP is_ws r)|]; discriminate.
    + rewrite J. destruct lw; reflexivity.
Qed.

Lemma clean_cp_false s : forall lw, clean_cp lw false s = join [32] (words s).
Proof.
  induction s as [|c r IH]; intros lw; [reflexivity|].
  cbn [clean_cp]. unfold words in *. cbn [wordsP]. destruct (is_ws c) eqn:Ec.
  - apply IH.
  - rewrite andb_false_r. cbn [app]. rewrite clean_cp_true.
    pose proof (join_attach c r) as J. unfold words, nonws_cp in J. rewrite J. reflexivity.
Qed.

(** * D. from clusters to code points *)
Lemma forallb_rev {A} (p : A -> bool) l : forallb p (rev l) = forallb p l.
Proof.
  induction l as [|x l IH]; cbn [rev forallb]; [reflexivity|].
  rewrite forallb_app, IH. cbn [forallb]. rewrite andb_true_r. apply andb_comm.
Qed.

Lemma dropws_nonws s : forallb nonws_cp s = true -> dropws s = s.
Proof.
  destruct s as [|c r]; [reflexivity|]. cbn [forallb dropws]. unfold nonws_cp at 1. intros H.
  apply andb_true_iff in H as [H _]. apply negb_true_iff in H. rewrite H. reflexivity.
Qed.

Lemma trim_nonws c : forallb nonws_cp c = true -> trim c = c.
Proof.
  intros H. unfold trim. rewrite (dropws_nonws c H).
  rewrite dropws_nonws by (rewrite forallb_rev; exact H). apply rev_involutive.
Qed.

Lemma clean_cp_app_ws g x ne : forall lw,
  g <> [] -> forallb is_ws g = true -> clean_cp lw ne (g ++ x) = clean_cp true ne x.
Proof.
  induction g as [|c g IH]; intros lw Hne H; [congruence|].
  cbn [forallb] in H. apply andb_true_iff in H as [Hc Hg]. cbn [app clean_cp]. rewrite Hc.
  destruct g as [|d g]; [reflexivity|]. apply IH; [discriminate|exact Hg].
Qed.

Lemma clean_cp_app_word w x : forall lw ne,
  w <> [] -> forallb nonws_cp w = true ->
  clean_cp lw ne (w ++ x) = (if lw && ne then [32] else []) ++ w ++ clean_cp false true x.
Proof.
  induction w as [|c w IH]; intros lw ne Hne H; [congruence|].
  cbn [forallb] in H. apply andb_true_iff in H as [Hc Hw]. unfold nonws_cp in Hc.
  apply negb_true_iff in Hc. cbn [app clean_cp]. rewrite Hc.
  destruct w as [|d w]; [reflexivity|].
  rewrite IH; [|discriminate|exact Hw]. cbn [andb app]. reflexivity.
Qed.

Lemma wf_seg_cons c r :
  wf_seg (c :: r) = true ->
  c <> [] /\ (cl_ws c = true \/ (cl_ws c = false /\ forallb nonws_cp c = true)) /\ wf_seg r = true.
Proof.
  unfold wf_seg. cbn [forallb]. intros H. apply andb_true_iff in H as [H1 H2].
  apply andb_true_iff in H1 as [Hn Hm]. split.
  { destruct c; [cbn in Hn; discriminate|discriminate]. }
  split; [|exact H2]. unfold nomixed_cl in Hm.
  destruct (cl_ws c); [left; reflexivity|right; split; [reflexivity|exact Hm]].
Qed.

Lemma clean_aux_cp seg : forall lw ne,
  wf_seg seg = true -> clean_aux lw ne seg = clean_cp lw ne (concat seg).
Proof.
  induction seg as [|c r IH]; intros lw ne H; [reflexivity|].
  apply wf_seg_cons in H as (Hne & Hm & Hr). cbn [clean_aux concat].
  destruct Hm as [Hw|[Hw Hn]]; rewrite Hw.
  - unfold cl_ws in Hw. rewrite clean_cp_app_ws by assumption. apply IH; exact Hr.
  - cbv zeta. rewrite (trim_nonws c Hn).
    assert (Hnil : is_nil c = false) by (destruct c; [congruence|reflexivity]).
    rewrite Hnil. cbn [negb]. rewrite orb_true_r.
    rewrite clean_cp_app_word by assumption. rewrite IH by exact Hr. reflexivity.
Qed.

Lemma clean_spec_seg seg : wf_seg seg = true -> clean seg = join [32] (words (concat seg)).
Proof. intros H. unfold clean. rewrite clean_aux_cp by exact H. apply clean_cp_false. Qed.

Lemma concat_singletons (s : str) : concat (singletons s) = s.
Proof. induction s as [|c r IH]; cbn [singletons map concat app]; [reflexivity|]. f_equal. exact IH. Qed.

Lemma wf_singletons (s : str) : wf_seg (singletons s) = true.
Proof.
  unfold wf_seg, singletons. induction s as [|c r IH]; cbn [map forallb]; [reflexivity|].
  rewrite IH, andb_true_r. unfold nomixed_cl, cl_ws, nonws_cp. cbn [forallb is_nil negb andb].
  rewrite !andb_true_r. destruct (is_ws c); reflexivity.
Qed.

Lemma clean_spec_cp s : clean (singletons s) = join [32] (words s).
Proof. rewrite clean_spec_seg by apply wf_singletons. rewrite concat_singletons. reflexivity. Qed.

(** * E. the result is whitespace-clean *)
Definition cwordok (w : str) : Prop := w <> [] /\ forallb nonws_cp w = true.

Lemma words_ok s : Forall cwordok (words s).
Proof. exact (wordsP_ok is_ws s). Qed.

Lemma scs_app_word w y : forallb nonws_cp w = true -> scs (w ++ y) = scs y.
Proof.
  induction w as [|c w IH]; [reflexivity|]. cbn [forallb app scs]. intros H.
  apply andb_true_iff in H as [Hc Hw]. unfold nonws_cp in Hc. apply negb_true_iff in Hc.
  rewrite Hc. cbn [andb]. auto.
Qed.

Lemma head_app_word w y : w <> [] -> forallb nonws_cp w = true -> head_is nonws_cp (w ++ y) = true.
Proof.
  destruct w as [|c w]; [congruence|]. intros _ H. cbn [forallb] in H.
  apply andb_true_iff in H as [Hc _]. exact Hc.
Qed.

Lemma ws32 : is_ws 32 = true.
Proof. reflexivity. Qed.

Lemma scs_join W :
  Forall cwordok W ->
  scs (join [32] W) = true /\ (W <> [] -> head_is nonws_cp (join [32] W) = true).
Proof.
  induction W as [|w r IH]; intros H; [split; [reflexivity|congruence]|].
  inversion H as [|? ? [Hw1 Hw2] Hr]; subst. destruct (IH Hr) as [IH1 IH2].
  destruct r as [|w' r'].
  - cbn [join]. split.
    + rewrite <- (app_nil_r w). rewrite scs_app_word by exact Hw2. reflexivity.
    + intros _. rewrite <- (app_nil_r w). apply head_app_word; assumption.
  - unfold str, cp in *. rewrite join_cons by discriminate. split.
    + rewrite scs_app_word by exact Hw2. cbn [app scs]. rewrite ws32. unfold str, cp in *.
      rewrite IH1, IH2 by discriminate. reflexivity.
    + intros _. apply head_app_word; assumption.
Qed.

Lemma cleansb_join W : Forall cwordok W -> cleansb (join [32] W) = true.
Proof.
  intros H. destruct (scs_join W H) as [H1 H2]. unfold cleansb. rewrite H1, andb_true_r.
  destruct W as [|w r]; [reflexivity|]. rewrite head_ws_nonws; [reflexivity|].
  apply H2. discriminate.
Qed.

Lemma clean_clean_seg seg : wf_seg seg = true -> cleansb (clean seg) = true.
Proof. intros H. rewrite clean_spec_seg by exact H. apply cleansb_join, words_ok. Qed.

(** * F. idempotence *)
Lemma words_join W : Forall cwordok W -> words (join [32] W) = W.
Proof.
  induction W as [|w r IH]; intros H; [reflexivity|].
  inversion H as [|? ? [Hw1 Hw2] Hr]; subst. destruct r as [|w' r'].
  - cbn [join]. apply (wordsP_word is_ws); assumption.
  - unfold str, cp in *. rewrite join_cons by discriminate. cbn [app]. unfold words.
    rewrite (wordsP_word_ws is_ws) by (assumption || reflexivity).
    f_equal. apply IH. exact Hr.
Qed.

Lemma clean_idem_seg seg seg' :
  wf_seg seg = true -> concat seg' = clean seg -> wf_seg seg' = true -> clean seg' = clean seg.
Proof.
  intros H Hc H'. rewrite (clean_spec_seg seg') by exact H'. rewrite Hc.
  rewrite (clean_spec_seg seg) by exact H. rewrite words_join by apply words_ok. reflexivity.
Qed.

Lemma clean_idem_cp s : clean (singletons (clean (singletons s))) = clean (singletons s).
Proof.
  apply clean_idem_seg; [apply wf_singletons|apply concat_singletons|apply wf_singletons].
Qed.

(** * G. the non-whitespace code points survive, in order (every segmentation) *)
Lemma strip_cps_app a b : strip_cps (a ++ b) = strip_cps a ++ strip_cps b.
Proof. apply filter_app. Qed.

Lemma strip_dropws s : strip_cps (dropws s) = strip_cps s.
Proof.
  induction s as [|c r IH]; [reflexivity|]. cbn [dropws]. destruct (is_ws c) eqn:E; [|reflexivity].
  rewrite IH. unfold strip_cps. cbn [filter]. unfold nonws_cp at 2. rewrite E. reflexivity.
Qed.

Lemma strip_rev s : strip_cps (rev s) = rev (strip_cps s).
Proof.
  induction s as [|c r IH]; [reflexivity|]. cbn [rev]. rewrite strip_cps_app, IH.
  unfold strip_cps. cbn [filter]. destruct (nonws_cp c); cbn [rev app]; [reflexivity|apply app_nil_r].
Qed.

Lemma strip_trim c : strip_cps (trim c) = strip_cps c.
Proof. unfold trim. rewrite strip_rev, strip_dropws, strip_rev, strip_dropws. apply rev_involutive. Qed.

Lemma strip_ws_cluster c : cl_ws c = true -> strip_cps c = [].
Proof.
  unfold cl_ws, strip_cps. induction c as [|x c IH]; [reflexivity|]. cbn [forallb filter].
  intros H. apply andb_true_iff in H as [H1 H2]. unfold nonws_cp at 1. rewrite H1. cbn [negb]. auto.
Qed.

Lemma clean_aux_nonws seg : forall lw ne, strip_cps (clean_aux lw ne seg) = strip_cps (concat seg).
Proof.
  induction seg as [|c r IH]; intros lw ne; [reflexivity|]. cbn [clean_aux concat].
  rewrite (strip_cps_app c). destruct (cl_ws c) eqn:E.
  - rewrite IH, (strip_ws_cluster c E). reflexivity.
  - cbv zeta. rewrite !strip_cps_app, strip_trim, IH.
    destruct (lw && ne)%bool; reflexivity.
Qed.

Lemma clean_nonws_seg seg : strip_cps (clean seg) = strip_cps (concat seg).
Proof. apply clean_aux_nonws. Qed.

(** * H. word boundaries *)
Lemma firstn_exact {A} (a b : list A) : firstn (length a) (a ++ b) = a.
Proof. induction a as [|x a IH]; cbn [length firstn app]; [destruct b; reflexivity|]. f_equal. exact IH. Qed.

Lemma skipn_exact {A} (a b : list A) : skipn (length a) (a ++ b) = b.
Proof. induction a as [|x a IH]; cbn [length skipn app]; [reflexivity|exact IH]. Qed.

Lemma skipn_skipn {A} (x y : nat) (l : list A) : skipn x (skipn y l) = skipn (x + y) l.
Proof.
  revert l. induction y as [|y IH]; intros l.
  - rewrite Nat.add_0_r. reflexivity.
  - rewrite Nat.add_succ_r. destruct l as [|a l]; cbn [skipn]; [apply skipn_nil|apply IH].
Qed.

Definition st_of (lo : nat) (g w : list cluster) : option nat :=
  match w with [] => None | _ :: _ => Some (lo + length g)%nat end.

Lemma tile_cons_ok lo g w rest wbs :
  forallb cl_ws g = true -> forallb nonws_cl w = true -> w <> [] ->
  head_is nonws_cl rest = false ->
  tile (lo + length g + length w) rest wbs = true ->
  tile lo (g ++ w ++ rest) ((lo + length g, lo + length g + length w)%nat :: wbs) = true.
Proof.
  intros Hg Hw Hne Hh Ht. cbn [tile].
  assert (Hlw : (0 < length w)%nat) by (destruct w; [congruence|cbn [length]; lia]).
  replace (lo + length g - lo)%nat with (length g) by lia.
  replace (lo + length g + length w - (lo + length g))%nat with (length w) by lia.
  replace (lo + length g + length w - lo)%nat with (length (g ++ w)) by (rewrite app_length; lia).
  rewrite firstn_exact, skipn_exact, firstn_exact.
  rewrite (app_assoc g w rest), skipn_exact. rewrite Hg, Hw, Hh, Ht.
  rewrite !app_length.
  assert (E1 : Nat.leb lo (lo + length g) = true) by (apply Nat.leb_le; lia).
  assert (E2 : Nat.ltb (lo + length g) (lo + length g + length w) = true) by (apply Nat.ltb_lt; lia).
  assert (E3 : Nat.leb (length g + length w) (length g + length w + length rest) = true) by (apply Nat.leb_le; lia).
  rewrite E1, E2, E3. reflexivity.
Qed.

Lemma tile_wb chars : forall lo g w,
  forallb cl_ws g = true -> forallb nonws_cl w = true ->
  tile lo (g ++ w ++ chars) (wb_aux (lo + length g + length w) (st_of lo g w) chars) = true.
Proof.
  induction chars as [|c r IH]; intros lo g w Hg Hw.
  - destruct w as [|d w'].
    + cbn [st_of wb_aux tile app]. rewrite app_nil_r. exact Hg.
    + cbn [st_of wb_aux].
      assert (E : Nat.ltb (lo + length g) (lo + length g + length (d :: w')) = true)
        by (apply Nat.ltb_lt; cbn [length]; lia).
      rewrite E. apply tile_cons_ok; try assumption; [discriminate|reflexivity|reflexivity].
  - cbn [wb_aux]. destruct (cl_ws c) eqn:Hc.
    + destruct w as [|d w'].
      * cbn [st_of].
        specialize (IH lo (g ++ [c]) [] ).
        rewrite forallb_app in IH. cbn [forallb] in IH. rewrite Hg, Hc in IH.
        specialize (IH eq_refl eq_refl). cbn [st_of] in IH.
        rewrite app_length in IH. cbn [length app] in IH. cbn [app length].
        rewrite <- app_assoc in IH. cbn [app] in IH.
        replace (S (lo + length g + 0)) with (lo + (length g + 1) + 0)%nat by lia. exact IH.
      * cbn [st_of]. apply tile_cons_ok; try assumption; [discriminate| |].
        { cbn [head_is]. unfold nonws_cl. rewrite Hc. reflexivity. }
        specialize (IH (lo + length g + length (d :: w'))%nat [c] []).
        cbn [forallb] in IH. rewrite Hc in IH. specialize (IH eq_refl eq_refl).
        cbn [st_of app length] in IH. cbn [length].
        replace (S (lo + length g + S (length w'))) with (lo + length g + S (length w') + 1 + 0)%nat by lia.
        exact IH.
    + assert (Hn : nonws_cl c = true) by (unfold nonws_cl; rewrite Hc; reflexivity).
      destruct w as [|d w'].
      * cbn [st_of]. specialize (IH lo g [c] Hg). cbn [forallb] in IH. rewrite Hn in IH.
        specialize (IH eq_refl). cbn [st_of length app] in IH. cbn [app length].
        replace (S (lo + length g + 0)) with (lo + length g + 1)%nat by lia.
        replace (lo + length g + 0)%nat with (lo + length g)%nat by lia. exact IH.
      * cbn [st_of]. specialize (IH lo g ((d :: w') ++ [c]) Hg).
        rewrite forallb_app in IH. cbn [forallb] in IH. rewrite Hn in IH.
        cbn [forallb] in Hw. rewrite Hw in IH. specialize (IH eq_refl).
        cbn [st_of app length] in IH. rewrite app_length in IH. cbn [length] in IH.
        rewrite <- app_assoc in IH. cbn [app] in IH. cbn [length app].
        replace (S (lo + length g + S (length w'))) with (lo + length g + S (length w' + 1))%nat by lia.
        exact IH.
Qed.

Lemma tile_model seg : tile 0 seg (word_boundaries seg) = true.
Proof. exact (tile_wb seg 0%nat [] [] eq_refl eq_refl). Qed.

(** any list of ranges accepted by [tile] is the list of word ranges *)
Lemma tile_sound seg : forall wbs lo,
  tile lo (skipn lo seg) wbs = true -> map (sub seg) wbs = words_cl (skipn lo seg).
Proof.
  induction wbs as [|[a b] wbs IH]; intros lo H; cbn [tile] in H.
  - cbn [map]. symmetry. apply wordsP_allws. exact H.
  - repeat (apply andb_true_iff in H; destruct H as [H ?]).
    rename H0 into Ht, H1 into Hh, H2 into Hw, H3 into Hg, H4 into Hlen, H5 into Hab.
    apply Nat.leb_le in H. apply Nat.ltb_lt in Hab. apply Nat.leb_le in Hlen.
    apply negb_true_iff in Hh.
    set (l := skipn lo seg) in *.
    assert (Hsk : forall k, skipn k l = skipn (k + lo) seg) by (intros k; unfold l; apply skipn_skipn).
    assert (Ea : skipn (a - lo) l = skipn a seg) by (rewrite Hsk; f_equal; lia).
    assert (Eb : skipn (b - lo) l = skipn b seg) by (rewrite Hsk; f_equal; lia).
    rewrite Ea in Hw. rewrite Eb in Hh, Ht.
    cbn [map]. rewrite (IH b Ht). unfold sub at 1. cbn [fst snd].
    (* decompose l = gap ++ word ++ rest *)
    assert (Dl : l = firstn (a - lo) l ++ firstn (b - a) (skipn a seg) ++ skipn b seg).
    { rewrite <- (firstn_skipn (a - lo) l) at 1. f_equal. rewrite Ea.
      rewrite <- (firstn_skipn (b - a) (skipn a seg)) at 1. f_equal.
      rewrite skipn_skipn. f_equal. lia. }
    rewrite Dl at 1. unfold words_cl. rewrite wordsP_app_ws by exact Hg.
    assert (Hne : firstn (b - a) (skipn a seg) <> []).
    { intros E. apply (f_equal (@length _)) in E. rewrite firstn_length in E. cbn [length] in E.
      assert (length (skipn a seg) = length seg - a)%nat by apply skipn_length.
      assert (length l = length seg - lo)%nat by (unfold l; apply skipn_length). lia. }
    rewrite (wordsP_app_word cl_ws) by assumption.
    fold nonws_cl. change (fun x => negb (cl_ws x)) with nonws_cl. rewrite Hh. reflexivity.
Qed.

Lemma wb_words_cl seg : map (sub seg) (word_boundaries seg) = words_cl seg.
Proof. exact (tile_sound seg (word_boundaries seg) 0%nat (tile_model seg)). Qed.

(** ranges are in increasing order, separated, inside the text *)
Fixpoint incr (lo : nat) (first : bool) (n : nat) (wbs : list (nat * nat)) : Prop :=
  match wbs with
  | [] => True
  | (a, b) :: r => (if first then lo <= a else lo < a)%nat /\ (a < b)%nat /\ (b <= n)%nat /\ incr b false n r
  end.

Lemma tile_incr seg : forall wbs lo first,
  (lo <= length seg)%nat ->
  (first = false -> head_is nonws_cl (skipn lo seg) = false) ->
  tile lo (skipn lo seg) wbs = true -> incr lo first (length seg) wbs.
Proof.
  induction wbs as [|[a b] wbs IH]; intros lo first Hlo Hf H; cbn [tile incr] in *; [exact Logic.I|].
  repeat (apply andb_true_iff in H; destruct H as [H ?]).
  rename H0 into Ht, H1 into Hh, H2 into Hw, H3 into Hg, H4 into Hlen, H5 into Hab.
  apply Nat.leb_le in H. apply Nat.ltb_lt in Hab. apply Nat.leb_le in Hlen.
  apply negb_true_iff in Hh. rewrite skipn_length in Hlen.
  assert (Ea : skipn (a - lo) (skipn lo seg) = skipn a seg) by (rewrite skipn_skipn; f_equal; lia).
  assert (Eb : skipn (b - lo) (skipn lo seg) = skipn b seg) by (rewrite skipn_skipn; f_equal; lia).
  rewrite Ea in Hw. rewrite Eb in Hh, Ht.
  split; [|split; [exact Hab|split; [lia|]]].
  - destruct first; [exact H|]. specialize (Hf eq_refl).
    destruct (Nat.eq_dec lo a) as [->|Hne]; [|lia]. exfalso.
    destruct (skipn a seg) as [|x l] eqn:E.
    + apply (f_equal (@length _)) in E. rewrite skipn_length in E. cbn [length] in E. lia.
    + destruct (b - a)%nat eqn:Eba; [lia|]. cbn [firstn forallb head_is] in *.
      apply andb_true_iff in Hw as [Hx _]. congruence.
  - apply IH; [lia| |exact Ht]. intros _. exact Hh.
Qed.

Lemma wb_incr seg : incr 0 true (length seg) (word_boundaries seg).
Proof. apply (tile_incr seg _ 0%nat true); [lia|discriminate|apply tile_model]. Qed.

(** * I. cluster words vs code-point words; remove; full *)
Lemma head_nonws_concat r :
  wf_seg r = true -> head_is nonws_cl r = head_is nonws_cp (concat r).
Proof.
  destruct r as [|d r']; [reflexivity|]. intros H. apply wf_seg_cons in H as (Hne & Hm & _).
  destruct d as [|x d']; [congruence|]. cbn [head_is concat app]. unfold nonws_cl.
  destruct Hm as [Hw|[Hw Hn]]; rewrite Hw; cbn [negb].
  - unfold cl_ws in Hw. cbn [forallb] in Hw. apply andb_true_iff in Hw as [Hx _].
    unfold nonws_cp. rewrite Hx. reflexivity.
  - cbn [forallb] in Hn. apply andb_true_iff in Hn as [Hx _]. rewrite Hx. reflexivity.
Qed.

Lemma words_cl_cp seg : wf_seg seg = true -> map (@concat cp) (words_cl seg) = words (concat seg).
Proof.
  induction seg as [|c r IH]; intros H; [reflexivity|].
  pose proof H as H0. apply wf_seg_cons in H as (Hne & Hm & Hr). specialize (IH Hr).
  unfold words_cl, words in *. cbn [wordsP concat].
  destruct Hm as [Hw|[Hw Hn]]; rewrite Hw.
  - unfold cl_ws in Hw. rewrite (wordsP_app_ws is_ws) by exact Hw. exact IH.
  - rewrite (wordsP_app_word is_ws) by assumption.
    change (fun x => negb (cl_ws x)) with nonws_cl. change (fun x => negb (is_ws x)) with nonws_cp.
    rewrite (head_nonws_concat r Hr). unfold attach. rewrite <- IH.
    destruct (head_is nonws_cp (concat r)).
    + destruct (wordsP cl_ws r); cbn [map concat]; [rewrite app_nil_r|]; reflexivity.
    + cbn [map concat]. rewrite app_nil_r. reflexivity.
Qed.

Lemma wb_words_cp seg :
  wf_seg seg = true ->
  map (fun r => concat (sub seg r)) (word_boundaries seg) = words (concat seg).
Proof.
  intros H. rewrite <- (words_cl_cp seg H), <- wb_words_cl, map_map. reflexivity.
Qed.

Lemma strip_cps_nonws c : forallb nonws_cp c = true -> strip_cps c = c.
Proof.
  unfold strip_cps. induction c as [|x c IH]; [reflexivity|]. cbn [forallb filter]. intros H.
  apply andb_true_iff in H as [H1 H2]. rewrite H1. f_equal. auto.
Qed.

Lemma remove_spec_seg seg : wf_seg seg = true -> remove seg = strip_cps (concat seg).
Proof.
  unfold remove. induction seg as [|c r IH]; intros H; [reflexivity|].
  apply wf_seg_cons in H as (Hne & Hm & Hr). cbn [filter concat]. rewrite strip_cps_app.
  unfold nonws_cl at 1. destruct Hm as [Hw|[Hw Hn]]; rewrite Hw; cbn [negb].
  - rewrite strip_ws_cluster by exact Hw. apply IH. exact Hr.
  - cbn [concat]. rewrite strip_cps_nonws by exact Hn. f_equal. apply IH. exact Hr.
Qed.

Lemma remove_spec_cp s : remove (singletons s) = strip_cps s.
Proof. rewrite remove_spec_seg by apply wf_singletons. rewrite concat_singletons. reflexivity. Qed.

Lemma strip_cl_singletons s : strip_cl (singletons s) = singletons (strip_cps s).
Proof.
  unfold strip_cl, strip_cps, singletons. induction s as [|c r IH]; [reflexivity|].
  cbn [map filter]. unfold nonws_cl at 1, cl_ws, nonws_cp at 1. cbn [forallb]. rewrite andb_true_r.
  destruct (is_ws c); cbn [negb map]; [exact IH|f_equal; exact IH].
Qed.

Lemma full_def seg : full seg = join [32] (strip_cl seg).
Proof. reflexivity. Qed.

Lemma full_spec_cp s : full (singletons s) = join [32] (singletons (strip_cps s)).
Proof. rewrite full_def, strip_cl_singletons. reflexivity. Qed.

(** the characters [full] separates are whitespace-free and make up [remove] *)
Lemma strip_cl_concat seg : concat (strip_cl seg) = remove seg.
Proof. reflexivity. Qed.

(** * J. the executable statement holds of the model's own output *)
Lemma nlist_eqb_refl l : nlist_eqb l l = true.
Proof. induction l as [|x l IH]; cbn [nlist_eqb]; [reflexivity|]. rewrite N.eqb_refl. exact IH. Qed.
Lemma cll_eqb_refl l : cll_eqb l l = true.
Proof. induction l as [|x l IH]; cbn [cll_eqb]; [reflexivity|]. unfold cl_eqb. rewrite nlist_eqb_refl. exact IH. Qed.
Lemma clll_eqb_refl l : clll_eqb l l = true.
Proof. induction l as [|x l IH]; cbn [clll_eqb]; [reflexivity|]. rewrite cll_eqb_refl. exact IH. Qed.

Lemma nlist_eqb_eq a : forall b, nlist_eqb a b = true -> a = b.
Proof.
  induction a as [|x a IH]; intros [|y b] H; cbn [nlist_eqb] in H; try discriminate; [reflexivity|].
  apply andb_true_iff in H as [H1 H2]. apply N.eqb_eq in H1. f_equal; auto.
Qed.

Lemma v_n_list l : v_list v_n (list_v n_v l) = l.
Proof.
  unfold v_list, list_v. rewrite map_map. induction l as [|x l IH]; cbn [map]; [reflexivity|].
  rewrite IH. unfold v_n, n_v, v_z. rewrite N2Z.id. reflexivity.
Qed.
Lemma v_pair_list l : v_list v_pair (list_v pair_nat_v l) = l.
Proof.
  unfold v_list, list_v. rewrite map_map. induction l as [|[a b] l IH]; cbn [map]; [reflexivity|].
  rewrite IH. unfold v_pair, pair_nat_v, v_nat, nat_v, v_z. cbn [v_nth nth fst snd].
  rewrite !Nat2Z.id. reflexivity.
Qed.

(** well-formed oracle: in grapheme mode, when the text has no mixed cluster,
    the third field is a segmentation without mixed clusters of the model's
    cleaned text (false exactly on the KF1 seam class) *)
Definition wf_input (v : val) : Prop :=
  v_bool (v_nth 0 v) = true -> wf_seg (v_clusters (v_nth 1 v)) = true ->
  concat (v_clusters (v_nth 2 v)) = clean (v_clusters (v_nth 1 v))
  /\ wf_seg (v_clusters (v_nth 2 v)) = true.

Lemma check_run_l v : wf_input v -> check_C11 v (run_C11 v) = true.
Proof.
  intros Hwf. unfold check_C11, run_C11. cbn [v_nth nth].
  rewrite !v_n_list, v_pair_list.
  set (seg := in_seg v). set (c := clean seg). set (seg2 := in_seg2 v c).
  assert (Hsh : forall o, shape5 (L [list_v n_v c; list_v pair_nat_v (word_boundaries seg);
              list_v n_v (remove seg); list_v n_v (full seg); opt_v (list_v n_v) o]) = true)
    by (intros [o|]; reflexivity).
  rewrite Hsh. cbn [andb].
  destruct (wf_seg seg) eqn:Hs; [|reflexivity].
  assert (H2 : concat seg2 = c /\ wf_seg seg2 = true).
  { unfold seg2, in_seg2. unfold seg, in_seg in Hs, c. unfold wf_input in Hwf.
    destruct (v_bool (v_nth 0 v)).
    - exact (Hwf eq_refl Hs).
    - split; [apply concat_singletons|apply wf_singletons]. }
  destruct H2 as [Hc2 Hw2]. rewrite Hc2, nlist_eqb_refl. cbn [opt_v v_opt]. rewrite v_n_list.
  assert (Hid : clean seg2 = c) by (apply clean_idem_seg; assumption).
  rewrite Hid, nlist_eqb_refl.
  unfold c at 1. rewrite (clean_spec_seg seg Hs), nlist_eqb_refl.
  unfold c. rewrite (clean_clean_seg seg Hs), clean_nonws_seg, nlist_eqb_refl.
  rewrite tile_model, wb_words_cl, clll_eqb_refl.
  rewrite (remove_spec_seg seg Hs), nlist_eqb_refl, full_def, nlist_eqb_refl. reflexivity.
Qed.

(** ... and conversely a [true] verdict on any output pins that output down *)
Lemma check_sound_l v out :
  check_C11 v out = true -> wf_seg (in_seg v) = true ->
  let seg := in_seg v in
  let c := v_list v_n (v_nth 0 out) in
  c = join [32] (words (concat seg)) /\ cleansb c = true /\
  strip_cps c = strip_cps (concat seg) /\
  v_opt (v_list v_n) (v_nth 4 out) = Some c /\
  map (sub seg) (v_list v_pair (v_nth 1 out)) = words_cl seg /\
  v_list v_n (v_nth 2 out) = strip_cps (concat seg) /\
  v_list v_n (v_nth 3 out) = join [32] (strip_cl seg).
Proof.
  unfold check_C11. intros H Hs. rewrite Hs in H.
  apply andb_true_iff in H as [_ H].
  repeat (apply andb_true_iff in H; destruct H as [H ?]).
  cbv zeta. repeat split.
  - apply nlist_eqb_eq. assumption.
  - assumption.
  - apply nlist_eqb_eq. assumption.
  - destruct (v_opt (v_list v_n) (v_nth 4 out)) as [c'|]; [|discriminate]. f_equal.
    apply nlist_eqb_eq. assumption.
  - apply (tile_sound (in_seg v) _ 0%nat). assumption.
  - apply nlist_eqb_eq. assumption.
  - apply nlist_eqb_eq. assumption.
Qed.

(** * K. Prop-level reading of the executable hypotheses *)
Definition ValidSeg (seg : list cluster) (s : str) : Prop :=
  concat seg = s /\ Forall (fun c => c <> []) seg.
Definition NoMixed (seg : list cluster) : Prop :=
  Forall (fun c => cl_ws c = true \/ forallb nonws_cp c = true) seg.

Lemma wf_seg_spec seg : wf_seg seg = true <-> Forall (fun c => c <> []) seg /\ NoMixed seg.
Proof.
  unfold wf_seg, NoMixed. rewrite forallb_forall, !Forall_forall. split.
  - intros H. split; intros c Hc; specialize (H c Hc); apply andb_true_iff in H as [H1 H2].
    + destruct c; [discriminate|discriminate].
    + unfold nomixed_cl in H2. apply orb_true_iff in H2. exact H2.
  - intros [H1 H2] c Hc. apply andb_true_iff. split.
    + specialize (H1 c Hc). destruct c; [congruence|reflexivity].
    + unfold nomixed_cl. apply orb_true_iff. exact (H2 c Hc).
Qed.

(** a whitespace-clean string is exactly a list of words joined by single spaces *)
Lemma scs_join_words s :
  scs s = true ->
  match words s with
  | [] => []
  | _ :: _ => (if head_is is_ws s then [32] else []) ++ join [32] (words s)
  end = s.
Proof.
  induction s as [|c r IH]; intros Hs; [reflexivity|]. cbn [scs] in Hs.
  apply andb_true_iff in Hs as [Hc Hr]. specialize (IH Hr).
  unfold words in *. cbn [wordsP head_is]. destruct (is_ws c) eqn:Ec.
  - apply andb_true_iff in Hc as [H32 Hn]. apply N.eqb_eq in H32. subst c.
    pose proof (wordsP_head_nonempty is_ws r Hn) as Hne.
    rewrite (head_ws_nonws r Hn) in IH.
    destruct (wordsP is_ws r); [congruence|]. cbn [app] in *. rewrite IH. reflexivity.
  - pose proof (join_attach c r) as J. unfold words, nonws_cp in J.
    destruct (attach c _ (wordsP is_ws r)) eqn:Ea.
    + exfalso. unfold attach in Ea. destruct (head_is _ r); [destruct (wordsP is_ws r)|]; discriminate.
    + cbn [app]. rewrite J. f_equal. exact IH.
Qed.

Lemma cleansb_iff s : cleansb s = true <-> s = join [32] (words s).
Proof.
  split.
  - unfold cleansb. intros H. apply andb_true_iff in H as [Hh Hs]. apply negb_true_iff in Hh.
    pose proof (scs_join_words s Hs) as J. rewrite Hh in J.
    destruct (words s) eqn:E; [rewrite <- J; reflexivity|]. cbn [app] in J. symmetry. exact J.
  - intros ->. apply cleansb_join, words_ok.
Qed.

(** [clean] fixes exactly the whitespace-clean strings (code-point mode) *)
Lemma clean_fix_iff s : clean (singletons s) = s <-> cleansb s = true.
Proof. rewrite clean_spec_cp, cleansb_iff. split; intros H; symmetry; exact H. Qed.

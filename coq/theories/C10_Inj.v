(** C10 — injectivity corollary of the round trip: for a fixed clean source the operation list determines
    the target text. Proof only; the statement is pinned in [C10_Props.v]. *)
From TU Require Import Base C10_Model C10_Proofs.

Lemma operations_injective_l : forall f t t' ops,
  Clean f -> Clean t -> Clean t' -> strip f = strip t -> strip f = strip t' ->
  operations f t = Some ops -> operations f t' = Some ops -> concat t = concat t'.
Proof.
  intros f t t' ops Hf Ht Ht' E E' O O'.
  destruct (ops_roundtrip_l f t Hf Ht E) as [o1 [A1 [_ R1]]].
  destruct (ops_roundtrip_l f t' Hf Ht' E') as [o2 [A2 [_ R2]]].
  rewrite O in A1. injection A1 as <-. rewrite O' in A2. injection A2 as <-.
  rewrite R1 in R2. injection R2 as R2. exact R2.
Qed.

(** C19 ∘ MessagePack ∘ C02 — pinned statement (kept apart from C19_Props.v because it imports the C02 development).
    Names are qualified: C19_Model and BPE_Model both have a [lookup], [scan_words], [strip_trailing_ws]. *)
From TU Require Import Base.
From TU Require C19_Model C19_Lit C19_FileProofs BPE_Model C02_Model C19_EndToEnd.
From TU Require Import MsgPack_Model.
From Coq Require Import Permutation.
Open Scope N_scope.

(** FROM TRAINING TO TOKENIZING THROUGH THE FILE.  For every byte-level vocabulary [c] of words shorter than 2^32
    bytes, every merge budget below 2^32, every run [o] of the literal loop of [train_bpe] (any iteration order of the
    statistics at any step): the run ends [Done ps]; for EVERY order [es] in which [save] may iterate the map
    {merge p_i : i} and any bytes behind the map, the bytes on disk load ([MergeOps::load] + the id ordering of
    [BPETokenizer::new], as modelled) as the table [map merge ps]; and the tokenizer built on that table — any
    valid configuration — decodes the ids of any text to the UTF-8 of the text without its trailing whitespace,
    all ids being vocabulary ids.  Nothing about MessagePack is assumed: writer and reader are Gallina functions
    tied to rmp-serde by the correspondence of C02/C03/C04/C19 (file bytes compared on every case). *)
Theorem trained_file_lossless : forall (c : C19_Model.corpus) k o,
  C19_Model.CorpusOK [] c -> C19_FileProofs.CorpusBytes c -> N.of_nat k <= u32_max ->
  C19_Lit.LRun c (C19_Lit.byte_pair_stats_lit c) k o ->
  exists ps, o = C19_Lit.Done ps /\
    forall es junk, Permutation es (entries_of_table (map C19_Model.merge ps)) ->
      load_table (mp_encode es ++ junk) = Loaded (map C19_Model.merge ps) /\
      forall cfg s, BPE_Model.c_tbl cfg = map C19_Model.merge ps -> C02_Model.config_ok cfg = true ->
        Forall BPE_Model.valid_cp s ->
        exists ids, BPE_Model.bpe_tokenize cfg s = Some ids /\
          BPE_Model.bpe_decode (BPE_Model.eff_table cfg) ids = utf8s (BPE_Model.strip_trailing_ws s) /\
          Forall (fun id => id < BPE_Model.vocab_size cfg) ids.
Proof. exact C19_EndToEnd.trained_file_lossless_l. Qed.
Print Assumptions trained_file_lossless.

(** Non-vacuity: the vocabulary {aaa:1, abab:2, abcaba:3, b:1} with budget 3 (C19_Props.ex_file_premises shows the
    premises), trained by the deterministic instance, written in the order id 2, 0, 1, tokenizer with one special
    token: the text "abcaba ab" becomes [256; 258; 32; 256] and decodes to itself. *)
Example ex_end_to_end :
  let c := [([[97]; [97]; [97]], 1); ([[97]; [98]; [97]; [98]], 2); ([[97]; [98]; [99]; [97]; [98]; [97]], 3); ([[98]], 1)] in
  let tbl := [[97; 98]; [97; 98; 97]; [99; 97; 98; 97]] in
  C19_Lit.train_lit 3 c (C19_Lit.byte_pair_stats_lit c) = C19_Lit.Done [([97], [98]); ([97; 98], [97]); ([99], [97; 98; 97])] /\
  load_table (mp_encode [([99; 97; 98; 97], 2); ([97; 98], 0); ([97; 98; 97], 1)]) = Loaded tbl /\
  let cfg := BPE_Model.Cfg tbl None [[60; 112; 62]] [] [] in
  C02_Model.config_ok cfg = true /\
  BPE_Model.bpe_tokenize cfg [97; 98; 99; 97; 98; 97; 32; 97; 98] = Some [256; 258; 32; 256] /\
  BPE_Model.bpe_decode (BPE_Model.eff_table cfg) [256; 258; 32; 256] = [97; 98; 99; 97; 98; 97; 32; 97; 98].
Proof. vm_compute. repeat split; reflexivity. Qed.

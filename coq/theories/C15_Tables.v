(** C15: the dictionary-to-table step of [corrupt_spelling] inside the model — definitions only.

    src/data/preprocessing.rs:518-596 (after the repair of D13, /repo 954f976):

      let dict = Dictionary::load(char_file);  let total_freq = dict.freq_sum as f64;
      dict.items()                                            -- HashMap iteration order
          .sorted_by_key(|&(s, freq)| (Reverse(freq), s))      -- stable; String order = byte order
          .filter_map(|(s, freq)| { let freq = *freq as f64; let rel_freq = freq / total_freq;
                                    if rel_freq < min_rel_freq { return None; }     -- 1.0 / 10_000.0
                                    match s.split_whitespace() { [prev, cur, next] => Some(..), _ => panic!() } })
          .for_each(|(prev, cur, next, freq)| { let weight = freq.powf(1.0 / art_temp);
                                    insertions[(prev, next)].push(cur, weight); replacements[(prev, next)].push(cur, weight) });
      replacements = for every (prev, next) entry and every idx, cur of it:
                       key (prev, cur, next) -> the entry with position idx removed, unless that is empty
                       (collected into a HashMap: of two equal keys the later one wins)

    An item of the dictionary is (key, frequency, w) with w = the RESULT of [freq.powf(1.0 / art_temp)]:
    [powf] is libm and is not modelled; its results travel as data.  Everything else is computed here:
    the order (the sort key, bytes of the UTF-8 encoding), the relative-frequency filter in binary64
    ([usize as f64], division, comparison with the constant 1.0 / 10_000.0), the split of the key into
    three whitespace-separated pieces (panic otherwise), the grouping by context, the order of the
    edits inside an entry, which weight belongs to which edit, the removal of the current character
    from the replacement lists, the dropped empty lists.

    The items are given as a LIST; the code iterates a HashMap, so the list order is arbitrary:
    [C15_TablesProofs.tables_content_l] proves the result does not depend on it. *)
From TU Require Import RNG_Model.
From TU Require Import Base UCD_Model UAX29_Model C15_Model C15_Seeded.
Close Scope N_scope.
Open Scope nat_scope.

(** * binary64 pieces the filter needs, on [RNG_Model.f64w] (non-negative values): [usize as f64],
    division (exact quotient to 76 or more bits with a sticky bit, then one rounding), [<] *)
Definition f_of_N (n : N) : f64w := fround n 0.

Definition fdiv (a b : f64w) : f64w :=
  match a, b with
  | Fin m1 e1, Fin m2 e2 =>
      if (m2 =? 0)%N then (if (m1 =? 0)%N then FNaN else FInf)
      else
        let n := (m1 * 2 ^ 128)%N in
        let q := (n / m2)%N in
        let sticky := if (n mod m2 =? 0)%N then 0%N else 1%N in
        fround (2 * q + sticky)%N (e1 - e2 - 129)%Z
  | _, _ => FNaN
  end.

(** [a < b] (false with a NaN operand) *)
Definition flt (a b : f64w) : bool := fgt b a.

(** [1.0 / 10_000.0] *)
Definition min_rel_freq : f64w := fdiv (f_of_N 1) (f_of_N 10000).

(** * items *)
Definition item := (str * N * f64w)%type.
Definition it_key (x : item) : str := fst (fst x).
Definition it_freq (x : item) : N := snd (fst x).
Definition it_w (x : item) : f64w := snd x.

(** [Ord for String]: lexicographic on the bytes *)
Fixpoint lex_leb (a b : list N) : bool :=
  match a, b with
  | [], _ => true
  | _ :: _, [] => false
  | x :: a', y :: b' => (x <? y)%N || ((x =? y)%N && lex_leb a' b')
  end.

(** the sort key [(Reverse(freq), s)] *)
Definition item_leb (x y : item) : bool :=
  (it_freq y <? it_freq x)%N
  || ((it_freq x =? it_freq y)%N && lex_leb (utf8s (it_key x)) (utf8s (it_key y))).

(** the sort key of the pinned commit: [Reverse(freq)] alone *)
Definition item_leb_pinned (x y : item) : bool := (it_freq y <=? it_freq x)%N.

(** a stable sort (insertion from the right: an element stays in front of the equal ones behind it) *)
Fixpoint insert_by {A} (le : A -> A -> bool) (x : A) (l : list A) : list A :=
  match l with
  | [] => [x]
  | y :: r => if le x y then x :: l else y :: insert_by le x r
  end.
Fixpoint sort_by {A} (le : A -> A -> bool) (l : list A) : list A :=
  match l with
  | [] => []
  | x :: r => insert_by le x (sort_by le r)
  end.

(** [dict.freq_sum] *)
Definition freq_sum (items : list item) : N := fold_right (fun x s => (it_freq x + s)%N) 0%N items.

(** the relative-frequency filter: kept unless [freq / total < 1.0 / 10_000.0] *)
Definition keep_item (total : f64w) (x : item) : bool :=
  negb (flt (fdiv (f_of_N (it_freq x)) total) min_rel_freq).

(** [s.split_whitespace().collect()] must have exactly three pieces *)
Definition gram := (str * str * str * f64w)%type.       (* prev, cur, next, weight *)
Definition split3 (k : str) : option (str * str * str) :=
  match split_ws k with
  | [p; c; n] => Some (p, c, n)
  | _ => None
  end.

(** the 3-grams that reach [for_each], in order; [None] = the [panic!] for a key that is not a 3-gram *)
Fixpoint grams_of (l : list item) : option (list gram) :=
  match l with
  | [] => Some []
  | x :: r =>
    match split3 (it_key x), grams_of r with
    | Some (p, c, n), Some gs => Some ((p, c, n, it_w x) :: gs)
    | _, _ => None
    end
  end.

(** * the tables, with the edit strings as strings *)
Definition sedit := (str * f64w)%type.
Definition sins := (str * str * list sedit)%type.             (* (prev, next) -> edits *)
Definition srep := (str * str * str * list sedit)%type.       (* (prev, cur, next) -> edits *)

(** [insertions.entry((prev, next)).or_insert_with(..)] then [push] *)
Fixpoint push_ins (t : list sins) (g : gram) : list sins :=
  match g with (p, c, n, w) =>
    match t with
    | [] => [(p, n, [(c, w)])]
    | (p', n', es) :: t' =>
        if nlist_eqb p p' && nlist_eqb n n' then (p', n', es ++ [(c, w)]) :: t'
        else (p', n', es) :: push_ins t' g
    end
  end.

Definition build_itab (gs : list gram) : list sins := fold_left push_ins gs [].

Fixpoint remove_nth {A} (i : nat) (l : list A) : list A :=
  match l, i with
  | [], _ => []
  | _ :: r, 0 => r
  | x :: r, S j => x :: remove_nth j r
  end.

(** the replacement entries one (prev, next) entry gives, in index order *)
Definition rep_of (en : sins) : list srep :=
  match en with (p, n, es) =>
    flat_map (fun i => match nth_error es i with
                       | Some (cur, _) => match remove_nth i es with
                                          | [] => []
                                          | o => [(p, cur, n, o)]
                                          end
                       | None => []
                       end) (seq 0 (length es))
  end.

(** collected into a HashMap: the later of two equal keys wins; the tables of the model are looked up
    first-match, hence the reversal *)
Definition build_rtab (t : list sins) : list srep := rev (flat_map rep_of t).

(** * the whole step.  [TPanic]: a key that passed the filter is not a 3-gram *)
Inductive tres := TOk (it : list sins) (rt : list srep) | TPanic.

Definition kept_sorted (le : item -> item -> bool) (items : list item) : list item :=
  filter (keep_item (f_of_N (freq_sum items))) (sort_by le items).

Definition build_tables_by (le : item -> item -> bool) (items : list item) : tres :=
  match grams_of (kept_sorted le items) with
  | Some gs => let it := build_itab gs in TOk it (build_rtab it)
  | None => TPanic
  end.

Definition build_tables := build_tables_by item_leb.
(** the pinned commit: ties in the order the HashMap happened to yield them (D13) *)
Definition build_tables_pinned := build_tables_by item_leb_pinned.

(** * into the tables of the seeded model: [edit_word(&word, true, ..)] — every edit string is segmented
    into extended grapheme clusters on its own ([CS::new(insertion, use_graphemes).len()]) *)
Definition seg_edit (e : sedit) : wedit := (segment (fst e), snd e).
Definition seg_ins (en : sins) : wins_entry := match en with (p, n, es) => (p, n, map seg_edit es) end.
Definition seg_rep (en : srep) : wrep_entry := match en with (p, c, n, es) => (p, c, n, map seg_edit es) end.

(** the configuration [edit_word] gets with a character dictionary: all four kinds *)
Definition spell_cfg_of (fd : bool) (it : list sins) (rt : list srep) : wcfg :=
  {| wk_ins := true; wk_del := true; wk_rep := true; wk_swap := true; wfull_del := fd;
     witab := map seg_ins it; wrtab := map seg_rep rt |}.

(** lookups on the string tables *)
Fixpoint sins_lookup (t : list sins) (p n : str) : option (list sedit) :=
  match t with
  | [] => None
  | (p', n', es) :: t' => if nlist_eqb p p' && nlist_eqb n n' then Some es else sins_lookup t' p n
  end.
Fixpoint srep_lookup (t : list srep) (p c n : str) : option (list sedit) :=
  match t with
  | [] => None
  | (p', c', n', es) :: t' =>
      if nlist_eqb p p' && nlist_eqb c c' && nlist_eqb n n' then Some es else srep_lookup t' p c n
  end.

(** * what the powf results must satisfy for the tables to be well-formed ([wtabs_ok]): canonical
    positive NORMAL binary64 values below 2^960 (freq >= 1, so freq^(1/T) >= 1 for T > 0; results of
    [powf] on counts are far below 2^960), and fewer than 2^53 items *)
Definition w_sane (w : f64w) : bool :=
  match w with
  | Fin m e => (4503599627370496 <=? m)%N && (m <? 9007199254740992)%N && (emin <=? e)%Z && (e <=? 907)%Z
  | _ => false
  end.
Definition items_sane (items : list item) : bool :=
  forallb (fun x => w_sane (it_w x)) items && (N.of_nat (length items) <? 9007199254740992)%N.

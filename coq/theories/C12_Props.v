(** C12 — pinned statements. Nothing but statements, [exact], and assumption audits. *)
From TU Require Import Base C12_Model C12_Spec C12_Matrix C12_Trace C12_Norm C12_Proofs.
From Coq Require Import QArith.
From TU Require Import UAX29_Model C12_UAX29 C12_Sym.
Open Scope nat_scope.

(** ** distance = the reference metric.  [Align fl a b n]: an alignment of cost [n]
    (Levenshtein for [with_swap = false], optimal string alignment for
    [with_swap = true], no whitespace substituted or transposed under [sid]). *)
Theorem dist_achieved : forall fl a b, Align fl a b (dist fl a b).
Proof. exact dist_achieved_l. Qed.
Print Assumptions dist_achieved.

Theorem dist_minimal : forall fl a b n, Align fl a b n -> dist fl a b <= n.
Proof. exact dist_minimal_l. Qed.
Print Assumptions dist_minimal.

(** A metric law: alignments can be read in either direction (insert <-> delete, the whitespace guards of
    [sid] are symmetric), so the distance the row-by-row DP computes does not depend on the argument order,
    for every flag combination. *)
Theorem Align_symmetric : forall fl a b n, Align fl a b n -> Align fl b a n.
Proof. exact Align_sym_l. Qed.
Print Assumptions Align_symmetric.

Theorem dist_symmetric : forall fl a b, dist fl a b = dist fl b a.
Proof. exact dist_sym_l. Qed.
Print Assumptions dist_symmetric.

(** every cell of the iteratively built matrix is the distance of the prefixes *)
Theorem cell_prefix : forall fl a b i j, i <= length a -> j <= length b ->
  fst (cell (matrix fl a b) i j) = dist fl (firstn i a) (firstn j b).
Proof. exact cell_dist. Qed.
Print Assumptions cell_prefix.

(** ... and both matrices (cost and op, with the tie-breaking) are the recurrence [Dc] *)
Theorem cell_recurrence : forall fl a b i j, i <= length a -> j <= length b ->
  cell (matrix fl a b) i j = Dc fl (rev (firstn i a)) (rev (firstn j b)).
Proof. exact cell_prefix_l. Qed.
Print Assumptions cell_recurrence.

(** prefix distance = minimum over all prefixes of [b] *)
Theorem prefix_dist_min : forall fl a b,
  (exists k, k <= length b /\ prefix_dist fl a b = dist fl a (firstn k b))
  /\ (forall k, prefix_dist fl a b <= dist fl a (firstn k b)).
Proof. exact prefix_dist_min_l. Qed.
Print Assumptions prefix_dist_min.

(** ** operations: never the error value (no panic, no underflow, fuel suffices);
    sorted; transforms [a] into [b] using only permitted operations; length = distance *)
Theorem ops_total : forall fl a b, exists ops, operations fl a b = Some ops.
Proof. exact ops_total_l. Qed.
Print Assumptions ops_total.

Theorem ops_sorted : forall fl a b ops, operations fl a b = Some ops -> sortedb ops = true.
Proof. exact ops_sorted_l. Qed.
Print Assumptions ops_sorted.

Theorem ops_apply : forall fl a b ops, operations fl a b = Some ops -> script_ok fl ops a b = true.
Proof. exact ops_apply_l. Qed.
Print Assumptions ops_apply.

Theorem ops_length : forall fl a b ops, operations fl a b = Some ops -> length ops = dist fl a b.
Proof. exact ops_length_l. Qed.
Print Assumptions ops_length.

(** what [script_ok] means: a script that applies is an alignment costing its length,
    it is sorted, and no script that applies is shorter than the distance *)
Theorem script_is_alignment : forall fl ops a b, script_ok fl ops a b = true -> Align fl a b (length ops).
Proof. exact script_is_alignment_l. Qed.
Print Assumptions script_is_alignment.

Theorem script_ok_sorted : forall fl ops a b, script_ok fl ops a b = true -> sortedb ops = true.
Proof. exact script_ok_sorted_l. Qed.
Print Assumptions script_ok_sorted.

Theorem ops_minimal : forall fl ops a b, script_ok fl ops a b = true -> dist fl a b <= length ops.
Proof. exact script_min. Qed.
Print Assumptions ops_minimal.

(** ** normalisation over Q (repaired divisor max(len, 1)) *)
Theorem norm_def : forall fl a b,
  (distance fl true a b * inject_Z (Z.of_nat (Nat.max (Nat.max (length a) (length b)) 1))
   == inject_Z (Z.of_nat (dist fl a b)))%Q.
Proof. exact distance_normalised. Qed.
Print Assumptions norm_def.

Theorem norm_le_1 : forall fl a b, sid fl = false ->
  (0 <= distance fl true a b)%Q /\ (distance fl true a b <= 1)%Q.
Proof. exact norm_le_1_ll. Qed.
Print Assumptions norm_le_1.

Theorem norm_le_2 : forall fl a b, (0 <= distance fl true a b)%Q /\ (distance fl true a b <= 2)%Q.
Proof. exact norm_le_2_ll. Qed.
Print Assumptions norm_le_2.

(** KF2: under spaces_insert_delete_only the normalised distance can exceed 1 (" " vs "x"). *)
Theorem norm_le_1_sid_refuted : exists a b, (1 < distance (Flags false true) true a b)%Q.
Proof. exact kf2_witness. Qed.
Print Assumptions norm_le_1_sid_refuted.

(** equal texts, including two empty ones (D5), have distance 0 — and only those *)
Theorem norm_zero : forall fl nm a b, (distance fl nm a b == 0)%Q <-> a = b.
Proof. exact norm_zero_iff_l. Qed.
Print Assumptions norm_zero.

Theorem pnorm_range : forall fl a b, (0 <= prefix_distance fl true a b <= 1)%Q.
Proof. exact pnorm_range_l. Qed.
Print Assumptions pnorm_range.

(** ** distances: [None] (the Err) exactly on a length mismatch, else pointwise *)
Theorem distances_err : forall fl nm la lb, length la <> length lb -> distances fl nm la lb = None.
Proof. exact distances_err_l. Qed.
Print Assumptions distances_err.

Theorem distances_ok : forall fl nm la lb, length la = length lb ->
  exists l, distances fl nm la lb = Some l /\ length l = length la
    /\ forall k, k < length la -> nth k l 0%Q = distance fl nm (nth k la []) (nth k lb []).
Proof. exact distances_ok_l. Qed.
Print Assumptions distances_ok.

(** ** the executable statement holds of the model's own output (outside the KF2 class),
    and an output that passes it carries a minimal alignment *)
Theorem check_run : forall v, no_kf2 v -> check_C12 v (run_C12 v) = true.
Proof. exact check_run_l. Qed.
Print Assumptions check_run.

Theorem check_sound : forall v out, check_C12 v out = true ->
  let ops := v_list v_edit (v_nth 2 out) in
  sortedb ops = true /\ Align (in_flags v) (in_a v) (in_b v) (length ops)
  /\ length ops = dist (in_flags v) (in_a v) (in_b v).
Proof. exact check_sound_script. Qed.
Print Assumptions check_sound.

(** ** non-vacuity *)
Definition ex_s (l : list N) : list cluster := singletons l.
(** "ab" -> "ba": one transposition with swaps, two edits without *)
Example align_swap : Align (Flags true false) (ex_s [97;98]%N) (ex_s [98;97]%N) 1.
Proof. apply A_swap; [reflexivity|reflexivity|constructor]. Qed.
Example dist_swap : (dist (Flags true false) (ex_s [97;98]%N) (ex_s [98;97]%N),
                     dist (Flags false false) (ex_s [97;98]%N) (ex_s [98;97]%N)) = (1, 2).
Proof. vm_compute. reflexivity. Qed.
(** "a b" -> "ab c" under sid *)
Example ops_example :
  operations (Flags true true) (ex_s [97;32;98]%N) (ex_s [97;98;32;99]%N)
  = Some [(EInsert, 1, 1); (EReplace, 2, 3)].
Proof. vm_compute. reflexivity. Qed.
Example script_example :
  script_ok (Flags true true) [(EInsert, 1, 1); (EReplace, 2, 3)]
            (ex_s [97;32;98]%N) (ex_s [97;98;32;99]%N) = true.
Proof. vm_compute. reflexivity. Qed.
(** an input outside the KF2 class with both flags set *)
Example no_kf2_example :
  no_kf2 (L [I 0; I 1; I 1; I 1; L [L [I 97]; L [I 32]]; L [L [I 32]; L [I 97]]; I 1; I 1])%Z.
Proof. intros _ _. vm_compute. repeat constructor. Qed.
(** an input on which the executable statement holds (premise of [check_sound]) *)
Example check_example :
  let v := (L [I 0; I 1; I 1; I 1; L [L [I 97]; L [I 32]; L [I 98]]; L [L [I 98]; L [I 97]; L [I 32]; L [I 32]]; I 2; I 2])%Z in
  check_C12 v (run_C12 v) = true.
Proof. vm_compute. reflexivity. Qed.

(** ** Grapheme mode with the segmenter inside the model (UAX29_Model.segment, tied to the crate
    unicode-segmentation by the correspondence [uax29_agree]).  The statements are about two TEXTS
    [sa], [sb] (lists of code points); the characters are the clusters of [segment sa], [segment sb]:
    [dist_u fl sa sb = dist fl (segment sa) (segment sb)], likewise [distance_u], [prefix_distance_u],
    [operations_u].  No segmentation is quantified over and none is assumed. *)
Theorem dist_achieved_u : forall fl sa sb, Align fl (segment sa) (segment sb) (dist_u fl sa sb).
Proof. exact dist_achieved_u_l. Qed.
Print Assumptions dist_achieved_u.

Theorem dist_minimal_u : forall fl sa sb n, Align fl (segment sa) (segment sb) n -> dist_u fl sa sb <= n.
Proof. exact dist_minimal_u_l. Qed.
Print Assumptions dist_minimal_u.

(** distance 0 (normalised or not) exactly for equal texts: the segmentation determines the text *)
Theorem norm_zero_u : forall fl nm sa sb, (distance_u fl nm sa sb == 0)%Q <-> sa = sb.
Proof. exact norm_zero_u_l. Qed.
Print Assumptions norm_zero_u.

Theorem dist_zero_u : forall fl sa sb, dist_u fl sa sb = 0 <-> sa = sb.
Proof. exact dist_zero_u_l. Qed.
Print Assumptions dist_zero_u.

(** bounds in code points of the texts (a text has at most as many clusters as code points) *)
Theorem dist_le_u : forall fl sa sb,
  dist_u fl sa sb <= length sa + length sb
  /\ (sid fl = false -> dist_u fl sa sb <= Nat.max (length sa) (length sb)).
Proof. exact dist_le_u_l. Qed.
Print Assumptions dist_le_u.

Theorem norm_range_u : forall fl sa sb,
  (0 <= distance_u fl true sa sb)%Q /\ (distance_u fl true sa sb <= 2)%Q
  /\ (sid fl = false -> (distance_u fl true sa sb <= 1)%Q)
  /\ (0 <= prefix_distance_u fl true sa sb <= 1)%Q.
Proof. exact norm_range_u_l. Qed.
Print Assumptions norm_range_u.

Theorem prefix_dist_min_u : forall fl sa sb,
  (exists k, k <= length (segment sb)
     /\ prefix_dist fl (segment sa) (segment sb) = dist fl (segment sa) (firstn k (segment sb)))
  /\ (forall k, prefix_dist fl (segment sa) (segment sb) <= dist fl (segment sa) (firstn k (segment sb))).
Proof. exact prefix_dist_min_u_l. Qed.
Print Assumptions prefix_dist_min_u.

(** operations on two texts: never the error value; the script is sorted, turns the clusters of [sa]
    into the clusters of [sb] with permitted operations only, has length = distance, is an alignment,
    and no script that applies is shorter *)
Theorem operations_u_spec : forall fl sa sb,
  exists ops, operations_u fl sa sb = Some ops
    /\ sortedb ops = true
    /\ script_ok fl ops (segment sa) (segment sb) = true
    /\ length ops = dist_u fl sa sb
    /\ Align fl (segment sa) (segment sb) (length ops)
    /\ (forall ops', script_ok fl ops' (segment sa) (segment sb) = true -> length ops <= length ops').
Proof. exact operations_u_l. Qed.
Print Assumptions operations_u_spec.

(** on printable ASCII texts grapheme mode and code-point mode give the same distance and script *)
Theorem ascii_modes_agree : forall fl nm sa sb,
  forallb printable_ascii sa = true -> forallb printable_ascii sb = true ->
  dist_u fl sa sb = dist fl (singletons sa) (singletons sb)
  /\ distance_u fl nm sa sb = distance fl nm (singletons sa) (singletons sb)
  /\ operations_u fl sa sb = operations fl (singletons sa) (singletons sb).
Proof. exact ascii_modes_l. Qed.
Print Assumptions ascii_modes_agree.

(** the harness input built entirely by the model (either mode; premise = outside the KF2 class)
    passes the executable statement and the segmenter correspondence; an input accepted by
    [uax29_agree] carries the model's own segmentation of the two texts it spells *)
Theorem check_run_u : forall g fl nm sa sb na nb,
  (nm = true -> sid fl = true ->
   dist fl (seg_of g sa) (seg_of g sb) <= Nat.max (length (seg_of g sa)) (length (seg_of g sb))) ->
  let v := input_of g fl nm sa sb na nb in
  check_C12 v (run_C12 v) = true /\ uax29_agree v = true.
Proof. exact check_run_u_l. Qed.
Print Assumptions check_run_u.

Theorem uax29_agree_sound : forall v, uax29_agree v = true ->
  in_a v = seg_of (v_bool (v_nth 0 v)) (concat (in_a v))
  /\ in_b v = seg_of (v_bool (v_nth 0 v)) (concat (in_b v)).
Proof. exact uax29_agree_sound_l. Qed.
Print Assumptions uax29_agree_sound.

(** "e U+0301 a" vs "e a": one cluster replaced in grapheme mode (e+U+0301 is one character) *)
Example dist_u_example :
  (dist_u (Flags false false) [101; 769; 97]%N [101; 97]%N,
   operations_u (Flags false false) [101; 769; 97]%N [101; 97]%N) = (1, Some [(EReplace, 0, 0)]).
Proof. vm_compute. reflexivity. Qed.
(** two flags: swapping them is one transposition of clusters *)
Example dist_u_flags :
  dist_u (Flags true false) [127462; 127463; 127464; 127465]%N [127464; 127465; 127462; 127463]%N = 1.
Proof. vm_compute. reflexivity. Qed.

(** C12 — pinned statements. *)
From TU Require Import Base C12_Model.
From Coq Require Import QArith.

(** KF2: under spaces_insert_delete_only the normalised distance can exceed 1. *)
Theorem norm_le_1_sid_refuted : exists a b,
  (1 < distance (Flags false true) true a b)%Q.
Proof. exists [[32%N]], [[120%N]]. vm_compute. reflexivity. Qed.
Print Assumptions norm_le_1_sid_refuted.

(** C12 — pinned statements. Nothing but statements, [exact], and assumption audits. *)
From TU Require Import Base C12_Model C12_Spec C12_Matrix C12_Trace C12_Norm C12_Proofs.
From Coq Require Import QArith.
Open Scope nat_scope.

(** ** distance = the reference metric.  [Align fl a b n]: an alignment of cost [n]
    (Levenshtein for [with_swap = false], optimal string alignment for
    [with_swap = true], no whitespace substituted or transposed under [sid]). *)
Theorem dist_achieved : forall fl a b, Align fl a b (dist fl a b).
Proof. exact dist_achieved_l. Qed.
Print Assumptions dist_achieved.

Theorem dist_minimal : forall fl a b n, Align fl a b n -> dist fl a b <= n.
Proof. exact dist_minimal_l. Qed.
Print Assumptions dist_minimal.

(** every cell of the iteratively built matrix is the distance of the prefixes *)
Theorem cell_prefix : forall fl a b i j, i <= length a -> j <= length b ->
  fst (cell (matrix fl a b) i j) = dist fl (firstn i a) (firstn j b).
Proof. exact cell_dist. Qed.
Print Assumptions cell_prefix.

(** ... and both matrices (cost and op, with the tie-breaking) are the recurrence [Dc] *)
Theorem cell_recurrence : forall fl a b i j, i <= length a -> j <= length b ->
  cell (matrix fl a b) i j = Dc fl (rev (firstn i a)) (rev (firstn j b)).
Proof. exact cell_prefix_l. Qed.
Print Assumptions cell_recurrence.

(** prefix distance = minimum over all prefixes of [b] *)
Theorem prefix_dist_min : forall fl a b,
  (exists k, k <= length b /\ prefix_dist fl a b = dist fl a (firstn k b))
  /\ (forall k, prefix_dist fl a b <= dist fl a (firstn k b)).
Proof. exact prefix_dist_min_l. Qed.
Print Assumptions prefix_dist_min.

(** ** operations: never the error value (no panic, no underflow, fuel suffices);
    sorted; transforms [a] into [b] using only permitted operations; length = distance *)
Theorem ops_total : forall fl a b, exists ops, operations fl a b = Some ops.
Proof. exact ops_total_l. Qed.
Print Assumptions ops_total.

Theorem ops_sorted : forall fl a b ops, operations fl a b = Some ops -> sortedb ops = true.
Proof. exact ops_sorted_l. Qed.
Print Assumptions ops_sorted.

Theorem ops_apply : forall fl a b ops, operations fl a b = Some ops -> script_ok fl ops a b = true.
Proof. exact ops_apply_l. Qed.
Print Assumptions ops_apply.

Theorem ops_length : forall fl a b ops, operations fl a b = Some ops -> length ops = dist fl a b.
Proof. exact ops_length_l. Qed.
Print Assumptions ops_length.

(** what [script_ok] means: a script that applies is an alignment costing its length,
    it is sorted, and no script that applies is shorter than the distance *)
Theorem script_is_alignment : forall fl ops a b, script_ok fl ops a b = true -> Align fl a b (length ops).
Proof. exact script_is_alignment_l. Qed.
Print Assumptions script_is_alignment.

Theorem script_ok_sorted : forall fl ops a b, script_ok fl ops a b = true -> sortedb ops = true.
Proof. exact script_ok_sorted_l. Qed.
Print Assumptions script_ok_sorted.

Theorem ops_minimal : forall fl ops a b, script_ok fl ops a b = true -> dist fl a b <= length ops.
Proof. exact script_min. Qed.
Print Assumptions ops_minimal.

(** ** normalisation over Q (repaired divisor max(len, 1)) *)
Theorem norm_def : forall fl a b,
  (distance fl true a b * inject_Z (Z.of_nat (Nat.max (Nat.max (length a) (length b)) 1))
   == inject_Z (Z.of_nat (dist fl a b)))%Q.
Proof. exact distance_normalised. Qed.
Print Assumptions norm_def.

Theorem norm_le_1 : forall fl a b, sid fl = false ->
  (0 <= distance fl true a b)%Q /\ (distance fl true a b <= 1)%Q.
Proof. exact norm_le_1_ll. Qed.
Print Assumptions norm_le_1.

Theorem norm_le_2 : forall fl a b, (0 <= distance fl true a b)%Q /\ (distance fl true a b <= 2)%Q.
Proof. exact norm_le_2_ll. Qed.
Print Assumptions norm_le_2.

(** KF2: under spaces_insert_delete_only the normalised distance can exceed 1 (" " vs "x"). *)
Theorem norm_le_1_sid_refuted : exists a b, (1 < distance (Flags false true) true a b)%Q.
Proof. exact kf2_witness. Qed.
Print Assumptions norm_le_1_sid_refuted.

(** equal texts, including two empty ones (D5), have distance 0 — and only those *)
Theorem norm_zero : forall fl nm a b, (distance fl nm a b == 0)%Q <-> a = b.
Proof. exact norm_zero_iff_l. Qed.
Print Assumptions norm_zero.

Theorem pnorm_range : forall fl a b, (0 <= prefix_distance fl true a b <= 1)%Q.
Proof. exact pnorm_range_l. Qed.
Print Assumptions pnorm_range.

(** ** distances: [None] (the Err) exactly on a length mismatch, else pointwise *)
Theorem distances_err : forall fl nm la lb, length la <> length lb -> distances fl nm la lb = None.
Proof. exact distances_err_l. Qed.
Print Assumptions distances_err.

Theorem distances_ok : forall fl nm la lb, length la = length lb ->
  exists l, distances fl nm la lb = Some l /\ length l = length la
    /\ forall k, k < length la -> nth k l 0%Q = distance fl nm (nth k la []) (nth k lb []).
Proof. exact distances_ok_l. Qed.
Print Assumptions distances_ok.

(** ** the executable statement holds of the model's own output (outside the KF2 class),
    and an output that passes it carries a minimal alignment *)
Theorem check_run : forall v, no_kf2 v -> check_C12 v (run_C12 v) = true.
Proof. exact check_run_l. Qed.
Print Assumptions check_run.

Theorem check_sound : forall v out, check_C12 v out = true ->
  let ops := v_list v_edit (v_nth 2 out) in
  sortedb ops = true /\ Align (in_flags v) (in_a v) (in_b v) (length ops)
  /\ length ops = dist (in_flags v) (in_a v) (in_b v).
Proof. exact check_sound_script. Qed.
Print Assumptions check_sound.

(** ** non-vacuity *)
Definition ex_s (l : list N) : list cluster := singletons l.
(** "ab" -> "ba": one transposition with swaps, two edits without *)
Example align_swap : Align (Flags true false) (ex_s [97;98]%N) (ex_s [98;97]%N) 1.
Proof. apply A_swap; [reflexivity|reflexivity|constructor]. Qed.
Example dist_swap : (dist (Flags true false) (ex_s [97;98]%N) (ex_s [98;97]%N),
                     dist (Flags false false) (ex_s [97;98]%N) (ex_s [98;97]%N)) = (1, 2).
Proof. vm_compute. reflexivity. Qed.
(** "a b" -> "ab c" under sid *)
Example ops_example :
  operations (Flags true true) (ex_s [97;32;98]%N) (ex_s [97;98;32;99]%N)
  = Some [(EInsert, 1, 1); (EReplace, 2, 3)].
Proof. vm_compute. reflexivity. Qed.
Example script_example :
  script_ok (Flags true true) [(EInsert, 1, 1); (EReplace, 2, 3)]
            (ex_s [97;32;98]%N) (ex_s [97;98;32;99]%N) = true.
Proof. vm_compute. reflexivity. Qed.
(** an input outside the KF2 class with both flags set *)
Example no_kf2_example :
  no_kf2 (L [I 0; I 1; I 1; I 1; L [L [I 97]; L [I 32]]; L [L [I 32]; L [I 97]]; I 1; I 1])%Z.
Proof. intros _ _. vm_compute. repeat constructor. Qed.
(** an input on which the executable statement holds (premise of [check_sound]) *)
Example check_example :
  let v := (L [I 0; I 1; I 1; I 1; L [L [I 97]; L [I 32]; L [I 98]]; L [L [I 98]; L [I 97]; L [I 32]; L [I 32]]; I 2; I 2])%Z in
  check_C12 v (run_C12 v) = true.
Proof. vm_compute. reflexivity. Qed.

(** C20 — pinned statements. Nothing but statements, [exact], and assumption audits. *)
From TU Require Import Base C12_Model C20_Model C20_Proofs.
Open Scope N_scope.

(** [max_size = 0] keeps nothing, whatever the insertion order. *)
Theorem topk_zero : forall order, topk (Some 0) order = [].
Proof. exact topk_zero_l. Qed.
Print Assumptions topk_zero.

(** D9: the arithmetic of the pinned code overflows for an absent [max_size]. *)
Theorem create_pinned_overflow : forall chars cg ms lines arr hp,
  cfg_bad chars cg = false -> create_pinned chars cg None ms lines arr hp = Overflow.
Proof. exact create_pinned_overflow_l. Qed.
Print Assumptions create_pinned_overflow.

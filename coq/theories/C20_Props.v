(** C20 — pinned statements. Nothing but statements, [exact], and assumption audits.
    Vocabulary (C20_Model.v): [line_tokens] = tokens of one line (word parts, or
    character n-grams built from the cluster oracle); [count_line] = the per-line
    map of a worker; [reduce] = the reducer over the maps in arrival order;
    [topk] = the bounded min-heap loop over an insertion order; [create] = all of
    [Dictionary::create], with the arrival order [arr] and the heap insertion
    order [hp] as explicit arbitrary permutations; [count_tok w toks] = number of
    occurrences of [w] in [toks]. *)
From TU Require Import Base C12_Model C20_Model C20_Topk C20_Counts C20_SaveLoad C20_Closest C20_Proofs C20_Check.
From Coq Require Import Permutation Sorted QArith.
From TU Require Import C20_UAX29.
Open Scope N_scope.

(** [.take(max_sequences)]: the model's [take_opt] is [firstn]. *)
Theorem take_first : forall A k (l : list A), take_opt (Some k) l = firstn (N.to_nat k) l.
Proof. exact take_opt_firstn. Qed.
Print Assumptions take_first.

(** counts_exact, reducer level: whatever the order in which the per-line maps of
    the token lists [ls] arrive, the summed table has no duplicate key and maps
    exactly the words that occur to their number of occurrences. *)
Theorem reducer_exact : forall (ls : list (list word)) (arr : list cmap),
  Permutation arr (map count_line ls) ->
  NoDup (map fst (reduce arr)) /\
  forall w, lookup w (reduce arr) = if memb w (concat ls) then Some (count_tok w (concat ls)) else None.
Proof. exact counts_exact_l. Qed.
Print Assumptions reducer_exact.

(** counts_exact, dictionary level: every entry of the created dictionary is the
    exact, positive number of occurrences of its key among the tokens of the
    first [max_seq] lines; keys are distinct. *)
Theorem counts_exact : forall chars cg max_size max_seq lines arr hp d,
  create chars cg max_size max_seq lines arr hp = Ok d ->
  NoDup (map fst d) /\
  forall w f, In (w, f) d ->
    f = count_tok w (flat_map (line_tokens chars (N.to_nat cg)) (take_opt max_seq lines)) /\ 0 < f.
Proof.
  intros chars cg max_size max_seq lines arr hp d H. split.
  - exact (create_nodup _ _ _ _ _ _ _ _ H).
  - exact (create_counts _ _ _ _ _ _ _ _ H).
Qed.
Print Assumptions counts_exact.

(** counts_perm: two runs whose lines carry the same tokens up to permutation —
    lines permuted, regrouped, split differently over workers, arriving in any
    order — produce the same table (as a finite map, and up to list order). *)
Theorem counts_perm : forall ls1 ls2 arr1 arr2,
  Permutation arr1 (map count_line ls1) -> Permutation arr2 (map count_line ls2) ->
  Permutation (concat ls1) (concat ls2) ->
  Permutation (reduce arr1) (reduce arr2) /\ forall w, lookup w (reduce arr1) = lookup w (reduce arr2).
Proof. exact counts_perm_l. Qed.
Print Assumptions counts_perm.

(** The whole of [create] is independent of the schedule: any arrival order at the
    reducer and any iteration order of the hash map give the same result. *)
Theorem create_schedule_free : forall chars cg max_size max_seq lines arr hp arr' hp',
  create chars cg max_size max_seq lines arr hp = create chars cg max_size max_seq lines arr' hp'.
Proof. exact create_schedule_free_l. Qed.
Print Assumptions create_schedule_free.

(** topk_spec: for every insertion order the heap loop keeps the same entries; they
    are sorted; together with an omitted part they are a permutation of the
    input; every omitted entry is below every kept one in the (freq, word)
    order, hence not more frequent; the number kept is min(max_size, n), n when
    max_size is absent; absent max_size keeps everything; max_size 0 keeps nothing. *)
Theorem topk_spec : forall cap order,
  (forall order', Permutation order order' -> topk cap order' = topk cap order)
  /\ StronglySorted (fun a b => entry_leb a b = true) (topk cap order)
  /\ (exists omitted, Permutation (omitted ++ topk cap order) order
        /\ forall x y, In x omitted -> In y (topk cap order) -> entry_leb x y = true /\ fst x <= fst y)
  /\ N.of_nat (length (topk cap order))
     = match cap with None => N.of_nat (length order) | Some k => N.min k (N.of_nat (length order)) end
  /\ (cap = None -> Permutation (topk cap order) order)
  /\ (cap = Some 0 -> topk cap order = []).
Proof. exact topk_spec_l. Qed.
Print Assumptions topk_spec.

(** The (freq, word) order is a total order (so "the max_size largest" is well defined). *)
Theorem entry_order_total : forall a b c : entry,
  entry_leb a a = true
  /\ (entry_leb a b = true \/ entry_leb b a = true)
  /\ (entry_leb a b = true -> entry_leb b a = true -> a = b)
  /\ (entry_leb a b = true -> entry_leb b c = true -> entry_leb a c = true).
Proof.
  intros a b c. split; [apply entry_leb_refl|]. split; [apply entry_leb_total|].
  split; [apply entry_leb_antisym|apply entry_leb_trans].
Qed.
Print Assumptions entry_order_total.

(** top-k at the dictionary level: the dictionary has min(max_size, #distinct tokens)
    entries (all when max_size is absent); a token that was left out is not more
    frequent than any entry that was kept; with max_size absent every token is a key. *)
Theorem create_topk : forall chars cg max_size max_seq lines arr hp d,
  create chars cg max_size max_seq lines arr hp = Ok d ->
  let toks := flat_map (line_tokens chars (N.to_nat cg)) (take_opt max_seq lines) in
  N.of_nat (length d)
    = match max_size with
      | None => N.of_nat (length (dedup toks))
      | Some k => N.min k (N.of_nat (length (dedup toks)))
      end
  /\ (forall w, In w toks -> ~ In w (map fst d) ->
      forall w' f', In (w', f') d -> entry_leb (count_tok w toks, w) (f', w') = true /\ count_tok w toks <= f')
  /\ (max_size = None -> forall w, In w toks -> In w (map fst d)).
Proof.
  intros chars cg max_size max_seq lines arr hp d H. split; [|split].
  - exact (create_length _ _ _ _ _ _ _ _ H).
  - exact (create_omitted _ _ _ _ _ _ _ _ H).
  - exact (create_none_all _ _ _ _ _ _ _ _ H).
Qed.
Print Assumptions create_topk.

(** [dedup] lists each token once (so its length is the number of distinct tokens). *)
Theorem dedup_spec : forall l, NoDup (dedup l) /\ forall w, In w (dedup l) <-> In w l.
Proof. intro l. split; [apply dedup_nodup|intro w; apply dedup_in]. Qed.
Print Assumptions dedup_spec.

(** D9 repaired: [create] fails only for a bad character n-gram size; it never
    yields the overflow value, in particular not for an absent max_size. *)
Theorem create_total : forall chars cg max_size max_seq lines arr hp,
  create chars cg max_size max_seq lines arr hp <> Overflow
  /\ (cfg_bad chars cg = false -> exists d, create chars cg max_size max_seq lines arr hp = Ok d)
  /\ (cfg_bad chars cg = true -> create chars cg max_size max_seq lines arr hp = ErrCfg).
Proof.
  intros. split; [apply create_no_overflow_l|]. split; intro H.
  - eexists. apply create_ok. exact H.
  - apply create_bad. exact H.
Qed.
Print Assumptions create_total.

(** D9 as a theorem about the arithmetic of the pinned code: [max_size + 1] with
    [max_size = usize::MAX] overflows for every valid configuration. *)
Theorem create_pinned_overflow : forall chars cg ms lines arr hp,
  cfg_bad chars cg = false -> create_pinned chars cg None ms lines arr hp = Overflow.
Proof. intros chars cg ms lines arr hp H. unfold create_pinned. rewrite H. reflexivity. Qed.
Print Assumptions create_pinned_overflow.

(** freq_sum_spec: freq_sum is the total of the kept entries' exact counts, and the
    number of all counted tokens when max_size is absent. *)
Theorem freq_sum_spec : forall chars cg max_size max_seq lines arr hp d,
  create chars cg max_size max_seq lines arr hp = Ok d ->
  let toks := flat_map (line_tokens chars (N.to_nat cg)) (take_opt max_seq lines) in
  freq_sum d = sumN (map (fun w => count_tok w toks) (map fst d))
  /\ (max_size = None -> freq_sum d = N.of_nat (length toks)).
Proof.
  intros chars cg max_size max_seq lines arr hp d H. split.
  - exact (freq_sum_counts _ _ _ _ _ _ _ _ H).
  - exact (freq_sum_all _ _ _ _ _ _ _ _ H).
Qed.
Print Assumptions freq_sum_spec.

(** save_load: for a dictionary (in any iteration order) with distinct keys, each
    key [key_ok] (no TAB, no LF, not empty, not starting with a White_Space
    character) and each frequency a usize, [load (save d)] succeeds and yields
    the same entries (in the order of the file: by descending frequency, stable). *)
Theorem save_load : forall order : dict,
  NoDup (map fst order) ->
  Forall (fun e => key_ok (fst e) = true) order ->
  Forall (fun e => snd e <= usize_max) order ->
  load (save order) = Some (sort_desc order) /\ Permutation (sort_desc order) order.
Proof. intros order H1 H2 H3. apply save_load_l. split; [exact H1|split; assumption]. Qed.
Print Assumptions save_load.

(** decimal printing and parsing are inverse on usize *)
Theorem parse_dec_roundtrip : forall n, n <= usize_max -> parse_usize (dec n) = Some n.
Proof. exact parse_dec. Qed.
Print Assumptions parse_dec_roundtrip.

(** closest_spec: on the empty dictionary the answer is None; otherwise (for every
    iteration order [d] of the map, every query, both measures) the answer is an
    entry of the dictionary at minimal distance, and no entry at that minimal
    distance is more frequent.  [kdist] = C12's [distance] (no swap, whitespace
    substitutable) between the query's clusters and the key's clusters. *)
Theorem closest_spec : forall norm segs q (d : dict),
  (d = [] -> closest norm segs q d = CNone) /\
  (d <> [] -> (forall e, In e d -> seg_of segs (fst e) <> None) ->
   exists e, closest norm segs q d = CSome e /\ In e d /\
     forall e', In e' d ->
       (kdist norm segs q e <= kdist norm segs q e')%Q /\
       ((kdist norm segs q e' == kdist norm segs q e)%Q -> snd e' <= snd e)).
Proof. exact closest_spec_l. Qed.
Print Assumptions closest_spec.

(** the segmentation oracle can only return a segmentation of the key *)
Theorem seg_oracle_sound : forall segs k s, seg_of segs k = Some s -> concat s = k.
Proof. exact seg_of_concat. Qed.
Print Assumptions seg_oracle_sound.

(** The executable statement evaluated on the implementation's outputs holds of the
    model's own output, for every input whose segmentation oracle covers the keys
    of its dictionary file. *)
Theorem check_run : forall v, segs_cover v = true -> check_C20 v (run_C20 v) = true.
Proof. exact check_run_l. Qed.
Print Assumptions check_run.

(** Soundness of the executable statement, create part: whenever [check_create]
    accepts an output (normally the implementation's), that output has distinct
    keys, exact positive counts, min(max_size, #distinct) entries, no omitted
    token more frequent than a kept entry, and freq_sum equal to the total. *)
Theorem check_create_sound : forall toks max_size items fs,
  check_create toks max_size (L [I 0%Z; items; I fs]) = true ->
  let d := v_items items in
  NoDup (map fst d)
  /\ (forall w f, In (w, f) d -> f = count_tok w toks /\ 0 < f)
  /\ N.of_nat (length d)
     = match max_size with
       | None => N.of_nat (length (dedup toks))
       | Some k => N.min k (N.of_nat (length (dedup toks)))
       end
  /\ (forall w, In w toks -> ~ In w (map fst d) -> forall w' f', In (w', f') d -> count_tok w toks <= f')
  /\ (0 <= fs)%Z /\ Z.to_N fs = freq_sum d.
Proof. exact check_create_sound_l. Qed.
Print Assumptions check_create_sound.

(** Soundness of the executable statement, get_closest part: an accepted answer is
    None on the empty dictionary, and otherwise an entry of the dictionary at
    minimal distance that no entry at the same distance exceeds in frequency. *)
Theorem check_closest_sound : forall segs (d : dict) norm nq qc a,
  check_closest segs d (norm, (nq, qc)) a = true ->
  (d = [] -> exists g, a = L [g; L []]) /\
  (d <> [] ->
   (forall e, In e d -> seg_of segs (fst e) <> None) /\
   exists g wv fz, a = L [g; L [L [wv; I fz]]] /\
     In (v_bytes wv, Z.to_N fz) d /\
     forall e', In e' d ->
       (kdist norm segs qc (v_bytes wv, Z.to_N fz) <= kdist norm segs qc e')%Q /\
       ((kdist norm segs qc e' == kdist norm segs qc (v_bytes wv, Z.to_N fz))%Q -> snd e' <= Z.to_N fz)).
Proof. exact check_closest_sound_l. Qed.
Print Assumptions check_closest_sound.

(** Non-vacuity. A corpus "a b a" / "b c" (word mode), max_size 2: *)
Example create_witness :
  let w x : winfo := ([x], []) in
  create false 1 (Some 2) None [[w [97]; w [98]; w [97]]; [w [98]; w [99]]] [1%nat] [2%nat; 0%nat]
  = Ok [([97], 2); ([98], 2)].
Proof. vm_compute. reflexivity. Qed.
(** character 3-grams of the word "ab" *)
Example char3_witness :
  char_tokens 3 [([97], (true, false)); ([98], (true, false))]
  = [[60;98;111;119;62;32;97;32;98]; [97;32;98;32;60;101;111;119;62]].
Proof. vm_compute. reflexivity. Qed.
(** a dictionary meeting the premises of [save_load] (keys "a b", "é"), and one that does not (" a") *)
Example save_load_witness :
  forallb key_ok [[97;32;98]; [195;169]] = true /\ key_ok [32;97] = false /\ key_ok [] = false
  /\ load (save [([97;32;98], 3); ([195;169], 10)]) = Some [([195;169], 10); ([97;32;98], 3)].
Proof. vm_compute. repeat split; reflexivity. Qed.
(** an input meeting the premise of [check_run], with a non-trivial closest query *)
Example check_run_witness :
  let v := L [L [I 0; I 1; L [I 2]; L []; L [I 0; I 2]]%Z;
              L [L [I 1%Z; L [L [L []; L [L [L [L [I 97%Z]]; L []]; L [L [L [I 98%Z]]; L []]]]]]];
              L [L []; L []];
              L [I 97; I 9; I 49; I 10; I 97; I 98; I 9; I 50; I 10]%Z;
              L [L [L [I 97%Z]]; L [L [I 97%Z]; L [I 98%Z]]];
              L [L [L []; I 0%Z; L [I 97; I 99]%Z; L [L [I 97%Z]; L [I 99%Z]]]]] in
  segs_cover v = true /\ check_C20 v (run_C20 v) = true.
Proof. vm_compute. split; reflexivity. Qed.

(** ** Grapheme segmentation inside the model (UAX29_Model.segment, tied to the crate
    unicode-segmentation by the correspondence [uax29_agree]).  Keys and words are byte strings in
    this model; [seg_bytes s] = the UTF-8 encodings of the clusters of [segment s] for a text [s]
    of Unicode scalar values, [seg_checked cls] = "decode the concatenation ([utf8_decode], the strict
    decoder of C01), segment, encode: the result is [cls]" — the test every cluster list the harness
    hands over has to pass. *)

(** [seg_bytes s] is a segmentation of the key [utf8s s]: concatenates to it, no empty cluster,
    and passes the correspondence test *)
Theorem seg_u_valid : forall s,
  concat (seg_bytes s) = utf8s s /\ Forall (fun c => c <> []) (seg_bytes s)
  /\ (scalars s = true -> seg_checked (seg_bytes s) = true).
Proof.
  intros s. split; [apply seg_bytes_concat|]. split; [apply seg_bytes_nonempty|apply seg_checked_model].
Qed.
Print Assumptions seg_u_valid.

Theorem seg_checked_sound : forall cls, seg_checked cls = true ->
  exists s, utf8_decode (concat cls) = Some s /\ cls = seg_bytes s.
Proof. exact seg_checked_sound_l. Qed.
Print Assumptions seg_checked_sound.

(** [seg_oracle_sound] as a theorem about [segment]: an oracle whose entries pass the test answers,
    for a key [k], with the model's own segmentation of the decoded key — nothing else *)
Theorem seg_oracle_sound_u : forall segs k s,
  forallb seg_checked segs = true -> seg_of segs k = Some s ->
  concat s = k /\ exists t, utf8_decode k = Some t /\ s = seg_bytes t.
Proof. exact seg_oracle_sound_u_l. Qed.
Print Assumptions seg_oracle_sound_u.

(** the oracle computed by the model from the keys finds [seg_bytes k] for every key, and passes the test *)
Theorem seg_of_model : forall keys k,
  Forall (fun x => scalars x = true) keys -> In k keys ->
  seg_of (segs_u keys) (utf8s k) = Some (seg_bytes k)
  /\ forallb seg_checked (segs_u keys) = true.
Proof. intros keys k H1 H2. split; [apply seg_of_model_l; assumption|apply segs_u_checked; exact H1]. Qed.
Print Assumptions seg_of_model.

(** get_closest with the model's own segmentation, no covering premise: for a non-empty dictionary
    given by its entries (key text, frequency) in any iteration order and any query text, the answer is
    an entry at minimal distance [dist_u norm q k] = C12's [distance] between the clusters of
    [segment q] and of [segment k], and no entry at that distance is more frequent *)
Theorem closest_spec_u : forall norm (ents : list (str * N)) q,
  ents <> [] -> Forall (fun e => scalars (fst e) = true) ents ->
  exists k f, In (k, f) ents
    /\ closest norm (segs_u (map fst ents)) (seg_bytes q) (dict_u ents) = CSome (utf8s k, f)
    /\ forall k' f', In (k', f') ents ->
         (dist_u norm q k <= dist_u norm q k')%Q
         /\ ((dist_u norm q k' == dist_u norm q k)%Q -> f' <= f).
Proof. exact closest_spec_u_l. Qed.
Print Assumptions closest_spec_u.

(** character n-grams are windows over the clusters of [segment word].  [cls_u cl w] = the cluster
    oracle of a word computed by the model ([cl] = the class oracle is_alphabetic / is_punctuation,
    [okc cl c] = alphabetic or punctuation).
    n = 1: the tokens are the alphabetic-or-punctuation clusters of [segment w], in order *)
Theorem char_tokens_1_u : forall cl w,
  char_tokens 1 (cls_u cl w) = map utf8s (filter (okc cl) (segment w)).
Proof. exact char_tokens_1_u_l. Qed.
Print Assumptions char_tokens_1_u.

(** n = 3: one window per cluster of [segment w] — the cluster between its two neighbours in
    <bow> clusters <eow>, joined by spaces — kept iff the centre cluster is alphabetic or punctuation *)
Theorem char_tokens_3_u : forall cl w,
  let S := segment w in
  let B := bow :: map utf8s S ++ [eow] in
  char_tokens 3 (cls_u cl w) =
  flat_map (fun i => if okc cl (nth i S [])
                     then [join_sp [nth i B []; nth (Datatypes.S i) B []; nth (Datatypes.S (Datatypes.S i)) B []]]
                     else [])
           (seq 0 (length S)).
Proof. exact char_tokens_3_u_l. Qed.
Print Assumptions char_tokens_3_u.

Theorem char_tokens_count_u : forall cl w,
  (length (char_tokens 1 (cls_u cl w)) <= length (segment w))%nat
  /\ (length (char_tokens 3 (cls_u cl w)) <= length (segment w))%nat.
Proof. exact char_tokens_count_u_l. Qed.
Print Assumptions char_tokens_count_u.

(** the word oracle computed by the model passes the test *)
Theorem cls_u_agree : forall cl w, scalars w = true -> seg_checked (map fst (cls_u cl w)) = true.
Proof. exact cls_u_checked. Qed.
Print Assumptions cls_u_agree.

(** "e U+0301 b" (all alphabetic): two clusters; 3-grams "<bow> é b" and "é b <eow>" *)
Example char_tokens_u_witness :
  let cl := fun _ : cluster => (true, false) in
  char_tokens 1 (cls_u cl [101; 769; 98]) = [[101; 204; 129]; [98]]
  /\ char_tokens 3 (cls_u cl [101; 769; 98])
     = [[60;98;111;119;62;32;101;204;129;32;98]; [101;204;129;32;98;32;60;101;111;119;62]].
Proof. vm_compute. split; reflexivity. Qed.
Example seg_checked_witness :
  seg_checked [[101; 204; 129]; [98]] = true /\ seg_checked [[101]; [204; 129]; [98]] = false
  /\ seg_checked [[204]; [129]] = false.
Proof. vm_compute. repeat split. Qed.

(** * The tokenisation of a line inside the model (C20_Words.v; UCD_Model.v for the word regex and the
      class predicates, NFKC_Tie.process_line for clean + NFKC, UAX29_Model.segment for the clusters;
      pinned facts about the scanner and the tables in UCD_Props.v).
      [linfo_of_raw raw] is what a worker of [Dictionary::create] derives from the raw line;
      [raw_tokens chars n raw] its tokens; [create_raw] = [create] on raw lines; [modelize v] replaces the
      oracle words of the input by the model's own ([run_C20u] / [check_C20u] = [run_C20] / [check_C20] on
      it, plus [builds_same]: all builds of a case return the same dictionary). *)
From TU Require Import UCD_Model UCD_Words C20_Words C20_WordsProofs.

(** the lines the model works on are computed from the raw lines alone *)
Theorem modelize_lines : forall v, in_lines (modelize v) = map linfo_of_raw (in_raws v).
Proof. exact in_lines_modelize. Qed.
Print Assumptions modelize_lines.

Theorem modelize_create : forall v,
  model_create (modelize v)
  = create_raw (in_chars v) (in_cg v) (in_max_size v) (in_max_seq v) (in_raws v) (in_arr v) (in_hp v).
Proof. exact model_create_modelize. Qed.
Print Assumptions modelize_create.

(** counts_exact about the model's own tokenisation of the raw lines *)
Theorem counts_exact_u : forall chars cg max_size max_seq raws arr hp d,
  create_raw chars cg max_size max_seq raws arr hp = Ok d ->
  NoDup (map fst d) /\
  forall w f, In (w, f) d ->
    f = count_tok w (flat_map (raw_tokens chars (N.to_nat cg)) (take_opt max_seq raws)) /\ 0 < f.
Proof. exact counts_exact_u_l. Qed.
Print Assumptions counts_exact_u.

(** word mode: the tokens of a raw line are the UTF-8 encodings of the regex matches — by
    [UCD_Props.word_parts_eq] the maximal [\w]-runs made of class characters — of the whitespace-separated
    words of the cleaned, NFKC-normalised line, in order *)
Theorem raw_tokens_word_u : forall n raw,
  raw_tokens false n raw
  = flat_map (fun w => map (fun p : nat * str => utf8s (snd p)) (class_runs w)) (split_ws (norm_line raw)).
Proof. exact raw_tokens_word_l. Qed.
Print Assumptions raw_tokens_word_u.

(** character mode: per word, the n-gram windows ([char_tokens_1_u] / [char_tokens_3_u]) over the clusters
    of [segment w] with the model's own classes [ucd_cl] = ([str_is_alphabetic], [str_is_punctuation]) *)
Theorem raw_tokens_char_u : forall n raw,
  raw_tokens true n raw = flat_map (fun w => char_tokens n (cls_u ucd_cl w)) (split_ws (norm_line raw)).
Proof. exact raw_tokens_char_l. Qed.
Print Assumptions raw_tokens_char_u.

(** no cluster is both alphabetic and punctuation (table fact: \p{P} of regex-syntax and Alphabetic of the
    std are disjoint), so the centre filter "alphabetic or punctuation" is a disjoint union *)
Theorem classes_exclusive : forall c, str_is_alphabetic c = true -> str_is_punctuation c = true -> False.
Proof. exact ucd_cl_exclusive. Qed.
Print Assumptions classes_exclusive.

(** the executable statement — [check_C20] on the modelized input and identical builds — holds of the
    model's own output *)
Theorem check_run_u : forall v, segs_cover v = true -> check_C20u v (run_C20u v) = true.
Proof. exact check_run_u_l. Qed.
Print Assumptions check_run_u.

(** what the added clause of [check_C20u] says of an accepted output: every build has the status of the
    first one and, when it succeeded, the same items up to list order and the same freq_sum *)
Theorem builds_same_sound : forall c0 rest others,
  builds_same (L (L (c0 :: rest) :: others)) = true ->
  forall c, In c rest ->
    (c0 = L [I 1%Z] /\ c = L [I 1%Z])
    \/ exists i0 f0 i f, c0 = L [I 0%Z; i0; I f0] /\ c = L [I 0%Z; i; I f]
         /\ same_dict (v_items i0) (v_items i) = true /\ f0 = f.
Proof. exact builds_same_sound_l. Qed.
Print Assumptions builds_same_sound.

Example check_run_u_witness :
  segs_cover (L [L [I 0; I 1; L []; L []; L [I 0; I 2]]; L [L [I 1; L [L [L [I 97; I 32; I 98; I 49]; L []]]]]; L [L []; L []]; L []; L []; L []]) = true.
Proof. vm_compute. reflexivity. Qed.
(** "unit-test! ab12 #x": word mode keeps unit, test, x; character 1-grams keep the letters and the
    punctuation, not the digits *)
Example raw_tokens_witness :
  raw_tokens false 1 [117;110;105;116;45;116;101;115;116;33;32;97;98;49;50;32;35;120]
    = [[117;110;105;116]; [116;101;115;116]; [120]]
  /\ raw_tokens true 1 [97;98;49;50;32;35;120] = [[97]; [98]; [35]; [120]].
Proof. vm_compute. split; reflexivity. Qed.

(** * The file readers, the key segmentation and the query normalisation inside the model (third session, topic M;
      C20_Bytes.v).  A corpus file is its BYTES.  [file_lines bs] = the lines [Dictionary::create] reads since /repo
      15728b4 (D16): the crate's [LossyUtf8Reader] ([Lines_Model.lossy_lines]: [read_until(b'\n')], strip "\n" and one
      "\r", [String::from_utf8_lossy]); [file_lines_pinned bs] = what the pinned tree read: [BufRead::lines] +
      [map_while(Result::ok)] ([C19_Lines.dict_read]: stops at the first line that is not UTF-8);
      [create_bytes] / [create_bytes_pinned] = [create_raw] on the lines of all files; [split_lines []] = [BufRead::lines]
      on a list of units (NFKC_Tie.v); [load_b] = [Dictionary::load] on arbitrary bytes; [seg_key k] = the model's own
      grapheme segmentation of a key; [closest_m] = [get_closest] with it (no oracle); [prep v] = the input with every
      oracle replaced by what the model computes from the bytes and the raw queries. *)
From TU Require Import C20_Bytes C20_BytesProofs.
From TU Require C01_Model NFKC_Tie Lines_Model C19_Lines NFKC_Model NFKC_Props UAX29_Model.

(** the lossy reader cuts the file exactly where [BufRead::lines] cuts it (every 0x0A; one 0x0D before it dropped; a last
    piece without 0x0A is a line iff non-empty) and decodes every piece lossily — for EVERY byte string *)
Theorem lines_split : forall bs, file_lines bs = map Lines_Model.lossy (NFKC_Tie.split_lines [] bs).
Proof. exact lines_split_l. Qed.
Print Assumptions lines_split.

(** every line is read: as many as there are 0x0A bytes, plus one for a non-empty unterminated last line *)
Theorem file_lines_length : forall bs, length (file_lines bs) = Lines_Model.count_lines_spec bs.
Proof. exact file_lines_length_l. Qed.
Print Assumptions file_lines_length.

(** the reader of the pinned tree yields a PREFIX of these lines, and all of them iff every line is UTF-8 ... *)
Theorem reader_pinned_prefix : forall bs,
  exists rest, file_lines bs = file_lines_pinned bs ++ rest
    /\ (rest = [] <-> Forall (fun l => C01_Model.utf8_decode l <> None) (NFKC_Tie.split_lines [] bs)).
Proof. exact reader_pinned_prefix_l. Qed.
Print Assumptions reader_pinned_prefix.

(** ... so on files whose lines are all UTF-8 the repair changes nothing ... *)
Theorem file_lines_valid : forall bs,
  Forall (fun l => C01_Model.utf8_decode l <> None) (NFKC_Tie.split_lines [] bs) -> file_lines bs = file_lines_pinned bs.
Proof. exact file_lines_valid_l. Qed.
Print Assumptions file_lines_valid.

(** ... and on others the pinned tree silently lost counts (D16): files "a\n\xff\nb b\n" and "b c\n" *)
Theorem reader_pinned_truncates :
  let files := [[97; 10; 255; 10; 98; 32; 98; 10]; [98; 32; 99; 10]] in
  create_bytes_pinned false 1 None None files [] [] = Ok [([97], 1); ([98], 1); ([99], 1)]
  /\ create_bytes false 1 None None files [] [] = Ok [([97], 1); ([99], 1); ([98], 3)].
Proof. exact reader_pinned_truncates_l. Qed.
Print Assumptions reader_pinned_truncates.

(** on a UTF-8 file the byte-level reading is the line list of the text: the lines the theorems above
    ([counts_exact_u], ...) speak about *)
Theorem file_lines_utf8 : forall s, C01_Model.scalars s = true -> file_lines (utf8s s) = NFKC_Tie.split_lines [] s.
Proof. exact file_lines_utf8_l. Qed.
Print Assumptions file_lines_utf8.

(** counts_exact from BYTES: every entry is the exact positive number of occurrences of its key among the model's own
    tokens of the first [max_seq] lines of the files, read from their bytes (invalid sequences as U+FFFD) *)
Theorem counts_exact_b : forall chars cg max_size max_seq files arr hp d,
  create_bytes chars cg max_size max_seq files arr hp = Ok d ->
  NoDup (map fst d) /\
  forall w f, In (w, f) d ->
    f = count_tok w (flat_map (raw_tokens chars (N.to_nat cg)) (take_opt max_seq (flat_map file_lines files))) /\ 0 < f.
Proof. exact counts_exact_b_l. Qed.
Print Assumptions counts_exact_b.

(** ... and for UTF-8 files that is [create_raw] on the lines of the texts *)
Theorem create_bytes_utf8 : forall chars cg max_size max_seq (texts : list str) arr hp,
  Forall (fun s => C01_Model.scalars s = true) texts ->
  create_bytes chars cg max_size max_seq (map utf8s texts) arr hp
  = create_raw chars cg max_size max_seq (flat_map (NFKC_Tie.split_lines []) texts) arr hp.
Proof. exact create_bytes_utf8_l. Qed.
Print Assumptions create_bytes_utf8.

(** [Dictionary::load] on arbitrary bytes succeeds iff every line is UTF-8 and the line format is right *)
Theorem load_b_spec : forall b d,
  load_b b = Some d <-> (Forall (fun l => C01_Model.utf8_decode l <> None) (lines_of b) /\ load b = Some d).
Proof. exact load_b_spec_l. Qed.
Print Assumptions load_b_spec.

(** the model's segmentation of a key is a segmentation of it, and the oracle built from a dictionary answers for
    every key of it with that segmentation: nothing is left to cover *)
Theorem seg_key_concat : forall k, concat (seg_key k) = k.
Proof. exact seg_key_concat_l. Qed.
Print Assumptions seg_key_concat.

Theorem segs_of_dict_cover : forall (d : dict) k, In k (map fst d) -> seg_of (segs_of_dict d) k = Some (seg_key k).
Proof. exact seg_of_dict_l. Qed.
Print Assumptions segs_of_dict_cover.

Theorem closest_segs_of_dict : forall norm (d0 d : dict) q, (forall e, In e d -> In (fst e) (map fst d0)) ->
  closest norm (segs_of_dict d0) q d = closest_m norm q d.
Proof. exact closest_segs_of_dict_l. Qed.
Print Assumptions closest_segs_of_dict.

(** closest_spec without any oracle and without premise: [get_closest] over the model's own segmentation returns, for
    every non-empty dictionary in every iteration order, an entry at minimal distance, most frequent among those *)
Theorem closest_m_spec : forall norm q (d : dict),
  (d = [] -> closest_m norm q d = CNone) /\
  (d <> [] ->
   exists e, closest_m norm q d = CSome e /\ In e d /\
     forall e', In e' d ->
       (kdist_m norm q e <= kdist_m norm q e')%Q /\
       ((kdist_m norm q e' == kdist_m norm q e)%Q -> snd e' <= snd e)).
Proof. exact closest_m_spec_l. Qed.
Print Assumptions closest_m_spec.

(** the prepared input: its lines are the model's reading of the bytes, its [create] is [create_bytes], its
    dictionary file is judged by [load_b] — no oracle line, word, cluster or normalised query reaches run / check *)
Theorem prep_lines : forall v, in_raws (prep v) = flat_map file_lines (in_fbytes v).
Proof. exact in_raws_prep_l. Qed.
Print Assumptions prep_lines.

Theorem prep_create : forall v,
  model_create (modelize (prep v))
  = create_bytes (in_chars v) (in_cg v) (in_max_size v) (in_max_seq v) (in_fbytes v) (in_arr v) (in_hp v).
Proof. exact model_create_prep_l. Qed.
Print Assumptions prep_create.

Theorem prep_load : forall v, load (in_dfile (prep v)) = load_b (in_dfile v).
Proof. exact load_prep_l. Qed.
Print Assumptions prep_load.

(** the executable statement holds of the model's own output for EVERY input: the covering premise of [check_run] /
    [check_run_u] is discharged, the model's key oracle covers by construction *)
Theorem check_run_b : forall v, check_C20b v (run_C20b v) = true.
Proof. exact check_run_b_l. Qed.
Print Assumptions check_run_b.

(** "ab\r\n" + 61 FF + "\n" + "c" (no final newline): three lines, the second with U+FFFD; the pinned reader stops after one *)
Example file_lines_witness :
  file_lines [97; 98; 13; 10; 97; 255; 10; 99] = [[97; 98]; [97; 65533]; [99]]
  /\ file_lines_pinned [97; 98; 13; 10; 97; 255; 10; 99] = [[97; 98]]
  /\ file_lines [] = [] /\ file_lines [10] = [[]] /\ file_lines [239; 187; 191; 97] = [[65279; 97]].
Proof. vm_compute. repeat split; reflexivity. Qed.
Example file_lines_valid_witness :
  Forall (fun l => C01_Model.utf8_decode l <> None) (NFKC_Tie.split_lines [] [97; 195; 169; 13; 10; 0; 10; 98]).
Proof.
  replace (NFKC_Tie.split_lines [] [97; 195; 169; 13; 10; 0; 10; 98]) with [[97; 195; 169]; [0]; [98]]
    by (vm_compute; reflexivity).
  repeat constructor; intro H; vm_compute in H; discriminate H.
Qed.
Example load_b_witness :
  load_b [97; 9; 49; 10; 255; 9; 50; 10] = None /\ load [97; 9; 49; 10; 255; 9; 50; 10] = Some [([97], 1); ([255], 2)]
  /\ load_b [97; 9; 49; 10; 195; 169; 9; 50; 10] = Some [([97], 1); ([195; 169], 2)].
Proof. vm_compute. repeat split; reflexivity. Qed.
(** the query "Ａé" + ligature fi normalises to "Aéfi"; the key "e U+0301 b" has two clusters *)
Example norm_query_witness :
  norm_query [65313; 101; 769; 64257] = [65; 233; 102; 105] /\ seg_key [101; 204; 129; 98] = [[101; 204; 129]; [98]].
Proof. vm_compute. split; reflexivity. Qed.

(** The extracted pipeline judges [create], save -> load and [load] on [prep0 v] = [prep v] without the queries, and the
    queries with [check_closest_m] = [check_closest] with the oracle look-up replaced by the model's own segmentation. *)
Theorem prep0_create : forall v,
  model_create (modelize (prep0 v))
  = create_bytes (in_chars v) (in_cg v) (in_max_size v) (in_max_seq v) (in_fbytes v) (in_arr v) (in_hp v).
Proof. exact model_create_prep0_l. Qed.
Print Assumptions prep0_create.

Theorem check_closest_m_is_check_closest : forall (d0 d : dict) q a, (forall e, In e d -> In (fst e) (map fst d0)) ->
  check_closest (segs_of_dict d0) d q a = check_closest_m d q a.
Proof. exact check_closest_m_eq. Qed.
Print Assumptions check_closest_m_is_check_closest.

(** it accepts the answer of [closest_m] (whatever the [get] field holds) ... *)
Theorem check_closest_m_complete : forall (d : dict) (q : query) g,
  check_closest_m d q (L [g; closest_v (closest_m (fst q) (snd (snd q)) d)]) = true.
Proof. exact check_closest_m_ok. Qed.
Print Assumptions check_closest_m_complete.

(** ... and an accepted answer is [None] on the empty dictionary, otherwise an entry at minimal distance that no entry
    at the same distance exceeds in frequency — no oracle, no covering premise *)
Theorem check_closest_m_sound : forall (d : dict) norm nq qc a,
  check_closest_m d (norm, (nq, qc)) a = true ->
  (d = [] -> exists g, a = L [g; L []]) /\
  (d <> [] ->
   exists g wv fz, a = L [g; L [L [wv; I fz]]] /\
     In (v_bytes wv, Z.to_N fz) d /\
     forall e', In e' d ->
       (kdist_m norm qc (v_bytes wv, Z.to_N fz) <= kdist_m norm qc e')%Q /\
       ((kdist_m norm qc e' == kdist_m norm qc (v_bytes wv, Z.to_N fz))%Q -> snd e' <= Z.to_N fz)).
Proof. exact check_closest_m_sound_l. Qed.
Print Assumptions check_closest_m_sound.

(** the query as [get] / [get_closest] see it ([normalize(s, NFKC, true)], computed by the model since topic M): every
    cluster of [segment q] NFKC-normalised on its own; ASCII queries are left alone (NFKC_Props.v has the theorems about
    [nfkc] itself) *)
Theorem norm_query_spec : forall q, norm_query q = concat (map NFKC_Model.nfkc (UAX29_Model.segment q)).
Proof. exact (fun q => NFKC_Props.normalize_g_spec NFKC_Model.NFKC q). Qed.
Print Assumptions norm_query_spec.

Theorem norm_query_ascii : forall q, Forall (fun c => c <= 127) q -> norm_query q = q.
Proof. exact (fun q H => NFKC_Props.normalize_ascii NFKC_Model.NFKC true q H). Qed.
Print Assumptions norm_query_ascii.

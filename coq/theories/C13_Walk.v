(** C13 proofs, part 1: the word-grouping walk of [_group_words] on whitespace-clean texts.
    - words of a clean text: [word_boundaries] has (#whitespace + 1) entries and the word a
      position is attributed to is the number of whitespace characters before it;
    - every script that applies under [spaces_insert_delete_only] changes the number of
      whitespace characters only by its whitespace inserts/deletes;
    - the walk consumes exactly the words of both texts: the closing assertion holds. *)
From Coq Require Import Lia.
From TU Require Import Base C13_Model.
From TU Require C10_Model C11_Model C12_Model C18_Model C18_Proofs.
Open Scope nat_scope.

(** number of whitespace characters *)
Fixpoint cws (l : list cluster) : nat :=
  match l with [] => 0 | c :: r => (if cl_ws c then 1 else 0) + cws r end.

Lemma cws_app : forall a b, cws (a ++ b) = cws a + cws b.
Proof. induction a as [|c a IH]; intros b; cbn [app cws]; [reflexivity|]. rewrite IH. lia. Qed.

Lemma cws_firstn_le : forall l k, cws (firstn k l) <= cws l.
Proof.
  induction l as [|c l IH]; intros [|k]; cbn [firstn cws]; try lia.
  specialize (IH k). lia.
Qed.

(** * Step 1: words of a clean text *)
Notation scb := C10_Model.scb.
Notation head_nonwsb := C10_Model.head_nonwsb.
Notation wb_aux := C11_Model.wb_aux.

Lemma word_idx_of_ge : forall B w pos, w <= word_idx_of B w pos.
Proof.
  induction B as [|[s e] B IH]; intros w pos; cbn [word_idx_of]; [lia|].
  destruct (Nat.leb pos e); [lia|]. specialize (IH (S w) pos). lia.
Qed.

Lemma word_idx_of_mono : forall B w p q, p <= q -> word_idx_of B w p <= word_idx_of B w q.
Proof.
  induction B as [|[s e] B IH]; intros w p q H; cbn [word_idx_of]; [lia|].
  destruct (Nat.leb p e) eqn:E1; destruct (Nat.leb q e) eqn:E2.
  - lia.
  - pose proof (word_idx_of_ge B (S w) q). lia.
  - apply Nat.leb_gt in E1. apply Nat.leb_le in E2. lia.
  - now apply IH.
Qed.

Definition starts_nonws (l : list cluster) : bool :=
  match l with [] => false | c :: _ => negb (cl_ws c) end.

(** the claim for a suffix [l] whose first element has index [idx] *)
Definition words_claim (B : list (nat * nat)) (l : list cluster) (idx w : nat) : Prop :=
  length B = S (cws l) /\
  forall pos, idx <= pos <= idx + length l -> word_idx_of B w pos = w + cws (firstn (pos - idx) l).

Lemma words_gen : forall l,
  scb l = true ->
  (forall idx st w, st < idx -> words_claim (wb_aux idx (Some st) l) l idx w) /\
  (forall idx w, starts_nonws l = true -> words_claim (wb_aux idx None l) l idx w).
Proof.
  induction l as [|c r IH]; intros Hsc.
  - split.
    + intros idx st w Hst. cbn [C11_Model.wb_aux]. apply Nat.ltb_lt in Hst. rewrite Hst.
      split; [reflexivity|]. intros pos Hpos. cbn [length] in Hpos.
      assert (pos = idx) by lia. subst pos. cbn [word_idx_of]. rewrite Nat.leb_refl.
      rewrite Nat.sub_diag. cbn [firstn cws]. lia.
    + intros idx w H. discriminate.
  - cbn [C10_Model.scb] in Hsc. apply andb_true_iff in Hsc as [Hc Hr].
    destruct (IH Hr) as [IH1 IH2]. clear IH.
    assert (Hin : forall idx st w, st < idx -> words_claim (wb_aux idx (Some st) (c :: r)) (c :: r) idx w).
    { intros idx st w Hst. cbn [C11_Model.wb_aux]. destruct (cl_ws c) eqn:Ec.
      - (* whitespace: the word [st, idx) ends here *)
        apply andb_true_iff in Hc as [Hc Hh]. apply andb_true_iff in Hc as [_ Hne].
        assert (Hs : starts_nonws r = true).
        { destruct r as [|c' r']; [discriminate|]. cbn [C10_Model.head_nonwsb] in Hh. exact Hh. }
        destruct (IH2 (S idx) (S w) Hs) as [L1 L2].
        split.
        + cbn [length cws]. rewrite Ec, L1. lia.
        + intros pos Hpos. cbn [word_idx_of].
          destruct (Nat.leb pos idx) eqn:E.
          * apply Nat.leb_le in E. assert (pos = idx) by lia. subst pos.
            rewrite Nat.sub_diag. cbn [firstn cws]. lia.
          * apply Nat.leb_gt in E. cbn [length] in Hpos.
            rewrite L2 by lia.
            replace (pos - idx) with (S (pos - S idx)) by lia.
            cbn [firstn cws]. rewrite Ec. lia.
      - (* inside the word *)
        assert (Hst' : st < S idx) by lia.
        destruct (IH1 (S idx) st w Hst') as [L1 L2].
        split.
        + cbn [cws]. rewrite Ec. exact L1.
        + intros pos Hpos. cbn [length] in Hpos.
          destruct (Nat.eq_dec pos idx) as [->|Hne].
          * rewrite Nat.sub_diag. cbn [firstn cws].
            pose proof (word_idx_of_ge (wb_aux (S idx) (Some st) r) w idx) as G.
            pose proof (word_idx_of_mono (wb_aux (S idx) (Some st) r) w idx (S idx)) as M.
            rewrite (L2 (S idx)) in M by lia. rewrite Nat.sub_diag in M. cbn [firstn cws] in M. lia.
          * rewrite L2 by lia.
            replace (pos - idx) with (S (pos - S idx)) by lia.
            cbn [firstn cws]. rewrite Ec. lia. }
    split; [exact Hin|].
    intros idx w Hs. cbn [starts_nonws] in Hs. apply negb_true_iff in Hs.
    cbn [C11_Model.wb_aux]. rewrite Hs.
    assert (Hst : idx < S idx) by lia.
    destruct (IH1 (S idx) idx w Hst) as [L1 L2].
    split.
    + cbn [cws]. rewrite Hs. exact L1.
    + intros pos Hpos. cbn [length] in Hpos.
      destruct (Nat.eq_dec pos idx) as [->|Hne].
      * rewrite Nat.sub_diag. cbn [firstn cws].
        pose proof (word_idx_of_ge (wb_aux (S idx) (Some idx) r) w idx) as G.
        pose proof (word_idx_of_mono (wb_aux (S idx) (Some idx) r) w idx (S idx)) as M.
        rewrite (L2 (S idx)) in M by lia. rewrite Nat.sub_diag in M. cbn [firstn cws] in M. lia.
      * rewrite L2 by lia.
        replace (pos - idx) with (S (pos - S idx)) by lia.
        cbn [firstn cws]. rewrite Hs. lia.
Qed.

Lemma cleanb_parts : forall l, C10_Model.cleanb l = true -> head_nonwsb l = true /\ scb l = true.
Proof. intros l H. unfold C10_Model.cleanb in H. now apply andb_true_iff in H. Qed.

Lemma clean_starts : forall l, C10_Model.cleanb l = true -> l <> [] -> starts_nonws l = true.
Proof.
  intros [|c r] H Hne; [congruence|]. apply cleanb_parts in H as [H _]. exact H.
Qed.

(** the two facts used below *)
Lemma clean_words_length : forall l, C10_Model.cleanb l = true -> l <> [] ->
  length (C11_Model.word_boundaries l) = S (cws l).
Proof.
  intros l H Hne. pose proof (clean_starts l H Hne) as Hs. apply cleanb_parts in H as [_ Hsc].
  destruct (words_gen l Hsc) as [_ W]. destruct (W 0 0 Hs) as [L _]. exact L.
Qed.

Lemma clean_word_idx : forall l pos, C10_Model.cleanb l = true -> l <> [] -> pos <= length l ->
  word_idx_of (C11_Model.word_boundaries l) 0 pos = cws (firstn pos l).
Proof.
  intros l pos H Hne Hpos. pose proof (clean_starts l H Hne) as Hs. apply cleanb_parts in H as [_ Hsc].
  destruct (words_gen l Hsc) as [_ W]. destruct (W 0 0 Hs) as [_ L].
  unfold C11_Model.word_boundaries. rewrite (L pos) by lia. now rewrite Nat.sub_0_r.
Qed.

Lemma words_nil : C11_Model.word_boundaries [] = [].
Proof. reflexivity. Qed.

(** * Step 2: scripts under spaces_insert_delete_only *)
Lemma cl_eqb_true : forall x y : cluster, cl_eqb x y = true -> x = y.
Proof. intros x y H. now apply C18_Proofs.str_eqb_eq. Qed.

Lemma keep_n_spec : forall k a b a1 b1, C12_Model.keep_n k a b = Some (a1, b1) ->
  exists ka, a = ka ++ a1 /\ b = ka ++ b1 /\ length ka = k.
Proof.
  induction k as [|k IH]; intros a b a1 b1 H; cbn [C12_Model.keep_n] in H.
  - injection H as <- <-. exists []. auto.
  - destruct a as [|x a]; [discriminate|]. destruct b as [|y b]; [discriminate|].
    destruct (cl_eqb x y) eqn:E; [|discriminate]. apply cl_eqb_true in E. subst y.
    destruct (IH _ _ _ _ H) as (ka & -> & -> & L). exists (x :: ka). cbn [app length]. auto.
Qed.

Lemma all_kept_eq : forall a b, C12_Model.all_kept a b = true -> a = b.
Proof.
  induction a as [|x a IH]; intros [|y b] H; cbn [C12_Model.all_kept] in H; try discriminate; [reflexivity|].
  apply andb_true_iff in H as [E H]. apply cl_eqb_true in E. subst y. f_equal. now apply IH.
Qed.

Lemma firstn_app_len : forall {A} (p s : list A), firstn (length p) (p ++ s) = p.
Proof. intros A p s. rewrite firstn_app, Nat.sub_diag, firstn_all. cbn [firstn]. apply app_nil_r. Qed.

Lemma nth_error_app_len : forall {A} (p s : list A) x, nth_error (p ++ x :: s) (length p) = Some x.
Proof. intros A p s x. rewrite nth_error_app2 by lia. now rewrite Nat.sub_diag. Qed.

Section Script.
Variable ic pc : list cluster.
Variable iw : list (nat * nat).
Hypothesis Hiw : forall pos, pos <= length ic -> word_idx_of iw 0 pos = cws (firstn pos ic).

Lemma script_attr : forall ops a b i j prea preb,
  ic = prea ++ a -> pc = preb ++ b -> length prea = i -> length preb = j ->
  C12_Model.apply_script sp_flags ops a b i j = true ->
  exists mg ins, attribute iw ic pc ops = Some (mg, ins)
    /\ cws b + length mg = cws a + length ins
    /\ NoDup mg
    /\ Forall (fun w => cws prea <= w < cws ic) mg
    /\ Forall (fun w => w <= cws ic) ins.
Proof.
  induction ops as [|[[o pi] pj] ops IH]; intros a b i j prea preb Ha Hb Hi Hj H.
  - cbn [C12_Model.apply_script] in H. apply all_kept_eq in H. subst b.
    exists [], []. cbn [attribute length]. repeat split; constructor.
  - cbn [C12_Model.apply_script] in H.
    apply andb_true_iff in H as [H Hrest]. apply andb_true_iff in H as [H Hk].
    apply andb_true_iff in H as [Hle1 Hle2].
    apply Nat.leb_le in Hle1. apply Nat.leb_le in Hle2. apply Nat.eqb_eq in Hk.
    destruct (C12_Model.keep_n (pi - i) a b) as [[a1 b1]|] eqn:EK; [|discriminate].
    destruct (keep_n_spec _ _ _ _ _ EK) as (ka & Ea & Eb & Lk).
    assert (Lpa : length (prea ++ ka) = pi) by (rewrite app_length; lia).
    assert (Lpb : length (preb ++ ka) = pj) by (rewrite app_length; lia).
    assert (Ha' : ic = (prea ++ ka) ++ a1) by (rewrite <- app_assoc, <- Ea; exact Ha).
    assert (Hb' : pc = (preb ++ ka) ++ b1) by (rewrite <- app_assoc, <- Eb; exact Hb).
    assert (Hpi : pi <= length ic) by (rewrite Ha', app_length; lia).
    assert (Hw : word_idx_of iw 0 pi = cws (prea ++ ka)).
    { rewrite Hiw by exact Hpi. rewrite Ha' at 1. rewrite <- Lpa. now rewrite firstn_app_len. }
    assert (Hca : cws a = cws ka + cws a1) by (rewrite Ea; apply cws_app).
    assert (Hcb : cws b = cws ka + cws b1) by (rewrite Eb; apply cws_app).
    assert (Hcp : cws (prea ++ ka) = cws prea + cws ka) by apply cws_app.
    destruct o.
    + (* Insert *)
      destruct b1 as [|y b']; [discriminate|].
      assert (Hb'' : pc = ((preb ++ ka) ++ [y]) ++ b') by (rewrite <- app_assoc; exact Hb').
      destruct (IH a1 b' pi (S pj) (prea ++ ka) ((preb ++ ka) ++ [y]) Ha' Hb'' Lpa) as (mg & ins & A1 & A2 & A3 & A4 & A5).
      { rewrite app_length. cbn [length]. lia. }
      { exact Hrest. }
      cbn [attribute]. rewrite A1.
      assert (Hn : nth_error pc pj = Some y) by (rewrite Hb', <- Lpb; apply nth_error_app_len).
      rewrite Hn.
      exists mg, (if cl_ws y then word_idx_of iw 0 pi :: ins else ins).
      split; [reflexivity|]. split.
      { cbn [cws] in Hcb. destruct (cl_ws y); cbv iota in Hcb; cbn [length]; lia. }
      split; [exact A3|]. split.
      { eapply Forall_impl; [|exact A4]. intros w Hw'. cbv beta in Hw'. lia. }
      destruct (cl_ws y); [|exact A5]. constructor; [|exact A5].
      rewrite Hw. rewrite Ha'. rewrite !cws_app. lia.
    + (* Delete *)
      destruct a1 as [|x a']; [discriminate|].
      assert (Ha'' : ic = ((prea ++ ka) ++ [x]) ++ a') by (rewrite <- app_assoc; exact Ha').
      destruct (IH a' b1 (S pi) pj ((prea ++ ka) ++ [x]) (preb ++ ka) Ha'' Hb') as (mg & ins & A1 & A2 & A3 & A4 & A5).
      { rewrite app_length. cbn [length]. lia. }
      { exact Lpb. }
      { destruct b1; exact Hrest. }
      cbn [attribute]. rewrite A1.
      assert (Hn : nth_error ic pi = Some x) by (rewrite Ha', <- Lpa; apply nth_error_app_len).
      rewrite Hn.
      assert (Hcx : cws ((prea ++ ka) ++ [x]) = cws prea + cws ka + (if cl_ws x then 1 else 0)).
      { rewrite cws_app, Hcp. cbn [cws]. lia. }
      assert (Hic : cws ic = cws prea + cws ka + (if cl_ws x then 1 else 0) + cws a').
      { rewrite Ha''. rewrite cws_app, Hcx. lia. }
      exists (if cl_ws x then word_idx_of iw 0 pi :: mg else mg), ins.
      split; [reflexivity|]. cbn [cws] in Hca. rewrite Hcx in A4.
      destruct (cl_ws x) eqn:Ex; cbv iota in Hca, Hcx, Hic, A4.
      * split; [cbn [length]; lia|]. split.
        { constructor; [|exact A3]. intros Hin. rewrite Forall_forall in A4.
          specialize (A4 _ Hin). cbv beta in A4. rewrite Hw, Hcp in A4. lia. }
        split; [|exact A5]. constructor.
        { rewrite Hw, Hcp. lia. }
        eapply Forall_impl; [|exact A4]. intros w Hw'. cbv beta in Hw'. lia.
      * split; [lia|]. split; [exact A3|]. split; [|exact A5].
        eapply Forall_impl; [|exact A4]. intros w Hw'. cbv beta in Hw'. lia.
    + (* Replace: never involves whitespace under sid *)
      destruct a1 as [|x a']; [discriminate|]. destruct b1 as [|y b']; [discriminate|].
      apply andb_true_iff in Hrest as [Hsub Hrest].
      unfold C12_Model.sub_ok, sp_flags in Hsub. cbn [C12_Model.sid negb orb] in Hsub.
      apply andb_true_iff in Hsub as [Hx Hy]. apply negb_true_iff in Hx. apply negb_true_iff in Hy.
      assert (Ha'' : ic = ((prea ++ ka) ++ [x]) ++ a') by (rewrite <- app_assoc; exact Ha').
      assert (Hb'' : pc = ((preb ++ ka) ++ [y]) ++ b') by (rewrite <- app_assoc; exact Hb').
      destruct (IH a' b' (S pi) (S pj) ((prea ++ ka) ++ [x]) ((preb ++ ka) ++ [y]) Ha'' Hb'') as (mg & ins & A1 & A2 & A3 & A4 & A5).
      { rewrite app_length. cbn [length]. lia. }
      { rewrite app_length. cbn [length]. lia. }
      { exact Hrest. }
      cbn [attribute]. rewrite A1. exists mg, ins. split; [reflexivity|].
      cbn [cws] in Hca, Hcb. rewrite Hx in Hca. rewrite Hy in Hcb.
      split; [lia|]. split; [exact A3|]. split; [|exact A5].
      eapply Forall_impl; [|exact A4]. intros w Hw'. cbv beta in Hw'.
      rewrite cws_app, Hcp in Hw'. lia.
    + (* Swap: impossible without with_swap *)
      destruct a1 as [|x2 [|x a']]; try discriminate.
      destruct b1 as [|y2 [|y b']]; try discriminate.
Qed.

End Script.

(** * Step 3: the walk *)
Definition cge (l : list nat) (k : nat) : nat := length (filter (fun w => Nat.leb k w) l).

Lemma cge_step : forall l k, cge l k = count_occ Nat.eq_dec l k + cge l (S k).
Proof.
  unfold cge. induction l as [|a l IH]; intros k; [reflexivity|].
  cbn [filter count_occ]. specialize (IH k).
  destruct (Nat.eq_dec a k) as [->|Hne].
  - rewrite Nat.leb_refl. replace (Nat.leb (S k) k) with false by (symmetry; apply Nat.leb_gt; lia).
    cbn [length]. lia.
  - destruct (Nat.leb k a) eqn:E1; destruct (Nat.leb (S k) a) eqn:E2; cbn [length]; try lia.
    + apply Nat.leb_le in E1. apply Nat.leb_gt in E2. lia.
    + apply Nat.leb_gt in E1. apply Nat.leb_le in E2. lia.
Qed.

Lemma cge_0 : forall l, cge l 0 = length l.
Proof.
  unfold cge. induction l as [|a l IH]; [reflexivity|]. cbn [filter].
  change (Nat.leb 0 a) with true. cbn [length]. f_equal. exact IH.
Qed.

Lemma cge_le : forall l k, cge l k <= length l.
Proof.
  intros l k. unfold cge. induction l as [|a l IH]; [reflexivity|]. cbn [filter].
  destruct (Nat.leb k a); cbn [length]; lia.
Qed.

Lemma cge_beyond : forall l n, Forall (fun w => w < n) l -> cge l n = 0.
Proof.
  unfold cge. induction l as [|a l IH]; intros n H; [reflexivity|].
  inversion H as [|? ? Ha Hl]; subst. cbn [filter].
  replace (Nat.leb n a) with false by (symmetry; apply Nat.leb_gt; lia). now apply IH.
Qed.

Lemma mem_nat_true : forall i l, mem_nat i l = true <-> In i l.
Proof. exact C18_Proofs.mem_nat_spec. Qed.

Lemma count_mem : forall l k, NoDup l ->
  count_occ Nat.eq_dec l k = if mem_nat k l then 1 else 0.
Proof.
  intros l k Hnd. destruct (mem_nat k l) eqn:E.
  - apply mem_nat_true in E. pose proof (proj1 (NoDup_count_occ Nat.eq_dec l) Hnd k).
    apply (count_occ_In Nat.eq_dec) in E. lia.
  - apply count_occ_not_In. intros Hin. apply mem_nat_true in Hin. congruence.
Qed.

Section Walk.
Variable mg ins mp : list nat.
Variable n : nat.
Hypothesis Hnd : NoDup mg.
Hypothesis Hmg : Forall (fun w => S w < n) mg.
Hypothesis Hins : Forall (fun w => w < n) ins.

Lemma merge_run_ok : forall fuel idx group total,
  idx < n -> cge mg idx < fuel ->
  exists idx' group' total',
    merge_run fuel mg ins idx group total = Some (idx', group', total')
    /\ idx <= idx' < n
    /\ cge mg idx = cge mg (S idx') + (idx' - idx)
    /\ total' + cge ins (S idx') = total + cge ins (S idx)
    /\ (forall w, In w group' <-> In w group \/ idx < w <= idx').
Proof.
  induction fuel as [|f IH]; intros idx group total Hidx Hf; [lia|].
  cbn [merge_run]. pose proof (cge_step mg idx) as Hs. rewrite (count_mem mg idx Hnd) in Hs.
  destruct (mem_nat idx mg) eqn:E.
  - apply mem_nat_true in E. rewrite Forall_forall in Hmg. pose proof (Hmg _ E) as Hlt.
    destruct (IH (S idx) (S idx :: group) (total + num_ins ins (S idx))) as (idx' & g' & t' & R1 & R2 & R3 & R4 & R5).
    { exact Hlt. }
    { lia. }
    exists idx', g', t'. split; [exact R1|]. split; [lia|]. split; [lia|]. split.
    { pose proof (cge_step ins (S idx)) as Hi. unfold num_ins in R4. lia. }
    intros w. rewrite R5. cbn [In]. split.
    + intros [[H|H]|H]; [right; lia|left; exact H|right; lia].
    + intros [H|H]; [left; right; exact H|].
      destruct (Nat.eq_dec w (S idx)) as [->|Hne]; [left; left; reflexivity|right; lia].
  - exists idx, group, total. split; [reflexivity|]. split; [lia|]. split; [lia|]. split; [reflexivity|].
    intros w. split; [auto|]. intros [H|H]; [exact H|lia].
Qed.

Lemma walk_ok : forall fuel k p corr,
  k <= n -> n - k <= fuel ->
  exists pp cc, walk fuel n mg ins mp k p corr = Some (n, pp, cc)
    /\ pp + cge mg k = p + (n - k) + cge ins k
    /\ p <= pp
    /\ incl corr cc
    /\ ((forall x, x < pp -> mem_nat x mp = true) -> forall w, k <= w < n -> In w cc).
Proof.
  induction fuel as [|f IH]; intros k p corr Hk Hf.
  - assert (k = n) by lia. subst k. cbn [walk]. rewrite Nat.ltb_irrefl.
    exists p, corr. split; [reflexivity|].
    rewrite (cge_beyond mg n), (cge_beyond ins n); [|exact Hins|].
    2:{ eapply Forall_impl; [|exact Hmg]. intros w Hw. cbv beta in Hw. lia. }
    split; [lia|]. split; [lia|]. split; [apply incl_refl|]. intros _ w Hw. lia.
  - cbn [walk]. destruct (Nat.ltb k n) eqn:E.
    + apply Nat.ltb_lt in E.
      destruct (merge_run_ok (S (length mg)) k [k] (num_ins ins k) E) as (idx' & g' & t' & R1 & R2 & R3 & R4 & R5).
      { pose proof (cge_le mg k). lia. }
      rewrite R1.
      set (ok := forallb (fun x => mem_nat x mp) (seq p (S t'))).
      destruct (IH (S idx') (p + t' + 1) (if ok then g' ++ corr else corr)) as (pp & cc & W1 & W2 & W3 & W4 & W5).
      { lia. }
      { lia. }
      exists pp, cc. split; [exact W1|]. split.
      { pose proof (cge_step ins k) as Hi. unfold num_ins in R4. lia. }
      split; [lia|]. split.
      { intros x Hx. apply W4. destruct ok; [apply in_or_app; right; exact Hx|exact Hx]. }
      intros Hall w Hw.
      destruct (Nat.le_gt_cases w idx') as [Hle|Hgt].
      * apply W4.
        assert (Hok : ok = true).
        { unfold ok. apply forallb_forall. intros x Hx. apply in_seq in Hx. apply Hall. lia. }
        rewrite Hok. apply in_or_app. left. apply R5. cbn [In].
        destruct (Nat.eq_dec w k) as [->|Hne]; [left; left; reflexivity|right; lia].
      * apply W5; [exact Hall|lia].
    + apply Nat.ltb_ge in E. assert (k = n) by lia. subst k.
      exists p, corr. split; [reflexivity|].
      rewrite (cge_beyond mg n), (cge_beyond ins n); [|exact Hins|].
      2:{ eapply Forall_impl; [|exact Hmg]. intros w Hw. cbv beta in Hw. lia. }
      split; [lia|]. split; [lia|]. split; [apply incl_refl|]. intros _ w Hw. lia.
Qed.

End Walk.

(** * Step 4: [_group_words] on clean texts: the closing assertion holds for every script
      that applies under [spaces_insert_delete_only] (not only for the optimal one) *)
Lemma is_nil_true : forall {A} (l : list A), is_nil l = true <-> l = [].
Proof. intros A [|x l]; split; intros H; try reflexivity; discriminate. Qed.

Lemma group_walk_ok_l : forall ic pc ops mp,
  C10_Model.cleanb ic = true -> C10_Model.cleanb pc = true -> ic <> [] -> pc <> [] ->
  C12_Model.script_ok sp_flags ops ic pc = true ->
  exists mg ins pp correct,
    attribute (C11_Model.word_boundaries ic) ic pc ops = Some (mg, ins)
    /\ walk (S (length (C11_Model.word_boundaries ic))) (length (C11_Model.word_boundaries ic))
            mg ins mp 0 0 [] = Some (length (C11_Model.word_boundaries ic), pp, correct)
    /\ pp = length (C11_Model.word_boundaries pc)
    /\ ((forall x, x < pp -> mem_nat x mp = true) ->
        forall w, w < length (C11_Model.word_boundaries ic) -> In w correct).
Proof.
  intros ic pc ops mp Hci Hcp Hni Hnp Hs.
  pose proof (clean_words_length ic Hci Hni) as Li.
  pose proof (clean_words_length pc Hcp Hnp) as Lp.
  destruct (script_attr ic pc (C11_Model.word_boundaries ic)
              (fun pos H => clean_word_idx ic pos Hci Hni H) ops ic pc 0 0 [] [])
    as (mg & ins & A1 & A2 & A3 & A4 & A5); try reflexivity.
  { exact Hs. }
  rewrite Li.
  assert (Hmg : Forall (fun w => S w < S (cws ic)) mg).
  { eapply Forall_impl; [|exact A4]. intros w Hw. cbv beta in Hw. lia. }
  assert (Hins : Forall (fun w => w < S (cws ic)) ins).
  { eapply Forall_impl; [|exact A5]. intros w Hw. cbv beta in Hw. lia. }
  destruct (walk_ok mg ins mp (S (cws ic)) A3 Hmg Hins (S (S (cws ic))) 0 0 []) as (pp & cc & W1 & W2 & _ & _ & W5); try lia.
  rewrite !cge_0 in W2.
  exists mg, ins, pp, cc. split; [exact A1|]. split; [exact W1|]. split; [lia|].
  intros Hall w Hw. apply W5; [exact Hall|lia].
Qed.

(** [_group_words] as a whole, given that [edit::operations] returns an applicable script
    (C12: [ops_total], [ops_apply]) *)
Lemma group_words_total_l : forall ic pc mp,
  C10_Model.cleanb ic = true -> C10_Model.cleanb pc = true ->
  (exists ops, C12_Model.operations sp_flags ic pc = Some ops /\ C12_Model.script_ok sp_flags ops ic pc = true) ->
  exists correct, group_words ic pc mp = Some correct
    /\ ((forall x, x < length (C11_Model.word_boundaries pc) -> mem_nat x mp = true) ->
        forall w, w < length (C11_Model.word_boundaries ic) -> In w correct).
Proof.
  intros ic pc mp Hci Hcp (ops & Ho & Hs). unfold group_words.
  destruct (is_nil (C11_Model.word_boundaries ic) || is_nil (C11_Model.word_boundaries pc)) eqn:E.
  - eexists. split; [reflexivity|]. intros _ w Hw. apply in_seq. lia.
  - apply orb_false_iff in E as [E1 E2].
    assert (Hni : ic <> []) by (intros ->; discriminate).
    assert (Hnp : pc <> []) by (intros ->; discriminate).
    destruct (group_walk_ok_l ic pc ops mp Hci Hcp Hni Hnp Hs) as (mg & ins & pp & cc & G1 & G2 & G3 & G4).
    rewrite Ho, G1, G2, G3, !Nat.eqb_refl. cbn [andb].
    exists cc. split; [reflexivity|]. rewrite <- G3. exact G4.
Qed.

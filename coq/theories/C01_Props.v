(** C01 — pinned statements. *)
From TU Require Import Base C01_Model C01_Proofs.

Theorem cons_reg_str : forall c segs, concat (map seg_str (cons_reg c segs)) = c :: concat (map seg_str segs).
Proof. exact C01_Proofs.cons_reg_str. Qed.
Print Assumptions cons_reg_str.

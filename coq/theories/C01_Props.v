(** C01 — pinned statements. Nothing but statements, [exact], and assumption audits.
    Strings are lists of code points; [scalars s] says every element is a Unicode scalar value
    (what a Rust [String] holds). [b] is a built tokenizer ([byte_base]/[char_base] = the constructor,
    [None] = constructor error). *)
From TU Require Import Base C01_Model C01_Proofs C01_Check.
From Coq Require Import Permutation.
From TU Require Import UAX29_Model C01_UAX29 C01_Inj.
Open Scope N_scope.

(** [String::from_utf8] after UTF-8 encoding is the identity (lossless encoding of every scalar string). *)
Theorem utf8_roundtrip : forall s, scalars s = true -> utf8_decode (utf8s s) = Some s.
Proof. exact utf8_decode_utf8s. Qed.
Print Assumptions utf8_roundtrip.

(** Every UTF-8 byte is an id below 256. *)
Theorem utf8_bytes : forall s, scalars s = true -> Forall (fun b => b < 256) (utf8s s).
Proof. exact utf8s_lt256. Qed.
Print Assumptions utf8_bytes.

(** The special-token scan partitions the text, for EVERY alternation order [toks] (the order comes
    from a hash map in the code): concatenating the segments gives the text back, every special
    segment is one of the tokens, regular segments are non-empty and never adjacent. *)
Theorem scan_partition : forall toks s,
  Forall (fun t => t <> []) toks ->
  concat (map seg_str (scan toks s 0)) = s
  /\ Forall (seg_in toks) (scan toks s 0)
  /\ no_adjacent_reg (scan toks s 0).
Proof.
  intros toks s H. split; [exact (scan_skipn toks H s 0)|].
  split; [apply scan_seg_in|apply scan_no_adjacent].
Qed.
Print Assumptions scan_partition.

(** The scan is the leftmost-first split: a special segment is the first alternative that matches
    where it starts; no alternative matches at any position inside a regular segment. *)
Theorem scan_leftmost : forall toks s,
  Forall (fun t => t <> []) toks -> leftmost toks (scan toks s 0).
Proof. intros toks s H. exact (scan_leftmost_l toks H s 0). Qed.
Print Assumptions scan_leftmost.

(** For prefix-free token sets the scan does not depend on the alternation order. *)
Theorem scan_order_independent : forall toks toks' s,
  PrefixFree toks -> Permutation toks toks' -> scan toks' s 0 = scan toks s 0.
Proof. intros toks toks' s H1 H2. exact (scan_perm_l toks toks' H1 H2 s 0). Qed.
Print Assumptions scan_order_independent.

Theorem prefix_free_sound : forall sv, prefix_freeb sv = true <-> PrefixFree sv.
Proof. exact prefix_freeb_spec. Qed.
Print Assumptions prefix_free_sound.

(** Special ids and special tokens are inverse to each other; special ids start at the offset. *)
Theorem special_ids_inverse : forall off sv t i,
  NoDup sv ->
  (sp_id off sv t = Some i <-> sp_tok off sv i = Some t)
  /\ (sp_id off sv t = Some i -> off <= i < off + N.of_nat (length sv)).
Proof.
  intros off sv t i Hnd. split; [split|].
  - intros H. apply sp_id_tok in H. tauto.
  - apply sp_tok_id. exact Hnd.
  - intros H. apply sp_id_tok in H. tauto.
Qed.
Print Assumptions special_ids_inverse.

Theorem special_vocab_nodup : forall tokens, NoDup (uniq tokens) /\ forall t, In t (uniq tokens) <-> In t tokens.
Proof. intros tokens. split; [apply uniq_NoDup|intros t; apply uniq_In]. Qed.
Print Assumptions special_vocab_nodup.

(** Byte tokenisation = prefix ids ++ body ++ suffix ids; with parsing off the body is exactly the
    UTF-8 bytes of the text; with parsing on it is the concatenation over the scan of the UTF-8 bytes
    of each regular segment and the single special id (>= 256) of each special segment. *)
Theorem byte_tokenize_shape : forall tokens padto pad prefix suffix b s ign,
  byte_base tokens padto pad prefix suffix = Some b ->
  ids_of b prefix (b_pre b) /\ ids_of b suffix (b_suf b) /\ b_off b = 256 /\
  exists body, byte_tokenize b s ign = Some (b_pre b ++ body ++ b_suf b)
    /\ (ign = true -> body = utf8s s)
    /\ (ign = false -> exists ls, Forall2 (seg_ids_rel b) (scan (b_sv b) s 0) ls /\ body = concat ls).
Proof. exact byte_tokenize_shape_l. Qed.
Print Assumptions byte_tokenize_shape.

(** Decoding with special tokens kept: the whole id sequence gives prefix spellings ++ text ++ suffix
    spellings, the ids between prefix and suffix give exactly the text. *)
Theorem byte_roundtrip : forall tokens padto pad prefix suffix b s ign,
  byte_base tokens padto pad prefix suffix = Some b ->
  Forall (fun t => t <> []) (b_sv b) -> Forall (fun t => scalars t = true) (b_sv b) -> scalars s = true ->
  exists ids, byte_tokenize b s ign = Some ids
    /\ byte_decode b ids false = Some (concat prefix ++ s ++ concat suffix)
    /\ byte_decode b (middle b ids) false = Some s.
Proof. exact byte_roundtrip_l. Qed.
Print Assumptions byte_roundtrip.

(** Character tokenisation: exactly one id per character (cluster) of every regular segment and one per
    special segment, plus prefix and suffix ids; never an error. With parsing off [n_chars] is the
    number of clusters of the text ([char_len_ign]). *)
Theorem char_len : forall A tokens unk pad prefix suffix b g s ign os,
  char_base A tokens unk pad prefix suffix = Some b ->
  exists ids, char_tokenize b A unk g s ign os = Some ids /\
    length ids = (length prefix + n_chars g (split_input (b_sv b) s ign) os + length suffix)%nat.
Proof. exact char_len_l. Qed.
Print Assumptions char_len.

Theorem char_len_ign : forall g sv s os,
  n_chars g (split_input sv s true) os = length (clusters_of g s (hd [] os)).
Proof. intros. cbn. apply Nat.add_0_r. Qed.
Print Assumptions char_len_ign.

(** The unknown id exists, is a special id, and is the id of every character that is not a single
    code point of the alphabet; a single code point of the alphabet gets its index. *)
Theorem char_unk : forall A tokens unk pad prefix suffix b g s os,
  char_base A tokens unk pad prefix suffix = Some b ->
  exists u, sp_id (b_off b) (b_sv b) unk = Some u /\ N.of_nat (length A) <= u
    /\ char_body b A unk g s true os = Some (map (char_id A u) (clusters_of g s (hd [] os)))
    /\ (forall c, (forall x, c = [x] -> ~ In x A) -> char_id A u c = u)
    /\ (forall x i, NoDup A -> nth_error A i = Some x -> char_id A u [x] = N.of_nat i).
Proof.
  intros A tokens unk pad prefix suffix b g s os Hb.
  apply char_base_spec in Hb as (_ & _ & _ & u & Hu & Hge).
  exists u. split; [exact Hu|]. split; [exact Hge|]. split; [apply char_body_ign; exact Hu|].
  split; [apply char_id_out|apply char_id_in].
Qed.
Print Assumptions char_unk.

(** Round trip of every text over the alphabet (every cluster a single code point of [A]); the
    segmentation oracle only has to concatenate to the text ([clusters_ok], automatic in code-point mode). *)
Theorem char_roundtrip : forall A tokens unk pad prefix suffix b g s ign os,
  char_base A tokens unk pad prefix suffix = Some b ->
  (ign = false -> Forall (fun t => t <> []) (b_sv b)) ->
  clusters_ok g (split_input (b_sv b) s ign) os ->
  over_alphabet A g (split_input (b_sv b) s ign) os = true ->
  exists ids, char_tokenize b A unk g s ign os = Some ids
    /\ char_decode b A ids false = Some (concat prefix ++ s ++ concat suffix)
    /\ char_decode b A (middle b ids) false = Some s.
Proof. exact char_roundtrip_l. Qed.
Print Assumptions char_roundtrip.

Theorem clusters_ok_code_points : forall segs os, clusters_ok false segs os.
Proof. exact clusters_ok_cp. Qed.
Print Assumptions clusters_ok_code_points.

Theorem clusters_ok_graphemes : forall segs os, oracle_okb segs os = true -> clusters_ok true segs os.
Proof. exact clusters_ok_oracle. Qed.
Print Assumptions clusters_ok_graphemes.

(** The executable statement evaluated on every implementation output holds of the model's own
    output, for every input (its domain and oracle guards are part of [check_C01]). *)
Theorem check_run : forall v, check_C01 v (run_C01 v) = true.
Proof. exact check_run_l. Qed.
Print Assumptions check_run.

(** Non-vacuity: a default byte tokenizer with prefix <bos> and suffix <eos>, text "a<pad>ä". *)
Example byte_witness :
  let toks := [[60;117;110;107;62];[60;98;111;115;62];[60;101;111;115;62];[60;112;97;100;62]] in
  exists b, byte_base toks None [60;112;97;100;62] [[60;98;111;115;62]] [[60;101;111;115;62]] = Some b
    /\ forallb nonemptyb (b_sv b) = true /\ forallb scalars (b_sv b) = true
    /\ byte_tokenize b [97;60;112;97;100;62;228] false = Some [257;97;259;195;164;258]
    /\ byte_decode b [257;97;259;195;164;258] false
       = Some ([60;98;111;115;62] ++ [97;60;112;97;100;62;228] ++ [60;101;111;115;62]).
Proof. cbv zeta. eexists. split; [vm_compute; reflexivity|]. vm_compute. repeat split. Qed.

(** Non-vacuity: prefix-free default tokens; an overlapping pair is not. *)
Example prefix_free_witness :
  prefix_freeb [[60;117;110;107;62];[60;98;111;115;62];[60;112;97;100;62]] = true
  /\ prefix_freeb [[60;97;62];[60;97;62;60;98;62]] = false.
Proof. vm_compute. split; reflexivity. Qed.

(** Non-vacuity: character tokenizer over alphabet "ab", text "ab<pad>b" parsed, round trip premises hold. *)
Example char_witness :
  let A := [97;98] in let toks := [[60;112;97;100;62]] in let unk := [60;117;62] in
  exists b, char_base A toks unk [60;112;97;100;62] [] [] = Some b
    /\ over_alphabet A false (split_input (b_sv b) [97;98;60;112;97;100;62;98] false) [] = true
    /\ char_tokenize b A unk false [97;98;60;112;97;100;62;98] false [] = Some [0;1;2;1]
    /\ char_tokenize b A unk false [97;99] true [] = Some [0;3].
Proof. cbv zeta. eexists. split; [vm_compute; reflexivity|]. vm_compute. repeat split. Qed.

(** ** Grapheme mode with the segmenter inside the model (UAX29_Model.segment, tied to the crate
    unicode-segmentation by the correspondence [uax29_agree]).  [char_tokenize_u b A unk s ign] is the
    character tokenizer in grapheme mode computing its own oracle: [oracle_u true segs] = [segment r] for
    every regular segment [r] of the special-token split.  No premise on a segmentation is left. *)

(** one id per cluster of [segment] of every regular segment and one per special token, plus prefix and
    suffix; parsing off: #ids = #prefix + #clusters of [segment s] + #suffix; never an error *)
Theorem char_len_u : forall A tokens unk pad prefix suffix b s ign,
  char_base A tokens unk pad prefix suffix = Some b ->
  exists ids, char_tokenize_u b A unk s ign = Some ids /\
    length ids = (length prefix + n_chars_u (split_input (b_sv b) s ign) + length suffix)%nat
    /\ (ign = true -> length ids = (length prefix + length (segment s) + length suffix)%nat).
Proof. exact char_len_u_l. Qed.
Print Assumptions char_len_u.

(** parsing off: the body is [char_id] of the clusters of [segment s]; every cluster that is not a single
    code point (every joined cluster) gets the unknown id, which is a special id *)
Theorem char_body_u : forall A tokens unk pad prefix suffix b s,
  char_base A tokens unk pad prefix suffix = Some b ->
  exists u, sp_id (b_off b) (b_sv b) unk = Some u /\ N.of_nat (length A) <= u
    /\ char_body b A unk true s true (oracle_u true (split_input (b_sv b) s true))
       = Some (map (char_id A u) (segment s))
    /\ (forall c, (length c <> 1)%nat -> char_id A u c = u).
Proof. exact char_body_u_l. Qed.
Print Assumptions char_body_u.

(** code points of grapheme category Any never join: one cluster per code point.  This is the fact the
    oracle premise [over_alphabet] used to hide ("printable ASCII never joins" is the instance
    [printable_any]); it is a decidable condition on the alphabet alone *)
Theorem segment_any_singletons : forall s : list N, forallb is_any s = true -> segment s = singletons s.
Proof. exact segment_any. Qed.
Print Assumptions segment_any_singletons.

Theorem printable_any : forall A, forallb printable_ascii A = true -> alphabet_any A = true.
Proof. exact printable_alphabet_any. Qed.
Print Assumptions printable_any.

(** the alphabet of the real tokenizer (the list the harness reads from get_vocab and hands to the model):
    95 distinct printable ASCII code points, all of category Any *)
Theorem chars_alphabet_any :
  forallb printable_ascii chars_alphabet = true /\ alphabet_any chars_alphabet = true
  /\ NoDup chars_alphabet /\ length chars_alphabet = 95%nat.
Proof. exact chars_alphabet_ok. Qed.
Print Assumptions chars_alphabet_any.

(** round trip in grapheme mode: alphabet of category Any, every code point of every regular segment in the
    alphabet (the special-token spellings need not be) => decoding gives the text back *)
Theorem char_roundtrip_u : forall A tokens unk pad prefix suffix b s ign,
  char_base A tokens unk pad prefix suffix = Some b ->
  (ign = false -> Forall (fun t => t <> []) (b_sv b)) ->
  alphabet_any A = true ->
  regs_over A (split_input (b_sv b) s ign) = true ->
  exists ids, char_tokenize_u b A unk s ign = Some ids
    /\ char_decode b A ids false = Some (concat prefix ++ s ++ concat suffix)
    /\ char_decode b A (middle b ids) false = Some s.
Proof. exact char_roundtrip_u_l. Qed.
Print Assumptions char_roundtrip_u.

(** the plain reading: printable-ASCII alphabet, every code point of the text in the alphabet *)
Theorem char_roundtrip_text_u : forall A tokens unk pad prefix suffix b s ign,
  char_base A tokens unk pad prefix suffix = Some b ->
  (ign = false -> Forall (fun t => t <> []) (b_sv b)) ->
  forallb printable_ascii A = true ->
  forallb (in_A A) s = true ->
  exists ids, char_tokenize_u b A unk s ign = Some ids
    /\ char_decode b A ids false = Some (concat prefix ++ s ++ concat suffix)
    /\ char_decode b A (middle b ids) false = Some s.
Proof. exact char_roundtrip_text_l. Qed.
Print Assumptions char_roundtrip_text_u.

(** the oracle computed by the model meets the model's own consistency test and the correspondence
    test; an input accepted by [uax29_agree] carries, for every regular segment, the model's own
    segmentation of the text that cluster list spells *)
Theorem oracle_u_ok : forall g segs,
  oracle_okb segs (oracle_u g segs) = true /\ oracle_checked g (oracle_u g segs) = true.
Proof. intros g segs. split; [apply oracle_u_okb|apply oracle_u_checked]. Qed.
Print Assumptions oracle_u_ok.

Theorem uax29_agree_sound : forall v, uax29_agree v = true ->
  Forall (fun o => o = seg_of (v_bool (v_nth 1 v)) (concat o)) (v_list (v_list v_str) (v_nth 12 v)).
Proof. exact uax29_agree_sound_l. Qed.
Print Assumptions uax29_agree_sound.

(** Lossless as injectivity: two different scalar strings never have the same UTF-8 encoding. *)
Theorem utf8s_injective : forall s t,
  scalars s = true -> scalars t = true -> utf8s s = utf8s t -> s = t.
Proof. exact utf8s_injective_l. Qed.
Print Assumptions utf8s_injective.

(** ... and never the same byte-tokenizer ids, whatever the two parse modes are: the id sequence
    determines the text (a consequence of [byte_roundtrip], stated without the decoder). *)
Theorem byte_tokenize_injective : forall tokens padto pad prefix suffix b s t ign ign' ids,
  byte_base tokens padto pad prefix suffix = Some b ->
  Forall (fun t => t <> []) (b_sv b) -> Forall (fun t => scalars t = true) (b_sv b) ->
  scalars s = true -> scalars t = true ->
  byte_tokenize b s ign = Some ids -> byte_tokenize b t ign' = Some ids -> s = t.
Proof. exact byte_tokenize_injective_l. Qed.
Print Assumptions byte_tokenize_injective.

(** Non-vacuity: the real alphabet, default tokens, text "ab <pad>c!" parsed in grapheme mode: premises of
    [char_roundtrip_u] hold; "e U+0301 x" gives the unknown id for the joined cluster *)
Example char_u_witness :
  let A := chars_alphabet in let toks := [[60;112;97;100;62]] in let unk := [60;117;62] in
  exists b, char_base A toks unk [60;112;97;100;62] [] [] = Some b
    /\ regs_over A (split_input (b_sv b) [97;98;32;60;112;97;100;62;99;33] false) = true
    /\ char_tokenize_u b A unk [97;98;32;60;112;97;100;62;99;33] false = Some [0;1;94;95;2;63]
    /\ char_tokenize_u b A unk [101;769;120] true = Some [96;23].
Proof. cbv zeta. eexists. split; [vm_compute; reflexivity|]. vm_compute. repeat split. Qed.

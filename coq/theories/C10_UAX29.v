(** C10 with the segmenter inside the model: the cluster-level theorems of C10_Proofs
    instantiated with [segment] (UAX29_Model), and the KF1 seam analysis: under the decidable
    condition [seam_safe] on both texts the string-level premise of the property gives the
    cluster-level premise, so [operations] / [repair] round-trip with premises on the two
    strings alone. *)
From TU Require Import Base UAX29_Model UAX29_Proofs C10_Model C10_Proofs C10_Seam C10_Stable.
From TU Require C11_Model C11_Proofs C11_Link C11_UAX29.
From Coq Require Import Lia.
Open Scope N_scope.

Module M11 := C11_Model.
Module P11 := C11_Proofs.
Module U11 := C11_UAX29.

(** * A. context-free boundaries *)

Lemma pr_incb_consonant k1 k2 : check_pair k1 k2 = PR_InCbConsonant -> k2 = GC_InCB_Consonant.
Proof. destruct k1, k2; cbn; congruence. Qed.

(** where [cf_break] holds the two sides are segmented independently, whatever precedes
    and follows *)
Lemma cf_break_split a b u v :
  cf_break a b = true ->
  segment ((u ++ [a]) ++ b :: v) = segment (u ++ [a]) ++ segment (b :: v).
Proof.
  unfold cf_break. destruct (check_pair (gcb a) (gcb b)) eqn:Hp; try discriminate.
  - intros _. apply segment_app_break_l. exact Hp.
  - destruct (incb_of a) eqn:Hi; [discriminate|]. intros _.
    pose proof (pr_incb_consonant _ _ Hp) as Hb.
    assert (Hne : u ++ [a] <> []) by (destruct u; discriminate).
    assert (Hib : incb_of b = None) by (apply incb_none; rewrite Hb; reflexivity).
    apply segment_split; [exact Hne| |].
    + unfold break_after. rewrite state_of_snoc. cbn [fst snd]. unfold is_break. rewrite Hp.
      unfold advance. cbn [icb_st]. rewrite Hi. destruct (gcb a); reflexivity.
    + rewrite state_of_snoc. cbn [fst]. unfold advance. cbn [ris_odd emo_st icb_st ctx0].
      rewrite Hib, Hb. reflexivity.
Qed.

(** the three parts of [seam_ok] are the same notion at [a | b], [a | SP] and [SP | b] *)
Lemma cf_break_space_r a : cf_break a 32 = negb (is_prepend a).
Proof. unfold cf_break, is_prepend. change (gcb 32) with GC_Any. destruct (gcb a); reflexivity. Qed.

Lemma cf_break_space_l b : cf_break 32 b = negb (ws_joinable b).
Proof.
  unfold cf_break, ws_joinable. change (gcb 32) with GC_Any.
  assert (H : incb_of 32 = None) by (vm_compute; reflexivity). rewrite H.
  destruct (gcb b); reflexivity.
Qed.

Lemma seam_ok_cf a b : seam_ok a b = cf_break a 32 && cf_break 32 b && cf_break a b.
Proof. unfold seam_ok. rewrite cf_break_space_r, cf_break_space_l. reflexivity. Qed.

(** the condition is exact for a pair: where [cf_break a b] fails, some text before [a] makes
    the cursor see no boundary, i.e. [a] and [b] end up side by side in one cluster whatever
    follows (contexts: none; an Extended_Pictographic; a consonant; a consonant and a virama) *)
Lemma cf_break_exact_ba a b :
  cf_break a b = false -> exists u, break_after (u ++ [a]) b = false.
Proof.
  unfold cf_break. destruct (check_pair (gcb a) (gcb b)) eqn:Hp; try discriminate; intros H.
  - exists []. unfold break_after. apply pair_nobreak. left. exact Hp.
  - exists []. unfold break_after. apply pair_nobreak. right. exact Hp.
  - destruct (incb_of a) as [i|] eqn:Hi; [|discriminate].
    destruct i.
    + exists [2325]. unfold break_after. rewrite state_of_snoc. cbn [fst snd]. unfold is_break. rewrite Hp.
      unfold advance at 1. cbn [icb_st]. rewrite Hi.
      replace (icb_st (fst (state_of [2325]))) with (I_cons false) by (vm_compute; reflexivity).
      reflexivity.
    + exists [2325; 2381]. unfold break_after. rewrite state_of_snoc. cbn [fst snd]. unfold is_break. rewrite Hp.
      unfold advance at 1. cbn [icb_st]. rewrite Hi.
      replace (icb_st (fst (state_of [2325; 2381]))) with (I_cons true) by (vm_compute; reflexivity).
      reflexivity.
  - exists []. unfold break_after. cbn [app state_of run_from fst snd]. unfold is_break. rewrite Hp.
    assert (Ha : gcb a = GC_Regional_Indicator) by (destruct (gcb a), (gcb b); cbn in Hp; congruence).
    unfold advance. cbn [ris_odd ctx0]. rewrite Ha. reflexivity.
  - exists [128105]. unfold break_after. rewrite state_of_snoc. cbn [fst snd]. unfold is_break. rewrite Hp.
    assert (Ha : gcb a = GC_ZWJ) by (destruct (gcb a), (gcb b); cbn in Hp; congruence).
    unfold advance at 1. cbn [emo_st]. rewrite Ha.
    replace (emo_st (fst (state_of [128105]))) with E_pict by (vm_compute; reflexivity).
    reflexivity.
Qed.

Lemma cf_break_exact_l a b :
  cf_break a b = false ->
  exists u, forall v, exists cl l1 l2,
    In cl (segment ((u ++ [a]) ++ b :: v)) /\ cl = l1 ++ a :: b :: l2.
Proof.
  intros H. destruct (cf_break_exact_ba a b H) as (u & Hu). exists u. intros v.
  apply segment_nobreak_l. exact Hu.
Qed.

(** * B. a word list whose seams are context-free boundaries is segmented word by word *)
Fixpoint cf_seams (W : list str) : bool :=
  match W with
  | w1 :: (w2 :: _) as R => cf_break (last w1 32) (hd 32 w2) && cf_seams R
  | _ => true
  end.

Lemma seams_ok_cf W : seams_ok W = true -> cf_seams W = true.
Proof.
  induction W as [|w1 R IH]; [reflexivity|]. destruct R as [|w2 R']; [reflexivity|].
  cbn [seams_ok cf_seams]. unfold seam_ok. intros H.
  apply andb_true_iff in H as [H HR]. apply andb_true_iff in H as [_ Hc].
  rewrite Hc. exact (IH HR).
Qed.

Lemma seams_ok_11 W : seams_ok W = true -> U11.seams_ok W = true.
Proof.
  induction W as [|w1 R IH]; [reflexivity|]. destruct R as [|w2 R']; [reflexivity|].
  cbn [seams_ok U11.seams_ok]. unfold seam_ok. intros H.
  apply andb_true_iff in H as [H HR]. apply andb_true_iff in H as [H _].
  rewrite H. exact (IH HR).
Qed.

Lemma concat_hd (R : list str) w c w' : w = c :: w' -> exists t, concat (w :: R) = c :: t.
Proof. intros ->. cbn [concat app]. eexists. reflexivity. Qed.

Lemma segment_concat_cf W :
  Forall (fun w : str => w <> []) W -> cf_seams W = true ->
  segment (concat W) = concat (map segment W).
Proof.
  induction W as [|w1 R IH]; intros Hne Hs; [reflexivity|].
  inversion Hne as [|? ? Hw1 HneR]; subst.
  destruct R as [|w2 R'].
  - cbn [concat map]. rewrite !app_nil_r. reflexivity.
  - cbn [cf_seams] in Hs. apply andb_true_iff in Hs as [Hc HsR]. specialize (IH HneR HsR).
    inversion HneR as [|? ? Hw2 _]; subst.
    destruct w2 as [|c w2']; [exfalso; apply Hw2; reflexivity|].
    destruct (concat_hd R' (c :: w2') c w2' eq_refl) as (t & Et).
    change (concat (w1 :: (c :: w2') :: R')) with (w1 ++ concat ((c :: w2') :: R')).
    change (concat (map segment (w1 :: (c :: w2') :: R')))
      with (segment w1 ++ concat (map segment ((c :: w2') :: R'))).
    unfold str, cp in *. rewrite <- IH. rewrite Et. cbn [hd] in Hc.
    rewrite (app_removelast_last 32 Hw1) at 1.
    rewrite (cf_break_split (last w1 32) c (removelast w1) t Hc).
    rewrite <- (app_removelast_last 32 Hw1). reflexivity.
Qed.

(** * C. stripping whitespace clusters / code points of a clean text *)
Lemma cl_ws_nonws c : c <> [] -> forallb M11.nonws_cp c = true -> cl_ws c = false.
Proof.
  destruct c as [|x c]; [congruence|]. intros _ H. cbn [forallb] in H.
  apply andb_true_iff in H as [Hx _]. unfold M11.nonws_cp in Hx. apply negb_true_iff in Hx.
  unfold cl_ws. cbn [forallb]. rewrite Hx. reflexivity.
Qed.

Lemma strip_segment_word w : forallb M11.nonws_cp w = true -> strip (segment w) = segment w.
Proof.
  intros Hw. unfold strip.
  assert (H : forall c, In c (segment w) -> nonws c = true).
  { intros c Hc. unfold nonws. apply negb_true_iff. apply cl_ws_nonws.
    - pose proof (segment_nonempty_l w) as Hn. rewrite Forall_forall in Hn. exact (Hn c Hc).
    - rewrite forallb_forall in *. intros x Hx. apply Hw. rewrite <- (segment_concat_l w).
      apply in_concat. exists c. split; assumption. }
  induction (segment w) as [|c l IH]; [reflexivity|]. cbn [filter].
  rewrite (H c (or_introl eq_refl)). f_equal. apply IH. intros d Hd. apply H. right. exact Hd.
Qed.

Lemma strip_app a b : strip (a ++ b) = strip a ++ strip b.
Proof. apply filter_app. Qed.

Lemma strip_join_segments W :
  Forall P11.cwordok W -> strip (M11.join [[32]] (map segment W)) = concat (map segment W).
Proof.
  induction W as [|w R IH]; intros Hok; [reflexivity|].
  inversion Hok as [|? ? [Hne Hn] HokR]; subst. specialize (IH HokR).
  destruct R as [|w2 R'].
  - cbn [map M11.join concat]. rewrite app_nil_r. apply strip_segment_word. exact Hn.
  - change (map segment (w :: w2 :: R')) with (segment w :: map segment (w2 :: R')).
    rewrite (@P11.join_cons (list N) [[32]] (segment w) (map segment (w2 :: R'))) by discriminate.
    rewrite !strip_app, IH, (strip_segment_word w Hn). reflexivity.
Qed.

Lemma strip_cp_join W : Forall P11.cwordok W -> strip_cp (M11.join [32] W) = concat W.
Proof.
  induction W as [|w R IH]; intros Hok; [reflexivity|].
  inversion Hok as [|? ? [Hne Hn] HokR]; subst. specialize (IH HokR).
  destruct R as [|w2 R'].
  - cbn [M11.join concat]. rewrite app_nil_r. apply (P11.strip_cps_nonws w Hn).
  - unfold str, cp in *. rewrite (@P11.join_cons N [32] w (w2 :: R')) by discriminate.
    rewrite !strip_cp_app, IH. cbn [concat]. f_equal. apply (P11.strip_cps_nonws w Hn).
Qed.

Lemma cwordok_ne W : Forall P11.cwordok W -> Forall (fun w : str => w <> []) W.
Proof. apply Forall_impl. intros w [H _]. exact H. Qed.

(** * D. a clean text whose word boundaries are context-free boundaries ([seam_safe_cf]) *)
Section SeamSafeCf.
Variable s : str.
Hypothesis Hc : M11.cleansb s = true.
Hypothesis Hs : seam_safe_cf s = true.

Let W := M11.words s.

Lemma ss_join : s = M11.join [32] W.
Proof. apply P11.cleansb_iff. exact Hc. Qed.

Lemma ss_segment : segment s = M11.join [[32]] (map segment W).
Proof.
  rewrite ss_join at 1. apply U11.segment_join; [apply P11.words_ok|].
  apply seams_ok_11. exact Hs.
Qed.

Lemma ss_no_mixed : no_mixedb s = true.
Proof.
  rewrite ss_join. apply U11.no_mixedb_join; [apply P11.words_ok|].
  apply seams_ok_11. exact Hs.
Qed.

(** the non-whitespace clusters of the text are the clusters of the text without whitespace *)
Lemma ss_strip : strip (segment s) = segment (strip_cp s).
Proof.
  rewrite ss_segment, (strip_join_segments W (P11.words_ok s)).
  assert (E : strip_cp s = concat W).
  { rewrite ss_join at 1. apply strip_cp_join. apply P11.words_ok. }
  rewrite E. symmetry. apply segment_concat_cf; [apply cwordok_ne, P11.words_ok|].
  apply seams_ok_cf. exact Hs.
Qed.
End SeamSafeCf.

(** * D'. [seam_safe]: deleting the spaces of a clean text keeps every other cluster — exactly *)
Lemma Clean_segment s : M11.cleansb s = true -> no_mixedb s = true -> Clean (segment s).
Proof.
  intros Hc Hm. apply (C11_Link.Clean_of_cleansb s); [exact Hc|apply segment_concat_l|].
  rewrite U11.wf_seg_segment. exact Hm.
Qed.

Lemma chain_tail c R : chain (c :: R) = true -> chain R = true.
Proof. destruct R as [|d R']; [reflexivity|]. rewrite chain_cons2. intros H. apply andb_true_iff in H as [_ H]. exact H. Qed.

Lemma chain_cons c R :
  chain (c :: R) = (match R with d :: _ => glued c d | [] => true end) && chain R.
Proof. destruct R; reflexivity. Qed.

Lemma del_safe_cons c w r :
  del_safe (c :: w :: r) =
  (if negb (cl_ws c) && cl_ws w then match r with d :: _ => glued c d | [] => true end else true)
  && del_safe (w :: r).
Proof. reflexivity. Qed.

Lemma del_safe_tail c R : del_safe (c :: R) = true -> del_safe R = true.
Proof. destruct R as [|w r]; [reflexivity|]. rewrite del_safe_cons. intros H. apply andb_true_iff in H as [_ H]. exact H. Qed.

(** (i) chain + deletable spaces => the non-whitespace clusters form a chain *)
Lemma chain_strip t : SC t -> chain t = true -> del_safe t = true -> chain (strip t) = true.
Proof.
  induction t as [|c R IH]; intros Hsc Hch Hd; [reflexivity|].
  destruct Hsc as [Hc HscR]. specialize (IH HscR (chain_tail _ _ Hch) (del_safe_tail _ _ Hd)).
  rewrite strip_cons. destruct (cl_ws c) eqn:Ec; [exact IH|].
  rewrite chain_cons, IH, andb_true_r.
  destruct R as [|w r]; [reflexivity|]. rewrite strip_cons. destruct (cl_ws w) eqn:Ew.
  - destruct HscR as [Hw _]. destruct (Hw Ew) as (_ & Hne & Hh).
    destruct r as [|d r']; [congruence|]. cbn [head_nonws] in Hh. rewrite strip_cons, Hh.
    rewrite del_safe_cons, Ec, Ew in Hd. cbn [negb andb] in Hd.
    apply andb_true_iff in Hd as [Hd _]. exact Hd.
  - rewrite chain_cons2 in Hch. apply andb_true_iff in Hch as [Hg _]. exact Hg.
Qed.

(** (ii) and conversely *)
Lemma del_safe_of_chain t : SC t -> chain (strip t) = true -> del_safe t = true.
Proof.
  induction t as [|c R IH]; intros Hsc Hch; [reflexivity|].
  destruct Hsc as [Hc HscR].
  assert (HchR : chain (strip R) = true).
  { rewrite strip_cons in Hch. destruct (cl_ws c); [exact Hch|exact (chain_tail _ _ Hch)]. }
  specialize (IH HscR HchR). destruct R as [|w r]; [reflexivity|].
  rewrite del_safe_cons, IH, andb_true_r.
  destruct (cl_ws c) eqn:Ec; [reflexivity|]. destruct (cl_ws w) eqn:Ew; [|reflexivity]. cbn [negb andb].
  destruct HscR as [Hw _]. destruct (Hw Ew) as (_ & Hne & Hh).
  destruct r as [|d r']; [congruence|]. cbn [head_nonws] in Hh.
  rewrite !strip_cons, Ec, Ew, Hh, chain_cons2 in Hch. apply andb_true_iff in Hch as [Hg _]. exact Hg.
Qed.

Lemma forallb_filter {A} (p q : A -> bool) l : forallb p l = true -> forallb p (filter q l) = true.
Proof.
  induction l as [|x l IH]; [reflexivity|]. cbn [forallb filter]. intros H.
  apply andb_true_iff in H as [H1 H2]. destruct (q x); [cbn [forallb]; rewrite H1|]; auto.
Qed.

Lemma Forall_filter {A} (P : A -> Prop) (q : A -> bool) l : Forall P l -> Forall P (filter q l).
Proof.
  induction 1 as [|x l Hx Hl IH]; [constructor|]. cbn [filter]. destruct (q x); [constructor|]; assumption.
Qed.

Lemma concat_strip_segment s : no_mixedb s = true -> concat (strip (segment s)) = strip_cp s.
Proof.
  intros Hm. rewrite <- U11.wf_seg_segment in Hm.
  change (concat (strip (segment s))) with (M11.remove (segment s)).
  rewrite (P11.remove_spec_seg _ Hm), segment_concat_l. reflexivity.
Qed.

Lemma seam_safe_strip_l s :
  M11.cleansb s = true -> seam_safe s = true -> strip (segment s) = segment (strip_cp s).
Proof.
  intros Hc Hs. unfold seam_safe in Hs. apply andb_true_iff in Hs as [Hm Hd].
  destruct (Clean_segment s Hc Hm) as [_ Hsc].
  rewrite <- (concat_strip_segment s Hm). symmetry. apply chain_stable.
  - apply Forall_filter. apply segment_nonempty_l.
  - apply forallb_filter. apply segment_clusters.
  - apply chain_strip; [exact Hsc|apply segment_chain|exact Hd].
Qed.

(** a cluster list whose concatenation has no whitespace code point: nothing mixed *)
Lemma no_mixedb_of_strip s : strip (segment s) = segment (strip_cp s) -> no_mixedb s = true.
Proof.
  intros E. unfold no_mixedb. rewrite forallb_forall. intros c Hc. unfold cl_nomixed.
  fold (cl_ws c). destruct (cl_ws c) eqn:Ew; [reflexivity|]. cbn [orb].
  assert (Hin : In c (strip (segment s))).
  { unfold strip. apply filter_In. split; [exact Hc|]. unfold nonws. rewrite Ew. reflexivity. }
  rewrite E in Hin. rewrite forallb_forall. intros x Hx.
  assert (Hx' : In x (strip_cp s)).
  { rewrite <- (segment_concat_l (strip_cp s)). apply in_concat. exists c. split; assumption. }
  unfold strip_cp in Hx'. apply filter_In in Hx' as [_ Hx']. exact Hx'.
Qed.

Lemma seam_safe_iff_l s :
  M11.cleansb s = true ->
  (seam_safe s = true <-> strip (segment s) = segment (strip_cp s)).
Proof.
  intros Hc. split; [apply seam_safe_strip_l; exact Hc|]. intros E.
  pose proof (no_mixedb_of_strip s E) as Hm. unfold seam_safe. rewrite Hm. cbn [andb].
  destruct (Clean_segment s Hc Hm) as [_ Hsc]. apply del_safe_of_chain; [exact Hsc|].
  rewrite E. apply segment_chain.
Qed.

(** the category-only condition is sufficient *)
Lemma seam_safe_cf_safe_l s : M11.cleansb s = true -> seam_safe_cf s = true -> seam_safe s = true.
Proof. intros Hc Hs. apply seam_safe_iff_l; [exact Hc|]. apply ss_strip; assumption. Qed.

Lemma seam_safe_no_mixed_l s : seam_safe s = true -> no_mixedb s = true.
Proof. unfold seam_safe. intros H. apply andb_true_iff in H as [H _]. exact H. Qed.

Lemma str_premise_spec f t :
  str_premise f t = true <->
  M11.cleansb f = true /\ M11.cleansb t = true /\ strip_cp f = strip_cp t.
Proof. unfold str_premise. rewrite !andb_true_iff, nlist_eqb_eq. tauto. Qed.

Lemma dom_C10_spec f t :
  dom_C10 f t = true <->
  M11.cleansb f = true /\ M11.cleansb t = true /\ strip_cp f = strip_cp t
  /\ seam_safe f = true /\ seam_safe t = true.
Proof. unfold dom_C10. rewrite !andb_true_iff, str_premise_spec. tauto. Qed.

(** string-level premise + seam-safe texts => the cluster-level premise of [ops_roundtrip] *)
Lemma seam_safe_premise_l f t :
  M11.cleansb f = true -> M11.cleansb t = true -> strip_cp f = strip_cp t ->
  seam_safe f = true -> seam_safe t = true ->
  Clean (segment f) /\ Clean (segment t) /\ strip (segment f) = strip (segment t).
Proof.
  intros Hf Ht He Sf St.
  split; [apply Clean_segment; [exact Hf|apply seam_safe_no_mixed_l; exact Sf]|].
  split; [apply Clean_segment; [exact Ht|apply seam_safe_no_mixed_l; exact St]|].
  rewrite (seam_safe_strip_l f Hf Sf), (seam_safe_strip_l t Ht St), He. reflexivity.
Qed.

(** the round trip with premises on the two strings alone *)
Lemma operations_repair_roundtrip_u_l f t :
  M11.cleansb f = true -> M11.cleansb t = true -> strip_cp f = strip_cp t ->
  seam_safe f = true -> seam_safe t = true ->
  exists ops, operations (segment f) (segment t) = Some ops
              /\ length ops = length (segment f)
              /\ repair (segment f) ops = Some t.
Proof.
  intros Hf Ht He Sf St.
  destruct (seam_safe_premise_l f t Hf Ht He Sf St) as (Cf & Ct & Es).
  destruct (ops_roundtrip_l _ _ Cf Ct Es) as (ops & H1 & H2 & H3).
  exists ops. rewrite segment_concat_l in H3. auto.
Qed.

(** inside the domain of that theorem the KF1 class is empty *)
Lemma kf1_outside_l f t : dom_C10 f t = true -> kf1b f t = false.
Proof.
  intros H. apply dom_C10_spec in H as (Hf & Ht & He & Sf & St).
  destruct (seam_safe_premise_l f t Hf Ht He Sf St) as (_ & _ & Es).
  unfold kf1b. rewrite Es. replace (cll_eqb (strip (segment t)) (strip (segment t))) with true.
  - cbn [negb]. apply andb_false_r.
  - symmetry. apply cll_eqb_eq. reflexivity.
Qed.

(** ... and the class is exactly "string-level premise, and not both texts seam-safe ... with
    different results": a KF1 pair has a text that is not seam-safe *)
Lemma kf1_not_safe_l f t : kf1b f t = true -> seam_safe f && seam_safe t = false.
Proof.
  intros H. destruct (seam_safe f && seam_safe t) eqn:E; [|reflexivity].
  apply andb_true_iff in E as [Sf St]. pose proof H as H0. unfold kf1b in H.
  apply andb_true_iff in H as [H _]. apply andb_true_iff in H as [H _]. apply andb_true_iff in H as [H _].
  assert (D : dom_C10 f t = true) by (unfold dom_C10; rewrite H, Sf, St; reflexivity).
  rewrite (kf1_outside_l f t D) in H0. discriminate.
Qed.

(** * E. the cluster-level theorems with [segment] for the oracle *)
Lemma ops_roundtrip_u_l f t :
  M11.cleansb f = true -> M11.cleansb t = true -> no_mixedb f = true -> no_mixedb t = true ->
  strip (segment f) = strip (segment t) ->
  exists ops, operations (segment f) (segment t) = Some ops
              /\ length ops = length (segment f)
              /\ repair (segment f) ops = Some t.
Proof.
  intros Hf Ht Mf Mt Es.
  destruct (ops_roundtrip_l _ _ (Clean_segment f Hf Mf) (Clean_segment t Ht Mt) Es) as (ops & H1 & H2 & H3).
  exists ops. rewrite segment_concat_l in H3. auto.
Qed.

Lemma repair_only_ws_u_l s os :
  length os = length (segment s) -> exists r, repair (segment s) os = Some r /\ strip_cp r = strip_cp s.
Proof.
  intros H. destruct (repair_only_ws_l (segment s) os H) as (r & H1 & H2).
  exists r. rewrite segment_concat_l in H2. auto.
Qed.

Lemma repair_keep_u_l s os :
  length os = length (segment s) -> all_keep os = true -> repair (segment s) os = Some s.
Proof. intros H K. rewrite (repair_keep_l _ _ H K), segment_concat_l. reflexivity. Qed.

(** * F. the input built by the model alone passes the executable statement, the
    segmentation clause and the cross-check of [agree] *)
Definition clusters_v (seg : list cluster) : val := list_v (list_v n_v) seg.
Definition input_of (f t : str) (rops : list op) : val :=
  L [ bool_v (str_premise f t && no_mixedb f && no_mixedb t);
      clusters_v (segment f); clusters_v (segment t); list_v op_v rops; I 1%Z;
      bool_v (kf1b f t); bool_v (seam_safe f && seam_safe t) ].

Lemma v_clusters_v seg : v_clusters (clusters_v seg) = seg.
Proof.
  unfold v_clusters, clusters_v, v_list at 1, list_v at 1. rewrite map_map.
  induction seg as [|c r IH]; [reflexivity|]. cbn [map]. rewrite IH, P11.v_n_list. reflexivity.
Qed.

Lemma v_bool_v b : v_bool (bool_v b) = b.
Proof. destruct b; reflexivity. Qed.

Lemma check_run_u_l f t rops :
  kf1b f t = false ->
  check_C10 (input_of f t rops) (run_C10 (input_of f t rops)) = true
  /\ uax29_agree (input_of f t rops) = true /\ xcheck (input_of f t rops) = true.
Proof.
  intros Hk. split; [|split].
  - apply check_run_l. unfold input_of. cbn [v_nth nth]. rewrite v_bool_v, !v_clusters_v.
    intros Hsp. apply andb_true_iff in Hsp as [Hsp Mt]. apply andb_true_iff in Hsp as [Hsp Mf].
    unfold kf1b in Hk. rewrite Hsp, Mf, Mt in Hk. cbn [andb] in Hk. apply negb_false_iff in Hk.
    apply cll_eqb_eq in Hk. apply str_premise_spec in Hsp as (Hf & Ht & _).
    apply premiseb_spec. split; [apply Clean_segment; assumption|].
    split; [apply Clean_segment; assumption|exact Hk].
  - unfold uax29_agree, in_g, in_from, in_to, input_of. cbn [v_nth nth v_bool v_z Z.eqb negb].
    rewrite !v_clusters_v, !segment_concat_l.
    assert (R : forall l, cll_eqb l l = true) by (intros l; apply cll_eqb_eq; reflexivity).
    rewrite !R. reflexivity.
  - unfold xcheck, in_g, in_from, in_to, input_of. cbn [v_nth nth]. rewrite !v_bool_v.
    change (v_bool (I 1%Z)) with true. cbv iota. rewrite !v_clusters_v, !segment_concat_l, Hk.
    rewrite andb_false_r. cbn [negb]. rewrite andb_true_r. apply Bool.eqb_reflx.
Qed.

(** Pipeline, part 3 — pinned statements about the spelling-corruption stage inside the item path
    (Pipeline_Spell.v: [C15_Spell.spell_text], mode Artificial without a character dictionary, plugged into the
    preprocessing interpreter as [opq_full]).  Nothing but statements, [exact], audits. *)
From TU Require Import RNG_Model RNG_Proofs.
From TU Require Import Base UCD_Model C15_Model C15_Seeded C15_Spell C15_SpellProofs.
From TU Require Import Pipeline_Model Pipeline_Tasks Pipeline_TasksProofs C08_Bytes Pipeline_Spell Pipeline_SpellProofs.
Local Open Scope nat_scope.

(** the stage id decodes to SpellingCorruption(part, pw_menu[pw], allow_full_delete, Artificial(pc_menu[pc], _, None)) *)
Theorem spell_stage_id : forall (tg fd : bool) pw pc x i, pw < 8 -> pc < 8 ->
  opq_full (2 + (if tg then 1 else 0) + 2 * (if fd then 1 else 0) + 4 * pw + 32 * pc) x i =
  apply_part (if tg then PTarget else PInput)
             (fun s i => spell_stage fd (nth pw pw_menu f_zero) (nth pc pc_menu f_zero) (i_seed i) s) x i.
Proof. exact opq_full_spell. Qed.
Print Assumptions spell_stage_id.

(** every probability of the menu passes the constructor's assertion (clamped probability > 0) *)
Theorem spell_menu_accepted : forallb (fun p => positive (fclamp01 p)) pw_menu = true.
Proof. exact pw_menu_positive. Qed.
Print Assumptions spell_menu_accepted.

(** the stage is DEFINED: for every seed, both probabilities and every text (below 2^60 code points) it returns a
    text — no Err (the loader never drops an item here), no panic (C15's spell_text_total) *)
Theorem spell_stage_never_fails : forall fd prob pc seed s, positive (fclamp01 prob) = true ->
  (N.of_nat (S (length s)) * 2 < 4611686018427387904)%N ->
  exists t, spell_stage fd prob pc seed s = ROk t.
Proof. exact spell_stage_defined. Qed.
Print Assumptions spell_stage_never_fails.

(** what it returns (C15's spell_text_spec): the whitespace-separated words of the text, in order, joined by ONE space,
    each of them itself or the end of a chain of 1 .. max(1, #clusters) edit_word calls (delete / swap of alphabetic or
    punctuation characters) from the empty exclusion set, dropped when nothing is left *)
Theorem spell_stage_output : forall fd prob pc seed s t, spell_stage fd prob pc seed s = ROk t ->
  exists os, Forall2 (word_result_t (spell_cfg fd None) []) (split_ws s) os /\ t = join_sp (C15_Seeded.keep_some os).
Proof. exact spell_stage_words. Qed.
Print Assumptions spell_stage_output.

(** the item path with the spelling corruption (and JsonDecode) interpreted is still a FUNCTION of (configurations,
    max_length, item, seed, incoming marks): the purity assumption of C08 for the configurations with the table-free
    spelling corruption *)
Theorem pipeline_pure_with_spelling : forall c t q maxlen x i i',
  has_unmodelled_full c = false -> q_has_opaque q = false ->
  i_seed i = i_seed i' -> i_marks i = i_marks i' ->
  pipeline_t opq_full qopq_none (PGlobal c) t (QGlobal q) maxlen x i =
  pipeline_t opq_full qopq_none (PGlobal c) t (QGlobal q) maxlen x i'.
Proof. exact pipeline_full_function_of_seed. Qed.
Print Assumptions pipeline_pure_with_spelling.

(** "hello world abcdef", seed 5, word probability 1.0, character probability 0.0, no full delete: one delete or swap
    per word *)
Example spell_stage_example :
  spell_stage false (nth 0 pw_menu f_zero) (nth 0 pc_menu f_zero) 5
              [104;101;108;108;111;32;119;111;114;108;100;32;97;98;99;100;101;102]%N
  = ROk [104;101;108;108;32;119;111;108;100;32;97;98;100;99;101;102]%N.
Proof. vm_compute. reflexivity. Qed.

(** C08 from the raw file bytes, with every modelled task and postprocessing configuration.  Definitions only.

    [lines_of_file b] = what [train_data_generator_from_jsonl] yields for a file with the bytes [b]
    ([C07_Files.items_of_file]: LossyUtf8Lines + serde_json + the key handling), an Err item as [None].
    The loader drops an Err item in [filter_map(data.ok() ..)] AFTER enumerate/take/skip/step_by
    (mod.rs:981-997): a broken line occupies a position — it counts for [len()] (min_items, weights), for limit /
    skip / fast-forward, for the rank striding and for the per-item seed (seed + epoch + position) of every later
    line.  That is what [loader_run] does with a [None] line; [loader_run_bytes] is [loader_run] on
    [map lines_of_file files].

    [loader_g] is the loader of C08_Pipeline.v with the pipeline as a parameter ([pres i (file, item)] = the result of
    the pipeline closure for generator position [i]); [loader_run] is the instance [pipe_res], [loader_run_t] the
    instance [pipeline_t] (all tasks, postprocessing), [loader_run_tb] the latter from bytes. *)
From TU Require Import RNG_Model.
From TU Require Import Base C01_Model C06_Model C06_Seeded C07_Model C08_Model C08_EndToEnd Pipeline_Model C08_Pipeline.
From TU Require Import Lines_Model JSON_Model C07_Files Pipeline_Tasks.
Local Open Scope nat_scope.

(** * files as bytes *)
Definition line_of_fitem (x : fitem) : line :=
  match x with
  | FData i t => Some (mk_item i t)
  | FErr _ => None
  end.

Definition lines_of_file (b : list byte) : list line := map line_of_fitem (items_of_file b).

(** * the loader with the pipeline as a parameter *)
Inductive gres (B : Type) :=
| GOk (min_items : nat) (batches : list (list (nat * B)))
| GCtor | GPanic | GFuel.
Arguments GOk {B} min_items batches.
Arguments GCtor {B}.
Arguments GPanic {B}.
Arguments GFuel {B}.

Section GLoader.
Context {B : Type}.
Variable pres : nat -> nat * item -> res B.
Variable size : nat * B -> nat.

Definition g_fn (i : nat) (d : nat * item) : option B :=
  match pres i d with ROk t => Some t | _ => None end.

Definition g_panics (data : list (option (nat * item))) (lim skip ff rank W : nat) : bool :=
  existsb (fun i => match nth i data None with Some d => is_panic (pres i d) | None => false end)
          (sel lim skip ff rank W (length data)).

(** [ok]: the constructors accept the configuration; [seede] = seed + epoch *)
Definition loader_g (ok : bool) (s : strategy) (seede : N) (files : list (list line)) (lim skip ff rank W : nat)
           (sort shuffle : bool) (prefetch blim : nat) (ty : limit_type) : gres B :=
  if negb ok then GCtor else
  match gen_lines s seede files with
  | None => GFuel
  | Some (C07_Model.Err C07_Model.CtorErr) => GCtor
  | Some (C07_Model.Err _) => GFuel
  | Some (C07_Model.Ok out) =>
      let data := data_of_out out in
      if g_panics data lim skip ff rank W then GPanic else
      match batches_seeded size sort shuffle prefetch blim ty seede
                      (loader_items data g_fn lim skip ff rank W) with
      | C06_Model.Ok bs => GOk (min_items lim skip (length data)) bs
      | C06_Model.Err _ => GFuel
      end
  end.
End GLoader.

Definition lres_of (r : gres titem) : lres :=
  match r with GOk m bs => LOk m bs | GCtor => LCtor | GPanic => LPanic | GFuel => LFuel end.

(** * from bytes: the whitespace-correction loader of C08_Pipeline.v *)
Definition loader_run_bytes (opq : nat -> item -> info -> res (item * info)) (p : pcfg) (g : bool) (b : base)
           (seed epoch : N) (s : strategy) (files : list (list byte)) (lim skip ff rank W : nat)
           (sort shuffle : bool) (prefetch blim : nat) (ty : limit_type) : lres :=
  loader_run opq p g b seed epoch s (map lines_of_file files) lim skip ff rank W sort shuffle prefetch blim ty.

(** * every task, postprocessing *)
Section TLoader.
Variable opq : nat -> item -> info -> res (item * info).
Variable qopq : nat -> xitem -> info -> res (xitem * info).
Variables (p : pcfg) (t : tcfg) (q : qpcfg) (maxlen : nat) (seed epoch : N).

Definition pipe_res_t (i : nat) (d : nat * item) : res xitem :=
  pipeline_t opq qopq p t q maxlen (snd d) (item_info seed epoch i (fst d)).

Definition xsize (x : nat * xitem) : nat := tin_len (x_in (snd x)).

Definition loader_run_t (s : strategy) (files : list (list line)) (lim skip ff rank W : nat)
           (sort shuffle : bool) (prefetch blim : nat) (ty : limit_type) : gres xitem :=
  loader_g pipe_res_t xsize (pcfg_ok p && qpcfg_ok q) s (seed + epoch)%N files lim skip ff rank W
           sort shuffle prefetch blim ty.

Definition loader_run_tb (s : strategy) (files : list (list byte)) (lim skip ff rank W : nat)
           (sort shuffle : bool) (prefetch blim : nat) (ty : limit_type) : gres xitem :=
  loader_run_t s (map lines_of_file files) lim skip ff rank W sort shuffle prefetch blim ty.
End TLoader.

(** * val glue *)
Definition v_bfiles (v : val) : list (list byte) := v_list (v_list v_n) v.

Definition xi_v (x : nat * xitem) : val := xitem_v (snd x).

(** byte loader line.
    input  = (-3 files strategy (seed-hi seed-lo) epoch pcfg task qpcfg maxlen lim skip ff rank W sort shuffle prefetch
                 blim ty threads buffer threads2 buffer2)
             files: the raw BYTES of every file;  lim < 0: no limit;  task / qpcfg: Pipeline_Tasks.v_task / v_qpcfg
    output = (1 min_items batches same table_ok) | (0) init fails | (-777) a pipeline call panics | (-4) fuel | (-5) outside
             batches: lists of items (input target tinput) *)
Definition run_bloader_with (opq : nat -> item -> info -> res (item * info)) (unm : pcfg -> bool) (v : val) : val :=
  let files := v_bfiles (v_nth 1 v) in
  let s := v_strategy (v_nth 2 v) in
  let seed := v_hl (v_nth 3 v) in
  let epoch := v_n (v_nth 4 v) in
  let p := v_pcfg (v_nth 5 v) in
  let q := v_qpcfg (v_nth 7 v) in
  let total := sum_nat (map count_lines files) in
  if negb (pcfg_dom p) || negb (qpcfg_dom q) || unm p || qp_has_opaque q then v_outside else
  match v_task (v_nth 6 v) with
  | None => L [I 0%Z]
  | Some t =>
    match loader_run_tb opq qopq_none p t q (v_nat (v_nth 8 v)) seed epoch s files
                        (v_lim total (v_nth 9 v)) (v_nat (v_nth 10 v)) (v_nat (v_nth 11 v)) (v_nat (v_nth 12 v))
                        (v_nat (v_nth 13 v)) (v_bool (v_nth 14 v)) (v_bool (v_nth 15 v)) (v_nat (v_nth 16 v))
                        (v_nat (v_nth 17 v)) (v_ty (v_nth 18 v)) with
    | GOk m bs => L [I 1%Z; nat_v m; list_v (list_v xi_v) bs; I 1%Z; I 1%Z]
    | GCtor => L [I 0%Z]
    | GPanic => v_panic
    | GFuel => L [I (-4)%Z]
    end
  end.

Definition run_bloader (v : val) : val := run_bloader_with opq_std p_has_unmodelled v.

(** [run_C08y] with a given opaque-stage function (Pipeline_Spell.v plugs in the spelling corruption) *)
Definition run_C08y_with (opq : nat -> item -> info -> res (item * info)) (unm : pcfg -> bool) (v : val) : val :=
  if Z.eqb (C08_Pipeline.kind v) (-3) then run_bloader_with opq unm v
  else if Z.eqb (C08_Pipeline.kind v) (-4) then run_item_with opq unm v
  else run_C08x v.

Definition run_C08y (v : val) : val := run_C08y_with opq_std p_has_unmodelled v.

Definition check_C08y (v o : val) : bool :=
  if Z.eqb (C08_Pipeline.kind v) (-3) then check_loader v o
  else if Z.eqb (C08_Pipeline.kind v) (-4) then check_item v o
  else check_C08x v o.

Definition agree_C08y (v m o : val) : bool :=
  if (Z.eqb (C08_Pipeline.kind v) (-3) || Z.eqb (C08_Pipeline.kind v) (-4))%bool then val_eqb m o else agree_C08x v m o.

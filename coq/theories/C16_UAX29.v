(** C16 with the segmenter inside the model: the window theorems instantiated with the
    cluster byte lengths of [segment s] (UAX29_Model).  The premises "no empty cluster"
    ([Pos lens]) and "the cluster list is a segmentation of the text" disappear: they are
    theorems about [segment].  Byte quantities are stated against [utf8s s] (Base.v). *)
From TU Require Import Base UAX29_Model UAX29_Proofs C16_Model C16_Proofs C16_Top.
From Coq Require Import Lia ZifyBool ZifyNat ZifyN.
Open Scope N_scope.
Arguments N.add : simpl never.
Arguments N.sub : simpl never.
Arguments N.mul : simpl never.
Arguments N.eqb : simpl never.
Arguments N.ltb : simpl never.
Arguments N.leb : simpl never.
Arguments N.of_nat : simpl never.
Arguments N.to_nat : simpl never.

(** cluster byte lengths of the text [s], grapheme mode / code-point mode *)
Definition lens_u (s : str) : list N := lens_of (segment s).
Definition lens_g (g : bool) (s : str) : list N := lens_of (seg_of g s).

(** * byte lengths are UTF-8 lengths *)
Lemma sumN_app a b : sumN (a ++ b) = sumN a + sumN b.
Proof. induction a as [|x a IH]; [reflexivity|]. cbn [app]. rewrite !sumN_cons, IH. lia. Qed.

Lemma cl_blen_utf8 c : cl_blen c = lenN (utf8s c).
Proof.
  unfold cl_blen, utf8s. induction c as [|x c IH]; [reflexivity|].
  cbn [map flat_map]. rewrite sumN_cons, lenN_app, IH, utf8_len_utf8. reflexivity.
Qed.

Lemma utf8s_app a b : utf8s (a ++ b) = utf8s a ++ utf8s b.
Proof. unfold utf8s. rewrite !flat_map_concat_map, map_app, concat_app. reflexivity. Qed.

Lemma sumN_lens_of seg : sumN (lens_of seg) = lenN (utf8s (concat seg)).
Proof.
  unfold lens_of. induction seg as [|c seg IH]; [reflexivity|].
  cbn [map concat]. rewrite sumN_cons, utf8s_app, lenN_app, IH, cl_blen_utf8. reflexivity.
Qed.

Lemma cl_blen_pos c : c <> [] -> 0 < cl_blen c.
Proof.
  destruct c as [|x c]; [congruence|]. intros _. unfold cl_blen. cbn [map]. rewrite sumN_cons.
  pose proof (utf8_len_pos x). lia.
Qed.

Lemma lens_of_Pos seg : Forall (fun c => c <> []) seg -> Pos (lens_of seg).
Proof.
  unfold Pos, lens_of. induction 1 as [|c seg Hc _ IH]; [constructor|].
  cbn [map]. constructor; [apply cl_blen_pos; exact Hc|exact IH].
Qed.

Lemma singletons_nonempty s : Forall (fun c : cluster => c <> []) (singletons s).
Proof. unfold singletons. induction s as [|x s IH]; cbn [map]; constructor; [discriminate|exact IH]. Qed.

Lemma singletons_concat s : concat (singletons s) = s.
Proof. unfold singletons. induction s as [|x s IH]; [reflexivity|]. cbn [map concat app]. rewrite IH. reflexivity. Qed.

Lemma seg_of_concat g s : concat (seg_of g s) = s.
Proof. destruct g; [apply segment_concat_l|apply singletons_concat]. Qed.

Lemma seg_of_nonempty g s : Forall (fun c => c <> []) (seg_of g s).
Proof. destruct g; [apply segment_nonempty_l|apply singletons_nonempty]. Qed.

Lemma seg_of_nonnil g s : s <> [] -> seg_of g s <> [].
Proof. intros H E. apply H. rewrite <- (seg_of_concat g s), E. reflexivity. Qed.

Lemma lens_g_Pos g s : Pos (lens_g g s).
Proof. apply lens_of_Pos, seg_of_nonempty. Qed.

Lemma lens_g_nonnil g s : s <> [] -> lens_g g s <> [].
Proof.
  intros H E. apply (seg_of_nonnil g s H). unfold lens_g, lens_of in E.
  destruct (seg_of g s); [reflexivity|discriminate E].
Qed.

Lemma lens_g_sum g s : sumN (lens_g g s) = lenN (utf8s s).
Proof. unfold lens_g. rewrite sumN_lens_of, seg_of_concat. reflexivity. Qed.

Lemma lens_g_len g s : lenN (lens_g g s) = lenN (seg_of g s).
Proof. unfold lens_g, lens_of, lenN. rewrite map_length. reflexivity. Qed.

Lemma lens_u_Pos s : Pos (lens_u s).
Proof. exact (lens_g_Pos true s). Qed.
Lemma lens_u_nonnil s : s <> [] -> lens_u s <> [].
Proof. exact (lens_g_nonnil true s). Qed.
Lemma lens_u_sum s : sumN (lens_u s) = lenN (utf8s s).
Proof. exact (lens_g_sum true s). Qed.
Lemma lens_u_len s : lenN (lens_u s) = lenN (segment s).
Proof. exact (lens_g_len true s). Qed.

(** the prefix sum at character boundary [n] is the UTF-8 length of the first [n] clusters *)
Lemma pre_lens_of seg n :
  pre (lens_of seg) n = lenN (utf8s (concat (firstn (N.to_nat n) seg))).
Proof.
  rewrite pre_firstn. unfold lens_of. rewrite firstn_map. apply sumN_lens_of.
Qed.

(** * the run-length encoded offsets *)
Lemma sumN_repeat v k : sumN (repeat v k) = v * N.of_nat k.
Proof. induction k as [|k IH]; [cbn; lia|]. cbn [repeat]. rewrite sumN_cons, IH. lia. Qed.

Lemma sumN_unrle r : sumN (unrle r) = sumN (map (fun p => fst p * snd p) r).
Proof.
  unfold unrle. induction r as [|[v c] r IH]; [reflexivity|].
  cbn [flat_map map fst snd]. rewrite sumN_app, sumN_cons, IH, sumN_repeat. lia.
Qed.

(** [offsets_u]: the (num_bytes, count) runs computed from [segment s] account for exactly
    the UTF-8 bytes of [s]; [str.len()] is that number; character [n] starts after the UTF-8
    bytes of the first [n] clusters and ends after those of the first [n+1] *)
Lemma offsets_u_l s :
  sumN (map (fun p => fst p * snd p) (c_rle (cs_new (lens_u s)))) = lenN (utf8s s)
  /\ unrle (c_rle (cs_new (lens_u s))) = map (fun c => lenN (utf8s c)) (segment s)
  /\ c_blen (cs_new (lens_u s)) = lenN (utf8s s)
  /\ c_len (cs_new (lens_u s)) = lenN (segment s)
  /\ (forall n, n < lenN (segment s) ->
        bse (cs_new (lens_u s)) n =
        Ok (lenN (utf8s (concat (firstn (N.to_nat n) (segment s)))),
            lenN (utf8s (concat (firstn (N.to_nat (n + 1)) (segment s)))))).
Proof.
  cbn [cs_new c_rle c_blen c_len]. repeat split.
  - rewrite <- sumN_unrle, rle_roundtrip_l. apply lens_u_sum.
  - rewrite rle_roundtrip_l. unfold lens_u, lens_of. apply map_ext. exact cl_blen_utf8.
  - apply lens_u_sum.
  - apply lens_u_len.
  - intros n Hn. rewrite <- lens_u_len in Hn.
    destruct (byte_start_end_spec_l (lens_u s) n) as [H _]. rewrite (H Hn).
    change (nth (N.to_nat n) (lens_u s) 0) with (cblen (lens_u s) n). rewrite <- pre_succ.
    unfold lens_u. rewrite !pre_lens_of. reflexivity.
Qed.

(** * the window theorems for [segment s] (and for code-point mode), no segmentation premise *)
Section U.
Variables (g : bool) (kind max ctx : N) (s : str) (wins : list window).
Hypothesis Hs : s <> [].
Hypothesis Hw : windows kind max ctx (lens_g g s) = Ok wins.

Let HP := lens_g_Pos g s.
Let HN := lens_g_nonnil g s Hs.

Lemma windows_tile_g :
  Tile w_ws w_we 0 (lenN (seg_of g s)) wins
  /\ Tile w_bws w_bwe 0 (lenN (utf8s s)) wins
  /\ concat (map (fun w => bslice (utf8s s) (w_bws w) (w_bwe w)) wins) = utf8s s
  /\ concat (map (fun w => concat (bslice (seg_of g s) (w_ws w) (w_we w))) wins) = s.
Proof.
  destruct (windows_tile_l kind max ctx _ wins HP HN Hw) as (T1 & T2 & T3).
  rewrite lens_g_len in T1. rewrite lens_g_sum in T2.
  split; [exact T1|]. split; [exact T2|]. split.
  - apply T3. symmetry. apply lens_g_sum.
  - transitivity (concat (seg_of g s)); [|apply seg_of_concat].
    pose proof (Tile_concat (seg_of g s) w_ws w_we wins 0 T1) as E.
    change (N.to_nat 0) with 0%nat in E. cbn [skipn] in E.
    transitivity (concat (concat (map (fun w => bslice (seg_of g s) (w_ws w) (w_we w)) wins))).
    + clear. induction wins as [|w r IH]; [reflexivity|]. cbn [map concat]. rewrite concat_app, IH. reflexivity.
    + rewrite E. reflexivity.
Qed.

Lemma ctx_contains_g :
  Forall (fun w => w_cs w <= w_ws w /\ w_we w <= w_ce w /\ w_ce w <= lenN (seg_of g s)
                /\ w_bcs w <= w_bws w /\ w_bwe w <= w_bce w /\ w_bce w <= lenN (utf8s s)) wins.
Proof.
  pose proof (ctx_contains_l kind max ctx _ wins HP HN Hw) as H.
  rewrite lens_g_len, lens_g_sum in H. exact H.
Qed.

Lemma ctx_bound_g :
  (kclass kind = 0 -> Forall (fun w => w_ce w - w_cs w <= max) wins)
  /\ (kclass kind = 1 -> Forall (fun w => w_bce w - w_bcs w <= max) wins).
Proof. exact (ctx_bound_l kind max ctx _ wins HP HN Hw). Qed.

Definition blen_to (seg : list cluster) (n : N) : N := lenN (utf8s (concat (firstn (N.to_nat n) seg))).

Lemma byte_char_agree_g :
  Forall (fun w => w_bcs w = blen_to (seg_of g s) (w_cs w) /\ w_bws w = blen_to (seg_of g s) (w_ws w)
                /\ w_bwe w = blen_to (seg_of g s) (w_we w) /\ w_bce w = blen_to (seg_of g s) (w_ce w)
                /\ w_soff w = w_bcs w /\ w_soff w + w_slen w = w_bce w) wins.
Proof.
  pose proof (byte_char_agree_l kind max ctx _ wins HP HN Hw) as H1.
  pose proof (ctx_str_l kind max ctx _ wins HP HN Hw) as H2.
  rewrite Forall_forall in *. intros w Hin. specialize (H1 w Hin). specialize (H2 w Hin).
  unfold lens_g in H1. rewrite !pre_lens_of in H1. unfold blen_to.
  destruct H1 as (A & B & C & D). destruct H2 as (E & F). repeat split; assumption.
Qed.
End U.

Lemma windows_total_g g kind max ctx s :
  (exists wins, windows kind max ctx (lens_g g s) = Ok wins)
  \/ (exists c info, windows kind max ctx (lens_g g s) = Err c info).
Proof. apply windows_total_l, lens_g_Pos. Qed.

Lemma bad_config_err_g g kind max ctx s : s <> [] ->
  kclass kind <> 2 -> max <= 2 * ctx -> windows kind max ctx (lens_g g s) = Err 1 [].
Proof. intros H. apply bad_config_err_l; [apply lens_g_Pos|apply lens_g_nonnil; exact H]. Qed.

Lemma windows_fit_ok_g g kind max ctx s : s <> [] ->
  (kclass kind <> 2 -> 2 * ctx < max) ->
  (kclass kind = 1 -> Forall (fun c => lenN (utf8s c) <= max - 2 * ctx) (seg_of g s)) ->
  exists wins, windows kind max ctx (lens_g g s) = Ok wins.
Proof.
  intros H H1 H2. apply windows_fit_ok_l; [apply lens_g_Pos|apply lens_g_nonnil; exact H|exact H1|].
  intros Hk. specialize (H2 Hk). unfold lens_g, lens_of. rewrite Forall_map.
  rewrite Forall_forall in *. intros c Hc. rewrite cl_blen_utf8. apply H2. exact Hc.
Qed.

(** * the harness input built entirely by the model passes the executable statement and the
    segmenter correspondence *)
Definition clusters_v (seg : list cluster) : val := list_v (list_v n_v) seg.
Definition input_of (kind max ctx : N) (g : bool) (s : str) (probes : val) : val :=
  L [n_v kind; n_v max; n_v ctx; clusters_v (seg_of g s); bool_v g; probes].

Lemma v_n_list l : v_list v_n (list_v n_v l) = l.
Proof.
  unfold v_list, list_v. rewrite map_map. induction l as [|x l IH]; [reflexivity|].
  cbn [map]. rewrite IH, v_n_v. reflexivity.
Qed.

Lemma v_clusters_v seg : v_clusters (clusters_v seg) = seg.
Proof.
  unfold v_clusters, clusters_v, v_list at 1, list_v at 1. rewrite map_map.
  induction seg as [|c r IH]; [reflexivity|]. cbn [map]. rewrite IH, v_n_list. reflexivity.
Qed.

Lemma nlist_eqb_refl l : nlist_eqb l l = true.
Proof. induction l as [|x l IH]; [reflexivity|]. cbn [nlist_eqb]. rewrite N.eqb_refl. exact IH. Qed.

Lemma cls_eqb_refl l : cls_eqb l l = true.
Proof. induction l as [|x l IH]; [reflexivity|]. cbn [cls_eqb]. rewrite nlist_eqb_refl. exact IH. Qed.

Lemma nlist_eqb_eq a : forall b, nlist_eqb a b = true -> a = b.
Proof.
  induction a as [|x a IH]; intros [|y b] H; cbn [nlist_eqb] in H; try discriminate; [reflexivity|].
  apply andb_true_iff in H as [H1 H2]. apply N.eqb_eq in H1. subst y. rewrite (IH b H2). reflexivity.
Qed.

Lemma cls_eqb_eq a : forall b, cls_eqb a b = true -> a = b.
Proof.
  induction a as [|x a IH]; intros [|y b] H; cbn [cls_eqb] in H; try discriminate; [reflexivity|].
  apply andb_true_iff in H as [H1 H2]. apply nlist_eqb_eq in H1. subst y. rewrite (IH b H2). reflexivity.
Qed.

Lemma v_bool_v b : v_bool (bool_v b) = b.
Proof. destruct b; reflexivity. Qed.

Lemma check_run_u_l kind max ctx g s probes :
  check_C16 (input_of kind max ctx g s probes) (run_C16 (input_of kind max ctx g s probes)) = true
  /\ uax29_agree (input_of kind max ctx g s probes) = true.
Proof.
  split.
  - apply check_run_l. unfold wf_C16, input_of. cbn [v_nth nth]. rewrite v_clusters_v.
    rewrite forallb_forall. intros c Hc. pose proof (seg_of_nonempty g s) as H.
    rewrite Forall_forall in H. specialize (H c Hc). destruct c; [congruence|reflexivity].
  - unfold uax29_agree, input_of. cbn [v_nth nth]. rewrite v_clusters_v, v_bool_v, seg_of_concat.
    apply cls_eqb_refl.
Qed.

(** what an accepted oracle means: [uax29_agree] forces the supplied cluster list to be the
    model's segmentation of the text it spells *)
Lemma uax29_agree_sound_l v :
  uax29_agree v = true ->
  v_clusters (v_nth 3 v) = seg_of (v_bool (v_nth 4 v)) (concat (v_clusters (v_nth 3 v))).
Proof. unfold uax29_agree. intros H. symmetry. apply cls_eqb_eq. exact H. Qed.

(** Pipe_Proofs2: ghost log (each input processed exactly once), finiteness,
    deadlock freedom, terminal states, behaviour after the consumer dropped. *)
From Coq Require Import Lia Permutation.
From TU Require Import Base Pipe_Model Pipe_Proofs.

Section PipeProofs2.
Variables (A B : Type) (f : A -> B) (d : A).
Notation state := (state A B).
Notation step := (step A B f d).
Notation run := (run A B f d).
Notation init := (init A B).
Notation Inv := (Inv A B f).

Ltac fields := cbn [xs next turn thr chan out dropped log pad ndrop].

(** ** each index is computed exactly once *)
Definition got1 (st : tstate) : list nat := match st with Got i => [i] | _ => [] end.
Definition gots (l : list tstate) := flat_map got1 l.

Lemma gots_split l t st : nth_error l t = Some st ->
  gots l = gots (firstn t l) ++ got1 st ++ gots (skipn (S t) l).
Proof. intros H. rewrite (split_nth l t st H) at 1. unfold gots. rewrite flat_map_app. reflexivity. Qed.
Lemma gots_upd l t st' : gots (upd t st' l) = gots (firstn t l) ++ got1 st' ++ gots (skipn (S t) l).
Proof. unfold upd, gots. rewrite flat_map_app. reflexivity. Qed.
Lemma gots_upd_same l t st st' : nth_error l t = Some st -> got1 st' = got1 st -> gots (upd t st' l) = gots l.
Proof. intros H E. rewrite gots_upd, E, <- (gots_split _ _ _ H). reflexivity. Qed.

Definition LogInv (s : state) : Prop := Permutation (log s ++ gots (thr s)) (seq 0 (next s)).

Lemma gots_repeat W : gots (repeat Idle W) = [].
Proof. induction W; cbn; auto. Qed.

Lemma loginv_init l W : LogInv (init l W).
Proof. unfold LogInv. cbn. rewrite gots_repeat. constructor. Qed.

Lemma loginv_step s l s' : LogInv s -> step s l = Some s' -> LogInv s'.
Proof.
  unfold LogInv. intros I H. destruct l as [t|t|t|t|t|t| |]; cbn [Pipe_Model.step] in H.
  - destruct (nth_error (thr s) t) as [st|] eqn:Ht; [|discriminate]. destruct st; try discriminate.
    destruct (next s <? length (xs s)).
    + injection H as <-. fields. rewrite gots_upd. cbn [got1].
      rewrite (gots_split _ _ _ Ht) in I. cbn [got1 app] in I.
      rewrite seq_S. cbn [plus].
      rewrite app_assoc. eapply Permutation_trans; [symmetry; apply Permutation_middle|].
      eapply Permutation_trans; [|apply Permutation_cons_append]. apply perm_skip.
      rewrite <- app_assoc. exact I.
    + injection H as <-. cbn. rewrite (gots_upd_same _ _ _ _ Ht) by reflexivity. exact I.
  - destruct (nth_error (thr s) t) as [st|] eqn:Ht; [|discriminate]. destruct st; try discriminate.
    injection H as <-. fields. rewrite gots_upd. cbn [got1 app].
    rewrite (gots_split _ _ _ Ht) in I. cbn [got1] in I.
    eapply Permutation_trans; [|exact I].
    rewrite <- app_assoc. apply Permutation_app_head. cbn [app].
    eapply Permutation_trans; [|apply Permutation_middle]. reflexivity.
  - destruct (nth_error (thr s) t) as [st|] eqn:Ht; [|discriminate]. destruct st; try discriminate.
    destruct (i =? turn s); [|discriminate]. injection H as <-. cbn.
    rewrite (gots_upd_same _ _ _ _ Ht) by reflexivity. exact I.
  - destruct (nth_error (thr s) t) as [st|] eqn:Ht; [|discriminate]. destruct st; try discriminate.
    destruct (negb (dropped s) && (length (chan s) <? length (thr s))); [|discriminate].
    injection H as <-. fields. rewrite (gots_upd_same _ _ _ _ Ht) by reflexivity. exact I.
  - destruct (nth_error (thr s) t) as [st|] eqn:Ht; [|discriminate]. destruct st; try discriminate.
    destruct (dropped s); [|discriminate]. injection H as <-. cbn.
    rewrite (gots_upd_same _ _ _ _ Ht) by reflexivity. exact I.
  - destruct (nth_error (thr s) t) as [st|] eqn:Ht; [|discriminate]. destruct st; try discriminate.
    injection H as <-. fields. rewrite (gots_upd_same _ _ _ _ Ht) by (destruct ok; reflexivity). exact I.
  - destruct (dropped s); [discriminate|]. destruct (chan s); [discriminate|]. injection H as <-. exact I.
  - destruct (dropped s); [discriminate|]. injection H as <-. exact I.
Qed.

(** ** every step strictly decreases the measure: executions are finite *)
Notation measure := (measure A B).

Lemma list_sum_cons x l : list_sum (x :: l) = x + list_sum l.
Proof. reflexivity. Qed.

Lemma weight_upd l t st st' : nth_error l t = Some st ->
  list_sum (map weight (upd t st' l)) + weight st = list_sum (map weight l) + weight st'.
Proof.
  intros H. rewrite (split_nth l t st H) at 2. unfold upd.
  rewrite !map_app, !list_sum_app. cbn [map]. rewrite !list_sum_cons. lia.
Qed.

Ltac fin := repeat match goal with |- context [if ?b then _ else _] => destruct b end; cbn [weight] in *; lia.

Lemma measure_step s l s' : step s l = Some s' -> measure s' < measure s.
Proof.
  intros H. unfold measure. destruct l as [t|t|t|t|t|t| |]; cbn [Pipe_Model.step] in H.
  - destruct (nth_error (thr s) t) as [st|] eqn:Ht; [|discriminate]. destruct st; try discriminate.
    destruct (next s <? length (xs s)) eqn:En.
    + apply Nat.ltb_lt in En. injection H as <-. fields.
      pose proof (weight_upd _ _ _ (Got (next s)) Ht). cbn [weight] in H. fin.
    + injection H as <-. unfold Pipe_Model.set_thr. fields. pose proof (weight_upd _ _ _ Exited Ht). cbn [weight] in H. fin.
  - destruct (nth_error (thr s) t) as [st|] eqn:Ht; [|discriminate]. destruct st; try discriminate.
    injection H as <-. fields. pose proof (weight_upd _ _ _ (Computed i) Ht). cbn [weight] in H. fin.
  - destruct (nth_error (thr s) t) as [st|] eqn:Ht; [|discriminate]. destruct st; try discriminate.
    destruct (i =? turn s); [|discriminate]. injection H as <-. unfold Pipe_Model.set_thr. fields.
    pose proof (weight_upd _ _ _ (Sending i) Ht). cbn [weight] in H. fin.
  - destruct (nth_error (thr s) t) as [st|] eqn:Ht; [|discriminate]. destruct st; try discriminate.
    destruct (negb (dropped s) && (length (chan s) <? length (thr s))); [|discriminate].
    injection H as <-. fields. rewrite app_length. cbn [length].
    pose proof (weight_upd _ _ _ (Sent i true) Ht). cbn [weight] in H. fin.
  - destruct (nth_error (thr s) t) as [st|] eqn:Ht; [|discriminate]. destruct st; try discriminate.
    destruct (dropped s); [|discriminate]. injection H as <-. unfold Pipe_Model.set_thr. fields.
    pose proof (weight_upd _ _ _ (Sent i false) Ht). cbn [weight] in H. fin.
  - destruct (nth_error (thr s) t) as [st|] eqn:Ht; [|discriminate]. destruct st; try discriminate.
    injection H as <-. fields.
    pose proof (weight_upd _ _ _ (if ok then Idle else Exited) Ht). destruct ok; cbn [weight] in H; fin.
  - destruct (dropped s); [discriminate|]. destruct (chan s) eqn:Ec; [discriminate|]. injection H as <-. fields. cbn [length]. fin.
  - destruct (dropped s); [discriminate|]. injection H as <-. fields. cbn [length]. fin.
Qed.

Lemma run_measure tr : forall s s', run s tr = Some s' -> measure s' + length tr <= measure s.
Proof.
  induction tr as [|l tr IH]; cbn [Pipe_Model.run length]; intros s s' H; [injection H as <-; lia|].
  destruct (step s l) eqn:E; [|discriminate]. apply IH in H. apply measure_step in E. lia.
Qed.

Lemma list_sum_repeat x n : list_sum (repeat x n) = n * x.
Proof. induction n as [|n IH]; [reflexivity|]. cbn [repeat]. rewrite list_sum_cons, IH. lia. Qed.

Lemma pipe_finite_l l W tr s : run (init l W) tr = Some s -> length tr <= 6 * length l + W + 1.
Proof.
  intros H. apply run_measure in H.
  assert (E : list_sum (map weight (repeat Idle W)) = W).
  { clear. induction W as [|W IH]; [reflexivity|]. cbn [repeat map]. rewrite list_sum_cons, IH. reflexivity. }
  assert (M : measure (init l W) = 6 * length l + W + 1).
  { unfold measure, Pipe_Model.init. fields. rewrite E. cbn [length]. lia. }
  lia.
Qed.

(** ** deadlock freedom *)
Definition is_idle st := match st with Idle => true | _ => false end.
Definition is_got st := match st with Got _ => true | _ => false end.
Definition is_sent st := match st with Sent _ _ => true | _ => false end.
Definition is_sending st := match st with Sending _ => true | _ => false end.
Definition is_computed st := match st with Computed _ => true | _ => false end.

Lemma existsb_nth (p : tstate -> bool) l : existsb p l = true -> exists t st, nth_error l t = Some st /\ p st = true.
Proof.
  intros H. apply existsb_exists in H as (st & Hin & Hp). apply In_nth_error in Hin as (t & Ht). eauto.
Qed.
Lemma existsb_none (p : tstate -> bool) l st : existsb p l = false -> In st l -> p st = false.
Proof.
  intros H Hin. destruct (p st) eqn:E; [|reflexivity].
  assert (existsb p l = true) by (apply existsb_exists; eauto). congruence.
Qed.

Lemma progress s : Inv s -> final A B s = false ->
  exists l s', l <> Drop /\ step s l = Some s'.
Proof.
  intros I Hf.
  destruct (existsb is_idle (thr s)) eqn:E1.
  { apply existsb_nth in E1 as (t & st & Ht & Hp). destruct st; try discriminate.
    exists (Pull t). cbn [Pipe_Model.step]. rewrite Ht. destruct (next s <? length (xs s)); eexists; split; try discriminate; reflexivity. }
  destruct (existsb is_got (thr s)) eqn:E2.
  { apply existsb_nth in E2 as (t & st & Ht & Hp). destruct st; try discriminate.
    exists (Compute t). cbn [Pipe_Model.step]. rewrite Ht. eexists; split; [discriminate|reflexivity]. }
  destruct (existsb is_sent (thr s)) eqn:E3.
  { apply existsb_nth in E3 as (t & st & Ht & Hp). destruct st; try discriminate.
    exists (Advance t). cbn [Pipe_Model.step]. rewrite Ht. eexists; split; [discriminate|reflexivity]. }
  destruct (existsb is_sending (thr s)) eqn:E4.
  { apply existsb_nth in E4 as (t & st & Ht & Hp). destruct st; try discriminate.
    destruct (dropped s) eqn:Ed.
    - exists (SendFail t). cbn [Pipe_Model.step]. rewrite Ht, Ed. eexists; split; [discriminate|reflexivity].
    - destruct (length (chan s) <? length (thr s)) eqn:Ec.
      + exists (SendOk t). cbn [Pipe_Model.step]. rewrite Ht, Ed, Ec. eexists; split; [discriminate|reflexivity].
      + apply Nat.ltb_ge in Ec.
        assert (t < length (thr s)) by (apply nth_error_Some; congruence).
        destruct (chan s) as [|y c] eqn:Ech; [cbn in Ec; lia|].
        exists Recv. cbn [Pipe_Model.step]. rewrite Ed, Ech. eexists; split; [discriminate|reflexivity]. }
  destruct (existsb is_computed (thr s)) eqn:E5.
  { apply existsb_nth in E5 as (u & su & Hu & Hp). destruct su as [| |j| | |]; try discriminate.
    (* the index turn is held by someone, and that someone can only be Computed *)
    pose proof (holder_range A B f s u _ j I Hu eq_refl) as Hr.
    assert (Hin : In (turn s) (held (thr s))).
    { eapply Permutation_in; [symmetry; apply (inv_held _ _ _ _ I)|]. apply in_seq. lia. }
    unfold held in Hin. apply in_flat_map in Hin as (st & Hst & Hh).
    apply In_nth_error in Hst as (t & Ht).
    pose proof (existsb_none _ _ st E2 (nth_error_In _ _ Ht)) as N2.
    pose proof (existsb_none _ _ st E3 (nth_error_In _ _ Ht)) as N3.
    pose proof (existsb_none _ _ st E4 (nth_error_In _ _ Ht)) as N4.
    destruct st; cbn in Hh; try contradiction; try discriminate.
    destruct Hh as [->|[]].
    exists (TurnOk t). cbn [Pipe_Model.step]. rewrite Ht, Nat.eqb_refl. eexists; split; [discriminate|reflexivity]. }
  (* all threads exited *)
  assert (Hall : all_exited A B s = true).
  { unfold all_exited. apply forallb_forall. intros st Hin.
    pose proof (existsb_none _ _ st E1 Hin). pose proof (existsb_none _ _ st E2 Hin).
    pose proof (existsb_none _ _ st E3 Hin). pose proof (existsb_none _ _ st E4 Hin).
    pose proof (existsb_none _ _ st E5 Hin). destruct st; try discriminate. reflexivity. }
  unfold final in Hf. rewrite Hall in Hf. cbn [andb] in Hf.
  destruct (chan s) as [|y c] eqn:Ech; [discriminate|].
  destruct (dropped s) eqn:Ed.
  { rewrite (inv_dchan _ _ _ _ I Ed) in Ech. discriminate. }
  exists Recv. cbn [Pipe_Model.step]. rewrite Ed, Ech. eexists; split; [discriminate|reflexivity].
Qed.

(** ** terminal states *)
Lemma all_exited_held l : forallb (fun st => match st with Exited => true | _ => false end) l = true ->
  held l = [] /\ gots l = [] /\ pending l = false.
Proof.
  induction l as [|st l IH]; cbn; [auto|]. intros H. apply andb_true_iff in H as [H1 H2].
  destruct st; try discriminate. cbn. apply IH, H2.
Qed.

Lemma terminal_l s : Inv s -> LogInv s -> 0 < length (thr s) -> dropped s = false -> final A B s = true ->
  out s = map f (xs s) /\ Permutation (log s) (seq 0 (length (xs s))).
Proof.
  intros I L HW Hd Hf. unfold final in Hf. apply andb_true_iff in Hf as [Ha Hc].
  destruct (chan s) eqn:Ech; [|discriminate].
  destruct (all_exited_held _ Ha) as (Hh & Hg & Hp).
  pose proof (inv_held _ _ _ _ I) as P. rewrite Hh in P. apply Permutation_length in P. rewrite seq_length in P. cbn in P.
  pose proof (inv_turn _ _ _ _ I). pose proof (inv_next _ _ _ _ I).
  assert (Hn : next s = length (xs s)).
  { destruct (thr s) as [|st l] eqn:Et; [cbn in HW; lia|].
    unfold all_exited in Ha. rewrite Et in Ha. cbn in Ha. apply andb_true_iff in Ha as [Hst _]. destruct st; try discriminate.
    destruct (inv_exit _ _ _ _ I) as [Hx|Hx]; [rewrite Et; left; reflexivity|congruence|exact Hx]. }
  split.
  - pose proof (inv_out _ _ _ _ I Hd) as O. rewrite Ech, Hp, app_nil_r in O. rewrite O.
    rewrite firstn_all2 by lia. reflexivity.
  - unfold LogInv in L. rewrite Hg, app_nil_r, Hn in L. exact L.
Qed.

(** ** after the consumer dropped the iterator *)
Record DInv (s : state) : Prop := {
  d_len : length (pad s) = length (thr s);
  d_zero : dropped s = false -> forall t, nth t (pad s) 0 = 0;
  d_one : dropped s = true -> forall t st, nth_error (thr s) t = Some st ->
          nth t (pad s) 0 <= 1 /\ (nth t (pad s) 0 = 1 -> st <> Idle /\ forall i, st <> Sent i true);
  d_next : dropped s = true -> next s = ndrop s + list_sum (pad s)
}.

Lemma upd_cons {X} (y : X) l t x : upd (S t) x (y :: l) = y :: upd t x l.
Proof. reflexivity. Qed.
Lemma nth_upd_eq {X} (l : list X) t x dflt : t < length l -> nth t (upd t x l) dflt = x.
Proof.
  revert t; induction l as [|y l IH]; intros t H; cbn in H; [lia|].
  destruct t; [reflexivity|]. rewrite upd_cons. cbn [nth]. apply IH. lia.
Qed.
Lemma nth_upd_neq {X} (l : list X) t u x dflt : t < length l -> u <> t -> nth u (upd t x l) dflt = nth u l dflt.
Proof.
  revert t u; induction l as [|y l IH]; intros t u H Hne; cbn in H; [lia|].
  destruct t.
  - destruct u; [lia|]. reflexivity.
  - rewrite upd_cons. destruct u; [reflexivity|]. cbn [nth]. apply IH; lia.
Qed.
Lemma upd_length' {X} (l : list X) t x : t < length l -> length (upd t x l) = length l.
Proof.
  revert t; induction l as [|y l IH]; intros t H; cbn in H; [lia|].
  destruct t; [reflexivity|]. rewrite upd_cons. cbn [length]. f_equal. apply IH. lia.
Qed.
Lemma list_sum_upd l t x : t < length l -> list_sum (upd t x l) + nth t l 0 = list_sum l + x.
Proof.
  revert t; induction l as [|y l IH]; intros t H; cbn in H; [lia|].
  destruct t.
  - unfold upd. cbn [firstn skipn app nth]. rewrite !list_sum_cons. lia.
  - rewrite upd_cons. cbn [nth]. rewrite !list_sum_cons. specialize (IH t ltac:(lia)). lia.
Qed.
Lemma list_sum_zero l : (forall t, nth t l 0 = 0) -> list_sum l = 0.
Proof.
  induction l as [|x l IH]; intros H; [reflexivity|]. rewrite list_sum_cons.
  pose proof (H 0) as H0. cbn [nth] in H0. rewrite H0, IH; [reflexivity|]. intros t. apply (H (S t)).
Qed.
Lemma list_sum_le1 l : (forall t, t < length l -> nth t l 0 <= 1) -> list_sum l <= length l.
Proof.
  induction l as [|x l IH]; intros H; [cbn; lia|]. rewrite list_sum_cons. cbn [length].
  pose proof (H 0 ltac:(cbn; lia)) as H0. cbn [nth] in H0.
  assert (list_sum l <= length l). { apply IH. intros t Ht. apply (H (S t)). cbn [length]. lia. } lia.
Qed.

Lemma dinv_init l W : DInv (init l W).
Proof.
  constructor; cbn; try discriminate.
  - rewrite !repeat_length. reflexivity.
  - intros _ t. clear. revert t. induction W as [|W IH]; intros [|t]; cbn; auto.
Qed.


Lemma dinv_local s s' t st st' : DInv s -> nth_error (thr s) t = Some st ->
  thr s' = upd t st' (thr s) -> pad s' = pad s -> dropped s' = dropped s ->
  (dropped s = true -> next s' = next s) -> (dropped s = true -> ndrop s' = ndrop s) ->
  (dropped s = true -> nth t (pad s) 0 = 1 -> st' <> Idle /\ forall i, st' <> Sent i true) ->
  DInv s'.
Proof.
  intros D Ht Et Ep Ed En Endr Hc.
  assert (Hlt : t < length (thr s)) by (apply nth_error_Some; congruence).
  constructor.
  - rewrite Et, Ep, upd_length' by exact Hlt. apply D.
  - rewrite Ed, Ep. apply D.
  - rewrite Ed, Ep, Et. intros Hd u su Hu.
    destruct (nth_upd_cases _ _ _ _ _ _ Ht Hu) as [[-> ->]|[Hne Hu']].
    + split; [apply (d_one _ D Hd t st Ht)|]. intros H1. apply Hc; assumption.
    + apply (d_one _ D Hd u su Hu').
  - rewrite Ed, Ep. intros Hd. rewrite (En Hd), (Endr Hd). apply D, Hd.
Qed.

Lemma dinv_step s l s' : DInv s -> step s l = Some s' -> DInv s'.
Proof.
  intros D H. destruct l as [t|t|t|t|t|t| |]; cbn [Pipe_Model.step] in H.
  - destruct (nth_error (thr s) t) as [st|] eqn:Ht; [|discriminate]. destruct st; try discriminate.
    assert (Hlt : t < length (thr s)) by (apply nth_error_Some; congruence).
    destruct (next s <? length (xs s)).
    + injection H as <-. destruct (dropped s) eqn:Ed.
      * destruct (d_one _ D Ed t Idle Ht) as [Hle H1].
        assert (Hp0 : nth t (pad s) 0 = 0).
        { destruct (Nat.eq_dec (nth t (pad s) 0) 1) as [E|E]; [destruct (H1 E) as [C _]; congruence|lia]. }
        pose proof (d_len _ D) as Hlen.
        constructor; fields.
        -- rewrite !upd_length' by lia. exact Hlen.
        -- discriminate.
        -- intros _ u su Hu. destruct (nth_upd_cases _ _ _ _ _ _ Ht Hu) as [[-> ->]|[Hne Hu']].
           ++ rewrite nth_upd_eq by lia. rewrite Hp0. split; [lia|]. intros _. split; [discriminate|intros; discriminate].
           ++ rewrite nth_upd_neq by lia. apply (d_one _ D Ed u su Hu').
        -- intros _. pose proof (d_next _ D Ed). pose proof (list_sum_upd (pad s) t (S (nth t (pad s) 0)) ltac:(lia)). lia.
      * eapply (dinv_local s _ t Idle (Got (next s)) D Ht); fields;
          try (intros; reflexivity); try (symmetry; exact Ed); try (intros; congruence).
    + injection H as <-. eapply (dinv_local s _ t Idle Exited D Ht); try (intros; reflexivity).
      intros _ _. split; [discriminate|intros; discriminate].
  - destruct (nth_error (thr s) t) as [st|] eqn:Ht; [|discriminate]. destruct st; try discriminate.
    injection H as <-. eapply (dinv_local s _ t _ (Computed i) D Ht); try (intros; reflexivity).
    intros _ _. split; [discriminate|intros; discriminate].
  - destruct (nth_error (thr s) t) as [st|] eqn:Ht; [|discriminate]. destruct st; try discriminate.
    destruct (i =? turn s); [|discriminate]. injection H as <-.
    eapply (dinv_local s _ t _ (Sending i) D Ht); try (intros; reflexivity).
    intros _ _. split; [discriminate|intros; discriminate].
  - destruct (nth_error (thr s) t) as [st|] eqn:Ht; [|discriminate]. destruct st; try discriminate.
    destruct (negb (dropped s) && (length (chan s) <? length (thr s))) eqn:E; [|discriminate].
    apply andb_true_iff in E as [Ed _]. apply negb_true_iff in Ed.
    injection H as <-. eapply (dinv_local s _ t _ (Sent i true) D Ht); try (intros; reflexivity).
    intros Hd. congruence.
  - destruct (nth_error (thr s) t) as [st|] eqn:Ht; [|discriminate]. destruct st; try discriminate.
    destruct (dropped s) eqn:Ed; [|discriminate]. injection H as <-.
    eapply (dinv_local s _ t _ (Sent i false) D Ht); try (intros; reflexivity).
    intros _ _. split; [discriminate|intros; discriminate].
  - destruct (nth_error (thr s) t) as [st|] eqn:Ht; [|discriminate]. destruct st; try discriminate.
    injection H as <-. eapply (dinv_local s _ t _ (if ok then Idle else Exited) D Ht); try (intros; reflexivity).
    intros Hd H1. destruct ok.
    + destruct (d_one _ D Hd t _ Ht) as [_ C]. destruct (C H1) as [_ C']. exfalso. apply (C' i). reflexivity.
    + split; [discriminate|intros; discriminate].
  - destruct (dropped s) eqn:Ed; [discriminate|]. destruct (chan s); [discriminate|]. injection H as <-.
    constructor; fields; try apply D; try discriminate. intros _. apply (d_zero _ D Ed).
  - destruct (dropped s) eqn:Ed; [discriminate|]. injection H as <-.
    constructor; fields.
    + apply D.
    + discriminate.
    + intros _ u su Hu. rewrite (d_zero _ D Ed). split; [lia|]. discriminate.
    + intros _. rewrite (list_sum_zero (pad s)); [lia|]. apply (d_zero _ D Ed).
Qed.

Lemma len_step s l s' : step s l = Some s' -> length (thr s') = length (thr s).
Proof.
  intros H. destruct l as [t|t|t|t|t|t| |]; cbn [Pipe_Model.step] in H;
  try (destruct (nth_error (thr s) t) as [st|] eqn:Ht; [|discriminate];
       assert (Hlt : t < length (thr s)) by (apply nth_error_Some; congruence);
       destruct st; try discriminate).
  - destruct (next s <? length (xs s)); injection H as <-; cbn; apply upd_length'; exact Hlt.
  - injection H as <-. cbn. apply upd_length'; exact Hlt.
  - destruct (i =? turn s); [|discriminate]. injection H as <-. cbn. apply upd_length'; exact Hlt.
  - destruct (negb (dropped s) && (length (chan s) <? length (thr s))); [|discriminate]. injection H as <-. cbn. apply upd_length'; exact Hlt.
  - destruct (dropped s); [|discriminate]. injection H as <-. cbn. apply upd_length'; exact Hlt.
  - injection H as <-. cbn. apply upd_length'; exact Hlt.
  - destruct (dropped s); [discriminate|]. destruct (chan s); [discriminate|]. injection H as <-. reflexivity.
  - destruct (dropped s); [discriminate|]. injection H as <-. reflexivity.
Qed.

(** everything at once, for every schedule *)
Record Reach (W : nat) (s : state) : Prop := {
  r_inv : Inv s; r_log : LogInv s; r_drop : DInv s; r_len : length (thr s) = W }.

Lemma reach_init l W : Reach W (init l W).
Proof.
  constructor; [apply inv_init|apply loginv_init|apply dinv_init|cbn; apply repeat_length].
Qed.
Lemma reach_step W s l s' : Reach W s -> step s l = Some s' -> Reach W s'.
Proof.
  intros [I L D Hl] H. constructor; [eapply inv_step; eauto|eapply loginv_step; eauto|eapply dinv_step; eauto|].
  rewrite (len_step _ _ _ H). exact Hl.
Qed.
Lemma reach_run W tr : forall s s', Reach W s -> run s tr = Some s' -> Reach W s'.
Proof.
  induction tr as [|l tr IH]; cbn [Pipe_Model.run]; intros s s' R H; [injection H as <-; exact R|].
  destruct (step s l) eqn:E; [|discriminate]. eapply IH; [eapply reach_step; eauto|exact H].
Qed.

Lemma after_drop_l l W tr s : run (init l W) tr = Some s -> dropped s = true ->
  (forall t, nth t (pad s) 0 <= 1) /\ next s <= ndrop s + W.
Proof.
  intros H Hd. pose proof (reach_run W tr _ _ (reach_init l W) H) as [I L D Hl].
  assert (P1 : forall t, nth t (pad s) 0 <= 1).
  { intros t. destruct (nth_error (thr s) t) as [st|] eqn:Ht.
    - apply (d_one _ D Hd t st Ht).
    - apply nth_error_None in Ht. rewrite nth_overflow; [lia|]. rewrite (d_len _ D). exact Ht. }
  split; [exact P1|].
  rewrite (d_next _ D Hd). pose proof (list_sum_le1 (pad s) (fun t _ => P1 t)). rewrite (d_len _ D), Hl in H0. lia.
Qed.

(** the scheduler-driven runner only produces reachable states *)
Lemma run_sched_reach fuel : forall k ch dk s evs s',
  run_sched A B f d fuel k ch dk s = (evs, s') -> exists tr, run s tr = Some s'.
Proof.
  induction fuel as [|fuel IH]; intros k ch dk s evs s' H; cbn [run_sched] in H.
  - injection H as _ <-. exists []. reflexivity.
  - destruct (actors A B dk s) as [|a0 acts] eqn:Ea.
    + injection H as _ <-. exists []. reflexivity.
    + set (a := nth _ _ _) in H. destruct (actor_label A B s a) as [l|].
      * destruct (step s l) as [s1|] eqn:Es.
        -- destruct (run_sched A B f d fuel (S k) (tl ch) dk s1) as [evs1 s2] eqn:Er.
           injection H as _ <-. destruct (IH _ _ _ _ _ _ Er) as (tr & Htr).
           exists (l :: tr). cbn [Pipe_Model.run]. rewrite Es. exact Htr.
        -- injection H as _ <-. exists []. reflexivity.
      * destruct (run_sched A B f d fuel (S k) (tl ch) dk s) as [evs1 s2] eqn:Er.
        injection H as _ <-. eapply IH; eauto.
Qed.

End PipeProofs2.

(** C06 model: Batched (build_batch, batch_from, BatchLimit) of src/data/loading.rs and
    find_subsequences_of_max_size_k of src/utils.rs.  Items are abstract with a size
    function.  The ChaCha8 rng is an oracle: per call of build_batch a selection
    sequence for [shuffle] (element k says which of the remaining elements comes
    next, i.e. a Fisher-Yates / Lehmer code; in range = a permutation) and an index
    for [random_range].  Definitions only. *)
From TU Require Import Base.

Inductive limit_type := BatchSize | Padded.
Inductive err := OutOfFuel | BadOracle | AssertFail.
Inductive res (B : Type) := Ok (x : B) | Err (e : err).
Arguments Ok {B} x.
Arguments Err {B} e.

(** ** find_subsequences_of_max_size_k on a slice of length [n];
    [sz s e] = size_fn(&values[s..e]) (any function). *)
Section Subseq.
Context (sz : nat -> nat -> nat).
Context (k : nat).
Context (n : nat).

(** fast forward to the first element that fits on its own; [rem] = n - start *)
Fixpoint ff_start (rem start : nat) : nat :=
  match rem with
  | O => start
  | S r => if k <? sz start (S start) then ff_start r (S start) else start
  end.

(** the three-way loop; [prev] = prev_subsequence_size; [None] = out of fuel *)
Fixpoint fs_loop (fuel s e prev : nat) : option (list (nat * nat)) :=
  match fuel with
  | O => None
  | S f =>
    if (s <? n) && (e <=? n) then
      let cur := sz s e in
      if cur <=? k then
        (if n <=? e then option_map (cons (s, e)) else (fun r => r)) (fs_loop f s (S e) cur)
      else if prev <=? k then option_map (cons (s, e - 1)) (fs_loop f (S s) e cur)
      else fs_loop f (S s) (Nat.max e (S (S s))) cur
    else Some []
  end.

Definition find_subseq : option (list (nat * nat)) :=
  let s := ff_start n 0 in
  if n <=? s then Some [] else fs_loop (2 * n + 2) s (S s) (sz s (S s)).
End Subseq.

Record oracle := { shuf : nat -> nat -> list nat; pick : nat -> nat -> nat }.

(** a selection sequence in range for a buffer of [n] elements *)
Fixpoint lehmer_okb (p : list nat) (n : nat) : bool :=
  match p, n with
  | [], O => true
  | i :: p', S n' => (i <? S n') && lehmer_okb p' n'
  | _, _ => false
  end.
(** what rand guarantees: shuffle permutes, random_range(0..m) < m *)
Definition oracle_guard (o : oracle) : Prop :=
  (forall t n, lehmer_okb (shuf o t n) n = true) /\ (forall t m, 0 < m -> pick o t m < m).

Section Batch.
Context {A : Type}.
Context (size : A -> nat).

Definition is_nil {B} (l : list B) : bool := match l with [] => true | _ => false end.

(** BatchLimit: (count, max item size); BatchSize only uses the count *)
Definition lim := (nat * nat)%type.
Definition lim_from (items : list A) : lim := (length items, list_max (map size items)).
Definition lim_update (l : lim) (x : A) : lim := (S (fst l), Nat.max (snd l) (size x)).
Definition lim_val (ty : limit_type) (l : lim) : nat :=
  match ty with BatchSize => fst l | Padded => fst l * snd l end.
Definition limit (ty : limit_type) (items : list A) : nat := lim_val ty (lim_from items).

(** batch_from: [f()] pops the head of [src]; result (items, remainder, unread rest of src).
    The first item is always taken. *)
Fixpoint batch_from (ty : limit_type) (L : nat) (acc : list A) (bl : lim) (src : list A)
  : list A * option A * list A :=
  match src with
  | [] => (acc, None, [])
  | x :: src' =>
      let bl' := lim_update bl x in
      if (L <? lim_val ty bl') && negb (is_nil acc) then (acc, Some x, src')
      else batch_from ty L (acc ++ [x]) bl' src'
  end.

(** buffer fill: while buffer_limit.limit() <= bound { pull } *)
Fixpoint fill (ty : limit_type) (bound : nat) (bl : lim) (buf rest : list A) : list A * list A :=
  match rest with
  | [] => (buf, [])
  | x :: rest' =>
      if lim_val ty bl <=? bound then fill ty bound (lim_update bl x) (buf ++ [x]) rest'
      else (buf, rest)
  end.

(** sort_by_key(size): stable *)
Fixpoint insert_by (x : A) (l : list A) : list A :=
  match l with
  | [] => [x]
  | y :: l' => if size x <=? size y then x :: l else y :: insert_by x l'
  end.
Fixpoint sort_by (l : list A) : list A :=
  match l with [] => [] | x :: l' => insert_by x (sort_by l') end.

Fixpoint remove_nth (i : nat) (l : list A) : option (A * list A) :=
  match l, i with
  | [], _ => None
  | x :: l', O => Some (x, l')
  | x :: l', S i' => match remove_nth i' l' with Some (y, r) => Some (y, x :: r) | None => None end
  end.
Fixpoint apply_shuf (p : list nat) (buf : list A) : option (list A) :=
  match p with
  | [] => match buf with [] => Some [] | _ => None end
  | i :: p' => match remove_nth i buf with
               | Some (x, r) => option_map (cons x) (apply_shuf p' r)
               | None => None
               end
  end.

Definition slice (l : list A) (s e : nat) : list A := firstn (e - s) (skipn s l).
Definition opt_list (o : option A) : list A := match o with Some x => [x] | None => [] end.

(** result of one build_batch: the batch (None = iteration over), what is left
    upstream, the new shuffle_buffer *)
Inductive bres := BOk (b : option (list A)) (rest buf : list A) | BErr (e : err).

(** pop from the back of the buffer until the batch is full, push the remainder back *)
Definition pop_batch (ty : limit_type) (L : nat) (sb rest : list A) : bres :=
  let '(b, rem, src') := batch_from ty L [] (0, 0) (rev sb) in
  BOk (Some b) rest (rev src' ++ opt_list rem).

Definition build_batch (sort shuffle : bool) (L P : nat) (ty : limit_type) (o : oracle) (t : nat)
           (rest buf : list A) : bres :=
  if negb sort && negb shuffle then
    match buf with
    | _ :: _ :: _ => BErr AssertFail          (* assert_eq!(buf.len(), 1) *)
    | _ =>
        let '(b, rem, src') := batch_from ty L [] (0, 0) (buf ++ rest) in
        BOk (if is_nil b then None else Some b) src' (opt_list rem)
    end
  else
    let '(buf1, rest1) := fill ty (L * P) (lim_from buf) buf rest in
    if is_nil buf1 then BOk None rest1 []
    else if sort then
      let sb := sort_by buf1 in
      if shuffle then
        match find_subseq (fun s e => limit ty (slice sb s e)) L (length sb) with
        | None => BErr OutOfFuel
        | Some [] =>
            match rev sb with
            | x :: r => BOk (Some [x]) rest1 (rev r)     (* vec![buf.pop().unwrap()] *)
            | [] => BErr AssertFail
            end
        | Some subs =>
            match nth_error subs (pick o t (length subs)) with
            | None => BErr BadOracle
            | Some (s, e) =>
                if (s <=? e) && (e <=? length sb)         (* splice(s..e) panics otherwise *)
                then BOk (Some (slice sb s e)) rest1 (firstn s sb ++ skipn e sb)
                else BErr AssertFail
            end
        end
      else pop_batch ty L sb rest1
    else
      match apply_shuf (shuf o t (length buf1)) buf1 with
      | None => BErr BadOracle
      | Some sb => pop_batch ty L sb rest1
      end.

Definition cons_res (b : list A) (r : res (list (list A))) : res (list (list A)) :=
  match r with Ok bs => Ok (b :: bs) | Err e => Err e end.

(** the consumer calls next() until None; [t] counts the calls *)
Fixpoint batches_loop (sort shuffle : bool) (L P : nat) (ty : limit_type) (o : oracle)
         (fuel t : nat) (rest buf : list A) : res (list (list A)) :=
  match fuel with
  | O => Err OutOfFuel
  | S f =>
    match build_batch sort shuffle L P ty o t rest buf with
    | BErr e => Err e
    | BOk None _ _ => Ok []
    | BOk (Some b) rest' buf' => cons_res b (batches_loop sort shuffle L P ty o f (S t) rest' buf')
    end
  end.

(** Batched::new (limit 0 |-> 1, prefetch 0 |-> 1) + drain *)
Definition batches (sort shuffle : bool) (prefetch limit_ : nat) (ty : limit_type) (o : oracle)
           (input : list A) : res (list (list A)) :=
  batches_loop sort shuffle (Nat.max limit_ 1) (Nat.max prefetch 1) ty o (length input + 1) 0 input [].

(** ** Executable clauses of the property *)
Definition limit_okb (ty : limit_type) (L : nat) (b : list A) : bool :=
  (length b <=? 1) || (limit ty b <=? L).

(** plain mode: every batch followed by another one could not have taken its first item *)
Fixpoint greedyb (ty : limit_type) (L : nat) (bs : list (list A)) : bool :=
  match bs with
  | b :: ((b' :: _) as tl) =>
      match b' with
      | x :: _ => (L <? limit ty (b ++ [x])) && greedyb ty L tl
      | [] => false
      end
  | _ => true
  end.

End Batch.

(** ** val glue.
    input  = (sort shuffle prefetch limit ty seed sizes)   items are (position, size)
    output = (batches rep obs)   batches = lists of item positions, rep = a second run with
             the same seed gave the same batches, obs = () or ((e_0 e_1 ...)): the rng
             decisions of the run, one entry (n p) per emitted batch (see [o_obs]) *)
Definition item := (nat * nat)%type.
Definition isize (x : item) : nat := snd x.

Definition v_ty (v : val) : limit_type := match v_z v with 0%Z => BatchSize | _ => Padded end.
Definition mk_items (sizes : list nat) : list item := combine (seq 0 (length sizes)) sizes.
Definition v_items (v : val) : list item := mk_items (v_list v_nat (v_nth 6 v)).

(** default oracle of the model's own run: identity shuffle, first subsequence *)
Definition o_default : oracle := {| shuf := fun _ n => repeat 0 n; pick := fun _ _ => 0 |}.

Definition batches_v (bs : list (list item)) : val := list_v (list_v (fun x : item => nat_v (fst x))) bs.
Definition v_batches (v : val) : list (list nat) := v_list (v_list v_nat) v.

Definition run_with (o : oracle) (v : val) : res (list (list item)) :=
  batches isize (v_bool (v_nth 0 v)) (v_bool (v_nth 1 v)) (v_nat (v_nth 2 v)) (v_nat (v_nth 3 v))
          (v_ty (v_nth 4 v)) o (v_items v).

Definition run_C06 (v : val) : val :=
  match run_with o_default v with
  | Ok bs => L [batches_v bs; I 1%Z; L []]
  | Err OutOfFuel => L [I (-1)%Z]
  | Err BadOracle => L [I (-2)%Z]
  | Err AssertFail => L [I (-3)%Z]
  end.

(** positions 0..n-1 each occur, and there are n of them: a permutation of the input *)
Definition is_perm_ids (ids : list nat) (n : nat) : bool :=
  Nat.eqb (length ids) n && forallb (fun i => existsb (Nat.eqb i) ids) (seq 0 n).

Fixpoint nat_list_eqb (a b : list nat) : bool :=
  match a, b with
  | [], [] => true
  | x :: a', y :: b' => Nat.eqb x y && nat_list_eqb a' b'
  | _, _ => false
  end.

Definition shape2 (out : val) : bool := match out with L [L _; I _; L _] => true | _ => false end.

(** items of a batch given as positions; an unknown position becomes a huge item so
    that no clause can pass by accident *)
Definition lookup (items : list item) (i : nat) : item := nth i items (i, 4000).

Definition check_C06 (v out : val) : bool :=
  let sort := v_bool (v_nth 0 v) in
  let shuffle := v_bool (v_nth 1 v) in
  let L := Nat.max (v_nat (v_nth 3 v)) 1 in
  let ty := v_ty (v_nth 4 v) in
  let items := v_items v in
  let ids := v_batches (v_nth 0 out) in
  let bs := map (map (lookup items)) ids in
  shape2 out
  && is_perm_ids (concat ids) (length items)            (* partition *)
  && forallb (fun b => negb (is_nil b)) ids             (* no empty batch *)
  && forallb (limit_okb isize ty L) bs                  (* limit *)
  && v_bool (v_nth 1 out)                               (* deterministic in the seed *)
  && (if negb sort && negb shuffle
      then nat_list_eqb (concat ids) (seq 0 (length items)) && greedyb isize ty L bs
      else true).

(** ** Relational correspondence: re-run the model batch by batch with an oracle
    reconstructed from what the implementation emitted. *)
Fixpoint index_of (x : nat) (l : list nat) : nat :=
  match l with [] => 0 | y :: l' => if Nat.eqb x y then 0 else S (index_of x l') end.
Fixpoint remove_at (i : nat) (l : list nat) : list nat :=
  match l, i with [], _ => [] | _ :: l', O => l' | y :: l', S i' => y :: remove_at i' l' end.
(** selection sequence that turns [cur] into [target] (lists of distinct positions) *)
Fixpoint lehmer_of (target cur : list nat) : list nat :=
  match target with
  | [] => []
  | x :: tgt => let i := index_of x cur in i :: lehmer_of tgt (remove_at i cur)
  end.
Definition mem (x : nat) (l : list nat) : bool := existsb (Nat.eqb x) l.

(** the oracle under which build_batch would emit batch [b] (positions) from this state *)
Definition oracle_for (sort shuffle : bool) (L P : nat) (ty : limit_type)
           (rest buf : list item) (b : list nat) : oracle :=
  let '(buf1, _) := fill isize ty (L * P) (lim_from isize buf) buf rest in
  if sort then
    let sb := sort_by isize buf1 in
    let subs := match find_subseq (fun s e => limit isize ty (slice sb s e)) L (length sb) with
                | Some l => l | None => [] end in
    let hits := filter (fun i => match nth_error subs i with
                                 | Some (s, e) => nat_list_eqb (map fst (slice sb s e)) b
                                 | None => false end) (seq 0 (length subs)) in
    {| shuf := fun _ n => repeat 0 n; pick := fun _ _ => hd 0 hits |}
  else
    (* shuffled buffer = others ++ [remainder] ++ rev b; the remainder is any left-over
       item that does not fit any more *)
    let ids := map fst buf1 in
    let left := filter (fun i => negb (mem i b)) ids in
    let bitems := map (lookup buf1) (map (fun i => index_of i ids) b) in
    let rems := filter (fun i => L <? limit isize ty (bitems ++ [lookup buf1 (index_of i ids)])) left in
    let r := hd 0 rems in
    let target := filter (fun i => negb (Nat.eqb i r)) left ++ (if is_nil rems then [] else [r]) ++ rev b in
    {| shuf := fun _ _ => lehmer_of target ids; pick := fun _ _ => 0 |}.

Fixpoint replay (sort shuffle : bool) (L P : nat) (ty : limit_type) (fuel t : nat)
         (rest buf : list item) (impl : list (list nat)) : bool :=
  match fuel with
  | O => false
  | S f =>
    let o := match impl with b :: _ => oracle_for sort shuffle L P ty rest buf b | [] => o_default end in
    match build_batch isize sort shuffle L P ty o t rest buf, impl with
    | BOk None _ _, [] => true
    | BOk (Some mb) rest' buf', b :: impl' =>
        nat_list_eqb (map fst mb) b && replay sort shuffle L P ty f (S t) rest' buf' impl'
    | _, _ => false
    end
  end.

(** ** Exact correspondence given the seed.  The harness draws from its own
    ChaCha8Rng::seed_from_u64(seed) in lock-step with the calls of next(): per emitted
    batch an entry (n p): shuffle mode: n = buffer length at shuffle time (items pulled
    so far - items emitted so far, both observed), p = the selection sequence of
    shuffle() on n elements; sort+shuffle: n = number of sub-sequences, p = [index drawn]
    (n = 0: no draw).  The oracle built from it answers only at the recorded argument:
    any other question is out of range (=> BadOracle), so an exact run certifies that
    the model's own buffer length / number of sub-sequences is the one the draws were
    made for, at every call. *)
Definition obs := list (nat * list nat).
Definition o_obs (orc : obs) : oracle :=
  {| shuf := fun t n => match nth_error orc t with
                        | Some (n', p) => if Nat.eqb n n' then p else [n]
                        | None => [n]
                        end;
     pick := fun t m => match nth_error orc t with
                        | Some (n', p) => if Nat.eqb m n' then hd m p else m
                        | None => m
                        end |}.
Definition v_entry (e : val) : nat * list nat := (v_nat (v_nth 0 e), v_list v_nat (v_nth 1 e)).
Definition v_obs (v : val) : option obs := v_opt (v_list v_entry) v.

Fixpoint nat_ll_eqb (a b : list (list nat)) : bool :=
  match a, b with
  | [], [] => true
  | x :: a', y :: b' => nat_list_eqb x y && nat_ll_eqb a' b'
  | _, _ => false
  end.

(** the model, run with the observed decisions, emits the implementation's batches *)
Definition exact_ok (v i : val) : bool :=
  match v_obs (v_nth 2 i) with
  | Some orc => match run_with (o_obs orc) v with
                | Ok bs => nat_ll_eqb (map (map fst) bs) (v_batches (v_nth 0 i))
                | Err _ => false
                end
  | None => false
  end.

(** ** One oracle for the whole run.  [sanitize] keeps every in-range answer and replaces
    an out-of-range one by the default (identity selection sequence / index 0); [glue]
    answers call t with the t-th oracle of a list; [replay_os] is the list of the
    oracles [replay] reconstructs, call by call. *)
Definition sanitize (o : oracle) : oracle :=
  {| shuf := fun t n => if lehmer_okb (shuf o t n) n then shuf o t n else repeat 0 n;
     pick := fun t m => if pick o t m <? m then pick o t m else 0 |}.
Definition glue (os : list oracle) : oracle :=
  {| shuf := fun t n => shuf (nth t os o_default) t n;
     pick := fun t m => pick (nth t os o_default) t m |}.
Fixpoint replay_os (sort shuffle : bool) (L P : nat) (ty : limit_type) (fuel t : nat)
         (rest buf : list item) (impl : list (list nat)) : list oracle :=
  match fuel with
  | O => []
  | S f =>
    let o := match impl with b :: _ => oracle_for sort shuffle L P ty rest buf b | [] => o_default end in
    o :: match build_batch isize sort shuffle L P ty o t rest buf, impl with
         | BOk (Some _) rest' buf', _ :: impl' => replay_os sort shuffle L P ty f (S t) rest' buf' impl'
         | _, _ => []
         end
  end.
Definition glued_oracle (v i : val) : oracle :=
  let items := v_items v in
  sanitize (glue (replay_os (v_bool (v_nth 0 v)) (v_bool (v_nth 1 v))
                            (Nat.max (v_nat (v_nth 3 v)) 1) (Nat.max (v_nat (v_nth 2 v)) 1)
                            (v_ty (v_nth 4 v)) (length items + 2) 0 items [] (v_batches (v_nth 0 i)))).

(** what one call of build_batch asks the oracle: [shuf o t (shuf_arg ..)] in shuffle
    mode, [pick o t (pick_arg ..)] in sort+shuffle mode *)
Section Args.
Context {A : Type} (size : A -> nat).
Definition shuf_arg (L P : nat) (ty : limit_type) (rest buf : list A) : nat :=
  length (fst (fill size ty (L * P) (lim_from size buf) buf rest)).
Definition pick_arg (L P : nat) (ty : limit_type) (rest buf : list A) : nat :=
  let sb := sort_by size (fst (fill size ty (L * P) (lim_from size buf) buf rest)) in
  match find_subseq (fun s e => limit size ty (slice sb s e)) L (length sb) with
  | Some subs => length subs
  | None => 0
  end.
End Args.

(** correspondence: both lines.  Relational: the replay accepts the batch sequence (some
    in-range oracle explains it); exact: with the decisions drawn from the seed the model
    emits exactly this batch sequence (shuffling modes), or the outputs are equal
    (deterministic modes). *)
Definition agree_C06 (v m i : val) : bool :=
  let sort := v_bool (v_nth 0 v) in
  let shuffle := v_bool (v_nth 1 v) in
  let items := v_items v in
  shape2 i && v_bool (v_nth 1 i)
  && replay sort shuffle (Nat.max (v_nat (v_nth 3 v)) 1) (Nat.max (v_nat (v_nth 2 v)) 1)
            (v_ty (v_nth 4 v)) (length items + 2) 0 items [] (v_batches (v_nth 0 i))
  && (if shuffle then exact_ok v i else val_eqb m i).

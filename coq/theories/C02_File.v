(** C02 with the merge FILE inside the model (topic: MessagePack, MsgPack_Model.v).
    [BPETokenizer::new] starts with [MergeOps::load(&config.merge_file)]; so far the model took the
    table as data and the file format was trusted.  Here
    * the implementation output carries the bytes of the merge file as it was on disk ([fb]) and what
      the real [MergeOps::load] made of them ([lv]); the correspondence ([agree_C02f]) requires that the
      model's own reader ([mp_parse]) reads the same map from these bytes, and — for files written by the
      crate's [save] — that the bytes are [mp_encode] of the entries in the order the file has them, that
      nothing follows the map and that the map is the table of the input;
    * an input may carry the file bytes themselves (7th field [(bytes)]): hand-made streams (other integer
      widths, wide headers, bin keys, duplicate keys, trailing bytes, truncation, wrong types, ids >= 2^32).
      The model then takes its table FROM THE FILE ([load_table]): load error = constructor error, a map
      whose ids are not 0..n-1 is reported as such (the tokenizer models take tables in id order), otherwise
      the run is [run_C02] on the loaded table.
    Definitions only. *)
From TU Require Import Base BPE_Model C02_Model MsgPack_Model.
Open Scope N_scope.

(** optional 7th field of the input: [((byte ...))] *)
Definition in_file (v : val) : option (list N) :=
  match v_nth 6 v with L [fb] => Some (v_list v_n fb) | _ => None end.

Definition table_val (tbl : table) : val := list_v (list_v n_v) tbl.
(** the input with its table field replaced *)
Definition with_table (v : val) (tbl : table) : val :=
  match v with L (_ :: r) => L (table_val tbl :: r) | _ => v end.

Definition v_illformed : val := L [I (-2)%Z].

Definition run_C02f (v : val) : val :=
  match in_file v with
  | None => run_C02 v
  | Some fb => match load_table fb with
               | LoadError => L []
               | LoadedIllFormed _ => v_illformed
               | Loaded tbl => run_C02 (with_table v tbl)
               end
  end.

(** the implementation output without the two file fields *)
Definition strip_file (out : val) : val :=
  match out with L [a; b; c; _; _] => L [a; b; c] | _ => out end.

(** the property on an implementation output: as [check_C02], about the table the file holds.  Hand-made files
    are not what [save] writes: whether the real loader takes one is a matter of the correspondence ([agree_C02f]),
    not of the property — so a file the model rejects or whose ids are not 0..n-1, and a clean constructor error
    [()] on a file the model accepts, are outside the property; once the real tokenizer WAS built from a file the
    model reads as a table, the property is demanded of it (a panic is a failure) *)
Definition is_ctor_error (out : val) : bool := match out with L [] => true | _ => false end.
Definition check_C02f (v out : val) : bool :=
  match in_file v with
  | None => check_C02 v (strip_file out)
  | Some fb => match load_table fb with
               | Loaded tbl => is_ctor_error out || check_C02 (with_table v tbl) (strip_file out)
               | _ => true
               end
  end.

Definition file_fields_agree (v fb lv : val) : bool :=
  match in_file v with
  | None => saved_agree (v_table (v_nth 0 v)) fb lv
  | Some f => load_agree fb lv && nlist_eqb (v_list v_n fb) f
  end.

Definition agree_C02f (v m i : val) : bool :=
  match i with
  | L [a; b; c; fb; lv] => val_eqb m (L [a; b; c]) && file_fields_agree v fb lv
  | L [I (Zneg 2%positive); fb; lv] =>
      val_eqb m v_illformed && match in_file v with Some _ => file_fields_agree v fb lv | None => false end
  | _ => val_eqb m i
  end.

(** C10 model: whitespace::operations and whitespace::repair (src/whitespace.rs).
    Characters are clusters (lists of code points); the segmentation of both
    texts is an input (code-point mode: singletons; grapheme mode: what
    unicode-segmentation returned, supplied by the harness). Definitions only. *)
From TU Require Import Base.
Open Scope N_scope.

Inductive op := Keep | Ins | Del.

(** [operations]: two pointers; Keep advances both, Insert advances [to] by two
    ([to_ptr += 2]), Delete advances only [from]; anything else is the error. *)
Fixpoint operations (from to : list cluster) : option (list op) :=
  match from with
  | [] => Some []
  | f :: from' =>
    match to with
    | t :: to' =>
      if cl_eqb f t then option_map (cons Keep) (operations from' to')
      else if cl_ws t then option_map (cons Ins) (operations from' (tl to'))
      else if cl_ws f then option_map (cons Del) (operations from' to)
      else None
    | [] => if cl_ws f then option_map (cons Del) (operations from' []) else None
    end
  end.

(** [repair] loop body; [prev_ws] = previous input character is whitespace,
    [first] = idx == 0. *)
Fixpoint repair_aux (prev_ws : bool) (first : bool) (chars : list cluster) (ops : list op) : list cp :=
  match chars, ops with
  | c :: cs, o :: os =>
    let w := cl_ws c in
    let rest := repair_aux w false cs os in
    match o with
    | Ins => if negb w && (first || negb prev_ws) then 32 :: c ++ rest else c ++ rest
    | Del => if w then rest else c ++ rest
    | Keep => c ++ rest
    end
  | _, _ => []
  end.

(** [None] is the [Err] of the length check. *)
Definition repair (chars : list cluster) (ops : list op) : option (list cp) :=
  if Nat.eqb (length chars) (length ops) then Some (repair_aux false true chars ops) else None.

(** ** Executable premises and statement of the property *)
Definition nonws (c : cluster) := negb (cl_ws c).
Definition strip (l : list cluster) := filter nonws l.
Definition strip_cp (s : str) : str := filter (fun c => negb (is_ws c)) s.

Definition head_nonwsb (l : list cluster) : bool :=
  match l with [] => true | c :: _ => negb (cl_ws c) end.
Fixpoint scb (l : list cluster) : bool :=
  match l with
  | [] => true
  | c :: r => (if cl_ws c then cl_eqb c [32] && negb (match r with [] => true | _ => false end) && head_nonwsb r
               else true) && scb r
  end.
(** whitespace-clean on cluster lists: whitespace clusters are exactly U+0020,
    none leading, trailing or adjacent *)
Definition cleanb (l : list cluster) : bool := head_nonwsb l && scb l.

Fixpoint cll_eqb (a b : list cluster) : bool :=
  match a, b with
  | [], [] => true
  | x :: a', y :: b' => cl_eqb x y && cll_eqb a' b'
  | _, _ => false
  end.
Definition premiseb (f t : list cluster) : bool := cleanb f && cleanb t && cll_eqb (strip f) (strip t).

Definition op_eqb (a b : op) : bool :=
  match a, b with Keep, Keep | Ins, Ins | Del, Del => true | _, _ => false end.
Definition all_keep (ops : list op) : bool := forallb (op_eqb Keep) ops.

(** ** val glue.
    input  = (sp from to rops)   sp: string-level premise computed with the
             real [clean]/[remove] (1) or not (0)
    output = (ops? repaired? repaired2?) options as 0/1-element lists *)
Definition v_op (v : val) : op := match v_z v with 1%Z => Ins | 2%Z => Del | _ => Keep end.
Definition op_v (o : op) : val := I (match o with Keep => 0 | Ins => 1 | Del => 2 end)%Z.
Definition v_clusters (v : val) : list cluster := v_list (v_list v_n) v.

Definition run_C10 (v : val) : val :=
  let f := v_clusters (v_nth 1 v) in
  let t := v_clusters (v_nth 2 v) in
  let rops := v_list v_op (v_nth 3 v) in
  let o := operations f t in
  L [ opt_v (list_v op_v) o;
      opt_v (list_v n_v) (match o with Some ops => repair f ops | None => None end);
      opt_v (list_v n_v) (repair f rops) ].

(** shape: exactly three option fields *)
Definition shape3 (out : val) : bool := match out with L [L _; L _; L _] => true | _ => false end.

Definition check_C10 (v out : val) : bool :=
  let sp := v_bool (v_nth 0 v) in
  let f := v_clusters (v_nth 1 v) in
  let t := v_clusters (v_nth 2 v) in
  let rops := v_list v_op (v_nth 3 v) in
  let o := v_opt (v_list v_op) (v_nth 0 out) in
  let r1 := v_opt (v_list v_n) (v_nth 1 out) in
  let r2 := v_opt (v_list v_n) (v_nth 2 out) in
  shape3 out
  &&
  (* clause 1: round trip under the premise *)
  (if sp || premiseb f t then
     match o, r1 with
     | Some ops, Some r => Nat.eqb (length ops) (length f) && nlist_eqb r (concat t)
     | _, _ => false
     end
   else true)
  &&
  (* clause 2: repair touches only whitespace; all-Keep = id; mismatch = error *)
  (if Nat.eqb (length f) (length rops) then
     match r2 with
     | Some r => nlist_eqb (strip_cp r) (strip_cp (concat f))
                 && (if all_keep rops then nlist_eqb r (concat f) else true)
     | None => false
     end
   else match r2 with None => true | Some _ => false end).

(** C19 literal model, proofs part 2: the two index-based [while] loops of
    [update_stats] ([old_loop], [new_loop]: [find_position], [usize] subtraction,
    slice indexing) perform exactly the decrements / increments listed by the
    structural scans [old_scan] / [new_scan] of C19_Model.v, in that order; no
    index is out of range, no subtraction underflows, the loop bound is not reached. *)
From TU Require Import Base C19_Model C19_Proofs C19_Delta C19_Lit C19_LitMaps.
From Coq Require Import Lia.
Open Scope N_scope.
Arguments N.add : simpl never.
Arguments N.sub : simpl never.
Arguments N.mul : simpl never.
Arguments N.ltb : simpl never.

(** last token of the part of the word in front of the current position *)
Fixpoint lastopt (l : word) : option token :=
  match l with
  | [] => None
  | a :: r => match r with [] => Some a | _ :: _ => lastopt r end
  end.
Lemma lastopt_snoc : forall l z, lastopt (l ++ [z]) = Some z.
Proof.
  induction l as [|a r IH]; intros z; [reflexivity|]. cbn [app lastopt].
  destruct (r ++ [z]) eqn:E; [destruct r; discriminate|]. rewrite <- E. apply IH.
Qed.

(** * indexing *)
Lemma usub_ok : forall a b, (b <= a)%nat -> usub a b = Ok (a - b)%nat.
Proof. intros a b H. unfold usub. apply Nat.leb_le in H. now rewrite H. Qed.
Lemma at_app : forall pre suf j, at_ (pre ++ suf) (length pre + j) = at_ suf j.
Proof.
  intros pre suf j. unfold at_. rewrite nth_error_app2 by lia.
  replace (length pre + j - length pre)%nat with j by lia. reflexivity.
Qed.
Lemma at_app0 : forall pre a s, at_ (pre ++ a :: s) (length pre) = Ok a.
Proof. intros. rewrite <- (Nat.add_0_r (length pre)). rewrite at_app. reflexivity. Qed.
Lemma at_last : forall pre z s, at_ ((pre ++ [z]) ++ s) (length (pre ++ [z]) - 1) = Ok z.
Proof.
  intros pre z s. rewrite app_length. cbn [length]. replace (length pre + 1 - 1)%nat with (length pre) by lia.
  rewrite <- app_assoc. cbn [app]. apply at_app0.
Qed.
Lemma skipn_app_len : forall (pre suf : word), skipn (length pre) (pre ++ suf) = suf.
Proof. induction pre as [|a r IH]; intros suf; [reflexivity|]. cbn [length app skipn]. apply IH. Qed.

(** * [find_position] *)
Lemma find_pos_none : forall f l, find_pos f l = None -> Forall (fun t => f t = false) l.
Proof.
  induction l as [|a r IH]; intros H; [constructor|]. cbn [find_pos] in H.
  destruct (f a) eqn:E; [discriminate|]. destruct (find_pos f r); [discriminate|]. constructor; [exact E | now apply IH].
Qed.
Lemma find_pos_some : forall f l n, find_pos f l = Some n ->
  exists l1 a l2, l = l1 ++ a :: l2 /\ length l1 = n /\ Forall (fun t => f t = false) l1 /\ f a = true.
Proof.
  induction l as [|a r IH]; intros n H; [discriminate|]. cbn [find_pos] in H. destruct (f a) eqn:E.
  - injection H as <-. exists [], a, r. repeat split; [constructor | exact E].
  - destruct (find_pos f r) as [m|] eqn:Ef; [|discriminate]. injection H as <-.
    destruct (IH m eq_refl) as (l1 & b & l2 & -> & Hl & Hf & Hb).
    exists (a :: l1), b, l2. repeat split; [cbn [length]; now rewrite Hl | now constructor | exact Hb].
Qed.

(** * the structural scans skip tokens that cannot start a match *)
Lemma old_scan_nomatch : forall p prev a t, tok_eqb a (fst p) = false -> old_scan p prev (a :: t) = old_scan p (Some a) t.
Proof. intros p prev a t H. destruct t as [|b r]; [reflexivity|]. cbn [old_scan]. now rewrite H. Qed.
Lemma old_scan_skip : forall p l1 s pre, Forall (fun t => tok_eqb t (fst p) = false) l1 ->
  old_scan p (lastopt pre) (l1 ++ s) = old_scan p (lastopt (pre ++ l1)) s.
Proof.
  intros p l1 s; induction l1 as [|a r IH]; intros pre H; [now rewrite app_nil_r|].
  inversion H as [|? ? Ha Hr]; subst. cbn [app]. rewrite (old_scan_nomatch p _ a _ Ha).
  rewrite <- (lastopt_snoc pre a). rewrite (IH (pre ++ [a]) Hr). now rewrite <- app_assoc.
Qed.
Lemma new_scan_nomatch : forall m prev a t, tok_eqb a m = false -> new_scan m prev (a :: t) = new_scan m (Some a) t.
Proof. intros m prev a t H. cbn [new_scan]. now rewrite H. Qed.
Lemma new_scan_skip : forall m l1 s pre, Forall (fun t => tok_eqb t m = false) l1 ->
  new_scan m (lastopt pre) (l1 ++ s) = new_scan m (lastopt (pre ++ l1)) s.
Proof.
  intros m l1 s; induction l1 as [|a r IH]; intros pre H; [now rewrite app_nil_r|].
  inversion H as [|? ? Ha Hr]; subst. cbn [app]. rewrite (new_scan_nomatch m _ a _ Ha).
  rewrite <- (lastopt_snoc pre a). rewrite (IH (pre ++ [a]) Hr). now rewrite <- app_assoc.
Qed.

(** the pair in front of position [length pre]: [if i > 0 { (w[i-1], w[i]) }] *)
Lemma prev_dec : forall (pre : word) a s st idx k,
  (if Nat.ltb 0 (length pre) then
     j <- usub (length pre) 1 ;; x <- at_ (pre ++ a :: s) j ;; y <- at_ (pre ++ a :: s) (length pre) ;; st_dec st (x, y) idx k
   else Ok st) = dec_all_lit (bpair (lastopt pre) a) idx k st.
Proof.
  intros pre a s st idx k. destruct pre as [|z0 r0] using rev_ind.
  - reflexivity.
  - clear IHr0. rewrite lastopt_snoc. cbn [bpair dec_all_lit].
    assert (Hl : (0 < length (r0 ++ [z0]))%nat) by (rewrite app_length; cbn [length]; lia).
    apply Nat.ltb_lt in Hl. rewrite Hl. rewrite usub_ok by (apply Nat.ltb_lt in Hl; lia). cbn [bind].
    rewrite at_last. cbn [bind]. rewrite at_app0. cbn [bind].
    destruct (st_dec st (z0, a) idx k); reflexivity.
Qed.
Lemma prev_add : forall (pre : word) a s st idx k,
  (if Nat.ltb 0 (length pre) then
     j <- usub (length pre) 1 ;; x <- at_ (pre ++ a :: s) j ;; y <- at_ (pre ++ a :: s) (length pre) ;; Ok (st_add st (x, y) idx k)
   else Ok st) = Ok (add_all_lit (bpair (lastopt pre) a) idx k st).
Proof.
  intros pre a s st idx k. destruct pre as [|z0 r0] using rev_ind.
  - reflexivity.
  - clear IHr0. rewrite lastopt_snoc. cbn [bpair].
    assert (Hl : (0 < length (r0 ++ [z0]))%nat) by (rewrite app_length; cbn [length]; lia).
    apply Nat.ltb_lt in Hl. rewrite Hl. rewrite usub_ok by (apply Nat.ltb_lt in Hl; lia). cbn [bind].
    rewrite at_last. cbn [bind]. rewrite at_app0. cbn [bind]. reflexivity.
Qed.

(** * one iteration of the first loop, standing on a token equal to [pair.first] *)
Lemma old_body_spec : forall (p : pair) idx k (pre : word) a l2 st, tok_eqb a (fst p) = true ->
  old_body p idx k (pre ++ a :: l2) (length pre) st =
  match l2 with
  | [] => Ok ((length pre + 1)%nat, st)
  | b :: r =>
    if tok_eqb b (snd p) then
      st' <- dec_all_lit (bpair (lastopt pre) a ++ next_old p b r) idx k st ;; Ok ((length pre + 2)%nat, st')
    else Ok ((length pre + 1)%nat, st)
  end.
Proof.
  intros p idx k pre a l2 st Ha. unfold old_body. rewrite app_length. cbn [length].
  rewrite usub_ok by lia. cbn [bind].
  destruct l2 as [|b r]; cbn [length].
  - replace (length pre + 1 - 1)%nat with (length pre) by lia. rewrite Nat.eqb_refl. cbn [bind]. reflexivity.
  - destruct (Nat.eqb_spec (length pre) (length pre + S (S (length r)) - 1)) as [E|_]; [lia|].
    rewrite at_app. cbn [at_ nth_error bind].
    destruct (tok_eqb b (snd p)) eqn:Eb; cbn [negb]; [|reflexivity].
    rewrite prev_dec. rewrite dec_all_app.
    destruct (dec_all_lit (bpair (lastopt pre) a) idx k st) as [st1|e]; cbn [bind]; [|reflexivity].
    rewrite usub_ok by lia.  cbn [bind].
    destruct r as [|c r']; cbn [length next_old].
    + (* the match ends the word *)
      destruct (Nat.ltb_spec (length pre) (length pre + 2 - 2)) as [E|_]; [lia|]. cbn [bind dec_all_lit]. reflexivity.
    + destruct (Nat.ltb_spec (length pre) (length pre + S (S (S (length r'))) - 2)) as [_|E]; [|lia].
      rewrite !at_app. cbn [at_ nth_error bind].
      destruct (tok_eqb c (fst p)) eqn:Ec; cbn [negb].
      * rewrite usub_ok by lia. cbn [bind].
        destruct r' as [|d r'']; cbn [length starts_match].
        -- destruct (Nat.leb_spec (length pre + 3 - 3) (length pre)) as [_|E]; [|lia]. cbn [bind].
           cbn [dec_all_lit]. destruct (st_dec st1 (b, c) idx k); reflexivity.
        -- destruct (Nat.leb_spec (length pre + S (S (S (S (length r'')))) - 3) (length pre)) as [E|_]; [lia|].
           cbn [at_ nth_error bind]. rewrite Ec. cbn [andb].
           destruct (tok_eqb d (snd p)); cbn [negb bind dec_all_lit]; [reflexivity|].
           destruct (st_dec st1 (b, c) idx k); reflexivity.
      * cbn [bind].
        assert (Hs : starts_match p (c :: r') = false) by (destruct r'; cbn [starts_match]; [reflexivity | now rewrite Ec]).
        rewrite Hs. cbn [dec_all_lit]. destruct (st_dec st1 (b, c) idx k); reflexivity.
Qed.

Lemma old_scan_none : forall p prev s, Forall (fun t => tok_eqb t (fst p) = false) s -> old_scan p prev s = [].
Proof.
  intros p prev s; revert prev; induction s as [|a r IH]; intros prev H; [reflexivity|].
  inversion H as [|? ? Ha Hr]; subst. rewrite (old_scan_nomatch p prev a r Ha). now apply IH.
Qed.

Lemma old_loop_scan : forall (p : pair) idx k fuel suf pre st, (length suf < fuel)%nat ->
  old_loop fuel p idx k (pre ++ suf) (length pre) st = dec_all_lit (old_scan p (lastopt pre) suf) idx k st.
Proof.
  intros p idx k; induction fuel as [|fuel IH]; intros suf pre st Hlen; [lia|]. cbn [old_loop].
  rewrite app_length. destruct suf as [|a0 suf0].
  - cbn [length]. destruct (Nat.ltb_spec (length pre) (length pre + 0)) as [E|_]; [lia|]. reflexivity.
  - destruct (Nat.ltb_spec (length pre) (length pre + length (a0 :: suf0))) as [_|E]; [|cbn [length] in E; lia].
    rewrite skipn_app_len.
    destruct (find_pos (fun t => tok_eqb t (fst p)) (a0 :: suf0)) as [start|] eqn:Ef.
    + destruct (find_pos_some _ _ _ Ef) as (l1 & a & l2 & Hsuf & Hl1 & Hno & Ha). rewrite Hsuf in *. clear Ef.
      rewrite (old_scan_skip p l1 (a :: l2) pre Hno).
      replace (length pre + start)%nat with (length (pre ++ l1)) by (rewrite app_length; lia).
      rewrite app_assoc. set (pre' := pre ++ l1).
      assert (Hf : (length l2 < fuel)%nat) by (rewrite app_length in Hlen; cbn [length] in Hlen; lia).
      rewrite (old_body_spec p idx k pre' a l2 st Ha).
      destruct l2 as [|b r].
      * cbn [bind fst snd]. replace (length pre' + 1)%nat with (length (pre' ++ [a])) by (rewrite app_length; reflexivity).
        replace (pre' ++ [a]) with ((pre' ++ [a]) ++ []) at 1 by apply app_nil_r.
        rewrite IH by (cbn [length]; lia). reflexivity.
      * destruct (tok_eqb b (snd p)) eqn:Eb.
        -- cbn [old_scan]. rewrite Ha, Eb. cbn [andb]. rewrite app_assoc.
           rewrite (dec_all_app (bpair (lastopt pre') a ++ next_old p b r) (old_scan p (Some b) r)).
           destruct (dec_all_lit (bpair (lastopt pre') a ++ next_old p b r) idx k st) as [st1|e]; cbn [bind fst snd]; [|reflexivity].
           replace (length pre' + 2)%nat with (length (pre' ++ [a; b])) by (rewrite app_length; reflexivity).
           replace (pre' ++ a :: b :: r) with ((pre' ++ [a; b]) ++ r) by (rewrite <- app_assoc; reflexivity).
           rewrite IH by (cbn [length] in Hf; lia).
           replace (pre' ++ [a; b]) with ((pre' ++ [a]) ++ [b]) by (rewrite <- app_assoc; reflexivity).
           now rewrite lastopt_snoc.
        -- cbn [bind fst snd old_scan]. rewrite Ha, Eb. cbn [andb].
           replace (length pre' + 1)%nat with (length (pre' ++ [a])) by (rewrite app_length; reflexivity).
           replace (pre' ++ a :: b :: r) with ((pre' ++ [a]) ++ b :: r) by (rewrite <- app_assoc; reflexivity).
           rewrite IH by (cbn [length] in *; lia). now rewrite lastopt_snoc.
    + rewrite (old_scan_none p _ _ (find_pos_none _ _ Ef)). reflexivity.
Qed.

(** * one iteration of the second loop, standing on a merged token *)
Lemma new_body_spec : forall m idx k (pre : word) a l2 st,
  new_body m idx k (pre ++ a :: l2) (length pre) st =
  Ok ((length pre + 1)%nat, add_all_lit (bpair (lastopt pre) a ++ next_new m a l2) idx k st).
Proof.
  intros m idx k pre a l2 st. unfold new_body. rewrite prev_add. cbn [bind].
  rewrite app_length. cbn [length]. rewrite usub_ok by lia. cbn [bind]. rewrite add_all_app.
  destruct l2 as [|b r]; cbn [length next_new].
  - destruct (Nat.ltb_spec (length pre) (length pre + 1 - 1)) as [E|_]; [lia|]. cbn [bind]. reflexivity.
  - destruct (Nat.ltb_spec (length pre) (length pre + S (S (length r)) - 1)) as [_|E]; [|lia].
    rewrite at_app. cbn [at_ nth_error bind].
    destruct (tok_eqb b m); cbn [negb bind]; [reflexivity|].
    rewrite at_app0. cbn [bind]. reflexivity.
Qed.

Lemma new_scan_none : forall m prev s, Forall (fun t => tok_eqb t m = false) s -> new_scan m prev s = [].
Proof.
  intros m prev s; revert prev; induction s as [|a r IH]; intros prev H; [reflexivity|].
  inversion H as [|? ? Ha Hr]; subst. rewrite (new_scan_nomatch m prev a r Ha). now apply IH.
Qed.

Lemma new_loop_scan : forall m idx k fuel suf pre st, (length suf < fuel)%nat ->
  new_loop fuel m idx k (pre ++ suf) (length pre) st = Ok (add_all_lit (new_scan m (lastopt pre) suf) idx k st).
Proof.
  intros m idx k; induction fuel as [|fuel IH]; intros suf pre st Hlen; [lia|]. cbn [new_loop].
  rewrite app_length. destruct suf as [|a0 suf0].
  - cbn [length]. destruct (Nat.ltb_spec (length pre) (length pre + 0)) as [E|_]; [lia|]. reflexivity.
  - destruct (Nat.ltb_spec (length pre) (length pre + length (a0 :: suf0))) as [_|E]; [|cbn [length] in E; lia].
    rewrite skipn_app_len.
    destruct (find_pos (fun t => tok_eqb t m) (a0 :: suf0)) as [start|] eqn:Ef.
    + destruct (find_pos_some _ _ _ Ef) as (l1 & a & l2 & Hsuf & Hl1 & Hno & Ha). rewrite Hsuf in *. clear Ef.
      rewrite (new_scan_skip m l1 (a :: l2) pre Hno).
      replace (length pre + start)%nat with (length (pre ++ l1)) by (rewrite app_length; lia).
      rewrite app_assoc. set (pre' := pre ++ l1).
      assert (Hf : (length l2 < fuel)%nat) by (rewrite app_length in Hlen; cbn [length] in Hlen; lia).
      rewrite (new_body_spec m idx k pre' a l2 st). cbn [bind fst snd].
      replace (length pre' + 1)%nat with (length (pre' ++ [a])) by (rewrite app_length; reflexivity).
      replace (pre' ++ a :: l2) with ((pre' ++ [a]) ++ l2) by (rewrite <- app_assoc; reflexivity).
      rewrite IH by exact Hf. rewrite lastopt_snoc.
      cbn [new_scan]. rewrite Ha. rewrite <- add_all_app, <- app_assoc. reflexivity.
    + rewrite (new_scan_none m _ _ (find_pos_none _ _ Ef)). reflexivity.
Qed.

(** * one entry of [changes] *)
Lemma one_change_scan : forall p st idx old nw k,
  one_change p st (idx, old, nw, k) =
  (st1 <- dec_all_lit (old_scan p None old) idx k st ;; Ok (add_all_lit (new_scan (merge p) None nw) idx k st1)).
Proof.
  intros p st idx old nw k. unfold one_change.
  pose proof (old_loop_scan p idx k (S (length old)) old [] st (Nat.lt_succ_diag_r _)) as H1. cbn [app length lastopt] in H1.
  rewrite H1. destruct (dec_all_lit (old_scan p None old) idx k st) as [st1|e]; cbn [bind]; [|reflexivity].
  pose proof (new_loop_scan (merge p) idx k (S (length nw)) nw [] st1 (Nat.lt_succ_diag_r _)) as H2. cbn [app length lastopt] in H2.
  exact H2.
Qed.

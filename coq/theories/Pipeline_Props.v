(** Pipeline — pinned statements about [preprocessing(cfg)] as modelled in Pipeline_Model.v
    ([preproc opq c x i]: configuration [c] applied to item [x] = (input, target) with info [i] = (seed, file index,
    marks); [opq]: the stages that are not modelled, any function).  Nothing but statements, [exact], audits. *)
From TU Require Import RNG_Model RNG_Proofs.
From TU Require Import Base UAX29_Model NFKC_Model C10_Model C14_Model C14_Seam C14_Seeded.
From TU Require Import C11_Model C01_Model Pipeline_Model Pipeline_Proofs Pipeline_Proofs2 Pipeline_Proofs3.
Local Open Scope nat_scope.

(** ** Chain: [chain(fns)] is sequential composition; None / the empty chain is its unit; nesting is flattening *)
Theorem chain_is_sequence : forall opq l x i, preproc opq (CChain l) x i = chain_run opq l x i.
Proof. exact preproc_chain. Qed.
Print Assumptions chain_is_sequence.

Theorem chain_identity : forall opq c x i,
  preproc opq (CChain []) x i = preproc opq CNone x i /\ preproc opq (CChain [c]) x i = preproc opq c x i.
Proof. exact (fun opq c x i => conj (chain_nil opq x i) (chain_single opq c x i)). Qed.
Print Assumptions chain_identity.

Theorem chain_compose : forall opq l1 l2 x i,
  chain_run opq (l1 ++ l2) x i = rbind (chain_run opq l1 x i) (fun xi => chain_run opq l2 (fst xi) (snd xi)).
Proof. exact chain_app. Qed.
Print Assumptions chain_compose.

Theorem chain_associative : forall opq l1 l2 l3 x i,
  preproc opq (CChain (l1 ++ CChain l2 :: l3)) x i = preproc opq (CChain (l1 ++ l2 ++ l3)) x i.
Proof. exact chain_flatten. Qed.
Print Assumptions chain_associative.

Theorem chain_unit : forall opq l1 l2 x i,
  preproc opq (CChain (l1 ++ CNone :: l2)) x i = preproc opq (CChain (l1 ++ l2)) x i.
Proof. exact chain_none_unit. Qed.
Print Assumptions chain_unit.

(** ** Switch: for EVERY seed exactly one alternative runs, and its index is in range
    (no out-of-bounds panic: the premises are the constructor's assertions, [cfg_ok]) *)
Theorem switch_one_branch : forall opq l ps x i, l <> [] -> length l = length ps ->
  exists c, nth_error l (switch_choice ps (i_seed i)) = Some c /\ switch_choice ps (i_seed i) < length l /\
            preproc opq (CSwitch l ps) x i = preproc opq c x i.
Proof. exact switch_exact. Qed.
Print Assumptions switch_one_branch.

Theorem switch_ok_premises : forall l ps, cfg_ok (CSwitch l ps) = true ->
  Forall (fun c => cfg_ok c = true) l /\ l <> [] /\ length l = length ps /\
  near_one (lastn (Fin 0 emin) (accum ps)) = true.
Proof. exact cfg_ok_switch. Qed.
Print Assumptions switch_ok_premises.

(** the chosen index is the first whose cumulative probability is not below the draw (the last one otherwise) *)
Theorem switch_index_spec : forall r cum k, sw_idx r cum = k ->
  (forall j, j < k -> fgt r (nth j cum FNaN) = true) /\ (S k < length cum -> fgt r (nth k cum FNaN) = false).
Proof. exact (sw_idx_spec opq_none). Qed.
Print Assumptions switch_index_spec.

(** ** The processed item is a function of (configuration, item, SEED): two infos with the same seed give the same
    item and the same kind of outcome; file index and incoming marks only flow through to the outgoing info
    (configurations without unmodelled stages) *)
Theorem preproc_function_of_seed : forall c, has_opaque c = false -> forall x i i', i_seed i = i_seed i' ->
  same_res i i' (preproc opq_none c x i) (preproc opq_none c x i').
Proof. exact preproc_same. Qed.
Print Assumptions preproc_function_of_seed.

(** ** Clean / Normalize idempotence where it holds *)
Theorem clean_twice_cp : forall opq p x i,
  preproc opq (CChain [CClean p false; CClean p false]) x i = preproc opq (CClean p false) x i.
Proof. exact clean_stage_idem_cp. Qed.
Print Assumptions clean_twice_cp.

(** grapheme mode: when the cleaned text has no mixed cluster (outside: C11's KF1) *)
Theorem clean_twice_g : forall opq x i,
  no_mixedb (it_in x) = true -> no_mixedb (clean (segment (it_in x))) = true ->
  preproc opq (CChain [CClean PInput true; CClean PInput true]) x i = preproc opq (CClean PInput true) x i.
Proof. exact clean_stage_idem_g. Qed.
Print Assumptions clean_twice_g.

(** the decomposing forms; for NFC / NFKC idempotence is not proved in NFKC_Proofs (see notes) *)
Theorem normalize_twice_d : forall opq p f x i, f = NFD \/ f = NFKD ->
  preproc opq (CChain [CNormalize p f false; CNormalize p f false]) x i = preproc opq (CNormalize p f false) x i.
Proof. exact normalize_stage_idem_d. Qed.
Print Assumptions normalize_twice_d.

Theorem normalize_ascii_fixed : forall opq f g x i, Forall (fun c => (c <= 127)%N) (it_in x) ->
  preproc opq (CNormalize PInput f g) x i = ROk (x, i).
Proof. exact normalize_stage_ascii. Qed.
Print Assumptions normalize_ascii_fixed.

(** ** Configurations that act on the INPUT only (None, Clean, Normalize, No/FullWhitespaces, WhitespaceCorruption on
    Part::Input; Chain and Switch of such): the call never fails, target and info are untouched *)
Theorem input_only_never_fails : forall opq c, input_only c -> forall x i,
  exists s, preproc opq c x i = ROk (mk_item s (it_tg x), i).
Proof. exact input_only_total. Qed.
Print Assumptions input_only_never_fails.

Theorem input_only_target_untouched : forall opq c x i x' i', input_only c -> preproc opq c x i = ROk (x', i') ->
  it_tg x' = it_tg x /\ i' = i.
Proof. exact input_only_target. Qed.
Print Assumptions input_only_target_untouched.

(** ** The whitespace corruption stage IS C14's function on the r-stream of the item's seed (one draw per character
    from [ChaCha8Rng::seed_from_u64(info.seed)], thresholds ceil(p * 2^53)): it never fails, ... *)
Theorem ws_stage_is_c14 : forall iw dw g seed s,
  ws_corrupt iw dw g seed s = ROk (concat (corrupt_seeded (thr iw) (thr dw) seed (seg_of g s))).
Proof. exact ws_corrupt_seeded. Qed.
Print Assumptions ws_stage_is_c14.

(** ... changes only whitespace (every text, both modes), ... *)
Theorem ws_stage_nonws : forall iw dw g seed s c, ws_corrupt iw dw g seed s = ROk c -> strip_cp c = strip_cp s.
Proof. exact ws_corrupt_nonws. Qed.
Print Assumptions ws_stage_nonws.

(** ... and C14's clauses hold of its output for every probabilities and every seed: clean again, one operation per
    character, repair gives the text back (code-point mode: every clean text; grapheme mode: clean corrupt-safe texts) *)
Theorem ws_stage_c14_cp : forall iw dw seed s, cleansb s = true ->
  exists c, ws_corrupt iw dw false seed s = ROk c
    /\ strip_cp c = strip_cp s /\ cleansb c = true
    /\ exists ops, operations (singletons c) (singletons s) = Some ops /\ length ops = length c
                   /\ repair (singletons c) ops = Some s.
Proof. exact ws_corrupt_cp. Qed.
Print Assumptions ws_stage_c14_cp.

Theorem ws_stage_c14_g : forall iw dw seed s, cleansb s = true -> corrupt_safe s = true ->
  exists c, ws_corrupt iw dw true seed s = ROk c
    /\ strip_cp c = strip_cp s /\ cleansb c = true
    /\ exists ops, operations (segment c) (segment s) = Some ops /\ length ops = length (segment c)
                   /\ repair (segment c) ops = Some s.
Proof. exact ws_corrupt_g. Qed.
Print Assumptions ws_stage_c14_g.

(** ** End to end (C11 + C14 + C01 composed): the whitespace-correction pipeline
      Chain [Clean(input), Clean(target), WhitespaceCorruption(input, iw, dw)]  +  task WhitespaceCorrection
    in code-point mode never drops a line whose input and target differ at most in whitespace — for every
    probabilities, every seed, epoch, position and file: the target is the cleaned text, the input has the same
    non-whitespace characters and is clean, the token ids are prefix ++ UTF-8 bytes ++ suffix, and the labels are
    -1 paddings around one operation per input character that repair the input into the target. *)
Theorem wsc_pipeline_never_drops : forall opq iw dw b seed epoch idx file a t,
  clean (singletons a) = clean (singletons t) ->
  let tg := clean (singletons t) in
  exists c ops,
    pipeline opq (PGlobal (wsc_cfg iw dw)) false b (mk_item a t) (item_info seed epoch idx file)
      = ROk (mk_titem (mk_item c tg) (add_pre_suf b (utf8s c)) (labels (length (b_pre b)) (length (b_suf b)) ops))
    /\ strip_cp c = strip_cp t /\ cleansb c = true /\ cleansb tg = true
    /\ length ops = length c /\ repair (singletons c) ops = Some tg.
Proof. exact wsc_pipeline_cp. Qed.
Print Assumptions wsc_pipeline_never_drops.

(** ** Clean, Normalize, WhitespaceCorruption on the input (C11 + NFKC + C14 composed), code-point mode: when the
    cleaned text has none of the 52 code points whose compatibility decomposition contains White_Space (the KF3 set;
    no condition for NFC / NFD), the normalised cleaned text is clean and C14's clauses hold of the pipeline's
    output relative to it — every form, probabilities, seed; target and info untouched *)
Theorem clean_normalize_corrupt_c14 : forall opq f iw dw x i,
  let s1 := clean (singletons (it_in x)) in
  (match f with NFKC | NFKD => forall c, In c s1 -> ~ In c nfkc_makes_space | _ => True end) ->
  let t := normalize_model f false s1 in
  exists c,
    preproc opq (CChain [CClean PInput false; CNormalize PInput f false; CWsCorrupt PInput iw dw false]) x i
      = ROk (mk_item c (it_tg x), i)
    /\ strip_cp c = strip_cp t /\ cleansb t = true /\ cleansb c = true
    /\ exists ops, operations (singletons c) (singletons t) = Some ops /\ length ops = length c
                   /\ repair (singletons c) ops = Some t.
Proof. exact cnw_pipeline_c14. Qed.
Print Assumptions clean_normalize_corrupt_c14.

(** ** Substrings: the new input is a contiguous run of characters of the old one within the bound, the new target
    a trimmed contiguous piece of the old target, the info is untouched; the chosen index is in range for every seed *)
Theorem char_substring_within : forall opq n g x i x' i', preproc opq (CCharSub n g) x i = ROk (x', i') ->
  let seg := seg_of g (it_in x) in
  exists s e m, s <= e /\ e <= length seg /\ e - s <= n /\ (seg <> [] -> e - s = Nat.min n (length seg)) /\
    it_in x' = concat (cslice seg s e) /\
    (exists pre post, it_in x = pre ++ it_in x' ++ post) /\
    (exists pre post, it_tg x = pre ++ m ++ post) /\ it_tg x' = trim m /\ i' = i.
Proof. exact char_substring_spec. Qed.
Print Assumptions char_substring_within.

Theorem byte_substring_within : forall opq n g x i x' i', preproc opq (CByteSub n g) x i = ROk (x', i') ->
  let seg := seg_of g (it_in x) in
  exists s e m, s <= e /\ e <= length seg /\ (seg <> [] -> s < e /\ length (utf8s (it_in x')) <= n) /\
    it_in x' = concat (cslice seg s e) /\
    (exists pre post, it_in x = pre ++ it_in x' ++ post) /\
    (exists pre post, it_tg x = pre ++ m ++ post) /\ it_tg x' = trim m /\ i' = i.
Proof. exact byte_substring_spec. Qed.
Print Assumptions byte_substring_within.

Theorem substring_index_in_range : forall subs g x i poss,
  subs (seg_of g (it_in x)) = ROk poss -> poss <> [] -> (N.of_nat (length poss) < p64)%N ->
  substring subs g x i <> RPanic 2 /\ substring subs g x i <> RPanic 3.
Proof. exact substring_no_index_panic. Qed.
Print Assumptions substring_index_in_range.

(** [possible_byte_substrings] never runs out of fuel and never trips [char_range_to_byte_range]'s assertion *)
Theorem byte_subs_defined : forall seg maxb, exists poss, byte_subs seg maxb = ROk poss.
Proof. exact byte_subs_total. Qed.
Print Assumptions byte_subs_defined.

(** the match of [find_substring_ignoring_whitespace] is a contiguous piece of the text *)
Theorem find_sub_is_substring : forall pieces s m, re_find pieces s = Some m -> exists pre post, s = pre ++ m ++ post.
Proof. exact re_find_sub. Qed.
Print Assumptions find_sub_is_substring.

(** ** non-vacuity *)
(** "a bc d" with seed 5 and probabilities (1/2, 1/2): the second space goes; the crate's unit test of
    find_substring_ignoring_whitespace; a switch that is accepted and one that is not *)
Example ws_example :
  preproc opq_none (CWsCorrupt PInput (Fin 4503599627370496 (-53)) (Fin 4503599627370496 (-53)) false)
          (mk_item [97;32;98;99;32;100] [97;32;98;99;32;100])%N (mk_info 5 0 [])
  = ROk (mk_item [97;32;98;99;100] [97;32;98;99;32;100], mk_info 5 0 [])%N.
Proof. vm_compute. reflexivity. Qed.
Example find_sub_example :
  find_sub_ignoring_ws [116;104;105;115;32;105;115;32;97;32;116;101;115;116;32;115]%N
                       [32;32;97;32;116;101;32;115;10;32;116]%N true = Some [32;97;32;116;101;115;116;32]%N.
Proof. vm_compute. reflexivity. Qed.
Example switch_examples :
  cfg_ok (CSwitch [CNone; CNoWs PInput false] [Fin 4503599627370496 (-53); Fin 4503599627370496 (-53)]) = true
  /\ cfg_ok (CSwitch [CNone; CNone] [Fin 4503599627370496 (-53); Fin 4503599627370496 (-54)]) = false
  /\ switch_choice [Fin 4503599627370496 (-53); Fin 4503599627370496 (-53)] 5 = 0.
Proof. vm_compute. repeat split. Qed.
Example input_only_example : input_only (wsc_cfg (Fin 1 (-1)) (Fin 1 (-1))) -> True.
Proof. trivial. Qed.
Example clean_pair_example : clean (singletons [32;97;32;32;98]%N) = clean (singletons [97;32;98;10]%N)
  /\ cleansb [97;32;98]%N = true /\ corrupt_safe [97;32;98]%N = true.
Proof. vm_compute. repeat split. Qed.
Example kf3_free_example : forall c, In c (clean (singletons [97;32;32;64257;98]%N)) -> ~ In c nfkc_makes_space.
Proof. vm_compute. intros c H. repeat (destruct H as [<-|H]; [intros K; repeat (destruct K as [K|K]; [discriminate K|]); exact K|]). contradiction. Qed.
Example char_sub_example :
  preproc opq_none (CCharSub 3 false) (mk_item [97;32;98;99;32;100] [97;32;98;99;32;100])%N (mk_info 5 0 [])
  = ROk (mk_item [97;32;98] [97;32;98], mk_info 5 0 [])%N.
Proof. vm_compute. reflexivity. Qed.

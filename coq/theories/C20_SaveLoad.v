(** C20 — save / load: decimal printing and parsing, line splitting, trim, round trip. *)
From TU Require Import Base C12_Model C20_Model C20_Topk C20_Counts.
From Coq Require Import Lia ZifyBool ZifyNat ZifyN Permutation.
Open Scope N_scope.
Arguments N.add : simpl never. Arguments N.sub : simpl never. Arguments N.mul : simpl never.
Arguments N.div : simpl never. Arguments N.modulo : simpl never. Arguments N.pow : simpl never.
Arguments N.eqb : simpl never. Arguments N.ltb : simpl never. Arguments N.leb : simpl never.

(** * decimal *)
Definition is_digit (b : N) : bool := (48 <=? b) && (b <=? 57).
Definition val_from (a : N) (ds : bytes) : N := fold_left (fun a d => a * 10 + (d - 48)) ds a.

Lemma val_from_app : forall a x y, val_from a (x ++ y) = val_from (val_from a x) y.
Proof. intros. unfold val_from. apply fold_left_app. Qed.
Lemma val_from_mono : forall ds a, a <= val_from a ds.
Proof.
  induction ds as [|d ds IH]; intro a; unfold val_from in *; cbn [fold_left]; [lia|].
  specialize (IH (a * 10 + (d - 48))). lia.
Qed.

Lemma dec_fuel_S : forall f n acc,
  dec_fuel (S f) n acc = if n <? 10 then (48 + n mod 10) :: acc else dec_fuel f (n / 10) ((48 + n mod 10) :: acc).
Proof. reflexivity. Qed.

Lemma dec_fuel_spec : forall f n acc, n < 10 ^ N.of_nat (S f) ->
  exists ds, dec_fuel (S f) n acc = ds ++ acc /\ ds <> [] /\ forallb is_digit ds = true /\ val_from 0 ds = n.
Proof.
  induction f as [|f IH]; intros n acc Hn; rewrite dec_fuel_S; destruct (n <? 10) eqn:E.
  1, 3: exists [48 + n mod 10]; split; [reflexivity|]; split; [discriminate|]; split;
    [ cbn [forallb]; unfold is_digit; pose proof (N.mod_lt n 10); lia
    | unfold val_from; cbn [fold_left]; rewrite N.mod_small by lia; lia ].
  - exfalso. change (10 ^ N.of_nat 1) with 10 in Hn. lia.
  - assert (Hd : n / 10 < 10 ^ N.of_nat (S f)).
    { rewrite (Nat2N.inj_succ (S f)), N.pow_succ_r' in Hn. apply N.div_lt_upper_bound; lia. }
    destruct (IH (n / 10) ((48 + n mod 10) :: acc) Hd) as [ds [E1 [E2 [E3 E4]]]].
    exists (ds ++ [48 + n mod 10]). split; [rewrite E1, <- app_assoc; reflexivity|].
    split; [destruct ds; discriminate|]. split.
    + rewrite forallb_app, E3. cbn [forallb]. unfold is_digit. pose proof (N.mod_lt n 10). lia.
    + rewrite val_from_app, E4. unfold val_from. cbn [fold_left].
      pose proof (N.div_mod n 10). lia.
Qed.

Lemma size_nat_bound : forall n, n < 2 ^ N.of_nat (N.size_nat n).
Proof.
  intros [|p]; [cbn; lia|]. cbn [N.size_nat].
  induction p as [p IH|p IH|]; cbn [Pos.size_nat]; rewrite ?Nat2N.inj_succ, ?N.pow_succ_r'; try lia.
Qed.

Lemma dec_spec : forall n,
  exists ds, dec n = ds /\ ds <> [] /\ forallb is_digit ds = true /\ val_from 0 ds = n.
Proof.
  intro n. unfold dec.
  destruct (dec_fuel_spec (N.size_nat n) n []) as [ds [E1 H]].
  - pose proof (size_nat_bound n) as B.
    assert (2 ^ N.of_nat (N.size_nat n) <= 10 ^ N.of_nat (N.size_nat n)) by (apply N.pow_le_mono_l; lia).
    rewrite Nat2N.inj_succ, N.pow_succ_r'. lia.
  - exists ds. rewrite E1, app_nil_r. split; [reflexivity|exact H].
Qed.

Lemma parse_digits_val : forall ds a, forallb is_digit ds = true -> val_from a ds <= usize_max ->
  parse_digits a ds = Some (val_from a ds).
Proof.
  induction ds as [|d ds IH]; intros a Hd Hv; [reflexivity|].
  cbn [forallb] in Hd. apply andb_true_iff in Hd as [Hd1 Hd2].
  cbn [parse_digits]. unfold is_digit in Hd1. rewrite Hd1.
  unfold val_from in *. cbn [fold_left] in *.
  pose proof (val_from_mono ds (a * 10 + (d - 48))) as M. unfold val_from in M.
  replace (usize_max <? a * 10 + (d - 48)) with false by lia.
  apply IH; assumption.
Qed.

Lemma digit_not_plus : forall d, is_digit d = true -> d =? 43 = false.
Proof. unfold is_digit. intros. lia. Qed.

Lemma parse_dec : forall n, n <= usize_max -> parse_usize (dec n) = Some n.
Proof.
  intros n Hn. destruct (dec_spec n) as [ds [-> [Hne [Hd Hv]]]].
  destruct ds as [|d ds]; [congruence|]. unfold parse_usize.
  assert (Hd' := Hd). cbn [forallb] in Hd'. apply andb_true_iff in Hd' as [Hd1 _].
  rewrite (digit_not_plus d Hd1). rewrite parse_digits_val; [congruence|exact Hd|lia].
Qed.

Lemma dec_digits : forall n, forallb is_digit (dec n) = true.
Proof. intro n. destruct (dec_spec n) as [ds [-> [_ [H _]]]]. exact H. Qed.
Lemma dec_nonempty : forall n, dec n <> [].
Proof. intro n. destruct (dec_spec n) as [ds [-> [H _]]]. exact H. Qed.
Lemma digits_notin : forall c ds, is_digit c = false -> forallb is_digit ds = true -> ~ In c ds.
Proof.
  intros c ds Hc Hd Hin. rewrite forallb_forall in Hd. apply Hd in Hin. congruence.
Qed.

(** * lines *)
Lemma lines_aux_line : forall l rest cur, ~ In 10 l ->
  lines_aux cur (l ++ 10 :: rest) = strip_cr (rev l ++ cur) :: lines_aux [] rest.
Proof.
  induction l as [|b l IH]; intros rest cur Hn; cbn [app lines_aux].
  - rewrite N.eqb_refl. reflexivity.
  - replace (b =? 10) with false by (cbn [In] in Hn; lia).
    rewrite IH by (cbn [In] in Hn; tauto). cbn [rev]. rewrite <- app_assoc. reflexivity.
Qed.

Lemma strip_cr_last : forall l d, d =? 13 = false -> strip_cr (rev (l ++ [d])) = l ++ [d].
Proof. intros l d H. rewrite rev_app_distr. cbn [rev app]. unfold strip_cr. rewrite H. cbn [rev]. rewrite rev_involutive. reflexivity. Qed.

(** * trim *)
Lemma trim_start_f_none : forall f encs l, starts_ws encs l = None -> trim_start_f f encs l = l.
Proof. intros [|f] encs l H; cbn [trim_start_f]; [reflexivity|]. rewrite H. reflexivity. Qed.

Lemma starts_ws_none : forall encs l,
  (forall w, In w encs -> prefixb w l = false) -> starts_ws encs l = None.
Proof.
  intros encs l H. unfold starts_ws.
  replace (find (fun w => prefixb w l) encs) with (@None bytes); [reflexivity|].
  symmetry. induction encs as [|w encs IH]; [reflexivity|]. cbn [find].
  rewrite (H w (or_introl eq_refl)). apply IH. intros w' Hw'. apply H. right. exact Hw'.
Qed.
Lemma starts_ws_none_inv : forall encs l w, starts_ws encs l = None -> In w encs -> prefixb w l = false.
Proof.
  intros encs l w H Hin. unfold starts_ws in H.
  destruct (find (fun w => prefixb w l) encs) eqn:E; [discriminate|].
  eapply find_none in E; [|exact Hin]. exact E.
Qed.

(** a prefix that contains the separator only as the one-byte encoding cannot reach past it *)
Lemma prefixb_sep : forall sep k r w, (In sep w -> w = [sep]) ->
  prefixb w (k ++ sep :: r) = true -> prefixb w (k ++ [sep]) = true.
Proof.
  intros sep k. induction k as [|a k IH]; intros r w Hw H.
  - destruct w as [|x w]; [reflexivity|]. cbn [app prefixb] in *.
    apply andb_true_iff in H as [H1 H2].
    assert (E : x :: w = [sep]) by (apply Hw; left; lia). injection E as -> ->.
    cbn [prefixb]. rewrite N.eqb_refl. reflexivity.
  - destruct w as [|x w]; [reflexivity|]. cbn [app prefixb] in *.
    apply andb_true_iff in H as [H1 H2]. rewrite H1. cbn [andb]. apply (IH r); [|exact H2].
    intro Hin. assert (E : x :: w = [sep]) by (apply Hw; right; exact Hin).
    injection E as _ ->. destruct Hin.
Qed.

(** facts about the 25 encodings, by computation *)
Lemma ws_enc_tab : forallb (fun w => negb (existsb (N.eqb 9) w) || nlist_eqb w [9]) ws_enc = true.
Proof. vm_compute. reflexivity. Qed.
Lemma ws_enc_rev_nodigit :
  forallb (fun w => match w with [] => false | x :: _ => negb (is_digit x) end) (map (@rev N) ws_enc) = true.
Proof. vm_compute. reflexivity. Qed.

Lemma ws_enc_tab_in : forall w, In w ws_enc -> In 9 w -> w = [9].
Proof.
  intros w Hw H9. pose proof ws_enc_tab as T. rewrite forallb_forall in T. specialize (T w Hw).
  apply orb_true_iff in T as [T|T].
  - exfalso. apply negb_true_iff in T.
    assert (existsb (N.eqb 9) w = true) by (apply existsb_exists; exists 9; split; [exact H9|apply N.eqb_refl]).
    congruence.
  - apply bytes_eqb_eq in T. exact T.
Qed.

Lemma trim_line : forall k ds, key_ok k = true -> ds <> [] -> forallb is_digit ds = true ->
  trim (k ++ 9 :: ds) = k ++ 9 :: ds.
Proof.
  intros k ds Hk Hne Hd. unfold trim.
  assert (Hs : trim_start (k ++ 9 :: ds) = k ++ 9 :: ds).
  { unfold trim_start. apply trim_start_f_none. apply starts_ws_none. intros w Hw.
    unfold key_ok in Hk. apply andb_true_iff in Hk as [_ Hk].
    destruct (starts_ws ws_enc (k ++ [9])) eqn:E; [discriminate|].
    destruct (prefixb w (k ++ 9 :: ds)) eqn:P; [|reflexivity].
    apply prefixb_sep in P; [|apply ws_enc_tab_in; exact Hw].
    rewrite (starts_ws_none_inv _ _ w E Hw) in P. discriminate. }
  rewrite Hs. unfold trim_end. rewrite trim_start_f_none; [apply rev_involutive|].
  apply starts_ws_none. intros w Hw.
  destruct (exists_last Hne) as [ds' [d ->]].
  rewrite forallb_app in Hd. apply andb_true_iff in Hd as [_ Hd]. cbn [forallb] in Hd.
  apply andb_true_iff in Hd as [Hd _].
  replace (k ++ 9 :: ds' ++ [d]) with ((k ++ 9 :: ds') ++ [d]) by (rewrite <- app_assoc; reflexivity).
  rewrite rev_app_distr. cbn [rev app].
  pose proof ws_enc_rev_nodigit as T. rewrite forallb_forall in T. specialize (T w Hw).
  destruct w as [|x w]; [discriminate|]. cbn [prefixb].
  apply negb_true_iff in T. destruct (x =? d) eqn:E; [|reflexivity].
  assert (x = d) by lia. subst. congruence.
Qed.

(** * split *)
Lemma split_on_none : forall sep l cur, ~ In sep l -> split_on sep cur l = [rev cur ++ l].
Proof.
  intros sep. induction l as [|b l IH]; intros cur H; cbn [split_on].
  - rewrite app_nil_r. reflexivity.
  - replace (b =? sep) with false by (cbn [In] in H; lia).
    rewrite IH by (cbn [In] in H; tauto). cbn [rev]. rewrite <- app_assoc. reflexivity.
Qed.
Lemma split_on_first : forall sep k v cur, ~ In sep k ->
  split_on sep cur (k ++ sep :: v) = (rev cur ++ k) :: split_on sep [] v.
Proof.
  intros sep. induction k as [|b k IH]; intros v cur H; cbn [app split_on].
  - rewrite N.eqb_refl, app_nil_r. reflexivity.
  - replace (b =? sep) with false by (cbn [In] in H; lia).
    rewrite IH by (cbn [In] in H; tauto). cbn [rev]. rewrite <- app_assoc. reflexivity.
Qed.

Lemma existsb_eqb_false : forall c l, existsb (N.eqb c) l = false -> ~ In c l.
Proof.
  intros c l H Hin. assert (existsb (N.eqb c) l = true) by (apply existsb_exists; exists c; split; [exact Hin|apply N.eqb_refl]).
  congruence.
Qed.
Lemma key_ok_no_tab : forall k, key_ok k = true -> ~ In 9 k.
Proof.
  intros k H. unfold key_ok in H. apply andb_true_iff in H as [H _]. apply andb_true_iff in H as [H _].
  apply negb_true_iff in H. apply existsb_eqb_false. exact H.
Qed.
Lemma key_ok_no_lf : forall k, key_ok k = true -> ~ In 10 k.
Proof.
  intros k H. unfold key_ok in H. apply andb_true_iff in H as [H _]. apply andb_true_iff in H as [_ H].
  apply negb_true_iff in H. apply existsb_eqb_false. exact H.
Qed.

(** * insert *)
Lemma insert_new : forall k v m, ~ In k (keys m) -> insert k v m = m ++ [(k, v)].
Proof.
  intros k v m. unfold keys. induction m as [|[k' v'] m IH]; intro H; cbn [insert app]; [reflexivity|].
  cbn [map fst In] in H. replace (bytes_eqb k' k) with false.
  - rewrite IH by tauto. reflexivity.
  - symmetry. apply bytes_eqb_neq. tauto.
Qed.

(** * the round trip *)
Definition line_of (e : word * N) : bytes := fst e ++ 9 :: dec (snd e).

Lemma save_line_eq : forall e, save_line e = line_of e ++ [10].
Proof. intros [k v]. unfold save_line, line_of. cbn [fst snd]. rewrite <- app_assoc. reflexivity. Qed.

Lemma line_of_no_lf : forall e, key_ok (fst e) = true -> ~ In 10 (line_of e).
Proof.
  intros [k v] H. unfold line_of. cbn [fst snd] in *. intro Hin. apply in_app_or in Hin as [Hin|[Hin|Hin]].
  - exact (key_ok_no_lf k H Hin).
  - discriminate.
  - exact (digits_notin 10 (dec v) eq_refl (dec_digits v) Hin).
Qed.

Lemma line_of_strip : forall e, strip_cr (rev (line_of e)) = line_of e.
Proof.
  intros [k v]. unfold line_of. cbn [fst snd].
  destruct (exists_last (dec_nonempty v)) as [ds [d E]]. rewrite E.
  replace (k ++ 9 :: ds ++ [d]) with ((k ++ 9 :: ds) ++ [d]) by (rewrite <- app_assoc; reflexivity).
  apply strip_cr_last.
  pose proof (dec_digits v) as Hd. rewrite E, forallb_app in Hd. apply andb_true_iff in Hd as [_ Hd].
  cbn [forallb] in Hd. unfold is_digit in Hd. lia.
Qed.

Lemma lines_of_save : forall es, Forall (fun e => key_ok (fst e) = true) es ->
  lines_of (flat_map save_line es) = map line_of es.
Proof.
  unfold lines_of. induction es as [|e es IH]; intro H; [reflexivity|].
  inversion H as [|? ? He Hes]; subst. cbn [flat_map map]. rewrite save_line_eq, <- app_assoc. cbn [app].
  rewrite lines_aux_line by (apply line_of_no_lf; exact He).
  rewrite app_nil_r, line_of_strip, IH by exact Hes. reflexivity.
Qed.

Lemma load_line_of : forall e, key_ok (fst e) = true -> snd e <= usize_max ->
  split_on 9 [] (trim (line_of e)) = [fst e; dec (snd e)] /\ parse_usize (dec (snd e)) = Some (snd e).
Proof.
  intros [k v] Hk Hv. cbn [fst snd] in *. unfold line_of. cbn [fst snd]. split.
  - rewrite trim_line; [|exact Hk|apply dec_nonempty|apply dec_digits].
    rewrite split_on_first by (apply key_ok_no_tab; exact Hk).
    rewrite split_on_none by (apply (digits_notin 9 (dec v) eq_refl (dec_digits v))). reflexivity.
  - apply parse_dec. exact Hv.
Qed.

Lemma load_lines_ok : forall es acc,
  Forall (fun e => key_ok (fst e) = true) es -> Forall (fun e => snd e <= usize_max) es ->
  NoDup (keys (acc ++ es)) ->
  load_lines (map line_of es) acc = Some (acc ++ es).
Proof.
  induction es as [|e es IH]; intros acc Hk Hv Hd; cbn [map load_lines].
  - rewrite app_nil_r. reflexivity.
  - inversion Hk as [|? ? Hk1 Hk2]; inversion Hv as [|? ? Hv1 Hv2]; subst.
    destruct (load_line_of e Hk1 Hv1) as [E1 E2]. rewrite E1, E2.
    rewrite insert_new.
    + rewrite IH; try assumption.
      * rewrite <- app_assoc. destruct e. reflexivity.
      * rewrite <- app_assoc. destruct e. exact Hd.
    + unfold keys in *. rewrite map_app in Hd. cbn [map] in Hd. apply NoDup_remove_2 in Hd.
      intro Hin. apply Hd. apply in_or_app. left. exact Hin.
Qed.

(** the stable sort of [save] is a permutation *)
Lemma ins_desc_perm : forall x l, Permutation (ins_desc x l) (x :: l).
Proof.
  induction l as [|y t IH]; cbn [ins_desc]; [apply Permutation_refl|].
  destruct (snd y <=? snd x); [apply Permutation_refl|].
  eapply perm_trans; [apply perm_skip, IH|apply perm_swap].
Qed.
Lemma sort_desc_perm : forall l, Permutation (sort_desc l) l.
Proof.
  unfold sort_desc. induction l as [|x l IH]; cbn [fold_right]; [apply Permutation_refl|].
  eapply perm_trans; [apply ins_desc_perm|apply perm_skip, IH].
Qed.

Definition dict_ok (d : dict) : Prop :=
  NoDup (keys d) /\ Forall (fun e => key_ok (fst e) = true) d /\ Forall (fun e => snd e <= usize_max) d.

Lemma save_load_l : forall order, dict_ok order ->
  load (save order) = Some (sort_desc order) /\ Permutation (sort_desc order) order.
Proof.
  intros order [Hd [Hk Hv]]. split; [|apply sort_desc_perm].
  pose proof (sort_desc_perm order) as P.
  unfold load, save. rewrite lines_of_save.
  - rewrite load_lines_ok; [reflexivity| | |].
    + eapply Permutation_Forall; [apply Permutation_sym, P|exact Hk].
    + eapply Permutation_Forall; [apply Permutation_sym, P|exact Hv].
    + cbn [app]. unfold keys. eapply Permutation_NoDup; [apply Permutation_map, Permutation_sym, P|exact Hd].
  - eapply Permutation_Forall; [apply Permutation_sym, P|exact Hk].
Qed.

(** C19 proofs. *)
From TU Require Import Base C19_Model.
From Coq Require Import Lia Permutation.
Open Scope N_scope.

(** * Pair replacement preserves the bytes of a word *)
Lemma replace_aux_concat : forall p w last,
  concat (replace_aux p last w) = last ++ concat w.
Proof.
  intros p w; induction w as [|s r IH]; intros last; cbn [replace_aux concat].
  - reflexivity.
  - destruct (tok_eqb last (fst p) && tok_eqb s (snd p)).
    + rewrite IH. now rewrite app_assoc.
    + cbn [concat]. now rewrite IH.
Qed.

Lemma replace_concat_l : forall p w, concat (replace_in_word p w) = concat w.
Proof.
  intros p [|a r]; cbn [replace_in_word concat]; [reflexivity|].
  apply replace_aux_concat.
Qed.

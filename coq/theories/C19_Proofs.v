(** C19 proofs, part 1: pair replacement, frequencies, accepted runs. *)
From TU Require Import Base C19_Model.
From Coq Require Import Lia Permutation.
Open Scope N_scope.
Arguments N.add : simpl never.
Arguments N.sub : simpl never.
Arguments N.mul : simpl never.
Arguments N.div : simpl never.
Arguments N.modulo : simpl never.
Arguments N.eqb : simpl never.
Arguments N.ltb : simpl never.
Arguments N.leb : simpl never.
Arguments N.max : simpl never.

(** * Boolean equalities *)
Lemma nlist_eqb_eq : forall a b, nlist_eqb a b = true <-> a = b.
Proof.
  induction a as [|x a IH]; destruct b as [|y b]; cbn [nlist_eqb]; split; intros H; try reflexivity; try discriminate.
  - apply andb_true_iff in H as [H1 H2]. apply N.eqb_eq in H1. apply IH in H2. now subst.
  - injection H as <- <-. apply andb_true_iff; split; [apply N.eqb_refl | now apply IH].
Qed.
Lemma nlist_eqb_refl : forall a, nlist_eqb a a = true.
Proof. intros a. now apply nlist_eqb_eq. Qed.

Lemma pair_eqb_eq : forall p q, pair_eqb p q = true <-> p = q.
Proof.
  intros [a b] [a' b']; unfold pair_eqb, tok_eqb; cbn [fst snd]. rewrite andb_true_iff, !nlist_eqb_eq.
  split; [intros [-> ->]; reflexivity | intros H; injection H as -> ->; auto].
Qed.
Lemma pair_eqb_refl : forall p, pair_eqb p p = true.
Proof. intros p. now apply pair_eqb_eq. Qed.

(** * Pair replacement preserves the bytes of a word *)
Lemma replace_aux_concat : forall p w last,
  concat (replace_aux p last w) = last ++ concat w.
Proof.
  intros p w; induction w as [|s r IH]; intros last; cbn [replace_aux concat].
  - reflexivity.
  - destruct (tok_eqb last (fst p) && tok_eqb s (snd p)).
    + rewrite IH. now rewrite app_assoc.
    + cbn [concat]. now rewrite IH.
Qed.

Lemma replace_concat_l : forall p w, concat (replace_in_word p w) = concat w.
Proof.
  intros p [|a r]; cbn [replace_in_word concat]; [reflexivity|].
  apply replace_aux_concat.
Qed.

Lemma apply_pair_bytes : forall c p,
  map (fun wk => (concat (fst wk), snd wk)) (apply_pair c p) = map (fun wk => (concat (fst wk), snd wk)) c.
Proof.
  intros c p. unfold apply_pair. rewrite map_map. apply map_ext. intros [w k]; cbn [fst snd].
  now rewrite replace_concat_l.
Qed.

Lemma state_after_bytes : forall ps c,
  map (fun wk => (concat (fst wk), snd wk)) (state_after c ps) = map (fun wk => (concat (fst wk), snd wk)) c.
Proof.
  induction ps as [|p ps IH]; intros c; cbn [state_after fold_left]; [reflexivity|].
  fold (state_after (apply_pair c p) ps). rewrite IH. apply apply_pair_bytes.
Qed.

(** * Frequencies *)
Lemma count_pair_pos_in : forall p l, 0 < count_pair p l -> In p l.
Proof.
  intros p l; induction l as [|q r IH]; cbn [count_pair]; intros H; [lia|].
  destruct (pair_eqb p q) eqn:E.
  - left. symmetry. now apply pair_eqb_eq.
  - right. apply IH. lia.
Qed.
Lemma count_pair_in_pos : forall p l, In p l -> 0 < count_pair p l.
Proof.
  intros p l; induction l as [|q r IH]; cbn [count_pair In]; intros H; [tauto|].
  destruct H as [->|H]; [rewrite pair_eqb_refl; lia|]. specialize (IH H). lia.
Qed.

Lemma pair_freq_pos_in : forall c p, 0 < pair_freq c p -> In p (all_pairs c).
Proof.
  intros c p; induction c as [|[w k] r IH]; cbn [pair_freq]; intros H; [lia|].
  unfold all_pairs; cbn [flat_map fst]. apply in_or_app.
  destruct (N.eq_dec (count_pair p (word_pairs w)) 0) as [E|E].
  - right. apply IH. rewrite E in H. lia.
  - left. apply count_pair_pos_in. lia.
Qed.

Lemma In_dedup : forall l p, In p (dedup l) <-> In p l.
Proof.
  induction l as [|q r IH]; intros p; cbn [dedup]; [tauto|].
  destruct (existsb (pair_eqb q) r) eqn:E.
  - rewrite IH. cbn [In]. split; [tauto|]. intros [<-|H]; [|exact H].
    apply existsb_exists in E as (x & Hx & Hq). apply pair_eqb_eq in Hq. now subst.
  - cbn [In]. now rewrite IH.
Qed.

Lemma fold_max_ge : forall (l : list N) x, In x l -> x <= fold_right N.max 0 l.
Proof.
  induction l as [|y l IH]; cbn [fold_right In]; intros x H; [tauto|].
  destruct H as [->|H]; [lia|]. specialize (IH x H). lia.
Qed.
Lemma fold_max_attained : forall (l : list N), 0 < fold_right N.max 0 l -> In (fold_right N.max 0 l) l.
Proof.
  induction l as [|y l IH]; cbn [fold_right In]; intros H; [lia|].
  destruct (N.max_spec y (fold_right N.max 0 l)) as [[Hlt ->]|[Hle ->]].
  - right. apply IH. lia.
  - now left.
Qed.

Lemma max_freq_ge : forall c q, pair_freq c q <= max_freq c.
Proof.
  intros c q. destruct (N.eq_dec (pair_freq c q) 0) as [E|E]; [lia|].
  unfold max_freq. apply fold_max_ge. apply in_map. unfold dpairs. apply In_dedup.
  apply pair_freq_pos_in. lia.
Qed.
Lemma max_freq_attained : forall c, 0 < max_freq c ->
  exists p, In p (all_pairs c) /\ pair_freq c p = max_freq c.
Proof.
  intros c H. unfold max_freq in *. apply fold_max_attained in H.
  apply in_map_iff in H as (p & Hp & Hin). exists p. split; [|exact Hp].
  now apply In_dedup.
Qed.

Lemma step_okb_spec : forall c p, step_okb c p = true <-> StepOK c p.
Proof.
  intros c p. unfold step_okb, StepOK. rewrite andb_true_iff, N.ltb_lt, N.eqb_eq. split.
  - intros [Hm He]. split; [apply pair_freq_pos_in; lia|]. split; [lia|].
    intros q. rewrite He. apply max_freq_ge.
  - intros (Hin & Hpos & Hmax). pose proof (max_freq_ge c p) as Hge.
    assert (max_freq c <= pair_freq c p).
    { destruct (N.eq_dec (max_freq c) 0) as [E|E]; [lia|].
      destruct (max_freq_attained c) as (q & _ & Hq); [lia|]. rewrite <- Hq. apply Hmax. }
    lia.
Qed.

Lemma exhaustedb_spec : forall c, exhaustedb c = true <-> Exhausted c.
Proof.
  intros c. unfold exhaustedb, Exhausted. rewrite N.eqb_eq. split.
  - intros H q. pose proof (max_freq_ge c q). lia.
  - intros H. destruct (N.eq_dec (max_freq c) 0) as [E|E]; [exact E|].
    destruct (max_freq_attained c) as (q & _ & Hq); [lia|]. rewrite H in Hq. lia.
Qed.

Lemma cands_spec : forall c e p, In p (cands c e) <-> StepOK c p /\ merge p = e.
Proof.
  intros c e p. unfold cands. destruct (0 <? max_freq c) eqn:Em.
  - rewrite filter_In, andb_true_iff. unfold tok_eqb. rewrite nlist_eqb_eq.
    rewrite <- step_okb_spec. unfold step_okb. rewrite Em. cbn [andb]. unfold dpairs. rewrite In_dedup.
    split; [tauto|]. intros [He Hm]. split; [|tauto]. apply pair_freq_pos_in.
    apply N.ltb_lt in Em. apply N.eqb_eq in He. lia.
  - cbn [In]. split; [tauto|]. intros [H _]. apply step_okb_spec in H. unfold step_okb in H.
    rewrite Em in H. discriminate.
Qed.

(** * The executable acceptance test is exactly the run relation *)
Lemma accepts_sound_l : forall es c k, accepts c k es = true ->
  exists ps, Run c k ps /\ map merge ps = es.
Proof.
  induction es as [|e es IH]; intros c k H; cbn [accepts] in H.
  - exists []. split; [|reflexivity]. destruct k; [constructor|]. constructor. now apply exhaustedb_spec.
  - destruct k as [|k]; [discriminate|].
    apply existsb_exists in H as (p & Hp & Hacc). apply cands_spec in Hp as [Hok He].
    destruct (IH _ _ Hacc) as (ps & Hrun & Hps). exists (p :: ps). split.
    + now constructor.
    + cbn [map]. now rewrite He, Hps.
Qed.

Lemma accepts_complete_l : forall c k ps, Run c k ps -> accepts c k (map merge ps) = true.
Proof.
  intros c k ps H; induction H as [c|c k Hex|c k p ps Hok Hrun IH]; cbn [map accepts].
  - reflexivity.
  - destruct k; [reflexivity|]. now apply exhaustedb_spec.
  - apply existsb_exists. exists p. split; [|exact IH]. apply cands_spec. now split.
Qed.

(** * The deterministic trainer is an accepted run *)
Lemma best_spec : forall c, match best c with Some p => StepOK c p | None => Exhausted c end.
Proof.
  intros c. unfold best. destruct (0 <? max_freq c) eqn:Em.
  - destruct (find _ _) as [p|] eqn:Ef.
    + apply find_some in Ef as [_ He]. apply step_okb_spec. unfold step_okb. now rewrite Em, He.
    + apply N.ltb_lt in Em. destruct (max_freq_attained c Em) as (q & Hq & Hf).
      eapply find_none in Ef; [|unfold dpairs; apply In_dedup; exact Hq].
      cbn beta in Ef. rewrite Hf, N.eqb_refl in Ef. discriminate.
  - apply exhaustedb_spec. unfold exhaustedb. apply N.ltb_ge in Em. apply N.eqb_eq. lia.
Qed.

Lemma train_run_l : forall k c, Run c k (train k c).
Proof.
  induction k as [|k IH]; intros c; cbn [train]; [constructor|].
  pose proof (best_spec c) as H. destruct (best c) as [p|].
  - constructor; [exact H | apply IH].
  - now constructor.
Qed.

(** * Facts about every accepted run *)
Lemma run_length_l : forall c k ps, Run c k ps -> (length ps <= k)%nat.
Proof. intros c k ps H; induction H; cbn [length]; lia. Qed.

Lemma run_short_exhausted_l : forall c k ps, Run c k ps -> (length ps < k)%nat -> Exhausted (state_after c ps).
Proof.
  intros c k ps H; induction H as [c|c k Hex|c k p ps Hok Hrun IH]; cbn [length state_after fold_left]; intros Hl.
  - lia.
  - exact Hex.
  - apply IH. lia.
Qed.

Lemma run_entry_max_l : forall c k ps, Run c k ps ->
  forall i p, nth_error ps i = Some p -> StepOK (state_after c (firstn i ps)) p.
Proof.
  intros c k ps H; induction H as [c|c k Hex|c k p ps Hok Hrun IH]; intros i q Hn.
  - destruct i; discriminate.
  - destruct i; discriminate.
  - destruct i as [|i]; cbn [nth_error firstn state_after fold_left] in *.
    + injection Hn as <-. exact Hok.
    + now apply IH.
Qed.

(** * Well-formed tables: every merged pair consists of bytes or earlier entries *)
Lemma TokOK_mono : forall tbl tbl' t, TokOK tbl t -> TokOK (tbl ++ tbl') t.
Proof. intros tbl tbl' t [H|H]; [now left | right; apply in_or_app; now left]. Qed.

Lemma word_pairs_in : forall w a b, In (a, b) (word_pairs w) -> In a w /\ In b w.
Proof.
  induction w as [|x r IH]; intros a b H; cbn [word_pairs] in H; [tauto|].
  destruct r as [|y r']; [destruct H|]. cbn [In] in H. destruct H as [H|H].
  - injection H as <- <-. cbn [In]. tauto.
  - apply IH in H. cbn [In] in *. tauto.
Qed.

Lemma all_pairs_in : forall c p, In p (all_pairs c) ->
  exists w k, In (w, k) c /\ In (fst p) w /\ In (snd p) w.
Proof.
  intros c [a b] H. unfold all_pairs in H. apply in_flat_map in H as ([w k] & Hin & Hp).
  cbn [fst] in Hp. apply word_pairs_in in Hp. exists w, k. cbn [fst snd]. tauto.
Qed.

Definition GoodTok (tbl : list token) (t : token) : Prop := t <> [] /\ TokOK tbl t.

Lemma replace_aux_good : forall tbl p w last,
  GoodTok (tbl ++ [merge p]) last -> Forall (GoodTok (tbl ++ [merge p])) w ->
  Forall (GoodTok (tbl ++ [merge p])) (replace_aux p last w).
Proof.
  intros tbl p w; induction w as [|s r IH]; intros last Hl Hw; cbn [replace_aux].
  - constructor; [exact Hl | constructor].
  - inversion Hw as [|? ? Hs Hr]; subst.
    destruct (tok_eqb last (fst p) && tok_eqb s (snd p)) eqn:E.
    + apply IH; [|exact Hr]. apply andb_true_iff in E as [E1 E2].
      apply nlist_eqb_eq in E1, E2. subst. split.
      * destruct Hl as [Hne _]. destruct (fst p); [congruence | discriminate].
      * right. apply in_or_app. right. now left.
    + constructor; [exact Hl|]. apply IH; assumption.
Qed.

Lemma apply_pair_ok : forall tbl c p, CorpusOK tbl c -> CorpusOK (tbl ++ [merge p]) (apply_pair c p).
Proof.
  intros tbl c p H w k Hin. unfold apply_pair in Hin. apply in_map_iff in Hin as ([w0 k0] & He & Hin0).
  cbn [fst snd] in He. injection He as <- <-. specialize (H _ _ Hin0).
  assert (Hm : Forall (GoodTok (tbl ++ [merge p])) w0).
  { eapply Forall_impl; [|exact H]. intros t [Hne Ht]. split; [exact Hne | now apply TokOK_mono]. }
  destruct w0 as [|a r]; cbn [replace_in_word]; [constructor|].
  inversion Hm; subst. now apply replace_aux_good.
Qed.

Lemma run_table_wf_gen : forall c k ps, Run c k ps -> forall tbl, CorpusOK tbl c ->
  forall i p, nth_error ps i = Some p ->
    GoodTok (tbl ++ map merge (firstn i ps)) (fst p) /\ GoodTok (tbl ++ map merge (firstn i ps)) (snd p).
Proof.
  intros c k ps H; induction H as [c|c k Hex|c k p ps Hok Hrun IH]; intros tbl Hc i q Hn.
  - destruct i; discriminate.
  - destruct i; discriminate.
  - destruct i as [|i]; cbn [nth_error firstn map] in *.
    + injection Hn as <-. rewrite app_nil_r. destruct Hok as (Hin & _).
      apply all_pairs_in in Hin as (w & kk & Hw & Hf & Hs). specialize (Hc _ _ Hw).
      rewrite Forall_forall in Hc. split; [apply (Hc _ Hf) | apply (Hc _ Hs)].
    + specialize (IH (tbl ++ [merge p]) (apply_pair_ok _ _ _ Hc) i q Hn).
      rewrite <- app_assoc in IH. exact IH.
Qed.

Lemma run_table_wf_l : forall c k ps, CorpusOK [] c -> Run c k ps ->
  (length ps <= k)%nat /\
  forall i p, nth_error ps i = Some p ->
    TokOK (map merge (firstn i ps)) (fst p) /\ TokOK (map merge (firstn i ps)) (snd p)
    /\ (2 <= length (merge p))%nat.
Proof.
  intros c k ps Hc Hr. split; [eapply run_length_l; eassumption|].
  intros i p Hn. destruct (run_table_wf_gen _ _ _ Hr [] Hc i p Hn) as [[Hn1 H1] [Hn2 H2]].
  cbn [app] in *. split; [exact H1|]. split; [exact H2|].
  unfold merge. rewrite app_length. destruct (fst p); [congruence|]. destruct (snd p); [congruence|].
  cbn [length]. lia.
Qed.

(** the initial vocabulary consists of single bytes *)
Lemma corpus_of_ok : forall m, CorpusOK [] (corpus_of m).
Proof.
  intros m w k Hin. unfold corpus_of in Hin. apply in_map_iff in Hin as ([w0 k0] & He & _).
  injection He as <- <-. cbn [fst]. unfold init_word. apply Forall_forall. intros t Ht.
  apply in_map_iff in Ht as (b & <- & _). split; [discriminate | left; now exists b].
Qed.

(** C19 literal model, proofs part 3: the representation invariant [Rep] holds
    of [byte_pair_stats_lit], is preserved by [replace_pair_lit] + [update_stats_lit]
    (no error exit reachable), is insensitive to the iteration order of the maps,
    [max_byte_pair_lit] picks a positive maximal pair, and every run of the
    literal loop is a [Run] of the recount specification. *)
From TU Require Import Base C19_Model C19_Proofs C19_Delta C19_NoDup C19_Lit C19_LitMaps C19_LitScan.
From Coq Require Import Lia Permutation.
Open Scope N_scope.
Arguments N.add : simpl never.
Arguments N.sub : simpl never.
Arguments N.mul : simpl never.
Arguments N.ltb : simpl never.
Arguments N.leb : simpl never.
Arguments N.eqb : simpl never.

(** * recount facts *)
Lemma pair_freq_app : forall c1 c2 q, pair_freq (c1 ++ c2) q = pair_freq c1 q + pair_freq c2 q.
Proof.
  induction c1 as [|[w k] r IH]; intros c2 q; cbn [app pair_freq]; [lia|]. rewrite IH. lia.
Qed.

Lemma wcount_nil : forall q j, wcount [] q j = 0.
Proof. intros q j. unfold wcount. destruct j; reflexivity. Qed.

Lemma wcount_snoc : forall done w k q j,
  wcount (done ++ [(w, k)]) q j = if Nat.eqb j (length done) then count_pair q (word_pairs w) else wcount done q j.
Proof.
  intros done w k q j. unfold wcount. destruct (Nat.eqb_spec j (length done)) as [->|Hne].
  - rewrite nth_error_app2 by lia. now rewrite Nat.sub_diag.
  - destruct (Nat.lt_ge_cases j (length done)) as [Hlt|Hge].
    + now rewrite nth_error_app1 by exact Hlt.
    + assert (H1 : nth_error (done ++ [(w, k)]) j = None) by (apply nth_error_None; rewrite app_length; cbn [length]; lia).
      assert (H2 : nth_error done j = None) by (apply nth_error_None; lia).
      now rewrite H1, H2.
Qed.

Lemma wcount_range : forall c q j, 0 < wcount c q j -> (j < length c)%nat.
Proof.
  intros c q j H. unfold wcount in H. destruct (nth_error c j) eqn:E; [|lia].
  apply nth_error_Some. congruence.
Qed.

(** * (1) the initial statistics *)
Lemma bps_inv : forall rest done st n, n = length (done ++ rest) -> WF n st ->
  (forall q, abs_freq st q = pair_freq done q) -> (forall q j, abs_occ st q j = wcount done q j) ->
  WF n (bps_from (length done) rest st) /\
  (forall q, abs_freq (bps_from (length done) rest st) q = pair_freq (done ++ rest) q) /\
  (forall q j, abs_occ (bps_from (length done) rest st) q j = wcount (done ++ rest) q j).
Proof.
  induction rest as [|[w k] r IH]; intros done st n Hn Hwf Hf Ho; cbn [bps_from].
  - rewrite app_nil_r. auto.
  - change (add_word st (length done) w k) with (add_all_lit (word_pairs w) (length done) k st).
    destruct (add_all_ok (word_pairs w) (length done) k st) as (F & O & _ & W).
    replace (S (length done)) with (length (done ++ [(w, k)])) by (rewrite app_length; cbn [length]; lia).
    replace (done ++ (w, k) :: r) with ((done ++ [(w, k)]) ++ r) by (rewrite <- app_assoc; reflexivity).
    apply IH.
    + rewrite <- app_assoc. exact Hn.
    + apply W; [exact Hwf|]. subst n. rewrite app_length. cbn [length]. lia.
    + intros q. rewrite F, Hf, pair_freq_app. cbn [pair_freq]. lia.
    + intros q j. rewrite O, Ho, wcount_snoc. destruct (Nat.eqb_spec j (length done)) as [->|Hne]; [|lia].
      assert (Hz : wcount done q (length done) = 0).
      { unfold wcount. assert (H : nth_error done (length done) = None) by (apply nth_error_None; lia). now rewrite H. }
      rewrite Hz. lia.
Qed.

Lemma rep_init_l : forall c, Rep c (byte_pair_stats_lit c).
Proof.
  intros c. apply Rep_WF. unfold byte_pair_stats_lit.
  apply (bps_inv c [] [] (length c)); try reflexivity.
  - split; [constructor | constructor].
  - intros q j. now rewrite wcount_nil.
Qed.

(** * replacing one word of the vocabulary *)
Lemma set_nth_length : forall A (l : list A) i x, length (set_nth l i x) = length l.
Proof. induction l as [|y r IH]; intros [|i] x; cbn [set_nth length]; auto. Qed.

Lemma nth_set_nth : forall A (l : list A) i x j,
  nth_error (set_nth l i x) j =
  if Nat.eqb j i then match nth_error l i with Some _ => Some x | None => None end else nth_error l j.
Proof.
  induction l as [|y r IH]; intros i x j.
  - assert (Hn : forall m, nth_error (@nil A) m = None) by (destruct m; reflexivity).
    cbn [set_nth]. rewrite !Hn. destruct (Nat.eqb j i); reflexivity.
  - destruct i as [|i], j as [|j]; cbn [set_nth nth_error Nat.eqb]; try reflexivity. apply IH.
Qed.

Lemma pair_freq_set_nth : forall c idx w k nw q, nth_error c idx = Some (w, k) ->
  pair_freq (set_nth c idx (nw, k)) q + k * count_pair q (word_pairs w) =
  pair_freq c q + k * count_pair q (word_pairs nw).
Proof.
  induction c as [|[w0 k0] r IH]; intros idx w k nw q H; [destruct idx; discriminate|].
  destruct idx as [|idx]; cbn [nth_error set_nth pair_freq] in *.
  - injection H as -> ->. lia.
  - specialize (IH idx w k nw q H). lia.
Qed.

Lemma pair_freq_ge_word : forall c idx w k q, nth_error c idx = Some (w, k) ->
  k * count_pair q (word_pairs w) <= pair_freq c q.
Proof.
  induction c as [|[w0 k0] r IH]; intros idx w k q H; [destruct idx; discriminate|].
  destruct idx as [|idx]; cbn [nth_error pair_freq] in *.
  - injection H as -> ->. lia.
  - specialize (IH idx w k q H). lia.
Qed.

Lemma wcount_set_nth : forall c idx w k nw q j, nth_error c idx = Some (w, k) ->
  wcount (set_nth c idx (nw, k)) q j = if Nat.eqb j idx then count_pair q (word_pairs nw) else wcount c q j.
Proof.
  intros c idx w k nw q j H. unfold wcount. rewrite nth_set_nth, H. destruct (Nat.eqb j idx); reflexivity.
Qed.

(** * the invariant while [update_stats] runs: everything is the recount of the
      vocabulary in which the words processed so far are already replaced, except
      the merged pair, which is zero *)
Definition RepX (p : pair) (c : corpus) (st : stats) : Prop :=
  WF (length c) st /\ abs_freq st p = 0 /\ (forall j, abs_occ st p j = 0) /\
  (forall q, q <> p -> abs_freq st q = pair_freq c q) /\
  (forall q j, q <> p -> abs_occ st q j = wcount c q j).

Lemma old_scan_in_pairs : forall (p : pair) w q, fst p <> [] -> snd p <> [] -> ~ In (merge p) w -> q <> p ->
  In q (old_scan p None w) -> 0 < count_pair q (word_pairs w).
Proof.
  intros p w q Hx Hy Hm Hq Hin. destruct (word_delta_l p w Hx Hy Hm) as (R & H1 & _ & _).
  rewrite (H1 q Hq). apply count_pair_in_pos in Hin. lia.
Qed.

(** (2a) one entry of [changes]: no error, no saturation, the invariant moves to
    the vocabulary with this word replaced *)
Lemma one_change_ok : forall (p : pair) c st idx w k, fst p <> [] -> snd p <> [] ->
  RepX p c st -> nth_error c idx = Some (w, k) -> ~ In (merge p) w -> has_occ st p idx ->
  exists st', one_change p st (idx, w, replace_in_word p w, k) = Ok st' /\
    RepX p (set_nth c idx (replace_in_word p w, k)) st' /\
    (forall x j, has_occ st x j -> has_occ st' x j).
Proof.
  intros p c st idx w k Hx Hy (Hwf & Hfp & Hop & Hf & Ho) Hnth Hm Hhas.
  rewrite one_change_scan.
  destruct (word_delta_l p w Hx Hy Hm) as (R & H1 & H2 & H3).
  set (nw := replace_in_word p w) in *.
  set (os := old_scan p None w). set (ns := new_scan (merge p) None nw).
  assert (Hidx : (idx < length c)%nat) by (apply nth_error_Some; congruence).
  assert (Hocc : forall q, In q os -> has_occ st q idx).
  { intros q Hq. destruct (pair_eqb q p) eqn:E.
    - apply pair_eqb_eq in E. now subst q.
    - apply pair_eqb_neq in E. apply abs_occ_pos. rewrite (Ho q idx E). unfold wcount. rewrite Hnth.
      now apply (old_scan_in_pairs p w q Hx Hy Hm E). }
  destruct (dec_all_ok os idx k st Hocc) as (st1 & -> & F1 & O1 & Hh1 & W1). cbn [bind].
  destruct (add_all_ok ns idx k st1) as (F2 & O2 & Hh2 & W2).
  exists (add_all_lit ns idx k st1). split; [reflexivity|]. split; [|intros x j H; apply Hh2, Hh1, H].
  assert (Hnp : count_pair p ns = 0) by (apply new_scan_no_p; assumption).
  split; [|split; [|split; [|split]]].
  - rewrite set_nth_length. apply W2; [apply W1; exact Hwf | exact Hidx].
  - rewrite F2, F1, Hfp, Hnp. lia.
  - intros j. rewrite O2, O1, Hop, Hnp. destruct (Nat.eqb j idx); lia.
  - intros q Hq. rewrite F2, F1, (Hf q Hq).
    pose proof (pair_freq_set_nth c idx w k nw q Hnth) as Hs.
    pose proof (pair_freq_ge_word c idx w k q Hnth) as Hge.
    rewrite (H1 q Hq) in Hs, Hge. rewrite (H2 q Hq) in Hs. fold os ns in Hs, Hge.
    rewrite !N.mul_add_distr_l in Hs, Hge. lia.
  - intros q j Hq. rewrite O2, O1, (Ho q j Hq), (wcount_set_nth c idx w k nw q j Hnth).
    destruct (Nat.eqb_spec j idx) as [->|Hne]; [|lia].
    unfold wcount. rewrite Hnth, (H1 q Hq), (H2 q Hq). fold os ns. lia.
Qed.

(** * the list of changes *)
Definition apply_change (c : corpus) (ch : change) : corpus :=
  let '(idx, _, nw, k) := ch in set_nth c idx (nw, k).
Definition apply_changes (c : corpus) (chs : list change) : corpus := fold_left apply_change chs c.

Lemma apply_changes_length : forall chs c, length (apply_changes c chs) = length c.
Proof.
  induction chs as [|[[[idx w] nw] k] r IH]; intros c; [reflexivity|].
  unfold apply_changes in *. cbn [fold_left apply_change]. rewrite IH. apply set_nth_length.
Qed.

Lemma nth_apply_changes_out : forall chs c j, ~ In j (map ch_idx chs) ->
  nth_error (apply_changes c chs) j = nth_error c j.
Proof.
  induction chs as [|[[[idx w] nw] k] r IH]; intros c j Hj; [reflexivity|].
  unfold apply_changes in *. cbn [fold_left apply_change]. cbn [map In] in Hj. unfold ch_idx at 1 in Hj. cbn [fst] in Hj.
  rewrite IH by tauto. rewrite nth_set_nth. destruct (Nat.eqb_spec j idx) as [->|_]; [tauto | reflexivity].
Qed.

Lemma nth_apply_changes_in : forall chs c idx w nw k, NoDup (map ch_idx chs) -> In (idx, w, nw, k) chs ->
  (idx < length c)%nat -> nth_error (apply_changes c chs) idx = Some (nw, k).
Proof.
  induction chs as [|[[[idx0 w0] nw0] k0] r IH]; intros c idx w nw k Hnd Hin Hlt; [destruct Hin|].
  cbn [map] in Hnd. unfold ch_idx at 1 in Hnd. cbn [fst] in Hnd. inversion Hnd as [|? ? Hni Hr]; subst.
  unfold apply_changes in *. cbn [fold_left apply_change]. destruct Hin as [E|Hin].
  - injection E as -> -> -> ->. fold (apply_changes (set_nth c idx (nw, k)) r).
    rewrite nth_apply_changes_out by exact Hni. rewrite nth_set_nth, Nat.eqb_refl.
    destruct (nth_error c idx) eqn:En; [reflexivity|]. apply nth_error_None in En. lia.
  - apply (IH _ idx w nw k Hr Hin). now rewrite set_nth_length.
Qed.

(** (2b) all of [changes]: distinct word indices, each entry holding the word of the
    vocabulary and its replacement *)
Lemma changes_ok : forall (p : pair) chs c st, fst p <> [] -> snd p <> [] -> RepX p c st ->
  NoDup (map ch_idx chs) ->
  (forall idx w nw k, In (idx, w, nw, k) chs ->
     nth_error c idx = Some (w, k) /\ nw = replace_in_word p w /\ ~ In (merge p) w /\ has_occ st p idx) ->
  exists st', changes_loop p st chs = Ok st' /\ RepX p (apply_changes c chs) st'.
Proof.
  intros p; induction chs as [|[[[idx w] nw] k] r IH]; intros c st Hx Hy Hrep Hnd Hall; cbn [changes_loop].
  - exists st. split; [reflexivity | exact Hrep].
  - destruct (Hall idx w nw k (or_introl eq_refl)) as (Hnth & -> & Hm & Hhas).
    destruct (one_change_ok p c st idx w k Hx Hy Hrep Hnth Hm Hhas) as (st1 & -> & Hrep1 & Hmono). cbn [bind].
    cbn [map] in Hnd. unfold ch_idx at 1 in Hnd. cbn [fst] in Hnd. inversion Hnd as [|? ? Hni Hr]; subst.
    destruct (IH (set_nth c idx (replace_in_word p w, k)) st1 Hx Hy Hrep1 Hr) as (st' & -> & Hrep').
    + intros idx' w' nw' k' Hin. destruct (Hall idx' w' nw' k' (or_intror Hin)) as (Hnth' & Hnw' & Hm' & Hhas').
      split; [|split; [exact Hnw' | split; [exact Hm' | now apply Hmono]]].
      rewrite nth_set_nth. destruct (Nat.eqb_spec idx' idx) as [->|_]; [|exact Hnth'].
      exfalso. apply Hni. apply in_map_iff. exists (idx, w', nw', k'). now split.
    + exists st'. split; [reflexivity|]. exact Hrep'.
Qed.

(** * (3) [replace_pair] *)
Definition active (ws : occs) : list nat := map fst (filter (fun io => negb (snd io <? 1)) ws).

Lemma active_in : forall ws idx, In idx (active ws) -> In idx (map fst ws).
Proof.
  intros ws idx H. unfold active in H. apply in_map_iff in H as (io & <- & Hin). apply filter_In in Hin as [Hin _].
  now apply in_map.
Qed.
Lemma active_nodup : forall ws, NoDup (map fst ws) -> NoDup (active ws).
Proof.
  induction ws as [|[i o] r IH]; intros H; [constructor|]. cbn [map fst] in H. inversion H as [|? ? Hi Hr]; subst.
  unfold active in *. cbn [filter snd]. destruct (negb (o <? 1)); [|now apply IH].
  cbn [map fst]. constructor; [|now apply IH]. intros Hin. apply Hi. now apply active_in.
Qed.

Lemma replace_loop_spec : forall p ws c, NoDup (map fst ws) -> (forall idx o, In (idx, o) ws -> (idx < length c)%nat) ->
  exists chs, replace_loop p ws c = Ok (apply_changes c chs, chs) /\ map ch_idx chs = active ws /\
    (forall idx w nw k, In (idx, w, nw, k) chs -> nth_error c idx = Some (w, k) /\ nw = replace_in_word p w).
Proof.
  intros p; induction ws as [|[idx o] r IH]; intros c Hnd Hb; cbn [replace_loop].
  - exists []. split; [reflexivity|]. split; [reflexivity|]. intros ? ? ? ? [].
  - cbn [map fst] in Hnd. inversion Hnd as [|? ? Hni Hr]; subst. unfold active. cbn [filter snd].
    destruct (o <? 1) eqn:Eo; cbn [negb].
    + apply IH; [exact Hr|]. intros idx' o' H. apply (Hb idx' o'). now right.
    + destruct (nth_error c idx) as [[w k]|] eqn:En.
      2:{ apply nth_error_None in En. specialize (Hb idx o (or_introl eq_refl)). lia. }
      destruct (IH (set_nth c idx (replace_in_word p w, k)) Hr) as (chs & -> & Hk & Hall).
      { intros idx' o' H. rewrite set_nth_length. apply (Hb idx' o'). now right. }
      cbn [bind fst snd]. exists ((idx, w, replace_in_word p w, k) :: chs). split; [reflexivity|]. split.
      * cbn [map fst]. unfold ch_idx at 1. cbn [fst]. now rewrite Hk.
      * intros idx' w' nw' k' [E|Hin].
        -- injection E as <- <- <- <-. now split.
        -- destruct (Hall idx' w' nw' k' Hin) as [Hn Hw]. split; [|exact Hw].
           rewrite nth_set_nth in Hn. destruct (Nat.eqb_spec idx' idx) as [->|_]; [|exact Hn].
           exfalso. apply Hni. apply active_in. rewrite <- Hk. apply in_map_iff.
           exists (idx, w', nw', k'). now split.
Qed.

Lemma nth_ext_eq : forall A (l l' : list A), (forall j, nth_error l j = nth_error l' j) -> l = l'.
Proof.
  induction l as [|a r IH]; intros [|b r'] H.
  - reflexivity.
  - specialize (H 0%nat). discriminate.
  - specialize (H 0%nat). discriminate.
  - pose proof (H 0%nat) as H0. cbn in H0. injection H0 as <-. f_equal. apply IH. intros j. exact (H (S j)).
Qed.

Lemma occ_get_active : forall ws j o, NoDup (map fst ws) -> occ_get ws j = Some o -> 0 < o -> In j (active ws).
Proof.
  intros ws j o Hnd Hg Hpos. apply occ_get_in in Hg. unfold active. apply in_map_iff. exists (j, o). split; [reflexivity|].
  apply filter_In. split; [exact Hg|]. cbn [snd]. destruct (N.ltb_spec o 1); [lia | reflexivity].
Qed.
Lemma active_occ : forall ws j, NoDup (map fst ws) -> In j (active ws) -> exists o, occ_get ws j = Some o /\ 0 < o.
Proof.
  intros ws j Hnd H. unfold active in H. apply in_map_iff in H as ([j' o] & E & Hin). cbn [fst] in E. subst j'.
  apply filter_In in Hin as [Hin Ho]. cbn [snd] in Ho. exists o. split; [now apply in_occ_get|].
  destruct (N.ltb_spec o 1); [discriminate | lia].
Qed.

(** [replace_pair] under the invariant: it succeeds, yields [apply_pair], and
    [changes] lists exactly the words in which the pair occurs, each once *)
Lemma replace_pair_lit_ok_l : forall c st p, Rep c st -> st_get st p <> None ->
  exists chs, replace_pair_lit c p st = Ok (apply_pair c p, chs) /\ NoDup (map ch_idx chs) /\
    (forall idx w nw k, In (idx, w, nw, k) chs <->
       nth_error c idx = Some (w, k) /\ nw = replace_in_word p w /\ 0 < count_pair p (word_pairs w)) /\
    (forall idx, In idx (map ch_idx chs) -> has_occ st p idx).
Proof.
  intros c st p Hrep Hne. apply Rep_WF in Hrep as (Hwf & Hf & Ho).
  unfold replace_pair_lit. destruct (st_get st p) as [[f ws]|] eqn:Hg; [clear Hne | contradiction].
  destruct (WF_entry _ _ _ _ _ Hwf Hg) as [Hnd Hb]. rewrite Forall_forall in Hb.
  destruct (replace_loop_spec p ws c Hnd) as (chs & -> & Hk & Hall).
  { intros idx o H. exact (Hb _ H). }
  assert (Hcnt : forall j, In j (active ws) <-> 0 < wcount c p j).
  { intros j. rewrite <- Ho. unfold abs_occ. rewrite Hg. split.
    - intros H. destruct (active_occ ws j Hnd H) as (o & -> & Hpos). exact Hpos.
    - intros H. destruct (occ_get ws j) as [o|] eqn:Eo; [|lia]. eapply occ_get_active; eassumption. }
  assert (Hndc : NoDup (map ch_idx chs)) by (rewrite Hk; now apply active_nodup).
  exists chs. split; [|split; [exact Hndc | split]].
  - f_equal. f_equal. apply nth_ext_eq. intros j. unfold apply_pair. rewrite nth_error_map.
    destruct (in_dec Nat.eq_dec j (map ch_idx chs)) as [Hin|Hout].
    + apply in_map_iff in Hin as ([[[idx w] nw] k] & E & Hin). unfold ch_idx in E. cbn [fst] in E. subst idx.
      destruct (Hall j w nw k Hin) as [Hn ->].
      rewrite (nth_apply_changes_in chs c j w _ k Hndc Hin) by (apply nth_error_Some; congruence).
      now rewrite Hn.
    + rewrite nth_apply_changes_out by exact Hout. destruct (nth_error c j) as [[w k]|] eqn:En; [|reflexivity].
      cbn [option_map fst snd]. rewrite replace_id; [reflexivity|].
      rewrite Hk, Hcnt in Hout. unfold wcount in Hout. rewrite En in Hout. lia.
  - intros idx w nw k. split.
    + intros Hin. destruct (Hall idx w nw k Hin) as [Hn Hw]. split; [exact Hn|]. split; [exact Hw|].
      assert (Hi : In idx (active ws)) by (rewrite <- Hk; apply in_map_iff; exists (idx, w, nw, k); now split).
      apply Hcnt in Hi. unfold wcount in Hi. now rewrite Hn in Hi.
    + intros (Hn & Hw & Hpos). assert (Hi : In idx (map ch_idx chs)).
      { rewrite Hk. apply Hcnt. unfold wcount. now rewrite Hn. }
      apply in_map_iff in Hi as ([[[idx' w'] nw'] k'] & E & Hin). unfold ch_idx in E. cbn [fst] in E. subst idx'.
      destruct (Hall idx w' nw' k' Hin) as [Hn' Hw']. rewrite Hn in Hn'. injection Hn' as <- <-. now subst.
  - intros idx Hi. rewrite Hk in Hi. destruct (active_occ ws idx Hnd Hi) as (o & Hgo & _). now exists f, ws, o.
Qed.

(** * (2) [replace_pair] + [update_stats] preserve the invariant; no error exit *)
Lemma pair_freq_replaced : forall c (p : pair), fst p <> [] -> snd p <> [] ->
  (forall w k, In (w, k) c -> ~ In (merge p) w) -> pair_freq (apply_pair c p) p = 0.
Proof.
  intros c p Hx Hy; induction c as [|[w k] r IH]; intros Hm; cbn [apply_pair map pair_freq fst snd]; [reflexivity|].
  destruct (word_delta_l p w Hx Hy (Hm w k (or_introl eq_refl))) as (_ & _ & _ & H3). rewrite H3.
  unfold apply_pair in IH. rewrite IH; [lia|]. intros w' k' H. apply (Hm w' k'). now right.
Qed.

Lemma update_lit_ok_l : forall c st p, Rep c st -> Fresh c p -> 0 < abs_freq st p ->
  exists chs st', replace_pair_lit c p st = Ok (apply_pair c p, chs) /\
    update_stats_lit st p chs = Ok st' /\ Rep (apply_pair c p) st'.
Proof.
  intros c st p Hrep (Hx & Hy & Hm) Hpos.
  pose proof (abs_freq_pos st p Hpos) as Hne.
  destruct (replace_pair_lit_ok_l c st p Hrep Hne) as (chs & Hrp & Hndc & Hchs & Hhas).
  exists chs. apply Rep_WF in Hrep as (Hwf & Hf & Ho).
  destruct (st_zero_ok st p Hne) as (st0 & Hz & F0 & O0 & H0 & W0).
  assert (HrepX : RepX p c st0).
  { split; [now apply W0|]. split; [rewrite F0; now rewrite pair_eqb_refl|]. split; [intros j; rewrite O0; now rewrite pair_eqb_refl|].
    split.
    - intros q Hq. rewrite F0, (pair_neq_eqb q p Hq). apply Hf.
    - intros q j Hq. rewrite O0, (pair_neq_eqb q p Hq). apply Ho. }
  destruct (changes_ok p chs c st0 Hx Hy HrepX Hndc) as (st' & Hcl & (Hwf' & Hfp' & Hop' & Hf' & Ho')).
  { intros idx w nw k Hin. destruct (proj1 (Hchs idx w nw k) Hin) as (Hn & Hw & _).
    split; [exact Hn|]. split; [exact Hw|]. split; [apply (Hm w k); eapply nth_error_In; exact Hn|].
    apply H0. apply Hhas. apply in_map_iff. exists (idx, w, nw, k). now split. }
  exists st'. split; [exact Hrp|]. split; [unfold update_stats_lit; rewrite Hz; exact Hcl|].
  assert (Hc' : apply_changes c chs = apply_pair c p).
  { unfold replace_pair_lit in Hrp. destruct (st_get st p) as [[f ws]|] eqn:Hg; [|discriminate].
    destruct (WF_entry _ _ _ _ _ Hwf Hg) as [Hnd Hb]. rewrite Forall_forall in Hb.
    destruct (replace_loop_spec p ws c Hnd) as (chs2 & E2 & _).
    { intros idx o H. exact (Hb _ H). }
    rewrite E2 in Hrp. injection Hrp as <- <-. reflexivity. }
  rewrite Hc' in *. apply Rep_WF. split; [exact Hwf'|]. split.
  - intros q. destruct (pair_eqb q p) eqn:E.
    + apply pair_eqb_eq in E. subst q. rewrite Hfp'. symmetry. now apply pair_freq_replaced.
    + apply Hf'. now apply pair_eqb_neq.
  - intros q j. destruct (pair_eqb q p) eqn:E.
    + apply pair_eqb_eq in E. subst q. rewrite Hop'. unfold wcount, apply_pair. rewrite nth_error_map.
      destruct (nth_error c j) as [[w k]|] eqn:En; [|reflexivity]. cbn [option_map fst snd].
      destruct (word_delta_l p w Hx Hy (Hm w k (nth_error_In _ _ En))) as (_ & _ & _ & H3). now rewrite H3.
    + apply Ho'. now apply pair_eqb_neq.
Qed.

(** C20 — the executable statement [check_C20] holds of the model's own output. *)
From TU Require Import Base C12_Model C20_Model C20_Topk C20_Counts C20_SaveLoad C20_Closest C20_Proofs.
From Coq Require Import Lia ZifyBool ZifyNat ZifyN Permutation Sorted QArith.
Open Scope N_scope.
Arguments N.add : simpl never. Arguments N.sub : simpl never. Arguments N.mul : simpl never.
Arguments N.eqb : simpl never. Arguments N.ltb : simpl never. Arguments N.leb : simpl never.
Arguments N.min : simpl never.

(** * val round trips *)
Lemma v_n_n_v : forall x, v_n (n_v x) = x.
Proof. intro x. unfold v_n, n_v, v_z. apply N2Z.id. Qed.
Lemma v_bytes_bytes_v : forall b, v_bytes (bytes_v b) = b.
Proof.
  intro b. unfold v_bytes, bytes_v, list_v, v_list. rewrite map_map.
  rewrite <- (map_id b) at 2. apply map_ext, v_n_n_v.
Qed.
Lemma v_item_item_v : forall e, v_item (item_v e) = e.
Proof. intros [w f]. unfold v_item, item_v. cbn [v_nth nth fst snd]. rewrite v_bytes_bytes_v, v_n_n_v. reflexivity. Qed.
Lemma v_items_items_v : forall d, v_items (items_v d) = d.
Proof.
  intro d. unfold v_items, items_v, list_v, v_list. rewrite map_map.
  rewrite <- (map_id d) at 2. apply map_ext, v_item_item_v.
Qed.
Lemma items_shape_items_v : forall d, items_shape (items_v d) = true.
Proof.
  intro d. unfold items_shape, items_v, list_v. rewrite forallb_forall. intros x Hx.
  apply in_map_iff in Hx as [[w f] [<- _]]. unfold item_v, bytes_v, list_v, n_v. cbn [fst snd]. lia.
Qed.

Lemma entries_eqb_refl : forall l, entries_eqb l l = true.
Proof.
  unfold entries_eqb. induction l as [|x l IH]; cbn [all2b]; [reflexivity|].
  rewrite N.eqb_refl, bytes_eqb_refl, IH. reflexivity.
Qed.

Lemma nodupb_true : forall l, NoDup l -> nodupb l = true.
Proof.
  induction l as [|x t IH]; intro H; cbn [nodupb]; [reflexivity|]. inversion H as [|? ? Hn Hd]; subst.
  rewrite IH by exact Hd. destruct (memb x t) eqn:E; [|reflexivity]. apply memb_in in E. contradiction.
Qed.

Lemma all2b_map : forall A B (f : A -> B -> bool) (g : A -> B) l,
  (forall x, In x l -> f x (g x) = true) -> all2b f l (map g l) = true.
Proof.
  intros A B f g. induction l as [|x l IH]; intro H; cbn [map all2b]; [reflexivity|].
  rewrite (H x (or_introl eq_refl)), IH; [reflexivity|]. intros y Hy. apply H. right. exact Hy.
Qed.

(** * one create result *)
Lemma check_create_ok : forall chars cg max_size max_seq lines arr hp d,
  create chars cg max_size max_seq lines arr hp = Ok d ->
  check_create (all_tokens chars cg max_seq lines) max_size (cres_v (Ok d)) = true.
Proof.
  intros chars cg max_size max_seq lines arr hp d Hc.
  set (toks := all_tokens chars cg max_seq lines).
  unfold cres_v, check_create. rewrite v_items_items_v, items_shape_items_v.
  rewrite (nodupb_true (map fst d) (create_nodup _ _ _ _ _ _ _ _ Hc)).
  assert (H1 : forallb (fun e : word * N => (snd e =? count_tok (fst e) toks) && (0 <? snd e)) d = true).
  { rewrite forallb_forall. intros [w f] Hin. cbn [fst snd].
    destruct (create_counts _ _ _ _ _ _ _ _ Hc w f Hin) as [E P]. fold toks in E. lia. }
  rewrite H1.
  assert (H2 : (N.of_nat (length d) =? match max_size with
                                      | Some k => N.min k (N.of_nat (length (dedup toks)))
                                      | None => N.of_nat (length (dedup toks))
                                      end) = true).
  { pose proof (create_length _ _ _ _ _ _ _ _ Hc) as L. fold toks in L. unfold cap_len in L.
    destruct max_size; lia. }
  rewrite H2.
  assert (H3 : forallb (fun w => memb w (map fst d)
                                 || forallb (fun e : word * N => count_tok w toks <=? snd e) d) (dedup toks) = true).
  { rewrite forallb_forall. intros w Hw. apply (proj1 (dedup_in _ _)) in Hw.
    destruct (memb w (map fst d)) eqn:E; [reflexivity|]. cbn [orb]. rewrite forallb_forall. intros [w' f'] Hin.
    cbn [snd]. assert (Hn : ~ In w (keys d)) by (intro Hk; apply memb_in in Hk; unfold keys in Hk; congruence).
    destruct (create_omitted _ _ _ _ _ _ _ _ Hc w Hw Hn w' f' Hin) as [_ L]. fold toks in L. lia. }
  rewrite H3. unfold n_v. rewrite N2Z.id, N.eqb_refl. cbn [andb]. lia.
Qed.

(** * reload *)
Lemma sorted_d_perm : forall d, Permutation (sorted_d d) d.
Proof.
  intro d. unfold sorted_d. eapply perm_trans; [apply Permutation_map, isort_perm|].
  rewrite map_swap_e_d. apply Permutation_refl.
Qed.
Lemma same_dict_perm : forall a b, Permutation a b -> same_dict a b = true.
Proof.
  intros a b P. unfold same_dict. rewrite (isort_perm_eq (map swap_d a) (map swap_d b)).
  - apply entries_eqb_refl.
  - apply Permutation_map, P.
Qed.
Lemma freq_sum_perm : forall a b, Permutation a b -> freq_sum a = freq_sum b.
Proof. intros a b P. unfold freq_sum. apply sumN_perm, Permutation_map, P. Qed.

Lemma v_lres_lres_v : forall d, v_lres (lres_v (Some d)) = Some (d, Z.of_N (freq_sum d)).
Proof.
  intro d. unfold lres_v, opt_v, v_lres, n_v. rewrite items_shape_items_v, v_items_items_v. reflexivity.
Qed.

Lemma reload_ok : forall d fsz, NoDup (keys d) ->
  fsz = Z.of_N (freq_sum d) ->
  (if forallb key_ok (map fst d) && forallb (fun e : word * N => snd e <=? usize_max) d
   then match v_lres (lres_v (option_map sorted_d (load (save d)))) with
        | Some (d', fs') => same_dict d d' && (fsz =? fs')%Z
        | None => false
        end
   else true) = true.
Proof.
  intros d fsz Hn ->. destruct (forallb key_ok (map fst d) && forallb (fun e : word * N => snd e <=? usize_max) d) eqn:E;
    [|reflexivity].
  apply andb_true_iff in E as [E1 E2].
  assert (Hok : dict_ok d).
  { split; [exact Hn|]. split; apply Forall_forall; intros e He.
    - rewrite forallb_forall in E1. apply E1. apply in_map. exact He.
    - rewrite forallb_forall in E2. specialize (E2 e He). lia. }
  destruct (save_load_l d Hok) as [EL P]. rewrite EL. cbn [option_map]. rewrite v_lres_lres_v.
  assert (P' : Permutation d (sorted_d (sort_desc d))).
  { apply Permutation_sym. eapply perm_trans; [apply sorted_d_perm|exact P]. }
  rewrite (same_dict_perm _ _ P'), (freq_sum_perm _ _ P'). cbn [andb]. apply Z.eqb_refl.
Qed.

(** * answers *)
Lemma check_closest_ok : forall segs d q, covered segs d ->
  check_closest segs d q (answer_v segs d q) = true.
Proof.
  intros segs d [norm [nq qc]] C. unfold answer_v, check_closest. cbn [fst snd].
  destruct (closest_spec_l norm segs qc d) as [S0 S1].
  destruct d as [|e0 d0].
  - rewrite S0 by reflexivity. reflexivity.
  - set (d := e0 :: d0) in *. rewrite (with_dists_covered norm segs qc d C).
    destruct (S1 ltac:(discriminate) C) as [e [Ec [Hin Hall]]]. rewrite Ec.
    destruct e as [w f]. unfold closest_v, item_v. cbn [fst snd]. unfold n_v.
    rewrite v_bytes_bytes_v, N2Z.id.
    set (l := map (fun e => (kdist norm segs qc e, e)) d).
    destruct (find (fun p : Q * (word * N) => bytes_eqb (fst (snd p)) w && (snd (snd p) =? f)) l) as [[dw e']|] eqn:F.
    + apply find_some in F as [F1 F2]. cbn [fst snd] in F2. apply andb_true_iff in F2 as [F2 F3].
      apply bytes_eqb_eq in F2. assert (snd e' = f) by lia. destruct e' as [w' f']. cbn [fst snd] in *. subst w' f'.
      unfold l in F1. apply in_map_iff in F1 as [e1 [E1 _]]. injection E1 as Edw ->.
      rewrite forallb_forall. intros [dp ep] Hp. cbn [fst snd].
      unfold l in Hp. apply in_map_iff in Hp as [e2 [E2 Hin2]]. injection E2 as <- <-.
      destruct (Hall e2 Hin2) as [L1 L2]. rewrite <- Edw.
      replace (Qle_bool (kdist norm segs qc (w, f)) (kdist norm segs qc e2)) with true
        by (symmetry; apply Qle_bool_iff; exact L1).
      cbn [andb]. destruct (Qeq_bool (kdist norm segs qc e2) (kdist norm segs qc (w, f))) eqn:Q; [|reflexivity].
      apply Qeq_bool_iff in Q. specialize (L2 Q). cbn [snd] in L2. lia.
    + exfalso.
      assert (Hl : In (kdist norm segs qc (w, f), (w, f)) l)
        by (unfold l; apply in_map_iff; exists (w, f); split; [reflexivity|exact Hin]).
      pose proof (find_none _ _ F _ Hl) as F'. cbn [fst snd] in F'.
      rewrite bytes_eqb_refl, N.eqb_refl in F'. discriminate.
Qed.

Lemma segs_cover_covered : forall v d, segs_cover v = true -> load (in_dfile v) = Some d ->
  covered (in_segs v) (sorted_d d).
Proof.
  intros v d H E. unfold segs_cover in H. rewrite E in H. rewrite forallb_forall in H.
  intros e He. eapply Permutation_in in He; [|apply sorted_d_perm]. specialize (H e He).
  destruct (seg_of (in_segs v) (fst e)); [discriminate|discriminate H].
Qed.

(** * the whole check *)
Lemma check_C20_eq : forall v creates reload loaded answers,
  check_C20 v (L [L creates; reload; loaded; L answers]) =
    (let bad := cfg_bad (in_chars v) (in_cg v) in
     let toks := all_tokens (in_chars v) (in_cg v) (in_max_seq v) (in_lines v) in
     Nat.eqb (length creates) (length (in_threads v))
     && (if bad then true else forallb (check_create toks (in_max_size v)) creates)
     && (if bad then true else
         match creates, reload with
         | [], L [] => true
         | L [I 0%Z; items; I fs] :: _, L [L _; lr] =>
           let d := v_items items in
           if forallb key_ok (map fst d) && forallb (fun e : word * N => snd e <=? usize_max) d then
             match v_lres lr with
             | Some (d', fs') => same_dict d d' && (fs =? fs')%Z
             | None => false
             end
           else true
         | _, _ => false
         end)
     && match loaded with
        | L [] => match answers with [] => true | _ => false end
        | _ => match v_lres loaded with
               | Some (d, _) => all2b (check_closest (in_segs v) d) (in_queries v) answers
               | None => false
               end
        end).
Proof. reflexivity. Qed.

Lemma check_run_l : forall v, segs_cover v = true -> check_C20 v (run_C20 v) = true.
Proof.
  intros v Hs. unfold run_C20.
  set (r := model_create v).
  set (ld := option_map sorted_d (load (in_dfile v))).
  assert (Hans : exists answers,
            match ld with Some d => list_v (answer_v (in_segs v) d) (in_queries v) | None => L [] end = L answers
            /\ match lres_v ld with
               | L [] => match answers with [] => true | _ => false end
               | _ => match v_lres (lres_v ld) with
                      | Some (d, _) => all2b (check_closest (in_segs v) d) (in_queries v) answers
                      | None => false
                      end
               end = true).
  { unfold ld. destruct (load (in_dfile v)) as [d0|] eqn:EL; cbn [option_map].
    - exists (map (answer_v (in_segs v) (sorted_d d0)) (in_queries v)). split; [reflexivity|].
      rewrite v_lres_lres_v. unfold lres_v, opt_v. apply all2b_map. intros q _.
      apply check_closest_ok. apply segs_cover_covered; assumption.
    - exists []. split; reflexivity. }
  destruct Hans as [answers [Ea Hc]]. rewrite Ea. unfold list_v at 1. rewrite check_C20_eq. cbv zeta.
  rewrite map_length, Nat.eqb_refl. cbn [andb]. rewrite Hc, andb_true_r.
  destruct (cfg_bad (in_chars v) (in_cg v)) eqn:Hb; [reflexivity|].
  assert (Hr : exists d, r = Ok d).
  { unfold r, model_create. rewrite create_ok by exact Hb. eexists. reflexivity. }
  destruct Hr as [d Hr]. rewrite Hr.
  assert (Hcreate : create (in_chars v) (in_cg v) (in_max_size v) (in_max_seq v) (in_lines v) (in_arr v) (in_hp v) = Ok d)
    by exact Hr.
  apply andb_true_iff. split.
  - rewrite forallb_forall. intros x Hx. apply in_map_iff in Hx as [t [<- _]].
    eapply check_create_ok. exact Hcreate.
  - destruct (in_threads v) as [|t ts]; [reflexivity|]. cbn [map].
    unfold cres_v, reload_v. unfold bytes_v at 1. unfold list_v at 1.
    rewrite v_items_items_v. apply reload_ok.
    + eapply create_nodup. exact Hcreate.
    + reflexivity.
Qed.

(** * soundness of the executable statement: a [true] verdict means the property, as a Prop *)
Lemma nodupb_sound : forall l, nodupb l = true -> NoDup l.
Proof.
  induction l as [|x t IH]; intro H; [constructor|]. cbn [nodupb] in H. apply andb_true_iff in H as [H1 H2].
  constructor; [|apply IH, H2]. intro Hin. apply memb_in in Hin. rewrite Hin in H1. discriminate.
Qed.

Lemma check_create_sound_l : forall toks max_size items fs,
  check_create toks max_size (L [I 0%Z; items; I fs]) = true ->
  let d := v_items items in
  NoDup (map fst d)
  /\ (forall w f, In (w, f) d -> f = count_tok w toks /\ 0 < f)
  /\ N.of_nat (length d) = cap_len max_size (length (dedup toks))
  /\ (forall w, In w toks -> ~ In w (map fst d) -> forall w' f', In (w', f') d -> count_tok w toks <= f')
  /\ (0 <= fs)%Z /\ Z.to_N fs = freq_sum d.
Proof.
  intros toks max_size items fs H d. unfold check_create in H. fold d in H.
  repeat (apply andb_true_iff in H; destruct H as [H ?]).
  rename H0 into Hfs2, H1 into Hfs1, H2 into Hom, H3 into Hlen, H4 into Hcnt, H5 into Hnd.
  split; [apply nodupb_sound, Hnd|]. split; [|split; [|split; [|split]]].
  - intros w f Hin. rewrite forallb_forall in Hcnt. specialize (Hcnt _ Hin). cbn [fst snd] in Hcnt. lia.
  - unfold cap_len. destruct max_size; lia.
  - intros w Hw Hn w' f' Hin. rewrite forallb_forall in Hom.
    assert (Hd : In w (dedup toks)) by (apply dedup_in; exact Hw).
    specialize (Hom _ Hd). apply orb_true_iff in Hom as [Hom|Hom].
    + apply memb_in in Hom. contradiction.
    + rewrite forallb_forall in Hom. specialize (Hom _ Hin). cbn [snd] in Hom. lia.
  - lia.
  - lia.
Qed.

Lemma with_dists_some : forall norm segs q d l, with_dists norm segs q d = Some l -> covered segs d.
Proof.
  intros norm segs q. induction d as [|e d IH]; intros l H e' He'; [destruct He'|].
  cbn [with_dists] in H. destruct (seg_of segs (fst e)) as [s|] eqn:E; [|discriminate].
  destruct (with_dists norm segs q d) as [l'|] eqn:E2; [|discriminate].
  destruct He' as [<-|He']; [congruence|]. eapply IH; [reflexivity|exact He'].
Qed.

Lemma check_closest_sound_l : forall segs (d : dict) norm nq qc a,
  check_closest segs d (norm, (nq, qc)) a = true ->
  (d = [] -> exists g, a = L [g; L []]) /\
  (d <> [] ->
   covered segs d /\
   exists g wv fz, a = L [g; L [L [wv; I fz]]] /\
     In (v_bytes wv, Z.to_N fz) d /\
     forall e', In e' d ->
       (kdist norm segs qc (v_bytes wv, Z.to_N fz) <= kdist norm segs qc e')%Q /\
       ((kdist norm segs qc e' == kdist norm segs qc (v_bytes wv, Z.to_N fz))%Q -> snd e' <= Z.to_N fz)).
Proof.
  intros segs d norm nq qc a H. unfold check_closest in H. cbn [fst snd] in H. split.
  - intros ->.
    destruct a as [z|[|g [|[z|[|x lx]] [|y ly]]]]; try discriminate H. exists g. reflexivity.
  - intro Hne. destruct d as [|e0 d0]; [congruence|]. cbv beta iota in H. set (d := e0 :: d0) in *.
    destruct (with_dists norm segs qc d) as [l|] eqn:W; [|discriminate].
    pose proof (with_dists_some _ _ _ _ _ W) as C. split; [exact C|].
    rewrite (with_dists_covered norm segs qc d C) in W. injection W as <-.
    destruct a as [z|[|g [|[z|[|[z|[|wv [|[fz|lf] [|y3 l3]]]] [|y2 l2]]] [|y1 l1]]]]; try discriminate H.
    exists g, wv, fz. split; [reflexivity|].
    set (w := v_bytes wv) in *. set (f := Z.to_N fz) in *.
    set (l := map (fun e => (kdist norm segs qc e, e)) d) in *.
    change ((kdist norm segs qc e0, e0) :: map (fun e : word * N => (kdist norm segs qc e, e)) d0) with l in H.
    destruct (find (fun p : Q * (word * N) => bytes_eqb (fst (snd p)) w && (snd (snd p) =? f)) l) as [[dw e']|] eqn:F;
      [|discriminate].
    apply find_some in F as [F1 F2]. cbn [fst snd] in F2. apply andb_true_iff in F2 as [F2 F3].
    apply bytes_eqb_eq in F2. assert (F4 : snd e' = f) by lia. destruct e' as [w' f']. cbn [fst snd] in *. subst w' f'.
    unfold l in F1. apply in_map_iff in F1 as [e1 [E1 Hin1]]. injection E1 as Edw ->.
    split; [exact Hin1|]. intros e2 Hin2. rewrite forallb_forall in H.
    assert (Hl2 : In (kdist norm segs qc e2, e2) l) by (unfold l; apply in_map_iff; exists e2; auto).
    specialize (H _ Hl2). cbn [fst snd] in H. apply andb_true_iff in H as [H1 H2]. rewrite <- Edw in *.
    apply Qle_bool_iff in H1. split; [exact H1|]. intro Q. apply Qeq_bool_iff in Q.
    match type of H2 with (if ?c then _ else _) = true => replace c with true in H2 by (symmetry; exact Q) end. lia.
Qed.

(** C13 float model: the binary64 arithmetic of src/metrics.rs, bit for bit.
    [f64] is Flocq's [binary_float 53 1024] (one NaN; signed zeros and infinities);
    every operation is IEEE-754 round-to-nearest-even ([mode_NE]) computed on [Z]/[positive]
    (Flocq [Bplus]/[Bmult]/[Bdiv]/[binary_normalize]); nothing executable depends on [R].

    What is modelled (names of the code in brackets):
    - [usize as f64]                      [of_Z]: correctly rounded conversion (exact below 2^53)
    - [_f1]                               [f1_fl] (the REPAIRED expression, /repo fix d11),
                                          [f1_fl_pinned] (the expression before the repair)
    - [TpFpFn::micro_f1]                  [micro_f1_fl]: usize sums of the counts, one [_f1]
    - [TpFpFn::sequence_averaged_f1]      [seq_avg_f1_fl]: left fold of f64 additions from 0.0,
                                          (1,1,1) for an "empty" sequence, division by max(n,1) as f64
    - [binary_f1], [accuracy]             counts as in C13_Model, then [_f1] / one division
    - [edit::distance] (f64 result)       [dist_fl]: d as f64 / norm (norm = 1.0 when not normalised)
    - [_mean_edit_distance]               [mean_ed_fl]: rayon's [sum::<f64>()] = balanced split at len/2
                                          down to single items, [add(l, r) = (Z + l) + r] with
                                          Z = [iter::empty::<f64>().sum()] = -0.0, then / max(n,1) as f64
    Floats cross the val protocol as 4-lists [(k s m e)]: k = 0 zero, 1 finite non-zero with the
    canonical 53-bit (or subnormal) mantissa m and exponent e (value m * 2^e), 2 infinity, 3 NaN;
    s = 1 for negative.  This is [f64::to_bits] field by field, so equality of values is equality of bits
    (NaN payloads are not distinguished).
    Definitions only. *)
From Coq Require Import ZArith List Bool QArith.
From Flocq Require Import Core IEEE754.BinarySingleNaN.
From TU Require Import Base C13_Model.
From TU Require C12_Model.
Import ListNotations.
Open Scope Z_scope.

Definition prec : Z := 53.
Definition emax : Z := 1024.
Definition Hprec : Prec_gt_0 prec := eq_refl.
Definition Hmax : Prec_lt_emax prec emax := eq_refl.
Definition f64 : Type := binary_float prec emax.

Definition fadd : f64 -> f64 -> f64 := @Bplus prec emax Hprec Hmax mode_NE.
Definition fmul : f64 -> f64 -> f64 := @Bmult prec emax Hprec Hmax mode_NE.
Definition fdiv : f64 -> f64 -> f64 := @Bdiv prec emax Hprec Hmax mode_NE.
(** [n as f64] for an unsigned integer: round to nearest even *)
Definition of_Z (z : Z) : f64 := binary_normalize prec emax Hprec Hmax mode_NE z 0 false.
Definition of_nat (n : nat) : f64 := of_Z (Z.of_nat n).
Definition f_zero : f64 := B754_zero false.
Definition f_nzero : f64 := B754_zero true.
Definition f_one : f64 := of_Z 1.
(** [x > 0.0] (false for NaN) *)
Definition fgt0 (x : f64) : bool := Bltb f_zero x.
(** [x <= 1.0], [0.0 <= x] (false for NaN) *)
Definition fle1 (x : f64) : bool := Bleb x f_one.
Definition fge0 (x : f64) : bool := Bleb f_zero x.

(** * [_f1] *)
Definition fpr_fl : Type := (f64 * f64 * f64)%type.

(** [a as f64 / b.max(1) as f64] *)
Definition ratio_fl (a b : Z) : f64 := fdiv (of_Z a) (of_Z (Z.max b 1)).

(** the repaired quotient: [(beta_sq * precision * recall + precision * recall) / (beta_sq * precision + recall)] *)
Definition fbeta_fixed (b2 p r : f64) : f64 :=
  fdiv (fadd (fmul (fmul b2 p) r) (fmul p r)) (fadd (fmul b2 p) r).
(** the quotient before the repair: [((1.0 + beta_sq) * precision * recall) / (beta_sq * precision + recall)] *)
Definition fbeta_pinned (b2 p r : f64) : f64 :=
  fdiv (fmul (fmul (fadd f_one b2) p) r) (fadd (fmul b2 p) r).

Definition f1_gen (quot : f64 -> f64 -> f64 -> f64) (beta : f64) (tp fp fn : Z) : fpr_fl :=
  let p := ratio_fl tp (tp + fp) in
  let r := ratio_fl tp (tp + fn) in
  let f := if fgt0 (fadd p r) then quot (fmul beta beta) p r else f_zero in
  (f, p, r).
Definition f1_fl_z : f64 -> Z -> Z -> Z -> fpr_fl := f1_gen fbeta_fixed.
Definition f1_fl_pinned_z : f64 -> Z -> Z -> Z -> fpr_fl := f1_gen fbeta_pinned.
Definition f1_fl (beta : f64) (tp fp fn : nat) : fpr_fl :=
  f1_fl_z beta (Z.of_nat tp) (Z.of_nat fp) (Z.of_nat fn).
Definition f1_fl_pinned (beta : f64) (tp fp fn : nat) : fpr_fl :=
  f1_fl_pinned_z beta (Z.of_nat tp) (Z.of_nat fp) (Z.of_nat fn).

(** * aggregation *)
Definition micro_f1_fl (beta : f64) (vals : list counts) : fpr_fl :=
  match fold_left (fun acc v => match acc, v with (a, b, c), (_, tp, fp, fn) => (a + tp, b + fp, c + fn)%nat end)
                  vals (0, 0, 0)%nat with
  | (tps, fps, fns) => f1_fl beta tps fps fns
  end.

Definition fpr_fadd (x y : fpr_fl) : fpr_fl :=
  match x, y with (a, b, c), (a', b', c') => (fadd a a', fadd b b', fadd c c') end.
Definition seq_one_fl (beta : f64) (v : counts) : fpr_fl :=
  match v with (e, tp, fp, fn) => if e then (f_one, f_one, f_one) else f1_fl beta tp fp fn end.
Definition seq_avg_f1_fl (beta : f64) (vals : list counts) : fpr_fl :=
  match fold_left (fun acc v => fpr_fadd acc (seq_one_fl beta v)) vals (f_zero, f_zero, f_zero) with
  | (f, p, r) =>
    let n := of_nat (Nat.max (length vals) 1) in
    (fdiv f n, fdiv p n, fdiv r n)
  end.
Definition aggregate_fl (seq_avg : bool) (beta : f64) (vals : list counts) : fpr_fl :=
  if seq_avg then seq_avg_f1_fl beta vals else micro_f1_fl beta vals.

(** * binary_f1, accuracy *)
Definition binary_f1_fl (beta : f64) (p t : list bool) : option fpr_fl :=
  if Nat.eqb (length p) (length t)
  then match count_tp_fp_fn p t (0, 0, 0)%nat with (tp, fp, fn) => Some (f1_fl beta tp fp fn) end
  else None.
Definition accuracy_fl (p t : list Z) : option f64 :=
  if Nat.eqb (length p) (length t)
  then Some (ratio_fl (Z.of_nat (count_eq p t)) (Z.of_nat (length p))) else None.

(** * mean (normalised) edit distance *)
(** [edit::distance]'s f64: [d as f64 / norm]; the model's rational is the unreduced [d # norm] *)
Definition dist_fl (q : Q) : f64 := fdiv (of_Z (Qnum q)) (of_Z (Zpos (Qden q))).
(** rayon [add]: [[left, right].into_iter().sum()] = fold from [iter::empty().sum()] = -0.0 *)
Definition sum2 (l r : f64) : f64 := fadd (fadd f_nzero l) r.
(** a leaf of the split tree: [SumFolder { sum: -0.0 }.consume_iter(items)] *)
Definition leaf_sum (l : list f64) : f64 := sum2 f_nzero (fold_left fadd l f_nzero).
(** [bridge_producer_consumer]: split at len/2 while len/2 >= 1 (thread budget permitting: exact for
    n <= 2 * #threads rounded down to a power of two, see notes); fuel = length *)
Fixpoint tree_sum (fuel : nat) (l : list f64) : f64 :=
  match fuel with
  | O => leaf_sum l
  | S f =>
    let k := Nat.div2 (length l) in
    match k with
    | O => leaf_sum l
    | S _ => sum2 (tree_sum f (firstn k l)) (tree_sum f (skipn k l))
    end
  end.
Definition mean_ed_fl (normalized : bool) (s t : list (list cluster)) : option f64 :=
  if Nat.eqb (length s) (length t)
  then let ds := map (fun p => dist_fl (C12_Model.distance ed_flags normalized (fst p) (snd p))) (C12_Model.zip s t) in
       Some (fdiv (tree_sum (length ds) ds) (of_nat (Nat.max (length s) 1)))
  else None.

(** * whitespace / spelling F1: [_correction_f1] with the float aggregation *)
Definition ws_f1_fl (beta : f64) (seq_avg : bool) (m : wmode) (inputs preds targets : list (list cluster))
  : outcome (fpr_fl * list winfo) :=
  if same3 inputs preds targets then
    match collect (map (fun x => match x with (i, p, t) => ws_tp_fp_fn m i p t end) (zip3 inputs preds targets)) with
    | Ok vals => Ok (aggregate_fl seq_avg beta (map fst vals), map snd vals)
    | Err => Err
    | Panic => Panic
    end
  else Err.
Definition sp_f1_fl (beta : f64) (seq_avg : bool) (inputs preds targets : list (list cluster)) : outcome fpr_fl :=
  if same3 inputs preds targets then
    match collect (map (fun x => match x with (i, p, t) => Some (sp_tp_fp_fn i p t) end) (zip3 inputs preds targets)) with
    | Ok vals => Ok (aggregate_fl seq_avg beta vals)
    | Err => Err
    | Panic => Panic
    end
  else Err.

(** * val glue *)
(** a float from its fields; anything that is not a canonical encoding is NaN *)
Definition mk_fl (s : bool) (m : positive) (e : Z) : f64 :=
  match SpecFloat.bounded prec emax m e as b return SpecFloat.bounded prec emax m e = b -> f64 with
  | true => fun H => B754_finite s m e H
  | false => fun _ => B754_nan
  end eq_refl.
Definition v_fl (v : val) : f64 :=
  match v with
  | L [I 0; I s; I _; I _] => B754_zero (negb (Z.eqb s 0))
  | L [I 1; I s; I (Zpos m); I e] => mk_fl (negb (Z.eqb s 0)) m e
  | L [I 2; I s; I _; I _] => B754_infinity (negb (Z.eqb s 0))
  | _ => B754_nan
  end.
Definition sgn_v (s : bool) : val := I (if s then 1 else 0).
Definition fl_v (x : f64) : val :=
  match x with
  | B754_zero s => L [I 0; sgn_v s; I 0; I 0]
  | B754_finite s m e _ => L [I 1; sgn_v s; I (Zpos m); I e]
  | B754_infinity s => L [I 2; sgn_v s; I 0; I 0]
  | B754_nan => L [I 3; I 0; I 0; I 0]
  end.
Definition fpr_fl_v (x : fpr_fl) : val := match x with (f, p, r) => L [fl_v f; fl_v p; fl_v r] end.

(** beta: either float fields (4-list) or, for the older corpus files, a rational [(num den)]
    meaning [num as f64 / den as f64] *)
Definition v_beta_fl (v : val) : f64 :=
  match v with
  | L [I n; I d] => fdiv (of_Z n) (of_Z d)
  | _ => v_fl v
  end.

(** the float model on an input of [run_C13]'s format; same output shape with every number as float fields *)
Definition run_C13F (v : val) : val :=
  let cfg := v_nth 1 v in
  let d := v_nth 2 v in
  match v_z (v_nth 0 v) with
  | 0 => opt_out fpr_fl_v (binary_f1_fl (v_beta_fl (v_nth 0 cfg)) (v_list v_bool (v_nth 0 d)) (v_list v_bool (v_nth 1 d)))
  | 1 => opt_out fl_v (accuracy_fl (v_list v_z (v_nth 0 d)) (v_list v_z (v_nth 1 d)))
  | 2 => opt_out fl_v (mean_ed_fl (v_bool (v_nth 0 cfg)) (v_cll (v_nth 0 d)) (v_cll (v_nth 1 d)))
  | 3 => outcome_out (fun x => L [fpr_fl_v (fst x); list_v winfo_v (snd x)])
           (ws_f1_fl (v_beta_fl (v_nth 0 cfg)) (v_bool (v_nth 1 cfg)) (v_mode (v_nth 2 cfg))
                     (v_cll (v_nth 0 d)) (v_cll (v_nth 1 d)) (v_cll (v_nth 2 d)))
  | 4 => outcome_out fpr_fl_v
           (sp_f1_fl (v_beta_fl (v_nth 0 cfg)) (v_bool (v_nth 1 cfg))
                     (v_cll (v_nth 0 d)) (v_cll (v_nth 1 d)) (v_cll (v_nth 2 d)))
  | _ => panic_v
  end.

(** ** from float fields to the exact number [(m e 1)] = m * 2^e that [check_C13]/[agree_C13] read;
       a non-finite float becomes [()] (no number: every range and closeness test is false) *)
Definition num_of_fl_v (x : val) : val :=
  match x with
  | L [I 0; I _; I _; I _] => L [I 0; I 0; I 1]
  | L [I 1; I s; I m; I e] => L [I (if Z.eqb s 0 then m else - m); I e; I 1]
  | _ => L []
  end.
Definition num3_of_fl_v (x : val) : val :=
  match x with L [a; b; c] => L [num_of_fl_v a; num_of_fl_v b; num_of_fl_v c] | _ => x end.
Definition conv_out (v out : val) : val :=
  match out with
  | L [I 0; x] =>
    L [I 0; match v_z (v_nth 0 v) with
            | 0 | 4 => num3_of_fl_v x
            | 1 | 2 => num_of_fl_v x
            | 3 => match x with L [f; infos] => L [num3_of_fl_v f; infos] | _ => x end
            | _ => x
            end]
  | _ => out
  end.

(** The executable statement on an implementation output whose numbers are float fields: the
    range clauses of [check_C13] are decided on the EXACT value of the returned binary64
    (F <= 1 means the float is <= 1.0), NaN/infinity fail them. *)
Definition check_C13F (v out : val) : bool := check_C13 v (conv_out v out).
(** Correspondence: bit-for-bit equality with the float model and, second line of defence,
    closeness (2^-40) to the rational model. *)
Definition agree_C13F (v m out : val) : bool :=
  val_eqb m out && agree_C13 v (run_C13 v) (conv_out v out).

(** * The float model on the RAW texts ([C13_Model.rawify]: the [data] field recomputed by the model's own
    clean + NFKC + segmentation). [agree] demands in addition that this recomputed field IS the oracle
    field ([prep_agree]) and that the harness' per-text flags (kf3_free, class) are the model's ([kf_agree]). *)
Definition run_C13FN (v : val) : val := run_C13F (rawify v).

(** rayon's [sum::<f64>()] in [_mean_edit_distance] is the balanced split tree of [tree_sum] only while the
    split budget lasts (<= 32 sequences with the 16 threads the harness pins); for longer lists the tree
    depends on work stealing, so the returned bits are not a function of the input. Those cases are judged
    by the rational model alone (relative 2^-40); every other f64 of every other case stays bit for bit. *)
Definition long_mean (v : val) : bool :=
  match v_z (v_nth 0 v) with
  | 2 => Nat.ltb 32 (length (v_cll (v_nth 0 (v_nth 2 v))))
  | _ => false
  end.
Definition check_C13FN (v out : val) : bool := check_C13_fast v (conv_out v out).
Definition agree_C13FN (v m out : val) : bool :=
  prep_agree v && kf_agree v
  && (if long_mean v then true else val_eqb m out)
  && agree_C13 v (run_C13_fast v) (conv_out v out).

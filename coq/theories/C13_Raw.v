(** C13 on the RAW texts: the spelling theorems with the premise "the prepared text is clean" replaced
    by the decidable condition [kf3_free] on the raw text (C13_NFKC.v), and the executable statement
    on raw-built inputs. *)
From Coq Require Import QArith Lia.
From TU Require Import Base C13_Model C13_Walk C13_F1 C13_Ws C13_Sp C13_Proofs.
From TU Require C10_Model C11_Model C12_Model C18_Model C11_UAX29 C13_NFKC.
Open Scope nat_scope.

(** the texts of a call, prepared and segmented by the model *)
Definition texts (g : bool) (l : list str) : list (list cluster) := map (text_of g) l.

Lemma texts_clean g l : forallb (kf3_free g) l = true -> forallb clean_text (texts g l) = true.
Proof.
  intros H. unfold texts. rewrite forallb_forall in *. intros x Hx. apply in_map_iff in Hx as (s & <- & Hs).
  apply C13_NFKC.kf3_free_clean_text, H, Hs.
Qed.

(** * the word walk *)
Lemma group_walk_ok_n_l g i p ops mp :
  kf3_free g i = true -> kf3_free g p = true ->
  text_of g i <> [] -> text_of g p <> [] ->
  C12_Model.script_ok sp_flags ops (text_of g i) (text_of g p) = true ->
  exists mg ins pp correct,
    attribute (C11_Model.word_boundaries (text_of g i)) (text_of g i) (text_of g p) ops = Some (mg, ins)
    /\ walk (S (length (C11_Model.word_boundaries (text_of g i)))) (length (C11_Model.word_boundaries (text_of g i)))
            mg ins mp 0 0 [] = Some (length (C11_Model.word_boundaries (text_of g i)), pp, correct)
    /\ pp = length (C11_Model.word_boundaries (text_of g p))
    /\ ((forall x, x < pp -> mem_nat x mp = true) ->
        forall w, w < length (C11_Model.word_boundaries (text_of g i)) -> In w correct).
Proof.
  intros Hi Hp Ni Np Hs.
  apply C13_NFKC.kf3_free_clean_text in Hi, Hp. apply clean_text_parts in Hi as [Hi _]. apply clean_text_parts in Hp as [Hp _].
  exact (group_walk_ok_l _ _ ops mp Hi Hp Ni Np Hs).
Qed.

(** * totality and range, rational level *)
Lemma sp_collect inputs preds targets :
  forallb clean_text inputs = true -> forallb clean_text preds = true ->
  exists vals,
    collect (map (fun x => match x with (i, p, t) => Some (sp_tp_fp_fn i p t) end) (zip3 inputs preds targets)) = Ok vals
    /\ Forall2 (fun x c => match x with (i, p, t) => sp_tp_fp_fn i p t = Some c end) (zip3 inputs preds targets) vals.
Proof.
  intros Hci Hcp.
  destruct (collect_ok (map (fun x => match x with (i, p, t) => Some (sp_tp_fp_fn i p t) end)
                            (zip3 inputs preds targets))) as (vals & E & F).
  { intros x Hx. apply in_map_iff in Hx as ([[i p] t] & <- & Hin). apply zip3_in in Hin as (Hi & Hp & _).
    rewrite forallb_forall in Hci, Hcp.
    destruct (sp_total_l i p t (Hci i Hi) (Hcp p Hp)) as [c ->]. eauto. }
  exists vals. split; [exact E|]. apply Forall2_map_l in F.
  clear -F. induction F as [|[[i p] t] c l vals H _ IH]; constructor; [|exact IH].
  cbv beta in H. now injection H.
Qed.

Lemma spelling_total_n_l beta sa g inputs preds targets :
  forallb (kf3_free g) inputs = true -> forallb (kf3_free g) preds = true ->
  sp_f1 beta sa (texts g inputs) (texts g preds) (texts g targets) <> Panic
  /\ if same3 inputs preds targets
     then exists vals,
            sp_f1 beta sa (texts g inputs) (texts g preds) (texts g targets) = Ok (aggregate sa beta vals)
            /\ Forall2 (fun x c => match x with (i, p, t) => sp_tp_fp_fn i p t = Some c end)
                       (zip3 (texts g inputs) (texts g preds) (texts g targets)) vals
            /\ fpr01 (aggregate sa beta vals)
     else sp_f1 beta sa (texts g inputs) (texts g preds) (texts g targets) = Err.
Proof.
  intros Hi Hp. pose proof (texts_clean g inputs Hi) as Ci. pose proof (texts_clean g preds Hp) as Cp.
  pose proof (sp_f1_total_l beta sa _ _ (texts g targets) Ci Cp) as T.
  assert (S : same3 (texts g inputs) (texts g preds) (texts g targets) = same3 inputs preds targets).
  { unfold same3, texts. rewrite !map_length. reflexivity. }
  rewrite S in T. destruct (same3 inputs preds targets).
  - destruct T as (vals & E & F). split; [rewrite E; discriminate|].
    exists vals. split; [exact E|]. split; [exact F|apply aggregate_range_l].
  - split; [rewrite T; discriminate|exact T].
Qed.

(** * calibration on raw texts *)
Lemma sp_pred_eq_target_n_l g i p t e tp fp fn :
  kf3_free g i = true -> kf3_free g p = true -> prep p = prep t ->
  sp_tp_fp_fn (text_of g i) (text_of g p) (text_of g t) = Some (e, tp, fp, fn) -> fp = 0 /\ fn = 0.
Proof.
  intros Hi Hp E H. unfold text_of in H. rewrite <- E in H.
  apply (sp_pred_eq_target_l (text_of g i) (text_of g p) e tp fp fn);
    [apply C13_NFKC.kf3_free_clean_text, Hi|apply C13_NFKC.kf3_free_clean_text, Hp|exact H].
Qed.

Lemma sp_unchanged_n_l g i p t e tp fp fn :
  prep p = prep i ->
  sp_tp_fp_fn (text_of g i) (text_of g p) (text_of g t) = Some (e, tp, fp, fn) -> tp = 0.
Proof.
  intros E H. unfold text_of in H. rewrite E in H. exact (sp_unchanged_l _ _ e tp fp fn H).
Qed.

(** * the executable statement on raw-built inputs *)
Lemma v_cll_clusters (l : list (list cluster)) : v_cll (list_v clusters_v l) = l.
Proof.
  unfold v_cll, list_v, v_list at 1. rewrite map_map. rewrite <- (map_id l) at 2. apply map_ext.
  intros seg. exact (C11_UAX29.v_clusters_v seg).
Qed.

Lemma nth_map_d {A B} (f : A -> B) l d d' k : f d = d' -> nth k (map f l) d' = f (nth k l d).
Proof. intros <-. apply map_nth. Qed.

Lemma model_data_nth v k : is_text_fn v = true ->
  v_cll (v_nth k (model_data v)) = texts (in_g v) (v_strs (v_nth k (v_nth 3 v))).
Proof.
  intros Hf. unfold model_data. rewrite Hf. destruct (v_nth 3 v) as [z|fields] eqn:E.
  - cbn [v_nth]. reflexivity.
  - cbn [v_nth].
    rewrite (nth_map_d (fun f => list_v (fun s => clusters_v (text_of (in_g v) s)) (v_strs f)) fields (L []) (L []) k eq_refl).
    unfold texts. rewrite <- (v_cll_clusters (map (text_of (in_g v)) (v_strs (nth k fields (L []))))).
    unfold list_v. rewrite map_map. reflexivity.
Qed.

Lemma rawify_fn v : v_nth 0 (rawify v) = v_nth 0 v.
Proof. reflexivity. Qed.

Lemma premise_rawify v : premise_n v = true -> premise_C13 (rawify v) = true.
Proof.
  unfold premise_n, premise_C13. rewrite rawify_fn.
  destruct (v_z (v_nth 0 v)) as [|q|q] eqn:Hfn; try (intros; assumption).
  destruct q as [q|q|]; try (intros; assumption).
  destruct q as [q|q|]; try (intros; assumption).
  destruct q as [q|q|]; try (intros; assumption).
  intros H. apply andb_true_iff in H as [H1 H2].
  assert (Hf : is_text_fn v = true) by (unfold is_text_fn; rewrite Hfn; reflexivity).
  change (v_nth 2 (rawify v)) with (model_data v).
  rewrite !(model_data_nth v _ Hf). rewrite (texts_clean _ _ H1), (texts_clean _ _ H2). reflexivity.
Qed.

Lemma check_run_n_l v : premise_n v = true -> check_C13 (rawify v) (run_C13N v) = true.
Proof. intros H. unfold run_C13N. apply check_run_l, premise_rawify, H. Qed.

(** an input whose oracle field is what the model computes is its own raw form *)
Lemma rawify_fix v :
  prep_agree v = true -> (exists a b c d e, v = L [a; b; c; d; e]) -> rawify v = v.
Proof.
  intros H (a & b & c & d & e & ->). unfold prep_agree in H. apply val_eqb_eq in H.
  unfold rawify. cbn [v_nth nth] in *. rewrite H. reflexivity.
Qed.

(** * KF3 is real in the model too: "x ¨" / "x" / "x ¨" in code-point mode yields the panic value *)
Lemma kf3_panic_witness_l :
  sp_f1 1 false (texts false [[120; 32; 168]%N]) (texts false [[120]%N]) (texts false [[120; 32; 168]%N]) = Panic
  /\ kf3_free false [120; 32; 168]%N = false.
Proof. vm_compute. split; reflexivity. Qed.

From TU Require Import Base C01_Model C01_Proofs C04_Model.
From Coq Require Import Lia.
Open Scope N_scope.

Lemma vocab_len_l t : N.of_nat (length (get_vocab t)) = vocab_size t.
Proof. unfold get_vocab, vocab_size, n_reg. rewrite app_length, map_length. lia. Qed.

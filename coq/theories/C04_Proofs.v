From TU Require Import Base C01_Model C01_Proofs C04_Model.
From Coq Require Import Lia ZifyBool ZifyN ZifyNat.
Open Scope N_scope.
Ltac Zify.zify_post_hook ::= Z.div_mod_to_equations.

Lemma utf8_decode_inv_aux n : forall l, (length l <= n)%nat -> forall s, utf8_decode l = Some s -> utf8s s = l /\ scalars s = true.
Proof.
  induction n as [|n IH]; intros l Hl s.
  { destruct l; [|cbn in Hl; lia]. cbn. intros H. injection H as <-. split; reflexivity. }
  destruct l as [|b0 r0]; [cbn; intros H; injection H as <-; split; reflexivity|].
  cbn [length] in Hl. cbn [utf8_decode].
  destruct (b0 <? 128) eqn:E0.
  { destruct (utf8_decode r0) as [s'|] eqn:Er; cbn; [|discriminate]. intros H. injection H as <-.
    destruct (IH r0 ltac:(lia) s' Er) as [H1 H2]. cbn [utf8s flat_map]. fold (utf8s s'). rewrite H1.
    unfold utf8. rewrite E0. cbn [app]. split; [reflexivity|]. unfold scalars in *. cbn [forallb]. rewrite H2.
    unfold scalar. replace (b0 <? 55296) with true by lia. reflexivity. }
  destruct (b0 <? 194) eqn:E1; [discriminate|].
  destruct (b0 <? 224) eqn:E2.
  { destruct r0 as [|b1 r1]; [discriminate|]. unfold cont. destruct ((128 <=? b1) && (b1 <? 192)) eqn:C1; [|discriminate].
    destruct (utf8_decode r1) as [s'|] eqn:Er; cbn; [|discriminate]. intros H. injection H as <-.
    cbn [length] in Hl. destruct (IH r1 ltac:(lia) s' Er) as [H1 H2]. cbn [utf8s flat_map]. fold (utf8s s'). rewrite H1.
    set (c := (b0 - 192) * 64 + (b1 - 128)). unfold utf8.
    replace (c <? 128) with false by lia. replace (c <? 2048) with true by lia. cbn [app].
    split; [f_equal; [lia|f_equal; lia]|]. unfold scalars in *. cbn [forallb]. rewrite H2.
    unfold scalar. replace (c <? 55296) with true by lia. reflexivity. }
  destruct (b0 <? 240) eqn:E3.
  { destruct r0 as [|b1 [|b2 r2]]; try discriminate. cbv zeta. unfold cont.
    set (c := (b0 - 224) * 4096 + (b1 - 128) * 64 + (b2 - 128)).
    destruct ((128 <=? b1) && (b1 <? 192)) eqn:C1; [|discriminate].
    destruct ((128 <=? b2) && (b2 <? 192)) eqn:C2; [|discriminate].
    destruct (2048 <=? c) eqn:C3; [|discriminate]. destruct (scalar c) eqn:C4; [|discriminate]. cbn [andb].
    destruct (utf8_decode r2) as [s'|] eqn:Er; cbn; [|discriminate]. intros H. injection H as <-.
    cbn [length] in Hl. destruct (IH r2 ltac:(lia) s' Er) as [H1 H2]. cbn [utf8s flat_map]. fold (utf8s s'). rewrite H1.
    unfold utf8. replace (c <? 128) with false by lia. replace (c <? 2048) with false by lia.
    replace (c <? 65536) with true by lia. cbn [app].
    split; [f_equal; [lia|f_equal; [lia|f_equal; lia]]|]. unfold scalars in *. cbn [forallb]. rewrite H2, C4. reflexivity. }
  destruct (b0 <? 245) eqn:E4; [|discriminate].
  destruct r0 as [|b1 [|b2 [|b3 r3]]]; try discriminate. cbv zeta. unfold cont.
  set (c := (b0 - 240) * 262144 + (b1 - 128) * 4096 + (b2 - 128) * 64 + (b3 - 128)).
  destruct ((128 <=? b1) && (b1 <? 192)) eqn:C1; [|discriminate].
  destruct ((128 <=? b2) && (b2 <? 192)) eqn:C2; [|discriminate].
  destruct ((128 <=? b3) && (b3 <? 192)) eqn:C3; [|discriminate].
  destruct (65536 <=? c) eqn:C4; [|discriminate]. destruct (c <? 1114112) eqn:C5; [|discriminate]. cbn [andb].
  destruct (utf8_decode r3) as [s'|] eqn:Er; cbn; [|discriminate]. intros H. injection H as <-.
  cbn [length] in Hl. destruct (IH r3 ltac:(lia) s' Er) as [H1 H2]. cbn [utf8s flat_map]. fold (utf8s s'). rewrite H1.
  unfold utf8. replace (c <? 128) with false by lia. replace (c <? 2048) with false by lia.
  replace (c <? 65536) with false by lia. cbn [app].
  split; [f_equal; [lia|f_equal; [lia|f_equal; [lia|f_equal; lia]]]|]. unfold scalars in *. cbn [forallb]. rewrite H2.
  unfold scalar. replace (57344 <=? c) with true by lia. rewrite C5. cbn. rewrite orb_true_r. reflexivity.
Qed.

Lemma utf8_decode_inv l s : utf8_decode l = Some s -> utf8s s = l /\ scalars s = true.
Proof. apply (utf8_decode_inv_aux (length l)). lia. Qed.

Lemma utf8s_inj a b : scalars a = true -> scalars b = true -> utf8s a = utf8s b -> a = b.
Proof.
  intros Ha Hb H. apply utf8_decode_utf8s in Ha, Hb. rewrite H in Ha. congruence.
Qed.

(** * the regular byte tokens *)
Lemma bytes_reg_length : length bytes_reg = 256%nat.
Proof. unfold bytes_reg. rewrite map_length, seq_length. reflexivity. Qed.

Lemma bytes_reg_nth id : id < 256 -> nth_error bytes_reg (N.to_nat id) = Some [id].
Proof.
  intros H. unfold bytes_reg. rewrite nth_error_map.
  rewrite (nth_error_nth' _ 0%nat) by (rewrite seq_length; lia). rewrite seq_nth by lia. cbn.
  rewrite N2Nat.id. reflexivity.
Qed.

Lemma bytes_reg_In x : x < 256 -> In [x] bytes_reg.
Proof. intros H. eapply nth_error_In. apply bytes_reg_nth. exact H. Qed.

Global Opaque bytes_reg.

(** * invariant of a built tokenizer *)
Definition Built (t : tk) : Prop :=
  b_off (k_base t) = n_reg t /\ NoDup (k_sv t) /\
  ((k_kind t = 0 /\ k_reg t = bytes_reg) \/
   (k_kind t = 1 /\ k_reg t = map utf8 (k_A t)) \/
   (k_kind t = 2 /\ k_reg t = bytes_reg ++ k_merges t)).

Lemma build_Built q t : build q = Some t -> Built t.
Proof.
  unfold build, Built, k_sv, n_reg. destruct (q_kind q) as [|[p|p|]] eqn:Ek.
  - unfold byte_base. destruct (mk_base _ _ _ _ _) as [b|] eqn:Hb; [|discriminate]. cbn [option_map]. intros H. injection H as <-. cbn [k_base k_reg k_kind k_A k_merges].
    apply mk_base_spec in Hb as (Hoff & Hsv & _). rewrite Hoff, Hsv, bytes_reg_length. split; [reflexivity|].
    split; [apply uniq_NoDup|]. left. auto.
  - destruct (mk_base _ _ _ _ _) as [b|] eqn:Hb; [|discriminate]. cbn [option_map]. intros H. injection H as <-. cbn [k_base k_reg k_kind k_A k_merges].
    apply mk_base_spec in Hb as (Hoff & Hsv & _). rewrite Hoff, Hsv, app_length, bytes_reg_length.
    split; [lia|]. split; [apply uniq_NoDup|]. right. right. auto.
  - destruct (mk_base _ _ _ _ _) as [b|] eqn:Hb; [|discriminate]. cbn [option_map]. intros H. injection H as <-. cbn [k_base k_reg k_kind k_A k_merges].
    apply mk_base_spec in Hb as (Hoff & Hsv & _). rewrite Hoff, Hsv, app_length, bytes_reg_length.
    split; [lia|]. split; [apply uniq_NoDup|]. right. right. auto.
  - unfold char_base. destruct (mk_base _ _ _ _ _) as [b|] eqn:Hb; [|discriminate]. cbn [option_map]. intros H. injection H as <-. cbn [k_base k_reg k_kind k_A k_merges].
    apply mk_base_spec in Hb as (Hoff & Hsv & _). rewrite Hoff, Hsv, map_length. split; [reflexivity|].
    split; [apply uniq_NoDup|]. right. left. auto.
Qed.

Lemma kind_cases t : Built t -> k_kind t = 0 \/ k_kind t = 1 \/ k_kind t = 2.
Proof. intros (_ & _ & [[H _]|[[H _]|[H _]]]); auto. Qed.

(** * get_vocab *)
Lemma vocab_len_l t : N.of_nat (length (get_vocab t)) = vocab_size t.
Proof. unfold get_vocab, vocab_size, n_reg. rewrite app_length, map_length. lia. Qed.

Lemma vocab_nth_reg t id : id < n_reg t -> nth_error (get_vocab t) (N.to_nat id) = nth_error (k_reg t) (N.to_nat id).
Proof. unfold get_vocab, n_reg. intros H. apply nth_error_app1. lia. Qed.

Lemma vocab_nth_sp t id : Built t -> n_reg t <= id ->
  nth_error (get_vocab t) (N.to_nat id) = sp_bytes t id.
Proof.
  intros (Hoff & _) H. unfold get_vocab, sp_bytes, sp_tok, n_reg in *. rewrite Hoff.
  replace (id <? N.of_nat (length (k_reg t))) with false by lia.
  rewrite nth_error_app2 by lia. rewrite nth_error_map.
  replace (N.to_nat id - length (k_reg t))%nat with (N.to_nat (id - N.of_nat (length (k_reg t)))) by lia.
  reflexivity.
Qed.

Lemma sp_bytes_low t id : Built t -> id < n_reg t -> sp_bytes t id = None.
Proof. intros (Hoff & _) H. unfold sp_bytes, sp_tok. rewrite Hoff. replace (id <? n_reg t) with true by lia. reflexivity. Qed.

(** id_to_token(id) = get_vocab()[id] for every id (hence None from vocab_size on) *)
Lemma id_to_token_nth t id : Built t -> id_to_token t id = nth_error (get_vocab t) (N.to_nat id).
Proof.
  intros HB. pose proof HB as (Hoff & Hnd & Hk). unfold id_to_token.
  destruct Hk as [[Hk Hr]|[[Hk Hr]|[Hk Hr]]]; rewrite Hk.
  - assert (Hn : n_reg t = 256) by (unfold n_reg; rewrite Hr, bytes_reg_length; reflexivity).
    destruct (id <? 256) eqn:E.
    + rewrite vocab_nth_reg by lia. rewrite Hr, bytes_reg_nth by lia. reflexivity.
    + rewrite vocab_nth_sp by (auto; lia). reflexivity.
  - destruct (id <? n_reg t) eqn:E.
    + rewrite sp_bytes_low by (auto; lia). rewrite vocab_nth_reg by lia. reflexivity.
    + rewrite vocab_nth_sp by (auto; lia). destruct (sp_bytes t id) eqn:Es; [reflexivity|].
      apply nth_error_None. unfold n_reg in E. lia.
  - assert (Hn : 256 <= n_reg t) by (unfold n_reg; rewrite Hr, app_length, bytes_reg_length; lia).
    destruct (id <? 256) eqn:E.
    + rewrite vocab_nth_reg by lia. rewrite Hr, nth_error_app1 by (rewrite bytes_reg_length; lia).
      rewrite bytes_reg_nth by lia. reflexivity.
    + destruct (id <? n_reg t) eqn:E2; [rewrite vocab_nth_reg by lia; reflexivity|].
      rewrite vocab_nth_sp by (auto; lia). reflexivity.
Qed.

Lemma id_to_token_spec_l t id : Built t ->
  (id < vocab_size t -> id_to_token t id = nth_error (get_vocab t) (N.to_nat id)
                        /\ exists tok, id_to_token t id = Some tok)
  /\ (vocab_size t <= id -> id_to_token t id = None).
Proof.
  intros HB. rewrite id_to_token_nth by exact HB. pose proof (vocab_len_l t) as Hl. split.
  - intros H. split; [reflexivity|]. destruct (nth_error (get_vocab t) (N.to_nat id)) eqn:E; [eexists; reflexivity|].
    apply nth_error_None in E. lia.
  - intros H. apply nth_error_None. lia.
Qed.

(** * special ids lie after the regular ids, inside the vocabulary *)
Lemma sp_id_range t s i : Built t -> sp_id (b_off (k_base t)) (k_sv t) s = Some i -> n_reg t <= i < vocab_size t.
Proof. intros (Hoff & _) H. apply sp_id_tok in H. unfold vocab_size. rewrite Hoff in H. lia. Qed.

Lemma ids_of_range t toks ids : Built t -> ids_of (k_base t) toks ids -> Forall (fun i => n_reg t <= i < vocab_size t) ids.
Proof. intros HB. induction 1 as [|s i toks ids Hi Hr IH]; constructor; [eapply sp_id_range; eauto|exact IH]. Qed.

Lemma special_range_l q t : build q = Some t ->
  n_reg t <= b_pad (k_base t) < vocab_size t
  /\ Forall (fun i => n_reg t <= i < vocab_size t) (b_pre (k_base t))
  /\ Forall (fun i => n_reg t <= i < vocab_size t) (b_suf (k_base t))
  /\ (k_kind t = 1 -> exists u, unk_id t (q_unk q) = Some u /\ n_reg t <= u < vocab_size t)
  /\ (k_kind t <> 1 -> unk_id t (q_unk q) = None).
Proof.
  intros Hb. pose proof (build_Built _ _ Hb) as HB.
  assert (Hm : exists off toks, mk_base off toks (q_pad q) (q_prefix q) (q_suffix q) = Some (k_base t)
            /\ (k_kind t = 1 -> In (q_unk q) toks)).
  { unfold build in Hb. destruct (q_kind q) as [|[p|p|]].
    - unfold byte_base in Hb. destruct (mk_base _ _ _ _ _) as [b|] eqn:E; [|discriminate]. injection Hb as <-.
      cbn [k_base k_reg k_kind k_A k_merges]. eexists _, _. split; [exact E|discriminate].
    - destruct (mk_base _ _ _ _ _) as [b|] eqn:E; [|discriminate]. injection Hb as <-.
      cbn [k_base k_reg k_kind k_A k_merges]. eexists _, _. split; [exact E|discriminate].
    - destruct (mk_base _ _ _ _ _) as [b|] eqn:E; [|discriminate]. injection Hb as <-.
      cbn [k_base k_reg k_kind k_A k_merges]. eexists _, _. split; [exact E|discriminate].
    - unfold char_base in Hb. destruct (mk_base _ _ _ _ _) as [b|] eqn:E; [|discriminate]. injection Hb as <-.
      cbn [k_base k_reg k_kind k_A k_merges]. eexists _, _. split; [exact E|]. intros _. apply in_or_app. right. left. reflexivity. }
  destruct Hm as (off & toks & Hm & Hunk). apply mk_base_spec in Hm as (Hoff & Hsv & Hp & Hq & Hpad).
  rewrite <- Hoff, <- Hsv in Hpad. repeat split.
  - eapply sp_id_range; eauto.
  - eapply sp_id_range; eauto.
  - eapply ids_of_range; eauto.
  - eapply ids_of_range; eauto.
  - intros Hk. unfold unk_id. rewrite Hk. destruct (sp_id_In (b_off (k_base t)) (k_sv t) (q_unk q)) as [u Hu].
    { unfold k_sv. rewrite Hsv. apply uniq_In. auto. }
    exists u. split; [exact Hu|]. eapply sp_id_range; eauto.
  - intros Hk. unfold unk_id. destruct (kind_cases _ HB) as [H|[H|H]]; rewrite H; try reflexivity. contradiction.
Qed.

(** * token_to_id inverts get_vocab on UTF-8 tokens *)
Definition WF (t : tk) : Prop := NoDup (k_reg t) /\ Forall (fun m => (2 <= length m)%nat) (k_merges t).
Definition Disjoint (t : tk) : Prop := forall s, In s (k_sv t) -> ~ In (utf8s s) (k_reg t).

Lemma NoDup_app_r {A} (l m : list A) : NoDup (l ++ m) -> NoDup m.
Proof. induction l as [|x l IH]; cbn; [auto|]. intros H. inversion H; subst. auto. Qed.

Lemma NoDup_map_inv' {A B} (f : A -> B) l : NoDup (map f l) -> NoDup l.
Proof.
  induction l as [|x l IH]; cbn; intros H; [constructor|]. inversion H; subst. constructor; [|auto].
  intros Hin. apply H2. apply in_map. exact Hin.
Qed.

Lemma token_to_id_spec_l t id tok s : Built t -> WF t -> Disjoint t ->
  Forall (fun x => scalars x = true) (k_sv t) -> scalars (k_A t) = true ->
  nth_error (get_vocab t) (N.to_nat id) = Some tok -> utf8_decode tok = Some s ->
  token_to_id t s = Some id.
Proof.
  intros HB (Hnd & Hm2) Hdis Hsc HscA Hnth Hdec. pose proof HB as (Hoff & Hndsv & Hk).
  apply utf8_decode_inv in Hdec as [Hs Hss]. unfold token_to_id.
  destruct (id <? n_reg t) eqn:Elt.
  - (* a regular token *)
    rewrite vocab_nth_reg in Hnth by lia.
    assert (Hsp : sp_id (b_off (k_base t)) (k_sv t) s = None).
    { destruct (sp_id _ _ s) as [i|] eqn:E; [|reflexivity]. exfalso. apply sp_id_Some_In in E.
      apply (Hdis _ E). rewrite Hs. eapply nth_error_In; eauto. }
    rewrite Hsp. destruct Hk as [[Hk Hr]|[[Hk Hr]|[Hk Hr]]]; rewrite Hk.
    + assert (Hn : n_reg t = 256) by (unfold n_reg; rewrite Hr, bytes_reg_length; reflexivity).
      rewrite Hr, bytes_reg_nth in Hnth by lia. injection Hnth as <-. rewrite Hs. reflexivity.
    + rewrite Hr, nth_error_map in Hnth. destruct (nth_error (k_A t) (N.to_nat id)) as [c|] eqn:Ec; [|discriminate].
      cbn in Hnth. injection Hnth as <-.
      assert (Hc : scalar c = true).
      { unfold scalars in HscA. rewrite forallb_forall in HscA. apply HscA. eapply nth_error_In; eauto. }
      assert (s = [c]).
      { apply utf8s_inj; [exact Hss|unfold scalars; cbn; rewrite Hc; reflexivity|]. rewrite Hs. cbn. rewrite app_nil_r. reflexivity. }
      subst s. rewrite Hr in Hnd. apply NoDup_map_inv' in Hnd. rewrite (nth_index_ofN _ Hnd _ _ Ec). cbn [option_map]. rewrite N2Nat.id. reflexivity.
    + assert (Hn : n_reg t = 256 + N.of_nat (length (k_merges t))) by (unfold n_reg; rewrite Hr, app_length, bytes_reg_length; lia).
      rewrite Hr in Hnth. destruct (id <? 256) eqn:E256.
      * rewrite nth_error_app1 in Hnth by (rewrite bytes_reg_length; lia). rewrite bytes_reg_nth in Hnth by lia.
        injection Hnth as <-. rewrite Hs. reflexivity.
      * rewrite nth_error_app2 in Hnth by (rewrite bytes_reg_length; lia). rewrite bytes_reg_length in Hnth.
        pose proof (nth_error_In _ _ Hnth) as Hin. rewrite Forall_forall in Hm2. specialize (Hm2 _ Hin).
        rewrite Hs. destruct tok as [|x [|y r]]; cbn in Hm2; try lia.
        rewrite Hr in Hnd. apply NoDup_app_r in Hnd. rewrite (nth_index_of _ Hnd _ _ Hnth). cbn [option_map]. f_equal. lia.
  - (* a special token *)
    rewrite vocab_nth_sp in Hnth by (auto; lia). unfold sp_bytes in Hnth.
    destruct (sp_tok (b_off (k_base t)) (k_sv t) id) as [s0|] eqn:E0; [|discriminate]. cbn in Hnth. injection Hnth as <-.
    assert (Hin0 : In s0 (k_sv t)).
    { unfold sp_tok in E0. destruct (id <? b_off (k_base t)); [discriminate|]. eapply nth_error_In; eauto. }
    assert (s = s0).
    { apply utf8s_inj; [exact Hss| |exact Hs]. rewrite Forall_forall in Hsc. auto. }
    subst s0. rewrite (sp_tok_id _ _ _ _ Hndsv E0).
    destruct Hk as [[Hk Hr]|[[Hk Hr]|[Hk Hr]]]; rewrite Hk; try reflexivity.
    destruct (utf8s s) as [|x [|y r]] eqn:Eu; try reflexivity. exfalso.
    apply (Hdis _ Hin0). rewrite Eu, Hr. apply bytes_reg_In.
    pose proof (utf8s_lt256 _ Hss) as Hlt. rewrite Eu in Hlt. inversion Hlt; subst. assumption.
Qed.

(** * decoding a single regular id gives that token's bytes (as a string, when they are UTF-8) *)
Lemma decode_single_l t id : Built t -> scalars (k_A t) = true -> id < n_reg t ->
  decode_ids t [id] false = obind (nth_error (k_reg t) (N.to_nat id)) utf8_decode.
Proof.
  intros HB HscA Hlt. pose proof HB as (Hoff & Hndsv & Hk). unfold decode_ids.
  destruct Hk as [[Hk Hr]|[[Hk Hr]|[Hk Hr]]]; rewrite Hk.
  - assert (Hn : n_reg t = 256) by (unfold n_reg; rewrite Hr, bytes_reg_length; reflexivity).
    unfold byte_decode. cbn [byte_decode_bytes]. replace (id <? 256) with true by lia. cbn [option_map obind].
    rewrite Hr, bytes_reg_nth by lia. reflexivity.
  - cbn [char_decode]. rewrite Hr, nth_error_map. unfold n_reg in Hlt. rewrite Hr, map_length in Hlt.
    destruct (nth_error (k_A t) (N.to_nat id)) as [c|] eqn:Ec; [|apply nth_error_None in Ec; lia].
    cbn [option_map obind].
    assert (Hc : scalar c = true).
    { unfold scalars in HscA. rewrite forallb_forall in HscA. apply HscA. eapply nth_error_In; eauto. }
    pose proof (utf8_decode_cons c [] Hc) as H. rewrite app_nil_r in H. rewrite H. reflexivity.
  - cbn [bpe_decode_bytes]. replace (id <? n_reg t) with true by lia.
    destruct (nth_error (k_reg t) (N.to_nat id)) as [bs|] eqn:Eb; [|apply nth_error_None in Eb; unfold n_reg in Hlt; lia].
    cbn [option_map obind]. rewrite app_nil_r. reflexivity.
Qed.

(** * the boolean premises *)
Lemma mem_str_In x l : mem_str x l = true <-> In x l.
Proof.
  induction l as [|y l IH]; cbn [mem_str In]; [split; [discriminate|tauto]|].
  rewrite orb_true_iff, IH, str_eqb_eq. split; intros [H|H]; auto.
Qed.

Lemma nodupb_spec l : nodupb l = true -> NoDup l.
Proof.
  induction l as [|x l IH]; cbn [nodupb]; [constructor|]. intros H. apply andb_true_iff in H as [H1 H2].
  constructor; [|auto]. intros Hin. apply mem_str_In in Hin. rewrite Hin in H1. discriminate.
Qed.

Lemma wfb_spec t : wfb t = true -> WF t.
Proof.
  unfold wfb, WF. intros H. apply andb_true_iff in H as [H1 H2]. split; [apply nodupb_spec; exact H1|].
  rewrite forallb_forall in H2. apply Forall_forall. intros m Hm. specialize (H2 m Hm). lia.
Qed.

Lemma disjointb_spec t : disjointb t = true -> Disjoint t.
Proof.
  unfold disjointb, Disjoint. rewrite forallb_forall. intros H s Hs Hin. specialize (H s Hs).
  apply mem_str_In in Hin. rewrite Hin in H. discriminate.
Qed.

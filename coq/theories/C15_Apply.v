(** C15 proofs, part 2: what a valid edit does to the word and to the exclusion
    set (shape, untouched positions, re-indexing, range), and chains. *)
From TU Require Import Base C15_Model C15_Proofs.
From Coq Require Import Lia.

(** * Splitting a word at an index *)
Lemma firstn_len_app {A} (a r : list A) : firstn (length a) (a ++ r) = a.
Proof. induction a as [|x a IH]; cbn; [destruct r; reflexivity | rewrite IH; reflexivity]. Qed.

Lemma skipn_len_app {A} (a r : list A) : skipn (length a) (a ++ r) = r.
Proof. induction a as [|x a IH]; cbn; [reflexivity | exact IH]. Qed.

Lemma skipn_S_len_app {A} (a : list A) x r : skipn (S (length a)) (a ++ x :: r) = r.
Proof. induction a as [|y a IH]; cbn; [reflexivity | exact IH]. Qed.

Lemma split_le {A} (w : list A) i : i <= length w -> exists a b, w = a ++ b /\ length a = i.
Proof.
  intros H. exists (firstn i w), (skipn i w). split; [symmetry; apply firstn_skipn|].
  apply firstn_length_le. exact H.
Qed.

Lemma split_lt {A} (w : list A) i : i < length w -> exists a x b, w = a ++ x :: b /\ length a = i.
Proof.
  intros H. destruct (nth_error w i) as [x|] eqn:E; [|apply nth_error_None in E; lia].
  destruct (nth_error_split w i E) as (a & b & H1 & H2). exists a, x, b. split; assumption.
Qed.

Lemma split_lt2 {A} (w : list A) i :
  S i < length w -> exists a x y b, w = a ++ x :: y :: b /\ length a = i.
Proof.
  intros H. destruct (split_lt w i) as (a & x & b & -> & Ha); [lia|].
  rewrite app_length in H. cbn in H. destruct b as [|y b]; [cbn in H; lia|].
  exists a, x, y, b. split; [reflexivity | exact Ha].
Qed.

(** * Shape of the new word: exactly one insertion / deletion / replacement / adjacent swap *)
Lemma apply_ins_shape w i e : i <= length w ->
  exists a b, w = a ++ b /\ length a = i /\ apply_word (EIns i e) w = a ++ e ++ b.
Proof.
  intros H. destruct (split_le w i H) as (a & b & -> & Ha). exists a, b.
  split; [reflexivity|]. split; [exact Ha|]. cbn [apply_word]. subst i.
  rewrite firstn_len_app, skipn_len_app. reflexivity.
Qed.

Lemma apply_del_shape w i : i < length w ->
  exists a x b, w = a ++ x :: b /\ length a = i /\ apply_word (EDel i) w = a ++ b.
Proof.
  intros H. destruct (split_lt w i H) as (a & x & b & -> & Ha). exists a, x, b.
  split; [reflexivity|]. split; [exact Ha|]. cbn [apply_word]. subst i.
  rewrite firstn_len_app, skipn_S_len_app. reflexivity.
Qed.

Lemma apply_rep_shape w i e : i < length w ->
  exists a x b, w = a ++ x :: b /\ length a = i /\ apply_word (ERep i e) w = a ++ e ++ b.
Proof.
  intros H. destruct (split_lt w i H) as (a & x & b & -> & Ha). exists a, x, b.
  split; [reflexivity|]. split; [exact Ha|]. cbn [apply_word]. subst i.
  rewrite firstn_len_app, skipn_S_len_app. reflexivity.
Qed.

Lemma apply_swap_shape w i : S i < length w ->
  exists a x y b, w = a ++ x :: y :: b /\ length a = i /\ apply_word (ESwap i) w = a ++ y :: x :: b.
Proof.
  intros H. destruct (split_lt2 w i H) as (a & x & y & b & -> & Ha). exists a, x, y, b.
  split; [reflexivity|]. split; [exact Ha|]. cbn [apply_word]. subst i.
  rewrite firstn_len_app, skipn_len_app. reflexivity.
Qed.

Lemma edit_shape_l c w ex k :
  valid_ed c w ex k ->
  match k with
  | ESame => apply_word k w = w
  | EIns i e => exists a b, w = a ++ b /\ length a = i /\ apply_word k w = a ++ e ++ b
  | EDel i => exists a x b, w = a ++ x :: b /\ length a = i /\ apply_word k w = a ++ b
  | ERep i e => exists a x b, w = a ++ x :: b /\ length a = i /\ apply_word k w = a ++ e ++ b
  | ESwap i => exists a x y b, w = a ++ x :: y :: b /\ length a = i /\ apply_word k w = a ++ y :: x :: b
  end.
Proof.
  destruct k as [|i e|i|i e|i]; intros V.
  - reflexivity.
  - destruct V as (_ & Hi & _). apply apply_ins_shape. exact Hi.
  - destruct V as (_ & Hi & _). apply apply_del_shape. exact Hi.
  - destruct V as (_ & Hi & _). apply apply_rep_shape. exact Hi.
  - destruct V as (_ & Hi & _). apply apply_swap_shape. exact Hi.
Qed.

(** * Lengths *)
Lemma len_apply c w ex k : valid_ed c w ex k -> len_spec k (length w) (length (apply_word k w)).
Proof.
  destruct k as [|i e|i|i e|i]; intros V.
  - reflexivity.
  - destruct V as (_ & Hi & _). destruct (apply_ins_shape w i e Hi) as (a & b & -> & Ha & ->).
    cbn [len_spec]. rewrite ?app_length. cbn [length]. rewrite ?app_length. lia.
  - destruct V as (_ & Hi & _). destruct (apply_del_shape w i Hi) as (a & x & b & -> & Ha & ->).
    cbn [len_spec]. rewrite ?app_length. cbn [length]. rewrite ?app_length. lia.
  - destruct V as (_ & Hi & _). destruct (apply_rep_shape w i e Hi) as (a & x & b & -> & Ha & ->).
    cbn [len_spec]. rewrite ?app_length. cbn [length]. rewrite ?app_length. lia.
  - destruct V as (_ & Hi & _). destruct (apply_swap_shape w i Hi) as (a & x & y & b & -> & Ha & ->).
    cbn [len_spec]. rewrite ?app_length. cbn [length]. rewrite ?app_length. lia.
Qed.

(** * Untouched positions *)
Ltac nth_app :=
  repeat first [ rewrite nth_error_app1 by (rewrite ?app_length; cbn [length]; lia)
               | rewrite nth_error_app2 by (rewrite ?app_length; cbn [length]; lia) ].

Lemma untouched_l c w ex k p :
  valid_ed c w ex k -> p < length w -> ~ In p (old_pos k) ->
  nth_error (apply_word k w) (shift_of k p) = nth_error w p.
Proof.
  destruct k as [|i e|i|i e|i]; intros V Hp Hold.
  - reflexivity.
  - destruct V as (_ & Hi & _). destruct (apply_ins_shape w i e Hi) as (a & b & -> & Ha & ->).
    cbn [shift_of]. destruct (Nat.leb_spec i p).
    + nth_app. f_equal. lia.
    + nth_app. reflexivity.
  - destruct V as (_ & Hi & _). destruct (apply_del_shape w i Hi) as (a & x & b & -> & Ha & ->).
    cbn [shift_of]. cbn in Hold. destruct (Nat.ltb_spec i p).
    + nth_app. replace (p - length a) with (S (p - 1 - length a)) by lia. reflexivity.
    + assert (p < i) by lia. nth_app. reflexivity.
  - destruct V as (_ & Hi & _). destruct (apply_rep_shape w i e Hi) as (a & x & b & -> & Ha & ->).
    cbn [shift_of]. cbn in Hold. destruct (Nat.ltb_spec i p).
    + nth_app. replace (p - length a) with (S (p + length e - 1 - length a - length e)) by lia. reflexivity.
    + assert (p < i) by lia. nth_app. reflexivity.
  - destruct V as (_ & Hi & _). destruct (apply_swap_shape w i Hi) as (a & x & y & b & -> & Ha & ->).
    cbn [shift_of]. cbn in Hold.
    destruct (Nat.lt_ge_cases p i).
    + nth_app. reflexivity.
    + assert (S i < p) by lia. nth_app.
      replace (p - length a) with (S (S (p - length a - 2))) by lia. reflexivity.
Qed.

Lemma excl_not_old c w ex k p : valid_ed c w ex k -> In p ex -> ~ In p (old_pos k).
Proof.
  destruct k as [|i e|i|i e|i]; cbn; intros V Hp H; try tauto.
  - destruct V as (_ & _ & V). destruct H as [<-|[]]. tauto.
  - destruct V as (_ & _ & V & _). destruct H as [<-|[]]. tauto.
  - destruct V as (_ & _ & V1 & V2). destruct H as [<-|[<-|[]]]; tauto.
Qed.

Lemma shift_not_new k p : ~ In p (old_pos k) -> ~ In (shift_of k p) (new_pos k).
Proof.
  destruct k as [|i e|i|i e|i]; cbn [shift_of new_pos old_pos]; intros Hold H.
  - destruct H.
  - apply in_seq in H. destruct (Nat.leb_spec i p); lia.
  - destruct H.
  - assert (p <> i) by (intros ->; apply Hold; left; reflexivity).
    apply in_seq in H. destruct (Nat.ltb_spec i p); lia.
  - assert (p <> i) by (intros ->; apply Hold; left; reflexivity).
    assert (p <> S i) by (intros ->; apply Hold; right; left; reflexivity).
    destruct H as [H|[H|[]]]; congruence.
Qed.

(** what the written positions hold *)
Lemma written_l c w ex k :
  valid_ed c w ex k ->
  match k with
  | ESame | EDel _ => True
  | EIns i e | ERep i e => forall j, j < length e -> nth_error (apply_word k w) (i + j) = nth_error e j
  | ESwap i => nth_error (apply_word k w) i = nth_error w (S i) /\
               nth_error (apply_word k w) (S i) = nth_error w i
  end.
Proof.
  destruct k as [|i e|i|i e|i]; intros V; try exact Logic.I.
  - destruct V as (_ & Hi & _). destruct (apply_ins_shape w i e Hi) as (a & b & -> & Ha & ->).
    intros j Hj. nth_app. f_equal. lia.
  - destruct V as (_ & Hi & _). destruct (apply_rep_shape w i e Hi) as (a & x & b & -> & Ha & ->).
    intros j Hj. nth_app. f_equal. lia.
  - destruct V as (_ & Hi & _). destruct (apply_swap_shape w i Hi) as (a & x & y & b & -> & Ha & ->).
    split; nth_app.
    + replace (i - length a) with 0 by lia. replace (S i - length a) with 1 by lia. reflexivity.
    + replace (i - length a) with 0 by lia. replace (S i - length a) with 1 by lia. reflexivity.
Qed.

(** * The new exclusion set *)
Lemma apply_excl_spec k ex x :
  In x (apply_excl k ex) <-> (exists p, In p ex /\ x = shift_of k p) \/ In x (new_pos k).
Proof.
  assert (G : In x (map (shift_of k) ex ++ new_pos k) <->
              (exists p, In p ex /\ x = shift_of k p) \/ In x (new_pos k)).
  { rewrite in_app_iff, in_map_iff. split; intros [(p & H1 & H2)|H]; auto; left; exists p; auto. }
  destruct k; try exact G.
  cbn. split; [intros H; left; exists x; auto | intros [(p & H & ->)|[]]; exact H].
Qed.

Lemma apply_excl_range c w ex k :
  valid_ed c w ex k -> in_range w ex -> in_range (apply_word k w) (apply_excl k ex).
Proof.
  intros V R. pose proof (len_apply c w ex k V) as L.
  unfold in_range in *. rewrite Forall_forall in *. intros x Hx.
  apply apply_excl_spec in Hx as [(p & Hp & ->)|Hn].
  - pose proof (R p Hp) as Rp. pose proof (excl_not_old c w ex k p V Hp) as Ho.
    destruct k as [|i e|i|i e|i]; cbn [shift_of len_spec old_pos] in *.
    + lia.
    + destruct (Nat.leb_spec i p); lia.
    + assert (p <> i) by (intros ->; apply Ho; left; reflexivity).
      destruct V as (_ & V & _). destruct (Nat.ltb_spec i p); lia.
    + assert (p <> i) by (intros ->; apply Ho; left; reflexivity).
      destruct V as (_ & V & _). destruct (Nat.ltb_spec i p); lia.
    + lia.
  - destruct k as [|i e|i|i e|i]; cbn [new_pos len_spec valid_ed] in *.
    + destruct Hn.
    + apply in_seq in Hn. destruct V as (_ & V & _). lia.
    + destruct Hn.
    + apply in_seq in Hn. destruct V as (_ & V & _). lia.
    + destruct V as (_ & V & _). destruct Hn as [<-|[<-|[]]]; lia.
Qed.

(** * The statements of C15_Props.v about one valid edit *)
Lemma excluded_untouched_l c w ex k p :
  valid_ed c w ex k -> In p ex -> p < length w ->
  ~ In p (old_pos k) /\
  nth_error (apply_word k w) (shift_of k p) = nth_error w p /\
  ~ In (shift_of k p) (new_pos k) /\
  In (shift_of k p) (apply_excl k ex).
Proof.
  intros V Hp Hl.
  pose proof (excl_not_old c w ex k p V Hp) as Ho.
  split; [exact Ho|]. split; [exact (untouched_l c w ex k p V Hl Ho)|].
  split; [exact (shift_not_new k p Ho)|].
  apply apply_excl_spec. left. exists p. split; [exact Hp | reflexivity].
Qed.

Lemma excl_reindexed_l c w ex k :
  valid_ed c w ex k ->
  (forall x, In x (apply_excl k ex) <-> (exists p, In p ex /\ x = shift_of k p) \/ In x (new_pos k)) /\
  (in_range w ex -> in_range (apply_word k w) (apply_excl k ex)) /\
  len_spec k (length w) (length (apply_word k w)).
Proof.
  intros V. split; [intros x; apply apply_excl_spec|].
  split; [apply (apply_excl_range c w ex k V) | apply (len_apply c w ex k V)].
Qed.

Lemma pinned_agrees_elsewhere_l (t : list ins_entry) (r : list rep_entry) w i :
  0 < i ->
  (w <> [] -> ins_ctx_pinned t w i = ins_ctx t w i) /\
  (1 < length w -> rep_ctx_pinned r w i = rep_ctx r w i).
Proof.
  intros Hi. split; [apply ins_ctx_pinned_eq; exact Hi | apply rep_ctx_pinned_eq; exact Hi].
Qed.

(** * Chains *)
Lemma outcomes_In c cd cs w ex l o :
  outcomes c cd cs w ex = Some l -> In o l ->
  exists k, valid_ed c w ex k /\ o = (apply_word k w, apply_excl k ex).
Proof.
  unfold outcomes. destruct (choices c cd cs w ex) as [ks|] eqn:E; cbn; [|discriminate].
  intros H Hin. injection H as <-. apply in_map_iff in Hin as (k & <- & Hk).
  exists k. split; [eapply choices_valid; eassumption | reflexivity].
Qed.

Lemma chain_inv_l c n s s' :
  chain c n s s' -> in_range (fst s) (snd s) -> in_range (fst s') (snd s').
Proof.
  induction 1 as [s|n w ex cd cs l o s' Ho Hin Hc IH]; intros R; [exact R|].
  apply IH. destruct (outcomes_In _ _ _ _ _ _ _ Ho Hin) as (k & V & ->). cbn.
  eapply apply_excl_range; eassumption.
Qed.

(** C09 hook machine: proofs. *)
From Coq Require Import Lia.
From TU Require Import Base C09_Model C09_Hook.

(** the installed hook ends the process before it prints or returns *)
Fixpoint exits_first (h : hook) : bool :=
  match h with HExit => true | HThenPrint p => exits_first p | _ => false end.

Lemma exits_first_fire h : exits_first h = true -> forall b, fire b h = FExit 0.
Proof.
  induction h; cbn; intros E b; try discriminate; [reflexivity|].
  rewrite (IHh E b). reflexivity.
Qed.

(** * lists *)
Lemma In_upd {A} (f : A -> A) (l : list A) : forall i q, In q (upd i f l) -> exists p, In p l /\ (q = p \/ q = f p).
Proof.
  induction l as [|x r IH]; intros i q H; [destruct i; contradiction|].
  destruct i; cbn in H.
  - destruct H as [<-|H]; [exists x; split; [left; reflexivity|right; reflexivity]|].
    exists q. split; [right; exact H|left; reflexivity].
  - destruct H as [<-|H]; [exists x; split; [left; reflexivity|left; reflexivity]|].
    destruct (IH i q H) as (p & Hp & E). exists p. split; [right; exact Hp|exact E].
Qed.

Lemma nth_error_upd {A} (f : A -> A) (l : list A) : forall i j,
  nth_error (upd i f l) j = if Nat.eqb i j then option_map f (nth_error l j) else nth_error l j.
Proof.
  induction l as [|x r IH]; intros i j.
  - destruct i, j; cbn; try reflexivity. destruct (Nat.eqb i j); reflexivity.
  - destruct i, j; cbn; try reflexivity. apply IH.
Qed.

Lemma length_upd {A} (f : A -> A) (l : list A) : forall i, length (upd i f l) = length l.
Proof. induction l as [|x r IH]; intros [|i]; cbn; try reflexivity. now rewrite IH. Qed.

(** * a panic never changes the bookkeeping *)
Lemma hpanic_hstep pol s o t : hpanic s o = Some t -> hstep pol s o = s.
Proof. destruct o; cbn; intros H; try discriminate; reflexivity. Qed.

(** * the repaired code: one invariant *)
Definition threaded_fresh (p : pipe) : Prop := p_threads p <> 0 /\ p_clob p = false.

Definition covered (s : hstate) : Prop :=
  (exists p, In p (h_pipes s) /\ threaded_fresh p) -> exits_first (h_hook s) = true.

Lemma covered_init : covered hinit.
Proof. intros (p & [] & _). Qed.

Lemma covered_step s o : covered s -> covered (hstep repaired s o).
Proof.
  intros C. destruct o as [w|i| |i| | | | |]; try exact C.
  - destruct w as [|w]; cbn.
    + intros (p & Hin & Hf). cbn in Hin. apply in_app_or in Hin as [Hin|[<-|[]]].
      * apply C. exists p. split; assumption.
      * destruct Hf as [Hf _]. cbn in Hf. contradiction.
    + intros _. reflexivity.
  - cbn. destruct (nth_error (h_pipes s) i) as [p|]; [|exact C].
    destruct (p_live p); [|exact C]. cbn.
    intros (q & Hin & Hf). apply In_upd in Hin as (p' & Hp' & [->| ->]).
    + apply C. exists p'. split; assumption.
    + apply C. exists p'. split; [assumption|]. exact Hf.
  - intros (q & Hin & Hf). cbn in Hin. apply in_map_iff in Hin as (p & <- & _).
    destruct Hf as [_ Hf]. cbn in Hf. discriminate.
Qed.

Lemma covered_exec ops : forall s, covered s -> covered (hexec repaired s ops).
Proof.
  induction ops as [|o r IH]; intros s C; [exact C|]. cbn. apply IH. apply covered_step. exact C.
Qed.

Lemma covered_verdict s t :
  covered s -> (exists p, In p (h_pipes s) /\ threaded_fresh p) -> verdict s t = (0, Some Exited).
Proof.
  intros C H. unfold verdict. rewrite (exits_first_fire _ (C H)). destruct t as [[|[|w]]| |]; reflexivity.
Qed.

(** every panic anywhere in the process ends it once a threaded pipe has been created and no foreign hook
    was installed since — also after that pipe has been dropped *)
Lemma hook_exit_sticky_l ops s o t :
  s = hexec repaired hinit ops ->
  (exists p, In p (h_pipes s) /\ p_threads p <> 0 /\ p_clob p = false) ->
  hpanic s o = Some t -> verdict s t = (0, Some Exited).
Proof.
  intros -> H _. apply covered_verdict; [apply covered_exec, covered_init|exact H].
Qed.

Lemma hpanic_protected s i p :
  nth_error (h_pipes s) i = Some p -> p_live p = true -> p_threads p <> 0 ->
  hpanic s (PanicIn i) = Some (TWorker (p_threads p)).
Proof. intros Hn Hl Ht. cbn. rewrite Hn, Hl. destruct (p_threads p); [contradiction|reflexivity]. Qed.

Lemma hook_protects_live_pipes_l ops s i p :
  s = hexec repaired hinit ops ->
  nth_error (h_pipes s) i = Some p -> p_live p = true -> p_threads p <> 0 -> p_clob p = false ->
  panic_result s (PanicIn i) = Some (0, Some Exited).
Proof.
  intros Hs Hn Hl Ht Hc. unfold panic_result. rewrite (hpanic_protected s i p Hn Hl Ht). cbn [option_map]. f_equal.
  apply covered_verdict; [rewrite Hs; apply covered_exec, covered_init|].
  exists p. split; [eapply nth_error_In; exact Hn|split; assumption].
Qed.

(** * the run of a whole process meets the executable statement *)
Lemma status_known st : known_status (status_code st) = true.
Proof. destruct st; reflexivity. Qed.

Lemma hrun_length pol ops : forall s, length (snd (hrun pol s ops)) <= length ops.
Proof.
  induction ops as [|o r IH]; intros s; cbn; [lia|].
  destruct (hpanic s o) as [t|].
  - destruct (verdict s t) as [n [st|]]; cbn; [lia|].
    specialize (IH s). destruct (hrun pol s r) as [st l]. cbn in *. lia.
  - specialize (IH (hstep pol s o)). destruct (hrun pol (hstep pol s o) r) as [st l]. cbn in *. lia.
Qed.

Lemma hrun_finished pol ops : forall s,
  (fst (hrun pol s ops) = Finished -> length (snd (hrun pol s ops)) = length ops)
  /\ (fst (hrun pol s ops) <> Finished -> snd (hrun pol s ops) <> []).
Proof.
  induction ops as [|o r IH]; intros s; cbn; [split; [reflexivity|intros H; contradiction]|].
  destruct (hpanic s o) as [t|] eqn:P.
  - destruct (verdict s t) as [n [st|]] eqn:V; cbn.
    + split; [|intros _; discriminate]. intros ->.
      unfold verdict in V. destruct (fire _ _), t as [[|[|w]]| |]; inversion V.
    + specialize (IH s). destruct (hrun pol s r) as [st l]. cbn in *.
      split; [intros H; f_equal; apply IH; exact H|intros _; discriminate].
  - specialize (IH (hstep pol s o)). destruct (hrun pol (hstep pol s o) r) as [st l]. cbn in *.
    split; [intros H; f_equal; apply IH; exact H|intros _; discriminate].
Qed.

Lemma protected_panic_inv s o :
  protected_panic s o = true ->
  exists i p, o = PanicIn i /\ nth_error (h_pipes s) i = Some p /\ p_live p = true
              /\ p_threads p <> 0 /\ p_clob p = false.
Proof.
  destruct o; cbn; try discriminate. destruct (nth_error (h_pipes s) i) as [p|] eqn:E; [|discriminate].
  intros H. apply andb_true_iff in H as [H Hc]. apply andb_true_iff in H as [Hl Ht].
  exists i, p. repeat split; try assumption.
  - intros Z. rewrite Z in Ht. discriminate.
  - destruct (p_clob p); [discriminate|reflexivity].
Qed.

Lemma hrun_protected ops : forall s, covered s ->
  match first_protected s ops with
  | None => True
  | Some k => length (snd (hrun repaired s ops)) <= k
              \/ (length (snd (hrun repaired s ops)) = S k /\ fst (hrun repaired s ops) = Exited)
  end.
Proof.
  induction ops as [|o r IH]; intros s C; cbn [first_protected]; [exact Logic.I|].
  destruct (protected_panic s o) eqn:P.
  - apply protected_panic_inv in P as (i & p & -> & Hn & Hl & Ht & Hc). right.
    assert (V : verdict s (TWorker (p_threads p)) = (0, Some Exited)).
    { apply covered_verdict; [exact C|]. exists p. split; [eapply nth_error_In; exact Hn|split; assumption]. }
    cbn [hrun]. rewrite (hpanic_protected s i p Hn Hl Ht), V. cbn. split; reflexivity.
  - cbn [hrun]. destruct (hpanic s o) as [t|] eqn:HP.
    + rewrite (hpanic_hstep repaired s o t HP).
      destruct (verdict s t) as [n [st|]].
      * destruct (first_protected s r); cbn; [left; lia|exact Logic.I].
      * specialize (IH s C). destruct (first_protected s r) as [k|]; cbn; [|exact Logic.I].
        destruct (hrun repaired s r) as [st l]. cbn in *. destruct IH as [IH|[IH1 IH2]]; [left; lia|right; split; [lia|exact IH2]].
    + specialize (IH (hstep repaired s o) (covered_step s o C)).
      destruct (first_protected (hstep repaired s o) r) as [k|]; cbn; [|exact Logic.I].
      destruct (hrun repaired (hstep repaired s o) r) as [st l]. cbn in *.
      destruct IH as [IH|[IH1 IH2]]; [left; lia|right; split; [lia|exact IH2]].
Qed.

Lemma status_code_0 st : Z.eqb (status_code st) 0 = true <-> st = Finished.
Proof. destruct st; cbn; split; intros H; try discriminate; reflexivity. Qed.

Lemma status_code_1 st : Z.eqb (status_code st) 1 = true <-> st = Exited.
Proof. destruct st; cbn; split; intros H; try discriminate; reflexivity. Qed.

Lemma hrun_meets_check_l ops :
  hook_ok ops (status_code (fst (hrun repaired hinit ops))) (snd (hrun repaired hinit ops)) = true.
Proof.
  unfold hook_ok. rewrite status_known. cbn [andb].
  pose proof (hrun_length repaired ops hinit) as HL.
  destruct (hrun_finished repaired ops hinit) as [HF HN].
  pose proof (hrun_protected ops hinit covered_init) as HP.
  destruct (hrun repaired hinit ops) as [st l]. cbn [fst snd] in *.
  apply andb_true_iff. split; [apply andb_true_iff; split|].
  - apply Nat.leb_le. exact HL.
  - destruct (Z.eqb (status_code st) 0) eqn:E.
    + apply Nat.eqb_eq. apply HF. apply status_code_0. exact E.
    + assert (st <> Finished) as Hne by (intros ->; discriminate).
      specialize (HN Hne). destruct l; [contradiction|reflexivity].
  - destruct (first_protected hinit ops) as [k|]; [|reflexivity].
    destruct HP as [HP|[HP1 HP2]].
    + apply orb_true_iff. left. apply Nat.leb_le. exact HP.
    + apply orb_true_iff. right. apply andb_true_iff. split; [apply Nat.eqb_eq; exact HP1|].
      apply status_code_1. exact HP2.
Qed.

(** what an accepting verdict of [hook_ok] means *)
Lemma first_protected_spec ops : forall s k,
  first_protected s ops = Some k ->
  exists i p, nth_error ops k = Some (PanicIn i)
    /\ nth_error (h_pipes (hexec repaired s (firstn k ops))) i = Some p
    /\ p_live p = true /\ p_threads p <> 0 /\ p_clob p = false
    /\ forall j, j < k -> protected_panic (hexec repaired s (firstn j ops)) (nth j ops Nop) = false.
Proof.
  induction ops as [|o r IH]; intros s k; cbn [first_protected]; [discriminate|].
  destruct (protected_panic s o) eqn:P.
  - intros E. injection E as <-. apply protected_panic_inv in P as (i & p & -> & Hn & Hl & Ht & Hc).
    exists i, p. cbn. repeat split; try assumption. intros j Hj. lia.
  - destruct (first_protected (hstep repaired s o) r) as [k'|] eqn:E; cbn; [|discriminate].
    intros E'. injection E' as <-. destruct (IH _ _ E) as (i & p & H1 & H2 & H3 & H4 & H5 & H6).
    exists i, p. cbn. repeat split; try assumption.
    intros [|j] Hj; cbn; [exact P|]. apply H6. lia.
Qed.

Lemma hook_ok_sound_l ops code counts k :
  hook_ok ops code counts = true -> first_protected hinit ops = Some k -> k < length counts ->
  length counts = S k /\ code = 1%Z.
Proof.
  unfold hook_ok. intros H E Hk. rewrite E in H.
  apply andb_true_iff in H as [_ H]. apply orb_true_iff in H as [H|H].
  - apply Nat.leb_le in H. lia.
  - apply andb_true_iff in H as [H1 H2]. apply Nat.eqb_eq in H1. apply Z.eqb_eq in H2. split; assumption.
Qed.

(** UCD — pinned statements about the Unicode class predicates, case mapping and the word scanner of
    [text::split_words] (UCD_Model.v, tables in UCD_Table.v).  Nothing but statements, [exact], and
    assumption audits.  Vocabulary: [in_ranges T c] = "c lies in one of the ranges of the translated table
    T"; [std_*] tables are those of the Rust standard library (Unicode 17.0.0), [re_*] those of
    regex-syntax (Unicode 16.0.0); [wclass] = the class [\p{Alphabetic}\p{M}\p{Pc}\p{Join_Control}] of
    the word regex, [re_word] = [\w]; [word_parts w] = the regex matches inside a whitespace-free word
    with their code point positions; [max_wrun w p r] = "r is a maximal run of [\w] characters of w
    starting at position p" (defined in UCD_Model.v). *)
From Coq Require Import Sorting.Sorted.
From TU Require Import Base UCD_Model UCD_Ranges UCD_Lower UCD_Words UCD_Specs.
Open Scope N_scope.

(** ** Tables *)
(** every translated table is a strictly increasing list of disjoint, well-formed ranges *)
Theorem tables_sorted :
  forallb (fun t => ranges_sorted 0 (unit_ranges t)) all_sets = true
  /\ ranges_sorted 0 lower_singles_list = true.
Proof. exact tables_sorted_l. Qed.
Print Assumptions tables_sorted.

(** ... so the search trees the model evaluates are membership in the lists (lookup = membership) *)
Theorem tables_lookup : forall x,
  rmem alphabetic_t x = in_ranges std_alphabetic x
  /\ rmem case_ignorable_t x = in_ranges std_case_ignorable x
  /\ rmem lowercase_t x = in_ranges std_lowercase x
  /\ rmem uppercase_t x = in_ranges std_uppercase x
  /\ rmem lt_t x = in_ranges std_lt x
  /\ rmem re_alphabetic_t x = in_ranges re_alphabetic x
  /\ rmem re_mark_t x = in_ranges re_mark x
  /\ rmem re_nd_t x = in_ranges re_decimal_number x
  /\ rmem re_pc_t x = in_ranges re_connector_punctuation x
  /\ rmem re_jc_t x = in_ranges re_join_control x
  /\ rmem re_punct_t x = in_ranges re_punctuation x
  /\ rmem re_word_t x = in_ranges re_perl_word x
  /\ rlookup lower_singles_t x = llookup lower_singles_list x.
Proof. exact tables_lookup_l. Qed.
Print Assumptions tables_lookup.

Theorem in_ranges_spec : forall l x,
  in_ranges l x = true <-> exists lo hi, In (lo, hi) l /\ lo <= x /\ x <= hi.
Proof. exact in_ranges_iff. Qed.
Print Assumptions in_ranges_spec.

(** ** The predicates, without fast paths *)
Theorem is_alphabetic_spec : forall c,
  is_alphabetic c = ascii_lower c || ascii_upper c || in_ranges std_alphabetic c.
Proof. exact is_alphabetic_spec_l. Qed.
Print Assumptions is_alphabetic_spec.

Theorem is_cased_spec : forall c,
  is_cased c = ascii_lower c || ascii_upper c
               || in_ranges std_lowercase c || in_ranges std_uppercase c || in_ranges std_lt c.
Proof. exact is_cased_spec_l. Qed.
Print Assumptions is_cased_spec.

Theorem is_case_ignorable_spec : forall c,
  is_case_ignorable c = existsb (N.eqb c) [39; 46; 58; 94; 96] || in_ranges std_case_ignorable c.
Proof. exact is_case_ignorable_spec_l. Qed.
Print Assumptions is_case_ignorable_spec.

(** [unicode::is_punctuation] = the anchored [^\p{P}+$]: non-empty and every code point in \p{P} *)
Theorem is_punctuation_spec : forall s,
  str_is_punctuation s = true <-> s <> [] /\ forall c, In c s -> in_ranges re_punctuation c = true.
Proof. exact str_is_punctuation_spec_l. Qed.
Print Assumptions is_punctuation_spec.

(** the class of the word regex, and [\w] = class + decimal digits, disjointly (table facts over all code
    points: range covers computed and lifted by [subset_any_sound] / [disjoint_sound]) *)
Theorem wclass_spec : forall c,
  wclass c = in_ranges re_alphabetic c || in_ranges re_mark c || in_ranges re_connector_punctuation c
             || in_ranges re_join_control c.
Proof. exact wclass_spec_l. Qed.
Print Assumptions wclass_spec.

Theorem word_char_spec : forall c,
  re_word c = in_ranges re_perl_word c
  /\ re_word c = wclass c || in_ranges re_decimal_number c
  /\ (in_ranges re_decimal_number c = true -> wclass c = false).
Proof. exact re_word_spec_l. Qed.
Print Assumptions word_char_spec.

(** ** Case mapping *)
(** [conversions::to_lower] in terms of first-match lookups in the translated LUT *)
Theorem to_lower_spec : forall c,
  to_lower c =
  if c <? 192 then [if ascii_upper c then c + 32 else c]
  else match llookup lower_singles_list c with
       | Some (lo, par, d) => if negb par || Bool.eqb (N.odd c) (N.odd lo) then [add_delta c d] else lut_other c
       | None => lut_other c
       end.
Proof. exact to_lower_spec_l. Qed.
Print Assumptions to_lower_spec.

(** every image of the per-character mapping is a fixed point of the mapping and is not U+03A3
    (all 1462 + 26 mapped code points checked by computation, lifted to all code points) *)
Theorem to_lower_fixed_point : forall c d, In d (to_lower c) -> d <> sigma_cap /\ to_lower d = [d].
Proof. exact to_lower_fixed_in. Qed.
Print Assumptions to_lower_fixed_point.

(** [str::to_lowercase], position by position: the image is the concatenation of the images of the
    positions; position i maps through [lower_at] with the characters before it (nearest first) and behind
    it: U+03A3 becomes U+03C2 iff a cased character precedes it across case-ignorable ones and none follows
    it that way, every other character takes [to_lower] *)
Theorem to_lowercase_positions : forall s,
  to_lowercase s = concat (lower_positions [] s)
  /\ length (lower_positions [] s) = length s
  /\ forall i c, nth_error s i = Some c ->
       nth_error (lower_positions [] s) i = Some (lower_at (rev (firstn i s)) c (skipn (S i) s)).
Proof. exact to_lowercase_positions_l. Qed.
Print Assumptions to_lowercase_positions.

(** idempotent on ALL strings (the final-sigma rule included) *)
Theorem to_lowercase_idempotent : forall s, to_lowercase (to_lowercase s) = to_lowercase s.
Proof. exact to_lowercase_idem_l. Qed.
Print Assumptions to_lowercase_idempotent.

Theorem to_lowercase_no_sigma : forall s, ~ In sigma_cap (to_lowercase s).
Proof. exact to_lowercase_no_sigma_l. Qed.
Print Assumptions to_lowercase_no_sigma.

(** without U+03A3 the mapping is character by character; on ASCII it is [to_ascii_lowercase] *)
Theorem to_lowercase_flat : forall s, ~ In sigma_cap s -> to_lowercase s = flat_map to_lower s.
Proof. intros s H. exact (lower_from_nosigma s [] H). Qed.
Print Assumptions to_lowercase_flat.

Theorem to_lowercase_ascii : forall s, Forall (fun c => c < 128) s -> to_lowercase s = map ascii_lc s.
Proof. exact to_lowercase_ascii_l. Qed.
Print Assumptions to_lowercase_ascii.

(** the word relation of [match_words(.., ignore_case = true)] is an equivalence relation: the kernel of
    [to_lowercase]; a word is related to its lower-cased form *)
Theorem ci_eqb_equivalence : forall a b c,
  (ci_eqb a b = true <-> to_lowercase a = to_lowercase b)
  /\ ci_eqb a a = true
  /\ ci_eqb a b = ci_eqb b a
  /\ (ci_eqb a b = true -> ci_eqb b c = true -> ci_eqb a c = true)
  /\ ci_eqb a (to_lowercase a) = true.
Proof.
  intros a b c. split; [apply ci_eqb_iff|]. split; [apply ci_eqb_refl_l|]. split; [apply ci_eqb_sym_l|].
  split; [apply ci_eqb_trans_l|apply ci_eqb_lower_l].
Qed.
Print Assumptions ci_eqb_equivalence.

(** ** The word scanner *)
(** the regex engine's matches of [\b[class]+\b] (leftmost start, greedy run with backtracking on the
    closing boundary, next search at the end of the match) are exactly the maximal [\w]-runs that consist
    of class characters only — [class_runs] is the one-pass reference *)
Theorem word_parts_eq : forall w, word_parts w = class_runs w.
Proof. exact word_parts_eq_l. Qed.
Print Assumptions word_parts_eq.

(** what the reference lists: all and only the maximal [\w]-runs *)
Theorem word_runs_iff : forall w p run, In (p, run) (word_runs w) <-> max_wrun w p run.
Proof. exact word_runs_iff_l. Qed.
Print Assumptions word_runs_iff.

(** hence: (p, part) is returned iff part is a non-empty substring of w at position p, all of its
    characters are class characters, and the character before it and the character behind it (if any) are
    not [\w] — neither class characters nor decimal digits: a digit next to letters suppresses the match *)
Theorem word_parts_iff : forall w p part,
  In (p, part) (word_parts w) <->
  (exists pre post, w = pre ++ part ++ post /\ length pre = p /\ part <> []
     /\ forallb re_word part = true /\ is_w (last_error pre) = false /\ is_w (hd_error post) = false)
  /\ forallb wclass part = true.
Proof. exact word_parts_iff_l. Qed.
Print Assumptions word_parts_iff.

(** in order, non-overlapping, separated by at least one character *)
Theorem word_parts_sorted : forall w,
  StronglySorted (fun p q : nat * str => (fst p + length (snd p) < fst q)%nat) (word_parts w).
Proof. exact word_parts_sorted_l. Qed.
Print Assumptions word_parts_sorted.

(** [str::split_whitespace] / any separator predicate: the three equations that determine the split,
    and the pieces are non-empty and separator-free *)
Theorem split_by_spec : forall sep,
  split_by sep [] = []
  /\ (forall w, w <> [] /\ forallb (fun c => negb (sep c)) w = true -> split_by sep w = [w])
  /\ (forall (u : str) (c : cp) (v : str), sep c = true -> split_by sep (u ++ c :: v) = split_by sep u ++ split_by sep v)
  /\ (forall s, Forall (fun w => w <> [] /\ forallb (fun c => negb (sep c)) w = true) (split_by sep s)).
Proof.
  intros sep. split; [reflexivity|]. split; [exact (split_by_word_l sep)|]. split; [exact (split_by_sep_l sep)|].
  exact (split_by_ok_l sep).
Qed.
Print Assumptions split_by_spec.

(** Non-vacuity and worked examples *)
Example to_lowercase_witness :
  to_lowercase [913; 931] = [945; 962]              (* ΑΣ -> ας *)
  /\ to_lowercase [913; 931; 913] = [945; 963; 945] (* ΑΣΑ -> ασα *)
  /\ to_lowercase [931] = [963]                     (* Σ alone -> σ *)
  /\ to_lowercase [913; 39; 931; 46] = [945; 39; 962; 46]   (* case-ignorable ' and . are skipped *)
  /\ to_lowercase [304] = [105; 775]                (* İ -> i + U+0307 *)
  /\ to_lowercase [42877] = [7545]                  (* U+A77D -> U+1D79: the 16-bit delta wraps *)
  /\ to_lowercase [66560] = [66600].                (* U+10400 -> U+10428: plane 1 *)
Proof. vm_compute. repeat split; reflexivity. Qed.
Example word_parts_witness :
  word_parts [117;110;105;116;45;116;101;115;116;33] = [(0%nat, [117;110;105;116]); (5%nat, [116;101;115;116])]  (* unit-test! *)
  /\ word_parts [97;98;49;50] = []          (* ab12: the digit is \w but not in the class *)
  /\ word_parts [49;50;97;98] = []          (* 12ab *)
  /\ word_parts [97;95;98;8205;99] = [(0%nat, [97;95;98;8205;99])]   (* a_b ZWJ c: Pc and Join_Control belong to the class *)
  /\ word_parts [97;98;45;49;50;45;99] = [(0%nat, [97;98]); (6%nat, [99])].
Proof. vm_compute. repeat split; reflexivity. Qed.
Example max_wrun_witness : max_wrun [45;97;98;33] 1 [97;98].
Proof.
  exists [45], [33]. repeat split; try reflexivity; try discriminate; vm_compute; reflexivity.
Qed.
Example split_by_witness : [120; 160; 121] <> [] /\ forallb (fun c => negb (is_ascii_ws c)) [120; 160; 121] = true.
Proof. split; [discriminate|vm_compute; reflexivity]. Qed.
Example to_lowercase_ascii_witness : Forall (fun c => c < 128) [72; 105; 33].
Proof. repeat constructor. Qed.
(** the two Unicode versions differ: U+A7CE (new in Unicode 17.0) is alphabetic for the std, unknown to the
    tables of regex-syntax (16.0) *)
Example versions_differ : is_alphabetic 42958 = true /\ in_ranges re_alphabetic 42958 = false.
Proof. vm_compute. split; reflexivity. Qed.

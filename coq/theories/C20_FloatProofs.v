(** C20 — proofs about the binary64 level of [get] / [get_closest] (C20_Float.v).  Everything here goes through Flocq's
    theory of [B2R] and therefore depends on the axioms of the real numbers; pinned in C20_FloatProps.v only. *)
From Coq Require Import ZArith List Bool QArith Qreals Reals Lia Lra.
From Flocq Require Import Core IEEE754.BinarySingleNaN.
From TU Require Import Base C12_Model C12_Proofs C12_Float C12_FloatBase C12_FloatProofs.
From TU Require Import C20_Model C20_Closest C20_Words C20_Bytes C20_BytesProofs C20_Float.
Import ListNotations.
Close Scope Q_scope.
Close Scope R_scope.
Open Scope N_scope.

(** * the float passes select what the rational passes select *)
Lemma combine_map {A B} (f : A -> B) (l : list A) : combine (map f l) l = map (fun e => (f e, e)) l.
Proof. induction l as [|x l IH]; [reflexivity|]. cbn [map combine]. rewrite IH. reflexivity. Qed.

Lemma flt_inf (x : f64) : is_finite x = true -> flt64 x f64_inf = true.
Proof. destruct x as [s|s| |s m e Hb]; try discriminate; intros _; reflexivity. Qed.

Section Passes.
  Variable fq : word * N -> Q.
  Variable ff : word * N -> f64.
  Variable l : list (word * N).
  Hypothesis Hfin : forall x, In x l -> is_finite (ff x) = true.
  Hypothesis Hlt : forall x y, In x l -> In y l -> (flt64 (ff x) (ff y) = true <-> (fq x < fq y)%Q).
  Hypothesis Heq : forall x y, In x l -> In y l -> (feq64 (ff x) (ff y) = true <-> (fq x == fq y)%Q).

  Lemma pass1_fl_some : forall r m ties, In m l -> (forall x, In x r -> In x l) ->
    pass1_fl (map (fun e => (ff e, e)) r) (ff m) ties = pass1 (map (fun e => (fq e, e)) r) (Some (fq m)) ties.
  Proof using Hlt Heq.
    induction r as [|e r IH]; intros m ties Hm Hr; [reflexivity|]. cbn [map pass1_fl pass1].
    assert (He : In e l) by (apply Hr; left; reflexivity).
    assert (Hr' : forall x, In x r -> In x l) by (intros x Hx; apply Hr; right; exact Hx).
    assert (E1 : flt64 (ff e) (ff m) = q_ltb (fq e) (fq m)).
    { apply Bool.eq_true_iff_eq. rewrite (Hlt e m He Hm), q_ltb_lt. reflexivity. }
    assert (E2 : feq64 (ff e) (ff m) = Qeq_bool (fq e) (fq m)).
    { apply Bool.eq_true_iff_eq. rewrite (Heq e m He Hm), Qeq_bool_iff. reflexivity. }
    rewrite E1, E2. destruct (q_ltb (fq e) (fq m)); [apply IH; assumption|].
    destruct (Qeq_bool (fq e) (fq m)); apply IH; assumption.
  Qed.

  Lemma pass1_fl_none : forall r, (forall x, In x r -> In x l) ->
    pass1_fl (map (fun e => (ff e, e)) r) f64_inf [] = pass1 (map (fun e => (fq e, e)) r) None [].
  Proof using Hfin Hlt Heq.
    intros [|e r] Hr; [reflexivity|]. cbn [map pass1_fl pass1].
    rewrite (flt_inf (ff e) (Hfin e (Hr e (or_introl eq_refl)))).
    apply pass1_fl_some; [apply Hr; left; reflexivity|intros x Hx; apply Hr; right; exact Hx].
  Qed.

  Lemma pass1_fl_pass1 :
    pass1_fl (map (fun e => (ff e, e)) l) f64_inf [] = pass1 (map (fun e => (fq e, e)) l) None [].
  Proof using Hfin Hlt Heq. apply pass1_fl_none. intros x Hx; exact Hx. Qed.
End Passes.

(** texts below 2^26 clusters (C12_FloatProofs.short) *)
Definition short_dict (d : dict) : Prop := forall e, In e d -> short (seg_key (fst e)).

Lemma short_len_ok a b : short a -> short b -> len_ok a b.
Proof. unfold short, len_ok, P53. intros Ha Hb. lia. Qed.

Lemma nofl_sid : sid nofl = false. Proof. reflexivity. Qed.

Lemma distance_fl_finite fl nm a b : len_ok a b -> is_finite (distance_fl fl nm a b) = true.
Proof.
  intro H. unfold distance_fl. rewrite q_fl_quot. unfold distance. cbn [Qnum Qden].
  destruct (quot_spec _ _ (dist_bounds fl a b H) (norm_den_bounds nm a b H)) as (F & _ & _). exact F.
Qed.

Lemma closest_fl_eq_l norm q (d : dict) : short q -> short_dict d -> closest_fl norm q d = closest_m norm q d.
Proof.
  intros Hq Hd. unfold closest_fl, closest_m. destruct d as [|e0 d0]; [reflexivity|].
  set (d := e0 :: d0) in *. unfold dists_fl. rewrite combine_map.
  rewrite (pass1_fl_pass1 (kdist_m norm q) (fun e => distance_fl nofl norm q (seg_key (fst e))) d); [reflexivity| | |].
  - intros x Hx. apply distance_fl_finite, short_len_ok; [exact Hq|apply Hd, Hx].
  - intros x y Hx Hy.
    destruct (norm_fl_order_exact_l nofl nofl norm q (seg_key (fst x)) q (seg_key (fst y))
                nofl_sid nofl_sid Hq (Hd x Hx) Hq (Hd y Hy)) as (A & _ & _). exact A.
  - intros x y Hx Hy.
    destruct (norm_fl_order_exact_l nofl nofl norm q (seg_key (fst x)) q (seg_key (fst y))
                nofl_sid nofl_sid Hq (Hd x Hx) Hq (Hd y Hy)) as (_ & B & _). exact B.
Qed.

Lemma closest_spec_fl_l norm q (d : dict) : short q -> short_dict d ->
  (d = [] -> closest_fl norm q d = CNone) /\
  (d <> [] ->
   exists e, closest_fl norm q d = CSome e /\ In e d /\
     forall e', In e' d ->
       (kdist_m norm q e <= kdist_m norm q e')%Q /\
       ((kdist_m norm q e' == kdist_m norm q e)%Q -> snd e' <= snd e)).
Proof. intros Hq Hd. rewrite (closest_fl_eq_l norm q d Hq Hd). apply closest_m_spec_l. Qed.

(** every distance is the correctly rounded rational distance, a finite double *)
Lemma dists_fl_correct_l norm q (d : dict) : short q -> short_dict d ->
  length (dists_fl norm q d) = length d /\
  forall e, In e d ->
    is_finite (distance_fl nofl norm q (seg_key (fst e))) = true /\
    B2R (distance_fl nofl norm q (seg_key (fst e))) = rnd prec64 emax64 (Q2R (kdist_m norm q e)).
Proof.
  intros Hq Hd. split; [unfold dists_fl; apply map_length|]. intros e He.
  pose proof (short_len_ok _ _ Hq (Hd e He)) as L. split; [apply distance_fl_finite, L|].
  destruct (norm_fl_correct_l nofl norm q (seg_key (fst e)) L) as [[E _] _]. exact E.
Qed.

(** * relative frequencies *)
Open Scope R_scope.

Definition P53N : N := 9007199254740992.
Lemma P53N_Z : Z.of_N P53N = P53. Proof. reflexivity. Qed.

Lemma relfreq_range_l (f fs : N) : (0 < fs)%N -> (fs <= P53N)%N -> (f <= fs)%N ->
  is_finite (relfreq_fl f fs) = true /\ 0 <= B2R (relfreq_fl f fs) <= 1 /\ Bsign (relfreq_fl f fs) = false.
Proof.
  intros H0 H1 H2. unfold relfreq_fl.
  assert (D : (0 <= Z.of_N f <= P53)%Z) by (rewrite <- P53N_Z; lia).
  assert (M : (1 <= Z.of_N fs <= P53)%Z) by (rewrite <- P53N_Z; lia).
  destruct (quot_spec _ _ D M) as (F & _ & S). split; [exact F|]. split; [|exact S].
  split; [apply quot_nonneg; assumption|].
  apply (quot_le_k 1); [apply fmt_one|assumption|assumption|lia].
Qed.

Lemma relfreq_close_l (f fs : N) : (0 < fs)%N -> (fs <= P53N)%N -> (f <= fs)%N ->
  Rabs (B2R (relfreq_fl f fs) - IZR (Z.of_N f) / IZR (Z.of_N fs)) <= u53 * (IZR (Z.of_N f) / IZR (Z.of_N fs)).
Proof.
  intros H0 H1 H2. unfold relfreq_fl. apply quot_close; rewrite <- P53N_Z; lia.
Qed.

Lemma relfreq_one_l (fs : N) : (0 < fs)%N -> (fs <= P53N)%N -> relfreq_fl fs fs = f64_one.
Proof. intros H0 H1. unfold relfreq_fl. apply quot_one. rewrite <- P53N_Z. lia. Qed.

Lemma relfreq_zero_iff_l (f fs : N) : (0 < fs)%N -> (fs <= P53N)%N -> (f <= fs)%N ->
  (relfreq_fl f fs = f64_zero <-> f = 0%N).
Proof.
  intros H0 H1 H2. unfold relfreq_fl.
  rewrite (quot_zero_iff (Z.of_N f) (Z.of_N fs)); [lia| |]; rewrite <- P53N_Z; lia.
Qed.

Lemma relfreq_nan_l : relfreq_fl 0 0 = B754_nan.
Proof. vm_compute. reflexivity. Qed.

(** the relative frequencies of a dictionary sum to 1 up to one rounding: within [1 - 2^-53, 1 + 2^-53] as reals *)
Fixpoint sumR (l : list R) : R := match l with [] => 0 | x :: r => x + sumR r end.

Lemma sumN_IZR (l : list N) : IZR (Z.of_N (sumN l)) = sumR (map (fun f => IZR (Z.of_N f)) l).
Proof.
  induction l as [|x l IH]; [reflexivity|]. cbn [sumN fold_right map sumR].
  change (fold_right N.add 0%N l) with (sumN l). rewrite N2Z.inj_add, plus_IZR, IH. reflexivity.
Qed.

Lemma In_le_sumN x (l : list N) : In x l -> (x <= sumN l)%N.
Proof.
  induction l as [|y l IH]; [intros []|]. cbn [sumN fold_right]. change (fold_right N.add 0%N l) with (sumN l).
  intros [->|H]; [lia|]. specialize (IH H). lia.
Qed.

Lemma relfreq_sum_aux (fs : N) (l : list N) : (0 < fs)%N -> (fs <= P53N)%N -> (forall f, In f l -> (f <= fs)%N) ->
  Rabs (sumR (map (fun f => B2R (relfreq_fl f fs)) l) - sumR (map (fun f => IZR (Z.of_N f)) l) / IZR (Z.of_N fs))
  <= u53 * (sumR (map (fun f => IZR (Z.of_N f)) l) / IZR (Z.of_N fs)).
Proof.
  intros H0 H1. induction l as [|x l IH]; intro Hl.
  - cbn [map sumR]. unfold Rdiv. rewrite Rmult_0_l, Rminus_0_r, Rabs_R0, Rmult_0_r. lra.
  - cbn [map sumR].
    assert (Hx : (x <= fs)%N) by (apply Hl; left; reflexivity).
    assert (Hl' : forall f, In f l -> (f <= fs)%N) by (intros f Hf; apply Hl; right; exact Hf).
    specialize (IH Hl'). pose proof (relfreq_close_l x fs H0 H1 Hx) as Cx.
    set (a := B2R (relfreq_fl x fs)) in *. set (b := sumR (map (fun f => B2R (relfreq_fl f fs)) l)) in *.
    set (p := IZR (Z.of_N x)) in *. set (s := sumR (map (fun f => IZR (Z.of_N f)) l)) in *.
    set (m := IZR (Z.of_N fs)) in *.
    replace (a + b - (p + s) / m) with ((a - p / m) + (b - s / m)) by (unfold Rdiv; ring).
    replace (u53 * ((p + s) / m)) with (u53 * (p / m) + u53 * (s / m)) by (unfold Rdiv; ring).
    eapply Rle_trans; [apply Rabs_triang|]. apply Rplus_le_compat; assumption.
Qed.

Lemma relfreq_sum_l (d : dict) : (0 < freq_sum d)%N -> (freq_sum d <= P53N)%N ->
  Rabs (sumR (map (fun e : word * N => B2R (relfreq_fl (snd e) (freq_sum d))) d) - 1) <= u53.
Proof.
  intros H0 H1. set (fs := freq_sum d) in *.
  pose proof (relfreq_sum_aux fs (map snd d) H0 H1) as A. rewrite !map_map in A.
  assert (Hl : forall f, In f (map snd d) -> (f <= fs)%N) by (intros f Hf; apply In_le_sumN; exact Hf).
  specialize (A Hl).
  assert (S : sumR (map (fun x : word * N => IZR (Z.of_N (snd x))) d) = IZR (Z.of_N fs)).
  { unfold fs, freq_sum. rewrite sumN_IZR, map_map. reflexivity. }
  rewrite S in A.
  assert (Hm : IZR (Z.of_N fs) <> 0) by (apply not_0_IZR; lia).
  replace (IZR (Z.of_N fs) / IZR (Z.of_N fs)) with 1 in A by (field; exact Hm).
  rewrite Rmult_1_r in A. exact A.
Qed.

(** C12 proofs, part 4: bounds on the distance and the normalised value over Q. *)
From TU Require Import Base C12_Model C12_Spec C12_Matrix.
From Coq Require Import Lia QArith.
Open Scope nat_scope.

Lemma sub_ok_nosid fl x y : sid fl = false -> sub_ok fl x y = true.
Proof. intros H. unfold sub_ok. rewrite H. reflexivity. Qed.

(** replace along the diagonal, insert/delete the rest *)
Lemma Dc_le_max fl : sid fl = false -> forall ra rb, fst (Dc fl ra rb) <= Nat.max (length ra) (length rb).
Proof.
  intros Hs. induction ra as [|x ra IH]; intros rb.
  - rewrite Dc_nil_l. cbn [length]. lia.
  - destruct rb as [|y rb].
    + rewrite Dc_nil_r. lia.
    + rewrite Dc_cons. specialize (IH rb). cbn [length]. destruct (cl_eqb x y) eqn:E.
      * etransitivity; [apply pick_le with (e := (fst (Dc fl ra rb), MKeep))|cbn [fst]; lia].
        apply in_candidates. right; right; left. split; [exact E|reflexivity].
      * etransitivity; [apply pick_le with (e := (S (fst (Dc fl ra rb)), MReplace))|cbn [fst]; lia].
        apply in_candidates. right; right; right; left. split; [exact E|]. split; [|reflexivity].
        apply sub_ok_nosid. exact Hs.
Qed.

Lemma Dc_le_sum fl : forall ra rb, fst (Dc fl ra rb) <= length ra + length rb.
Proof.
  induction ra as [|x ra IH]; intros rb.
  - rewrite Dc_nil_l. cbn [length]. lia.
  - destruct rb as [|y rb].
    + rewrite Dc_nil_r. lia.
    + rewrite Dc_cons. specialize (IH (y :: rb)). cbn [length] in *.
      etransitivity; [apply pick_le with (e := (S (fst (Dc fl ra (y :: rb))), MDelete))|cbn [fst]; lia].
      apply in_candidates. left. reflexivity.
Qed.

Lemma Dc_refl fl : forall ra, fst (Dc fl ra ra) = 0.
Proof.
  induction ra as [|x ra IH]; [rewrite Dc_nil_nil; reflexivity|].
  rewrite Dc_cons. apply Nat.le_0_r.
  etransitivity; [apply pick_le with (e := (fst (Dc fl ra ra), MKeep))|cbn [fst]; rewrite IH; lia].
  apply in_candidates. right; right; left. split; [apply cl_eqb_refl|reflexivity].
Qed.

Lemma dist_le_max fl a b : sid fl = false -> dist fl a b <= Nat.max (length a) (length b).
Proof.
  intros Hs. rewrite dist_Dref. unfold Dref.
  pose proof (Dc_le_max fl Hs (rev a) (rev b)) as H. rewrite !rev_length in H. exact H.
Qed.
Lemma dist_le_sum fl a b : dist fl a b <= length a + length b.
Proof.
  rewrite dist_Dref. unfold Dref.
  pose proof (Dc_le_sum fl (rev a) (rev b)) as H. rewrite !rev_length in H. exact H.
Qed.
Lemma dist_refl fl a : dist fl a a = 0.
Proof. rewrite dist_Dref. apply Dc_refl. Qed.

Lemma Align_0 fl a b n : Align fl a b n -> n = 0 -> a = b.
Proof.
  induction 1; intros E; try discriminate; [reflexivity|]. f_equal. apply IHAlign. exact E.
Qed.
Lemma dist_zero_iff fl a b : dist fl a b = 0 <-> a = b.
Proof.
  split; [|intros ->; apply dist_refl].
  intros H. apply (Align_0 fl a b 0); [|reflexivity]. rewrite <- H, dist_Dref. apply Dref_achieved.
Qed.

(** * Over Q *)
Lemma Zpos_of_nat m : 1 <= m -> Zpos (Pos.of_nat m) = Z.of_nat m.
Proof. intros H. rewrite <- positive_nat_Z. rewrite Nat2Pos.id by lia. reflexivity. Qed.

Lemma norm_den_Z a b :
  Zpos (norm_den true a b) = Z.of_nat (Nat.max (Nat.max (length a) (length b)) 1).
Proof. unfold norm_den. apply Zpos_of_nat. lia. Qed.

Lemma distance_unnormalised fl a b : distance fl false a b = inject_Z (Z.of_nat (dist fl a b)).
Proof. reflexivity. Qed.

(** the normalised value is the distance divided by the longer length (at least 1) *)
Lemma distance_normalised fl a b :
  (distance fl true a b * inject_Z (Z.of_nat (Nat.max (Nat.max (length a) (length b)) 1))
   == inject_Z (Z.of_nat (dist fl a b)))%Q.
Proof.
  unfold distance, Qeq, Qmult, inject_Z. cbn [Qnum Qden]. rewrite Pos.mul_1_r, norm_den_Z. lia.
Qed.

Lemma norm_nonneg fl nm a b : (0 <= distance fl nm a b)%Q.
Proof. unfold distance, Qle. cbn [Qnum Qden]. lia. Qed.

Lemma norm_le_1_l fl a b : sid fl = false -> (distance fl true a b <= 1)%Q.
Proof.
  intros Hs. unfold distance, Qle. cbn [Qnum Qden]. rewrite norm_den_Z.
  pose proof (dist_le_max fl a b Hs). lia.
Qed.

Lemma norm_le_2_l fl a b : (distance fl true a b <= 2)%Q.
Proof.
  unfold distance, Qle. cbn [Qnum Qden]. rewrite norm_den_Z.
  pose proof (dist_le_sum fl a b). lia.
Qed.

Lemma norm_zero_l fl nm a : (distance fl nm a a == 0)%Q.
Proof. unfold distance, Qeq. cbn [Qnum Qden]. rewrite dist_refl. reflexivity. Qed.

Lemma norm_zero_iff_l fl nm a b : (distance fl nm a b == 0)%Q <-> a = b.
Proof.
  rewrite <- (dist_zero_iff fl). unfold distance, Qeq. cbn [Qnum Qden]. lia.
Qed.

(** prefix distance: at most [length a] (the empty prefix), so its normalised value is in [0,1] *)
Lemma prefix_dist_le fl a b : prefix_dist fl a b <= length a.
Proof.
  destruct (prefix_dist_min_l fl a b) as [_ H]. specialize (H 0). cbn [firstn] in H.
  pose proof (dist_le_sum fl a []) as H2. cbn [length] in H2. lia.
Qed.
Lemma pnorm_range_l fl a b : (0 <= prefix_distance fl true a b <= 1)%Q.
Proof.
  unfold prefix_distance, Qle, pnorm_den. cbn [Qnum Qden].
  rewrite Zpos_of_nat by lia. pose proof (prefix_dist_le fl a b). lia.
Qed.

(** C15 with the random generator inside the model — definitions only.

    [edit_word_seeded] is src/corrupt.rs [edit_word] as the function of (word, exclusion set,
    enabled kinds, tables WITH their f64 weights, predicates, rng state) it is: the draws are
    computed by RNG_Model (ChaCha8, [random_range], [WeightedIndex<f64>]) in the order the code
    makes them, and the new generator state is returned.

      let edit_idx = edit_indices[rng.random_range(0..edit_indices.len())];     -- nothing drawn when no kind is enabled
      insert / replace:  candidates = positions (in increasing order) that are not excluded and whose
                         context has a table entry;  none -> unchanged, nothing more drawn;
                         (idx, (edits, weights)) = candidates[rng.random_range(0..candidates.len())];
                         edits[WeightedIndex::new(weights).expect(..).sample(rng)]
      delete / swap:     candidates = positions (increasing) passing the exclusion test and can_edit;
                         none -> unchanged; candidates[rng.random_range(0..candidates.len())]
      swap on a word of fewer than two characters: unchanged, nothing more drawn.

    The tables are the association lists of C15_Model with an f64 weight ([RNG_Model.f64w]) per edit
    string instead of the flag "weight > 0"; [erase] forgets the weights and gives the [cfg] of the
    relational model.  The candidate index lists ([ins_idxs], [del_idxs], [rep_idxs], [swap_idxs]),
    the context arithmetic ([prev_ctx], [get_or]) and [apply_word] / [apply_excl] are those of
    C15_Model: the seeded function picks ONE element of the set [choices] describes.

    Also here: [chain_seeded] (k calls threading word, exclusion set and generator),
    [spell_seeded] (the closure corrupt_spelling returns, artificial mode: the generator is
    [seed_from_u64 info.seed]; per word one f64 draw decides whether it is corrupted, one f64 draw
    per character counts the edits, then the chain), and the val glue of the exact correspondence. *)
From TU Require Import RNG_Model.
From TU Require Import Base C15_Model.

(** * Tables with weights *)
Definition wedit := (list cluster * f64w)%type.
Definition wins_entry := (str * str * list wedit)%type.
Definition wrep_entry := (str * str * str * list wedit)%type.

Record wcfg := {
  wk_ins : bool; wk_del : bool; wk_rep : bool; wk_swap : bool;
  wfull_del : bool;
  witab : list wins_entry;
  wrtab : list wrep_entry }.

Definition erase_edit (e : wedit) : edit := (fst e, fpos (snd e)).
Definition erase_ient (en : wins_entry) : ins_entry :=
  match en with (p, s, es) => (p, s, map erase_edit es) end.
Definition erase_rent (en : wrep_entry) : rep_entry :=
  match en with (p, s, n, es) => (p, s, n, map erase_edit es) end.

(** the configuration of the relational model: weights forgotten except for their sign *)
Definition erase (wc : wcfg) : cfg :=
  {| k_ins := wk_ins wc; k_del := wk_del wc; k_rep := wk_rep wc; k_swap := wk_swap wc;
     full_del := wfull_del wc;
     itab := map erase_ient (witab wc);
     rtab := map erase_rent (wrtab wc) |}.

Fixpoint wins_lookup (t : list wins_entry) (p s : str) : option (list wedit) :=
  match t with
  | [] => None
  | (p', s', es) :: t' =>
      if nlist_eqb p p' && nlist_eqb s s' then Some es else wins_lookup t' p s
  end.

Fixpoint wrep_lookup (t : list wrep_entry) (p s n : str) : option (list wedit) :=
  match t with
  | [] => None
  | (p', s', n', es) :: t' =>
      if nlist_eqb p p' && nlist_eqb s s' && nlist_eqb n n' then Some es else wrep_lookup t' p s n
  end.

(** provider results (repaired arithmetic; there is no overflow value any more) *)
Inductive wctx_res := WEmptyWord | WFound (o : option (list wedit)).

(** InsertEdits::get_edits *)
Definition wins_ctx (t : list wins_entry) (w : word) (idx : nat) : wctx_res :=
  let i := Nat.min idx (length w) in
  WFound (wins_lookup t (prev_ctx w i) (get_or w i eow)).

(** ReplaceEdits::get_edits *)
Definition wrep_ctx (t : list wrep_entry) (w : word) (idx : nat) : wctx_res :=
  let i := Nat.min idx (Nat.pred (length w)) in
  match nth_error w i with
  | None => WEmptyWord
  | Some s => WFound (wrep_lookup t (prev_ctx w i) s (get_or w (S i) eow))
  end.

(** the [filter_map] over the candidate positions, in index order *)
Fixpoint wcollect (prov : nat -> wctx_res) (idxs : list nat) : option (list (nat * list wedit)) :=
  match idxs with
  | [] => Some []
  | i :: r =>
    match prov i with
    | WFound (Some es) => option_map (cons (i, es)) (wcollect prov r)
    | WFound None => wcollect prov r
    | WEmptyWord => None
    end
  end.

(** * One call *)

(** [SOk k st]: the call made edit [k] and left the generator in [st];
    [SWeights e]: [WeightedIndex::new(weights).expect("invalid weights")] panicked;
    [SEmptyRange]: [random_range] on an empty range (never: see [seeded_total]);
    [SFault]: a provider faulted (never for the repaired providers) *)
Inductive sres := SOk (k : ed) (st : rng) | SWeights (e : werr) | SEmptyRange | SFault.

(** [edit_indices]: 0 insert, 1 delete, 2 replace, 3 swap, in this order *)
Definition kinds_of (c : wcfg) : list nat :=
  (if wk_ins c then [0] else []) ++ (if wk_del c then [1] else []) ++
  (if wk_rep c then [2] else []) ++ (if wk_swap c then [3] else []).

(** [rng.random_range(0..n)] as an index *)
Definition pick_idx (n : nat) (st : rng) : option (nat * rng) :=
  match random_range (N.of_nat n) st with
  | Some (x, st') => Some (N.to_nat x, st')
  | None => None
  end.

(** [sample_edit]: [WeightedIndex::new(weights)], [edits[dist.sample(rng)]] *)
Definition sample_edit (es : list wedit) (st : rng) : werr + (list cluster * rng) :=
  match weighted_sample_f (map snd es) st with
  | inl e => inl e
  | inr (i, _, st') => inr (fst (nth i es ([], f_zero)), st')
  end.

(** insert / replace after the kind was drawn *)
Definition seeded_table (mk : nat -> list cluster -> ed) (cands : option (list (nat * list wedit)))
                        (st1 : rng) : sres :=
  match cands with
  | None => SFault
  | Some [] => SOk ESame st1
  | Some cs =>
    match pick_idx (length cs) st1 with
    | None => SEmptyRange
    | Some (j, st2) =>
      let c := nth j cs (0, []) in
      match sample_edit (snd c) st2 with
      | inl e => SWeights e
      | inr (s, st3) => SOk (mk (fst c) s) st3
      end
    end
  end.

(** delete / swap after the kind was drawn *)
Definition seeded_index (mk : nat -> ed) (l : list nat) (st1 : rng) : sres :=
  match l with
  | [] => SOk ESame st1
  | _ => match pick_idx (length l) st1 with
         | None => SEmptyRange
         | Some (j, st2) => SOk (mk (nth j l 0)) st2
         end
  end.

Definition edit_word_seeded (c : wcfg) (cd cs : list bool) (w : word) (ex : list nat) (st : rng) : sres :=
  match kinds_of c with
  | [] => SOk ESame st
  | ks =>
    match pick_idx (length ks) st with
    | None => SEmptyRange
    | Some (r, st1) =>
      match nth r ks 4 with
      | 0 => seeded_table EIns (wcollect (wins_ctx (witab c) w) (ins_idxs w ex)) st1
      | 1 => seeded_index EDel (del_idxs (wfull_del c) cd w ex) st1
      | 2 => seeded_table ERep (wcollect (wrep_ctx (wrtab c) w) (rep_idxs w ex)) st1
      | 3 => if 1 <? length w then seeded_index ESwap (swap_idxs cs w ex) st1 else SOk ESame st1
      | _ => SOk ESame st1
      end
    end
  end.

(** the (word, exclusion set) the call returns *)
Definition seeded_result (c : wcfg) (cd cs : list bool) (w : word) (ex : list nat) (st : rng)
  : option (word * list nat * rng) :=
  match edit_word_seeded c cd cs w ex st with
  | SOk k st' => Some (apply_word k w, apply_excl k ex, st')
  | _ => None
  end.

(** * The sampler calls one call makes (at most three: kind, candidate, weight), as a script of
    RNG_Model [call]s; [seeded_draws_l] proves that running it moves the generator exactly as
    [edit_word_seeded] does *)
Definition table_draws (cands : option (list (nat * list wedit))) (st1 : rng) : list call :=
  match cands with
  | None | Some [] => []
  | Some cs =>
    CRange (N.of_nat (length cs)) ::
    match pick_idx (length cs) st1 with
    | None => []
    | Some (j, _) => [CWeightedF (map snd (snd (nth j cs (0, []))))]
    end
  end.

Definition index_draws (l : list nat) : list call :=
  match l with [] => [] | _ => [CRange (N.of_nat (length l))] end.

Definition edit_draws (c : wcfg) (cd cs : list bool) (w : word) (ex : list nat) (st : rng) : list call :=
  match kinds_of c with
  | [] => []
  | ks =>
    CRange (N.of_nat (length ks)) ::
    match pick_idx (length ks) st with
    | None => []
    | Some (r, st1) =>
      match nth r ks 4 with
      | 0 => table_draws (wcollect (wins_ctx (witab c) w) (ins_idxs w ex)) st1
      | 1 => index_draws (del_idxs (wfull_del c) cd w ex)
      | 2 => table_draws (wcollect (wrep_ctx (wrtab c) w) (rep_idxs w ex)) st1
      | 3 => if 1 <? length w then index_draws (swap_idxs cs w ex) else []
      | _ => []
      end
    end
  end.

(** [n] 32-bit words consumed *)
Fixpoint skip (n : nat) (st : rng) : rng :=
  match n with O => st | S n' => skip n' (snd (next_u32 st)) end.

(** * Chains: [k] calls, each fed the word, the exclusion set and the generator the previous one
    returned; [pf] gives the per-position predicates of a word (can_delete per position,
    can_swap per adjacent pair) *)
Fixpoint chain_seeded (c : wcfg) (pf : word -> list bool * list bool) (n : nat)
                      (w : word) (ex : list nat) (st : rng) : option (word * list nat * rng) :=
  match n with
  | O => Some (w, ex, st)
  | S n' =>
    match edit_word_seeded c (fst (pf w)) (snd (pf w)) w ex st with
    | SOk k st' => chain_seeded c pf n' (apply_word k w) (apply_excl k ex) st'
    | _ => None
    end
  end.

(** * corrupt_spelling, artificial mode (src/data/preprocessing.rs), on the words of a text:
      let r: f64 = rng.random();  if r > real_p + art_p { keep the word }      (real_p = 0)
      num_edits = (0..word_len).filter(|_| rng.random::<f64>() < art_char_edit_p).count().max(1)
      num_edits chained edit_word calls from the empty exclusion set; an empty result is dropped.
    [pw] = real_p + art_p, [pc] = art_char_edit_p as binary64 values; a draw is k * 2^-53. *)
Fixpoint count_draws (n : nat) (pc : f64w) (st : rng) : nat * rng :=
  match n with
  | O => (0, st)
  | S n' =>
    let (k, st1) := random_f64 st in
    let (c, st2) := count_draws n' pc st1 in
    ((if fgt pc (Fin k (-53)) then S c else c), st2)
  end.

Definition spell_word (c : wcfg) (pf : word -> list bool * list bool) (pw pc : f64w)
                      (w : word) (st : rng) : option (option word * rng) :=
  let (k, st1) := random_f64 st in
  if fgt (Fin k (-53)) pw then Some (Some w, st1)
  else
    let (n, st2) := count_draws (length w) pc st1 in
    match chain_seeded c pf (Nat.max n 1) w [] st2 with
    | Some (w', _, st3) => Some (match concat w' with [] => None | _ => Some w' end, st3)
    | None => None
    end.

Fixpoint spell_words (c : wcfg) (pf : word -> list bool * list bool) (pw pc : f64w)
                     (ws : list word) (st : rng) : option (list word * rng) :=
  match ws with
  | [] => Some ([], st)
  | w :: r =>
    match spell_word c pf pw pc w st with
    | None => None
    | Some (o, st1) =>
      match spell_words c pf pw pc r st1 with
      | None => None
      | Some (l, st2) => Some (match o with Some w' => w' :: l | None => l end, st2)
      end
    end
  end.

(** the closure [corrupt_spelling] returns: the generator is [ChaCha8Rng::seed_from_u64(info.seed)] *)
Definition spell_seeded (c : wcfg) (pf : word -> list bool * list bool) (pw pc : f64w)
                        (seed : N) (ws : list word) : option (list word) :=
  option_map fst (spell_words c pf pw pc ws (seed_from_u64 seed)).

(** what corrupt_spelling may do with one word: nothing, or the end of a chain of 1 .. max 1 |w| calls
    of the relational model from the empty exclusion set, dropped when it became empty *)
Definition word_result (c : wcfg) (w : word) (o : option word) : Prop :=
  o = Some w \/
  exists n w' ex', 1 <= n <= Nat.max 1 (length w) /\ chain (erase c) n (w, []) (w', ex') /\
                   o = match concat w' with [] => None | _ => Some w' end.

Fixpoint keep_some {A} (l : list (option A)) : list A :=
  match l with [] => [] | Some x :: r => x :: keep_some r | None :: r => keep_some r end.

(** * Well-formed weights: what makes [WeightedIndex::new] succeed and never return a zero weight.
    [fcanon]: a genuine non-negative finite binary64 value in the canonical form the harness sends
    (2^52 <= m < 2^53 and -1074 <= e <= 971, or m < 2^52 and e = -1074). *)
Definition fcanon (x : f64w) : bool :=
  match x with
  | Fin m e => ((4503599627370496 <=? m)%N && (m <? 9007199254740992)%N && (emin <=? e)%Z && (e <=? 971)%Z)
               || ((m <? 4503599627370496)%N && (e =? emin)%Z)
  | _ => false
  end.

(** the total is a normal number (rand itself returns zero-weight indices for a subnormal total) *)
Definition weights_ok (ws : list f64w) : bool :=
  forallb fcanon ws &&
  match windex_new_f ws with
  | inr (_, Fin m _, _) => (4503599627370496 <=? m)%N
  | _ => false
  end.

Definition wtabs_ok (c : wcfg) : bool :=
  forallb (fun en : wins_entry => weights_ok (map snd (snd en))) (witab c) &&
  forallb (fun en : wrep_entry => weights_ok (map snd (snd en))) (wrtab c).

(** * val glue.
    chain input  = (g kinds fd pm itab rtab seed steps xs ps)  as in C15_Model / C15_Seam, with one more
                   field per edit: itab = ((prev cur ((clusters pos weight) ...)) ...), weight = (0 m e) |
                   (1 0 0) inf | (2 0 0) NaN | (3 0 0) negative  ([RNG_Model.v_f64w])
    chain output = ((probe chain) (pos-hi pos-lo off))   the old output and [get_word_pos] of the generator
                   after the last call
    e2e input    = (2 kinds fd pm itab rtab seed () trigrams words info charmode)  tables with weights
    e2e output   = (words words2)   the words of two independent runs (fresh closure, dictionary loaded
                   again) on the same text and seed *)
Definition v_wedit (v : val) : wedit := (v_cls (v_nth 0 v), v_f64w (v_nth 2 v)).
Definition v_wient (v : val) : wins_entry :=
  (v_str (v_nth 0 v), v_str (v_nth 1 v), v_list v_wedit (v_nth 2 v)).
Definition v_wrent (v : val) : wrep_entry :=
  (v_str (v_nth 0 v), v_str (v_nth 1 v), v_str (v_nth 2 v), v_list v_wedit (v_nth 3 v)).

Definition v_wcfg (v : val) : wcfg :=
  let ks := v_nth 1 v in
  {| wk_ins := v_bool (v_nth 0 ks); wk_del := v_bool (v_nth 1 ks);
     wk_rep := v_bool (v_nth 2 ks); wk_swap := v_bool (v_nth 3 ks);
     wfull_del := v_bool (v_nth 2 v);
     witab := v_list v_wient (v_nth 4 v);
     wrtab := v_list v_wrent (v_nth 5 v) |}.

Definition v_seed (v : val) : N := v_n (v_nth 6 v).

(** the flag "weight > 0" each edit carries for the relational model is the sign of its weight *)
Definition flags_ok_edits (v : val) : bool :=
  forallb (fun e => Bool.eqb (v_bool (v_nth 1 e)) (fpos (v_f64w (v_nth 2 e)))) (v_list (fun x => x) v).
Definition flags_ok (v : val) : bool :=
  forallb (fun en => flags_ok_edits (v_nth 2 en)) (v_list (fun x => x) (v_nth 4 v)) &&
  forallb (fun en => flags_ok_edits (v_nth 3 en)) (v_list (fun x => x) (v_nth 5 v)).

Definition sres_fault_v (r : sres) : val :=
  match r with
  | SOk _ _ => L []
  | SWeights _ => L [I (-2)%Z]              (* the code panics here ([expect("invalid weights")]) *)
  | SEmptyRange => L [I (-3)%Z]
  | SFault => L [I (-1)%Z]
  end.

(** the calls of the chain on the REAL trajectory (the word and exclusion set of every call are
    the ones the implementation was given), the generator threaded through *)
Fixpoint seeded_steps (c : wcfg) (ss : list step) (st : rng) : list val * rng :=
  match ss with
  | [] => ([], st)
  | s :: r =>
    match edit_word_seeded c (s_cd s) (s_cs s) (s_w s) (s_ex s) st with
    | SOk k st' =>
      let (vs, stf) := seeded_steps c r st' in
      (outcome_v (apply_ed (s_w s) (s_ex s) k) :: vs, stf)
    | f => ([sres_fault_v f], st)
    end
  end.

Definition pos_v (st : rng) : val :=
  let (b, off) := get_word_pos st in L [n_v (N.shiftr b 32); n_v (w32 b); nat_v off].

Definition seeded_edit (v : val) : val :=
  let (vs, st) := seeded_steps (v_wcfg v) (v_steps v) (seed_from_u64 (v_seed v)) in
  L [L vs; pos_v st].

(** e2e: probabilities of the harness' stream: word probability 1.0, character probability 0.0 / 1.0 *)
Definition f_one : f64w := Fin 4503599627370496 (-52).
Definition e2e_pf (v : val) (w : word) : list bool * list bool :=
  (cd_of (v_info (v_nth 10 v)) w, cs_of (v_info (v_nth 10 v)) w).
Definition seeded_e2e (v : val) : val :=
  match spell_seeded (v_wcfg v) (e2e_pf v) f_one (if v_bool (v_nth 11 v) then f_one else f_zero)
                     (v_seed v) (e2e_words v) with
  | Some ws => L [list_v (fun w => list_v n_v (concat w)) ws]
  | None => L []
  end.

(** third stream (first field 3): corrupt_spelling with arbitrary probabilities, exact line only.
    input  = (3 kinds fd pm itab rtab seed () trigrams words info (pw pc))   pw = the corruption probability
             handed to preprocessing(SpellingCorruption(Input, pw, false, Artificial(pc, 2.0, file))), pc =
             char_edit_prob, both as f64 values (0 m e); the rest as in the second stream
    output = (run1 run2) *)
Definition is_spell3 (v : val) : bool := Z.eqb (v_z (v_nth 0 v)) 3.
Definition seeded_spell3 (v : val) : val :=
  match spell_seeded (v_wcfg v) (e2e_pf v) (v_f64w (v_nth 0 (v_nth 11 v))) (v_f64w (v_nth 1 (v_nth 11 v)))
                     (v_seed v) (e2e_words v) with
  | Some ws => L [list_v (fun w => list_v n_v (concat w)) ws]
  | None => L []
  end.

(** model output = (old-model-output seeded) *)
Definition run_C15s (v : val) : val :=
  if is_spell3 v then L [L []; seeded_spell3 v]
  else L [run_C15 v; if is_e2e v then seeded_e2e v else seeded_edit v].

(** one seeded result against one implementation result: same text, same exclusion set *)
Definition step_exact (m o : val) : bool :=
  match m, o with
  | L [mw; mex], L [ow; oex] =>
      nlist_eqb (concat (v_cls mw)) (concat (v_cls ow)) && set_eqb (v_list v_nat mex) (v_list v_nat oex)
  | _, _ => false     (* a fault marker on either side never agrees: inside the domain neither side faults *)
  end.

(** EXACT line, chain stream: [sd] = the seeded part of the model output, [out] = implementation output *)
Definition exact_edit (sd out : val) : bool :=
  match sd, out with
  | L [L ms; mpos], L [L [_; L ch]; ipos] => all2 step_exact ms ch && val_eqb mpos ipos
  | _, _ => false
  end.

Definition exact_e2e (sd out : val) : bool :=
  match sd, out with
  | L [mws], L [iws; _] => val_eqb mws iws
  | _, _ => false
  end.

Definition old_out (out : val) : val := v_nth 0 out.

Definition agree_exact (v out : val) : bool :=
  if is_e2e v then exact_e2e (seeded_e2e v) out
  else flags_ok v && exact_edit (seeded_edit v) out.

(** the executable statement on the new output shape: the old statement on the old part; e2e:
    additionally the two independent runs returned the same words (the closure is a function of
    text, seed and dictionary file) *)
Definition words_shape (o : val) : bool :=
  match o with L ws => forallb (fun w => match w with L _ => true | _ => false end) ws | _ => false end.

Definition check_C15s (v out : val) : bool :=
  if is_spell3 v then
    (* no panic, no more words than the text had, and the two runs agree *)
    words_shape (v_nth 0 out) && Nat.leb (length (v_list (fun x => x) (v_nth 0 out))) (length (e2e_words v))
    && val_eqb (v_nth 0 out) (v_nth 1 out)
  else if is_e2e v then
    check_C15 v (old_out out) && val_eqb (v_nth 0 out) (v_nth 1 out)
  else check_C15 v (old_out out).

(** correspondence used by the runner: the relational lines of C15_Model / C15_Seam on the old part
    ([rel] is [C15_Seam.agree_C15u], passed in by the extraction file) AND the exact line, the
    seeded part being read from the model output [m] = [run_C15s inp] *)
Definition agree_C15s (rel : val -> val -> val -> bool) (inp m i : val) : bool :=
  if is_spell3 inp then exact_e2e (v_nth 1 m) i else
  rel inp (v_nth 0 m) (old_out i) &&
  (if is_e2e inp then exact_e2e (v_nth 1 m) i
   else flags_ok inp && exact_edit (v_nth 1 m) i).

(** C07, file level: the loader's input files inside the model.  A source is no longer a list of abstract
    items but the BYTES of a jsonl file: [Lines_Model.lossy_lines] (LossyUtf8Lines) gives its lines,
    [Lines_Model.count_lines] its [len()], [JSON_Model.item_of_line] (serde_json::from_str::<Value> + the
    match in train_data_generator_from_jsonl) the item of each line, [JSON_Model.train_data] the TrainData.
    The combined generator of C07_Model runs on these item lists.  Definitions only. *)
From TU Require Import RNG_Model.
From TU Require Import Base C01_Model Lines_Model JSON_Model C07_Model.

(** what one [next()] of a file's generator yields, as the harness can observe it: the error class of an
    Err item, or input and target of the TrainData (the target defaults to the input) *)
Inductive fitem := FErr (e : item_err) | FData (input target : str).

Definition fitem_of (r : item_res) : fitem :=
  match r with
  | IErr e => FErr e
  | IItem i t => let (a, b) := train_data i t in FData a b
  end.

(** train_data_generator_from_jsonl(path): the items, and what [len()] reports *)
Definition items_of_file (b : list byte) : list fitem := map (fun l => fitem_of (item_of_line l)) (lossy_lines b).
Definition file_len (b : list byte) : nat := count_lines b.

(** the pinned reader (last byte of the file always dropped) *)
Definition items_of_file_pinned (b : list byte) : list fitem :=
  map (fun l => fitem_of (item_of_line l)) (lossy_lines_pinned b).

(** a writer: one serde_json line per item, '\n' or '\r\n' after each *)
Definition jsonl_line (it : (str * option str) * bool) : str * bool := (line_of (fst (fst it)) (snd (fst it)), snd it).
Definition jsonl_file (items : list ((str * option str) * bool)) : list byte := file_of (map jsonl_line items).
Definition item_written (it : (str * option str) * bool) : fitem := fitem_of (IItem (fst (fst it)) (snd (fst it))).

(** [MultiTrainDataGenerator::new(files.map(train_data_generator_from_jsonl), strategy, seed)] drained *)
Definition run_files (s : strategy) (o : oracle) (files : list (list byte)) : res fitem :=
  run_gen s o (map items_of_file files).
Definition run_files_seeded (seed : N) (files : list (list byte)) : option (res fitem) :=
  run_gen_seeded seed (map items_of_file files).

(** * val glue *)
Definition err_code (e : item_err) : Z :=
  match e with EParse => 0 | ENotObject => 1 | ENoInput => 2 | EInputType => 3 | ETargetType => 4 end%Z.
Definition code_err (z : Z) : item_err :=
  match z with 0 => EParse | 1 => ENotObject | 2 => ENoInput | 3 => EInputType | _ => ETargetType end%Z.

Definition str_v (s : str) : val := list_v n_v s.
Definition v_str (v : val) : str := v_list v_n v.

Definition fitem_v (x : fitem) : val :=
  match x with
  | FErr e => L [I 0%Z; I (err_code e)]
  | FData i t => L [I 1%Z; str_v i; str_v t]
  end.
Definition v_fitem (v : val) : fitem :=
  if Z.eqb (v_z (v_nth 0 v)) 0 then FErr (code_err (v_z (v_nth 1 v)))
  else FData (v_str (v_nth 1 v)) (v_str (v_nth 2 v)).

Definition err_eqb (a b : item_err) : bool := Z.eqb (err_code a) (err_code b).
Definition fitem_eqb (a b : fitem) : bool :=
  match a, b with
  | FErr x, FErr y => err_eqb x y
  | FData i t, FData i' t' => nlist_eqb i i' && nlist_eqb t t'
  | _, _ => false
  end.

Definition fout_v (p : nat * fitem) : val := L [nat_v (fst p); fitem_v (snd p)].
Definition v_fout (v : val) : nat * fitem := (v_nat (v_nth 0 v), v_fitem (v_nth 1 v)).

(** kinds: 4 / 5 / 6 = files through the sequential / interleaved / weighted generator
           input (k seed (file ...) orc), a file = its bytes; output as for item-list cases, items = (tag fitem)
          7 = a JSON text: (7 0 text ()) -> (1 tree) | (0)
          8 = an item to print: (8 w (input) ()) | (8 w (input target) ()) -> the line (code points);
              w = 0: serde_json::to_string, w = 1: Python's json.dumps (ensure_ascii)
          9 = a byte string through the line reader: (9 cap bytes ()) -> (lines count) *)
Definition kind (v : val) : Z := v_z (v_nth 0 v).
Definition is_file_case (v : val) : bool := (Z.leb 4 (kind v) && Z.leb (kind v) 6)%Z.
Definition v_files (v : val) : list (list byte) := v_list (v_list v_n) (v_nth 2 v).
Definition f_strategy (v : val) : strategy :=
  match kind v with 5%Z => Interleaved | 6%Z => Weighted | _ => Sequential end.

Definition fres_v (files : list (list byte)) (r : res fitem) : val :=
  match r with
  | Ok out => L [I 1%Z; list_v fout_v out; I 1%Z; nat_v (sum_nat (map file_len files))]
  | Err CtorErr => L [I 0%Z]
  | Err OutOfFuel => L [I (-1)%Z]
  | Err BadOracle => L [I (-2)%Z]
  | Err AssertFail => L [I (-3)%Z]
  end.

Definition run_file_case (v : val) : val :=
  let files := v_files v in
  match f_strategy v with
  | Weighted =>
      match run_files_seeded (v_n (v_nth 1 v)) files with
      | Some r => fres_v files r
      | None => RNG_Model.v_fuel
      end
  | s => fres_v files (run_files s (v_oracle v) files)
  end.

(** the Value, as the harness renders serde_json's: numbers by class (0 u64, 1 negative i64 with its magnitude, 2 f64),
    objects as serde_json's Map holds them (sorted by key, last duplicate) *)
Definition hl_v (n : N) : list val := [n_v (n / 4294967296); n_v (n mod 4294967296)].
Definition num_v (n : jnum) : val :=
  let (sig, k) := int_digits (n_int n) 0 in
  match n_frac n, n_exp n, k with
  | None, None, O =>
      if negb (n_neg n) then L (I 2 :: I 0 :: hl_v sig)%Z
      else if N.eqb sig 0 then L [I 2; I 2]%Z
      else if N.leb sig 9223372036854775808 then L (I 2 :: I 1 :: hl_v sig)%Z
      else L [I 2; I 2]%Z
  | _, _, _ => L [I 2; I 2]%Z
  end.

Fixpoint tree_v (v : jvalue) : val :=
  match v with
  | JNull => L [I 0%Z]
  | JBool b => L [I 1%Z; bool_v b]
  | JNum n => num_v n
  | JStr s => L [I 3%Z; str_v s]
  | JArr l => L [I 4%Z; L (map tree_v l)]
  | JObj m => L [I 5%Z; L (map (fun kx => L [str_v (fst kx); snd kx])
                              (map_of (map (fun kx => (fst kx, tree_v (snd kx))) m)))]
  end.

Definition run_json_case (v : val) : val :=
  match json_parse_r (v_str (v_nth 2 v)) with
  | POk x => L [I 1%Z; tree_v x]
  | PErr => L [I 0%Z]
  | PFuel => L [I (-1)%Z]
  end.

Definition run_print_case (v : val) : val :=
  let a := v_nth 2 v in
  let i := v_str (v_nth 0 a) in
  let t := match a with L [_; t] => Some (v_str t) | _ => None end in
  str_v (if Z.eqb (v_z (v_nth 1 v)) 1 then line_of_py i t else line_of i t).

Definition run_lines_case (v : val) : val :=
  let b := v_list v_n (v_nth 2 v) in
  L [list_v str_v (lossy_lines b); nat_v (count_lines b)].

Definition run_C07f (v : val) : val :=
  if is_file_case v then run_file_case v
  else if Z.eqb (kind v) 7 then run_json_case v
  else if Z.eqb (kind v) 8 then run_print_case v
  else if Z.eqb (kind v) 9 then run_lines_case v
  else run_C07s v.

(** the property on an implementation output of a file case: the clauses of [check_C07], the sources being
    what the MODEL reads from the bytes *)
Definition check_file_case (v out : val) : bool :=
  let s := f_strategy v in
  let files := v_files v in
  let srcs := map items_of_file files in
  if shape_ctor_err out then is_weighted s && existsb is_nil srcs
  else
    let items := v_list v_fout (v_nth 1 out) in
    shape_ok out
    && is_ti fitem_eqb srcs items
    && v_bool (v_nth 2 out)
    && Nat.eqb (v_nat (v_nth 3 out)) (total_len srcs)
    && match s with
       | Sequential => out_eqb fitem_eqb items (seq_spec srcs)
       | Interleaved => out_eqb fitem_eqb items (rr srcs)
       | Weighted => true
       end.

Definition check_C07f (v out : val) : bool :=
  if is_file_case v then check_file_case v out
  else if (Z.leb 7 (kind v) && Z.leb (kind v) 9)%Z then val_eqb (run_C07f v) out
  else check_C07s v out.

Definition agree_C07f (v m i : val) : bool :=
  if is_file_case v then
    match f_strategy v with
    | Weighted => val_eqb m i
                  && (if shape_ctor_err m then shape_ctor_err i
                      else check_file_case v i && negb (shape_ctor_err i)
                           && first_tag0 (v_list v_fout (v_nth 1 i)))
    | _ => val_eqb m i
    end
  else if (Z.leb 7 (kind v) && Z.leb (kind v) 9)%Z then val_eqb m i
  else agree_C07s v m i.

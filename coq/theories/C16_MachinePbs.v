(** C16 — possible_byte_substrings (src/text.rs) with find_subsequences_of_max_size_k
    (src/utils.rs) instantiated as the code instantiates it (items = the characters of the
    CharString, size = sum of their byte lengths): an unbounded reference model [pbs] and the
    machine-integer model [mpbs] in the style of C16_Machine.v (sites 50-58).  Definitions only.

    [values[a..b]] panics when [a > b] or [b > len] ([Panic 9]) in both models and both profiles;
    [values[a..=a]] additionally when [a = usize::MAX]; [get_char(i).unwrap()] is [Panic 8]. *)
From TU Require Import Base C16_Model C16_Machine.
Open Scope N_scope.

(** [&values[s..e]] *)
Definition vslice (vals : list N) (s e : N) : res (list N) :=
  if (s <=? e) && (e <=? lenN vals) then Ok (firstn (N.to_nat (e - s)) (skipn (N.to_nat s) vals))
  else Panic 9.

(** * the unbounded reference *)
Definition slice_sum (vals : list N) (s e : N) : res N := do l <- vslice vals s e; Ok (sumN l).

(** fast forward to the first item that fits on its own *)
Fixpoint ff (vals : list N) (k : N) (fuel : nat) (start : N) : res N :=
  if start <? lenN vals then
    match fuel with
    | O => Fuel
    | S f => do z <- slice_sum vals start (start + 1);
             if k <? z then ff vals k f (start + 1) else Ok start
    end
  else Ok start.

Fixpoint fs (vals : list N) (k : N) (fuel : nat) (s e prev : N) : res (list (N * N)) :=
  if (s <? lenN vals) && (e <=? lenN vals) then
    match fuel with
    | O => Fuel
    | S f =>
      do cur <- slice_sum vals s e;
      if cur <=? k then
        do rest <- fs vals k f s (e + 1) cur;
        Ok (if lenN vals <=? e then (s, e) :: rest else rest)
      else if prev <=? k then
        do rest <- fs vals k f (s + 1) e cur;
        Ok ((s, e - 1) :: rest)
      else fs vals k f (s + 1) (N.max e (s + 1 + 1)) cur
    end
  else Ok [].

Definition find_sub (vals : list N) (k : N) : res (list (N * N)) :=
  do s <- ff vals k (length vals) 0;
  if lenN vals <=? s then Ok []
  else do prev <- slice_sum vals s (s + 1);
       fs vals k (2 * length vals + 2) s (s + 1) prev.

(** [cs.chars().collect()], as the byte length of every character *)
Definition chars_of (cs : cstr) : res (list N) :=
  mapM (fun i => do o <- cs_get cs i; match o with Some r => Ok (snd r) | None => Panic 8 end)
       (nrange 0 (c_len cs)).

Definition pbs (lens : list N) (maxb : N) : res (list (N * N * N)) :=
  if sumN lens =? 0 then Ok [(0, 0, 0)]
  else
    let cs := cs_new lens in
    do vals <- chars_of cs;
    do subs <- find_sub vals maxb;
    mapM (fun se => do pr <- cr2br cs (fst se) (snd se); Ok (fst pr, snd pr, snd se - fst se)) subs.

(** * the machine model *)
(** [.iter().map(byte_len).sum()]: a chain of additions (site 57) *)
Fixpoint msum (p : profile) (acc : N) (l : list N) : res N :=
  match l with [] => Ok acc | x :: r => do a <- madd p 57 acc x; msum p a r end.
Definition mslice_sum (p : profile) (vals : list N) (s e : N) : res N :=
  do l <- vslice vals s e; msum p 0 l.
(** [&values[s..=s]]: the exclusive end is computed by the slice code with an explicit check *)
Definition mslice_sum_incl (p : profile) (vals : list N) (s : N) : res N :=
  if s =? W - 1 then Panic 9 else mslice_sum p vals s (s + 1).

Fixpoint mff (p : profile) (vals : list N) (k : N) (fuel : nat) (start : N) : res N :=
  if start <? lenN vals then
    match fuel with
    | O => Fuel
    | S f => do z <- mslice_sum_incl p vals start;
             if k <? z then do s1 <- madd p 50 start 1; mff p vals k f s1 else Ok start
    end
  else Ok start.

Fixpoint mfs (p : profile) (vals : list N) (k : N) (fuel : nat) (s e prev : N) : res (list (N * N)) :=
  if (s <? lenN vals) && (e <=? lenN vals) then
    match fuel with
    | O => Fuel
    | S f =>
      do cur <- mslice_sum p vals s e;
      if cur <=? k then
        do e1 <- madd p 52 e 1;                                   (* end += 1 *)
        do rest <- mfs p vals k f s e1 cur;
        Ok (if lenN vals <=? e then (s, e) :: rest else rest)
      else if prev <=? k then
        do em <- msub p 53 e 1;                                   (* end - 1 *)
        do s1 <- madd p 54 s 1;                                   (* start += 1 *)
        do rest <- mfs p vals k f s1 e cur;
        Ok ((s, em) :: rest)
      else
        do s1 <- madd p 55 s 1;                                   (* start += 1 *)
        do s2 <- madd p 56 s1 1;                                  (* start + 1 *)
        mfs p vals k f s1 (N.max e s2) cur
    end
  else Ok [].

Definition mfind_sub (p : profile) (vals : list N) (k : N) : res (list (N * N)) :=
  do s <- mff p vals k (length vals) 0;
  if lenN vals <=? s then Ok []
  else do e <- madd p 51 s 1;                                     (* start + 1 *)
       do prev <- mslice_sum p vals s e;
       mfs p vals k (2 * length vals + 2) s e prev.

Definition mchars_of (p : profile) (isb : N -> bool) (cs : cstr) : res (list N) :=
  mapM (fun i => do o <- mget p isb cs i; match o with Some r => Ok (snd r) | None => Panic 8 end)
       (nrange 0 (c_len cs)).

Definition mpbs (p : profile) (isb : N -> bool) (lens : list N) (maxb : N) : res (list (N * N * N)) :=
  if sumN lens =? 0 then Ok [(0, 0, 0)]
  else
    do cs <- mcs_new p lens;
    do vals <- mchars_of p isb cs;
    do subs <- mfind_sub p vals maxb;
    mapM (fun se => do pr <- mcr2br p cs (fst se) (snd se);
                    do n <- msub p 58 (snd se) (fst se);          (* end_char - start_char *)
                    Ok (fst pr, snd pr, n)) subs.

(** * val glue: the fifth component of the harness output, [()] = not run by the harness *)
Definition triples_v (r : res (list (N * N * N))) : val :=
  res_v (fun l => [list_v (fun t => L [n_v (fst (fst t)); n_v (snd (fst t)); n_v (snd t)]) l]) r.
Definition run_pbs (p : profile) (v : val) : val :=
  let cl := v_clusters (v_nth 3 v) in
  triples_v (mpbs p (isb_of cl) (lens_of cl) (v_big (v_nth 1 v))).
Definition run_pbs_ref (v : val) : val :=
  triples_v (pbs (lens_of (v_clusters (v_nth 3 v))) (v_big (v_nth 1 v))).

Definition pbs_agree (inp out : val) : bool :=
  match v_nth 4 out with
  | L [] => true
  | x => val_eqb (run_pbs_ref inp) x && val_eqb (run_pbs Checked inp) x && val_eqb (run_pbs Wrapping inp) x
  end.

(** the first four components of the harness output (what [run_C16] produces) *)
Definition first4 (out : val) : val :=
  match out with L (a :: b :: c :: d :: _) => L [a; b; c; d] | _ => out end.

(** JSON: proofs, part 3 — serde_json's map (last duplicate wins), the item of a line, and the two writers
    (serde_json::to_string; Python's json.dumps with ensure_ascii) read back losslessly. *)
From TU Require Import Base C01_Model JSON_Model JSON_Proofs JSON_Roundtrip.
Require Import Lia ZifyBool ZifyN ZifyNat.
Open Scope N_scope.

(** * keys *)
Lemma str_eqb_eq : forall a b : list N, JSON_Model.str_eqb a b = true <-> a = b.
Proof.
  unfold JSON_Model.str_eqb.
  induction a as [|x a IH]; destruct b as [|y b]; cbn [nlist_eqb]; try (split; [discriminate|congruence]).
  - split; reflexivity.
  - rewrite andb_true_iff, N.eqb_eq, IH. split; [intros [-> ->]; reflexivity|]. intros H. injection H as -> ->. auto.
Qed.

Lemma str_eqb_refl : forall a : list N, JSON_Model.str_eqb a a = true.
Proof. intros a. apply str_eqb_eq. reflexivity. Qed.

Lemma str_eqb_trans_l : forall a b c : list N, JSON_Model.str_eqb a b = true ->
  JSON_Model.str_eqb c a = JSON_Model.str_eqb c b.
Proof. intros a b c H. apply str_eqb_eq in H. subst. reflexivity. Qed.

Section MapFacts.
Context {V : Type}.

(** insertion, whatever the list looks like: the inserted key reads the new value, every other key is unaffected *)
Lemma map_get_insert : forall (k k' : list N) (v : V) m,
  map_get k (map_insert k' v m) = if JSON_Model.str_eqb k k' then Some v else map_get k m.
Proof.
  intros k k' v. induction m as [|[k1 v1] m IH].
  - cbn [map_insert map_get]. reflexivity.
  - cbn [map_insert]. destruct (JSON_Model.str_eqb k' k1) eqn:E1.
    + cbn [map_get]. rewrite <- (str_eqb_trans_l k' k1 k E1). destruct (JSON_Model.str_eqb k k'); reflexivity.
    + destruct (str_ltb k' k1).
      * cbn [map_get]. destruct (JSON_Model.str_eqb k k'); reflexivity.
      * cbn [map_get]. rewrite IH. destruct (JSON_Model.str_eqb k k1) eqn:E2; [|reflexivity].
        destruct (JSON_Model.str_eqb k k') eqn:E3; [|reflexivity].
        apply str_eqb_eq in E2, E3. subst. rewrite str_eqb_refl in E1. discriminate.
Qed.

Lemma map_get_fold : forall (k : list N) members (acc : list (list N * V)),
  map_get k (fold_left (fun m kv => map_insert (fst kv) (snd kv) m) members acc)
  = match find_last k members with Some v => Some v | None => map_get k acc end.
Proof.
  intros k. induction members as [|[k1 v1] members IH]; intros acc; [reflexivity|].
  cbn [fold_left fst snd find_last]. rewrite IH. destruct (find_last k members); [reflexivity|].
  rewrite map_get_insert. destruct (JSON_Model.str_eqb k k1); reflexivity.
Qed.

(** reading a key of the map built from the members = the LAST member with that key *)
Lemma map_get_of : forall (k : list N) (members : list (list N * V)), map_get k (map_of members) = find_last k members.
Proof. intros k members. unfold map_of. rewrite map_get_fold. destruct (find_last k members); reflexivity. Qed.
End MapFacts.

(** * serde_json::to_string lines *)
Lemma item_value_roundtrip : forall i t, item_of_value (value_of_item i t) = IItem i t.
Proof. intros i [t|]; reflexivity. Qed.

Lemma value_of_item_wf : forall i t, wf (value_of_item i t) = true /\ (depth (value_of_item i t) <= DEPTH)%nat.
Proof. intros i [t|]; split; try reflexivity; cbn; unfold DEPTH; lia. Qed.

Lemma item_roundtrip_l : forall i t, item_of_line (line_of i t) = IItem i t.
Proof.
  intros i t. unfold item_of_line, line_of. destruct (value_of_item_wf i t) as [W D].
  rewrite (json_roundtrip_l _ W D). apply item_value_roundtrip.
Qed.

(** a printed line never contains a line terminator: it can be written into a jsonl file *)
Lemma esc_char_no_eol : forall c, forallb (fun x => negb (x =? 10) && negb (x =? 13)) (esc_char c) = true.
Proof.
  intros c. unfold esc_char.
  destruct (c =? 34); [reflexivity|]. destruct (c =? 92); [reflexivity|]. destruct (c =? 8); [reflexivity|].
  destruct (c =? 9); [reflexivity|]. destruct (c =? 10) eqn:E10; [reflexivity|]. destruct (c =? 12); [reflexivity|].
  destruct (c =? 13) eqn:E13; [reflexivity|]. destruct (c <? 32) eqn:E.
  - unfold hex_digit. cbn [forallb].
    destruct (c / 16 <? 10) eqn:A; destruct (c mod 16 <? 10) eqn:B; lia.
  - cbn [forallb]. rewrite E10, E13. reflexivity.
Qed.

Definition no_eol (s : list N) : bool := forallb (fun x => negb (x =? 10) && negb (x =? 13)) s.

Lemma no_eol_app : forall a b, no_eol (a ++ b) = no_eol a && no_eol b.
Proof. intros. unfold no_eol. apply forallb_app. Qed.

Lemma flat_esc_no_eol : forall s, no_eol (flat_map esc_char s) = true.
Proof.
  induction s as [|c s IH]; [reflexivity|]. cbn [flat_map]. rewrite no_eol_app, IH, andb_true_r.
  apply esc_char_no_eol.
Qed.

Lemma json_string_no_eol : forall s, no_eol (json_string s) = true.
Proof.
  intros s. unfold json_string. change (34 :: flat_map esc_char s ++ [34]) with ([34] ++ flat_map esc_char s ++ [34]).
  rewrite !no_eol_app, flat_esc_no_eol. reflexivity.
Qed.

Lemma line_of_flat : forall i t,
  line_of i t = [123] ++ json_string K_INPUT ++ [58] ++ json_string i
                ++ (match t with Some x => [44] ++ json_string K_TARGET ++ [58] ++ json_string x | None => [] end) ++ [125].
Proof.
  intros i [t|]; unfold line_of, value_of_item; rewrite print_obj;
    repeat first [progress cbn [app print tail_m] | progress unfold json_string | progress rewrite <- app_assoc
                 | progress rewrite app_nil_r | progress rewrite pm_cons]; reflexivity.
Qed.

Lemma line_of_no_eol : forall i t, no_eol (line_of i t) = true.
Proof.
  intros i t. rewrite line_of_flat. destruct t as [t|]; rewrite !no_eol_app, !json_string_no_eol; reflexivity.
Qed.

(** * Python's json.dumps (ensure_ascii) lines *)
Ltac Zify.zify_post_hook ::= Z.div_mod_to_equations.

Lemma hex4_digits_val : forall n, n < 65536 ->
  hex4 (hex_digit (n / 4096)) (hex_digit ((n / 256) mod 16)) (hex_digit ((n / 16) mod 16)) (hex_digit (n mod 16)) = Some n.
Proof.
  intros n H. unfold hex4. rewrite !hex_val_digit by lia. f_equal. lia.
Qed.

Lemma pstr_u4 : forall n tl, n < 65536 -> (55296 <=? n) && (n <=? 57343) = false ->
  pstr (92 :: 117 :: hex4_digits n ++ tl) = ocons n (pstr tl).
Proof.
  intros n tl H Hs. unfold hex4_digits. cbn [app pstr]. change (92 =? 34) with false. change (92 =? 92) with true.
  change (117 =? 117) with true. cbn match. rewrite hex4_digits_val by exact H.
  assert (E1 : (56320 <=? n) && (n <=? 57343) = false) by lia. rewrite E1.
  assert (E2 : (55296 <=? n) && (n <=? 56319) = false) by lia. rewrite E2. reflexivity.
Qed.

Lemma pstr_pair : forall c tl, 65536 <= c -> c < 1114112 ->
  pstr (92 :: 117 :: hex4_digits (55296 + (c - 65536) / 1024) ++ 92 :: 117 :: hex4_digits (56320 + (c - 65536) mod 1024) ++ tl)
  = ocons c (pstr tl).
Proof.
  intros c tl H1 H2. set (hi := 55296 + (c - 65536) / 1024). set (lo := 56320 + (c - 65536) mod 1024).
  assert (Hhi : 55296 <= hi /\ hi <= 56319) by (unfold hi; lia).
  assert (Hlo : 56320 <= lo /\ lo <= 57343) by (unfold lo; lia).
  unfold hex4_digits. cbn [app pstr]. change (92 =? 34) with false. change (92 =? 92) with true.
  change (117 =? 117) with true. cbn match. rewrite (hex4_digits_val hi) by lia.
  assert (E1 : (56320 <=? hi) && (hi <=? 57343) = false) by lia. rewrite E1.
  assert (E2 : (55296 <=? hi) && (hi <=? 56319) = true) by lia. rewrite E2.
  cbn match. rewrite (hex4_digits_val lo) by lia.
  assert (E3 : (56320 <=? lo) && (lo <=? 57343) = true) by lia. rewrite E3.
  replace ((hi - 55296) * 1024 + (lo - 56320) + 65536) with c by (unfold hi, lo; lia). reflexivity.
Qed.

Lemma pstr_esc_char_ascii : forall c tl, scalar c = true -> pstr (esc_char_ascii c ++ tl) = ocons c (pstr tl).
Proof.
  intros c tl Hs. unfold esc_char_ascii.
  destruct (c =? 34) eqn:E1. { apply N.eqb_eq in E1. subst. apply pstr_simple; reflexivity. }
  destruct (c =? 92) eqn:E2. { apply N.eqb_eq in E2. subst. apply pstr_simple; reflexivity. }
  destruct (c =? 8) eqn:E3. { apply N.eqb_eq in E3. subst. apply pstr_simple; reflexivity. }
  destruct (c =? 9) eqn:E4. { apply N.eqb_eq in E4. subst. apply pstr_simple; reflexivity. }
  destruct (c =? 10) eqn:E5. { apply N.eqb_eq in E5. subst. apply pstr_simple; reflexivity. }
  destruct (c =? 12) eqn:E6. { apply N.eqb_eq in E6. subst. apply pstr_simple; reflexivity. }
  destruct (c =? 13) eqn:E7. { apply N.eqb_eq in E7. subst. apply pstr_simple; reflexivity. }
  destruct ((32 <=? c) && (c <? 127)) eqn:E8. { cbn [app]. apply pstr_plain; lia. }
  unfold scalar in Hs. destruct (c <? 65536) eqn:E9.
  - cbn [app]. apply pstr_u4; lia.
  - cbn [app]. rewrite <- app_assoc. cbn [app]. apply pstr_pair; lia.
Qed.

Lemma pstr_esc_ascii : forall s rest, scalars s = true ->
  pstr (flat_map esc_char_ascii s ++ 34 :: rest) = Some (s, rest).
Proof.
  induction s as [|c s IH]; intros rest H; [reflexivity|].
  unfold scalars in H. cbn [forallb] in H. apply andb_true_iff in H as [Hc Hs].
  cbn [flat_map]. rewrite <- app_assoc, pstr_esc_char_ascii by exact Hc. rewrite IH by exact Hs. reflexivity.
Qed.

Lemma pv_skip_sp : forall d (s : list N), pv d (32 :: s) = pv d s.
Proof. intros d s. rewrite !pv_unfold. reflexivity. Qed.

Lemma pv_str_ascii : forall d s rest, scalars s = true ->
  pv d (json_string_ascii s ++ rest) = POk (JStr s, rest).
Proof.
  intros d s rest H. rewrite pv_unfold. unfold json_string_ascii. cbn [app].
  rewrite (skip_nows 34 _ eq_refl). change (34 =? 110) with false. change (34 =? 116) with false.
  change (34 =? 102) with false. change (34 =? 34) with true. cbn match.
  rewrite <- app_assoc. cbn [app]. unfold str_branch. rewrite pstr_esc_ascii by exact H. reflexivity.
Qed.

Lemma pobj_next_sp : forall pvf f (r : list N), pobj pvf (S f) false (44 :: 32 :: 34 :: r) = obj_k pvf f r.
Proof. reflexivity. Qed.

Lemma item_roundtrip_py_l : forall i t, scalars i = true ->
  match t with Some x => scalars x = true | None => True end ->
  item_of_line (line_of_py i t) = IItem i t.
Proof.
  intros i t Hi Ht. unfold item_of_line, json_parse, json_parse_r, line_of_py.
  assert (P : pv DEPTH ([123] ++ json_string_ascii K_INPUT ++ [58; 32] ++ json_string_ascii i
               ++ (match t with
                   | Some t => [44; 32] ++ json_string_ascii K_TARGET ++ [58; 32] ++ json_string_ascii t
                   | None => []
                   end) ++ [125]) = POk (value_of_item i t, [])).
  { rewrite pv_unfold. unfold DEPTH.
    change ([123] ++ json_string_ascii K_INPUT ++ [58; 32] ++ json_string_ascii i ++ ?T)
      with (123 :: 34 :: 105 :: 110 :: 112 :: 117 :: 116 :: 34 :: 58 :: 32 :: json_string_ascii i ++ T).
    rewrite (skip_nows 123 _ eq_refl). change (123 =? 110) with false. change (123 =? 116) with false.
    change (123 =? 102) with false. change (123 =? 34) with false. change (123 =? 91) with false.
    change (123 =? 123) with true. cbn match. cbn [obj_branch]. cbn [length].
    rewrite pobj_first. unfold obj_k.
    assert (M1 : forall T, pmember (pv 126) (105 :: 110 :: 112 :: 117 :: 116 :: 34 :: 58 :: 32 :: json_string_ascii i ++ T)
                 = POk ((K_INPUT, JStr i), T)).
    { intros T. unfold pmember.
      change (pstr (105 :: 110 :: 112 :: 117 :: 116 :: 34 :: 58 :: 32 :: json_string_ascii i ++ T))
        with (Some (K_INPUT, 58 :: 32 :: json_string_ascii i ++ T)).
      nn. rewrite (skip_nows 58 _ eq_refl). change (58 =? 58) with true. cbn match.
      rewrite pv_skip_sp, pv_str_ascii by exact Hi. reflexivity. }
    rewrite M1. cbn [pbind fst snd]. destruct t as [t|].
    - change (([44; 32] ++ json_string_ascii K_TARGET ++ [58; 32] ++ json_string_ascii t) ++ [125])
        with (44 :: 32 :: 34 :: 116 :: 97 :: 114 :: 103 :: 101 :: 116 :: 34 :: 58 :: 32 :: json_string_ascii t ++ [125]).
      nn. rewrite pobj_next_sp. unfold obj_k.
      assert (M2 : forall T, pmember (pv 126) (116 :: 97 :: 114 :: 103 :: 101 :: 116 :: 34 :: 58 :: 32 :: json_string_ascii t ++ T)
                   = POk ((K_TARGET, JStr t), T)).
      { intros T. unfold pmember.
        change (pstr (116 :: 97 :: 114 :: 103 :: 101 :: 116 :: 34 :: 58 :: 32 :: json_string_ascii t ++ T))
          with (Some (K_TARGET, 58 :: 32 :: json_string_ascii t ++ T)).
        nn. rewrite (skip_nows 58 _ eq_refl). change (58 =? 58) with true. cbn match.
        rewrite pv_skip_sp, pv_str_ascii by exact Ht. reflexivity. }
      rewrite M2. cbn [pbind fst snd]. reflexivity.
    - reflexivity. }
  rewrite P. cbn [pbind fst snd skip_ws]. apply item_value_roundtrip.
Qed.

(** C15: [corrupt_spelling] never panics inside its domain — totality of C15_Spell.spell_text.
    Domain ([dom_ok], decidable, evaluated on every case of the fourth stream as [dom4]): a positive
    probability; with a character dictionary: every kept key is a 3-gram and the powf results are sane
    ([items_sane]); with misspellings: no word has an empty list; and sizes below the machine limits (the
    [usize] ranges [random_range] is asked for): [(|text| + 1) * (B + 2) < 2^62] with B the longest edit string
    in code points, every list of misspellings shorter than 2^32.
    The size of the word along a chain is bounded by [|word| + calls * B] code points ([apply_len]). *)
From TU Require Import RNG_Model RNG_Proofs.
From TU Require Import Base UCD_Model UAX29_Model UAX29_Proofs C15_Model C15_Proofs C15_Seeded C15_SeededProofs
                       C15_Classes C15_Tables C15_TablesProofs C15_TablesFloat C15_Spell C15_SpellProofs.
From TU Require Import C15_Check C15_Seam C15_UAX29.
From Coq Require Import Lia.
Close Scope N_scope.
Open Scope nat_scope.

Ltac nl := unfold word, cluster, str, cp in *.

(** * sizes *)
Definition strs_le (c : cfg) (B : nat) : Prop :=
  (forall e, In e (itab_strings (itab c)) -> length (concat e) <= B) /\
  (forall e, In e (rtab_strings (rtab c)) -> length (concat e) <= B).

Definition strs_leb (c : cfg) (B : nat) : bool :=
  forallb (fun e => length (concat e) <=? B) (itab_strings (itab c))
  && forallb (fun e => length (concat e) <=? B) (rtab_strings (rtab c)).

Lemma strs_leb_spec c B : strs_leb c B = true -> strs_le c B.
Proof.
  unfold strs_leb, strs_le. intros H. apply Bool.andb_true_iff in H as [H1 H2]. rewrite forallb_forall in H1, H2.
  split; intros e He; [apply Nat.leb_le, H1, He|apply Nat.leb_le, H2, He].
Qed.

Lemma len_concat_app (a b : list cluster) : length (concat (a ++ b)) = length (concat a) + length (concat b).
Proof. rewrite concat_app, app_length. reflexivity. Qed.

Lemma len_concat_split (w : list cluster) i :
  length (concat (firstn i w)) + length (concat (skipn i w)) = length (concat w).
Proof. rewrite <- len_concat_app, firstn_skipn. reflexivity. Qed.

Lemma len_concat_skipn_S (w : list cluster) : forall i,
  length (concat (skipn (S i) w)) <= length (concat (skipn i w)).
Proof.
  induction w as [|a w IH]; intros i; [destruct i; cbn; lia|].
  destruct i as [|i]; [cbn [skipn concat]; rewrite app_length; lia|]. cbn [skipn]. apply IH.
Qed.

Lemma apply_len c w ex k B : strs_le c B -> valid_ed c w ex k ->
  length (concat (apply_word k w)) <= length (concat w) + B.
Proof.
  intros [Hi Hr] V. pose proof (valid_ed_str c w ex k V) as Hs.
  destruct k as [|i e|i|i e|i]; cbn [apply_word].
  - lia.
  - rewrite !len_concat_app. pose proof (len_concat_split w i).
    specialize (Hi e (pos_edits_strings_i c e Hs)). lia.
  - rewrite len_concat_app. pose proof (len_concat_split w i). pose proof (len_concat_skipn_S w i). lia.
  - rewrite !len_concat_app. pose proof (len_concat_split w i). pose proof (len_concat_skipn_S w i).
    specialize (Hr e (pos_edits_strings_r c e Hs)). lia.
  - destruct (skipn i w) as [|a [|b r]] eqn:E; try lia.
    rewrite len_concat_app. pose proof (len_concat_split w i) as S. rewrite E in S.
    cbn [concat] in *. rewrite !app_length in *. lia.
Qed.

Lemma concat_len_ge (l : list cluster) : Forall (fun c : cluster => c <> []) l -> length l <= length (concat l).
Proof.
  induction 1 as [|c r Hc _ IH]; [cbn; lia|]. cbn [concat length]. rewrite app_length.
  destruct c; [congruence|cbn [length]; lia].
Qed.

Lemma segment_length (x : str) : @length cluster (segment x) <= @length cp x.
Proof.
  pose proof (concat_len_ge (segment x) (segment_nonempty_l x)) as H. rewrite segment_concat_l in H. exact H.
Qed.

(** * the chain never faults *)
Lemma chain_text_total wc B n : wtabs_ok wc = true -> strs_le (erase wc) B ->
  forall x ex st, wf st -> (N.of_nat (S (length x + n * B)) < p64)%N ->
  exists x' ex' st', chain_text wc n x ex st = Some (x', ex', st') /\ wf st' /\ length x' <= length x + n * B.
Proof.
  intros Hok HB. induction n as [|n IH]; intros x ex st Hw Hl; cbn [chain_text].
  - exists x, ex, st. split; [reflexivity|]. split; [exact Hw|lia].
  - pose proof (segment_length x) as Hs.
    destruct (seeded_total_l wc (cd_u (segment x)) (cs_u (segment x)) (segment x) ex st Hw Hok) as (k & st1 & E).
    { cbn [Nat.mul] in Hl. lia. }
    rewrite E. destruct (seeded_in_choices_l _ _ _ _ _ _ _ _ Hw Hok E) as (Hw1 & l & Hc & Hin).
    pose proof (apply_len _ _ _ _ _ HB (choices_valid _ _ _ _ _ _ _ Hc Hin)) as Hlen.
    rewrite segment_concat_l in Hlen.
    destruct (IH (concat (apply_word k (segment x))) (apply_excl k ex) st1 Hw1) as (x' & ex' & st' & Hch & Hw' & Hl').
    { cbn [Nat.mul] in Hl. lia. }
    exists x', ex', st'. split; [exact Hch|]. split; [exact Hw'|]. cbn [Nat.mul]. lia.
Qed.

Lemma art_word_total wc B pc word0 st : wtabs_ok wc = true -> strs_le (erase wc) B -> wf st ->
  (N.of_nat (S (length word0 + Nat.max 1 (length word0) * B)) < p64)%N ->
  exists o st', art_word wc pc word0 st = Some (o, st') /\ wf st'.
Proof.
  intros Hok HB Hw Hl. unfold art_word.
  destruct (count_draws (length (segment word0)) pc st) as [n st2] eqn:E2.
  destruct (count_draws_spec _ _ _ _ _ Hw E2) as [Hn Hw2]. pose proof (segment_length word0) as Hs.
  destruct (chain_text_total wc B (Nat.max n 1) Hok HB word0 [] st2 Hw2) as (x' & ex' & st' & Hc & Hw' & _).
  { nl. assert (Nat.max n 1 * B <= Nat.max 1 (length word0) * B) by (apply Nat.mul_le_mono_r; lia). lia. }
  rewrite Hc. eexists _, st'. split; [reflexivity|exact Hw'].
Qed.

(** * the misspelling branch never faults on non-empty lists *)
Definition miss_small (m : miss) : Prop :=
  forall w r, miss_lookup m w = Some r -> 0 < length r /\ (N.of_nat (length r) < p64)%N.

Lemma miss_lookup_In m w r : miss_lookup m w = Some r -> In r (map snd m).
Proof.
  induction m as [|[k r'] m IH]; cbn [miss_lookup]; intros H; [discriminate|].
  destruct (nlist_eqb w k); [injection H as ->; left; reflexivity|right; apply IH; exact H].
Qed.

Lemma miss_smallb_spec m : miss_smallb m = true -> miss_small m.
Proof.
  intros H w r Hl. apply miss_lookup_In in Hl. apply in_map_iff in Hl as (e & <- & He).
  unfold miss_smallb in H. rewrite forallb_forall in H. specialize (H e He).
  apply Bool.andb_true_iff in H as [H1 H2]. apply Nat.ltb_lt in H1. apply N.ltb_lt in H2. split; [exact H1|]. unfold p64. lia.
Qed.

Lemma scan_length : forall r pos prev skip, length (scan pos prev r skip) <= length r.
Proof.
  induction r as [|c r IH]; intros pos prev skip; cbn [scan length]; [lia|].
  destruct skip as [|k]; [|specialize (IH (S pos) (Some c) k); lia].
  destruct (wb prev (Some c) && wclass c).
  - destruct (span wclass r) as [run rest]. destruct (longest_end c run (hd_error rest)) as [k|].
    + cbn [length]. specialize (IH (S pos) (Some c) k). lia.
    + specialize (IH (S pos) (Some c) 0). lia.
  - specialize (IH (S pos) (Some c) 0). lia.
Qed.

Lemma enum_from_length {A} (l : list A) : forall i, length (enum_from i l) = length l.
Proof. induction l as [|a l IH]; intros i; cbn [enum_from length]; [reflexivity|]. rewrite IH. reflexivity. Qed.

Lemma replacable_length m parts : length (replacable m parts) <= length parts.
Proof.
  unfold replacable. rewrite <- (enum_from_length parts 0). induction (enum_from 0 parts) as [|a l IH]; cbn [flat_map length]; [lia|].
  rewrite app_length. destruct (miss_lookup m (snd (snd a))); cbn [length]; lia.
Qed.

Lemma real_word_total m word st : miss_small m -> wf st -> (N.of_nat (length word) < p64)%N ->
  exists o st', real_word m word (word_parts word) st = Some (o, st') /\ wf st'.
Proof.
  intros Hm Hw Hl. unfold real_word. destruct (miss_lookup m word) as [repls|] eqn:El.
  - destruct (Hm _ _ El) as [H0 H64]. destruct (pick_idx_some _ st H0 H64) as (j & st1 & Ep). rewrite Ep.
    eexists _, st1. split; [reflexivity|]. exact (proj2 (pick_idx_spec _ _ _ _ Hw Ep)).
  - destruct (replacable m (word_parts word)) as [|c0 rp'] eqn:Er.
    + eexists _, st. split; [reflexivity|exact Hw].
    + rewrite <- Er.
      assert (Hlen : (N.of_nat (length (replacable m (word_parts word))) < p64)%N).
      { pose proof (replacable_length m (word_parts word)) as L1. unfold word_parts in L1 at 2.
        pose proof (scan_length word 0 None 0) as L2.
        assert (L3 : length (replacable m (word_parts word)) <= length word) by (eapply Nat.le_trans; [exact L1|exact L2]).
        clear L1 L2. lia. }
      destruct (pick_idx_some (length (replacable m (word_parts word))) st) as (j & st1 & Ep);
        [rewrite Er; cbn; lia|exact Hlen|]. rewrite Ep.
      destruct (pick_idx_spec _ _ _ _ Hw Ep) as [Hj Hw1].
      assert (Hc : In (nth j (replacable m (word_parts word)) (0, [])) (replacable m (word_parts word)))
        by (apply nth_In; exact Hj).
      destruct (nth j (replacable m (word_parts word)) (0, [])) as [idx repls] eqn:En. cbn [fst snd].
      destruct (replacable_In _ _ _ _ Hc) as (pos & part & _ & Hlp). destruct (Hm _ _ Hlp) as [H0 H64].
      destruct (pick_idx_some _ st1 H0 H64) as (i & st2 & Ep2). rewrite Ep2.
      eexists _, st2. split; [reflexivity|]. exact (proj2 (pick_idx_spec _ _ _ _ Hw1 Ep2)).
Qed.

(** * words, text *)
Lemma spell_word_t_total wc m B real_p sum_p pc word st : wtabs_ok wc = true -> strs_le (erase wc) B ->
  miss_small m -> wf st -> (N.of_nat (S (length word + Nat.max 1 (length word) * B)) < p64)%N ->
  exists o st', spell_word_t wc m real_p sum_p pc word st = Some (o, st') /\ wf st'.
Proof.
  intros Hok HB Hm Hw Hl. unfold spell_word_t. destruct (random_f64 st) as [k st1] eqn:E1.
  destruct (random_f64_spec _ _ _ Hw E1) as [_ Hw1].
  destruct (fgt (Fin k (-53)) sum_p); [eexists _, st1; split; [reflexivity|exact Hw1]|].
  destruct (flt (Fin k (-53)) real_p).
  - destruct (real_word_total m word st1 Hm Hw1 ltac:(lia)) as (o & st2 & Er & Hw2). rewrite Er.
    destruct o as [x|]; [eexists _, st2; split; [reflexivity|exact Hw2]|].
    apply (art_word_total wc B); assumption.
  - apply (art_word_total wc B); assumption.
Qed.

Lemma spell_words_t_total wc m B real_p sum_p pc : wtabs_ok wc = true -> strs_le (erase wc) B -> miss_small m ->
  forall ws st, wf st ->
  Forall (fun word => (N.of_nat (S (length word + Nat.max 1 (length word) * B)) < p64)%N) ws ->
  exists l st', spell_words_t wc m real_p sum_p pc ws st = Some (l, st').
Proof.
  intros Hok HB Hm. induction ws as [|w r IH]; intros st Hw Hall; cbn [spell_words_t]; [eexists _, _; reflexivity|].
  inversion Hall as [|? ? Hl Hr]; subst.
  destruct (spell_word_t_total wc m B real_p sum_p pc w st Hok HB Hm Hw Hl) as (o & st1 & E & Hw1). rewrite E.
  destruct (IH st1 Hw1 Hr) as (l & st2 & E2). rewrite E2. eexists _, _. reflexivity.
Qed.

(** every whitespace-separated piece is no longer than the text *)
Lemma push_piece_In w ws x : In x (push_piece w ws) -> x = w \/ In x ws.
Proof. destruct w; cbn [push_piece]; intros H; [right; exact H|]. destruct H as [<-|H]; [left; reflexivity|right; exact H]. Qed.

Lemma split_scan_len sep : forall s,
  length (fst (split_scan_by sep s)) <= length s /\
  Forall (fun w => length w <= length s) (snd (split_scan_by sep s)).
Proof.
  induction s as [|c s [IH1 IH2]]; cbn [split_scan_by]; [split; [cbn; lia|constructor]|].
  destruct (sep c); cbn [fst snd length].
  - split; [lia|]. apply Forall_forall. intros x Hx. apply push_piece_In in Hx as [->|Hx]; [lia|].
    pose proof (proj1 (Forall_forall _ _) IH2 x Hx) as Q. cbn beta in Q. lia.
  - split; [lia|]. eapply Forall_impl; [|exact IH2]. cbn beta. intros a Q. lia.
Qed.

Lemma split_ws_len s : Forall (fun w => length w <= length s) (split_ws s).
Proof.
  unfold split_ws, split_by. destruct (split_scan_len is_ws s) as [H1 H2].
  apply Forall_forall. intros x Hx. apply push_piece_In in Hx as [->|Hx]; [exact H1|].
  exact (proj1 (Forall_forall _ _) H2 x Hx).
Qed.

(** * the domain, decidable *)
Lemma fold_max_le l x : In x l -> x <= fold_right Nat.max 0 l.
Proof. induction l as [|a l IH]; intros H; [destruct H|]. cbn [fold_right]. destruct H as [->|H]; [lia|specialize (IH H); lia]. Qed.

Lemma max_str_le c : strs_le c (max_str c).
Proof.
  unfold strs_le, max_str. split; intros e He; apply fold_max_le, in_map_iff; exists e; (split; [reflexivity|]);
    apply in_or_app; [left|right]; exact He.
Qed.

Lemma size_ok_words wc text : size_ok wc text = true ->
  Forall (fun word => (N.of_nat (S (length word + Nat.max 1 (length word) * max_str (erase wc))) < p64)%N) (split_ws text).
Proof.
  unfold size_ok. intros H. apply N.ltb_lt in H. eapply Forall_impl; [|apply split_ws_len].
  cbn beta. intros w Hw. set (B := max_str (erase wc)) in *.
  assert (A : S (length w + Nat.max 1 (length w) * B) <= S (length text) * (B + 2)) by nia.
  unfold p64. apply (N.le_lt_trans _ (N.of_nat (S (length text) * (B + 2)))); [lia|].
  rewrite Nat2N.inj_mul. lia.
Qed.

(** inside the domain the closure returns a text: no assertion, no "invalid weights", no empty range *)
Lemma spell_text_total_l mode fd prob pc art items m seed text :
  dom_ok mode fd prob items m text = true ->
  exists t, spell_text mode fd prob pc art items m seed text = SpText t.
Proof.
  unfold dom_ok. intros H. apply Bool.andb_true_iff in H as [H Hm]. apply Bool.andb_true_iff in H as [Hp Hc].
  destruct (mode_cfg mode fd items) as [wc|] eqn:Ec; [|discriminate].
  apply Bool.andb_true_iff in Hc as [Hs Hsz].
  assert (Hsane : has_tables mode = true -> items_sane items = true).
  { intros Ht. rewrite Ht in Hs. exact Hs. }
  pose proof (mode_cfg_ok mode fd items wc Hsane Ec) as Hok.
  unfold spell_text. rewrite Hp. cbn [negb].
  destruct (mode_probs mode (fclamp01 prob) pc art) as [[art_p real_p] pc'].
  destruct (spell_words_t_total wc (mode_miss mode m) (max_str (erase wc)) real_p (fadd real_p art_p) pc' Hok
              (max_str_le _) (miss_smallb_spec _ Hm) (split_ws text) (seed_from_u64 seed) (wf_seed seed)
              (size_ok_words wc text Hsz)) as (l & st' & E).
  unfold mode_cfg in Ec. destruct (has_tables mode).
  - destruct (build_tables items) as [it rt|]; [|discriminate]. injection Ec as <-.
    cbn [spell_cfg] in *. unfold mode_miss in E. rewrite E. eexists. reflexivity.
  - injection Ec as <-. cbn [spell_cfg] in *. unfold mode_miss in E. rewrite E. eexists. reflexivity.
Qed.

(** * val level: the executable statement holds of the model's own output (inside the domain it is a text) *)
Lemma val_eqb_refl4 : forall v, val_eqb v v = true.
Proof.
  fix IH 1. intros [z|l]; cbn [val_eqb]; [apply Z.eqb_refl|].
  induction l as [|a l IHl]; [reflexivity|]. cbn. rewrite (IH a). exact IHl.
Qed.

Lemma check_run4_l v : check_spell4 v (L [seeded_spell4 v; seeded_spell4 v]) = true.
Proof.
  unfold check_spell4. rewrite val_eqb_refl4. cbn [andb]. destruct (dom4 v) eqn:D; [|reflexivity]. cbn [negb orb].
  unfold dom4 in D. unfold seeded_spell4, spell4.
  destruct (spell_text_total_l _ _ _ (v_f64w (v_nth 1 (v_nth 7 v))) (v_f64w (v_nth 2 (v_nth 7 v))) _ _ (v_n (v_nth 3 v)) _ D) as [t Ht].
  rewrite Ht. reflexivity.
Qed.

(** an implementation output accepted by the exact line of an in-domain input: both runs printed one text, and
    that text is the words of the input, each kept / misspelt / corrupted by a chain as [word_result_t] says *)
Lemma exact4_spec_l v r1 r2 : dom4 v = true -> exact_spell4 v (seeded_spell4 v) (L [r1; r2]) = true ->
  exists t wc os, r1 = L [list_v n_v t] /\ r2 = r1 /\
    mode_cfg (v_nat (v_nth 1 v)) (v_bool (v_nth 2 v)) (v_list v_item (v_nth 5 v)) = Some wc /\
    Forall2 (word_result_t wc (mode_miss (v_nat (v_nth 1 v)) (v_miss (v_nth 6 v)))) (split_ws (v_str (v_nth 4 v))) os /\
    t = join_sp (keep_some os).
Proof.
  intros D H. unfold exact_spell4 in H. apply Bool.andb_true_iff in H as [H _]. apply Bool.andb_true_iff in H as [H _].
  apply Bool.andb_true_iff in H as [H1 H2]. apply val_eqb_eq in H1, H2. subst r1 r2.
  unfold dom4 in D. assert (D' := D). unfold dom_ok in D'. apply Bool.andb_true_iff in D' as [D' _].
  apply Bool.andb_true_iff in D' as [_ Dc].
  destruct (mode_cfg (v_nat (v_nth 1 v)) (v_bool (v_nth 2 v)) (v_list v_item (v_nth 5 v))) as [wc0|] eqn:Ec; [|discriminate].
  apply Bool.andb_true_iff in Dc as [Ds _].
  destruct (spell_text_total_l _ _ _ (v_f64w (v_nth 1 (v_nth 7 v))) (v_f64w (v_nth 2 (v_nth 7 v))) _ _ (v_n (v_nth 3 v)) _ D) as [t Ht].
  destruct (spell_text_spec_l _ _ _ _ _ _ _ _ _ _ ltac:(intros E; rewrite E in Ds; exact Ds) Ht) as (wc & os & Ec' & Hf & Et).
  rewrite Ec in Ec'. injection Ec' as <-.
  exists t, wc0, os. unfold seeded_spell4, spell4. rewrite Ht. cbn [sp_res_v]. repeat split; assumption.
Qed.

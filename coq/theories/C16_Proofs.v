(** C16 — proofs about the model of the inference windows. *)
From TU Require Import Base C16_Model.
From Coq Require Import Lia ZifyBool ZifyNat ZifyN.
Open Scope N_scope.
Arguments N.add : simpl never.
Arguments N.sub : simpl never.
Arguments N.mul : simpl never.
Arguments N.eqb : simpl never.
Arguments N.ltb : simpl never.
Arguments N.leb : simpl never.
Arguments N.min : simpl never.
Arguments N.of_nat : simpl never.
Arguments N.to_nat : simpl never.

(** * run-length encoding *)
Lemma repeat_snoc {A} (v : A) k : repeat v k ++ [v] = v :: repeat v k.
Proof. induction k as [|k IH]; cbn; [reflexivity|]. rewrite IH. reflexivity. Qed.

Lemma unrle_rle_go v c l : unrle (rle_go v c l) = repeat v (N.to_nat c) ++ l.
Proof.
  revert v c; induction l as [|x l IH]; intros v c; cbn [rle_go].
  - cbn. rewrite !app_nil_r. reflexivity.
  - destruct (x =? v) eqn:E.
    + apply N.eqb_eq in E. subst x. rewrite IH.
      replace (N.to_nat (c + 1)) with (S (N.to_nat c)) by lia.
      change (repeat v (S (N.to_nat c))) with (v :: repeat v (N.to_nat c)).
      rewrite <- repeat_snoc, <- app_assoc. reflexivity.
    + cbn [unrle flat_map fst snd]. fold (unrle (rle_go x 1 l)). rewrite IH.
      change (N.to_nat 1) with 1%nat. reflexivity.
Qed.

Lemma rle_roundtrip_l l : unrle (rle l) = l.
Proof. destruct l as [|v l]; [reflexivity|]. cbn [rle]. rewrite unrle_rle_go. reflexivity. Qed.

(** C16 — proofs about the model of the inference windows. *)
From TU Require Import Base C16_Model.
From Coq Require Import Lia ZifyBool ZifyNat ZifyN.
Open Scope N_scope.
Arguments N.add : simpl never.
Arguments N.sub : simpl never.
Arguments N.mul : simpl never.
Arguments N.eqb : simpl never.
Arguments N.ltb : simpl never.
Arguments N.leb : simpl never.
Arguments N.min : simpl never.
Arguments N.of_nat : simpl never.
Arguments N.to_nat : simpl never.

(** * run-length encoding *)
Lemma repeat_snoc {A} (v : A) k : repeat v k ++ [v] = v :: repeat v k.
Proof. induction k as [|k IH]; cbn; [reflexivity|]. rewrite IH. reflexivity. Qed.

Lemma unrle_rle_go v c l : unrle (rle_go v c l) = repeat v (N.to_nat c) ++ l.
Proof.
  revert v c; induction l as [|x l IH]; intros v c; cbn [rle_go].
  - cbn. rewrite !app_nil_r. reflexivity.
  - destruct (x =? v) eqn:E.
    + apply N.eqb_eq in E. subst x. rewrite IH.
      replace (N.to_nat (c + 1)) with (S (N.to_nat c)) by lia.
      change (repeat v (S (N.to_nat c))) with (v :: repeat v (N.to_nat c)).
      rewrite <- repeat_snoc, <- app_assoc. reflexivity.
    + cbn [unrle flat_map fst snd]. fold (unrle (rle_go x 1 l)). rewrite IH.
      change (N.to_nat 1) with 1%nat. reflexivity.
Qed.

Lemma rle_roundtrip_l l : unrle (rle l) = l.
Proof. destruct l as [|v l]; [reflexivity|]. cbn [rle]. rewrite unrle_rle_go. reflexivity. Qed.

(** * prefix sums *)
Definition cblen (l : list N) (n : N) : N := nth (N.to_nat n) l 0.

Lemma lenN_nil {A} : lenN (@nil A) = 0.
Proof. reflexivity. Qed.
Lemma lenN_cons {A} (x : A) l : lenN (x :: l) = lenN l + 1.
Proof. unfold lenN. cbn [length]. lia. Qed.
Lemma lenN_app {A} (a b : list A) : lenN (a ++ b) = lenN a + lenN b.
Proof. unfold lenN. rewrite app_length. lia. Qed.
Lemma lenN_repeat {A} (v : A) k : lenN (repeat v k) = N.of_nat k.
Proof. unfold lenN. rewrite repeat_length. reflexivity. Qed.

Lemma pre_0 l : pre l 0 = 0.
Proof. destruct l; reflexivity. Qed.
Lemma pre_nil n : pre [] n = 0.
Proof. reflexivity. Qed.
Lemma pre_cons x r n : 0 < n -> pre (x :: r) n = x + pre r (n - 1).
Proof. intros H. cbn [pre]. destruct (n =? 0) eqn:E; [lia|reflexivity]. Qed.

Lemma pre_firstn l : forall n, pre l n = sumN (firstn (N.to_nat n) l).
Proof.
  induction l as [|x l IH]; intros n.
  - rewrite firstn_nil. reflexivity.
  - destruct (N.eq_dec n 0) as [->|Hn]; [reflexivity|].
    rewrite pre_cons by lia. rewrite IH.
    replace (N.to_nat n) with (S (N.to_nat (n - 1))) by lia. reflexivity.
Qed.

Lemma pre_succ l : forall n, pre l (n + 1) = pre l n + cblen l n.
Proof.
  unfold cblen. induction l as [|x l IH]; intros n.
  - cbn [pre]. destruct (N.to_nat n); reflexivity.
  - destruct (N.eq_dec n 0) as [->|Hn].
    + rewrite pre_cons by lia. replace (0 + 1 - 1) with 0 by lia. rewrite !pre_0.
      change (N.to_nat 0) with O. cbn [nth]. lia.
    + rewrite !pre_cons by lia. replace (n + 1 - 1) with (n - 1 + 1) by lia. rewrite IH.
      replace (N.to_nat n) with (S (N.to_nat (n - 1))) by lia. cbn [nth]. lia.
Qed.

Lemma pre_mono l a b : a <= b -> pre l a <= pre l b.
Proof.
  intros H. replace b with (a + (b - a)) by lia. generalize (b - a). clear H b.
  intros d. induction d as [|d IH] using N.peano_ind; [rewrite N.add_0_r; lia|].
  replace (a + N.succ d) with (a + d + 1) by lia. rewrite pre_succ. lia.
Qed.

Lemma pre_all l : forall n, lenN l <= n -> pre l n = sumN l.
Proof.
  induction l as [|x l IH]; intros n H; [reflexivity|].
  rewrite lenN_cons in H. rewrite pre_cons by lia. cbn [sumN fold_right]. rewrite IH by lia. reflexivity.
Qed.

Definition Pos (l : list N) : Prop := Forall (fun b => 0 < b) l.

Lemma cblen_pos l n : Pos l -> n < lenN l -> 0 < cblen l n.
Proof.
  intros HP Hn. unfold cblen. unfold Pos in HP. rewrite Forall_forall in HP. apply HP.
  apply nth_In. unfold lenN in Hn. lia.
Qed.

Lemma pre_strict l a b : Pos l -> a < b -> b <= lenN l -> pre l a < pre l b.
Proof.
  intros HP H1 H2. pose proof (pre_mono l (a + 1) b ltac:(lia)) as H.
  rewrite pre_succ in H. pose proof (cblen_pos l a HP ltac:(lia)). lia.
Qed.

Lemma pre_le_sum l n : pre l n <= sumN l.
Proof.
  destruct (N.le_gt_cases (lenN l) n) as [H|H].
  - rewrite pre_all by exact H. lia.
  - rewrite <- (pre_all l (lenN l)) by lia. apply pre_mono. lia.
Qed.

Lemma pre_repeat_app v l k : forall m,
  pre (repeat v k ++ l) m =
  if m <=? N.of_nat k then v * m else v * N.of_nat k + pre l (m - N.of_nat k).
Proof.
  induction k as [|k IH]; intros m.
  - cbn [repeat app]. destruct (m <=? N.of_nat 0) eqn:E.
    + replace m with 0 by lia. rewrite pre_0. lia.
    + replace (m - N.of_nat 0) with m by lia. lia.
  - cbn [repeat app]. destruct (N.eq_dec m 0) as [->|Hm].
    + rewrite pre_0. destruct (0 <=? N.of_nat (S k)) eqn:E; lia.
    + rewrite pre_cons by lia. rewrite IH.
      destruct (m - 1 <=? N.of_nat k) eqn:E1; destruct (m <=? N.of_nat (S k)) eqn:E2; try lia.
      * replace m with (m - 1 + 1) at 2 by lia. lia.
      * replace (m - N.of_nat (S k)) with (m - 1 - N.of_nat k) by lia.
        replace (N.of_nat (S k)) with (N.of_nat k + 1) by lia. lia.
Qed.

(** * byte_start_end on the run-length encoded form *)
Lemma bse_go_spec r : forall start total n, total <= n ->
  bse_go r start total n =
  if n - total <? lenN (unrle r)
  then Ok (start + pre (unrle r) (n - total), start + pre (unrle r) (n - total + 1))
  else Panic 1.
Proof.
  induction r as [|[nb cnt] r IH]; intros start total n H.
  - cbn [bse_go unrle flat_map]. rewrite lenN_nil. destruct (n - total <? 0) eqn:E; [lia|reflexivity].
  - cbn [bse_go]. cbn [unrle flat_map fst snd]. fold (unrle r).
    rewrite lenN_app, lenN_repeat, N2Nat.id.
    destruct (n <? total + cnt) eqn:E1.
    + unfold csub. destruct (total <=? n) eqn:E2; [|lia]. cbn [bind].
      destruct (n - total <? cnt + lenN (unrle r)) eqn:E3; [|lia].
      rewrite !pre_repeat_app, N2Nat.id.
      destruct (n - total <=? cnt) eqn:E4; [|lia].
      destruct (n - total + 1 <=? cnt) eqn:E5; [|lia].
      f_equal. f_equal. lia.
    + rewrite IH by lia.
      replace (n - (total + cnt)) with (n - total - cnt) by lia.
      destruct (n - total - cnt <? lenN (unrle r)) eqn:E3;
        destruct (n - total <? cnt + lenN (unrle r)) eqn:E4; try lia; [|reflexivity].
      rewrite !pre_repeat_app, N2Nat.id.
      destruct (n - total <=? cnt) eqn:E5.
      * assert (n - total = cnt) as -> by lia. replace (cnt - cnt) with 0 by lia. rewrite pre_0.
        destruct (cnt + 1 <=? cnt) eqn:E6; [lia|].
        replace (cnt + 1 - cnt) with (0 + 1) by lia. f_equal. f_equal; lia.
      * destruct (n - total + 1 <=? cnt) eqn:E6; [lia|].
        replace (n - total + 1 - cnt) with (n - total - cnt + 1) by lia. f_equal. f_equal; lia.
Qed.

Lemma bse_new lens n :
  bse (cs_new lens) n =
  if n <? lenN lens then Ok (pre lens n, pre lens (n + 1)) else Panic 1.
Proof.
  unfold bse, cs_new. cbn [c_rle]. rewrite bse_go_spec by lia. rewrite rle_roundtrip_l.
  rewrite N.sub_0_r, !N.add_0_l. reflexivity.
Qed.

Lemma cbl_new lens n : n < lenN lens -> cbl (cs_new lens) n = Ok (cblen lens n).
Proof.
  intros H. unfold cbl. rewrite bse_new. destruct (n <? lenN lens) eqn:E; [|lia].
  cbn [bind fst snd]. unfold csub. rewrite pre_succ.
  destruct (pre lens n <=? pre lens n + cblen lens n) eqn:E2; [|lia]. f_equal. lia.
Qed.

(** * char_range_to_byte_range, slices, sub, get on a CharString built by [cs_new] *)
Lemma cr2br_new lens a b : a < b -> b <= lenN lens ->
  cr2br (cs_new lens) a b = Ok (pre lens a, pre lens b).
Proof.
  intros H1 H2. unfold cr2br. cbn [cs_new c_len].
  destruct (a <? b) eqn:E1; [|lia]. destruct (b <=? lenN lens) eqn:E2; [|lia]. cbn [andb].
  rewrite bse_new. destruct (a <? lenN lens) eqn:E3; [|lia]. cbn [bind fst snd].
  destruct (a <? b - 1) eqn:E4.
  - rewrite bse_new. destruct (b - 1 <? lenN lens) eqn:E5; [|lia]. cbn [bind fst snd].
    replace (b - 1 + 1) with b by lia. reflexivity.
  - replace (a + 1) with b by lia. reflexivity.
Qed.

Lemma cr2br_assert lens a b : ~ (a < b /\ b <= lenN lens) -> cr2br (cs_new lens) a b = Panic 4.
Proof.
  intros H. unfold cr2br. cbn [cs_new c_len].
  destruct (a <? b) eqn:E1; destruct (b <=? lenN lens) eqn:E2; cbn [andb]; try reflexivity. lia.
Qed.

Lemma slice_new lens bs be : bs <= be -> be <= sumN lens ->
  slice (cs_new lens) bs be = Ok (bs, be - bs).
Proof.
  intros H1 H2. unfold slice. cbn [cs_new c_blen].
  destruct (bs <=? be) eqn:E1; [|lia]. destruct (be <=? sumN lens) eqn:E2; [|lia]. reflexivity.
Qed.

Lemma sub_new lens a b : a <= b ->
  sub (cs_new lens) a b =
  if N.min a (lenN lens) =? N.min b (lenN lens) then Ok (0, 0)
  else Ok (pre lens (N.min a (lenN lens)),
           pre lens (N.min b (lenN lens)) - pre lens (N.min a (lenN lens))).
Proof.
  intros H. unfold sub. cbn [cs_new c_len]. destruct (b <? a) eqn:E0; [lia|].
  destruct (lenN lens =? 0) eqn:E1; cbn [orb].
  - destruct (N.min a (lenN lens) =? N.min b (lenN lens)) eqn:E2; [reflexivity|lia].
  - destruct (N.min a (lenN lens) =? N.min b (lenN lens)) eqn:E2; [reflexivity|].
    rewrite cr2br_new by lia. cbn [bind fst snd].
    apply slice_new; [apply pre_mono; lia | apply pre_le_sum].
Qed.

Lemma sub_assert lens a b : b < a -> sub (cs_new lens) a b = Panic 5.
Proof. intros H. unfold sub. destruct (b <? a) eqn:E; [reflexivity|lia]. Qed.

Lemma get_new lens n :
  cs_get (cs_new lens) n =
  if lenN lens <=? n then Ok None else Ok (Some (pre lens n, cblen lens n)).
Proof.
  unfold cs_get. cbn [cs_new c_len]. destruct (lenN lens <=? n) eqn:E; [reflexivity|].
  rewrite bse_new. destruct (n <? lenN lens) eqn:E2; [|lia]. cbn [bind fst snd].
  rewrite slice_new; [| apply pre_mono; lia | apply pre_le_sum]. cbn [bind].
  rewrite pre_succ. do 3 f_equal. lia.
Qed.

Lemma mkwin_new lens c ws we e : c < e -> e <= lenN lens -> ws < we -> we <= lenN lens ->
  mkwin (cs_new lens) c ws we e =
  Ok (mkw c ws we e (pre lens c) (pre lens ws) (pre lens we) (pre lens e)
          (pre lens c) (pre lens e - pre lens c)).
Proof.
  intros H1 H2 H3 H4. unfold mkwin. rewrite !cr2br_new by lia. cbn [bind fst snd].
  rewrite sub_new by lia. destruct (N.min c (lenN lens) =? N.min e (lenN lens)) eqn:E; [lia|].
  cbn [bind fst snd]. replace (N.min c (lenN lens)) with c by lia.
  replace (N.min e (lenN lens)) with e by lia. reflexivity.
Qed.

(** * count_until *)
Lemma count_fwd lens maxl a0 : forall k a,
  a0 <= a -> a + N.of_nat k <= lenN lens -> pre lens a - pre lens a0 <= maxl ->
  exists c, count_until (cs_new lens) (nrange_k a k) maxl (a - a0) (pre lens a - pre lens a0) = Ok c
    /\ a - a0 <= c /\ c <= a - a0 + N.of_nat k
    /\ pre lens (a0 + c) - pre lens a0 <= maxl
    /\ (c < a - a0 + N.of_nat k -> maxl < pre lens (a0 + c + 1) - pre lens a0).
Proof.
  induction k as [|k IH]; intros a H1 H2 H3.
  - exists (a - a0). cbn [nrange_k count_until]. replace (a0 + (a - a0)) with a by lia.
    repeat split; lia.
  - cbn [nrange_k count_until]. rewrite cbl_new by lia. cbn [bind].
    pose proof (pre_succ lens a) as HS. pose proof (pre_mono lens a0 a H1) as HM.
    destruct (maxl <? pre lens a - pre lens a0 + cblen lens a) eqn:E.
    + exists (a - a0). replace (a0 + (a - a0)) with a by lia. repeat split; try lia.
    + destruct (IH (a + 1)) as (c & Hc & B1 & B2 & B3 & B4); try lia.
      exists c. replace (a - a0 + 1) with (a + 1 - a0) by lia.
      replace (pre lens a - pre lens a0 + cblen lens a) with (pre lens (a + 1) - pre lens a0) by lia.
      repeat split; try assumption; try lia.
Qed.

Lemma count_fwd_top lens maxl a b : a <= b -> b <= lenN lens ->
  exists c, count_until (cs_new lens) (nrange a b) maxl 0 0 = Ok c
    /\ a + c <= b
    /\ pre lens (a + c) - pre lens a <= maxl
    /\ (a + c < b -> maxl < pre lens (a + c + 1) - pre lens a).
Proof.
  intros H1 H2. unfold nrange.
  destruct (count_fwd lens maxl a (N.to_nat (b - a)) a) as (c & Hc & B1 & B2 & B3 & B4); try lia.
  exists c. replace (a - a) with 0 in * by lia. replace (pre lens a - pre lens a) with 0 in Hc by lia.
  repeat split; try assumption; lia.
Qed.

Fixpoint ndown (a : N) (k : nat) : list N :=
  match k with O => [] | S k' => (a - 1) :: ndown (a - 1) k' end.

Lemma ndown_snoc k : forall b, N.of_nat k < b -> ndown b (S k) = ndown b k ++ [b - N.of_nat k - 1].
Proof.
  induction k as [|k IH]; intros b H.
  - cbn. f_equal. lia.
  - change (ndown b (S (S k))) with ((b - 1) :: ndown (b - 1) (S k)).
    rewrite IH by lia. cbn [ndown app]. do 3 f_equal. lia.
Qed.

Lemma rev_nrange_k k : forall a, rev (nrange_k a k) = ndown (a + N.of_nat k) k.
Proof.
  induction k as [|k IH]; intros a; [reflexivity|].
  cbn [nrange_k rev]. rewrite IH.
  replace (a + N.of_nat (S k)) with (a + 1 + N.of_nat k) by lia.
  rewrite ndown_snoc by lia. do 2 f_equal. lia.
Qed.

Lemma count_bwd lens maxl a0 : a0 <= lenN lens -> forall k a,
  a <= a0 -> N.of_nat k <= a -> pre lens a0 - pre lens a <= maxl ->
  exists c, count_until (cs_new lens) (ndown a k) maxl (a0 - a) (pre lens a0 - pre lens a) = Ok c
    /\ a0 - a <= c /\ c <= a0 - a + N.of_nat k
    /\ pre lens a0 - pre lens (a0 - c) <= maxl.
Proof.
  intros H0. induction k as [|k IH]; intros a H1 H2 H3.
  - exists (a0 - a). cbn [ndown count_until]. replace (a0 - (a0 - a)) with a by lia. repeat split; lia.
  - cbn [ndown count_until]. rewrite cbl_new by lia. cbn [bind].
    pose proof (pre_succ lens (a - 1)) as HS. replace (a - 1 + 1) with a in HS by lia.
    pose proof (pre_mono lens a a0 H1) as HM.
    destruct (maxl <? pre lens a0 - pre lens a + cblen lens (a - 1)) eqn:E.
    + exists (a0 - a). replace (a0 - (a0 - a)) with a by lia. repeat split; lia.
    + destruct (IH (a - 1)) as (c & Hc & B1 & B2 & B3); try lia.
      exists c. replace (a0 - a + 1) with (a0 - (a - 1)) by lia.
      replace (pre lens a0 - pre lens a + cblen lens (a - 1)) with (pre lens a0 - pre lens (a - 1)) by lia.
      repeat split; try assumption; lia.
Qed.

Lemma count_bwd_top lens maxl a : a <= lenN lens ->
  exists c, count_until (cs_new lens) (rev (nrange 0 a)) maxl 0 0 = Ok c
    /\ c <= a /\ pre lens a - pre lens (a - c) <= maxl.
Proof.
  intros H. unfold nrange. rewrite rev_nrange_k.
  replace (0 + N.of_nat (N.to_nat (a - 0))) with a by lia.
  destruct (count_bwd lens maxl a H (N.to_nat (a - 0)) a) as (c & Hc & B1 & B2 & B3); try lia.
  exists c. replace (a - a) with 0 in * by lia. replace (pre lens a - pre lens a) with 0 in Hc by lia.
  repeat split; try assumption; lia.
Qed.

(** * The loops *)
(** per-window clauses, [kc] = 0 characters / 1 bytes / 2 full *)
Definition win_ok (lens : list N) (kc max : N) (w : window) : Prop :=
  (* ctx_contains: context contains the window, lies in the text; window not empty *)
  (w_cs w <= w_ws w /\ w_ws w < w_we w /\ w_we w <= w_ce w /\ w_ce w <= lenN lens) /\
  (* byte_char_agree: each byte boundary is the sum of the cluster lengths before the character boundary *)
  (w_bcs w = pre lens (w_cs w) /\ w_bws w = pre lens (w_ws w) /\
   w_bwe w = pre lens (w_we w) /\ w_bce w = pre lens (w_ce w)) /\
  (* ctx_str: the reported string is the byte range of the context *)
  (w_soff w = w_bcs w /\ w_slen w = w_bce w - w_bcs w) /\
  (* ctx_bound *)
  (kc = 0 -> w_ce w - w_cs w <= max) /\
  (kc = 1 -> w_bce w - w_bcs w <= max).

Lemma c_len_new lens : c_len (cs_new lens) = lenN lens.
Proof. reflexivity. Qed.

Lemma char_loop_ok lens max ctx : 2 * ctx < max -> forall fuel ws,
  lenN lens <= ws + N.of_nat fuel -> ws <= lenN lens ->
  exists wins, char_loop fuel (cs_new lens) max ctx ws = Ok wins
    /\ Tile w_ws w_we ws (lenN lens) wins /\ Forall (win_ok lens 0 max) wins.
Proof.
  intros Hv. induction fuel as [|f IH]; intros ws Hf Hw.
  - cbn [char_loop]. rewrite c_len_new. destruct (ws <? lenN lens) eqn:E; [lia|].
    exists []. repeat split; [cbn [Tile]; lia | constructor].
  - cbn [char_loop]. rewrite !c_len_new. destruct (ws <? lenN lens) eqn:E.
    2:{ exists []. repeat split; [cbn [Tile]; lia | constructor]. }
    unfold csub.
    destruct (0 <? ws) eqn:E0; cbn [b2n];
      (match goal with |- context [?a <=? max] => destruct (a <=? max) eqn:E1; [|lia] end);
      cbn [bind];
      (rewrite mkwin_new by lia); cbn [bind];
      (match goal with |- context [char_loop f _ _ _ ?we] =>
         destruct (IH we) as (rest & Hr & HT & HF); [lia|lia|]; rewrite Hr end);
      cbn [bind];
      (eexists; split; [reflexivity|]; split;
       [ cbn [Tile w_ws w_we]; repeat split; try lia; exact HT
       | constructor; [|exact HF]; unfold win_ok; cbn [w_cs w_ws w_we w_ce w_bcs w_bws w_bwe w_bce w_soff w_slen];
         repeat split; try lia; intros; lia ]).
Qed.

Lemma byte_loop_ok lens max ctx : 2 * ctx < max -> forall fuel ws,
  lenN lens <= ws + N.of_nat fuel -> ws <= lenN lens ->
  (exists wins, byte_loop fuel (cs_new lens) max ctx ws = Ok wins
     /\ Tile w_ws w_we ws (lenN lens) wins /\ Forall (win_ok lens 1 max) wins
     /\ Forall (fun w => w_bwe w - w_bws w <= max - ctx) wins)
  \/ (exists p, byte_loop fuel (cs_new lens) max ctx ws
                = Err 2 [p; cblen lens p; max - (1 + b2n (0 <? p)) * ctx]
     /\ ws <= p /\ p < lenN lens /\ max - (1 + b2n (0 <? p)) * ctx < cblen lens p).
Proof.
  intros Hv. induction fuel as [|f IH]; intros ws Hf Hw.
  - cbn [byte_loop]. rewrite c_len_new. destruct (ws <? lenN lens) eqn:E; [lia|].
    left. exists []. repeat split; [cbn [Tile]; lia | constructor | constructor].
  - cbn [byte_loop]. rewrite !c_len_new. destruct (ws <? lenN lens) eqn:E.
    2:{ left. exists []. repeat split; [cbn [Tile]; lia | constructor | constructor]. }
    unfold csub.
    destruct (0 <? ws) eqn:E0; cbn [b2n];
      (match goal with |- context [?a <=? max] => destruct (a <=? max) eqn:E1; [|lia] end);
      cbn [bind];
      (match goal with |- context [count_until _ (nrange ws _) ?wl 0 0] =>
         destruct (count_fwd_top lens wl ws (lenN lens)) as (cnt & Hc & C1 & C2 & C3); [lia|lia|] end);
      rewrite Hc; cbn [bind];
      (destruct (ws + cnt <=? ws) eqn:E2;
       [ (* no progress: the error *)
         rewrite cbl_new by lia; cbn [bind]; right; exists ws; rewrite E0; cbn [b2n];
         assert (cnt = 0) as -> by lia;
         pose proof (pre_succ lens ws) as HS; replace (ws + 0) with ws in * by lia;
         split; [reflexivity|]; repeat split; lia
       | ]);
      (destruct (count_bwd_top lens ctx ws) as (cb & Hb & B1 & B2); [lia|]);
      rewrite Hb; cbn [bind];
      (destruct (count_fwd_top lens ctx (ws + cnt) (lenN lens)) as (cf & Hcf & F1 & F2 & _); [lia|lia|]);
      rewrite Hcf; cbn [bind];
      (rewrite mkwin_new by lia); cbn [bind];
      pose proof (pre_mono lens (ws - cb) ws ltac:(lia)) as M1;
      assert (M0 : 0 < ws \/ pre lens (ws - cb) = pre lens ws)
        by (destruct (N.eq_dec ws 0) as [Z|Z]; [right; f_equal; lia | left; lia]);
      pose proof (pre_mono lens ws (ws + cnt) ltac:(lia)) as M2;
      pose proof (pre_mono lens (ws + cnt) (ws + cnt + cf) ltac:(lia)) as M3;
      (destruct (IH (ws + cnt)) as [(rest & Hr & HT & HF & HG)|(p & Hr & P1 & P2 & P3)]; [lia|lia| |]);
      rewrite Hr; cbn [bind];
      [ left; eexists; split; [reflexivity|]; split;
        [ cbn [Tile w_ws w_we]; repeat split; try lia; exact HT
        | split;
          [ constructor; [|exact HF]; unfold win_ok;
            cbn [w_cs w_ws w_we w_ce w_bcs w_bws w_bwe w_bce w_soff w_slen];
            repeat split; try lia; intros; lia
          | constructor; [|exact HG]; cbn [w_bws w_bwe]; lia ] ]
      | right; exists p; split; [reflexivity|]; repeat split; lia
      | left; eexists; split; [reflexivity|]; split;
        [ cbn [Tile w_ws w_we]; repeat split; try lia; exact HT
        | split;
          [ constructor; [|exact HF]; unfold win_ok;
            cbn [w_cs w_ws w_we w_ce w_bcs w_bws w_bwe w_bce w_soff w_slen];
            repeat split; try lia; intros; lia
          | constructor; [|exact HG]; cbn [w_bws w_bwe]; lia ] ]
      | right; exists p; split; [reflexivity|]; repeat split; lia ].
Qed.

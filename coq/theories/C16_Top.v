(** C16 — top-level results about [windows], derived from the loop invariants. *)
From TU Require Import Base C16_Model C16_Proofs.
From Coq Require Import Lia ZifyBool ZifyNat ZifyN.
Open Scope N_scope.
Arguments N.add : simpl never.
Arguments N.sub : simpl never.
Arguments N.mul : simpl never.
Arguments N.eqb : simpl never.
Arguments N.ltb : simpl never.
Arguments N.leb : simpl never.
Arguments N.min : simpl never.
Arguments N.of_nat : simpl never.
Arguments N.to_nat : simpl never.

(** * small facts *)
Lemma sumN_cons x l : sumN (x :: l) = x + sumN l.
Proof. reflexivity. Qed.

Lemma Pos_sum lens : Pos lens -> lens <> [] -> 0 < sumN lens.
Proof.
  intros HP HN. destruct lens as [|x l]; [congruence|]. rewrite sumN_cons.
  unfold Pos in HP. apply Forall_inv in HP. lia.
Qed.

Lemma lenN_pos {A} (l : list A) : l <> [] -> 0 < lenN l.
Proof. destruct l; [congruence|]. intros _. rewrite lenN_cons. lia. Qed.

Lemma cblen_In l n : n < lenN l -> In (cblen l n) l.
Proof. intros H. unfold cblen. apply nth_In. unfold lenN in H. lia. Qed.

Lemma In_cblen l b : In b l -> exists n, n < lenN l /\ cblen l n = b.
Proof.
  intros H. destruct (In_nth l b 0 H) as (k & Hk & E). exists (N.of_nat k). split.
  - unfold lenN. lia.
  - unfold cblen. rewrite Nat2N.id. exact E.
Qed.

Lemma range_ge_elem lens a i b : a <= i -> i < b -> cblen lens i <= pre lens b - pre lens a.
Proof.
  intros H1 H2. pose proof (pre_mono lens a i H1). pose proof (pre_mono lens (i + 1) b ltac:(lia)).
  rewrite pre_succ in *. lia.
Qed.

(** * tilings *)
Lemma Tile_cover fs fe wins : forall s e i, Tile fs fe s e wins -> s <= i -> i < e ->
  exists w, In w wins /\ fs w <= i /\ i < fe w.
Proof.
  induction wins as [|w r IH]; intros s e i HT H1 H2; cbn [Tile] in HT.
  - lia.
  - destruct HT as (E1 & E2 & HT). destruct (N.lt_ge_cases i (fe w)) as [Hi|Hi].
    + exists w. split; [left; reflexivity|]. lia.
    + destruct (IH (fe w) e i HT Hi H2) as (w' & Hin & B). exists w'. split; [right; exact Hin|exact B].
Qed.

Lemma Tile_le fs fe wins : forall s e, Tile fs fe s e wins -> s <= e.
Proof.
  induction wins as [|w r IH]; intros s e HT; cbn [Tile] in HT; [lia|].
  destruct HT as (E1 & E2 & HT). apply IH in HT. lia.
Qed.

(** a tiling in characters is a tiling in bytes *)
Lemma Tile_bytes lens kc max : Pos lens -> forall wins s,
  Tile w_ws w_we s (lenN lens) wins -> Forall (win_ok lens kc max) wins ->
  Tile w_bws w_bwe (pre lens s) (sumN lens) wins.
Proof.
  intros HP. induction wins as [|w r IH]; intros s HT HF; cbn [Tile] in *.
  - subst s. apply pre_all. lia.
  - destruct HT as (E1 & E2 & HT). inversion HF as [|? ? Hw HF']; subst.
    destruct Hw as ((A1 & A2 & A3 & A4) & (B1 & B2 & B3 & B4) & _).
    split; [rewrite B2; reflexivity|]. split.
    + rewrite B3. apply pre_strict; [exact HP|lia|lia].
    + rewrite B3. apply IH; assumption.
Qed.

(** the explicit reading of [Tile]: first starts at [s], the last ends at [e],
    consecutive windows touch, none is empty *)
Lemma Tile_explicit fs fe d wins : forall s e, Tile fs fe s e wins -> s <> e ->
  wins <> [] /\ fs (hd d wins) = s /\ fe (last wins d) = e
  /\ (forall i, (S i < length wins)%nat -> fe (nth i wins d) = fs (nth (S i) wins d))
  /\ Forall (fun w => fs w < fe w) wins.
Proof.
  induction wins as [|w r IH]; intros s e HT Hne; cbn [Tile] in HT; [congruence|].
  destruct HT as (E1 & E2 & HT). split; [discriminate|]. split; [exact E1|].
  destruct r as [|w2 r'].
  - cbn [Tile] in HT. cbn [last length]. repeat split; try assumption.
    + intros i Hi. lia.
    + constructor; [lia|constructor].
  - assert (Hne2 : fe w <> e).
    { cbn [Tile] in HT. destruct HT as (F1 & F2 & HT'). apply Tile_le in HT'. lia. }
    destruct (IH (fe w) e HT Hne2) as (_ & I1 & I2 & I3 & I4).
    split; [exact I2|]. split.
    + intros [|i] Hi.
      * cbn [nth]. cbn [hd] in I1. symmetry. exact I1.
      * change (nth (S i) (w :: w2 :: r') d) with (nth i (w2 :: r') d).
        change (nth (S (S i)) (w :: w2 :: r') d) with (nth (S i) (w2 :: r') d).
        apply I3. cbn [length] in *. lia.
    + constructor; [lia|exact I4].
Qed.

(** byte ranges of a tiling concatenate to the text *)
Definition bslice {A} (t : list A) (a b : N) : list A :=
  firstn (N.to_nat (b - a)) (skipn (N.to_nat a) t).

Lemma skipn_skipn' {A} : forall (y x : nat) (l : list A), skipn x (skipn y l) = skipn (x + y) l.
Proof.
  induction y as [|y IH]; intros x l.
  - rewrite Nat.add_0_r. reflexivity.
  - rewrite Nat.add_succ_r. destruct l as [|a l]; [rewrite !skipn_nil; reflexivity|].
    cbn [skipn]. apply IH.
Qed.

Lemma Tile_concat {A} (t : list A) fs fe wins : forall s, Tile fs fe s (lenN t) wins ->
  concat (map (fun w => bslice t (fs w) (fe w)) wins) = skipn (N.to_nat s) t.
Proof.
  induction wins as [|w r IH]; intros s HT; cbn [Tile] in HT; cbn [map concat].
  - subst s. unfold lenN. rewrite Nat2N.id. rewrite skipn_all. reflexivity.
  - destruct HT as (E1 & E2 & HT). rewrite (IH _ HT). unfold bslice. rewrite E1.
    replace (N.to_nat (fe w)) with (N.to_nat (fe w - s) + N.to_nat s)%nat by lia.
    rewrite <- skipn_skipn'. apply firstn_skipn.
Qed.

(** * the two window functions *)
Lemma char_windows_err lens max ctx : max <= 2 * ctx -> char_windows lens max ctx = Err 1 [].
Proof. intros H. unfold char_windows. destruct (max <=? 2 * ctx) eqn:E; [reflexivity|lia]. Qed.

Lemma byte_windows_err lens max ctx : max <= 2 * ctx -> byte_windows lens max ctx = Err 1 [].
Proof. intros H. unfold byte_windows. destruct (max <=? 2 * ctx) eqn:E; [reflexivity|lia]. Qed.

Lemma char_windows_ok lens max ctx : 2 * ctx < max ->
  exists wins, char_windows lens max ctx = Ok wins
    /\ Tile w_ws w_we 0 (lenN lens) wins /\ Forall (win_ok lens 0 max) wins.
Proof.
  intros H. unfold char_windows. destruct (max <=? 2 * ctx) eqn:E; [lia|].
  apply char_loop_ok; [exact H| unfold lenN; lia | lia].
Qed.

Lemma byte_windows_cases lens max ctx : 2 * ctx < max ->
  (exists wins, byte_windows lens max ctx = Ok wins
     /\ Tile w_ws w_we 0 (lenN lens) wins /\ Forall (win_ok lens 1 max) wins
     /\ Forall (fun w => w_bwe w - w_bws w <= max - ctx) wins)
  \/ (exists p, byte_windows lens max ctx = Err 2 [p; cblen lens p; max - (1 + b2n (0 <? p)) * ctx]
     /\ p < lenN lens /\ max - (1 + b2n (0 <? p)) * ctx < cblen lens p).
Proof.
  intros H. unfold byte_windows. destruct (max <=? 2 * ctx) eqn:E; [lia|].
  destruct (byte_loop_ok lens max ctx H (length lens) 0) as [HL|(p & Hr & _ & P2 & P3)];
    [unfold lenN; lia | lia | left; exact HL | right; exists p; repeat split; assumption].
Qed.

(** a character wider than max - ctx fits in no window: the error *)
Lemma byte_windows_wide lens max ctx b : 2 * ctx < max -> In b lens -> max - ctx < b ->
  exists info, byte_windows lens max ctx = Err 2 info.
Proof.
  intros H Hin Hb. destruct (byte_windows_cases lens max ctx H) as [(wins & Hr & HT & HF & HG)|(p & Hr & _)].
  - exfalso. destruct (In_cblen lens b Hin) as (i & Hi & Ei).
    destruct (Tile_cover _ _ _ _ _ i HT ltac:(lia) Hi) as (w & Hw & W1 & W2).
    rewrite Forall_forall in HF, HG. specialize (HF w Hw). specialize (HG w Hw). cbn beta in HG.
    destruct HF as (_ & (B1 & B2 & B3 & B4) & _).
    pose proof (range_ge_elem lens (w_ws w) i (w_we w) W1 W2). rewrite B2, B3 in HG. lia.
  - eexists. exact Hr.
Qed.

(** every character fits in every window: no error *)
Lemma byte_windows_fit lens max ctx : 2 * ctx < max -> Forall (fun b => b <= max - 2 * ctx) lens ->
  exists wins, byte_windows lens max ctx = Ok wins
     /\ Tile w_ws w_we 0 (lenN lens) wins /\ Forall (win_ok lens 1 max) wins.
Proof.
  intros H HA. destruct (byte_windows_cases lens max ctx H) as [(wins & Hr & HT & HF & HG)|(p & Hr & P1 & P2)].
  - exists wins. repeat split; assumption.
  - exfalso. rewrite Forall_forall in HA. specialize (HA _ (cblen_In lens p P1)). cbn beta in HA.
    destruct (0 <? p); cbn [b2n] in P2; lia.
Qed.

(** * [windows] *)
Lemma kclass_cases kind : kclass kind = 0 \/ kclass kind = 1 \/ kclass kind = 2.
Proof.
  unfold kclass. destruct ((kind =? 0) || (kind =? 3)); [left; reflexivity|].
  destruct (kind =? 2); [right; right|right; left]; reflexivity.
Qed.

Lemma windows_unfold kind max ctx lens : Pos lens -> lens <> [] ->
  windows kind max ctx lens =
  if kclass kind =? 0 then char_windows lens max ctx
  else if kclass kind =? 1 then byte_windows lens max ctx
  else Ok [full_window (cs_new lens)].
Proof.
  intros HP HN. pose proof (Pos_sum lens HP HN) as HS. unfold windows, kclass.
  destruct (sumN lens =? 0) eqn:E0; [lia|].
  destruct (kind =? 3) eqn:E3; destruct (4 <=? kind) eqn:E4; destruct (kind =? 0) eqn:E0';
    destruct (kind =? 1) eqn:E1; destruct (kind =? 2) eqn:E2; cbn [orb]; try lia; reflexivity.
Qed.

Lemma full_window_ok lens max : lens <> [] ->
  Tile w_ws w_we 0 (lenN lens) [full_window (cs_new lens)] /\ win_ok lens 2 max (full_window (cs_new lens)).
Proof.
  intros HN. pose proof (lenN_pos lens HN) as HL. unfold full_window. cbn [cs_new c_len c_blen].
  split.
  - cbn [Tile w_ws w_we]. repeat split; lia.
  - unfold win_ok. cbn [w_cs w_ws w_we w_ce w_bcs w_bws w_bwe w_bce w_soff w_slen].
    rewrite pre_0. rewrite pre_all by lia. repeat split; try lia; intros; lia.
Qed.

Definition Good (lens : list N) (kind max : N) (wins : list window) : Prop :=
  Tile w_ws w_we 0 (lenN lens) wins /\ Forall (win_ok lens (kclass kind) max) wins.

Lemma windows_outcome kind max ctx lens : Pos lens -> lens <> [] ->
  (exists wins, windows kind max ctx lens = Ok wins /\ Good lens kind max wins
     /\ (kclass kind <> 2 -> 2 * ctx < max)
     /\ (kclass kind = 1 -> Forall (fun w => w_bwe w - w_bws w <= max - ctx) wins))
  \/ (windows kind max ctx lens = Err 1 [] /\ kclass kind <> 2 /\ max <= 2 * ctx)
  \/ (exists p, windows kind max ctx lens = Err 2 [p; cblen lens p; max - (1 + b2n (0 <? p)) * ctx]
        /\ kclass kind = 1 /\ 2 * ctx < max /\ p < lenN lens
        /\ max - (1 + b2n (0 <? p)) * ctx < cblen lens p).
Proof.
  intros HP HN. rewrite windows_unfold by assumption. unfold Good.
  destruct (kclass_cases kind) as [K|[K|K]]; rewrite K.
  - change (0 =? 0) with true. cbv iota.
    destruct (N.le_gt_cases max (2 * ctx)) as [H|H].
    + right; left. rewrite char_windows_err by exact H. repeat split; [lia|exact H].
    + left. destruct (char_windows_ok lens max ctx H) as (wins & Hr & HT & HF).
      exists wins. repeat split; try assumption; intros; try assumption; lia.
  - change (1 =? 0) with false. change (1 =? 1) with true. cbv iota.
    destruct (N.le_gt_cases max (2 * ctx)) as [H|H].
    + right; left. rewrite byte_windows_err by exact H. repeat split; [lia|exact H].
    + destruct (byte_windows_cases lens max ctx H) as [(wins & Hr & HT & HF & HG)|(p & Hr & P1 & P2)].
      * left. exists wins. repeat split; try assumption; intros; try assumption; lia.
      * right; right. exists p. repeat split; assumption.
  - change (2 =? 0) with false. change (2 =? 1) with false. cbv iota.
    left. destruct (full_window_ok lens max HN) as (HT & HW).
    eexists. split; [reflexivity|].
    split; [split; [exact HT | constructor; [exact HW|constructor]]|].
    split; intros; exfalso; lia.
Qed.

Lemma windows_wide kind max ctx lens b : Pos lens -> lens <> [] -> kclass kind = 1 ->
  2 * ctx < max -> In b lens -> max - ctx < b ->
  exists info, windows kind max ctx lens = Err 2 info.
Proof.
  intros HP HN K HV Hin Hb. rewrite windows_unfold by assumption. rewrite K.
  change (1 =? 0) with false. change (1 =? 1) with true. cbv iota.
  eapply byte_windows_wide; eassumption.
Qed.

(** empty text: a defined result *)
Lemma windows_empty kind max ctx :
  (exists wins, windows kind max ctx [] = Ok wins) \/ windows kind max ctx [] = Err 1 [].
Proof.
  unfold windows, char_windows, byte_windows. cbn [length char_loop byte_loop].
  change (c_len (cs_new [])) with 0. change (sumN [] =? 0) with true. change (0 <? 0) with false.
  destruct (kind =? 3); destruct (4 <=? kind); destruct (max <=? 2 * ctx); cbv iota;
    (right; reflexivity) || (left; eexists; reflexivity).
Qed.

(** * the executable statement *)
Lemma tileb_Tile fs fe wins : forall s e, tileb fs fe s e wins = true <-> Tile fs fe s e wins.
Proof.
  induction wins as [|w r IH]; intros s e; cbn [tileb Tile].
  - rewrite N.eqb_eq. tauto.
  - rewrite !andb_true_iff, IH, N.eqb_eq, N.ltb_lt. tauto.
Qed.

Lemma win_okb_ok lens kc max w : win_okb lens kc max w = true -> win_ok lens kc max w.
Proof.
  unfold win_okb, win_ok. rewrite !andb_true_iff.
  intros ((((((((((((((A1 & A2) & A3) & A4) & C1) & C2) & C3) & C4) & B1) & B2) & B3) & B4) & S1) & S2) & L).
  repeat split; try lia.
  - intros ->. change (0 =? 0) with true in L. cbv iota in L. lia.
  - intros ->. change (1 =? 0) with false in L. change (1 =? 1) with true in L. cbv iota in L. lia.
Qed.

Lemma win_ok_okb lens kc max w : Pos lens -> (kc = 0 \/ kc = 1 \/ kc = 2) ->
  win_ok lens kc max w -> win_okb lens kc max w = true.
Proof.
  intros HP HK ((A1 & A2 & A3 & A4) & (B1 & B2 & B3 & B4) & (S1 & S2) & L0 & L1).
  unfold win_okb. rewrite !andb_true_iff.
  pose proof (pre_mono lens _ _ A1). pose proof (pre_strict lens _ _ HP A2 ltac:(lia)).
  pose proof (pre_mono lens _ _ A3). pose proof (pre_le_sum lens (w_ce w)).
  repeat split; try lia.
  destruct HK as [ -> | [ -> | -> ] ].
  - change (0 =? 0) with true. cbv iota. specialize (L0 eq_refl). lia.
  - change (1 =? 0) with false. change (1 =? 1) with true. cbv iota. specialize (L1 eq_refl). lia.
  - reflexivity.
Qed.

Lemma wins_okb_sound_l lens kc max wins : wins_okb lens kc max wins = true ->
  Tile w_ws w_we 0 (lenN lens) wins /\ Tile w_bws w_bwe 0 (sumN lens) wins
  /\ Forall (win_ok lens kc max) wins.
Proof.
  unfold wins_okb. rewrite !andb_true_iff, !tileb_Tile, forallb_forall, Forall_forall.
  intros ((H1 & H2) & H3). split; [exact H1|]. split; [exact H2|].
  intros w Hw. apply win_okb_ok. apply H3. exact Hw.
Qed.

Lemma Good_okb lens kind max wins : Pos lens -> Good lens kind max wins ->
  wins_okb lens (kclass kind) max wins = true.
Proof.
  intros HP (HT & HF). unfold wins_okb. rewrite !andb_true_iff, !tileb_Tile. repeat split.
  - exact HT.
  - rewrite <- (pre_0 lens). eapply Tile_bytes; eassumption.
  - rewrite forallb_forall. rewrite Forall_forall in HF. intros w Hw.
    apply win_ok_okb; [exact HP | apply kclass_cases | apply HF; exact Hw].
Qed.

Lemma prop_okb_windows kind max ctx lens : Pos lens ->
  prop_okb kind max ctx lens (windows kind max ctx lens) = true.
Proof.
  intros HP. unfold prop_okb. destruct lens as [|x l].
  - change (sumN [] =? 0) with true. cbv iota.
    destruct (windows_empty kind max ctx) as [(wins & ->)| ->]; reflexivity.
  - assert (HN : x :: l <> []) by discriminate. set (lens := x :: l) in *.
    pose proof (Pos_sum lens HP HN) as HS. destruct (sumN lens =? 0) eqn:E0; [lia|].
    destruct (windows_outcome kind max ctx lens HP HN)
      as [(wins & Hr & HG & HV & HB)|[(Hr & K & HM)|(p & Hr & K & HV & P1 & P2)]]; rewrite Hr.
    + pose proof (Good_okb lens kind max wins HP HG) as HO.
      destruct (kclass_cases kind) as [K|[K|K]]; rewrite K in *.
      * change (0 =? 2) with false. change (0 =? 0) with true. cbv iota.
        destruct (max <=? 2 * ctx) eqn:E; [specialize (HV ltac:(lia)); lia|]. exact HO.
      * change (1 =? 2) with false. change (1 =? 0) with false. cbv iota.
        specialize (HV ltac:(lia)). specialize (HB eq_refl).
        destruct (max <=? 2 * ctx) eqn:E; [lia|].
        destruct (existsb (fun b => max - ctx <? b) lens) eqn:EX.
        { exfalso. apply existsb_exists in EX. destruct EX as (b & Hin & Hb).
          destruct (windows_wide kind max ctx lens b HP HN K HV Hin ltac:(lia)) as (info & Hr2).
          rewrite Hr in Hr2. discriminate. }
        cbn [is_ok_with]. destruct (forallb (fun b => b <=? max - 2 * ctx) lens); [exact HO|].
        rewrite HO. reflexivity.
      * change (2 =? 2) with true. cbv iota. exact HO.
    + destruct (kclass_cases kind) as [K'|[K'|K']]; rewrite K' in *; try lia.
      * change (0 =? 2) with false. change (0 =? 0) with true. cbv iota.
        destruct (max <=? 2 * ctx) eqn:E; [reflexivity|lia].
      * change (1 =? 2) with false. change (1 =? 0) with false. cbv iota.
        destruct (max <=? 2 * ctx) eqn:E; [reflexivity|lia].
    + rewrite K. change (1 =? 2) with false. change (1 =? 0) with false. cbv iota.
      destruct (max <=? 2 * ctx) eqn:E; [lia|].
      destruct (existsb (fun b => max - ctx <? b) lens); [reflexivity|].
      destruct (forallb (fun b => b <=? max - 2 * ctx) lens) eqn:EA.
      * exfalso. rewrite forallb_forall in EA. specialize (EA _ (cblen_In lens p P1)).
        destruct (0 <? p); cbn [b2n] in P2; lia.
      * reflexivity.
Qed.

(** * totality *)
Lemma windows_total_l kind max ctx lens : Pos lens ->
  (exists wins, windows kind max ctx lens = Ok wins)
  \/ (exists c info, windows kind max ctx lens = Err c info).
Proof.
  intros HP. destruct lens as [|x l].
  - destruct (windows_empty kind max ctx) as [(wins & H)|H]; [left; eauto|right; eauto].
  - destruct (windows_outcome kind max ctx (x :: l) HP ltac:(discriminate))
      as [(wins & Hr & _)|[(Hr & _)|(p & Hr & _)]]; [left; eauto|right; eauto|right; eauto].
Qed.

(** * val glue *)
Lemma v_n_v x : v_n (n_v x) = x.
Proof. unfold v_n, n_v, v_z. apply N2Z.id. Qed.

Lemma v_win_v w : v_win (win_v w) = Some w.
Proof.
  destruct w as [a b c d e f g h i j]. unfold win_v, n_v.
  cbn [v_win w_cs w_ws w_we w_ce w_bcs w_bws w_bwe w_bce w_soff w_slen]. rewrite !N2Z.id. reflexivity.
Qed.

Lemma v_wins_v ws : v_wins (map win_v ws) = Some ws.
Proof. induction ws as [|w r IH]; [reflexivity|]. cbn [map v_wins]. rewrite v_win_v, IH. reflexivity. Qed.

Lemma v_wres_v r : (forall s, r <> Panic s) -> v_wres (wres_v r) = r.
Proof.
  intros H. destruct r as [ws|c i|s|].
  - unfold wres_v, res_v, list_v. cbn [v_wres]. rewrite v_wins_v. reflexivity.
  - unfold wres_v, res_v, list_v, n_v. cbn [v_wres]. rewrite N2Z.id, map_map.
    f_equal. rewrite <- (map_id i) at 2. apply map_ext. intros a. apply v_n_v.
  - exfalso. apply (H s). reflexivity.
  - reflexivity.
Qed.

Lemma utf8_len_pos c : 0 < utf8_len c.
Proof. unfold utf8_len. destruct (c <? 128); [lia|]. destruct (c <? 2048); [lia|]. destruct (c <? 65536); lia. Qed.

Lemma utf8_len_utf8 c : utf8_len c = lenN (utf8 c).
Proof. unfold utf8_len, utf8. destruct (c <? 128); [reflexivity|]. destruct (c <? 2048); [reflexivity|]. destruct (c <? 65536); reflexivity. Qed.

Lemma wf_Pos v : wf_C16 v = true -> Pos (lens_of (v_clusters (v_nth 3 v))).
Proof.
  unfold wf_C16, lens_of, Pos. generalize (v_clusters (v_nth 3 v)). intros cl H.
  rewrite forallb_forall in H. rewrite Forall_forall. intros b Hb. apply in_map_iff in Hb.
  destruct Hb as (c & <- & Hc). specialize (H c Hc). destruct c as [|a c]; [discriminate|].
  unfold cl_blen. cbn [map]. rewrite sumN_cons. pose proof (utf8_len_pos a). lia.
Qed.

Lemma check_run_l v : wf_C16 v = true -> check_C16 v (run_C16 v) = true.
Proof.
  intros H. apply wf_Pos in H. unfold check_C16, run_C16.
  match goal with |- context [v_nth 0 (L (?a :: ?rest))] => change (v_nth 0 (L (a :: rest))) with a end.
  rewrite v_wres_v.
  - apply prop_okb_windows. exact H.
  - intros s Hs.
    destruct (windows_total_l (v_n (v_nth 0 v)) (v_big (v_nth 1 v)) (v_big (v_nth 2 v)) _ H)
      as [(wins & E)|(c & i & E)]; congruence.
Qed.

(** * the statements that get pinned *)
Lemma windows_Ok_Good kind max ctx lens wins : Pos lens -> lens <> [] ->
  windows kind max ctx lens = Ok wins ->
  Good lens kind max wins /\ (kclass kind <> 2 -> 2 * ctx < max).
Proof.
  intros HP HN Hr. destruct (windows_outcome kind max ctx lens HP HN)
    as [(w2 & R2 & HG & HV & _)|[(R2 & _)|(p & R2 & _)]]; rewrite Hr in R2; try discriminate.
  injection R2 as <-. split; assumption.
Qed.

Lemma byte_start_end_spec_l lens n :
  (n < lenN lens -> bse (cs_new lens) n = Ok (pre lens n, pre lens n + nth (N.to_nat n) lens 0))
  /\ (lenN lens <= n -> bse (cs_new lens) n = Panic 1).
Proof.
  rewrite bse_new. split; intros H.
  - destruct (n <? lenN lens) eqn:E; [|lia]. rewrite pre_succ. reflexivity.
  - destruct (n <? lenN lens) eqn:E; [lia|reflexivity].
Qed.

Lemma char_byte_len_spec_l lens n : n < lenN lens ->
  cbl (cs_new lens) n = Ok (nth (N.to_nat n) lens 0).
Proof. apply cbl_new. Qed.

Lemma windows_tile_l kind max ctx lens wins : Pos lens -> lens <> [] ->
  windows kind max ctx lens = Ok wins ->
  Tile w_ws w_we 0 (lenN lens) wins
  /\ Tile w_bws w_bwe 0 (sumN lens) wins
  /\ (forall text : list byte, lenN text = sumN lens ->
        concat (map (fun w => bslice text (w_bws w) (w_bwe w)) wins) = text).
Proof.
  intros HP HN Hr. destruct (windows_Ok_Good _ _ _ _ _ HP HN Hr) as ((HT & HF) & _).
  assert (HB : Tile w_bws w_bwe 0 (sumN lens) wins).
  { rewrite <- (pre_0 lens). eapply Tile_bytes; eassumption. }
  split; [exact HT|]. split; [exact HB|]. intros text Ht. rewrite <- Ht in HB.
  rewrite (Tile_concat text w_bws w_bwe wins 0 HB). reflexivity.
Qed.

Lemma ctx_contains_l kind max ctx lens wins : Pos lens -> lens <> [] ->
  windows kind max ctx lens = Ok wins ->
  Forall (fun w => w_cs w <= w_ws w /\ w_we w <= w_ce w /\ w_ce w <= lenN lens
                /\ w_bcs w <= w_bws w /\ w_bwe w <= w_bce w /\ w_bce w <= sumN lens) wins.
Proof.
  intros HP HN Hr. destruct (windows_Ok_Good _ _ _ _ _ HP HN Hr) as ((HT & HF) & _).
  eapply Forall_impl; [|exact HF]. intros w ((A1 & A2 & A3 & A4) & (B1 & B2 & B3 & B4) & _).
  pose proof (pre_mono lens _ _ A1). pose proof (pre_mono lens _ _ A3).
  pose proof (pre_le_sum lens (w_ce w)). repeat split; lia.
Qed.

Lemma ctx_bound_l kind max ctx lens wins : Pos lens -> lens <> [] ->
  windows kind max ctx lens = Ok wins ->
  (kclass kind = 0 -> Forall (fun w => w_ce w - w_cs w <= max) wins)
  /\ (kclass kind = 1 -> Forall (fun w => w_bce w - w_bcs w <= max) wins).
Proof.
  intros HP HN Hr. destruct (windows_Ok_Good _ _ _ _ _ HP HN Hr) as ((HT & HF) & _).
  split; intros K; (eapply Forall_impl; [|exact HF]); intros w (_ & _ & _ & L0 & L1); auto.
Qed.

Lemma ctx_str_l kind max ctx lens wins : Pos lens -> lens <> [] ->
  windows kind max ctx lens = Ok wins ->
  Forall (fun w => w_soff w = w_bcs w /\ w_soff w + w_slen w = w_bce w) wins.
Proof.
  intros HP HN Hr. destruct (windows_Ok_Good _ _ _ _ _ HP HN Hr) as ((HT & HF) & _).
  eapply Forall_impl; [|exact HF]. intros w ((A1 & A2 & A3 & A4) & (B1 & B2 & B3 & B4) & (S1 & S2) & _).
  pose proof (pre_mono lens (w_cs w) (w_ce w) ltac:(lia)). split; lia.
Qed.

Lemma byte_char_agree_l kind max ctx lens wins : Pos lens -> lens <> [] ->
  windows kind max ctx lens = Ok wins ->
  Forall (fun w => w_bcs w = pre lens (w_cs w) /\ w_bws w = pre lens (w_ws w)
                /\ w_bwe w = pre lens (w_we w) /\ w_bce w = pre lens (w_ce w)) wins.
Proof.
  intros HP HN Hr. destruct (windows_Ok_Good _ _ _ _ _ HP HN Hr) as ((HT & HF) & _).
  eapply Forall_impl; [|exact HF]. intros w (_ & B & _). exact B.
Qed.

Lemma bad_config_err_l kind max ctx lens : Pos lens -> lens <> [] ->
  kclass kind <> 2 -> max <= 2 * ctx -> windows kind max ctx lens = Err 1 [].
Proof.
  intros HP HN K HM. destruct (windows_outcome kind max ctx lens HP HN)
    as [(w2 & R2 & HG & HV & _)|[(R2 & _)|(p & R2 & _ & HV & _)]].
  - specialize (HV K). lia.
  - exact R2.
  - lia.
Qed.

Lemma windows_fit_ok_l kind max ctx lens : Pos lens -> lens <> [] ->
  (kclass kind <> 2 -> 2 * ctx < max) ->
  (kclass kind = 1 -> Forall (fun b => b <= max - 2 * ctx) lens) ->
  exists wins, windows kind max ctx lens = Ok wins.
Proof.
  intros HP HN HV HA. destruct (windows_outcome kind max ctx lens HP HN)
    as [(w2 & R2 & _)|[(R2 & K & HM)|(p & R2 & K & _ & P1 & P2)]].
  - eauto.
  - specialize (HV K). lia.
  - exfalso. specialize (HA K). rewrite Forall_forall in HA. specialize (HA _ (cblen_In lens p P1)).
    cbn beta in HA. destruct (0 <? p); cbn [b2n] in P2; lia.
Qed.

Lemma wide_err_sound_l kind max ctx lens c info : Pos lens -> lens <> [] ->
  windows kind max ctx lens = Err c info -> c <> 1 ->
  kclass kind = 1 /\ 2 * ctx < max /\ c = 2 /\
  exists p, p < lenN lens
    /\ info = [p; nth (N.to_nat p) lens 0; max - (1 + b2n (0 <? p)) * ctx]
    /\ max - (1 + b2n (0 <? p)) * ctx < nth (N.to_nat p) lens 0.
Proof.
  intros HP HN Hr Hc. destruct (windows_outcome kind max ctx lens HP HN)
    as [(w2 & R2 & _)|[(R2 & _)|(p & R2 & K & HV & P1 & P2)]]; rewrite Hr in R2; try discriminate.
  - injection R2 as -> ->. congruence.
  - injection R2 as -> ->. repeat split; try assumption. exists p. repeat split; assumption.
Qed.

Lemma bad_config_err_direct_l lens max ctx : max <= 2 * ctx ->
  char_windows lens max ctx = Err 1 [] /\ byte_windows lens max ctx = Err 1 [].
Proof. intros H. split; [exact (char_windows_err lens max ctx H) | exact (byte_windows_err lens max ctx H)]. Qed.

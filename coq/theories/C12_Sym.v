(** C12 — the edit distance is symmetric (a metric law the DP does not make obvious: the code fills the
    matrix row by row over [a]). Proofs only; the statements are pinned in [C12_Props.v]. *)
From TU Require Import Base C12_Model C12_Spec C12_Proofs.
Open Scope nat_scope.

Lemma sub_ok_sym fl x y : sub_ok fl x y = sub_ok fl y x.
Proof. unfold sub_ok. rewrite (andb_comm (negb (cl_ws x))). reflexivity. Qed.

Lemma Align_sym_l fl a b n : Align fl a b n -> Align fl b a n.
Proof.
  induction 1 as [|x a b n H IH|y a b n H IH|x a b n H IH|x y a b n Hs H IH|x y a b n Hw Hs H IH].
  - constructor.
  - apply A_keep; exact IH.
  - apply A_del; exact IH.
  - apply A_ins; exact IH.
  - apply A_rep; [rewrite sub_ok_sym; exact Hs|exact IH].
  - apply A_swap; [exact Hw|rewrite swap_ws_ok_sym; exact Hs|exact IH].
Qed.

Lemma dist_sym_l fl a b : dist fl a b = dist fl b a.
Proof.
  apply Nat.le_antisymm.
  - apply dist_minimal_l, Align_sym_l, dist_achieved_l.
  - apply dist_minimal_l, Align_sym_l, dist_achieved_l.
Qed.

(** C03 with the merge file in the correspondence: the executable statement is the old one on the output without
    the two file fields, and holds of the model's own output. *)
From TU Require Import Base BPE_Model C03_Model C02_Proofs C03_Proofs MsgPack_Model C03_File.
Open Scope N_scope.

Theorem check_run_C03f_l v : Forall valid_cp (v_str (v_nth 1 v)) -> check_C03f v (run_C03 v) = true.
Proof.
  intros H. unfold check_C03f. assert (Hr : strip_file3 (run_C03 v) = run_C03 v).
  { unfold run_C03. destruct (bpe_body _ _); reflexivity. }
  rewrite Hr. apply check_run_C03_l. exact H.
Qed.

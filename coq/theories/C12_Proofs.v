(** C12 proofs, part 5: the executable statement [check_C12] holds of the model's own output. *)
From TU Require Import Base C12_Model C12_Spec C12_Matrix C12_Trace C12_Norm.
From Coq Require Import Lia QArith.
Open Scope nat_scope.

Lemma q_close_refl ex p q : q_close ex (p, Zpos q) p q = true.
Proof.
  unfold q_close. cbn [Z.ltb Z.compare andb]. destruct ex.
  - apply Z.eqb_refl.
  - rewrite Z.sub_diag. cbn [Z.abs Z.mul]. apply Z.leb_le. apply Z.abs_nonneg.
Qed.
Local Opaque q_close.
Lemma v_zq_q_v q : v_zq (q_v q) = (Qnum q, Zpos (Qden q)).
Proof. reflexivity. Qed.

Lemma v_eop_eop_v o : v_eop (eop_v o) = o.
Proof. destruct o; reflexivity. Qed.
Lemma v_edit_edit_v e : v_edit (edit_v e) = e.
Proof.
  destruct e as [[o i] j]. unfold v_edit, edit_v. cbn [v_nth nth]. rewrite v_eop_eop_v.
  unfold v_nat, nat_v, v_z. rewrite !Nat2Z.id. reflexivity.
Qed.
Lemma edit_shape_edit_v e : edit_shape (edit_v e) = true.
Proof.
  destruct e as [[o i] j]. unfold edit_shape, edit_v, nat_v, eop_v.
  rewrite !andb_true_iff, !Z.leb_le. destruct o; lia.
Qed.

Lemma all2_map_refl {A B} (f : B -> A -> bool) (g : A -> B) (l : list A) :
  (forall p, f (g p) p = true) -> all2 f (map g l) l = true.
Proof. intros H. induction l as [|p l IH]; cbn [map all2]; [reflexivity|]. rewrite H, IH. reflexivity. Qed.

(** premise of [check_run]: the input is outside the KF2 class, i.e. when both
    [normalized] and [spaces_insert_delete_only] are set the distance does not
    exceed the longer length.  (For [sid = false] this is a theorem.) *)
Definition no_kf2 (v : val) : Prop :=
  in_norm v = true -> sid (in_flags v) = true ->
  dist (in_flags v) (in_a v) (in_b v) <= Nat.max (length (in_a v)) (length (in_b v)).

Lemma check_run_l v : no_kf2 v -> check_C12 v (run_C12 v) = true.
Proof.
  intros HP. unfold no_kf2 in HP. unfold check_C12, run_C12.
  set (fl := in_flags v) in *. set (nm := in_norm v) in *.
  set (a := in_a v) in *. set (b := in_b v) in *.
  destruct (operations_spec fl a b) as (ops & Hops & Hsort & Hscr & Hlen). rewrite Hops.
  cbn [v_nth nth].
  assert (Hl : (match list_v edit_v ops with L l => l | I _ => [] end) = map edit_v ops) by reflexivity.
  assert (Hv : v_list v_edit (list_v edit_v ops) = ops).
  { unfold v_list, list_v. rewrite map_map. rewrite <- (map_id ops) at 2.
    apply map_ext. apply v_edit_edit_v. }
  rewrite Hl, Hv, !v_zq_q_v. unfold distance, prefix_distance. cbn [Qnum Qden fst snd].
  repeat (apply andb_true_iff; split).
  - unfold shape_ok, q_v, list_v. cbn [Qnum Qden]. unfold distances.
    destruct (Nat.eqb (length (in_la v)) (length (in_lb v))); reflexivity.
  - apply q_close_refl.
  - destruct nm eqn:Enm; [|reflexivity].
    apply andb_true_iff. split; apply Z.leb_le; [lia|].
    rewrite norm_den_Z.
    destruct (sid fl) eqn:Es.
    + specialize (HP eq_refl eq_refl). lia.
    + pose proof (dist_le_max fl a b Es). lia.
  - rewrite <- prefix_dist_spec_l. apply q_close_refl.
  - rewrite forallb_forall. intros e He. apply in_map_iff in He as (e' & <- & _). apply edit_shape_edit_v.
  - exact Hsort.
  - exact Hscr.
  - apply Nat.eqb_eq. exact Hlen.
  - unfold distances. destruct (Nat.eqb (length (in_la v)) (length (in_lb v))); [|reflexivity].
    cbn [opt_v v_opt]. unfold v_list, list_v. rewrite !map_map.
    apply all2_map_refl. intros p. rewrite v_zq_q_v. unfold distance. cbn [Qnum Qden]. apply q_close_refl.
Qed.

(** the model agrees with itself *)
Lemma agree_refl_l v : agree_C12 v (run_C12 v) (run_C12 v) = true.
Proof.
  unfold agree_C12, run_C12.
  set (fl := in_flags v). set (nm := in_norm v). set (a := in_a v). set (b := in_b v).
  cbn [v_nth nth].
  assert (Hq : forall ex q, q_close_v ex (q_v q) (q_v q) = true).
  { intros ex q. unfold q_close_v. rewrite v_zq_q_v. unfold q_v. cbn [v_nth nth v_z Z.to_pos]. apply q_close_refl. }
  rewrite !Hq. cbn [andb].
  apply andb_true_iff. split.
  - apply andb_true_iff. split.
    + unfold shape_ok, q_v, list_v. unfold distances.
      destruct (operations fl a b); destruct (Nat.eqb (length (in_la v)) (length (in_lb v))); reflexivity.
    + assert (Hr : forall x, val_eqb x x = true).
      { fix IH 1. intros [z|l]; cbn [val_eqb]; [apply Z.eqb_refl|].
        induction l as [|y l IHl]; [reflexivity|]. rewrite IH, IHl. reflexivity. }
      apply Hr.
  - unfold distances. destruct (Nat.eqb (length (in_la v)) (length (in_lb v))); [|reflexivity].
    cbn [opt_v]. unfold list_v.
    induction (map (fun p => distance fl nm (fst p) (snd p)) (zip (in_la v) (in_lb v))) as [|q l IH];
      cbn [map all2]; [reflexivity|]. rewrite Hq, IH. reflexivity.
Qed.

(** soundness of the script clauses of [check_C12]: an output that passes the
    check carries a script that is an alignment of cost [dist], hence minimal *)
Lemma check_sound_script v out : check_C12 v out = true ->
  let ops := v_list v_edit (v_nth 2 out) in
  sortedb ops = true /\ Align (in_flags v) (in_a v) (in_b v) (length ops)
  /\ length ops = dist (in_flags v) (in_a v) (in_b v).
Proof.
  unfold check_C12. intros H. repeat (apply andb_true_iff in H as [H ?]).
  cbv zeta. split; [assumption|]. split.
  - eapply script_align. eassumption.
  - apply Nat.eqb_eq. assumption.
Qed.

(** * statements as pinned in C12_Props.v *)
Lemma dist_achieved_l fl a b : Align fl a b (dist fl a b).
Proof. rewrite dist_Dref. apply Dref_achieved. Qed.
Lemma dist_minimal_l fl a b n : Align fl a b n -> dist fl a b <= n.
Proof. intros H. rewrite dist_Dref. apply Dref_minimal. exact H. Qed.
Lemma ops_total_l fl a b : exists ops, operations fl a b = Some ops.
Proof. destruct (operations_spec fl a b) as (ops & H & _). exists ops. exact H. Qed.
Lemma ops_sorted_l fl a b ops : operations fl a b = Some ops -> sortedb ops = true.
Proof.
  intros H. destruct (operations_spec fl a b) as (ops' & H' & Hs & _).
  rewrite H in H'. injection H' as ->. exact Hs.
Qed.
Lemma ops_apply_l fl a b ops : operations fl a b = Some ops -> script_ok fl ops a b = true.
Proof.
  intros H. destruct (operations_spec fl a b) as (ops' & H' & _ & Hs & _).
  rewrite H in H'. injection H' as ->. exact Hs.
Qed.
Lemma ops_length_l fl a b ops : operations fl a b = Some ops -> length ops = dist fl a b.
Proof.
  intros H. destruct (operations_spec fl a b) as (ops' & H' & _ & _ & Hs).
  rewrite H in H'. injection H' as ->. exact Hs.
Qed.
Lemma script_is_alignment_l fl ops a b : script_ok fl ops a b = true -> Align fl a b (length ops).
Proof. intros H. eapply script_align. exact H. Qed.
Lemma script_ok_sorted_l fl ops a b : script_ok fl ops a b = true -> sortedb ops = true.
Proof. intros H. apply (script_sorted fl _ _ _ _ _ H). Qed.
Lemma norm_le_1_ll fl a b : sid fl = false ->
  (0 <= distance fl true a b)%Q /\ (distance fl true a b <= 1)%Q.
Proof. intros H. split; [apply norm_nonneg|apply norm_le_1_l; exact H]. Qed.
Lemma norm_le_2_ll fl a b : (0 <= distance fl true a b)%Q /\ (distance fl true a b <= 2)%Q.
Proof. split; [apply norm_nonneg|apply norm_le_2_l]. Qed.
Lemma kf2_witness : exists a b, (1 < distance (Flags false true) true a b)%Q.
Proof. exists [[32%N]], [[120%N]]. vm_compute. reflexivity. Qed.

(** [distances]: the error exactly on a length mismatch, else the pointwise distances *)
Lemma distances_err_l fl nm la lb : length la <> length lb -> distances fl nm la lb = None.
Proof. intros H. unfold distances. apply Nat.eqb_neq in H. rewrite H. reflexivity. Qed.

Lemma zip_length {A B} : forall (l : list A) (r : list B), length l = length r -> length (zip l r) = length l.
Proof.
  induction l as [|x l IH]; intros [|y r] H; cbn [zip length] in *; try discriminate; [reflexivity|].
  f_equal. apply IH. lia.
Qed.
Lemma zip_nth {A B} (da : A) (db : B) : forall (l : list A) (r : list B) k,
  length l = length r -> k < length l -> nth k (zip l r) (da, db) = (nth k l da, nth k r db).
Proof.
  induction l as [|x l IH]; intros [|y r] k H Hk; cbn [zip length] in *; try discriminate; [lia|].
  destruct k as [|k]; [reflexivity|]. cbn [nth]. apply IH; lia.
Qed.

Lemma distances_ok_l fl nm la lb : length la = length lb ->
  exists l, distances fl nm la lb = Some l /\ length l = length la
    /\ forall k, k < length la -> nth k l 0%Q = distance fl nm (nth k la []) (nth k lb []).
Proof.
  intros H. unfold distances. rewrite (proj2 (Nat.eqb_eq _ _) H).
  eexists. split; [reflexivity|]. split.
  - rewrite map_length. apply zip_length. exact H.
  - intros k Hk.
    rewrite nth_indep with (d' := (fun p => distance fl nm (fst p) (snd p)) ([], []))
      by (rewrite map_length, zip_length; assumption).
    pose proof (map_nth (fun p => distance fl nm (fst p) (snd p)) (zip la lb) ([], []) k) as E.
    cbv beta in E. rewrite E. rewrite zip_nth by assumption. reflexivity.
Qed.

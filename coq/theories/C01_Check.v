(** C01: the executable property statement holds of the model's own output. *)
From TU Require Import Base C01_Model C01_Proofs.
From Coq Require Import Lia ZifyBool ZifyN ZifyNat.
Open Scope N_scope.

Lemma v_list_n_rt l : v_list v_n (list_v n_v l) = l.
Proof.
  unfold v_list, list_v. rewrite map_map. induction l as [|x l IH]; cbn [map]; [reflexivity|].
  rewrite IH. f_equal. unfold v_n, n_v, v_z. apply N2Z.id.
Qed.

Lemma opt_str_is_some s : opt_str_is (opt_v str_v (Some s)) s = true.
Proof. unfold opt_str_is, opt_v, str_v, v_str. rewrite v_list_n_rt. apply nlist_eqb_eq. reflexivity. Qed.

Lemma nl_eqb_refl l : nl_eqb l l = true.
Proof. apply nlist_eqb_eq. reflexivity. Qed.

Lemma forallb_Forall {A} (f : A -> bool) l : forallb f l = true <-> Forall (fun x => f x = true) l.
Proof. rewrite forallb_forall, Forall_forall. tauto. Qed.

Lemma nonemptyb_spec l : forallb nonemptyb l = true -> Forall (fun t : str => t <> []) l.
Proof.
  rewrite forallb_Forall. apply Forall_impl. intros [|a t]; cbn; congruence.
Qed.

Theorem check_run_l : forall v, check_C01 v (run_C01 v) = true.
Proof.
  intros v. unfold check_C01, run_C01.
  set (c := v_cfg v). set (s := v_str (v_nth 10 v)). set (ign := v_bool (v_nth 11 v)).
  set (os := v_list (v_list v_str) (v_nth 12 v)).
  destruct (cfg_base c) as [b|] eqn:Hb; [|reflexivity].
  destruct (domainb c b s) eqn:Hdom; [|reflexivity]. cbn [negb].
  destruct (oracle_needed c && negb (oracle_okb (split_input (b_sv b) s ign) os)) eqn:Hor; [reflexivity|].
  unfold domainb in Hdom. apply andb_true_iff in Hdom as [Hdom Hs]. apply andb_true_iff in Hdom as [Hne Hsc].
  apply nonemptyb_spec in Hne. apply forallb_Forall in Hsc.
  unfold cfg_base in Hb. unfold tokenize, decode. destruct (c_char c) eqn:Hk.
  - (* character tokenizer *)
    pose proof Hb as Hb0. apply char_base_spec in Hb0 as (Hoff & Hp & Hq & u & Hu & _).
    set (body := char_segs_ids b (c_alpha c) u (c_g c) (split_input (b_sv b) s ign) os).
    assert (Hcb : char_body b (c_alpha c) (c_unk c) (c_g c) s ign os = Some body)
      by (unfold char_body; rewrite Hu; reflexivity).
    assert (Htok : char_tokenize b (c_alpha c) (c_unk c) (c_g c) s ign os = Some (b_pre b ++ body ++ b_suf b))
      by (unfold char_tokenize; rewrite Hcb; reflexivity).
    rewrite Htok. cbn [opt_v obind]. rewrite v_list_n_rt, middle_app, nl_eqb_refl, Hcb, nl_eqb_refl.
    cbn [andb].
    replace (if ign || prefix_freeb (b_sv b) then true else true) with true by (destruct (ign || prefix_freeb (b_sv b)); reflexivity).
    cbn [andb].
    destruct ((ign || prefix_freeb (b_sv b)) && over_alphabet (c_alpha c) (c_g c) (split_input (b_sv b) s ign) os) eqn:Hex; [|reflexivity].
    apply andb_true_iff in Hex as [_ Hov].
    assert (Hok : clusters_ok (c_g c) (split_input (b_sv b) s ign) os).
    { destruct (c_g c) eqn:Hg; [|apply clusters_ok_cp]. apply clusters_ok_oracle.
      unfold oracle_needed in Hor. rewrite Hk, Hg in Hor. cbn in Hor. apply negb_false_iff in Hor. exact Hor. }
    destruct (char_roundtrip_l _ _ _ _ _ _ _ _ s ign os Hb (fun _ => Hne) Hok Hov) as (ids & Htok' & Hd1 & Hd2).
    rewrite Htok in Htok'. injection Htok' as <-.
    rewrite middle_app in Hd2. rewrite Hd1, Hd2.
    rewrite !opt_str_is_some. reflexivity.
  - (* byte tokenizer *)
    destruct (byte_tokenize_shape_l _ _ _ _ _ _ s ign Hb) as (Hp & Hq & Hoff & _).
    assert (Hoff' : 256 <= b_off b) by lia.
    destruct (byte_roundtrip_l _ _ _ _ _ _ s ign Hb Hne Hsc Hs) as (ids & Htok & Hd1 & Hd2).
    destruct (byte_body_some b s ign) as [body Hbd].
    pose proof (byte_body_decodes b s ign body Hoff' Hne Hs Hbd) as Hbody.
    unfold byte_tokenize in Htok |- *. rewrite Hbd in Htok |- *. cbn [option_map] in Htok |- *. injection Htok as <-.
    cbn [opt_v obind]. rewrite v_list_n_rt. unfold add_pre_suf in *. rewrite middle_app in Hd2 |- *.
    rewrite nl_eqb_refl, Hd1, Hd2, !opt_str_is_some. cbn [andb]. rewrite !andb_true_r.
    destruct ign.
    + rewrite byte_body_ign in Hbd. injection Hbd as <-. rewrite nl_eqb_refl. cbn [andb].
      apply forallb_Forall. eapply Forall_impl; [|apply utf8s_lt256; exact Hs]. cbn. intros a Ha. lia.
    + rewrite Hbody, !nl_eqb_refl. cbn [orb andb]. destruct (prefix_freeb (b_sv b)); reflexivity.
Qed.

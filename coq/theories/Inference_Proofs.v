(** Inference loader: lemmas about Inference_Model.v.  The pinned statements are in Inference_Props.v. *)
From Coq Require Import Lia Permutation.
From TU Require Import Base C16_Model C16_Proofs C16_Top C16_UAX29 C01_Model Inference_Model.
From TU Require C06_Model C06_Top.
Local Open Scope nat_scope.

Section Inf.
Variables (kind max ctx : N) (g : bool) (tok : str -> option (list N)).
Notation inference_items := (inference_items kind max ctx g tok).
Notation stream := (stream kind max ctx g tok).
Notation tok_windows := (tok_windows tok).

(** * one text *)
Lemma tok_windows_spec cl idx : forall ws k its, tok_windows cl idx k ws = IOk its ->
  map i_win its = ws /\ map i_idx its = repeat idx (length ws) /\ map i_widx its = seq k (length ws)
  /\ Forall (fun x => tok (win_text cl (i_win x)) = Some (i_ids x)) its.
Proof.
  induction ws as [|w ws IH]; intros k its H; cbn [tok_windows] in H.
  - injection H as <-. repeat split; constructor.
  - destruct (tok (win_text cl w)) as [ids|] eqn:Et; [|discriminate].
    destruct (tok_windows cl idx (S k) ws) as [l|e] eqn:Er; [|discriminate].
    injection H as <-. destruct (IH _ _ Er) as (H1 & H2 & H3 & H4).
    cbn [map i_win i_idx i_widx length repeat seq]. rewrite H1, H2, H3. repeat split.
    constructor; [exact Et|exact H4].
Qed.

(** the items of a text: one per window of C16's [windows], in order, tagged (idx, 0), (idx, 1), ...,
    each carrying the token ids of its context *)
Lemma items_spec idx s its : inference_items idx s = IOk its ->
  exists ws, windows kind max ctx (lens_g g s) = Ok ws
    /\ map i_win its = ws /\ map i_idx its = repeat idx (length ws) /\ map i_widx its = seq 0 (length ws)
    /\ Forall (fun x => tok (win_text (seg_of g s) (i_win x)) = Some (i_ids x)) its.
Proof.
  unfold Inference_Model.inference_items, lens_g. intros H.
  destruct (windows kind max ctx (lens_of (seg_of g s))) as [ws|c i|p|] eqn:E; try discriminate.
  exists ws. split; [reflexivity|]. exact (tok_windows_spec _ _ _ _ _ H).
Qed.

Lemma items_length idx s its ws : inference_items idx s = IOk its ->
  windows kind max ctx (lens_g g s) = Ok ws -> length its = length ws.
Proof.
  intros H E. destruct (items_spec _ _ _ H) as (ws' & E' & H1 & _). rewrite E in E'. injection E' as <-.
  rewrite <- H1, map_length. reflexivity.
Qed.

(** the C16 model never reaches a panic site: the result is Ok or one of the two errors *)
Lemma tok_windows_no_bug cl idx i : forall ws k, tok_windows cl idx k ws <> IErr (EBug i).
Proof.
  induction ws as [|w ws IH]; intros k; cbn [Inference_Model.tok_windows]; [discriminate|].
  destruct (tok _); [|discriminate]. specialize (IH (S k)).
  destruct (Inference_Model.tok_windows tok cl idx (S k) ws); [discriminate|exact IH].
Qed.

Lemma items_no_bug idx s i : inference_items idx s <> IErr (EBug i).
Proof.
  unfold Inference_Model.inference_items.
  destruct (windows_total_g g kind max ctx s) as [[ws E]|[c [info E]]]; unfold lens_g in E; rewrite E.
  - apply tok_windows_no_bug.
  - discriminate.
Qed.

(** * the stream *)
(** the texts whose windows are delivered: the longest prefix of texts that are Ok and whose
    pipeline result is Ok; with position and items *)
Fixpoint delivered (idx : nat) (texts : list (option str)) : list (nat * str * list iitem) :=
  match texts with
  | Some s :: r =>
      match inference_items idx s with
      | IOk its => (idx, s, its) :: delivered (S idx) r
      | IErr _ => []
      end
  | _ => []
  end.
Definition d_items (t : nat * str * list iitem) : list iitem := snd t.

Lemma stream_items idx texts : fst (stream idx texts) = flat_map d_items (delivered idx texts).
Proof.
  revert idx. induction texts as [|[s|] r IH]; intros idx; cbn [Inference_Model.stream delivered]; try reflexivity.
  destruct (inference_items idx s) as [its|e]; [|reflexivity].
  specialize (IH (S idx)). destruct (stream (S idx) r) as [rest e']. cbn [fst flat_map d_items snd] in *.
  rewrite IH. reflexivity.
Qed.

Lemma delivered_spec texts : forall idx j t, nth_error (delivered idx texts) j = Some t ->
  fst (fst t) = idx + j /\ nth_error texts j = Some (Some (snd (fst t)))
  /\ inference_items (idx + j) (snd (fst t)) = IOk (snd t).
Proof.
  induction texts as [|[s|] r IH]; intros idx j t H; cbn [delivered] in H; try (destruct j; discriminate).
  destruct (inference_items idx s) as [its|e] eqn:E; [|destruct j; discriminate].
  destruct j as [|j]; cbn [nth_error] in *.
  - injection H as <-. cbn [fst snd]. rewrite Nat.add_0_r. auto.
  - destruct (IH _ _ _ H) as (H1 & H2 & H3). replace (idx + S j) with (S idx + j) by lia. auto.
Qed.

Lemma delivered_length idx texts : length (delivered idx texts) <= length texts.
Proof.
  revert idx. induction texts as [|[s|] r IH]; intros idx; cbn [delivered length]; try lia.
  destruct (inference_items idx s); cbn [length]; [specialize (IH (S idx))|]; lia.
Qed.

(** how the iteration ends: regularly iff every text was delivered; otherwise with the error of the
    first text that is not *)
Lemma stream_end idx texts :
  snd (stream idx texts) =
  match nth_error texts (length (delivered idx texts)) with
  | None => None
  | Some None => Some (EText (idx + length (delivered idx texts)))
  | Some (Some s) =>
      match inference_items (idx + length (delivered idx texts)) s with IErr e => Some e | IOk _ => None end
  end.
Proof.
  revert idx. induction texts as [|[s|] r IH]; intros idx; cbn [Inference_Model.stream delivered]; try reflexivity.
  - destruct (inference_items idx s) as [its|e] eqn:E.
    + specialize (IH (S idx)). destruct (stream (S idx) r) as [rest e']. cbn [snd length nth_error] in *.
      rewrite IH. replace (idx + S (length (delivered (S idx) r))) with (S idx + length (delivered (S idx) r)) by lia.
      reflexivity.
    + cbn [snd length nth_error]. rewrite Nat.add_0_r, E. reflexivity.
  - cbn [snd length nth_error]. rewrite Nat.add_0_r. reflexivity.
Qed.

Lemma stream_end_regular idx texts :
  snd (stream idx texts) = None <-> length (delivered idx texts) = length texts.
Proof.
  rewrite stream_end. pose proof (delivered_length idx texts) as Hl. split.
  - intros H. destruct (nth_error texts (length (delivered idx texts))) as [[s|]|] eqn:E.
    + exfalso. revert H.
      assert (Hd : forall t, nth_error (delivered idx texts) (length (delivered idx texts)) = Some t -> False).
      { intros t Ht. assert (nth_error (delivered idx texts) (length (delivered idx texts)) <> None) as Hn by congruence.
        apply nth_error_Some in Hn. lia. }
      clear Hl. revert idx E Hd. induction texts as [|[s'|] r IH]; intros idx E Hd; cbn [delivered] in *.
      * discriminate.
      * destruct (inference_items idx s') as [its|e] eqn:Ei.
        -- cbn [length nth_error] in E. specialize (IH (S idx) E).
           replace (idx + length ((idx, s', its) :: delivered (S idx) r))
             with (S idx + length (delivered (S idx) r)) by (cbn [length]; lia).
           apply IH. intros t Ht.
           assert (nth_error (delivered (S idx) r) (length (delivered (S idx) r)) <> None) as Hn by congruence.
           apply nth_error_Some in Hn. lia.
        -- cbn [length nth_error] in E. injection E as <-. rewrite Nat.add_0_r, Ei. discriminate.
      * cbn [length nth_error] in E. discriminate.
    + discriminate.
    + apply nth_error_None in E. lia.
  - intros H. rewrite H. rewrite (proj2 (nth_error_None texts (length texts))) by lia. reflexivity.
Qed.

(** ** the literal composition of the stages *)
Definition enum_from {A} (idx : nat) (l : list A) : list (nat * A) := combine (seq idx (length l)) l.

Lemma stream_is_composition_gen texts : forall idx,
  stream idx texts =
  (let '(ok, e1) := scan1 idx texts in
   let '(its, e2) := scan2 (map (pipeline kind max ctx g tok) (enum_from idx ok)) in
   (concat its, match e2 with Some e => Some e | None => e1 end)).
Proof.
  induction texts as [|[s|] r IH]; intros idx; cbn [Inference_Model.stream scan1]; try reflexivity.
  rewrite (IH (S idx)). destruct (scan1 (S idx) r) as [ok e1].
  unfold enum_from. cbn [length seq combine map scan2].
  change (pipeline kind max ctx g tok (idx, s)) with (inference_items idx s).
  destruct (inference_items idx s) as [its|e]; [|reflexivity].
  destruct (scan2 (map (pipeline kind max ctx g tok) (combine (seq (S idx) (length ok)) ok))) as [l e2].
  reflexivity.
Qed.

Lemma stream_is_composition_l texts : stream 0 texts = composition kind max ctx g tok texts.
Proof. rewrite stream_is_composition_gen. reflexivity. Qed.

(** ** tags *)
Lemma stream_idx_ge texts : forall idx, Forall (fun x => idx <= i_idx x) (fst (stream idx texts)).
Proof.
  induction texts as [|[s|] r IH]; intros idx; cbn [Inference_Model.stream]; try constructor.
  destruct (inference_items idx s) as [its|e] eqn:E; [|constructor].
  specialize (IH (S idx)). destruct (stream (S idx) r) as [rest e']. cbn [fst] in *.
  apply Forall_app. split.
  - destruct (items_spec _ _ _ E) as (ws & _ & _ & Hi & _).
    apply Forall_forall. intros x Hx.
    assert (In (i_idx x) (map i_idx its)) as Hin by (apply in_map; exact Hx).
    rewrite Hi in Hin. apply repeat_spec in Hin. lia.
  - eapply Forall_impl; [|exact IH]. cbn. intros; lia.
Qed.

Lemma nodup_app_disj {X} (a b : list X) : NoDup a -> NoDup b -> (forall x, In x a -> ~ In x b) -> NoDup (a ++ b).
Proof.
  induction a as [|x a IH]; intros Ha Hb Hd; [exact Hb|].
  inversion Ha as [|? ? Hx Ha']; subst. cbn [app]. constructor.
  - rewrite in_app_iff. intros [H|H]; [exact (Hx H)|]. exact (Hd x (or_introl eq_refl) H).
  - apply IH; [exact Ha'|exact Hb|]. intros y Hy. apply Hd. right. exact Hy.
Qed.

Lemma NoDup_map_pair {A B} (a : A) (l : list B) : NoDup l -> NoDup (map (pair a) l).
Proof.
  induction 1 as [|x l Hx Hn IH]; cbn [map]; constructor; [|exact IH].
  intros Hin. apply in_map_iff in Hin. destruct Hin as (y & Hy & Hin). injection Hy as ->. exact (Hx Hin).
Qed.

Lemma items_tags idx s its : inference_items idx s = IOk its ->
  map tag its = map (pair idx) (seq 0 (length its)).
Proof.
  intros E. destruct (items_spec _ _ _ E) as (ws & _ & Hw & Hi & Hk & _).
  assert (Hl : length its = length ws) by (rewrite <- Hw, map_length; reflexivity).
  rewrite Hl. clear E Hw. revert Hi Hk. generalize 0 as k. generalize (length ws) as n. clear Hl.
  induction its as [|x its IH]; intros n k Hi Hk; destruct n; cbn [map repeat seq] in *; try discriminate; [reflexivity|].
  injection Hi as Hi1 Hi2. injection Hk as Hk1 Hk2. unfold tag at 1. rewrite Hi1, Hk1. f_equal. exact (IH _ _ Hi2 Hk2).
Qed.

(** every (item_idx, window_idx) pair occurs at most once in the stream *)
Lemma stream_tags_nodup texts : forall idx, NoDup (map tag (fst (stream idx texts))).
Proof.
  induction texts as [|[s|] r IH]; intros idx; cbn [Inference_Model.stream]; try constructor.
  destruct (inference_items idx s) as [its|e] eqn:E; [|constructor].
  pose proof (stream_idx_ge r (S idx)) as Hge. specialize (IH (S idx)).
  destruct (stream (S idx) r) as [rest e']. cbn [fst] in *.
  rewrite map_app. apply nodup_app_disj.
  - rewrite (items_tags _ _ _ E). apply NoDup_map_pair, seq_NoDup.
  - exact IH.
  - intros t Ht Hr. rewrite (items_tags _ _ _ E) in Ht. apply in_map_iff in Ht. destruct Ht as (k & <- & _).
    apply in_map_iff in Hr. destruct Hr as (x & Hx & Hin). rewrite Forall_forall in Hge. specialize (Hge _ Hin).
    unfold tag in Hx. injection Hx as Hx _. lia.
Qed.

End Inf.

(** * per text: C16 transported; reassembly from the tags *)
Section Inf2.
Variables (kind max ctx : N) (g : bool) (tok : str -> option (list N)).
Notation inference_items := (inference_items kind max ctx g tok).
Notation stream := (stream kind max ctx g tok).
Notation delivered := (delivered kind max ctx g tok).

Lemma cslice_bslice {A} (l : list A) a b : cslice l a b = bslice l a b.
Proof. reflexivity. Qed.

(** within a delivered non-empty text the windows tile it (clusters, bytes, the text itself) and every
    item carries the token ids of its window's context *)
Lemma text_tiles idx s its : s <> [] -> inference_items idx s = IOk its ->
  Tile w_ws w_we 0 (lenN (seg_of g s)) (map i_win its)
  /\ Tile w_bws w_bwe 0 (lenN (utf8s s)) (map i_win its)
  /\ concat (map (fun x => cslice (utf8s s) (w_bws (i_win x)) (w_bwe (i_win x))) its) = utf8s s
  /\ concat (map (fun x => concat (cslice (seg_of g s) (w_ws (i_win x)) (w_we (i_win x)))) its) = s
  /\ Forall (fun x => tok (win_text (seg_of g s) (i_win x)) = Some (i_ids x)) its.
Proof.
  intros Hs E. destruct (items_spec _ _ _ _ _ _ _ _ E) as (ws & Ew & Hw & _ & _ & Ht).
  destruct (windows_tile_g g kind max ctx s ws Hs Ew) as (T1 & T2 & T3 & T4).
  rewrite <- Hw in T3, T4. rewrite map_map in T3, T4.
  rewrite Hw. repeat split; assumption.
Qed.

Lemma cslice_nil {A} a b : @cslice A [] a b = [].
Proof. unfold cslice. rewrite skipn_nil, firstn_nil. reflexivity. Qed.

(** concatenating the window byte ranges of a delivered text gives the text (the empty text included:
    its one window is empty) *)
Lemma glue_text idx s its : inference_items idx s = IOk its -> glue_bytes (utf8s s) its = utf8s s.
Proof.
  intros E. destruct s as [|c s].
  - clear E. unfold glue_bytes. cbn [utf8s flat_map]. induction its as [|x its IH]; [reflexivity|].
    cbn [map concat]. rewrite cslice_nil. cbn [app].
    apply IH.
  - unfold glue_bytes. exact (proj1 (proj2 (proj2 (text_tiles idx (c :: s) its ltac:(discriminate) E)))).
Qed.

Lemma filter_all {A} (p : A -> bool) l : Forall (fun x => p x = true) l -> filter p l = l.
Proof. induction 1 as [|x l Hx _ IH]; cbn [filter]; [reflexivity|]. rewrite Hx, IH. reflexivity. Qed.
Lemma filter_none {A} (p : A -> bool) l : Forall (fun x => p x = false) l -> filter p l = [].
Proof. induction 1 as [|x l Hx _ IH]; cbn [filter]; [reflexivity|]. rewrite Hx, IH. reflexivity. Qed.

Lemma items_idx idx s its : inference_items idx s = IOk its -> Forall (fun x => i_idx x = idx) its.
Proof.
  intros E. destruct (items_spec _ _ _ _ _ _ _ _ E) as (ws & _ & _ & Hi & _).
  apply Forall_forall. intros x Hx.
  assert (In (i_idx x) (map i_idx its)) as Hin by (apply in_map; exact Hx).
  rewrite Hi in Hin. apply repeat_spec in Hin. exact Hin.
Qed.

(** the items with item_idx i in the stream are the items of text i, in window order *)
Lemma filter_idx texts : forall idx j t, nth_error (delivered idx texts) j = Some t ->
  filter (fun x => Nat.eqb (i_idx x) (idx + j)) (flat_map d_items (delivered idx texts)) = snd t.
Proof.
  induction texts as [|[s|] r IH]; intros idx j t H; cbn [Inference_Proofs.delivered] in *; try (destruct j; discriminate).
  destruct (inference_items idx s) as [its|e] eqn:E; [|destruct j; discriminate].
  cbn [flat_map d_items snd]. rewrite filter_app.
  pose proof (items_idx _ _ _ E) as Hi.
  pose proof (stream_idx_ge kind max ctx g tok r (S idx)) as Hge. rewrite stream_items in Hge.
  destruct j as [|j]; cbn [nth_error] in H.
  - injection H as <-. cbn [snd]. rewrite Nat.add_0_r.
    rewrite filter_all, filter_none, app_nil_r; [reflexivity| |].
    + eapply Forall_impl; [|exact Hge]. cbn. intros x Hx. apply Nat.eqb_neq. lia.
    + eapply Forall_impl; [|exact Hi]. cbn. intros x Hx. apply Nat.eqb_eq. exact Hx.
  - rewrite filter_none.
    + cbn [app]. replace (idx + S j) with (S idx + j) by lia. exact (IH _ _ _ H).
    + eapply Forall_impl; [|exact Hi]. cbn. intros x Hx. apply Nat.eqb_neq. lia.
Qed.

Lemma nodup_map_inj {A B} (f : A -> B) l a b : NoDup (map f l) -> In a l -> In b l -> f a = f b -> a = b.
Proof.
  induction l as [|x l IH]; cbn [map]; intros Hn Ha Hb Hf; [destruct Ha|].
  inversion Hn as [|? ? Hx Hn']; subst.
  destruct Ha as [->|Ha], Hb as [->|Hb]; try reflexivity.
  - exfalso. apply Hx. rewrite Hf. apply in_map. exact Hb.
  - exfalso. apply Hx. rewrite <- Hf. apply in_map. exact Ha.
  - exact (IH Hn' Ha Hb Hf).
Qed.

(** the tags identify the items: looking up (item_idx, window_idx) of an item finds that item *)
Lemma lookup_found l y : NoDup (map tag l) -> In y l -> lookup l (i_idx y) (i_widx y) = Some y.
Proof.
  intros Hn Hy. unfold lookup.
  destruct (find (fun x => Nat.eqb (i_idx x) (i_idx y) && Nat.eqb (i_widx x) (i_widx y)) l) as [z|] eqn:F.
  - apply find_some in F. destruct F as [Hz Hp]. apply andb_true_iff in Hp. destruct Hp as [H1 H2].
    apply Nat.eqb_eq in H1, H2. f_equal. apply (nodup_map_inj tag l z y Hn Hz Hy). unfold tag. congruence.
  - exfalso. pose proof (find_none _ _ F y Hy) as Hp. cbn in Hp. rewrite !Nat.eqb_refl in Hp. discriminate.
Qed.

Lemma perm_filter {A} (p : A -> bool) l l' : Permutation l l' -> Permutation (filter p l) (filter p l').
Proof.
  induction 1 as [|x l l' H IH|x y l|l l' l'' H1 IH1 H2 IH2]; cbn [filter].
  - constructor.
  - destruct (p x); [constructor|]; exact IH.
  - destruct (p x), (p y); try apply Permutation_refl. apply perm_swap.
  - eapply Permutation_trans; eassumption.
Qed.

Lemma keep_some_map_some {A} (l : list A) : keep_some (map Some l) = l.
Proof. induction l as [|x l IH]; cbn [map keep_some]; [reflexivity|]. rewrite IH. reflexivity. Qed.

Lemma map_lookup_seq (f : nat -> option iitem) its : forall k0,
  (forall k x, nth_error its k = Some x -> f (k0 + k) = Some x) ->
  map f (seq k0 (length its)) = map Some its.
Proof.
  induction its as [|x its IH]; intros k0 H; cbn [length seq map]; [reflexivity|].
  rewrite <- (Nat.add_0_r k0) at 1. rewrite (H 0 x eq_refl). f_equal.
  apply IH. intros k y Hk. replace (S k0 + k) with (k0 + S k) by lia. apply H. exact Hk.
Qed.

(** what the caller does with the tags: collect the items of text i by window index.  For every list
    [l] that holds the items of the stream in any order (the concatenated batches), this returns the
    items of text i in window order, and the byte ranges of their windows concatenate to the text *)
Lemma reassemble_spec texts l j t :
  Permutation l (fst (stream 0 texts)) -> nth_error (delivered 0 texts) j = Some t ->
  reassemble l j = snd t /\ glue_bytes (utf8s (snd (fst t))) (reassemble l j) = utf8s (snd (fst t)).
Proof.
  intros Hp Ht. destruct (delivered_spec _ _ _ _ _ _ _ _ _ Ht) as (H1 & H2 & H3). cbn [plus] in *.
  assert (Hr : reassemble l j = snd t).
  { unfold reassemble.
    assert (Hn : nwin l j = length (snd t)).
    { unfold nwin. rewrite (Permutation_length (perm_filter (fun x => Nat.eqb (i_idx x) j) _ _ Hp)).
      rewrite stream_items. pose proof (filter_idx texts 0 j t Ht) as Hf. cbn [plus] in Hf.
      rewrite Hf. reflexivity. }
    rewrite Hn. rewrite (map_lookup_seq (lookup l j) (snd t) 0); [apply keep_some_map_some|].
    intros k x Hk. cbn [plus].
    assert (Hin : In x (snd t)) by (eapply nth_error_In; exact Hk).
    assert (Hil : In x l).
    { eapply Permutation_in; [apply Permutation_sym; exact Hp|]. rewrite stream_items.
      apply in_flat_map. exists t. split; [eapply nth_error_In; exact Ht|exact Hin]. }
    assert (Htag : tag x = (j, k)).
    { pose proof (items_tags _ _ _ _ _ _ _ _ H3) as Htags.
      assert (nth_error (map tag (snd t)) k = Some (tag x)) as Hm by (rewrite nth_error_map, Hk; reflexivity).
      rewrite Htags in Hm. rewrite nth_error_map in Hm.
      destruct (nth_error (seq 0 (length (snd t))) k) as [k'|] eqn:Ek; [|discriminate].
      assert (k' = k).
      { assert (Hlt : k < length (snd t)) by (apply nth_error_Some; congruence).
        rewrite (nth_error_nth' _ 0) in Ek by (rewrite seq_length; exact Hlt).
        rewrite seq_nth in Ek by exact Hlt. injection Ek as <-. reflexivity. }
      subst k'. cbn [option_map] in Hm. injection Hm as Hm Hm'. unfold tag. rewrite <- Hm, <- Hm'. reflexivity. }
    assert (Hl : lookup l (i_idx x) (i_widx x) = Some x).
    { apply lookup_found; [|exact Hil].
      eapply Permutation_NoDup; [apply Permutation_map, Permutation_sym; exact Hp|].
      apply stream_tags_nodup. }
    unfold tag in Htag. injection Htag as Hi Hk'. rewrite Hi, Hk' in Hl. exact Hl. }
  split; [exact Hr|]. rewrite Hr. exact (glue_text _ _ _ H3).
Qed.

(** * with batching (C06 transported) *)
Lemma run_unfold sort prefetch limit ty texts :
  inference_run kind max ctx g tok sort prefetch limit ty texts =
  (C06_Model.batches isize sort false (Nat.max prefetch 1) limit ty C06_Model.o_default (fst (stream 0 texts)),
   snd (stream 0 texts)).
Proof. unfold inference_run. destruct (stream 0 texts). reflexivity. Qed.

Lemma run_props sort prefetch limit ty texts bs e :
  inference_run kind max ctx g tok sort prefetch limit ty texts = (C06_Model.Ok bs, e) ->
  Permutation (concat bs) (fst (stream 0 texts))
  /\ NoDup (map tag (concat bs))
  /\ Forall (fun b => b <> []) bs
  /\ Forall (fun b => 1 < length b -> C06_Model.limit isize ty b <= Nat.max limit 1) bs
  /\ (sort = false -> concat bs = fst (stream 0 texts))
  /\ e = snd (stream 0 texts).
Proof.
  rewrite run_unfold. intros H. injection H as Hb He.
  pose proof (C06_Top.batches_partition_l _ isize _ _ _ _ _ _ _ _ Hb) as Hp.
  repeat split.
  - exact Hp.
  - eapply Permutation_NoDup; [apply Permutation_map, Permutation_sym; exact Hp|]. apply stream_tags_nodup.
  - exact (C06_Top.batches_nonempty_l _ isize _ _ _ _ _ _ _ _ Hb).
  - exact (C06_Top.batches_limit_l _ isize _ _ _ _ _ _ _ _ Hb).
  - intros ->. exact (C06_Top.plain_order_l _ isize _ _ _ _ _ _ Hb).
  - symmetry. exact He.
Qed.

(** the batcher never fails on the stream: the run is always defined *)
Lemma run_total sort prefetch limit ty texts :
  exists bs, fst (inference_run kind max ctx g tok sort prefetch limit ty texts) = C06_Model.Ok bs.
Proof.
  rewrite run_unfold. cbn [fst].
  destruct (C06_Top.batches_total_det_l isize sort (Nat.max prefetch 1) limit ty C06_Model.o_default (fst (stream 0 texts)))
    as [bs Hbs]. exists bs. exact Hbs.
Qed.

End Inf2.

(** * the threaded stages (C05 / C09 transported) *)
From TU Require Import Pipe_Model C05_Proofs C09_Proofs.
Section Threads.
Variables (kind max ctx : N) (g : bool) (tok : str -> option (list N)).
Notation stream := (stream kind max ctx g tok).
Notation pipeline := (pipeline kind max ctx g tok).

Lemma stream_fst_composition texts :
  fst (stream 0 texts) = concat (fst (scan2 (map pipeline (enumerate (fst (scan1 0 texts)))))).
Proof.
  rewrite stream_is_composition_l. unfold composition. destruct (scan1 0 texts) as [ok e1]. cbn [fst].
  destruct (scan2 (map pipeline (enumerate ok))) as [its e2]. reflexivity.
Qed.

(** a consumer that has stopped at an Err result has seen exactly what the whole result list gives *)
Lemma scan2_firstn rs : forall n, snd (scan2 (firstn n rs)) <> None -> scan2 (firstn n rs) = scan2 rs.
Proof.
  induction rs as [|[its|e] rs IH]; intros n H.
  - rewrite firstn_nil in *. reflexivity.
  - destruct n as [|n]; cbn [firstn scan2] in *; [exfalso; apply H; reflexivity|].
    specialize (IH n). destruct (scan2 (firstn n rs)) as [l e']. cbn [snd] in *. rewrite <- (IH H). reflexivity.
  - destruct n as [|n]; cbn [firstn scan2] in *; [exfalso; apply H; reflexivity|reflexivity].
Qed.

(** whatever the number of workers (>= 1) and the schedule: a complete execution of the Pipe stage on
    the enumerated texts before the first Err text delivers the pipeline results in order, so the second
    scan + flatten produce the model's stream; in every reachable state the consumer has received a
    prefix of these results, and once it has seen an Err result it has seen the model's stream *)
Lemma threads_transparent_l (d : nat * str) texts W tr (s : state (nat * str) (ires (list iitem))) :
  0 < W ->
  run _ _ pipeline d (init _ _ (enumerate (fst (scan1 0 texts))) W) tr = Some s -> dropped s = false ->
  (forall lab, lab <> Drop -> step _ _ pipeline d s lab = None) ->
  out s = map pipeline (enumerate (fst (scan1 0 texts)))
  /\ concat (fst (scan2 (out s))) = fst (stream 0 texts).
Proof.
  intros HW H Hd Hno.
  destruct (pipe_terminal_l _ _ pipeline d _ W tr s HW H Hd Hno) as [Ho _].
  split; [exact Ho|]. rewrite Ho. symmetry. apply stream_fst_composition.
Qed.

Lemma threads_prefix_l (d : nat * str) texts W tr (s : state (nat * str) (ires (list iitem))) :
  run _ _ pipeline d (init _ _ (enumerate (fst (scan1 0 texts))) W) tr = Some s ->
  out s = firstn (length (out s)) (map pipeline (enumerate (fst (scan1 0 texts))))
  /\ (snd (scan2 (out s)) <> None -> concat (fst (scan2 (out s))) = fst (stream 0 texts)).
Proof.
  intros H. pose proof (pipe_prefix_l _ _ pipeline d _ W tr s H) as Hp.
  assert (Ho : out s = firstn (length (out s)) (map pipeline (enumerate (fst (scan1 0 texts))))).
  { rewrite firstn_map. exact Hp. }
  split; [exact Ho|]. intros He. rewrite Ho in He |- *. rewrite (scan2_firstn _ _ He).
  symmetry. apply stream_fst_composition.
Qed.

End Threads.

(** * the repaired loader's pipe over its real upstream is Pipe_Model's pipe on the model's list *)
From TU Require Import Inference_Unfused Inference_Fused.
Lemma scan1_ok_prefix texts : forall k, fst (scan1 k texts) = ok_prefix str texts.
Proof.
  induction texts as [|[s|] r IH]; intros k; cbn [scan1 ok_prefix]; try reflexivity.
  specialize (IH (S k)). destruct (scan1 (S k) r) as [l e]. cbn [fst] in *. rewrite IH. reflexivity.
Qed.

Lemma fused_is_pipe_model (B : Type) (f : nat * str -> B) (d : nat * str) texts W tr s :
  urun str B f d true (uinit str B texts W) tr = Some s ->
  run _ _ f d (init _ _ (enumerate (fst (scan1 0 texts))) W) tr
  = Some (with_xs str B (u_base str B s) (enumerate (fst (scan1 0 texts)))).
Proof.
  intros H. destruct (fused_is_pipe_l str B f d texts W tr s H) as [Hr _].
  unfold absu, full, enum in Hr. rewrite (scan1_ok_prefix texts 0). exact Hr.
Qed.

Lemma first_err_text_ok_prefix texts : forall pos,
  nth_error texts (length (ok_prefix str texts)) = Some None ->
  first_err_text pos texts = Some (pos + length (ok_prefix str texts)).
Proof.
  induction texts as [|[x|] r IH]; intros pos H; cbn [ok_prefix length nth_error first_err_text] in *.
  - discriminate.
  - rewrite (IH (S pos) H). f_equal. lia.
  - rewrite Nat.add_0_r. reflexivity.
Qed.

(** after the repair iter_err, as the FIRST scan writes it, is nothing or the first Err text *)
Lemma fused_err_is_first_model (B : Type) (f : nat * str -> B) (d : nat * str) texts W tr s :
  urun str B f d true (uinit str B texts W) tr = Some s ->
  u_err str B s = None \/ (exists k, first_err_text 0 texts = Some k /\ u_err str B s = Some k).
Proof.
  intros H. destruct (fused_err_is_first_l str B f d texts W tr s H) as [E|[E1 E2]]; [left; exact E|].
  right. exists (length (ok_prefix str texts)). split; [|exact E1].
  rewrite (first_err_text_ok_prefix texts 0 E2). reflexivity.
Qed.

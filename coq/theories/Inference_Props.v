(** Inference loader — pinned statements (listed under [extra_props] of C16).
    Model: Inference_Model.v; proofs: Inference_Proofs.v, Inference_Unfused.v.

    [kind max ctx g] = the window configuration (C16's [windows]); [tok] = the tokenizer applied to a
    window's text with the loader's ignore_special_tokens ([None] = Err), any function;
    [texts : list (option str)], [None] = the text iterator returns Err at that position.
    [stream .. 0 texts] = (the items that reach the batcher, the content of iter_err at the end);
    [delivered .. 0 texts] = the texts whose windows are delivered, with position and items. *)
From Coq Require Import Permutation.
From TU Require Import Base C16_Model C16_UAX29 Inference_Model Inference_Proofs Inference_Unfused Inference_Check Pipe_Model.
From TU Require C06_Model C09_Proofs.
Local Open Scope nat_scope.

(** the model's one recursion is the literal composition of the stages: first scan (texts up to the
    first Err), enumerate, map pipeline, second scan (results up to the first Err), flatten; iter_err =
    the second scan's error if it recorded one (the upstream is never polled again), else the first's *)
Theorem stream_is_composition : forall kind max ctx g tok texts,
  stream kind max ctx g tok 0 texts = composition kind max ctx g tok texts.
Proof. exact stream_is_composition_l. Qed.
Print Assumptions stream_is_composition.

(** the items of one text: one per window of C16's [windows] on the text's own segmentation, in order,
    tagged (idx, 0), (idx, 1), ..., each with the token ids of its window's context *)
Theorem items_are_windows : forall kind max ctx g tok idx s its,
  inference_items kind max ctx g tok idx s = IOk its ->
  exists ws, windows kind max ctx (lens_g g s) = Ok ws
    /\ map i_win its = ws /\ map i_idx its = repeat idx (length ws) /\ map i_widx its = seq 0 (length ws)
    /\ Forall (fun x => tok (win_text (seg_of g s) (i_win x)) = Some (i_ids x)) its.
Proof. exact items_spec. Qed.
Print Assumptions items_are_windows.

(** C16's tiling transported: within a non-empty text the windows of its items tile the clusters and the
    UTF-8 bytes, the window byte ranges concatenate to the text's bytes, the window cluster ranges to the text *)
Theorem text_windows_tile : forall kind max ctx g tok idx s its, s <> [] ->
  inference_items kind max ctx g tok idx s = IOk its ->
  Tile w_ws w_we 0%N (lenN (seg_of g s)) (map i_win its)
  /\ Tile w_bws w_bwe 0%N (lenN (utf8s s)) (map i_win its)
  /\ concat (map (fun x => cslice (utf8s s) (w_bws (i_win x)) (w_bwe (i_win x))) its) = utf8s s
  /\ concat (map (fun x => concat (cslice (seg_of g s) (w_ws (i_win x)) (w_we (i_win x)))) its) = s
  /\ Forall (fun x => tok (win_text (seg_of g s) (i_win x)) = Some (i_ids x)) its.
Proof. exact text_tiles. Qed.
Print Assumptions text_windows_tile.

(** the pipeline never reaches a panic site or runs out of fuel (C16's totality transported) *)
Theorem pipeline_no_bug : forall kind max ctx g tok idx s i,
  inference_items kind max ctx g tok idx s <> IErr (EBug i).
Proof. exact items_no_bug. Qed.
Print Assumptions pipeline_no_bug.

(** what is delivered: the stream is the items of the texts of [delivered], in order; the j-th delivered
    text is the text at position j of the input, tagged j, and its items are the pipeline's for (j, text):
    texts in order, windows in order, nothing of any text after the first error *)
Theorem stream_delivers_prefix : forall kind max ctx g tok texts,
  fst (stream kind max ctx g tok 0 texts) = flat_map d_items (delivered kind max ctx g tok 0 texts)
  /\ forall j t, nth_error (delivered kind max ctx g tok 0 texts) j = Some t ->
       fst (fst t) = j /\ nth_error texts j = Some (Some (snd (fst t)))
       /\ inference_items kind max ctx g tok j (snd (fst t)) = IOk (snd t).
Proof.
  intros. split; [apply stream_items|]. intros j t H.
  exact (delivered_spec kind max ctx g tok texts 0 j t H).
Qed.
Print Assumptions stream_delivers_prefix.

(** how it ends: with n texts delivered, regularly if there is no text n, with EText n if text n is an
    Err, else with the pipeline's error for text n; nothing else is recorded *)
Theorem stream_end_state : forall kind max ctx g tok texts,
  snd (stream kind max ctx g tok 0 texts) =
  match nth_error texts (length (delivered kind max ctx g tok 0 texts)) with
  | None => None
  | Some None => Some (EText (length (delivered kind max ctx g tok 0 texts)))
  | Some (Some s) =>
      match inference_items kind max ctx g tok (length (delivered kind max ctx g tok 0 texts)) s with
      | IErr e => Some e | IOk _ => None end
  end.
Proof. intros. exact (stream_end kind max ctx g tok 0 texts). Qed.
Print Assumptions stream_end_state.

Theorem regular_end_iff_all_delivered : forall kind max ctx g tok texts,
  snd (stream kind max ctx g tok 0 texts) = None <-> length (delivered kind max ctx g tok 0 texts) = length texts.
Proof. intros. exact (stream_end_regular kind max ctx g tok 0 texts). Qed.
Print Assumptions regular_end_iff_all_delivered.

(** no (item_idx, window_idx) pair occurs twice *)
Theorem tags_unique : forall kind max ctx g tok texts,
  NoDup (map tag (fst (stream kind max ctx g tok 0 texts))).
Proof. intros. exact (stream_tags_nodup kind max ctx g tok texts 0). Qed.
Print Assumptions tags_unique.

(** C06 transported.  For every configuration the run is defined, and its batches hold every window of
    every delivered text exactly once (with its tags, boundaries and token ids: the items themselves), no
    pair of tags twice, no batch is empty, every batch with more than one item respects the limit (item
    count, or count times the largest number of token ids); without sort the concatenation of the batches
    is the stream: texts in order, windows in order; with sort it is a permutation of it *)
Theorem run_defined : forall kind max ctx g tok sort prefetch limit ty texts,
  exists bs, fst (inference_run kind max ctx g tok sort prefetch limit ty texts) = C06_Model.Ok bs.
Proof. exact run_total. Qed.
Print Assumptions run_defined.

Theorem every_window_in_exactly_one_batch : forall kind max ctx g tok sort prefetch limit ty texts bs e,
  inference_run kind max ctx g tok sort prefetch limit ty texts = (C06_Model.Ok bs, e) ->
  Permutation (concat bs) (fst (stream kind max ctx g tok 0 texts))
  /\ NoDup (map tag (concat bs))
  /\ Forall (fun b => b <> []) bs
  /\ Forall (fun b => 1 < length b -> C06_Model.limit isize ty b <= Nat.max limit 1) bs
  /\ (sort = false -> concat bs = fst (stream kind max ctx g tok 0 texts))
  /\ e = snd (stream kind max ctx g tok 0 texts).
Proof. exact run_props. Qed.
Print Assumptions every_window_in_exactly_one_batch.

(** what the Python side relies on (processor.py): collecting the items of the batches by
    (item_idx, window_idx) gives, for every delivered text j, its items in window order, and the byte
    ranges of their windows, cut out of the text's UTF-8 encoding and concatenated, are the text — in
    whatever order the items arrive (sorted batches included), the empty text included *)
Theorem tags_reassemble_every_text : forall kind max ctx g tok texts l j t,
  Permutation l (fst (stream kind max ctx g tok 0 texts)) ->
  nth_error (delivered kind max ctx g tok 0 texts) j = Some t ->
  reassemble l j = snd t
  /\ glue_bytes (utf8s (snd (fst t))) (reassemble l j) = utf8s (snd (fst t)).
Proof. exact reassemble_spec. Qed.
Print Assumptions tags_reassemble_every_text.

Theorem batches_reassemble_every_text : forall kind max ctx g tok sort prefetch limit ty texts bs e j t,
  inference_run kind max ctx g tok sort prefetch limit ty texts = (C06_Model.Ok bs, e) ->
  nth_error (delivered kind max ctx g tok 0 texts) j = Some t ->
  reassemble (concat bs) j = snd t
  /\ glue_bytes (utf8s (snd (fst t))) (reassemble (concat bs) j) = utf8s (snd (fst t)).
Proof.
  intros kind max ctx g tok sort prefetch limit ty texts bs e j t H Ht.
  apply (reassemble_spec kind max ctx g tok texts (concat bs) j t); [|exact Ht].
  exact (proj1 (run_props kind max ctx g tok sort prefetch limit ty texts bs e H)).
Qed.
Print Assumptions batches_reassemble_every_text.

(** C05 transported: the stream does not depend on the number of worker threads or on the schedule.  For
    every W >= 1 and every complete execution of the Pipe protocol (Pipe_Model's LTS) on the enumerated
    texts before the first Err text, the consumer receives the pipeline results in input order, and the
    second scan + flatten of what it received is the model's stream (with 0 threads the code is [map]) *)
Theorem stream_thread_count_free : forall kind max ctx g tok (d : nat * str) texts W tr
    (s : state (nat * str) (ires (list iitem))),
  0 < W ->
  run _ _ (pipeline kind max ctx g tok) d (init _ _ (enumerate (fst (scan1 0 texts))) W) tr = Some s ->
  dropped s = false ->
  (forall lab, lab <> Drop -> step _ _ (pipeline kind max ctx g tok) d s lab = None) ->
  out s = map (pipeline kind max ctx g tok) (enumerate (fst (scan1 0 texts)))
  /\ concat (fst (scan2 (out s))) = fst (stream kind max ctx g tok 0 texts).
Proof. exact threads_transparent_l. Qed.
Print Assumptions stream_thread_count_free.

(** ... and in EVERY reachable state what the consumer has received is a prefix of those results, so a
    consumer that stops at the first Err result (the second scan; the workers are left behind) has seen
    exactly the model's stream *)
Theorem stream_prefix_at_every_moment : forall kind max ctx g tok (d : nat * str) texts W tr
    (s : state (nat * str) (ires (list iitem))),
  run _ _ (pipeline kind max ctx g tok) d (init _ _ (enumerate (fst (scan1 0 texts))) W) tr = Some s ->
  out s = firstn (length (out s)) (map (pipeline kind max ctx g tok) (enumerate (fst (scan1 0 texts))))
  /\ (snd (scan2 (out s)) <> None -> concat (fst (scan2 (out s))) = fst (stream kind max ctx g tok 0 texts)).
Proof. exact threads_prefix_l. Qed.
Print Assumptions stream_prefix_at_every_moment.

(** C09 transported: the buffer thread hands the batches on in order, whatever its capacity and schedule *)
Theorem batches_buffer_size_free : forall sof n cap tr s,
  brun sof (binit n cap) tr = Some s -> bdropped s = false ->
  (forall l, l <> BDrop -> bstep sof s l = None) -> bout s = seq 0 n.
Proof. intros sof n cap tr s H Hd Hno. exact (proj1 (C09_Proofs.buf_terminal_top sof n cap tr s H Hd Hno)). Qed.
Print Assumptions batches_buffer_size_free.

(** D17.  The Pipe protocol over the upstream the loader really has (Inference_Unfused.v: the scan is
    not fused).  Before the repair ([fused = false]): texts [Ok a; Err; Ok b], two workers — there is a
    complete schedule in which the consumer receives a result for [b], numbered 1 (the position of the Err
    text), after the upstream had returned None.  After the repair the stream ends at the Err text. *)
Theorem unfused_delivers_after_err : forall (T B : Type) (f : nat * T -> B) (d : nat * T) (a b : T),
  exists s, urun T B f d false (uinit T B [Some a; None; Some b] 2) witness_schedule = Some s
    /\ uterminal T B f d false s
    /\ out (u_base T B s) = [f (0, a); f (1, b)]
    /\ u_err T B s = Some 1.
Proof. exact unfused_delivers_after_err_l. Qed.
Print Assumptions unfused_delivers_after_err.

Theorem fused_stops_at_err : forall (T B : Type) (f : nat * T -> B) (d : nat * T) (a b : T),
  exists s, urun T B f d true (uinit T B [Some a; None; Some b] 2) fused_schedule = Some s
    /\ uterminal T B f d true s
    /\ out (u_base T B s) = [f (0, a)]
    /\ u_err T B s = Some 1.
Proof. exact fused_stops_at_err_l. Qed.
Print Assumptions fused_stops_at_err.

(** after the repair: EVERY execution of the loader's pipe over its real upstream (the non-fused scan
    behind Iterator::fuse, the loader's enumerate counter, iter_err) is, label by label, an execution of
    Pipe_Model's pipe over the list the model uses — the enumerated texts before the first Err text — with
    the same threads, channel and output: so the C05 / C09 theorems (in particular the two above) are
    theorems about the loader's pipe stage with the upstream it really has *)
Theorem fused_is_pipe : forall (B : Type) (f : nat * str -> B) (d : nat * str) texts W tr s,
  urun str B f d true (uinit str B texts W) tr = Some s ->
  run _ _ f d (init _ _ (enumerate (fst (scan1 0 texts))) W) tr
  = Some (with_xs str B (u_base str B s) (enumerate (fst (scan1 0 texts)))).
Proof. exact fused_is_pipe_model. Qed.
Print Assumptions fused_is_pipe.

(** iter_err as the first scan writes it.  After the repair: in every reachable state it is empty or holds the
    FIRST Err text — so the only error that can compete with the second scan's (an Err result for an earlier
    text) is that one, which is what the correspondence accepts ([end_allowed]).  Before the repair it was the
    Err text a worker ran into last: texts [Ok a; Err; Err], two workers, final iter_err = position 2 *)
Theorem fused_err_is_first : forall (B : Type) (f : nat * str -> B) (d : nat * str) texts W tr s,
  urun str B f d true (uinit str B texts W) tr = Some s ->
  u_err str B s = None \/ (exists k, first_err_text 0 texts = Some k /\ u_err str B s = Some k).
Proof. exact fused_err_is_first_model. Qed.
Print Assumptions fused_err_is_first.

Theorem unfused_records_later_err : forall (T B : Type) (f : nat * T -> B) (d : nat * T) (a : T),
  exists s, urun T B f d false (uinit T B [Some a; None; None] 2) fused_schedule = Some s
    /\ uterminal T B f d false s
    /\ out (u_base T B s) = [f (0, a)]
    /\ u_err T B s = Some 2.
Proof. exact unfused_records_later_err_l. Qed.
Print Assumptions unfused_records_later_err.

(** the executable statement evaluated on every implementation output (every window of every delivered text
    exactly once with ids, tags and boundaries; no empty batch; limit; order and greediness without sort;
    accessors; end state) holds of the model's own output, for EVERY input value; the model agrees with itself
    under the correspondence relation *)
Theorem check_run_inference : forall v, check_inference v (run_inference v) = true.
Proof. exact check_run_inference_l. Qed.
Print Assumptions check_run_inference.

Theorem agree_run_inference : forall v, agree_inference v (run_inference v) (run_inference v) = true.
Proof. exact agree_run_inference_l. Qed.
Print Assumptions agree_run_inference.

(** what the main clause of an accepting verdict means: the decoded items are exactly the model's, each once —
    token ids, (item_idx, window_idx) and all eight boundaries ([key]; an InferenceItem carries no string range) *)
Theorem same_items_sound : forall l m, same_itemsb l m = true -> Permutation (map key l) (map key m).
Proof. exact same_itemsb_sound. Qed.
Print Assumptions same_items_sound.

(** * Examples: the premises are met by non-trivial inputs *)
(** a "tokenizer" that returns the code points; character windows of 4 with context 1;
    texts "abcdef", Err, "xy" *)
Definition ex_tok (s : str) : option (list N) := Some s.
Definition ex_texts : list (option str) := [Some [97;98;99;100;101;102]%N; Some []; Some [120;121]%N].
Example ex_delivered :
  map (fun t => (fst (fst t), length (snd t))) (delivered 0%N 4%N 1%N false ex_tok 0 ex_texts) = [(0, 3); (1, 1); (2, 1)].
Proof. vm_compute. reflexivity. Qed.
Example ex_run_sorted :
  exists bs, inference_run 0%N 4%N 1%N false ex_tok true 1 2 C06_Model.BatchSize ex_texts = (C06_Model.Ok bs, None)
    /\ map (map tag) bs = [[(0, 1); (0, 0)]; [(2, 0); (0, 2)]; [(1, 0)]].
Proof. eexists. split; vm_compute; reflexivity. Qed.
Example ex_reassemble :
  forall bs, fst (inference_run 0%N 4%N 1%N false ex_tok true 1 2 C06_Model.BatchSize ex_texts) = C06_Model.Ok bs ->
  glue_bytes [97;98;99;100;101;102]%N (reassemble (concat bs) 0) = [97;98;99;100;101;102]%N.
Proof. intros bs H. vm_compute in H. injection H as <-. vm_compute. reflexivity. Qed.
(** an Err text in the middle: the stream ends there and the error is the one of that position *)
Example ex_err_mid :
  stream 0%N 4%N 1%N false ex_tok 0 [Some [97;98]%N; None; Some [99;100]%N]
  = ([mki [97;98]%N 0 0 (mkw 0 0 2 2 0 0 2 2 0 2)], Some (EText 1)).
Proof. vm_compute. reflexivity. Qed.
(** an impossible window configuration: the empty text still yields its one window, the first non-empty
    text ends the stream with C16's configuration error *)
Example ex_bad_config :
  stream 0%N 2%N 1%N false ex_tok 0 [Some []; Some [97]%N; Some []]
  = ([mki [] 0 0 zero_window], Some (EWin 1 1%N [])).
Proof. vm_compute. reflexivity. Qed.

(** a harness input (the first D17 witness of corpus/C16: byte tokenizer, character windows 4 / 1, two worker
    threads, texts "ab", Err, "cd"): one batch with the one window of "ab", then the error of position 1 *)
Local Open Scope Z_scope.
Definition ex_v : val :=
  L [I 10;
     L [I 0; I 0; I 0; I 0; L []; L [L [I 60; I 112; I 97; I 100; I 62]]; L [I 60; I 112; I 97; I 100; I 62];
        L []; L []; L [I 60; I 117; I 110; I 107; I 62]; L []];
     L [I 0; I 0; I 4; I 1; I 0]; L [I 2; I 1; I 2; I 0; I 1; I 0];
     L [L [I 1; L [I 97; I 98]]; L [I 0]; L [I 1; L [I 99; I 100]]]].
Example ex_v_run :
  run_inference ex_v =
  L [I 1;
     L [L [I 1; L [I 2]; L [L [I 97; I 98]]; L [L [I 0; I 0]];
           L [L [L [I 97; I 98]; I 0; I 0; L [I 0; I 0; I 2; I 2]; L [I 0; I 0; I 2; I 2]; I 2; I 2; I 2]]]];
     L [I 0; I 1]; L [L [I 0; I 1]; L [I 0; I 1]]].
Proof. vm_compute. reflexivity. Qed.
(** what the code before the repair D17 returned for it with two threads is rejected *)
Example ex_v_d17_rejected :
  check_inference ex_v
    (L [I 1;
        L [L [I 2; L [I 2; I 2]; L [L [I 97; I 98]; L [I 99; I 100]]; L [L [I 0; I 0]; L [I 1; I 0]];
              L [L [L [I 97; I 98]; I 0; I 0; L [I 0; I 0; I 2; I 2]; L [I 0; I 0; I 2; I 2]; I 2; I 2; I 2];
                 L [L [I 99; I 100]; I 1; I 0; L [I 0; I 0; I 2; I 2]; L [I 0; I 0; I 2; I 2]; I 2; I 2; I 2]]]];
        L [I 0; I 1]; L [L [I 0; I 1]; L [I 0; I 1]]]) = false.
Proof. vm_compute. reflexivity. Qed.

(** C06 proofs, part 4: statements about [batches], the executable check. *)
From TU Require Import Base C06_Model C06_Subseq C06_Proofs C06_Loop.
Require Import Lia Permutation.

Section Top.
Context {A : Type} (size : A -> nat).
Notation limit := (limit size).

Lemma batches_good : forall sort shuffle prefetch lim ty o (input : list A),
  good o (batches size sort shuffle prefetch lim ty o input).
Proof.
  intros. unfold batches. apply loop_total; [cbn; lia|]. rewrite app_nil_l. lia.
Qed.

Lemma batches_total_l : forall sort shuffle prefetch lim ty o (input : list A),
  oracle_guard o -> exists bs, batches size sort shuffle prefetch lim ty o input = Ok bs.
Proof.
  intros sort shuffle prefetch lim ty o input Hg.
  pose proof (batches_good sort shuffle prefetch lim ty o input) as H.
  destruct (batches size sort shuffle prefetch lim ty o input) as [bs|[]]; cbn in H; try contradiction; eauto.
Qed.

Lemma batches_safe_l : forall sort shuffle prefetch lim ty o (input : list A),
  batches size sort shuffle prefetch lim ty o input <> Err OutOfFuel /\
  batches size sort shuffle prefetch lim ty o input <> Err AssertFail /\
  (batches size sort shuffle prefetch lim ty o input = Err BadOracle -> ~ oracle_guard o).
Proof.
  intros. pose proof (batches_good sort shuffle prefetch lim ty o input) as H.
  destruct (batches size sort shuffle prefetch lim ty o input) as [bs|[]]; cbn in H;
    try contradiction; repeat split; try discriminate; auto.
Qed.

(** without shuffle the oracle is never consulted *)
Lemma build_batch_noshuffle : forall sort L P ty o o' t t' (rest buf : list A),
  build_batch size sort false L P ty o t rest buf = build_batch size sort false L P ty o' t' rest buf.
Proof. intros. unfold build_batch. destruct sort; reflexivity. Qed.

Lemma loop_noshuffle : forall sort L P ty o o' fuel t t' (rest buf : list A),
  batches_loop size sort false L P ty o fuel t rest buf = batches_loop size sort false L P ty o' fuel t' rest buf.
Proof.
  intros sort L P ty o o'. induction fuel as [|f IH]; intros t t' rest buf; [reflexivity|].
  cbn [batches_loop]. rewrite (build_batch_noshuffle sort L P ty o o' t t').
  destruct (build_batch size sort false L P ty o' t' rest buf) as [[b|] r bf|e]; auto.
  rewrite (IH (S t) (S t')). reflexivity.
Qed.

Lemma o_default_guard : oracle_guard o_default.
Proof.
  split; cbn [shuf pick o_default]; [|intros; lia].
  intros _ n. induction n; cbn; auto.
Qed.

Lemma batches_total_det_l : forall sort prefetch lim ty o (input : list A),
  exists bs, batches size sort false prefetch lim ty o input = Ok bs.
Proof.
  intros. unfold batches. rewrite (loop_noshuffle _ _ _ _ o o_default _ 0 0).
  apply (batches_total_l sort false prefetch lim ty o_default input o_default_guard).
Qed.

Lemma batches_props_l : forall sort shuffle prefetch lim ty o (input : list A) bs,
  batches size sort shuffle prefetch lim ty o input = Ok bs ->
  Permutation (concat bs) input /\ Forall (fun b => b <> []) bs /\
  Forall (fun b => 1 < length b -> limit ty b <= Nat.max lim 1) bs.
Proof.
  intros sort shuffle prefetch lim ty o input bs H. unfold batches in H.
  apply loop_props in H. destruct H as (Hp & Hne & Hl). rewrite app_nil_l in Hp.
  split; [exact Hp|]. split; [exact Hne|].
  eapply Forall_impl; [|exact Hl]. cbn beta. intros b [Hb|Hb] Hlt; [lia|exact Hb].
Qed.

Lemma plain_l : forall prefetch lim ty o (input : list A) bs,
  batches size false false prefetch lim ty o input = Ok bs ->
  concat bs = input /\ greedyb size ty (Nat.max lim 1) bs = true.
Proof.
  intros prefetch lim ty o input bs H. unfold batches in H.
  apply plain_loop in H; [|cbn; lia]. destruct H as (Hc & Hg & _). auto.
Qed.

(** what [greedyb] says *)
Lemma greedyb_spec : forall ty L bs, greedyb size ty L bs = true ->
  forall i b b' x, nth_error bs i = Some b -> nth_error bs (S i) = Some (x :: b') ->
  L < limit ty (b ++ [x]).
Proof.
  intros ty L. induction bs as [|b0 bs IH]; intros Hg i b b' x Hi Hsi; [destruct i; discriminate|].
  destruct bs as [|b1 bs]; [destruct i; discriminate|].
  destruct b1 as [|y b1]; [cbn in Hg; discriminate|].
  rewrite greedyb_cons in Hg. apply andb_true_iff in Hg. destruct Hg as [H0 Hg].
  destruct i as [|i].
  - cbn in Hi, Hsi. injection Hi as <-. injection Hsi as <- <-. apply Nat.ltb_lt. exact H0.
  - apply (IH Hg i b b' x); assumption.
Qed.

End Top.

(** * glue *)
Lemma map_fst_combine_seq : forall (sizes : list nat) a, map fst (combine (seq a (length sizes)) sizes) = seq a (length sizes).
Proof. induction sizes as [|s sizes IH]; intros a; cbn; [reflexivity|]. rewrite IH. reflexivity. Qed.

Lemma mk_items_fst : forall sizes, map fst (mk_items sizes) = seq 0 (length sizes).
Proof. intros. apply map_fst_combine_seq. Qed.

Lemma mk_items_length : forall sizes, length (mk_items sizes) = length sizes.
Proof. intros. unfold mk_items, item. rewrite combine_length, seq_length. lia. Qed.

Lemma combine_seq_nth : forall (sizes : list nat) a x d, In x (combine (seq a (length sizes)) sizes) ->
  a <= fst x /\ nth (fst x - a) (combine (seq a (length sizes)) sizes) d = x.
Proof.
  induction sizes as [|s sizes IH]; intros a x d H; cbn in H; [contradiction|].
  destruct H as [<-|H].
  - cbn [fst]. rewrite Nat.sub_diag. split; [lia|reflexivity].
  - destruct (IH (S a) x d H) as [Hle Hn]. split; [lia|].
    cbn [length seq combine]. replace (fst x - a) with (S (fst x - S a)) by lia. exact Hn.
Qed.

Lemma lookup_in : forall sizes x, In x (mk_items sizes) -> lookup (mk_items sizes) (fst x) = x.
Proof.
  intros sizes x H. unfold lookup, mk_items in *.
  destruct (combine_seq_nth sizes 0 x (fst x, 4000) H) as [_ Hn]. rewrite Nat.sub_0_r in Hn. exact Hn.
Qed.

Lemma v_batches_batches_v : forall bs, v_batches (batches_v bs) = map (map fst) bs.
Proof.
  intros. unfold v_batches, batches_v, v_list, list_v. rewrite map_map. apply map_ext. intros b.
  rewrite map_map. apply map_ext. intros x. unfold v_nat, nat_v. cbn [v_z]. apply Nat2Z.id.
Qed.

Lemma nat_list_eqb_refl : forall l, nat_list_eqb l l = true.
Proof. induction l; cbn; auto. rewrite Nat.eqb_refl. exact IHl. Qed.

Lemma relookup : forall sizes (bs : list (list item)),
  (forall x, In x (concat bs) -> In x (mk_items sizes)) ->
  map (map (lookup (mk_items sizes))) (map (map fst) bs) = bs.
Proof.
  intros sizes. induction bs as [|b bs IH]; intros H; [reflexivity|]. cbn [map]. f_equal.
  - rewrite map_map. rewrite <- (map_id b) at 2. apply map_ext_in. intros x Hx.
    apply lookup_in. apply H. cbn [concat]. apply in_or_app. left. exact Hx.
  - apply IH. intros x Hx. apply H. cbn [concat]. apply in_or_app. right. exact Hx.
Qed.

Lemma check_run_l : forall v, check_C06 v (run_C06 v) = true.
Proof.
  intros v. unfold run_C06, run_with.
  set (sort := v_bool (v_nth 0 v)). set (shuffle := v_bool (v_nth 1 v)).
  set (pf := v_nat (v_nth 2 v)). set (lm := v_nat (v_nth 3 v)). set (ty := v_ty (v_nth 4 v)).
  destruct (batches_total_l isize sort shuffle pf lm ty o_default (v_items v) o_default_guard) as [bs Hbs].
  rewrite Hbs. unfold check_C06. fold sort shuffle lm ty.
  cbn [v_nth nth shape2]. rewrite v_batches_batches_v.
  unfold v_items in *. set (sizes := v_list v_nat (v_nth 6 v)) in *.
  destruct (batches_props_l isize _ _ _ _ _ _ _ _ Hbs) as (Hperm & Hne & Hlim).
  rewrite relookup by (intros x Hx; eapply Permutation_in; eauto).
  assert (Hids : concat (map (map fst) bs) = map fst (concat bs)) by (symmetry; apply concat_map).
  assert (Hpf : Permutation (map fst (concat bs)) (seq 0 (length sizes))).
  { rewrite <- mk_items_fst. apply Permutation_map. exact Hperm. }
  rewrite Hids, mk_items_length.
  assert (H1 : is_perm_ids (map fst (concat bs)) (length sizes) = true).
  { unfold is_perm_ids. apply andb_true_iff. split.
    - apply Nat.eqb_eq. rewrite (Permutation_length Hpf). apply seq_length.
    - apply forallb_forall. intros i Hi. apply existsb_exists. exists i. split; [|apply Nat.eqb_refl].
      eapply Permutation_in; [symmetry; exact Hpf|exact Hi]. }
  assert (H2 : forallb (fun b : list nat => negb (is_nil b)) (map (map fst) bs) = true).
  { apply forallb_forall. intros b Hb. apply in_map_iff in Hb. destruct Hb as (b0 & <- & Hb0).
    rewrite Forall_forall in Hne. specialize (Hne _ Hb0). destruct b0; [exfalso; apply Hne; reflexivity|reflexivity]. }
  assert (H3 : forallb (limit_okb isize ty (Nat.max lm 1)) bs = true).
  { apply forallb_forall. intros b Hb. rewrite Forall_forall in Hlim. specialize (Hlim _ Hb).
    unfold limit_okb. destruct (length b <=? 1) eqn:E; [reflexivity|].
    apply Nat.leb_gt in E. cbn [orb]. apply Nat.leb_le. auto. }
  rewrite H1, H2, H3. unfold v_bool. cbn [v_z Z.eqb negb andb].
  destruct (negb sort && negb shuffle) eqn:Em; [|reflexivity].
  apply andb_true_iff in Em. destruct Em as [E1 E2].
  apply negb_true_iff in E1. apply negb_true_iff in E2. rewrite E1, E2 in Hbs.
  destruct (plain_l isize _ _ _ _ _ _ Hbs) as [Hc Hg].
  rewrite Hc, mk_items_fst, nat_list_eqb_refl, Hg. reflexivity.
Qed.

(** * soundness of the executable clauses *)
Lemma is_perm_ids_sound : forall ids n, is_perm_ids ids n = true -> Permutation ids (seq 0 n).
Proof.
  intros ids n H. unfold is_perm_ids in H. apply andb_true_iff in H. destruct H as [Hl Hall].
  apply Nat.eqb_eq in Hl. symmetry. apply NoDup_Permutation_bis.
  - apply seq_NoDup.
  - rewrite seq_length. lia.
  - intros i Hi. rewrite forallb_forall in Hall. specialize (Hall i Hi).
    apply existsb_exists in Hall. destruct Hall as (j & Hj & E). apply Nat.eqb_eq in E. subst j. exact Hj.
Qed.

Lemma nat_list_eqb_eq : forall a b, nat_list_eqb a b = true -> a = b.
Proof.
  induction a as [|x a IH]; destruct b as [|y b]; cbn; intros H; try discriminate; [reflexivity|].
  apply andb_true_iff in H. destruct H as [H1 H2]. apply Nat.eqb_eq in H1. f_equal; auto.
Qed.

Lemma map_nth_seq : forall B (l : list B) d, map (fun i => nth i l d) (seq 0 (length l)) = l.
Proof.
  intros B l d. induction l as [|x l IH]; [reflexivity|].
  cbn [length seq map nth]. f_equal. rewrite <- seq_shift, map_map. exact IH.
Qed.

Lemma check_sound_l : forall v out, check_C06 v out = true ->
  let items := v_items v in
  let ty := v_ty (v_nth 4 v) in
  let L := Nat.max (v_nat (v_nth 3 v)) 1 in
  let bs := map (map (lookup items)) (v_batches (v_nth 0 out)) in
  Permutation (concat bs) items /\
  Forall (fun b => b <> []) bs /\
  Forall (fun b => 1 < length b -> limit isize ty b <= L) bs /\
  (v_bool (v_nth 0 v) = false -> v_bool (v_nth 1 v) = false ->
   concat bs = items /\
   forall i b b' x, nth_error bs i = Some b -> nth_error bs (S i) = Some (x :: b') ->
     L < limit isize ty (b ++ [x])).
Proof.
  intros v out H. cbn zeta. unfold check_C06 in H.
  set (items := v_items v) in *. set (ids := v_batches (v_nth 0 out)) in *.
  set (ty := v_ty (v_nth 4 v)) in *. set (L := Nat.max (v_nat (v_nth 3 v)) 1) in *.
  rewrite !andb_true_iff in H. destruct H as [[[[[_ Hperm] Hne] Hlim] _] Hplain].
  apply is_perm_ids_sound in Hperm.
  assert (Hconcat : concat (map (map (lookup items)) ids) = map (lookup items) (concat ids))
    by (symmetry; apply concat_map).
  assert (Hitems : map (lookup items) (seq 0 (length items)) = items).
  { transitivity (map (fun i => nth i items (0, 4000)) (seq 0 (length items))); [|apply map_nth_seq].
    apply map_ext_in. intros i Hi. apply in_seq in Hi. unfold lookup. apply nth_indep. lia. }
  split; [|split; [|split]].
  - rewrite Hconcat. apply (Permutation_map (lookup items)) in Hperm. rewrite Hitems in Hperm. exact Hperm.
  - apply Forall_forall. intros b Hb. apply in_map_iff in Hb. destruct Hb as (b0 & <- & Hb0).
    rewrite forallb_forall in Hne. specialize (Hne _ Hb0). destruct b0; [discriminate|cbn; congruence].
  - apply Forall_forall. intros b Hb Hlt. rewrite forallb_forall in Hlim. specialize (Hlim _ Hb).
    unfold limit_okb in Hlim. apply orb_true_iff in Hlim. destruct Hlim as [E|E].
    + apply Nat.leb_le in E. lia.
    + apply Nat.leb_le in E. exact E.
  - intros E1 E2. rewrite E1, E2 in Hplain. cbn [negb andb] in Hplain.
    apply andb_true_iff in Hplain. destruct Hplain as [Ho Hg]. apply nat_list_eqb_eq in Ho. split.
    + rewrite Hconcat, Ho. exact Hitems.
    + apply (greedyb_spec isize ty L _ Hg).
Qed.

(** the statements in the form they are pinned *)
Lemma batches_partition_l : forall (A : Type) (size : A -> nat) sort shuffle prefetch lim ty o (input : list A) bs,
  batches size sort shuffle prefetch lim ty o input = Ok bs -> Permutation (concat bs) input.
Proof. intros A size sort shuffle prefetch lim ty o input bs H. exact (proj1 (batches_props_l size _ _ _ _ _ _ _ _ H)). Qed.

Lemma batches_nonempty_l : forall (A : Type) (size : A -> nat) sort shuffle prefetch lim ty o (input : list A) bs,
  batches size sort shuffle prefetch lim ty o input = Ok bs -> Forall (fun b => b <> []) bs.
Proof. intros A size sort shuffle prefetch lim ty o input bs H. exact (proj1 (proj2 (batches_props_l size _ _ _ _ _ _ _ _ H))). Qed.

Lemma batches_limit_l : forall (A : Type) (size : A -> nat) sort shuffle prefetch lim ty o (input : list A) bs,
  batches size sort shuffle prefetch lim ty o input = Ok bs ->
  Forall (fun b => 1 < length b -> limit size ty b <= Nat.max lim 1) bs.
Proof. intros A size sort shuffle prefetch lim ty o input bs H. exact (proj2 (proj2 (batches_props_l size _ _ _ _ _ _ _ _ H))). Qed.

Lemma plain_order_l : forall (A : Type) (size : A -> nat) prefetch lim ty o (input : list A) bs,
  batches size false false prefetch lim ty o input = Ok bs -> concat bs = input.
Proof. intros A size prefetch lim ty o input bs H. exact (proj1 (plain_l size _ _ _ _ _ _ H)). Qed.

Lemma plain_greedy_l : forall (A : Type) (size : A -> nat) prefetch lim ty o (input : list A) bs,
  batches size false false prefetch lim ty o input = Ok bs ->
  forall i b b' x, nth_error bs i = Some b -> nth_error bs (S i) = Some (x :: b') ->
    Nat.max lim 1 < limit size ty (b ++ [x]).
Proof.
  intros A size prefetch lim ty o input bs H.
  exact (greedyb_spec size ty _ bs (proj2 (plain_l size _ _ _ _ _ _ H))).
Qed.

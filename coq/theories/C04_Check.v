(** C04: the executable property statement holds of the model's own output. *)
From TU Require Import Base C01_Model C01_Proofs C01_Check C04_Model C04_Proofs.
From Coq Require Import Lia ZifyBool ZifyN ZifyNat.
Open Scope N_scope.

Lemma v_n_rt x : v_n (n_v x) = x.
Proof. unfold v_n, n_v, v_z. apply N2Z.id. Qed.

Lemma v_bytes_rt l : v_bytes (bytes_v l) = l.
Proof. apply v_list_n_rt. Qed.

Lemma map_v_bytes_rt l : map v_bytes (map bytes_v l) = l.
Proof. rewrite map_map. induction l as [|x l IH]; cbn [map]; [reflexivity|]. rewrite v_bytes_rt, IH. reflexivity. Qed.

Lemma forall2b_map_r {A B} (f : A -> B -> bool) (g : A -> B) l :
  forall2b f l (map g l) = forallb (fun x => f x (g x)) l.
Proof. induction l as [|x l IH]; cbn; [reflexivity|]. rewrite IH. reflexivity. Qed.

Lemma forall2b_refl {A} (f : A -> A -> bool) l : (forall x, f x x = true) -> forall2b f l l = true.
Proof. intros H. induction l as [|x l IH]; cbn; [reflexivity|]. rewrite H, IH. reflexivity. Qed.

Lemma opt_bytes_is_rt o : opt_bytes_is (opt_v bytes_v o) o = true.
Proof. destruct o as [b|]; cbn [opt_v opt_bytes_is]; [|reflexivity]. rewrite v_bytes_rt. apply nlist_eqb_eq. reflexivity. Qed.

Lemma opt_str_res_is_rt o : opt_str_res_is (opt_v str_v o) o = true.
Proof. exact (opt_bytes_is_rt o). Qed.

Lemma all_ids_length t : length (all_ids t) = (N.to_nat (vocab_size t) + 8)%nat.
Proof. unfold all_ids. rewrite map_length, seq_length. reflexivity. Qed.

Lemma forall2b_combine {B C} (g : N * B -> C -> bool) (f2 : B -> C) : forall (l : list B) (a n : nat),
  (length l <= n)%nat ->
  (forall k x, nth_error l k = Some x -> g (N.of_nat (a + k), x) (f2 x) = true) ->
  forall2b g (combine (map N.of_nat (seq a n)) l) (map f2 l) = true.
Proof.
  induction l as [|x l IH]; intros a n Hn H; [destruct n; reflexivity|].
  destruct n as [|n]; [cbn in Hn; lia|]. cbn [seq map combine forall2b].
  rewrite <- (Nat.add_0_r a) at 1. rewrite (H O x eq_refl). cbn [andb].
  apply IH; [cbn in Hn; lia|]. intros k y Hk. replace (S a + k)%nat with (a + S k)%nat by lia. apply H. exact Hk.
Qed.

Lemma in_range_spec lo hi x : lo <= x < hi -> in_range lo hi x = true.
Proof. unfold in_range. lia. Qed.

Lemma forallb_range lo hi l : Forall (fun i => lo <= i < hi) l ->
  forallb (fun x => in_range lo hi (v_n x)) (map n_v l) = true.
Proof.
  induction 1 as [|x l Hx Hl IH]; cbn [map forallb]; [reflexivity|].
  rewrite v_n_rt, (in_range_spec _ _ _ Hx), IH. reflexivity.
Qed.

Local Opaque in_range.

Theorem check_run_l : forall v, check_C04 v (run_C04 v) = true.
Proof.
  intros v. unfold check_C04, run_C04. set (q := v_cfg4 v).
  destruct (build q) as [t|] eqn:Hb; [|reflexivity].
  destruct (wfb t && forallb scalars (k_sv t) && scalars (k_A t)) eqn:Hprem; [|reflexivity]. cbn [negb].
  apply andb_true_iff in Hprem as [Hprem HscA]. apply andb_true_iff in Hprem as [Hwf Hsc].
  apply wfb_spec in Hwf. apply forallb_Forall in Hsc.
  pose proof (build_Built _ _ Hb) as HB.
  destruct (special_range_l _ _ Hb) as (Hpad & Hpre & Hsuf & Hunk1 & Hunk2).
  unfold list_v. rewrite v_n_rt, map_v_bytes_rt, !map_length, all_ids_length.
  change (map N.of_nat (seq 0 (N.to_nat (vocab_size t) + 8))) with (all_ids t).
  repeat (apply andb_true_iff; split).
  - apply N.eqb_eq. apply vocab_len_l.
  - apply Nat.eqb_refl.
  - apply Nat.eqb_refl.
  - rewrite forall2b_map_r. apply forallb_forall. intros id _.
    rewrite (id_to_token_nth _ _ HB). apply opt_bytes_is_rt.
  - destruct (disjointb t) eqn:Hd; [|reflexivity]. apply disjointb_spec in Hd.
    unfold all_ids. apply forall2b_combine.
    + pose proof (vocab_len_l t). lia.
    + intros k tok Hk. cbn [fst snd Nat.add]. destruct (utf8_decode tok) as [s|] eqn:Ed; [|reflexivity].
      rewrite <- (Nat2N.id k) in Hk.
      rewrite (token_to_id_spec_l t (N.of_nat k) tok s HB Hwf Hd Hsc HscA Hk Ed). cbn. apply Z.eqb_refl.
  - unfold get_vocab, n_reg. rewrite Nat2N.id, skipn_app, skipn_all, Nat.sub_diag. cbn [skipn app].
    apply forall2b_refl. intros x. apply nlist_eqb_eq. reflexivity.
  - rewrite v_n_rt. apply in_range_spec. exact Hpad.
  - apply forallb_range. exact Hpre.
  - apply forallb_range. exact Hsuf.
  - destruct (kind_cases _ HB) as [Hk|[Hk|Hk]].
    + rewrite Hunk2 by (rewrite Hk; discriminate). cbn. rewrite Hk. reflexivity.
    + destruct (Hunk1 Hk) as (u & -> & Hu). cbn [opt_v]. rewrite v_n_rt. apply in_range_spec. exact Hu.
    + rewrite Hunk2 by (rewrite Hk; discriminate). cbn. rewrite Hk. reflexivity.
  - rewrite forall2b_map_r. apply forallb_forall. intros id _. destruct (id <? n_reg t) eqn:E; [|reflexivity].
    rewrite (decode_single_l t id HB HscA) by lia. rewrite vocab_nth_reg by lia. apply opt_str_res_is_rt.
Qed.

(** C12 float model: the binary64 results of [edit::distance], [edit::prefix_distance] and
    [edit::distances] (src/edit.rs), bit for bit.

    What the code computes (read from the source; nothing else touches a float):
      distance:         [d.last().copied().unwrap_or(0) as f64 / norm]
                        norm = [a_cs.len().max(b_cs.len()).max(1) as f64] when normalised, else the literal [1.0]
      prefix_distance:  [(min of the last row) as f64 / norm],  norm = [a_cs.len().max(1) as f64] or [1.0]
      distances:        [distance] element-wise
    [max]/[min] are taken on [usize] BEFORE the conversion ([as] binds tighter than [/]); the conversion
    [usize as f64] is round-to-nearest-even (exact below 2^53); one IEEE division.  So the float is
    [fdiv (of_Z num) (of_Z den)] for the UNREDUCED fraction [num # den] of the rational model
    (C12_Model.distance / prefix_distance; den = 1 when not normalised, and x / 1.0 = x).

    [f64] is Flocq's [binary_float 53 1024] (IEEE754.BinarySingleNaN); the operations are computed on
    [Z]/[positive]; nothing executable depends on [R].  A float crosses the val protocol as its fields
    [(k s m e)]: k = 0 zero, 1 finite non-zero with the canonical mantissa (value m * 2^e), 2 infinity,
    3 NaN; s = 1 for negative — [f64::to_bits] field by field.
    (The six base definitions are the ones of C13_Float.v, copied because C13 requires C12.)
    Definitions only. *)
From Coq Require Import ZArith List Bool QArith.
From Flocq Require Import Core IEEE754.BinarySingleNaN.
From TU Require Import Base C12_Model.
Import ListNotations.
Open Scope Z_scope.

Definition prec64 : Z := 53.
Definition emax64 : Z := 1024.
Definition Hprec64 : Prec_gt_0 prec64 := eq_refl.
Definition Hmax64 : Prec_lt_emax prec64 emax64 := eq_refl.
Definition f64 : Type := binary_float prec64 emax64.

Definition fdiv64 : f64 -> f64 -> f64 := @Bdiv prec64 emax64 Hprec64 Hmax64 mode_NE.
(** [n as f64] for an unsigned integer: round to nearest even *)
Definition of_Z64 (z : Z) : f64 := binary_normalize prec64 emax64 Hprec64 Hmax64 mode_NE z 0 false.
Definition f64_zero : f64 := B754_zero false.
Definition f64_one : f64 := of_Z64 1.
(** [x < y], [x <= y], [x == y] of Rust's f64 (all false when a NaN is involved; -0.0 == +0.0) *)
Definition flt64 (x y : f64) : bool := Bltb x y.
Definition fle64 (x y : f64) : bool := Bleb x y.
Definition feq64 (x y : f64) : bool := Beqb x y.

(** [num as f64 / den as f64] for the unreduced fraction [num # den] *)
Definition q_fl (q : Q) : f64 := fdiv64 (of_Z64 (Qnum q)) (of_Z64 (Zpos (Qden q))).
(** the quotient [d as f64 / m as f64] on integers (what the order theorem speaks about) *)
Definition quot_fl (d m : Z) : f64 := fdiv64 (of_Z64 d) (of_Z64 m).

Definition distance_fl (fl : flags) (normalized : bool) (a b : list cluster) : f64 :=
  q_fl (distance fl normalized a b).
Definition prefix_distance_fl (fl : flags) (normalized : bool) (a b : list cluster) : f64 :=
  q_fl (prefix_distance fl normalized a b).
Definition distances_fl (fl : flags) (normalized : bool) (la lb : list (list cluster)) : option (list f64) :=
  option_map (map q_fl) (distances fl normalized la lb).

(** * val glue *)
Definition sgn_v (s : bool) : val := I (if s then 1 else 0).
Definition fl_v (x : f64) : val :=
  match x with
  | B754_zero s => L [I 0; sgn_v s; I 0; I 0]
  | B754_finite s m e _ => L [I 1; sgn_v s; I (Zpos m); I e]
  | B754_infinity s => L [I 2; sgn_v s; I 0; I 0]
  | B754_nan => L [I 3; I 0; I 0; I 0]
  end.

(** the float model on an input of [run_C12]'s format: same shape, every number as float fields *)
Definition run_C12F (v : val) : val :=
  let fl := in_flags v in
  let nm := in_norm v in
  let a := in_a v in
  let b := in_b v in
  L [ fl_v (distance_fl fl nm a b);
      fl_v (prefix_distance_fl fl nm a b);
      match operations fl a b with Some ops => list_v edit_v ops | None => v_model_err end;
      opt_v (list_v fl_v) (distances_fl fl nm (in_la v) (in_lb v)) ].

(** from float fields to the exact rational [(num den)] that [check_C12]/[agree_C12] read
    ([den] = 0 marks NaN / infinity: every range and closeness test is then false) *)
Definition num_of_fl_v (x : val) : val :=
  match x with
  | L [I 0; I _; I _; I _] => L [I 0; I 1]
  | L [I 1; I s; I m; I e] =>
    let sm := if Z.eqb s 0 then m else - m in
    if (0 <=? e) then L [I (sm * 2 ^ e); I 1] else L [I sm; I (2 ^ (- e))]
  | L [I 2; I s; I _; I _] => L [I (if Z.eqb s 0 then 1 else -1); I 0]
  | _ => L [I 0; I 0]
  end.
Definition conv_out (out : val) : val :=
  match out with
  | L [d; pd; ops; ds] =>
    L [num_of_fl_v d; num_of_fl_v pd; ops;
       match ds with L [L l] => L [L (map num_of_fl_v l)] | _ => ds end]
  | _ => out
  end.

(** The executable statement on an output whose numbers are float fields: the clauses of [check_C12]
    (value = reference metric / divisor, normalised value in [0,1], prefix minimum, script, distances)
    are decided on the EXACT value of the returned binary64; NaN/infinity fail them. *)
Definition check_C12F (v out : val) : bool := check_C12 v (conv_out out).
(** Correspondence: bit for bit with the float model and, second line, [agree_C12] against the
    rational model (script exactly, unnormalised values exactly, normalised within 2^-40). *)
Definition agree_C12F (v m out : val) : bool :=
  val_eqb m out && agree_C12 v (run_C12 v) (conv_out out).

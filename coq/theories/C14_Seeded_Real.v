(** C14: the f64 comparison [r < p] stated over the rational numbers.  [q_draw k] = k / 2^53 is the
    value of a draw, [q_f64 m e] = m * 2^e the value of a finite non-negative binary64 probability;
    the model's integer test [k < thr (Fin m e)] is exactly [q_draw k < q_f64 m e].  (An IEEE-754
    comparison of two finite values is the comparison of the real numbers they denote: trusted.)
    Kept in a file of its own because QArith changes the open scopes of whoever imports it. *)
From TU Require Import RNG_Model RNG_Proofs.
From TU Require Import Base C14_Model C14_Seeded C14_Seeded_Proofs.
From Coq Require Import QArith Qpower Lia.
Open Scope Z_scope.

(* r = k / 2^53 and p = m * 2^e as rational numbers *)
Definition q_draw (k : Z) : Q := (inject_Z k / inject_Z D53)%Q.
Definition q_f64 (m : N) (e : Z) : Q := (inject_Z (Z.of_N m) * (2 # 1) ^ e)%Q.

Lemma two_pow_nonneg n : 0 <= n -> ((2 # 1) ^ n == inject_Z (2 ^ n))%Q.
Proof. intros H. symmetry. change (2 # 1)%Q with (inject_Z 2). apply Zpower_Qpower. exact H. Qed.

Lemma two_pow_neg n : n < 0 -> ((2 # 1) ^ n == / inject_Z (2 ^ (- n)))%Q.
Proof.
  intros H. replace n with (- (- n)) at 1 by lia. rewrite Qpower_opp. rewrite two_pow_nonneg by lia. reflexivity.
Qed.

Lemma pow2_pos n : 0 <= n -> 0 < 2 ^ n.
Proof. intros. apply Z.pow_pos_nonneg; lia. Qed.

Lemma thr_real_l k m e : k < thr (Fin m e) <-> (q_draw k < q_f64 m e)%Q.
Proof.
  rewrite thr_spec_l. unfold lt_real, q_draw, q_f64.
  assert (Hd : (inject_Z k / inject_Z D53 == k # 9007199254740992)%Q).
  { unfold Qdiv, Qinv, inject_Z, D53, Qeq. cbn [Qnum Qden Qmult]. lia. }
  rewrite Hd. clear Hd.
  destruct (Z_lt_le_dec e 0) as [He|He].
  - rewrite (two_pow_neg e He). pose proof (pow2_pos (- e) ltac:(lia)) as HR.
    destruct (2 ^ (- e)) as [|r|r] eqn:ER; try lia.
    unfold Qinv, inject_Z, Qmult, Qlt. cbn [Qnum Qden].
    destruct (Z_lt_le_dec (e + 53) 0) as [Hn|Hp].
    + rewrite (Z.max_r 0 (- (e + 53))) by lia. rewrite (Z.max_l 0 (e + 53)) by lia. change (2 ^ 0) with 1.
      assert (Hs : Z.pos r = 2 ^ (- (e + 53)) * 9007199254740992).
      { rewrite <- ER. replace (- e) with (- (e + 53) + 53) by lia. rewrite Z.pow_add_r by lia. reflexivity. }
      pose proof (pow2_pos (- (e + 53)) ltac:(lia)) as HS. set (S := 2 ^ (- (e + 53))) in *.
      rewrite Pos.mul_1_l, Hs. nia.
    + rewrite (Z.max_l 0 (- (e + 53))) by lia. rewrite (Z.max_r 0 (e + 53)) by lia. change (2 ^ 0) with 1.
      assert (Hs : 9007199254740992 = 2 ^ (e + 53) * Z.pos r).
      { rewrite <- ER, <- Z.pow_add_r by lia. replace (e + 53 + - e) with 53 by lia. reflexivity. }
      pose proof (pow2_pos (e + 53) Hp) as HS. set (S := 2 ^ (e + 53)) in *.
      rewrite Pos.mul_1_l. change (Z.pos 9007199254740992) with 9007199254740992. rewrite Hs. nia.
  - rewrite (two_pow_nonneg e He). pose proof (pow2_pos e He) as HR.
    rewrite (Z.max_l 0 (- (e + 53))) by lia. rewrite (Z.max_r 0 (e + 53)) by lia. change (2 ^ 0) with 1.
    rewrite Z.pow_add_r by lia. set (R := 2 ^ e) in *.
    unfold inject_Z, Qmult, Qlt. cbn [Qnum Qden]. change (2 ^ 53) with 9007199254740992. lia.
Qed.

(** C12 model: edit distance (src/edit.rs): [_calculate_edit_matrices],
    [distance], [prefix_distance], [operations], [distances].

    Characters are clusters (lists of code points, Base.v); the segmentation of
    both texts is an input ([use_graphemes] only selects which segmentation the
    harness supplies, so it is not a field of [flags]). A character is
    whitespace iff all its code points are ([cl_ws]); characters are equal iff
    their code-point lists are ([cl_eqb]).

    Definitions only.  Stable names (imported by C13):
      [flags] [Flags] [with_swap] [sid]            flag record
      [mop] [eop] [edit]                           matrix op, script op, (op, i, j)
      [cellv] [candidates] [pick]                  one DP cell
      [row0] [row_tail] [next_row] [rows_from] [matrix]
      [cell] [dist] [prefix_dist]                  unnormalised, in nat
      [norm_den] [pnorm_den] [distance] [prefix_distance]   over Q, flag [normalized]
      [backtrace] [operations]                     option = panic/underflow/fuel never happens
      [distances]                                  None = the Err of the length check
      [Dc] [Dref]                                  recursive reference on reversed prefixes
      [Align]                                      inductive reference metric
      [apply_script] [sortedb]                     what a script means *)
From TU Require Import Base.
From Coq Require Import QArith.
Open Scope nat_scope.

(** ** Flags.  [sid] = spaces_insert_delete_only. *)
Record flags := Flags { with_swap : bool; sid : bool }.

(** [EditOp] of the op matrix (incl. the initial value [None]) *)
Inductive mop := MNone | MKeep | MInsert | MDelete | MReplace | MSwap.
(** [EditOperation] of the returned script *)
Inductive eop := EInsert | EDelete | EReplace | ESwap.
(** script entry [(op, i, j)]: position in [a], position in [b] *)
Definition edit := (eop * nat * nat)%type.

(** one matrix cell: [(d[i*cols+j], ops[i*cols+j])] *)
Definition cellv := (nat * mop)%type.
Definition cell0 : cellv := (0, MNone).

(** replacement of [x] by [y] allowed (only asked when [x <> y]) *)
Definition sub_ok (fl : flags) (x y : cluster) : bool :=
  negb (sid fl) || (negb (cl_ws x) && negb (cl_ws y)).
(** transposition allowed: [x] = a[i-1], [x2] = a[i-2], [y] = b[j-1], [y2] = b[j-2] *)
Definition swap_ok (fl : flags) (x x2 y y2 : cluster) : bool :=
  with_swap fl && cl_eqb x y2 && cl_eqb x2 y
  && (negb (sid fl) || (negb (cl_ws x) && negb (cl_ws x2))).

(** the [costs] vector in the code's push order: Delete, Insert, Keep | Replace, Swap.
    [up] = d[i-1][j], [left] = d[i][j-1], [diag] = d[i-1][j-1],
    [sw] = Some d[i-2][j-2] iff the swap branch is taken. *)
Definition candidates (fl : flags) (x y : cluster) (up left diag : nat) (sw : option nat) : list cellv :=
  [(S up, MDelete); (S left, MInsert)]
  ++ (if cl_eqb x y then [(diag, MKeep)]
      else if sub_ok fl x y then [(S diag, MReplace)] else [])
  ++ (match sw with Some d2 => [(S d2, MSwap)] | None => [] end).

(** [Iterator::min_by]: the FIRST minimal element (a later element replaces the
    current one only when strictly smaller). *)
Fixpoint pick_from (c : cellv) (l : list cellv) : cellv :=
  match l with
  | [] => c
  | c' :: l' => pick_from (if fst c' <? fst c then c' else c) l'
  end.
Definition pick (l : list cellv) : cellv :=
  match l with [] => cell0 | c :: l' => pick_from c l' end.

(** row 0: d[0] = 0 / Keep, d[j] = j / Insert *)
Definition row0 (b : list cluster) : list cellv :=
  (0, MKeep) :: map (fun j => (j, MInsert)) (seq 1 (length b)).

(** cells [j ..] of row [i] (1 <= j). [ap] = Some a[i-2] iff i > 1; [bp] = Some b[j-2]
    iff j > 1; [prev2], [prev] = rows i-2, i-1 (complete); [left] = d[i][j-1]. *)
Fixpoint row_tail (fl : flags) (ap : option cluster) (x : cluster) (bp : option cluster)
         (b : list cluster) (j : nat) (prev2 prev : list cellv) (left : nat) : list cellv :=
  match b with
  | [] => []
  | y :: b' =>
    let up := fst (nth j prev cell0) in
    let diag := fst (nth (j - 1) prev cell0) in
    let sw := match ap, bp with
              | Some x2, Some y2 =>
                if swap_ok fl x x2 y y2 then Some (fst (nth (j - 2) prev2 cell0)) else None
              | _, _ => None
              end in
    let c := pick (candidates fl x y up left diag sw) in
    c :: row_tail fl ap x (Some y) b' (S j) prev2 prev (fst c)
  end.

(** row [i] >= 1: d[i*cols] = i / Delete, then the inner loop over b *)
Definition next_row (fl : flags) (ap : option cluster) (x : cluster) (b : list cluster)
           (i : nat) (prev2 prev : list cellv) : list cellv :=
  (i, MDelete) :: row_tail fl ap x None b 1 prev2 prev i.

(** rows [i ..] for the remaining characters of [a] *)
Fixpoint rows_from (fl : flags) (ap : option cluster) (a b : list cluster) (i : nat)
         (prev2 prev : list cellv) : list (list cellv) :=
  match a with
  | [] => []
  | x :: a' =>
    let r := next_row fl ap x b i prev2 prev in
    r :: rows_from fl (Some x) a' b (S i) prev r
  end.

(** both matrices, as a list of [length a + 1] rows of [length b + 1] cells *)
Definition matrix (fl : flags) (a b : list cluster) : list (list cellv) :=
  row0 b :: rows_from fl None a b 1 [] (row0 b).

Definition cell (m : list (list cellv)) (i j : nat) : cellv := nth j (nth i m []) cell0.

(** [d.last()] *)
Definition dist (fl : flags) (a b : list cluster) : nat :=
  fst (cell (matrix fl a b) (length a) (length b)).

Definition min_list (d : nat) (l : list nat) : nat := fold_right Nat.min d l.
(** minimum of the last row *)
Definition prefix_dist (fl : flags) (a b : list cluster) : nat :=
  match map fst (nth (length a) (matrix fl a b) []) with
  | [] => 0
  | d :: r => min_list d r
  end.

(** ** Normalisation over Q, repaired (D5): the divisor is max(len, 1). *)
Definition norm_den (normalized : bool) (a b : list cluster) : positive :=
  if normalized then Pos.of_nat (Nat.max (Nat.max (length a) (length b)) 1) else 1%positive.
Definition pnorm_den (normalized : bool) (a : list cluster) : positive :=
  if normalized then Pos.of_nat (Nat.max (length a) 1) else 1%positive.
Definition distance (fl : flags) (normalized : bool) (a b : list cluster) : Q :=
  Qmake (Z.of_nat (dist fl a b)) (norm_den normalized a b).
Definition prefix_distance (fl : flags) (normalized : bool) (a b : list cluster) : Q :=
  Qmake (Z.of_nat (prefix_dist fl a b)) (pnorm_den normalized a).

(** [distances]: [None] is the [Err] of the length check *)
Fixpoint zip {A B} (l : list A) (r : list B) : list (A * B) :=
  match l, r with x :: l', y :: r' => (x, y) :: zip l' r' | _, _ => [] end.
Definition distances (fl : flags) (normalized : bool) (la lb : list (list cluster)) : option (list Q) :=
  if Nat.eqb (length la) (length lb)
  then Some (map (fun p => distance fl normalized (fst p) (snd p)) (zip la lb))
  else None.

(** ** Backtrace.  Walk order = push order of the code; [operations] reverses.
    [None]: the [panic!] on [EditOp::None], a [usize] underflow of [i -= ..] /
    [j -= ..], or fuel exhaustion; the theorems show it is never produced. *)
Fixpoint backtrace (fuel : nat) (m : list (list cellv)) (i j : nat) : option (list edit) :=
  match fuel with
  | 0 => None
  | S f =>
    match i, j with
    | 0, 0 => Some []
    | _, _ =>
      match snd (cell m i j) with
      | MNone => None
      | MKeep => match i, j with S i', S j' => backtrace f m i' j' | _, _ => None end
      | MInsert => match j with
                   | S j' => option_map (cons (EInsert, i, j')) (backtrace f m i j')
                   | 0 => None end
      | MDelete => match i with
                   | S i' => option_map (cons (EDelete, i', j)) (backtrace f m i' j)
                   | 0 => None end
      | MReplace => match i, j with
                    | S i', S j' => option_map (cons (EReplace, i', j')) (backtrace f m i' j')
                    | _, _ => None end
      | MSwap => match i, j with
                 | S (S i'), S (S j') => option_map (cons (ESwap, i', j')) (backtrace f m i' j')
                 | _, _ => None end
      end
    end
  end.

Definition operations (fl : flags) (a b : list cluster) : option (list edit) :=
  option_map (@rev edit) (backtrace (length a + length b + 1) (matrix fl a b) (length a) (length b)).

(** ** Reference 1: the recurrence on reversed prefixes (head = last character of
    the prefix), with the same candidate order, so that it also names the op. *)
Fixpoint Dc (fl : flags) (ra : list cluster) : list cluster -> cellv :=
  match ra with
  | [] => fun rb => match rb with [] => (0, MKeep) | _ :: _ => (length rb, MInsert) end
  | x :: ra' =>
    fix Db (rb : list cluster) : cellv :=
      match rb with
      | [] => (S (length ra'), MDelete)
      | y :: rb' =>
        let sw := match ra', rb' with
                  | x2 :: ra'', y2 :: rb'' =>
                    if swap_ok fl x x2 y y2 then Some (fst (Dc fl ra'' rb'')) else None
                  | _, _ => None
                  end in
        pick (candidates fl x y (fst (Dc fl ra' rb)) (fst (Db rb')) (fst (Dc fl ra' rb')) sw)
      end
  end.
(** reference distance of two (forward) character lists *)
Definition Dref (fl : flags) (a b : list cluster) : nat := fst (Dc fl (rev a) (rev b)).

(** ** Reference 2: alignments.  [Align fl a b n]: [a] can be turned into [b] by an
    alignment of cost [n] built from Keep (0), Insert, Delete, Replace (1 each;
    Replace forbidden when whitespace is involved under [sid]) and Swap of two
    adjacent characters (1; only with [with_swap]; forbidden with whitespace
    under [sid]).  No position is edited twice: Levenshtein for
    [with_swap = false], optimal string alignment for [with_swap = true]. *)
Definition swap_ws_ok (fl : flags) (x y : cluster) : bool :=
  negb (sid fl) || (negb (cl_ws x) && negb (cl_ws y)).
Inductive Align (fl : flags) : list cluster -> list cluster -> nat -> Prop :=
| A_nil : Align fl [] [] 0
| A_keep x a b n : Align fl a b n -> Align fl (x :: a) (x :: b) n
| A_ins y a b n : Align fl a b n -> Align fl a (y :: b) (S n)
| A_del x a b n : Align fl a b n -> Align fl (x :: a) b (S n)
| A_rep x y a b n : sub_ok fl x y = true -> Align fl a b n -> Align fl (x :: a) (y :: b) (S n)
| A_swap x y a b n : with_swap fl = true -> swap_ws_ok fl x y = true ->
                     Align fl a b n -> Align fl (x :: y :: a) (y :: x :: b) (S n).

(** ** What a script means.  [apply_script fl ops a b i j]: [a], [b] are the
    suffixes from positions [i], [j]; characters before the next op are kept
    (they must be equal in both texts); each op must sit exactly where the walk
    is, and must be permitted by the flags.  [true] iff the script, applied to
    [a], produces exactly [b] (inserted / replacing characters are read from
    [b] at the op's own [j]). *)
Fixpoint all_kept (a b : list cluster) : bool :=
  match a, b with
  | [], [] => true
  | x :: a', y :: b' => cl_eqb x y && all_kept a' b'
  | _, _ => false
  end.

Fixpoint keep_n (n : nat) (a b : list cluster) : option (list cluster * list cluster) :=
  match n with
  | 0 => Some (a, b)
  | S n' => match a, b with
            | x :: a', y :: b' => if cl_eqb x y then keep_n n' a' b' else None
            | _, _ => None
            end
  end.

Fixpoint apply_script (fl : flags) (ops : list edit) (a b : list cluster) (i j : nat) : bool :=
  match ops with
  | [] => all_kept a b
  | (o, pi, pj) :: ops' =>
    (i <=? pi) && (j <=? pj) && Nat.eqb (pi - i) (pj - j) &&
    match keep_n (pi - i) a b with
    | None => false
    | Some (a1, b1) =>
      match o, a1, b1 with
      | EInsert, _, _ :: b' => apply_script fl ops' a1 b' pi (S pj)
      | EDelete, _ :: a', _ => apply_script fl ops' a' b1 (S pi) pj
      | EReplace, x :: a', y :: b' => sub_ok fl x y && apply_script fl ops' a' b' (S pi) (S pj)
      | ESwap, x2 :: x :: a', y2 :: y :: b' =>
        swap_ok fl x x2 y y2 && apply_script fl ops' a' b' (S (S pi)) (S (S pj))
      | _, _, _ => false
      end
    end
  end.
Definition script_ok (fl : flags) (ops : list edit) (a b : list cluster) : bool :=
  apply_script fl ops a b 0 0.

(** positions non-decreasing in both components *)
Fixpoint sortedb (ops : list edit) : bool :=
  match ops with
  | (_, i1, j1) :: (((_, i2, j2) :: _) as r) => (i1 <=? i2) && (j1 <=? j2) && sortedb r
  | _ => true
  end.

(** ** val glue.
    input  = (g swap sid norm a b na nb)   a, b cluster lists (real CharString
             segmentation; g only recorded); [distances] is called on the first
             [na] elements of [a;b;a] and the first [nb] of [b;a;b] (na, nb <= 3), or on large
             alternating batches (see [batch_list])
    output = (dist pdist ops dists)  dist, pdist: rationals (num den) (the
             implementation's f64 converted exactly; den = 0 for NaN/inf);
             ops: list of (op i j), op 0..3 = Insert Delete Replace Swap;
             dists: option of a list of rationals *)
Definition v_clusters (v : val) : list cluster := v_list (v_list v_n) v.
Definition eop_v (o : eop) : val :=
  I (match o with EInsert => 0 | EDelete => 1 | EReplace => 2 | ESwap => 3 end)%Z.
Definition v_eop (v : val) : eop :=
  match v_z v with 0%Z => EInsert | 1%Z => EDelete | 2%Z => EReplace | _ => ESwap end.
Definition edit_v (e : edit) : val :=
  match e with (o, i, j) => L [eop_v o; nat_v i; nat_v j] end.
Definition v_edit (v : val) : edit := (v_eop (v_nth 0 v), v_nat (v_nth 1 v), v_nat (v_nth 2 v)).
Definition q_v (q : Q) : val := L [I (Qnum q); I (Zpos (Qden q))].
(** a rational read from a val: (num, den) in Z, den = 0 marks NaN/inf *)
Definition v_zq (v : val) : Z * Z := (v_z (v_nth 0 v), v_z (v_nth 1 v)).

Definition in_flags (v : val) : flags := Flags (v_bool (v_nth 1 v)) (v_bool (v_nth 2 v)).
Definition in_norm (v : val) : bool := v_bool (v_nth 3 v).
Definition in_a (v : val) : list cluster := v_clusters (v_nth 4 v).
Definition in_b (v : val) : list cluster := v_clusters (v_nth 5 v).
(** the two lists [distances] is called on: up to three elements they are prefixes of [a;b;a] / [b;a;b];
    a count above three asks for a LARGE batch whose elements alternate between the whole text and its first
    character (big and small DP matrices next to each other, more pairs than worker threads) *)
Definition batch_list (x y : list cluster) (n : nat) : list (list cluster) :=
  if n <=? 3 then firstn n [x; y; x]
  else map (fun k => if Nat.even k then x else firstn 1 x) (seq 0 n).
Definition in_la (v : val) : list (list cluster) := batch_list (in_a v) (in_b v) (v_nat (v_nth 6 v)).
Definition in_lb (v : val) : list (list cluster) := batch_list (in_b v) (in_a v) (v_nat (v_nth 7 v)).

(** model error (never produced, see [ops_total]) *)
Definition v_model_err : val := L [I (-1)%Z].

Definition run_C12 (v : val) : val :=
  let fl := in_flags v in
  let nm := in_norm v in
  let a := in_a v in
  let b := in_b v in
  L [ q_v (distance fl nm a b);
      q_v (prefix_distance fl nm a b);
      match operations fl a b with Some ops => list_v edit_v ops | None => v_model_err end;
      opt_v (list_v q_v) (distances fl nm (in_la v) (in_lb v)) ].

(** *** comparing an implementation float (exact rational n/d, d > 0) with a model
    rational p/q: exactly when not normalised (then q = 1 and the float is an
    integer), within relative 2^-40 when normalised. *)
Definition q_close (exact : bool) (impl : Z * Z) (p : Z) (q : positive) : bool :=
  let '(n, d) := impl in
  (0 <? d)%Z &&
  (if exact then Z.eqb (n * Zpos q) (p * d)
   else (Z.abs (n * Zpos q - p * d) * 2 ^ 40 <=? Z.abs (p * d))%Z).
Definition q_close_q (exact : bool) (impl : Z * Z) (m : Q) : bool :=
  q_close exact impl (Qnum m) (Qden m).

(** shape of an output: 4 fields, two rationals, a list, an option *)
Definition shape_ok (out : val) : bool :=
  match out with
  | L [L [I _; I _]; L [I _; I _]; L _; L _] => true
  | _ => false
  end.
Definition edit_shape (v : val) : bool :=
  match v with L [I o; I i; I j] => (0 <=? o)%Z && (o <=? 3)%Z && (0 <=? i)%Z && (0 <=? j)%Z | _ => false end.

(** minimum over all prefixes of [b] of the distance *)
Definition prefix_ref (fl : flags) (a b : list cluster) : nat :=
  min_list (dist fl a []) (map (fun k => dist fl a (firstn k b)) (seq 1 (length b))).

Fixpoint all2 {A B} (f : A -> B -> bool) (l : list A) (r : list B) : bool :=
  match l, r with
  | [], [] => true
  | x :: l', y :: r' => f x y && all2 f l' r'
  | _, _ => false
  end.

(** The executable statement of the property, evaluated on an output
    (normally the implementation's).  [dist] is the reference metric by the
    theorems [dist_achieved] / [dist_minimal] (the naive recurrence [Dref] is
    exponential, so the executable statement uses the matrix); the prefix
    clause recomputes a full distance per prefix of [b] and the script clause
    executes the script. *)
Definition check_C12 (v out : val) : bool :=
  let fl := in_flags v in
  let nm := in_norm v in
  let a := in_a v in
  let b := in_b v in
  let d := v_zq (v_nth 0 out) in
  let pd := v_zq (v_nth 1 out) in
  let ops := v_list v_edit (v_nth 2 out) in
  let ds := v_opt (v_list v_zq) (v_nth 3 out) in
  let ex := negb nm in
  shape_ok out
  (* 1: distance = reference metric (divided by the longer length, at least 1, when normalised) *)
  && q_close ex d (Z.of_nat (dist fl a b)) (norm_den nm a b)
  (* 2: normalised value in [0,1] *)
  && (if nm then (0 <=? fst d)%Z && (fst d <=? snd d)%Z else true)
  (* 3: prefix distance = minimum over the prefixes of b *)
  && q_close ex pd (Z.of_nat (prefix_ref fl a b)) (pnorm_den nm a)
  (* 4: the script is well-formed, sorted, transforms a into b, and has length = distance *)
  && forallb edit_shape (match v_nth 2 out with L l => l | _ => [] end)
  && sortedb ops
  && script_ok fl ops a b
  && Nat.eqb (length ops) (dist fl a b)
  (* 5: distances = pointwise distance, Err exactly on a length mismatch *)
  && (if Nat.eqb (length (in_la v)) (length (in_lb v))
      then match ds with
           | Some l => all2 (fun x p => q_close ex x (Z.of_nat (dist fl (fst p) (snd p)))
                                                (norm_den nm (fst p) (snd p)))
                            l (zip (in_la v) (in_lb v))
           | None => false
           end
      else match ds with None => true | Some _ => false end).

(** Correspondence relation: model output [m] vs implementation output [i]:
    the script exactly (tie-breaking included), the unnormalised numbers
    exactly, the normalised ones within relative 2^-40 (f64 rounding is outside
    the model), the [distances] error exactly. *)
Definition q_close_v (exact : bool) (iv mv : val) : bool :=
  q_close exact (v_zq iv) (v_z (v_nth 0 mv)) (Z.to_pos (v_z (v_nth 1 mv))).
Definition agree_C12 (inp m i : val) : bool :=
  let ex := negb (in_norm inp) in
  shape_ok i
  && q_close_v ex (v_nth 0 i) (v_nth 0 m)
  && q_close_v ex (v_nth 1 i) (v_nth 1 m)
  && val_eqb (v_nth 2 m) (v_nth 2 i)
  && match v_nth 3 m, v_nth 3 i with
     | L [L ms], L [L is] => all2 (q_close_v ex) is ms
     | L [], L [] => true
     | _, _ => false
     end.

(** C15 — pinned statements about the SEEDED model: [edit_word] as the function of the generator state
    it is. Nothing but statements, [exact], assumption audits and examples.

    Vocabulary (C15_Seeded.v): [wcfg] = the configuration of C15_Model with an f64 weight
    ([RNG_Model.f64w]) per edit string instead of the flag "weight > 0"; [erase wc] the configuration of
    the relational model; [edit_word_seeded wc cd cs w ex st] = [SOk k st'] when the call makes edit [k]
    and leaves the generator in [st'] (the draws are RNG_Model's [random_range] / [WeightedIndex<f64>]
    in the order src/corrupt.rs makes them); [wf st] = every buffered word of the generator is below 2^32
    (holds of [seed_from_u64 seed], kept by every sampler); [wtabs_ok wc] = every weight is a canonical
    non-negative finite binary64 value and every entry's total is a normal number;
    [edit_draws] = the sampler calls the call makes as an RNG_Model script; [skip n] = n 32-bit words
    consumed; [chain_seeded] = k calls threading word, exclusion set and generator;
    [spell_word] = what corrupt_spelling does with one word. *)
From TU Require Import RNG_Model RNG_Proofs.
From TU Require Import Base C15_Model C15_Proofs C15_Apply C15_Check C15_Chain.
From TU Require Import C15_Seeded C15_SeededFloat C15_SeededProofs C15_SeededCheck.
From Coq Require Import Lia.

(** seeded_in_outcomes: for EVERY generator state the seeded call returns an element of the outcome
    set of the relational model — so [one_edit], [edit_shape], [excluded_untouched], [unedited_kept],
    [edit_written], [excl_reindexed], [edit_consumes] (C15_Props) hold of what the seeded function
    returns; the edit it makes is a valid one *)
Theorem seeded_in_outcomes : forall wc cd cs w ex st k st',
  wf st -> wtabs_ok wc = true ->
  edit_word_seeded wc cd cs w ex st = SOk k st' ->
  wf st' /\ valid_ed (erase wc) w ex k /\
  exists l, outcomes (erase wc) cd cs w ex = Some l /\ In (apply_word k w, apply_excl k ex) l.
Proof. exact seeded_in_outcomes_l. Qed.
Print Assumptions seeded_in_outcomes.

(** seeded_total: on well-formed tables the call never faults (no empty range, no provider fault,
    no "invalid weights" panic), for every state; the word must be shorter than 2^64 - 1 *)
Theorem seeded_total : forall wc cd cs w ex st,
  wf st -> wtabs_ok wc = true -> (N.of_nat (S (length w)) < p64)%N ->
  exists k st', edit_word_seeded wc cd cs w ex st = SOk k st'.
Proof. exact seeded_total_l. Qed.
Print Assumptions seeded_total.

(** seeded_draws: the generator advances by exactly the sampler calls the call makes — none when no
    kind is enabled, otherwise the kind, then (if the kind has a candidate) the candidate, then (insert
    and replace) the weighted choice: at most three *)
Theorem seeded_draws : forall wc cd cs w ex st k st',
  edit_word_seeded wc cd cs w ex st = SOk k st' ->
  snd (run_calls (edit_draws wc cd cs w ex st) st) = st' /\
  length (edit_draws wc cd cs w ex st) <= 3 /\
  (kinds_of wc = [] <-> edit_draws wc cd cs w ex st = []).
Proof. exact seeded_draws_l. Qed.
Print Assumptions seeded_draws.

(** ... in 32-bit words of the ChaCha stream: none without an enabled kind, else between 1 and 6 *)
Theorem seeded_words : forall wc cd cs w ex st k st',
  (N.of_nat (S (length w)) <= mask32)%N ->
  edit_word_seeded wc cd cs w ex st = SOk k st' ->
  exists n, st' = skip n st /\ n <= 6 /\ (kinds_of wc = [] -> n = 0) /\ (kinds_of wc <> [] -> 1 <= n).
Proof. exact seeded_words_l. Qed.
Print Assumptions seeded_words.

(** seeded_set_ext: the exclusion set is used as a SET — two lists with the same elements (any order,
    any repetitions: what iterating a HashSet can produce) give the same edit and the same generator
    state, and the returned exclusion lists have the same elements: hash iteration order cannot
    influence a draw of [edit_word] *)
Theorem seeded_set_ext : forall wc cd cs w ex ex2 st,
  (forall x, In x ex <-> In x ex2) ->
  edit_word_seeded wc cd cs w ex st = edit_word_seeded wc cd cs w ex2 st /\
  forall k x, In x (apply_excl k ex) <-> In x (apply_excl k ex2).
Proof. intros wc cd cs w ex ex2 st H. split; [apply seeded_set_ext_l; exact H|intros k; apply apply_excl_ext; exact H]. Qed.
Print Assumptions seeded_set_ext.

(** chain_seeded_chain: k chained calls from the seed are a [chain] of the relational model, so
    [chain_inv] and [chain_fresh] hold of them: the exclusion set stays inside the word, and what is
    still unprotected is original text in original order *)
Theorem chain_seeded_chain : forall wc pf n w ex st w' ex' st',
  wf st -> wtabs_ok wc = true ->
  chain_seeded wc pf n w ex st = Some (w', ex', st') ->
  wf st' /\ chain (erase wc) n (w, ex) (w', ex') /\
  (in_range w ex -> in_range w' ex') /\ subseq (unprot w' ex') (unprot w ex).
Proof. exact chain_seeded_props_l. Qed.
Print Assumptions chain_seeded_chain.

(** chain_seeded_threads: a + b edits = a edits, then b edits from the word, the exclusion set and the
    GENERATOR STATE the first a left behind *)
Theorem chain_seeded_threads : forall wc pf a b w ex st,
  chain_seeded wc pf (a + b) w ex st =
  match chain_seeded wc pf a w ex st with
  | Some (w1, ex1, st1) => chain_seeded wc pf b w1 ex1 st1
  | None => None
  end.
Proof. exact chain_seeded_split. Qed.
Print Assumptions chain_seeded_threads.

(** spell_word_chain: what corrupt_spelling (artificial mode) does with one word, from any state: the
    word unchanged, or the end of a chain of 1 .. max 1 |w| calls from the empty exclusion set (dropped
    when it became empty) *)
Theorem spell_word_chain : forall wc pf pw pc w st o st',
  wf st -> wtabs_ok wc = true ->
  spell_word wc pf pw pc w st = Some (o, st') ->
  wf st' /\
  (o = Some w \/
   exists n w' ex', 1 <= n <= Nat.max 1 (length w) /\ chain (erase wc) n (w, []) (w', ex') /\
                    o = match concat w' with [] => None | _ => Some w' end).
Proof. exact C15_SeededProofs.spell_word_chain. Qed.
Print Assumptions spell_word_chain.

(** spell_seeded_spec: the closure corrupt_spelling returns (artificial mode), for every seed, text,
    dictionary tables and pair of probabilities: each word of the text is kept, or replaced by the end
    of a chain of 1 .. max 1 |w| calls, or dropped when that end is empty; nothing else happens *)
Theorem spell_seeded_spec : forall wc pf pw pc seed ws l,
  wtabs_ok wc = true -> spell_seeded wc pf pw pc seed ws = Some l ->
  exists os, Forall2 (word_result wc) ws os /\ l = keep_some os.
Proof. exact C15_SeededProofs.spell_seeded_spec. Qed.
Print Assumptions spell_seeded_spec.

(** weighted_sample_pos: [WeightedIndex::<f64>::new(ws).sample(rng)] names a POSITIVE weight, for every
    generator state, when the weights are canonical binary64 values and the total is normal
    (listed as not proved in notes/RNG.md) *)
Theorem weighted_sample_pos : forall ws st i total st',
  wf st -> weights_ok ws = true ->
  weighted_sample_f ws st = inr (i, total, st') -> fpos (nth i ws FNaN) = true.
Proof. exact weighted_sample_f_pos. Qed.
Print Assumptions weighted_sample_pos.

(** uniform_new_noop: [UniformFloat::<f64>::new(0.0, high)] keeps scale = high: the loop of
    [new_bounded] never iterates (tested, not proved, in notes/RNG.md) *)
Theorem uniform_new_noop : forall M E, fcan M E -> new_bounded 4 (Fin M E) (Fin M E) = Some (Fin M E).
Proof. exact new_bounded_noop. Qed.
Print Assumptions uniform_new_noop.

(** fround_upper: rounding to nearest (RNG_Model's binary64 rounding) never passes a representable
    upper bound, and never overflows below one *)
Theorem fround_upper : forall m e My Ey,
  (My < t53)%N -> (emin <= Ey <= 971)%Z -> dle m e My Ey ->
  exists q e2, fround m e = Fin q e2 /\ dle q e2 My Ey /\ fcan q e2.
Proof.
  intros m e My Ey H1 H2 H3. destruct (fround_le m e My Ey H1 H2 H3) as (q & e2 & Hf & Hd).
  exists q, e2. split; [exact Hf|]. split; [exact Hd|]. eapply fround_canon; exact Hf.
Qed.
Print Assumptions fround_upper.

(** seeded_subnormal_refuted: without the normal-total premise [seeded_in_outcomes] is FALSE of the
    faithful model (and of rand: notes/RNG.md): weights [5e-324, 0.0], seed 2 — the sample rounds up
    to the total and the zero-weight edit is returned, which the relational model excludes *)
Definition wc_sub : wcfg :=
  {| wk_ins := true; wk_del := false; wk_rep := false; wk_swap := false; wfull_del := false;
     witab := [(bow, eow, [([[120]%N], Fin 1 emin); ([[121]%N], Fin 0 emin)])]; wrtab := [] |}.
Theorem seeded_subnormal_refuted : exists k st',
  edit_word_seeded wc_sub [] [] [] [] (seed_from_u64 2) = SOk k st' /\
  forallb (fun en : wins_entry => forallb fcanon (map snd (snd en))) (witab wc_sub) = true /\
  forall l, choices (erase wc_sub) [] [] [] [] = Some l -> ~ In k l.
Proof.
  eexists _, _. split; [vm_compute; reflexivity|]. split; [vm_compute; reflexivity|].
  intros l H. vm_compute in H. injection H as <-. intros [E|[]]. discriminate E.
Qed.
Print Assumptions seeded_subnormal_refuted.

(** flags_cfg: the input's flags "weight > 0" are the signs of its weights iff the relational
    configuration the old theorems speak about is the erased weighted one *)
Theorem flags_cfg : forall v, flags_ok v = true -> v_cfg v = erase (v_wcfg v).
Proof. exact C15_SeededCheck.flags_cfg. Qed.
Print Assumptions flags_cfg.

(** exact_implies_member: an implementation output that passes the EXACT line (every call of the chain
    equals the seeded model's, the generator ends at the same position) passes the chain clause of the
    relational line: inside the domain the exact correspondence subsumes membership *)
Theorem exact_implies_member : forall v pv ch ipos,
  wtabs_ok (v_wcfg v) = true -> is_e2e v = false ->
  agree_exact v (L [L [pv; L ch]; ipos]) = true ->
  all2 (step_agree false (v_cfg v)) (v_steps v) ch = true.
Proof. exact exact_member_l. Qed.
Print Assumptions exact_implies_member.

(** * Non-vacuity and known answers *)
(** the tables of [c_ex] (C15_Props) with weights: "x" 1.0, "" 2.0 / "yz" 3.0, "q" 0.0 / "q" 1.0 / "" 1.0 *)
Definition wc_ex : wcfg :=
  {| wk_ins := true; wk_del := true; wk_rep := true; wk_swap := true; wfull_del := false;
     witab := [(bow, [97]%N, [([[120]%N], Fin 4503599627370496 (-52)); ([], Fin 4503599627370496 (-51))]);
               ([98]%N, eow, [([[121]%N; [122]%N], Fin 6755399441055744 (-51)); ([[113]%N], Fin 0 emin)])];
     wrtab := [(bow, [97]%N, [98]%N, [([[113]%N], Fin 4503599627370496 (-52))]);
               ([97]%N, [98]%N, eow, [([], Fin 4503599627370496 (-52))])] |}.

Example wtabs_ok_witness :
  wtabs_ok wc_ex = true /\
  erase wc_ex =
  {| k_ins := true; k_del := true; k_rep := true; k_swap := true; full_del := false;
     itab := [(bow, [97]%N, [([[120]%N], true); ([], true)]);
              ([98]%N, eow, [([[121]%N; [122]%N], true); ([[113]%N], false)])];
     rtab := [(bow, [97]%N, [98]%N, [([[113]%N], true)]); ([97]%N, [98]%N, eow, [([], true)])] |}.
Proof. split; vm_compute; reflexivity. Qed.

(** the premises of the theorems are met by every seed *)
Example wf_witness : forall seed, wf (seed_from_u64 seed).
Proof. exact wf_seed. Qed.

(** known answers (the real crate, harness `c15 run`): "ab" with position 1 protected, seed 7, three
    chained calls: insert "x" at 0; delete 'a'; unchanged — 7 words of the ChaCha stream consumed *)
Example seeded_chain_witness :
  chain_seeded wc_ex (fun w => (map (fun _ => true) w, map (fun _ => true) (tl w))) 3 [[97]; [98]]%N [1] (seed_from_u64 7)
  = Some ([[120]; [98]]%N, [1; 0],
          skip 7 (seed_from_u64 7)).
Proof. vm_compute. reflexivity. Qed.

Example seeded_draws_witness :
  edit_draws wc_ex [true; true] [true] [[97]; [98]]%N [1] (seed_from_u64 7)
  = [CRange 4; CRange 1; CWeightedF [Fin 4503599627370496 (-52); Fin 4503599627370496 (-51)]].
Proof. vm_compute. reflexivity. Qed.

(** the same run as the harness prints it: input (tables with weights, the real trajectory) and the
    implementation output; the exact line accepts it *)
Definition ka_in_1 : val := L [I 0; L [I 1; I 1; I 1; I 1]; I 0; I 1; L [L [L [I 60; I 98; I 111; I 119; I 62]; L [I 97]; L [L [L [L [I 120]]; I 1; L [I 0; I 4503599627370496; I (-52)]]; L [L []; I 1; L [I 0; I 4503599627370496; I (-51)]]]]; L [L [I 98]; L [I 60; I 101; I 111; I 119; I 62]; L [L [L [L [I 121]; L [I 122]]; I 1; L [I 0; I 6755399441055744; I (-51)]]; L [L [L [I 113]]; I 0; L [I 0; I 0; I (-1074)]]]]]; L [L [L [I 60; I 98; I 111; I 119; I 62]; L [I 97]; L [I 98]; L [L [L [L [I 113]]; I 1; L [I 0; I 4503599627370496; I (-52)]]]]; L [L [I 97]; L [I 98]; L [I 60; I 101; I 111; I 119; I 62]; L [L [L []; I 1; L [I 0; I 4503599627370496; I (-52)]]]]]; I 7; L [L [L [L [I 97]; L [I 98]]; L [I 1]; L [I 1; I 1]; L [I 1]]; L [L [L [I 120]; L [I 97]; L [I 98]]; L [I 0; I 2]; L [I 1; I 1; I 1]; L [I 1; I 1]]; L [L [L [I 120]; L [I 98]]; L [I 0; I 1]; L [I 1; I 1]; L [I 1]]]; L [L [I 0; I 0]; L [I 0; I 0]; L [I 0; I 0]]; I 0].
Definition ka_out_1 : val := L [L [L [L [L [L [L [L [I 120]; I 1]; L [L []; I 1]]]; L [L [L [L [I 113]; I 1]]]]; L [L []; L [L [L [L []; I 1]]]]; L [L [L [L [L [I 121; I 122]; I 1]; L [L [I 113]; I 0]]]; L [L [L [L []; I 1]]]]; L [L [L [L [L [I 121; I 122]; I 1]; L [L [I 113]; I 0]]]; L [L [L [L []; I 1]]]]]; L [L [L [L [I 120]; L [I 97]; L [I 98]]; L [I 0; I 2]]; L [L [L [I 120]; L [I 98]]; L [I 0; I 1]]; L [L [L [I 120]; L [I 98]]; L [I 0; I 1]]]]; L [I 0; I 0; I 7]].
Example exact_witness_1 : agree_exact ka_in_1 ka_out_1 = true /\ wtabs_ok (v_wcfg ka_in_1) = true.
Proof. split; vm_compute; reflexivity. Qed.

(** seed 22, four calls: swap, then three calls that find no candidate (one word each) *)
Definition ka_in_2 : val := L [I 0; L [I 1; I 1; I 1; I 1]; I 0; I 1; L [L [L [I 60; I 98; I 111; I 119; I 62]; L [I 97]; L [L [L [L [I 120]]; I 1; L [I 0; I 4503599627370496; I (-52)]]; L [L []; I 1; L [I 0; I 4503599627370496; I (-51)]]]]; L [L [I 98]; L [I 60; I 101; I 111; I 119; I 62]; L [L [L [L [I 121]; L [I 122]]; I 1; L [I 0; I 6755399441055744; I (-51)]]; L [L [L [I 113]]; I 0; L [I 0; I 0; I (-1074)]]]]]; L [L [L [I 60; I 98; I 111; I 119; I 62]; L [I 97]; L [I 98]; L [L [L [L [I 113]]; I 1; L [I 0; I 4503599627370496; I (-52)]]]]; L [L [I 97]; L [I 98]; L [I 60; I 101; I 111; I 119; I 62]; L [L [L []; I 1; L [I 0; I 4503599627370496; I (-52)]]]]]; I 22; L [L [L [L [I 97]; L [I 98]]; L []; L [I 1; I 1]; L [I 1]]; L [L [L [I 98]; L [I 97]]; L [I 0; I 1]; L [I 1; I 1]; L [I 1]]; L [L [L [I 98]; L [I 97]]; L [I 0; I 1]; L [I 1; I 1]; L [I 1]]; L [L [L [I 98]; L [I 97]]; L [I 0; I 1]; L [I 1; I 1]; L [I 1]]]; L [L [I 0; I 0]; L [I 0; I 0]; L [I 0; I 0]; L [I 0; I 0]]; I 0].
Definition ka_out_2 : val := L [L [L [L [L [L [L [L [I 120]; I 1]; L [L []; I 1]]]; L [L [L [L [I 113]; I 1]]]]; L [L []; L [L [L [L []; I 1]]]]; L [L [L [L [L [I 121; I 122]; I 1]; L [L [I 113]; I 0]]]; L [L [L [L []; I 1]]]]; L [L [L [L [L [I 121; I 122]; I 1]; L [L [I 113]; I 0]]]; L [L [L [L []; I 1]]]]]; L [L [L [L [I 98]; L [I 97]]; L [I 0; I 1]]; L [L [L [I 98]; L [I 97]]; L [I 0; I 1]]; L [L [L [I 98]; L [I 97]]; L [I 0; I 1]]; L [L [L [I 98]; L [I 97]]; L [I 0; I 1]]]]; L [I 0; I 0; I 5]].
Example exact_witness_2 : agree_exact ka_in_2 ka_out_2 = true /\ check_C15s ka_in_2 ka_out_2 = true.
Proof. split; vm_compute; reflexivity. Qed.

(** a result that differs in the choice only (delete 'b' instead of 'a' in the second call: an element
    of the outcome set, so the relational line accepts it) is rejected by the exact line *)
Example exact_rejects_other_choice :
  step_exact (outcome_v ([[120]; [98]]%N, [0; 1])) (L [L [L [I 120]; L [I 97]]; L [I 0; I 1]]) = false.
Proof. vm_compute. reflexivity. Qed.

(** C11 with the segmenter inside the model: the "for every segmentation" theorems of
    C11_Proofs instantiated with [segment s] (UAX29_Model), and a decidable condition on the
    text alone under which the cleaned text has no mixed cluster (the KF1 seam class). *)
From TU Require Import Base UAX29_Model UAX29_Proofs C11_Model C11_Proofs.
From TU Require C10_Model C10_Proofs C11_Link.
Open Scope N_scope.

(** * [segment s] meets the hypotheses of the general theorems *)
Lemma segment_valid_l s : ValidSeg (segment s) s.
Proof. split; [apply segment_concat_l|apply segment_nonempty_l]. Qed.

Lemma forallb_ext_in {A} (f g : A -> bool) l :
  (forall x, In x l -> f x = g x) -> forallb f l = forallb g l.
Proof.
  induction l as [|x l IH]; intros H; [reflexivity|]. cbn [forallb].
  rewrite (H x (or_introl eq_refl)), IH; [reflexivity|]. intros y Hy. apply H. right. exact Hy.
Qed.

Lemma wf_seg_segment s : wf_seg (segment s) = no_mixedb s.
Proof.
  unfold wf_seg, no_mixedb. apply forallb_ext_in. intros c Hc.
  pose proof (segment_nonempty_l s) as H. rewrite Forall_forall in H. specialize (H c Hc).
  destruct c; [exfalso; apply H; reflexivity|reflexivity].
Qed.

Lemma no_mixedb_NoMixed_l s : no_mixedb s = true <-> NoMixed (segment s).
Proof.
  rewrite <- wf_seg_segment, wf_seg_spec. split; [intros [_ H]; exact H|].
  intros H. split; [apply segment_nonempty_l|exact H].
Qed.

(** * the grapheme-mode theorems without a segmentation premise *)
Lemma clean_spec_u_l s : no_mixedb s = true -> clean (segment s) = join [32] (words s).
Proof.
  intros H. rewrite <- wf_seg_segment in H. rewrite (clean_spec_seg _ H), segment_concat_l. reflexivity.
Qed.

Lemma clean_clean_u_l s : no_mixedb s = true -> cleansb (clean (segment s)) = true.
Proof. intros H. rewrite <- wf_seg_segment in H. apply clean_clean_seg. exact H. Qed.

Lemma clean_idem_u_l s :
  no_mixedb s = true -> no_mixedb (clean (segment s)) = true ->
  clean (segment (clean (segment s))) = clean (segment s).
Proof.
  intros H1 H2. rewrite <- wf_seg_segment in H1, H2.
  apply clean_idem_seg; [exact H1|apply segment_concat_l|exact H2].
Qed.

Lemma clean_nonws_u_l s : strip_cps (clean (segment s)) = strip_cps s.
Proof. rewrite clean_nonws_seg, segment_concat_l. reflexivity. Qed.

Lemma wb_words_u_l s :
  no_mixedb s = true ->
  map (fun r => concat (sub (segment s) r)) (word_boundaries (segment s)) = words s.
Proof.
  intros H. rewrite <- wf_seg_segment in H. pose proof (wb_words_cp _ H) as E.
  rewrite segment_concat_l in E. exact E.
Qed.

Lemma remove_spec_u_l s : no_mixedb s = true -> remove (segment s) = strip_cps s.
Proof.
  intros H. rewrite <- wf_seg_segment in H. pose proof (remove_spec_seg _ H) as E.
  rewrite segment_concat_l in E. exact E.
Qed.

Lemma clean_Clean_u_l s :
  no_mixedb s = true -> no_mixedb (clean (segment s)) = true ->
  C10_Proofs.Clean (segment (clean (segment s))).
Proof.
  intros H1 H2. rewrite <- wf_seg_segment in H1, H2.
  apply (C11_Link.clean_Clean_seg (segment s)); [exact H1|apply segment_concat_l|exact H2].
Qed.

(** the input the harness builds for text [s] in grapheme mode *)
Definition clusters_v (seg : list cluster) : val := list_v (list_v n_v) seg.
Definition input_of (s : str) : val :=
  L [I 1; clusters_v (segment s); clusters_v (segment (clean (segment s)))].

Lemma v_clusters_v seg : v_clusters (clusters_v seg) = seg.
Proof.
  unfold v_clusters, clusters_v, v_list at 1, list_v at 1. rewrite map_map.
  induction seg as [|c r IH]; [reflexivity|]. cbn [map]. rewrite IH, v_n_list. reflexivity.
Qed.

Lemma check_run_u_l s :
  (no_mixedb s = true -> no_mixedb (clean (segment s)) = true) ->
  check_C11 (input_of s) (run_C11 (input_of s)) = true /\ uax29_agree (input_of s) = true.
Proof.
  intros H. split.
  - apply check_run_l. unfold wf_input, input_of. cbn [v_nth nth]. rewrite !v_clusters_v.
    intros _ Hw. rewrite wf_seg_segment in Hw. split; [apply segment_concat_l|].
    rewrite wf_seg_segment. apply H. exact Hw.
  - unfold uax29_agree, input_of. cbn [v_nth nth v_bool v_z Z.eqb negb]. rewrite !v_clusters_v.
    rewrite !segment_concat_l, !cll_eqb_refl. reflexivity.
Qed.

(** * KF1 from the inside: when does the cleaned text have a mixed cluster?
    The cleaned text is the words joined by U+0020. A space stays a cluster of its own unless
    the word before it ends in a Prepend or the word after it starts with Extend / SpacingMark /
    ZWJ ([any_break_before], [space_then_other]). *)
Fixpoint seams_ok (W : list str) : bool :=
  match W with
  | w1 :: (w2 :: _) as R =>
      negb (is_prepend (last w1 32)) && negb (ws_joinable (hd 32 w2)) && seams_ok R
  | _ => true
  end.
Definition seam_free (s : str) : bool := seams_ok (words s).

Lemma join_hd W w c w' : w = c :: w' -> exists t, join [32] (w :: W) = c :: t.
Proof. intros ->. destruct W; cbn [join]; eexists; reflexivity. Qed.

Lemma segment_join W :
  Forall cwordok W -> seams_ok W = true ->
  segment (join [32] W) = join [[32]] (map segment W).
Proof.
  induction W as [|w1 R IH]; intros Hok Hs; [reflexivity|].
  destruct R as [|w2 R']; [reflexivity|].
  inversion Hok as [|? ? Hw1 HokR]; subst. specialize (IH HokR).
  cbn [seams_ok] in Hs. apply andb_true_iff in Hs as [Hs HsR]. apply andb_true_iff in Hs as [Hp Hj].
  apply negb_true_iff in Hp, Hj. specialize (IH HsR).
  change (map segment (w1 :: w2 :: R')) with (segment w1 :: map segment (w2 :: R')).
  unfold str, cp in *. rewrite (@join_cons N [32] w1 (w2 :: R')) by discriminate.
  rewrite (@join_cons (list N) [[32]] (segment w1) (map segment (w2 :: R'))) by discriminate.
  destruct Hw1 as [Hne1 _].
  inversion HokR as [|? ? [Hne2 _] _]; subst.
  destruct w2 as [|c w2']; [exfalso; apply Hne2; reflexivity|].
  destruct (join_hd R' (c :: w2') c w2' eq_refl) as (t & Et).
  rewrite (app_removelast_last 32 Hne1) at 1.
  cbn [app]. rewrite Et in *.
  rewrite (any_break_before_l (removelast w1) (last w1 32) 32 (c :: t) eq_refl Hp).
  rewrite <- (app_removelast_last 32 Hne1).
  rewrite space_then_other_eq_l. cbn [hd] in Hj. rewrite Hj. rewrite IH. reflexivity.
Qed.

Lemma Forall_join {A} (P : A -> Prop) sep (l : list (list A)) :
  Forall P sep -> Forall (Forall P) l -> Forall P (join sep l).
Proof.
  intros Hs. induction l as [|w r IH]; intros H; [constructor|].
  inversion H as [|? ? Hw Hr]; subst. destruct r as [|w2 r']; [exact Hw|].
  rewrite join_cons by discriminate. apply Forall_app. split; [exact Hw|].
  apply Forall_app. split; [exact Hs|apply IH; exact Hr].
Qed.

Lemma segment_word_nomixed w :
  forallb nonws_cp w = true -> Forall (fun c => cl_nomixed c = true) (segment w).
Proof.
  intros Hw. rewrite Forall_forall. intros c Hc. unfold cl_nomixed. apply orb_true_iff. right.
  rewrite forallb_forall in *. intros x Hx. apply (Hw x).
  rewrite <- (segment_concat_l w). apply in_concat. exists c. split; assumption.
Qed.

Lemma no_mixedb_join W : Forall cwordok W -> seams_ok W = true -> no_mixedb (join [32] W) = true.
Proof.
  intros Hok Hs. unfold no_mixedb. rewrite (segment_join W Hok Hs).
  rewrite forallb_forall. rewrite <- Forall_forall. apply Forall_join.
  - constructor; [reflexivity|constructor].
  - rewrite Forall_forall. intros seg Hseg. apply in_map_iff in Hseg as (w & <- & Hw).
    rewrite Forall_forall in Hok. destruct (Hok w Hw) as [_ Hn]. apply segment_word_nomixed. exact Hn.
Qed.

(** the cleaned text of a seam-free text has no mixed cluster ... *)
Lemma clean_no_mixed_l s :
  no_mixedb s = true -> seam_free s = true -> no_mixedb (clean (segment s)) = true.
Proof.
  intros H Hs. rewrite (clean_spec_u_l s H). apply no_mixedb_join; [apply words_ok|exact Hs].
Qed.

(** ... so grapheme-mode idempotence holds with premises on the text alone *)
Lemma clean_idem_seam_l s :
  no_mixedb s = true -> seam_free s = true ->
  clean (segment (clean (segment s))) = clean (segment s).
Proof. intros H Hs. apply clean_idem_u_l; [exact H|apply clean_no_mixed_l; assumption]. Qed.

(** and the clusters of the cleaned text are the clusters of the words, separated by [32] *)
Lemma segment_clean_l s :
  no_mixedb s = true -> seam_free s = true ->
  segment (clean (segment s)) = join [[32]] (map segment (words s)).
Proof.
  intros H Hs. rewrite (clean_spec_u_l s H). apply segment_join; [apply words_ok|exact Hs].
Qed.

(** * ... and exactly then: the condition is necessary as well *)
Lemma segment_word_space w1 c t :
  w1 <> [] -> is_prepend (last w1 32) = false -> ws_joinable c = false ->
  segment (w1 ++ 32 :: c :: t) = segment w1 ++ [32] :: segment (c :: t).
Proof.
  intros Hne Hp Hj. rewrite (app_removelast_last 32 Hne) at 1.
  rewrite (any_break_before_l (removelast w1) (last w1 32) 32 (c :: t) eq_refl Hp).
  rewrite <- (app_removelast_last 32 Hne). rewrite space_then_other_eq_l, Hj. reflexivity.
Qed.

Lemma last_in {A} (l : list A) d : l <> [] -> In (last l d) l.
Proof.
  induction l as [|x l IH]; [congruence|]. intros _. destruct l as [|y l]; [left; reflexivity|].
  right. apply IH. discriminate.
Qed.

Lemma nonws_in w x : forallb nonws_cp w = true -> In x w -> is_ws x = false.
Proof.
  intros H Hx. rewrite forallb_forall in H. specialize (H x Hx). unfold nonws_cp in H.
  apply negb_true_iff in H. exact H.
Qed.

Lemma no_mixedb_word w : forallb nonws_cp w = true -> no_mixedb w = true.
Proof.
  intros H. unfold no_mixedb. rewrite forallb_forall. rewrite <- Forall_forall.
  apply segment_word_nomixed. exact H.
Qed.

Lemma no_mixedb_join_eq W : Forall cwordok W -> no_mixedb (join [32] W) = seams_ok W.
Proof.
  induction W as [|w1 R IH]; intros Hok; [reflexivity|].
  inversion Hok as [|? ? [Hne1 Hn1] HokR]; subst. specialize (IH HokR).
  destruct R as [|w2 R'].
  - cbn [join seams_ok]. apply no_mixedb_word. exact Hn1.
  - inversion HokR as [|? ? [Hne2 Hn2] _]; subst.
    unfold str, cp in *. rewrite (@join_cons N [32] w1 (w2 :: R')) by discriminate.
    destruct w2 as [|c w2']; [exfalso; apply Hne2; reflexivity|].
    destruct (join_hd R' (c :: w2') c w2' eq_refl) as (t & Et). rewrite Et in *.
    cbn [seams_ok hd]. cbn [app]. unfold str, cp in *.
    destruct (is_prepend (last w1 32)) eqn:Hp.
    + cbn [negb andb]. rewrite (app_removelast_last 32 Hne1).
      apply no_mixedb_nobreak_l.
      * unfold break_after. rewrite state_of_snoc. cbn [fst snd]. apply pair_nobreak. right.
        unfold is_prepend in Hp. change (gcb 32) with GC_Any.
        destruct (gcb (last w1 32)); try discriminate Hp. reflexivity.
      * rewrite (nonws_in w1 _ Hn1 (last_in w1 32 Hne1)). reflexivity.
    + destruct (ws_joinable c) eqn:Hj.
      * cbn [negb andb]. change (w1 ++ 32 :: c :: t) with (w1 ++ [32] ++ c :: t). rewrite app_assoc.
        apply no_mixedb_nobreak_l.
        -- unfold break_after. rewrite state_of_snoc. cbn [fst snd]. change (gcb 32) with GC_Any.
           rewrite (advance_any _ 32 eq_refl), is_break_after_any.
           unfold ws_joinable in Hj. destruct (gcb c); try discriminate Hj; reflexivity.
        -- rewrite (nonws_in (c :: w2') c Hn2 (or_introl eq_refl)). reflexivity.
      * cbn [negb andb]. unfold no_mixedb in *. rewrite (segment_word_space w1 c t Hne1 Hp Hj).
        rewrite forallb_app. cbn [forallb]. rewrite IH.
        pose proof (no_mixedb_word w1 Hn1) as Hw. unfold no_mixedb in Hw. rewrite Hw. reflexivity.
Qed.

(** for a text without mixed clusters: the cleaned text has a mixed cluster (the KF1 class of
    the harness) exactly when the text is not seam-free *)
Lemma clean_mixed_iff_l s : no_mixedb s = true -> no_mixedb (clean (segment s)) = seam_free s.
Proof. intros H. rewrite (clean_spec_u_l s H). apply no_mixedb_join_eq, words_ok. Qed.

(** Base: the [val] exchange type, glue, code points, White_Space, UTF-8.
    Definitions only (executable); lemmas about them live in Base_Lemmas.v. *)
From Coq Require Export List ZArith NArith Bool Arith.
Export ListNotations.

(** * The one data type that crosses every boundary (harness <-> model). *)
Inductive val := I (z : Z) | L (l : list val).

Fixpoint val_eqb (a b : val) {struct a} : bool :=
  match a, b with
  | I x, I y => Z.eqb x y
  | L xs, L ys =>
      (fix go (xs ys : list val) {struct xs} : bool :=
         match xs, ys with
         | [], [] => true
         | x :: xs', y :: ys' => val_eqb x y && go xs' ys'
         | _, _ => false
         end) xs ys
  | _, _ => false
  end.

(** decoding *)
Definition v_z (v : val) : Z := match v with I z => z | _ => 0%Z end.
Definition v_n (v : val) : N := Z.to_N (v_z v).
Definition v_nat (v : val) : nat := Z.to_nat (v_z v).
Definition v_bool (v : val) : bool := negb (Z.eqb (v_z v) 0).
Definition v_list {A} (f : val -> A) (v : val) : list A :=
  match v with L l => map f l | _ => [] end.
Definition v_opt {A} (f : val -> A) (v : val) : option A :=
  match v with L (x :: _) => Some (f x) | _ => None end.
Definition v_nth (k : nat) (v : val) : val :=
  match v with L l => nth k l (L []) | _ => L [] end.

(** encoding *)
Definition z_v (z : Z) : val := I z.
Definition n_v (n : N) : val := I (Z.of_N n).
Definition nat_v (n : nat) : val := I (Z.of_nat n).
Definition bool_v (b : bool) : val := I (if b then 1 else 0)%Z.
Definition list_v {A} (f : A -> val) (l : list A) : val := L (map f l).
Definition opt_v {A} (f : A -> val) (o : option A) : val :=
  match o with Some x => L [f x] | None => L [] end.
Definition pair_v {A B} (f : A -> val) (g : B -> val) (p : A * B) : val :=
  L [f (fst p); g (snd p)].

(** Conventional outputs of the implementation side that no model produces. *)
Definition v_panic : val := L [I (-777)%Z].
Definition v_hang : val := L [I (-778)%Z].

(** * Code points, White_Space, clusters *)
Definition cp := N.
Definition str := list cp.
Definition byte := N.

(** The 25 code points with the Unicode White_Space property; compared
    exhaustively with [char::is_whitespace] by the harness on every run. *)
Definition ws_list : list N :=
  [9;10;11;12;13;32;133;160;5760;8192;8193;8194;8195;8196;8197;8198;8199;8200;
   8201;8202;8232;8233;8239;8287;12288]%N.
Definition is_ws (c : cp) : bool := existsb (N.eqb c) ws_list.

(** ASCII whitespace as used by [split_ascii_whitespace]. *)
Definition is_ascii_ws (c : cp) : bool := existsb (N.eqb c) [9;10;12;13;32]%N.

Definition cluster := list cp.
(** [Character::is_whitespace]: all code points are whitespace
    (vacuously true for the empty cluster, which never occurs). *)
Definition cl_ws (c : cluster) : bool := forallb is_ws c.

Fixpoint nlist_eqb (a b : list N) : bool :=
  match a, b with
  | [], [] => true
  | x :: a', y :: b' => N.eqb x y && nlist_eqb a' b'
  | _, _ => false
  end.
Definition cl_eqb := nlist_eqb.

(** code-point mode segmentation *)
Definition singletons (s : str) : list cluster := map (fun c => [c]) s.

(** * UTF-8 encoding of one scalar value *)
Definition utf8 (c : cp) : list byte :=
  (if c <? 128 then [c]
   else if c <? 2048 then [192 + c / 64; 128 + c mod 64]
   else if c <? 65536 then [224 + c / 4096; 128 + (c / 64) mod 64; 128 + c mod 64]
   else [240 + c / 262144; 128 + (c / 4096) mod 64; 128 + (c / 64) mod 64; 128 + c mod 64])%N.
Definition utf8s (s : str) : list byte := flat_map utf8 s.

(** helpers used by several models *)
Definition sumN (l : list N) : N := fold_right N.add 0%N l.
Definition sum_nat (l : list nat) : nat := fold_right Nat.add 0 l.
Fixpoint lastn {A} (d : A) (l : list A) : A :=
  match l with [] => d | [x] => x | _ :: l' => lastn d l' end.

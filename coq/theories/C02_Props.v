(** C02 — pinned statements. Nothing but statements, [exact], and assumption audits.
    [bpe_tokenize c s] = [BPETokenizer::new(c)] + [tokenize(s, true)] ([None] = constructor error),
    [bpe_decode tbl ids] = [de_tokenize(ids, true)] as bytes, [eff_table c] = the merge table after
    the [max_vocab_size] cut. No well-formedness of the table is needed. *)
From TU Require Import Base BPE_Model C01_Model C02_Model C02_Inv C02_Loop C02_Proofs C02_Check C02_String
  MsgPack_Model C02_File C02_FileProofs C02_Inj.
From Coq Require Import Permutation.
Open Scope N_scope.

(** Lossless: decoding the ids gives the UTF-8 bytes of the text without its trailing whitespace. *)
Theorem bpe_lossless : forall c s, Forall valid_cp s -> config_ok c = true ->
  exists ids, bpe_tokenize c s = Some ids /\
    bpe_decode (eff_table c) ids = utf8s (strip_trailing_ws s) /\
    Forall (fun id => id < vocab_size c) ids.
Proof. exact bpe_lossless_l. Qed.
Print Assumptions bpe_lossless.

(** ... exactly the text when it does not end in whitespace *)
Theorem bpe_lossless_exact : forall c s ids t ch, Forall valid_cp s -> bpe_tokenize c s = Some ids ->
  s = t ++ [ch] -> is_ws ch = false -> bpe_decode (eff_table c) ids = utf8s s.
Proof. exact bpe_exact_l. Qed.
Print Assumptions bpe_lossless_exact.

(** The decoded bytes are the UTF-8 encoding of a prefix of the text; the rest is whitespace
    (so the concatenated token byte strings are valid UTF-8). *)
Theorem bpe_utf8_prefix : forall c s ids, Forall valid_cp s -> bpe_tokenize c s = Some ids ->
  exists p t, s = p ++ t /\ forallb is_ws t = true /\ bpe_decode (eff_table c) ids = utf8s p.
Proof. exact bpe_utf8_prefix_l. Qed.
Print Assumptions bpe_utf8_prefix.

(** String level: the strict UTF-8 decoder of C01 ([utf8_decode] = [String::from_utf8]) applied to the
    decoded bytes returns the text itself without its trailing whitespace, for every text of Unicode
    scalar values and every table. *)
Theorem bpe_lossless_string : forall c s, scalars s = true -> config_ok c = true ->
  exists ids, bpe_tokenize c s = Some ids /\
    utf8_decode (bpe_decode (eff_table c) ids) = Some (strip_trailing_ws s) /\
    Forall (fun id => id < vocab_size c) ids.
Proof. exact bpe_lossless_string_l. Qed.
Print Assumptions bpe_lossless_string.

(** Lossless as injectivity, without mentioning the decoder: two texts with the same id sequence are equal
    up to their trailing whitespace (which the tokenizer drops), for every table. *)
Theorem bpe_tokenize_injective : forall c s t ids,
  scalars s = true -> scalars t = true -> config_ok c = true ->
  bpe_tokenize c s = Some ids -> bpe_tokenize c t = Some ids ->
  strip_trailing_ws s = strip_trailing_ws t.
Proof. exact bpe_tokenize_injective_l. Qed.
Print Assumptions bpe_tokenize_injective.

(** ... and exactly the text when it does not end in whitespace. *)
Theorem bpe_lossless_string_exact : forall c s ids t ch, scalars s = true -> bpe_tokenize c s = Some ids ->
  s = t ++ [ch] -> is_ws ch = false -> utf8_decode (bpe_decode (eff_table c) ids) = Some s.
Proof. exact bpe_exact_string_l. Qed.
Print Assumptions bpe_lossless_string_exact.

(** Every emitted id (prefix, body, suffix) is a vocabulary id. *)
Theorem bpe_ids_valid : forall c s ids, Forall valid_cp s -> bpe_tokenize c s = Some ids ->
  Forall (fun id => id < vocab_size c) ids.
Proof. exact bpe_ids_valid_l. Qed.
Print Assumptions bpe_ids_valid.

(** [strip_trailing_ws s] is the unique split point: a prefix, the rest all whitespace, not ending
    in whitespace itself; the identity on texts that do not end in whitespace. *)
Theorem strip_trailing_ws_spec : forall s,
  (exists t, s = strip_trailing_ws s ++ t /\ forallb is_ws t = true) /\
  (strip_trailing_ws s = [] \/ exists t c, strip_trailing_ws s = t ++ [c] /\ is_ws c = false) /\
  (forall t c, s = t ++ [c] -> is_ws c = false -> strip_trailing_ws s = s).
Proof. exact strip_spec_l. Qed.
Print Assumptions strip_trailing_ws_spec.

(** The words found by the scanner form of [\s+\S+|^\S+] concatenate to the stripped text. *)
Theorem bpe_words_concat : forall s, concat (bpe_words s) = strip_trailing_ws s.
Proof. exact words_concat. Qed.
Print Assumptions bpe_words_concat.

(** Loop invariant at exit: the slots concatenate to the word, every live slot is a token
    (a single byte or a table entry) and carries that token's id. *)
Theorem merge_word_inv : forall tbl w, Forall (fun b => b < 256) w ->
  exists bs, merge_word_st tbl w = Some (bs, map (idopt tbl) bs) /\ concat bs = w /\
             forall k, nth k bs [] <> [] -> Tok tbl (nth k bs []).
Proof. exact merge_word_inv_l. Qed.
Print Assumptions merge_word_inv.

(** The out-of-fuel value is never returned (fuel [3 * length w + 1]); a valid configuration never
    fails, an invalid one (pad / prefix / suffix not a special token) is the constructor error. *)
Theorem merge_word_fuel : forall tbl w, Forall (fun b => b < 256) w -> merge_word tbl w <> None.
Proof. exact merge_word_fuel_l. Qed.
Print Assumptions merge_word_fuel.

Theorem bpe_tokenize_total : forall c s, Forall valid_cp s -> config_ok c = true -> bpe_tokenize c s <> None.
Proof. exact bpe_total_l. Qed.
Print Assumptions bpe_tokenize_total.

Theorem bpe_tokenize_ctor_error : forall c s, config_ok c = false -> bpe_tokenize c s = None.
Proof. exact bpe_tokenize_error. Qed.
Print Assumptions bpe_tokenize_ctor_error.

(** The executable statement evaluated on the implementation's outputs holds of the model's own output. *)
Theorem check_run : forall v, Forall valid_cp (v_str (v_nth 5 v)) -> check_C02 v (run_C02 v) = true.
Proof. exact check_run_l. Qed.
Print Assumptions check_run.

(** ... and a [true] of the executable statement on an implementation output (valid configuration)
    means: every id is a vocabulary id and the decoded bytes are the UTF-8 of the stripped text. *)
Theorem check_sound : forall v out, config_ok (v_config v) = true -> check_C02 v out = true ->
  exists ids vs, out = L [list_v n_v ids; L [list_v n_v (utf8s (strip_trailing_ws (v_str (v_nth 5 v))))]; vs] /\
                 Forall (fun id => id < vocab_size (v_config v)) ids.
Proof. exact check_C02_sound_l. Qed.
Print Assumptions check_sound.

(** Non-vacuity: a concrete configuration (table { a, ab, ä}, max_vocab_size 260 cutting the third
    entry, two special tokens, prefix <bos>) and the text " ab ä  " meet the premises. *)
Definition ex_cfg : config :=
  Cfg [[32;97];[32;97;98];[195;164]] (Some 260) [[60;112;62];[60;98;62]] [[60;98;62]] [].
Example ex_ok : config_ok ex_cfg = true.
Proof. vm_compute. reflexivity. Qed.
Example ex_valid : Forall valid_cp [32;97;98;32;228;32;32].
Proof. repeat constructor. Qed.
Example ex_run : bpe_tokenize ex_cfg [32;97;98;32;228;32;32] = Some [259;257;32;195;164]
  /\ bpe_decode (eff_table ex_cfg) [259;257;32;195;164] = [32;97;98;32;195;164].
Proof. vm_compute. split; reflexivity. Qed.

(** * The merge file inside the model (third session; MsgPack_Model.v, MsgPack_Props.v, C02_File.v)
    [BPETokenizer::new] = [MergeOps::load] (the MessagePack reader [mp_parse]; of two entries with one key the later
    wins: [fm_get]) + [retain(id < limit)] + the reverse table sorted by id + [HashMap::get] in the merge loop.
    [load_table bs = Loaded tbl]: the file loads and its ids are exactly 0..n-1, [tbl] = the keys in id order. *)

(** [HashMap::get] on the loaded map is [lookup] (position) in the table the models use. *)
Theorem load_get_lookup : forall bs tbl, load_table bs = Loaded tbl ->
  exists es rest, mp_parse bs = Some (es, rest) /\ NoDup tbl /\ forall k, fm_get es k = lookup tbl k.
Proof. exact load_get_lookup_l. Qed.
Print Assumptions load_get_lookup.

(** [retain(|_, id| id < limit)] on that map is [firstn limit] of the table ([eff_table]). *)
Theorem retain_firstn : forall tbl lim k, NoDup tbl ->
  match lookup tbl k with Some i => if i <? lim then Some i else None | None => None end
  = lookup (firstn (N.to_nat lim) tbl) k.
Proof. exact retain_firstn_l. Qed.
Print Assumptions retain_firstn.

(** Hence the tokenizer built from ANY byte string the loader model accepts as a table is lossless. *)
Theorem file_lossless : forall fb tbl c s, load_table fb = Loaded tbl -> c_tbl c = tbl ->
  Forall valid_cp s -> config_ok c = true ->
  exists ids, bpe_tokenize c s = Some ids /\
    bpe_decode (eff_table c) ids = utf8s (strip_trailing_ws s) /\
    Forall (fun id => id < vocab_size c) ids.
Proof. exact file_lossless_l. Qed.
Print Assumptions file_lossless.

(** The executable statement with the file in it ([check_C02f]: the table is the one the file holds) is true of the
    model's own output ([run_C02f]: explicit file bytes are decoded by the model) ... *)
Theorem check_run_f : forall v, Forall valid_cp (v_str (v_nth 5 v)) -> check_C02f v (run_C02f v) = true.
Proof. exact check_run_f_l. Qed.
Print Assumptions check_run_f.

(** ... and a [true] on an implementation output other than the constructor error, for an explicit file that loads
    as [tbl], means: the ids are vocabulary ids of the tokenizer with table [tbl] and the decoded bytes are the
    UTF-8 of the stripped text. *)
Theorem check_sound_f : forall v out fb tbl, in_file v = Some fb -> load_table fb = Loaded tbl ->
  config_ok (v_config (with_table v tbl)) = true -> out <> L [] -> check_C02f v out = true ->
  c_tbl (v_config (with_table v tbl)) = tbl /\
  exists ids vs, strip_file out = L [list_v n_v ids; L [list_v n_v (utf8s (strip_trailing_ws (v_str (v_nth 5 v))))]; vs] /\
                 Forall (fun id => id < vocab_size (v_config (with_table v tbl))) ids.
Proof. exact check_sound_f_l. Qed.
Print Assumptions check_sound_f.

(** What an accepted correspondence says about the file the crate's [save] wrote (fields 3, 4 of the implementation
    output): it is [mp_encode] of the input table's entries (id = position) in some order, nothing behind, it loads
    as the input's table, and the real [MergeOps::load] read these entries. *)
Theorem agree_saved_sound : forall v m a b c fb lv, in_file v = None -> agree_C02f v m (L [a; b; c; fb; lv]) = true ->
  m = L [a; b; c] /\
  exists es, v_list v_n fb = mp_encode es /\ mp_parse (v_list v_n fb) = Some (es, []) /\
             Permutation es (entries_of_table (v_table (v_nth 0 v))) /\
             load_table (v_list v_n fb) = Loaded (v_table (v_nth 0 v)) /\ v_entries lv = sort_items es.
Proof. exact agree_saved_sound_l. Qed.
Print Assumptions agree_saved_sound.

(** Non-vacuity: the table of [ex_cfg] written in the order id 2, 0, 1 with a map16 header, a bin key, an int16 id
    and two bytes of garbage behind the map loads as that table; the input with these bytes as explicit file. *)
Definition ex_file : list N :=
  [222; 0; 3;  196; 2; 195; 164; 2;  146; 32; 97; 209; 0; 0;  147; 32; 97; 98; 1;  7; 7].
Example ex_file_loads : load_table ex_file = Loaded (c_tbl ex_cfg).
Proof. vm_compute. reflexivity. Qed.
Definition ex_file_input : val :=
  L [L []; L [I 260]; L [L [I 60; I 112; I 62]; L [I 60; I 98; I 62]]; L [L [I 60; I 98; I 62]]; L [];
     L [I 32; I 97; I 98; I 32; I 228; I 32; I 32]; L [list_v n_v ex_file]].
Example ex_file_run : in_file ex_file_input = Some ex_file /\
  config_ok (v_config (with_table ex_file_input (c_tbl ex_cfg))) = true /\
  run_C02f ex_file_input = L [L [I 259; I 257; I 32; I 195; I 164]; L [L [I 32; I 97; I 98; I 32; I 195; I 164]]; I 260].
Proof. vm_compute. repeat split; reflexivity. Qed.

(** C02 — pinned statements. Nothing but statements, [exact], and assumption audits.
    [bpe_tokenize c s] = [BPETokenizer::new(c)] + [tokenize(s, true)] ([None] = constructor error),
    [bpe_decode tbl ids] = [de_tokenize(ids, true)] as bytes, [eff_table c] = the merge table after
    the [max_vocab_size] cut. No well-formedness of the table is needed. *)
From TU Require Import Base BPE_Model C01_Model C02_Model C02_Inv C02_Loop C02_Proofs C02_Check C02_String.
Open Scope N_scope.

(** Lossless: decoding the ids gives the UTF-8 bytes of the text without its trailing whitespace. *)
Theorem bpe_lossless : forall c s, Forall valid_cp s -> config_ok c = true ->
  exists ids, bpe_tokenize c s = Some ids /\
    bpe_decode (eff_table c) ids = utf8s (strip_trailing_ws s) /\
    Forall (fun id => id < vocab_size c) ids.
Proof. exact bpe_lossless_l. Qed.
Print Assumptions bpe_lossless.

(** ... exactly the text when it does not end in whitespace *)
Theorem bpe_lossless_exact : forall c s ids t ch, Forall valid_cp s -> bpe_tokenize c s = Some ids ->
  s = t ++ [ch] -> is_ws ch = false -> bpe_decode (eff_table c) ids = utf8s s.
Proof. exact bpe_exact_l. Qed.
Print Assumptions bpe_lossless_exact.

(** The decoded bytes are the UTF-8 encoding of a prefix of the text; the rest is whitespace
    (so the concatenated token byte strings are valid UTF-8). *)
Theorem bpe_utf8_prefix : forall c s ids, Forall valid_cp s -> bpe_tokenize c s = Some ids ->
  exists p t, s = p ++ t /\ forallb is_ws t = true /\ bpe_decode (eff_table c) ids = utf8s p.
Proof. exact bpe_utf8_prefix_l. Qed.
Print Assumptions bpe_utf8_prefix.

(** String level: the strict UTF-8 decoder of C01 ([utf8_decode] = [String::from_utf8]) applied to the
    decoded bytes returns the text itself without its trailing whitespace, for every text of Unicode
    scalar values and every table. *)
Theorem bpe_lossless_string : forall c s, scalars s = true -> config_ok c = true ->
  exists ids, bpe_tokenize c s = Some ids /\
    utf8_decode (bpe_decode (eff_table c) ids) = Some (strip_trailing_ws s) /\
    Forall (fun id => id < vocab_size c) ids.
Proof. exact bpe_lossless_string_l. Qed.
Print Assumptions bpe_lossless_string.

(** ... and exactly the text when it does not end in whitespace. *)
Theorem bpe_lossless_string_exact : forall c s ids t ch, scalars s = true -> bpe_tokenize c s = Some ids ->
  s = t ++ [ch] -> is_ws ch = false -> utf8_decode (bpe_decode (eff_table c) ids) = Some s.
Proof. exact bpe_exact_string_l. Qed.
Print Assumptions bpe_lossless_string_exact.

(** Every emitted id (prefix, body, suffix) is a vocabulary id. *)
Theorem bpe_ids_valid : forall c s ids, Forall valid_cp s -> bpe_tokenize c s = Some ids ->
  Forall (fun id => id < vocab_size c) ids.
Proof. exact bpe_ids_valid_l. Qed.
Print Assumptions bpe_ids_valid.

(** [strip_trailing_ws s] is the unique split point: a prefix, the rest all whitespace, not ending
    in whitespace itself; the identity on texts that do not end in whitespace. *)
Theorem strip_trailing_ws_spec : forall s,
  (exists t, s = strip_trailing_ws s ++ t /\ forallb is_ws t = true) /\
  (strip_trailing_ws s = [] \/ exists t c, strip_trailing_ws s = t ++ [c] /\ is_ws c = false) /\
  (forall t c, s = t ++ [c] -> is_ws c = false -> strip_trailing_ws s = s).
Proof. exact strip_spec_l. Qed.
Print Assumptions strip_trailing_ws_spec.

(** The words found by the scanner form of [\s+\S+|^\S+] concatenate to the stripped text. *)
Theorem bpe_words_concat : forall s, concat (bpe_words s) = strip_trailing_ws s.
Proof. exact words_concat. Qed.
Print Assumptions bpe_words_concat.

(** Loop invariant at exit: the slots concatenate to the word, every live slot is a token
    (a single byte or a table entry) and carries that token's id. *)
Theorem merge_word_inv : forall tbl w, Forall (fun b => b < 256) w ->
  exists bs, merge_word_st tbl w = Some (bs, map (idopt tbl) bs) /\ concat bs = w /\
             forall k, nth k bs [] <> [] -> Tok tbl (nth k bs []).
Proof. exact merge_word_inv_l. Qed.
Print Assumptions merge_word_inv.

(** The out-of-fuel value is never returned (fuel [3 * length w + 1]); a valid configuration never
    fails, an invalid one (pad / prefix / suffix not a special token) is the constructor error. *)
Theorem merge_word_fuel : forall tbl w, Forall (fun b => b < 256) w -> merge_word tbl w <> None.
Proof. exact merge_word_fuel_l. Qed.
Print Assumptions merge_word_fuel.

Theorem bpe_tokenize_total : forall c s, Forall valid_cp s -> config_ok c = true -> bpe_tokenize c s <> None.
Proof. exact bpe_total_l. Qed.
Print Assumptions bpe_tokenize_total.

Theorem bpe_tokenize_ctor_error : forall c s, config_ok c = false -> bpe_tokenize c s = None.
Proof. exact bpe_tokenize_error. Qed.
Print Assumptions bpe_tokenize_ctor_error.

(** The executable statement evaluated on the implementation's outputs holds of the model's own output. *)
Theorem check_run : forall v, Forall valid_cp (v_str (v_nth 5 v)) -> check_C02 v (run_C02 v) = true.
Proof. exact check_run_l. Qed.
Print Assumptions check_run.

(** ... and a [true] of the executable statement on an implementation output (valid configuration)
    means: every id is a vocabulary id and the decoded bytes are the UTF-8 of the stripped text. *)
Theorem check_sound : forall v out, config_ok (v_config v) = true -> check_C02 v out = true ->
  exists ids vs, out = L [list_v n_v ids; L [list_v n_v (utf8s (strip_trailing_ws (v_str (v_nth 5 v))))]; vs] /\
                 Forall (fun id => id < vocab_size (v_config v)) ids.
Proof. exact check_C02_sound_l. Qed.
Print Assumptions check_sound.

(** Non-vacuity: a concrete configuration (table { a, ab, ä}, max_vocab_size 260 cutting the third
    entry, two special tokens, prefix <bos>) and the text " ab ä  " meet the premises. *)
Definition ex_cfg : config :=
  Cfg [[32;97];[32;97;98];[195;164]] (Some 260) [[60;112;62];[60;98;62]] [[60;98;62]] [].
Example ex_ok : config_ok ex_cfg = true.
Proof. vm_compute. reflexivity. Qed.
Example ex_valid : Forall valid_cp [32;97;98;32;228;32;32].
Proof. repeat constructor. Qed.
Example ex_run : bpe_tokenize ex_cfg [32;97;98;32;228;32;32] = Some [259;257;32;195;164]
  /\ bpe_decode (eff_table ex_cfg) [259;257;32;195;164] = [32;97;98;32;195;164].
Proof. vm_compute. split; reflexivity. Qed.

(** C02 — pinned statements. Nothing but statements, [exact], and assumption audits. *)
From TU Require Import Base BPE_Model C02_Model C02_Proofs.
Open Scope N_scope.

Theorem strip_trailing_ws_prefix : forall s, exists t, s = strip_trailing_ws s ++ t /\ forallb is_ws t = true.
Proof. exact strip_prefix_l. Qed.
Print Assumptions strip_trailing_ws_prefix.

(** The composition loop, ASCII, and KF3 from the inside: when does NFKC keep a whitespace-clean
    text whitespace-clean?  Pinned statements are in NFKC_Props.v. *)
From Coq Require Import Lia Permutation.
From TU Require Import Base UAX29_Model UAX29_Proofs C11_Model C11_Proofs NFKC_Model NFKC_Proofs.
Open Scope N_scope.

(** * A. What can compose: table facts *)

Lemma ws_cases c : is_ws c = true ->
  c <= 160 \/ c = 5760 \/ (8192 <= c /\ c <= 12288).
Proof.
  intros H. apply is_ws_in in H. unfold ws_list in H. cbn [In] in H.
  repeat (destruct H as [H|H]; [subst; lia|]). contradiction.
Qed.

Lemma compose_hangul_some a b r :
  compose_hangul a b = Some r ->
  (a <= 4370 \/ 44032 <= a) /\ 4352 <= a /\ a <= 55203 /\ 4449 <= b /\ b <= 4546 /\ 44032 <= r.
Proof.
  unfold compose_hangul, L_BASE, L_LAST, V_BASE, V_LAST, S_BASE, S_LAST, T_FIRST, T_LAST, T_BASE, N_COUNT, T_COUNT.
  destruct ((4352 <=? a) && (a <=? 4370) && (4449 <=? b) && (b <=? 4469)) eqn:E1.
  - intros H. assert (R : r = 44032 + ((a - 4352) * 588 + (b - 4449) * 28)) by congruence. clear H.
    repeat (apply andb_true_iff in E1 as [E1 ?]).
    repeat match goal with H : (_ <=? _) = true |- _ => apply N.leb_le in H end. lia.
  - destruct ((44032 <=? a) && (a <=? 55203) && (4520 <=? b) && (b <=? 4546) && ((a - 44032) mod 28 =? 0)) eqn:E2;
      [|discriminate].
    intros H. assert (R : r = a + (b - 4519)) by congruence. clear H.
    repeat (apply andb_true_iff in E2 as [E2 ?]).
    repeat match goal with H : (_ <=? _) = true |- _ => apply N.leb_le in H end. lia.
Qed.

Definition comp_entry_ok (e : N * N * N) : bool :=
  match e with (a, b, r) => negb (is_ws a) && negb (is_ws b) && negb (is_ws r) && (768 <=? b) end.

Lemma composition_table_some a b r :
  composition_table a b = Some r ->
  is_ws a = false /\ is_ws b = false /\ is_ws r = false /\ 768 <= b.
Proof.
  rewrite composition_table_spec_l. intros H.
  assert (P : comp_entry_ok (a, b, r) = true).
  { destruct ((a <? 65536) && (b <? 65536)).
    - apply (alookup2_forall _ comp_bmp_table a b r); [vm_compute; reflexivity|exact H].
    - apply (alookup2_forall _ comp_astral_table a b r); [vm_compute; reflexivity|exact H]. }
  unfold comp_entry_ok in P. repeat (apply andb_true_iff in P as [P ?]).
  repeat match goal with H : negb _ = true |- _ => apply negb_true_iff in H end.
  match goal with H : (768 <=? b) = true |- _ => apply N.leb_le in H end. auto.
Qed.

Lemma not_ws_of_bounds c : (c <= 160 \/ c = 5760 \/ (8192 <= c /\ c <= 12288) -> False) -> is_ws c = false.
Proof. intros H. destruct (is_ws c) eqn:E; [|reflexivity]. exfalso. apply H, ws_cases, E. Qed.

(** neither the two code points of a composing pair nor the composite is White_Space, and the
    second is never below U+0300 *)
Lemma compose_some a b r :
  compose a b = Some r -> is_ws a = false /\ is_ws b = false /\ is_ws r = false /\ 768 <= b.
Proof.
  unfold compose. destruct (compose_hangul a b) as [h|] eqn:E.
  - intros H. injection H as <-. apply compose_hangul_some in E.
    repeat split; try (apply not_ws_of_bounds); lia.
  - apply composition_table_some.
Qed.

Lemma compose_ws_r x z : is_ws z = true -> compose x z = None.
Proof.
  intros H. destruct (compose x z) as [r|] eqn:E; [|reflexivity].
  apply compose_some in E as (_ & E & _). congruence.
Qed.
Lemma compose_ws_l z x : is_ws z = true -> compose z x = None.
Proof.
  intros H. destruct (compose z x) as [r|] eqn:E; [|reflexivity].
  apply compose_some in E as (E & _). congruence.
Qed.
Lemma compose_small_r x c : c < 768 -> compose x c = None.
Proof.
  intros H. destruct (compose x c) as [r|] eqn:E; [|reflexivity].
  apply compose_some in E as (_ & _ & _ & E). lia.
Qed.

(** * B. The composition loop *)

(** the states [Recompositions] can be in: an empty buffer exactly when [last_ccc] is [None];
    no composee only at the very beginning *)
Definition st_ok (co last : option N) (buf : list N) : Prop :=
  (last = None -> buf = []) /\ (co = None -> last = None).

Lemma st_ok_init : st_ok None None [].
Proof. split; reflexivity. Qed.

(** a starter [z] that nothing composes with cuts the loop in two *)
Lemma comp_loop_split u : forall co last buf z v,
  st_ok co last buf -> ccc z = 0 -> (forall x, compose x z = None) ->
  comp_loop co last buf (u ++ z :: v) = comp_loop co last buf u ++ comp_loop (Some z) None [] v.
Proof.
  induction u as [|ch u IH]; intros co last buf z v [S1 S2] Hz Hc.
  - cbn [app comp_loop]. rewrite Hz. cbn [N.eqb negb].
    destruct co as [k|].
    + destruct last as [l|].
      * replace (0 <=? l) with true by (symmetry; apply N.leb_le; lia).
        reflexivity.
      * rewrite (S1 eq_refl), Hc. reflexivity.
    + rewrite (S2 eq_refl) in *. rewrite (S1 eq_refl). reflexivity.
  - cbn [app comp_loop]. destruct co as [k|].
    + destruct last as [l|].
      * destruct (ccc ch <=? l).
        -- destruct (ccc ch =? 0).
           ++ cbn [app]. rewrite <- app_assoc. do 2 f_equal. apply IH; [split; [reflexivity|discriminate]|exact Hz|exact Hc].
           ++ apply IH; [split; discriminate|exact Hz|exact Hc].
        -- destruct (compose k ch); apply IH; try exact Hz; try exact Hc; split; discriminate.
      * specialize (S1 eq_refl). subst buf. destruct (compose k ch).
        -- apply IH; [split; [reflexivity|discriminate]|exact Hz|exact Hc].
        -- destruct (ccc ch =? 0).
           ++ cbn [app]. f_equal. apply IH; [split; [reflexivity|discriminate]|exact Hz|exact Hc].
           ++ apply IH; [split; discriminate|exact Hz|exact Hc].
    + specialize (S2 eq_refl). subst last. specialize (S1 eq_refl). subst buf.
      destruct (negb (ccc ch =? 0)).
      * cbn [app]. f_equal. apply IH; [split; reflexivity|exact Hz|exact Hc].
      * apply IH; [split; [reflexivity|discriminate]|exact Hz|exact Hc].
Qed.

(** a composee that composes with nothing is emitted unchanged, and what follows is composed as
    at the start of a text *)
Lemma comp_loop_inert v : forall z last buf,
  (last = None -> buf = []) -> (forall x, compose z x = None) ->
  comp_loop (Some z) last buf v = z :: rev buf ++ comp_loop None None [] v.
Proof.
  induction v as [|ch r IH]; intros z last buf S1 Hc.
  - cbn [comp_loop]. rewrite app_nil_r. reflexivity.
  - cbn [comp_loop]. rewrite Hc.
    assert (Push : forall l', comp_loop (Some z) (Some l') (ch :: buf) r
                              = z :: rev buf ++ ch :: comp_loop None None [] r).
    { intros l'. rewrite (IH z (Some l') (ch :: buf)) by (discriminate || exact Hc).
      cbn [rev]. rewrite <- app_assoc. reflexivity. }
    destruct last as [l|].
    + destruct (ccc ch <=? l) eqn:El.
      * destruct (ccc ch =? 0); cbn [negb]; [reflexivity|apply Push].
      * destruct (ccc ch =? 0) eqn:E; cbn [negb]; [|apply Push].
        apply N.eqb_eq in E. rewrite E in El. apply N.leb_gt in El. lia.
    + rewrite (S1 eq_refl) in *. destruct (ccc ch =? 0); cbn [negb rev app]; [reflexivity|].
      rewrite Push. reflexivity.
Qed.

Definition inert (z : N) : Prop :=
  ccc z = 0 /\ (forall x, compose x z = None) /\ (forall x, compose z x = None).

Lemma recompose_split u z v :
  inert z -> recompose (u ++ z :: v) = recompose u ++ z :: recompose v.
Proof.
  intros (Hz & H1 & H2). unfold recompose.
  rewrite (comp_loop_split u None None [] z v st_ok_init Hz H1).
  rewrite (comp_loop_inert v z None []) by (reflexivity || exact H2). reflexivity.
Qed.

Lemma ws_inert z : is_ws z = true -> inert z.
Proof.
  intros H. split; [apply ccc_ws, H|]. split; intros x; [apply compose_ws_r|apply compose_ws_l]; exact H.
Qed.

(** what the loop returns satisfies every predicate that holds of its input and is preserved
    by composition *)
Lemma comp_loop_Forall (P : N -> Prop) :
  (forall a b r, compose a b = Some r -> P r) ->
  forall s co last buf,
  Forall P s -> (forall k, co = Some k -> P k) -> Forall P buf -> Forall P (comp_loop co last buf s).
Proof.
  intros HP. induction s as [|ch r IH]; intros co last buf Hs Hco Hbuf.
  - cbn [comp_loop]. destruct co as [k|]; [constructor; [apply Hco; reflexivity|]|]; apply Forall_rev; exact Hbuf.
  - inversion Hs as [|? ? Hch Hr]; subst. cbn [comp_loop].
    assert (Hsome : forall x, P x -> forall k, Some x = Some k -> P k) by (intros x Hx k E; injection E as <-; exact Hx).
    destruct co as [k|].
    + pose proof (Hco k eq_refl) as Hk. destruct last as [l|].
      * destruct (ccc ch <=? l).
        -- destruct (ccc ch =? 0).
           ++ constructor; [exact Hk|]. apply Forall_app. split; [apply Forall_rev; exact Hbuf|].
              apply IH; [exact Hr|apply Hsome, Hch|constructor].
           ++ apply IH; [exact Hr|exact Hco|constructor; assumption].
        -- destruct (compose k ch) as [k'|] eqn:E.
           ++ apply IH; [exact Hr|apply Hsome, (HP _ _ _ E)|exact Hbuf].
           ++ apply IH; [exact Hr|exact Hco|constructor; assumption].
      * destruct (compose k ch) as [k'|] eqn:E.
        -- apply IH; [exact Hr|apply Hsome, (HP _ _ _ E)|exact Hbuf].
        -- destruct (ccc ch =? 0).
           ++ constructor; [exact Hk|]. apply IH; [exact Hr|apply Hsome, Hch|exact Hbuf].
           ++ apply IH; [exact Hr|exact Hco|constructor; assumption].
    + destruct (negb (ccc ch =? 0)).
      * constructor; [exact Hch|]. apply IH; [exact Hr|exact Hco|exact Hbuf].
      * apply IH; [exact Hr|apply Hsome, Hch|exact Hbuf].
Qed.

Lemma comp_loop_some_nonempty s : forall k last buf, comp_loop (Some k) last buf s <> [].
Proof.
  induction s as [|ch r IH]; intros k last buf; cbn [comp_loop]; [discriminate|].
  destruct last as [l|].
  - destruct (ccc ch <=? l); [destruct (ccc ch =? 0); [discriminate|apply IH]|].
    destruct (compose k ch); apply IH.
  - destruct (compose k ch); [apply IH|]. destruct (ccc ch =? 0); [discriminate|apply IH].
Qed.

Lemma recompose_nonempty s : s <> [] -> recompose s <> [].
Proof.
  destruct s as [|ch r]; [congruence|]. intros _. unfold recompose. cbn [comp_loop].
  destruct (negb (ccc ch =? 0)); [discriminate|apply comp_loop_some_nonempty].
Qed.

(** * C. ASCII text is fixed by every form *)
Lemma comp_loop_ascii s : forall k, Forall (fun c => c <= 127) s -> comp_loop (Some k) None [] s = k :: s.
Proof.
  induction s as [|ch r IH]; intros k H; [reflexivity|]. inversion H as [|? ? Hc Hr]; subst.
  cbn [comp_loop]. rewrite compose_small_r by lia. rewrite ccc_small by lia. cbn [N.eqb].
  rewrite IH by exact Hr. reflexivity.
Qed.

Lemma recompose_ascii s : Forall (fun c => c <= 127) s -> recompose s = s.
Proof.
  destruct s as [|c r]; [reflexivity|]. intros H. inversion H as [|? ? Hc Hr]; subst.
  unfold recompose. cbn [comp_loop]. rewrite ccc_small by lia. cbn [N.eqb negb].
  apply comp_loop_ascii. exact Hr.
Qed.

Lemma nf_ascii_l f s : Forall (fun c => c <= 127) s -> nf f s = s.
Proof.
  intros H. destruct f; cbn [nf]; unfold nfc, nfkc;
    try (change (nfd s) with (nfxd false s)); try (change (nfkd s) with (nfxd true s));
    rewrite (nfxd_ascii _ s H); try reflexivity; apply recompose_ascii, H.
Qed.

Lemma nf_nil_l f : nf f [] = [].
Proof. destruct f; reflexivity. Qed.

Lemma normalize_ascii_l f g s : Forall (fun c => c <= 127) s -> normalize_model f g s = s.
Proof.
  intros H. unfold normalize_model. destruct g; [|apply nf_ascii_l, H].
  rewrite flat_map_concat_map.
  assert (E : map (nf f) (segment s) = segment s).
  { rewrite <- (map_id (segment s)) at 2. apply map_ext_in. intros cl Hcl. apply nf_ascii_l.
    rewrite Forall_forall in *. intros x Hx. apply H. rewrite <- (segment_concat_l s).
    apply in_concat. exists cl. split; assumption. }
  rewrite E. apply segment_concat_l.
Qed.

(** * D. Every form splits at White_Space *)

(** U+0020 is ASCII: it decomposes to itself *)
Lemma nfxd_split_space k u v : nfxd k (u ++ 32 :: v) = nfxd k u ++ 32 :: nfxd k v.
Proof.
  unfold nfxd. rewrite decompose_app. unfold decompose at 2. cbn [flat_map].
  rewrite (decompose_char_ascii k 32) by lia. cbn [app].
  change (flat_map (decompose_char k) v) with (decompose k v).
  apply reorder_split. apply ccc_small. lia.
Qed.

Lemma nf_split_space f u v : nf f (u ++ 32 :: v) = nf f u ++ 32 :: nf f v.
Proof.
  assert (I32 : inert 32) by (apply ws_inert; reflexivity).
  destruct f; cbn [nf]; unfold nfc, nfkc;
    try (change nfd with (nfxd false)); try (change nfkd with (nfxd true));
    rewrite nfxd_split_space; try reflexivity; apply recompose_split, I32.
Qed.

Lemma nf_join f W : nf f (join [32] W) = join [32] (map (nf f) W).
Proof.
  induction W as [|w r IH]; [apply nf_nil_l|]. destruct r as [|w' r']; [reflexivity|].
  unfold str, cp in *. rewrite join_cons by discriminate.
  change (map (nf f) (w :: w' :: r')) with (nf f w :: map (nf f) (w' :: r')).
  rewrite (@join_cons N [32] (nf f w) (map (nf f) (w' :: r'))) by discriminate.
  cbn [app]. rewrite nf_split_space, IH. reflexivity.
Qed.

(** * E. KF3: which code points make NFKC write White_Space *)

Lemma nfkc_makes_space_eq :
  nfkc_makes_space =
  filter makes_space (map fst compat_decomp_table)
  ++ filter (fun c => makes_space c
                      && match compatibility_fully_decomposed c with Some _ => false | None => true end)
            (map fst canon_decomp_table).
Proof. vm_compute. reflexivity. Qed.

Lemma makes_space_sound c : In c nfkc_makes_space -> makes_space c = true.
Proof.
  assert (F : forallb makes_space nfkc_makes_space = true) by (vm_compute; reflexivity).
  rewrite forallb_forall in F. apply F.
Qed.

Lemma hangul_not_ws c : 4352 <= c -> c <= 4607 -> is_ws c = false.
Proof. intros H1 H2. apply not_ws_of_bounds. lia. Qed.

(** nothing is missed: the finite set contains every code point with that property *)
Lemma makes_space_complete c : makes_space c = true -> In c nfkc_makes_space.
Proof.
  unfold makes_space. intros H. apply andb_true_iff in H as [Hn He]. apply negb_true_iff in Hn.
  pose proof He as He0. unfold decompose_char in He.
  destruct (c <=? 127) eqn:E1.
  { cbn [existsb] in He. rewrite Hn in He. discriminate. }
  destruct (is_hangul_syllable c) eqn:E2.
  { exfalso. destruct (hangul_parts c E2) as (Hl & Hv & Ht). cbv zeta in *.
    unfold decompose_hangul in He.
    set (li := (c - S_BASE) / N_COUNT) in *. set (vi := (c - S_BASE) mod N_COUNT / T_COUNT) in *.
    set (ti := (c - S_BASE) mod T_COUNT) in *. clearbody li vi ti.
    unfold L_BASE, V_BASE, T_BASE, L_COUNT, V_COUNT, T_COUNT in *.
    cbn [existsb] in He. rewrite (hangul_not_ws (4352 + li)), (hangul_not_ws (4449 + vi)) in He by lia.
    destruct (0 <? ti); cbn [existsb orb] in He; [|discriminate].
    rewrite (hangul_not_ws (4519 + ti)) in He by lia. discriminate. }
  assert (Hms : makes_space c = true) by (unfold makes_space; rewrite Hn, He0; reflexivity).
  rewrite nfkc_makes_space_eq. apply in_or_app.
  destruct (table_decomposition true c) as [d|] eqn:E3.
  - rewrite table_decomposition_spec_l in E3.
    destruct (alookup compat_decomp_table c) as [v|] eqn:E4.
    + left. apply (proj2 (filter_In makes_space c (map fst compat_decomp_table))).
      split; [|exact Hms]. apply in_map_iff. exists (c, v).
      split; [reflexivity|apply alookup_in, E4].
    + right.
      apply (proj2 (filter_In (fun c => makes_space c
                      && match compatibility_fully_decomposed c with Some _ => false | None => true end)
                              c (map fst canon_decomp_table))).
      split.
      * apply in_map_iff. exists (c, d). split; [reflexivity|apply alookup_in, E3].
      * rewrite Hms. unfold compatibility_fully_decomposed. rewrite compat_trie_spec, E4. reflexivity.
  - cbn [existsb] in He. rewrite Hn in He. discriminate.
Qed.

Lemma makes_space_iff c : In c nfkc_makes_space <-> makes_space c = true.
Proof. split; [apply makes_space_sound|apply makes_space_complete]. Qed.

Definition nows (s : list N) : Prop := Forall (fun c => is_ws c = false) s.

Lemma nows_forallb s : nows s <-> forallb nonws_cp s = true.
Proof.
  unfold nows, nonws_cp. rewrite forallb_forall, Forall_forall. split; intros H x Hx.
  - rewrite (H x Hx). reflexivity.
  - apply negb_true_iff. apply H. exact Hx.
Qed.

(** a White_Space-free word without code points of the set keeps these two properties *)
Lemma decompose_nows s :
  nows s -> (forall c, In c s -> ~ In c nfkc_makes_space) -> nows (decompose true s).
Proof.
  induction s as [|c s IH]; intros Hn Hs; [constructor|]. inversion Hn as [|? ? Hc Hr]; subst.
  unfold decompose. cbn [flat_map]. apply Forall_app. split.
  - destruct (existsb is_ws (decompose_char true c)) eqn:E.
    + exfalso. apply (Hs c (or_introl eq_refl)). apply makes_space_complete.
      unfold makes_space. rewrite Hc, E. reflexivity.
    + unfold nows. rewrite Forall_forall. intros x Hx.
      destruct (is_ws x) eqn:Ex; [|reflexivity].
      assert (existsb is_ws (decompose_char true c) = true) by (apply existsb_exists; exists x; auto).
      congruence.
  - apply IH; [exact Hr|]. intros x Hx. apply Hs. right. exact Hx.
Qed.

Lemma recompose_nows s : nows s -> nows (recompose s).
Proof.
  intros H. unfold recompose. apply (comp_loop_Forall (fun c => is_ws c = false)).
  - intros a b r E. apply compose_some in E as (_ & _ & E & _). exact E.
  - exact H.
  - discriminate.
  - constructor.
Qed.

Lemma nfkc_word w :
  w <> [] -> nows w -> (forall c, In c w -> ~ In c nfkc_makes_space) ->
  nfkc w <> [] /\ nows (nfkc w).
Proof.
  intros Hne Hn Hs. unfold nfkc. change (nfkd w) with (nfxd true w).
  pose proof (nfxd_perm true w) as P. split.
  - apply recompose_nonempty. intros E. rewrite E in P. apply Permutation_nil in P.
    apply (decompose_nonempty true w Hne P).
  - apply recompose_nows. unfold nows. apply (Permutation_Forall (Permutation_sym P)).
    apply decompose_nows; assumption.
Qed.

Lemma in_join_words W c : In c (join [32] W) -> c = 32 \/ exists w, In w W /\ In c w.
Proof.
  induction W as [|w r IH]; [contradiction|]. destruct r as [|w' r'].
  - cbn [join]. intros H. right. exists w. split; [left; reflexivity|exact H].
  - unfold str, cp in *. rewrite join_cons by discriminate. intros H. apply in_app_or in H as [H|H].
    + right. exists w. split; [left; reflexivity|exact H].
    + cbn [app] in H. destruct H as [H|H]; [left; symmetry; exact H|].
      destruct (IH H) as [E|(x & Hx & Hc)]; [left; exact E|]. right. exists x. split; [right; exact Hx|exact Hc].
Qed.

Lemma in_words_in s w c : In w (words s) -> In c w -> In c s.
Proof.
  intros Hw Hc. unfold words in Hw. revert w Hw Hc.
  induction s as [|x r IH]; intros w Hw Hc; [contradiction|]. cbn [wordsP] in Hw.
  destruct (is_ws x).
  - right. apply (IH w Hw Hc).
  - unfold attach in Hw. destruct (head_is (fun y => negb (is_ws y)) r).
    + destruct (wordsP is_ws r) as [|w0 rest] eqn:E.
      * destruct Hw as [<-|[]]. destruct Hc as [<-|[]]. left. reflexivity.
      * destruct Hw as [<-|Hw].
        -- destruct Hc as [<-|Hc]; [left; reflexivity|]. right. apply (IH w0); [left; reflexivity|exact Hc].
        -- right. apply (IH w); [right; exact Hw|exact Hc].
    + destruct Hw as [<-|Hw].
      * destruct Hc as [<-|[]]. left. reflexivity.
      * right. apply (IH w Hw Hc).
Qed.

(** KF3, positive side: NFKC of a whitespace-clean text is whitespace-clean provided the text
    avoids the finite set [nfkc_makes_space] *)
Lemma nfkc_keeps_clean_l s :
  cleansb s = true -> (forall c, In c s -> ~ In c nfkc_makes_space) -> cleansb (nfkc s) = true.
Proof.
  intros Hc Hs. apply cleansb_iff in Hc. rewrite Hc. change (nfkc (join [32] (words s))) with (nf NFKC (join [32] (words s))).
  rewrite nf_join. apply cleansb_join. rewrite Forall_forall. intros w' Hw'.
  apply in_map_iff in Hw' as (w & <- & Hw).
  pose proof (words_ok s) as Hok. rewrite Forall_forall in Hok. destruct (Hok w Hw) as [Hne Hn].
  destruct (nfkc_word w Hne (proj2 (nows_forallb w) Hn)) as [H1 H2].
  - intros c Hcw. apply Hs. apply (in_words_in s w c Hw Hcw).
  - split; [exact H1|]. apply nows_forallb. exact H2.
Qed.

(** the same for the three other forms needs no side condition at all for NFC / NFD (canonical
    decompositions contain no White_Space), and the same set for NFKD *)
Lemma canon_nows c : is_ws c = false -> nows (decompose_char false c).
Proof.
  intros Hc. unfold decompose_char.
  destruct (c <=? 127); [constructor; [exact Hc|constructor]|].
  destruct (is_hangul_syllable c) eqn:E2.
  { destruct (hangul_parts c E2) as (Hl & Hv & Ht). cbv zeta in *. unfold decompose_hangul.
    set (li := (c - S_BASE) / N_COUNT) in *. set (vi := (c - S_BASE) mod N_COUNT / T_COUNT) in *.
    set (ti := (c - S_BASE) mod T_COUNT) in *. clearbody li vi ti.
    unfold L_BASE, V_BASE, T_BASE, L_COUNT, V_COUNT, T_COUNT in *.
    constructor; [apply hangul_not_ws; lia|]. constructor; [apply hangul_not_ws; lia|].
    destruct (0 <? ti); [|constructor]. constructor; [apply hangul_not_ws; lia|constructor]. }
  destruct (table_decomposition false c) as [d|] eqn:E3; [|constructor; [exact Hc|constructor]].
  rewrite table_decomposition_spec_l in E3.
  (* U+2000 -> U+2002 and U+2001 -> U+2003 are canonical singletons, but their keys are White_Space *)
  pose proof (alookup_forall (fun e : N * list N => is_ws (fst e) || forallb nonws_cp (snd e)) canon_decomp_table c d
                ltac:(vm_compute; reflexivity) E3) as P.
  cbn beta iota delta [fst snd] in P. rewrite Hc in P. apply nows_forallb. exact P.
Qed.

Lemma nfc_keeps_clean_l s : cleansb s = true -> cleansb (nfc s) = true /\ cleansb (nfd s) = true.
Proof.
  intros Hc. apply cleansb_iff in Hc. rewrite Hc.
  change (nfc (join [32] (words s))) with (nf NFC (join [32] (words s))).
  change (nfd (join [32] (words s))) with (nf NFD (join [32] (words s))).
  rewrite !nf_join.
  assert (W : forall w, In w (words s) -> nfd w <> [] /\ nows (nfd w)).
  { intros w Hw. pose proof (words_ok s) as Hok. rewrite Forall_forall in Hok. destruct (Hok w Hw) as [Hne Hn].
    change (nfd w) with (nfxd false w). pose proof (nfxd_perm false w) as P. split.
    - intros E. rewrite E in P. apply Permutation_nil in P. apply (decompose_nonempty false w Hne P).
    - unfold nows. apply (Permutation_Forall (Permutation_sym P)).
      apply nows_forallb in Hn. clear -Hn. induction Hn as [|c r Hcw _ IH]; [constructor|].
      unfold decompose. cbn [flat_map]. apply Forall_app. split; [apply canon_nows, Hcw|exact IH]. }
  split; apply cleansb_join; rewrite Forall_forall; intros w' Hw'; apply in_map_iff in Hw' as (w & <- & Hw);
    destruct (W w Hw) as [H1 H2]; cbn [nf].
  - split; [apply recompose_nonempty, H1|]. apply nows_forallb. apply recompose_nows, H2.
  - split; [exact H1|]. apply nows_forallb, H2.
Qed.

(** KF3, negative side: "x ¨" is whitespace-clean, its NFKC "x  ̈" is not (two spaces); the same
    per grapheme cluster, where the second space also joins U+0308 into a mixed cluster *)
Lemma nfkc_breaks_clean_l :
  exists s, cleansb s = true /\ cleansb (nfkc s) = false
            /\ cleansb (normalize_model NFKC true s) = false
            /\ no_mixedb s = true /\ no_mixedb (normalize_model NFKC true s) = false.
Proof. exists [120; 32; 168]. vm_compute. repeat split; reflexivity. Qed.

(** C15 proofs, part 4: the purpose of the exclusion set along a chain. The
    characters at unprotected positions after any number of chained calls are
    characters of the original word that no call has consumed or written, in their
    original order (so no position is ever edited twice). *)
From TU Require Import Base C15_Model C15_Proofs C15_Apply.
From Coq Require Import Lia.

(** [unprot_from] and [unprot] (the characters at positions outside the exclusion set)
    and [subseq] are defined in C15_Model.v *)

Lemma mem_ext a ex b ex' : (In a ex <-> In b ex') -> mem a ex = mem b ex'.
Proof.
  intros H. destruct (mem a ex) eqn:E1, (mem b ex') eqn:E2; try reflexivity.
  - apply mem_In in E1. apply H in E1. apply mem_In in E1. congruence.
  - apply mem_In in E2. apply H in E2. apply mem_In in E2. congruence.
Qed.

Lemma unprot_from_app i a b ex :
  unprot_from i (a ++ b) ex = unprot_from i a ex ++ unprot_from (i + length a) b ex.
Proof.
  revert i. induction a as [|x a IH]; intros i; cbn [app unprot_from length].
  - rewrite Nat.add_0_r. reflexivity.
  - rewrite IH. replace (S i + length a) with (i + S (length a)) by lia.
    destruct (mem i ex); reflexivity.
Qed.

Lemma unprot_from_ext a : forall i ex i' ex',
  (forall j, j < length a -> (In (i + j) ex <-> In (i' + j) ex')) ->
  unprot_from i a ex = unprot_from i' a ex'.
Proof.
  induction a as [|x a IH]; intros i ex i' ex' H; cbn [unprot_from]; [reflexivity|].
  rewrite (mem_ext i ex i' ex').
  2:{ specialize (H 0). rewrite !Nat.add_0_r in H. apply H. cbn. lia. }
  rewrite (IH (S i) ex (S i') ex').
  2:{ intros j Hj. specialize (H (S j)). replace (S i + j) with (i + S j) by lia.
      replace (S i' + j) with (i' + S j) by lia. apply H. cbn. lia. }
  reflexivity.
Qed.

Lemma unprot_from_all a : forall i ex,
  (forall j, j < length a -> In (i + j) ex) -> unprot_from i a ex = [].
Proof.
  induction a as [|x a IH]; intros i ex H; cbn [unprot_from]; [reflexivity|].
  assert (E : mem i ex = true).
  { apply mem_In. specialize (H 0). rewrite Nat.add_0_r in H. apply H. cbn. lia. }
  rewrite E. apply IH. intros j Hj. replace (S i + j) with (i + S j) by lia. apply H. cbn. lia.
Qed.

(** * The new exclusion set, position by position *)
Lemma in_excl_ins idx e ex x :
  In x (apply_excl (EIns idx e) ex) <->
  (x < idx /\ In x ex) \/ (idx <= x < idx + length e) \/ (idx + length e <= x /\ In (x - length e) ex).
Proof.
  cbn [apply_excl new_pos]. rewrite in_app_iff, in_map_iff, in_seq. cbn [shift_of]. split.
  - intros [(p & Hs & Hp)|H]; [|right; left; lia].
    destruct (Nat.leb_spec idx p); subst x.
    + right. right. split; [lia|]. replace (p + length e - length e) with p by lia. exact Hp.
    + left. split; [lia | exact Hp].
  - intros [[H1 H2]|[H|[H1 H2]]]; [left | right; lia | left].
    + exists x. split; [|exact H2]. destruct (Nat.leb_spec idx x); lia.
    + exists (x - length e). split; [|exact H2]. destruct (Nat.leb_spec idx (x - length e)); lia.
Qed.

Lemma in_excl_del idx ex x :
  ~ In idx ex ->
  (In x (apply_excl (EDel idx) ex) <-> (x < idx /\ In x ex) \/ (idx <= x /\ In (S x) ex)).
Proof.
  intros Hn. cbn [apply_excl new_pos]. rewrite app_nil_r, in_map_iff. cbn [shift_of]. split.
  - intros (p & Hs & Hp). destruct (Nat.ltb_spec idx p); subst x.
    + right. split; [lia|]. replace (S (p - 1)) with p by lia. exact Hp.
    + assert (p <> idx) by (intros ->; exact (Hn Hp)). left. split; [lia | exact Hp].
  - intros [[H1 H2]|[H1 H2]].
    + exists x. split; [|exact H2]. destruct (Nat.ltb_spec idx x); lia.
    + exists (S x). split; [|exact H2]. destruct (Nat.ltb_spec idx (S x)); lia.
Qed.

Lemma in_excl_rep idx e ex x :
  ~ In idx ex ->
  (In x (apply_excl (ERep idx e) ex) <->
   (x < idx /\ In x ex) \/ (idx <= x < idx + length e) \/
   (idx + length e <= x /\ In (S x - length e) ex)).
Proof.
  intros Hn. cbn [apply_excl new_pos]. rewrite in_app_iff, in_map_iff, in_seq. cbn [shift_of]. split.
  - intros [(p & Hs & Hp)|H]; [|right; left; lia].
    destruct (Nat.ltb_spec idx p); subst x.
    + right. right. split; [lia|]. replace (S (p + length e - 1) - length e) with p by lia. exact Hp.
    + assert (p <> idx) by (intros ->; exact (Hn Hp)). left. split; [lia | exact Hp].
  - intros [[H1 H2]|[H|[H1 H2]]]; [left | right; lia | left].
    + exists x. split; [|exact H2]. destruct (Nat.ltb_spec idx x); lia.
    + exists (S x - length e). split; [|exact H2]. destruct (Nat.ltb_spec idx (S x - length e)); lia.
Qed.

Lemma in_excl_swap idx ex x :
  In x (apply_excl (ESwap idx) ex) <-> In x ex \/ x = idx \/ x = S idx.
Proof.
  cbn [apply_excl new_pos]. rewrite in_app_iff, in_map_iff. cbn [shift_of In]. split.
  - intros [(p & -> & Hp)|[H|[H|[]]]]; auto.
  - intros [H|[H|H]]; [left; exists x; auto | right; auto | right; auto].
Qed.

(** * One call: the unprotected characters afterwards are the unprotected characters before,
    minus the consumed ones *)
Lemma unprot_step c w ex k :
  valid_ed c w ex k ->
  unprot (apply_word k w) (apply_excl k ex) = unprot w (old_pos k ++ ex).
Proof.
  unfold unprot. destruct k as [|idx e|idx|idx e|idx]; intros V.
  - reflexivity.
  - destruct V as (_ & Hi & _). destruct (apply_ins_shape w idx e Hi) as (a & b & -> & Ha & ->).
    cbn [old_pos app]. rewrite !unprot_from_app. cbn [Nat.add].
    rewrite (unprot_from_all e).
    2:{ intros j Hj. apply in_excl_ins. right. left. lia. }
    cbn [app]. f_equal.
    + apply unprot_from_ext. intros j Hj. cbn [Nat.add]. rewrite in_excl_ins.
      split; [intros [[_ H]|[H|[H _]]]; [exact H | lia | lia] | intros H; left; split; [lia | exact H]].
    + apply unprot_from_ext. intros j Hj. rewrite in_excl_ins.
      replace (length a + length e + j - length e) with (length a + j) by lia.
      split; [intros [[H _]|[H|[_ H]]]; [lia | lia | exact H] | intros H; right; right; split; [lia | exact H]].
  - destruct V as (_ & Hi & Hn). destruct (apply_del_shape w idx Hi) as (a & x & b & -> & Ha & ->).
    cbn [old_pos app]. rewrite !unprot_from_app. cbn [Nat.add].
    change (x :: b) with ([x] ++ b). rewrite unprot_from_app.
    rewrite (unprot_from_all [x]).
    2:{ intros j Hj. cbn in Hj. left. lia. }
    cbn [app length]. f_equal.
    + apply unprot_from_ext. intros j Hj. cbn [Nat.add]. rewrite (in_excl_del _ _ _ Hn). cbn [In].
      split; [intros [[_ H]|[H _]]; [right; exact H | lia] | intros [H|H]; [lia | left; split; [lia | exact H]]].
    + apply unprot_from_ext. intros j Hj. rewrite (in_excl_del _ _ _ Hn). cbn [In].
      replace (length a + 1 + j) with (S (length a + j)) by lia.
      split; [intros [[H _]|[_ H]]; [lia | right; exact H] | intros [H|H]; [lia | right; split; [lia | exact H]]].
  - destruct V as (_ & Hi & Hn & _). destruct (apply_rep_shape w idx e Hi) as (a & x & b & -> & Ha & ->).
    cbn [old_pos app]. rewrite !unprot_from_app. cbn [Nat.add].
    change (x :: b) with ([x] ++ b). rewrite unprot_from_app.
    rewrite (unprot_from_all [x]).
    2:{ intros j Hj. cbn in Hj. left. lia. }
    rewrite (unprot_from_all e).
    2:{ intros j Hj. apply (in_excl_rep _ _ _ _ Hn). right. left. lia. }
    cbn [app length]. f_equal.
    + apply unprot_from_ext. intros j Hj. cbn [Nat.add]. rewrite (in_excl_rep _ _ _ _ Hn). cbn [In].
      split; [intros [[_ H]|[H|[H _]]]; [right; exact H | lia | lia]
             | intros [H|H]; [lia | left; split; [lia | exact H]]].
    + apply unprot_from_ext. intros j Hj. rewrite (in_excl_rep _ _ _ _ Hn). cbn [In].
      replace (S (length a + length e + j) - length e) with (S (length a + j)) by lia.
      replace (length a + 1 + j) with (S (length a + j)) by lia.
      split; [intros [[H _]|[H|[_ H]]]; [lia | lia | right; exact H]
             | intros [H|H]; [lia | right; right; split; [lia | exact H]]].
  - destruct V as (_ & Hi & _). destruct (apply_swap_shape w idx Hi) as (a & x & y & b & -> & Ha & ->).
    cbn [old_pos app]. rewrite !unprot_from_app. cbn [Nat.add].
    change (y :: x :: b) with ([y; x] ++ b). change (x :: y :: b) with ([x; y] ++ b).
    rewrite !unprot_from_app.
    rewrite (unprot_from_all [y; x]).
    2:{ intros j Hj. cbn in Hj. apply in_excl_swap. right. lia. }
    rewrite (unprot_from_all [x; y]).
    2:{ intros j Hj. cbn in Hj. cbn [In]. lia. }
    cbn [app length]. f_equal.
    + apply unprot_from_ext. intros j Hj. cbn [Nat.add]. rewrite in_excl_swap. cbn [In].
      split; [intros [H|H]; [right; right; exact H | lia] | intros [H|[H|H]]; [lia | lia | left; exact H]].
    + apply unprot_from_ext. intros j Hj. rewrite in_excl_swap. cbn [In].
      split; [intros [H|H]; [right; right; exact H | lia] | intros [H|[H|H]]; [lia | lia | left; exact H]].
Qed.

(** * Subsequences *)
Lemma subseq_refl (l : list cluster) : subseq l l.
Proof. induction l; constructor; assumption. Qed.

Lemma subseq_trans (a b c : list cluster) : subseq a b -> subseq b c -> subseq a c.
Proof.
  intros H1 H2. revert a H1. induction H2 as [|x b c H IH|x b c H IH]; intros a H1.
  - exact H1.
  - inversion H1; subst.
    + constructor. apply IH. assumption.
    + apply sub_skip. apply IH. assumption.
  - apply sub_skip. apply IH. exact H1.
Qed.

Lemma subseq_nil (l : list cluster) : subseq [] l.
Proof. induction l; constructor; assumption. Qed.

(** protecting more positions leaves a subsequence *)
Lemma unprot_from_mono w : forall i ex ex',
  (forall x, In x ex -> In x ex') -> subseq (unprot_from i w ex') (unprot_from i w ex).
Proof.
  induction w as [|c w IH]; intros i ex ex' H; cbn [unprot_from]; [constructor|].
  destruct (mem i ex) eqn:E.
  - apply mem_In in E. apply H in E. apply mem_In in E. rewrite E. apply IH. exact H.
  - destruct (mem i ex'); [apply sub_skip | apply sub_take]; apply IH; exact H.
Qed.

Lemma unprot_step_sub c w ex k :
  valid_ed c w ex k -> subseq (unprot (apply_word k w) (apply_excl k ex)) (unprot w ex).
Proof.
  intros V. rewrite (unprot_step c w ex k V). apply unprot_from_mono.
  intros x Hx. apply in_or_app. right. exact Hx.
Qed.

Lemma chain_fresh_l c n s s' :
  chain c n s s' -> subseq (unprot (fst s') (snd s')) (unprot (fst s) (snd s)).
Proof.
  induction 1 as [s|n w ex cd cs l o s' Ho Hin Hc IH]; [apply subseq_refl|].
  eapply subseq_trans; [exact IH|].
  destruct (outcomes_In _ _ _ _ _ _ _ Ho Hin) as (k & V & ->). cbn [fst snd].
  eapply unprot_step_sub. exact V.
Qed.

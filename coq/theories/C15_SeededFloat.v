(** C15 seeded, part 1: binary64 facts about RNG_Model's [fround] / [fadd] / [fmul] / [fle] that
    [WeightedIndex<f64>] sampling needs, and their consequence
      [weighted_sample_f_pos]: when every weight is a canonical binary64 value and the total is a
      normal number, the index [WeightedIndex::new(ws).sample(rng)] returns names a POSITIVE weight,
      for every generator state
    (notes/RNG.md lists this as not proved; for a subnormal total it is false of rand itself).
    On the way: [fround_le] (rounding to nearest never passes a representable upper bound),
    [fround_canon] (results are canonical), [fadd_zero] (x + 0.0 = x), [new_bounded_noop]
    ([UniformFloat::new(0.0, high)] never shrinks its scale: the loop of [new_bounded] does not iterate). *)
From TU Require Import RNG_Model RNG_Proofs.
From TU Require Import Base C15_Model C15_Seeded.
Require Import Lia ZifyN ZArith.
Local Open Scope N_scope.
Local Arguments N.add : simpl never. Local Arguments N.mul : simpl never. Local Arguments N.land : simpl never.
Local Arguments N.shiftl : simpl never. Local Arguments N.shiftr : simpl never.
Local Arguments N.div : simpl never. Local Arguments N.modulo : simpl never. Local Arguments N.pow : simpl never.
Local Arguments N.ltb : simpl never. Local Arguments N.leb : simpl never. Local Arguments N.eqb : simpl never.
Local Arguments N.size : simpl never. Local Arguments N.odd : simpl never.
Local Arguments Z.add : simpl never. Local Arguments Z.sub : simpl never. Local Arguments Z.max : simpl never.
Local Arguments Z.min : simpl never. Local Arguments Z.leb : simpl never. Local Arguments Z.ltb : simpl never.
Local Arguments Z.to_N : simpl never. Local Arguments Z.of_N : simpl never.

Definition t52 : N := 4503599627370496.
Definition t53 : N := 9007199254740992.

Lemma t52_pow : t52 = 2 ^ 52. Proof. reflexivity. Qed.
Lemma t53_pow : t53 = 2 ^ 53. Proof. reflexivity. Qed.

(** * Powers of two *)
Lemma pow2_pos : forall k, 0 < 2 ^ k.
Proof. intros k. apply N.neq_0_lt_0, N.pow_nonzero. discriminate. Qed.

Lemma pow2_add : forall a b, 2 ^ (a + b) = 2 ^ a * 2 ^ b.
Proof. intros. apply N.pow_add_r. Qed.

Lemma pow2_le : forall a b, a <= b -> 2 ^ a <= 2 ^ b.
Proof. intros. apply N.pow_le_mono_r; [discriminate|assumption]. Qed.

Lemma pow2_lt : forall a b, a < b -> 2 ^ a < 2 ^ b.
Proof. intros. apply N.pow_lt_mono_r; [reflexivity|assumption]. Qed.

Lemma pow2_split : forall a b, a <= b -> 2 ^ b = 2 ^ (b - a) * 2 ^ a.
Proof. intros a b H. rewrite <- pow2_add. f_equal. lia. Qed.

(** [N.size]: the number of binary digits *)
Lemma size_bounds : forall m, m <> 0 -> 2 ^ (N.size m - 1) <= m < 2 ^ N.size m /\ 1 <= N.size m.
Proof.
  intros m Hm. rewrite N.size_log2 by exact Hm.
  destruct (N.log2_spec m ltac:(lia)) as [H1 H2].
  replace (N.succ (N.log2 m) - 1) with (N.log2 m) by lia. split; [split; assumption|lia].
Qed.

(** * The value order on (mantissa, exponent) pairs.
    [sc b m e] = m * 2^(e - b), an integer for b <= e. *)
Definition sc (b : Z) (m : N) (e : Z) : N := m * 2 ^ Z.to_N (e - b).

Lemma sc_rebase : forall b b' m e, (b' <= b)%Z -> (b <= e)%Z -> sc b' m e = sc b m e * 2 ^ Z.to_N (b - b').
Proof.
  intros b b' m e H1 H2. unfold sc. rewrite <- N.mul_assoc, <- pow2_add. do 2 f_equal. lia.
Qed.

(** m1 * 2^e1 <= m2 * 2^e2 *)
Definition dle (m1 : N) (e1 : Z) (m2 : N) (e2 : Z) : Prop :=
  sc (Z.min e1 e2) m1 e1 <= sc (Z.min e1 e2) m2 e2.

Lemma dle_base : forall b m1 e1 m2 e2, (b <= e1)%Z -> (b <= e2)%Z ->
  (dle m1 e1 m2 e2 <-> sc b m1 e1 <= sc b m2 e2).
Proof.
  intros b m1 e1 m2 e2 H1 H2. unfold dle.
  rewrite (sc_rebase (Z.min e1 e2) b m1 e1) by lia. rewrite (sc_rebase (Z.min e1 e2) b m2 e2) by lia.
  pose proof (pow2_pos (Z.to_N (Z.min e1 e2 - b))). split; intros H0; nia.
Qed.

Lemma dle_trans : forall m1 e1 m2 e2 m3 e3, dle m1 e1 m2 e2 -> dle m2 e2 m3 e3 -> dle m1 e1 m3 e3.
Proof.
  intros m1 e1 m2 e2 m3 e3 H1 H2. set (b := Z.min e1 (Z.min e2 e3)).
  apply (dle_base b) in H1; [|lia|lia]. apply (dle_base b) in H2; [|lia|lia]. apply (dle_base b); [lia|lia|lia].
Qed.

Lemma dle_refl : forall m e, dle m e m e.
Proof. intros. unfold dle. lia. Qed.

(** [falign] and the comparisons *)
Lemma falign_sc : forall m1 e1 m2 e2,
  falign m1 e1 m2 e2 = (sc (Z.min e1 e2) m1 e1, sc (Z.min e1 e2) m2 e2, Z.min e1 e2).
Proof. intros. unfold falign, sc. rewrite !N.shiftl_mul_pow2. reflexivity. Qed.

Lemma fle_dle : forall m1 e1 m2 e2, fle (Fin m1 e1) (Fin m2 e2) = true <-> dle m1 e1 m2 e2.
Proof. intros. unfold fle. rewrite falign_sc. unfold dle. apply N.leb_le. Qed.

Lemma fgt_dle : forall m1 e1 m2 e2, fgt (Fin m1 e1) (Fin m2 e2) = false <-> dle m1 e1 m2 e2.
Proof. intros. unfold fgt. rewrite falign_sc. unfold dle. rewrite N.ltb_ge. reflexivity. Qed.

(** * The structure of [fround]: a mantissa [q0] on the grid 2^e', e' = max (e + size m - 53) emin,
    obtained exactly (e' <= e) or by rounding m / 2^(e' - e) down or up, then renormalised *)
Definition norm (q0 : N) (e' : Z) : f64w :=
  let '(q, e2) := if q0 =? t53 then (t52, (e' + 1)%Z) else (q0, e') in
  if (971 <? e2)%Z then FInf else Fin q e2.

Lemma fround_struct : forall m e, m <> 0 ->
  let s := Z.of_N (N.size m) in
  let e' := Z.max (e + s - 53) emin in
  exists q0,
    fround m e = norm q0 e' /\
    q0 <= t53 /\
    ((emin <= e + s - 53)%Z -> t52 <= q0) /\
    ((e + s - 53 < emin)%Z -> q0 <= t52) /\
    ((e' <= e)%Z /\ q0 = m * 2 ^ Z.to_N (e - e')
     \/ (e < e')%Z /\ (q0 = m / 2 ^ Z.to_N (e' - e)
                       \/ (q0 = m / 2 ^ Z.to_N (e' - e) + 1 /\ m mod 2 ^ Z.to_N (e' - e) <> 0))).
Proof.
  intros m e Hm s e'. destruct (size_bounds m Hm) as [[Hlo Hhi] Hs1].
  unfold fround. replace (m =? 0) with false by (symmetry; apply N.eqb_neq; exact Hm).
  change (Z.max (e + Z.of_N (N.size m) - 53) emin) with e'.
  destruct (e' <=? e)%Z eqn:E.
  - apply Z.leb_le in E. set (k := Z.to_N (e - e')). exists (m * 2 ^ k).
    assert (Hk : N.size m + k <= 53) by (unfold k, e', s, emin in *; lia).
    assert (Hq : m * 2 ^ k < t53).
    { rewrite t53_pow. eapply N.lt_le_trans; [apply N.mul_lt_mono_pos_r; [apply pow2_pos|exact Hhi]|].
      rewrite <- pow2_add. apply pow2_le. exact Hk. }
    split; [|split; [lia|split; [|split; [|left; split; [exact E|reflexivity]]]]].
    + unfold norm. replace (m * 2 ^ k =? t53) with false by (symmetry; apply N.eqb_neq; lia).
      rewrite N.shiftl_mul_pow2. reflexivity.
    + intros Hn. assert (Hk' : N.size m - 1 + k = 52) by (unfold k, e', s, emin in *; lia).
      rewrite t52_pow, <- Hk', pow2_add. apply N.mul_le_mono_r. exact Hlo.
    + intros Hn. assert (Hk' : N.size m + k <= 52) by (unfold k, e', s, emin in *; lia).
      rewrite t52_pow. apply N.lt_le_incl. eapply N.lt_le_trans; [apply N.mul_lt_mono_pos_r; [apply pow2_pos|exact Hhi]|].
      rewrite <- pow2_add. apply pow2_le. exact Hk'.
  - apply Z.leb_gt in E. set (sh := Z.to_N (e' - e)).
    assert (Hsh : 1 <= sh) by (unfold sh; lia).
    cbv zeta. fold sh. rewrite N.shiftr_div_pow2, land_ones_mod.
    set (d := m / 2 ^ sh). set (r := m mod 2 ^ sh).
    pose proof (pow2_pos sh) as Hp.
    pose proof (N.div_mod m (2 ^ sh) ltac:(lia)) as Hdm. fold d r in Hdm.
    pose proof (N.mod_lt m (2 ^ sh) ltac:(lia)) as Hr. fold r in Hr.
    (* d < 2^(size - sh), or d = 0 *)
    assert (Hd53 : d < t53).
    { unfold d. apply N.div_lt_upper_bound; [lia|]. rewrite t53_pow, <- pow2_add.
      eapply N.lt_le_trans; [exact Hhi|]. apply pow2_le. unfold sh, e', s, emin in *. lia. }
    assert (Hd52lo : (emin <= e + s - 53)%Z -> t52 <= d).
    { intros Hn. unfold d. apply N.div_le_lower_bound; [lia|]. rewrite t52_pow, <- pow2_add.
      eapply N.le_trans; [|exact Hlo]. apply pow2_le. unfold sh, e', s, emin in *. lia. }
    assert (Hd52hi : (e + s - 53 < emin)%Z -> d < t52).
    { intros Hn. unfold d. apply N.div_lt_upper_bound; [lia|]. rewrite t52_pow, <- pow2_add.
      eapply N.lt_le_trans; [exact Hhi|]. apply pow2_le. unfold sh, e', s, emin in *. lia. }
    rewrite N.shiftl_1_l.
    set (up := (2 ^ (sh - 1) <? r) || (2 ^ (sh - 1) =? r) && N.odd d).
    assert (Hup : up = true -> r <> 0).
    { unfold up. intros Hu. pose proof (pow2_pos (sh - 1)). apply Bool.orb_true_iff in Hu as [Hu|Hu].
      - apply N.ltb_lt in Hu. lia.
      - apply Bool.andb_true_iff in Hu as [Hu _]. apply N.eqb_eq in Hu. lia. }
    exists (if up then d + 1 else d).
    split; [|split; [|split; [|split; [|right; split; [exact E|]]]]].
    + unfold norm. fold t53 t52. destruct up; reflexivity.
    + destruct up; lia.
    + intros Hn. specialize (Hd52lo Hn). destruct up; lia.
    + intros Hn. specialize (Hd52hi Hn). destruct up; lia.
    + destruct up; [right; split; [reflexivity|apply Hup; reflexivity]|left; reflexivity].
Qed.

(** * Canonical values *)
Definition fcan (m : N) (e : Z) : Prop :=
  (t52 <= m < t53 /\ (emin <= e <= 971)%Z) \/ (m < t52 /\ e = emin).

Lemma fcanon_iff : forall m e, fcanon (Fin m e) = true <-> fcan m e.
Proof.
  intros m e. unfold fcanon, fcan. fold t52 t53.
  rewrite Bool.orb_true_iff, !Bool.andb_true_iff, N.leb_le, !N.ltb_lt, !Z.leb_le, Z.eqb_eq. tauto.
Qed.

Lemma fround_zero : forall e, fround 0 e = Fin 0 emin.
Proof. reflexivity. Qed.

Lemma fround_canon : forall m e q e2, fround m e = Fin q e2 -> fcan q e2.
Proof.
  intros m e q e2 H. destruct (N.eq_dec m 0) as [->|Hm].
  - rewrite fround_zero in H. injection H as <- <-. right. split; [reflexivity|reflexivity].
  - destruct (fround_struct m e Hm) as (q0 & Hf & H53 & Hlo & Hhi & _). cbv zeta in *.
    rewrite Hf in H. unfold norm in H.
    set (s := Z.of_N (N.size m)) in *. set (e' := Z.max (e + s - 53) emin) in *.
    destruct (q0 =? t53) eqn:Eq.
    + destruct (971 <? e' + 1)%Z eqn:E9; [discriminate|]. apply Z.ltb_ge in E9. injection H as <- <-.
      left. unfold t52, t53, e', emin in *. split; lia.
    + apply N.eqb_neq in Eq. destruct (971 <? e')%Z eqn:E9; [discriminate|]. apply Z.ltb_ge in E9. injection H as <- <-.
      destruct (Z_le_gt_dec emin (e + s - 53)) as [Hn|Hn].
      * left. specialize (Hlo Hn). unfold e', emin in *. split; lia.
      * specialize (Hhi ltac:(lia)). destruct (N.eq_dec q0 t52) as [->|Hne].
        -- left. unfold e', emin, t52, t53 in *. split; lia.
        -- right. unfold e', emin in *. split; lia.
Qed.

(** * Rounding to nearest never passes a representable upper bound *)
Lemma pow2_lt_inv : forall a b, 2 ^ a < 2 ^ b -> a < b.
Proof. intros a b H. apply (N.pow_lt_mono_r_iff 2); [reflexivity|exact H]. Qed.

(** rounding m / P down, or up when the remainder is not zero, stays below Y when m <= Y * P *)
Lemma round_core : forall m P Y q0, 0 < P -> m <= Y * P ->
  (q0 = m / P \/ (q0 = m / P + 1 /\ m mod P <> 0)) -> q0 <= Y.
Proof.
  intros m P Y q0 HP H Hq.
  pose proof (N.div_mod m P ltac:(lia)) as Hdm. pose proof (N.mod_lt m P ltac:(lia)) as Hr.
  set (d := m / P) in *. set (r := m mod P) in *. clearbody d r.
  destruct Hq as [->|[-> Hr0]]; nia.
Qed.

(** a bound below the grid of the result is below the number itself *)
Lemma below_grid : forall m sz My a c, 2 ^ (sz - 1) <= m -> 1 <= sz -> My < 2 ^ 53 ->
  m * 2 ^ a <= My * 2 ^ c -> sz + a < 54 + c.
Proof.
  intros m sz My a c Hlo Hs HMy H.
  assert (L : 2 ^ (sz - 1 + a) < 2 ^ (53 + c)).
  { rewrite !pow2_add. eapply N.le_lt_trans; [apply N.mul_le_mono_r; exact Hlo|].
    eapply N.le_lt_trans; [exact H|]. apply N.mul_lt_mono_pos_r; [apply pow2_pos|exact HMy]. }
  apply pow2_lt_inv in L. lia.
Qed.

(** a normal mantissa above exponent 971 exceeds every representable bound *)
Lemma above_max : forall q e2 My Ey, dle q e2 My Ey -> t52 <= q -> My < t53 -> (Ey <= 971)%Z -> (971 < e2)%Z -> False.
Proof.
  intros q e2 My Ey Hd Hq HMy HEy He. apply (dle_base Ey) in Hd; [|lia|lia]. unfold sc in Hd.
  rewrite Z.sub_diag in Hd. change (Z.to_N 0) with 0 in Hd. rewrite N.pow_0_r, N.mul_1_r in Hd.
  assert (Hk : 1 <= Z.to_N (e2 - Ey)) by lia.
  pose proof (pow2_le 1 _ Hk) as Hp. change (2 ^ 1) with 2 in Hp.
  set (P := 2 ^ Z.to_N (e2 - Ey)) in *. clearbody P. clear Hk He HEy.
  assert (t53 <= q * P) by (change t53 with (t52 * 2); nia). lia.
Qed.

Lemma dle_renorm : forall e' My Ey, dle t53 e' My Ey -> dle t52 (e' + 1) My Ey.
Proof.
  intros e' My Ey Hv. set (b := Z.min e' Ey). apply (dle_base b) in Hv; [|lia|lia].
  apply (dle_base b); [lia|lia|]. unfold sc in *.
  replace (Z.to_N (e' + 1 - b)) with (1 + Z.to_N (e' - b)) by lia. rewrite pow2_add, N.mul_assoc.
  change (t52 * 2 ^ 1) with t53. exact Hv.
Qed.

(** exponent bookkeeping, kept away from the arithmetic hypotheses *)
Lemma exp_facts : forall e s, let e' := Z.max (e + s - 53) emin in
  (emin <= e')%Z /\ (e + s - 53 <= e')%Z /\ ((emin < e')%Z -> (emin <= e + s - 53)%Z /\ e' = (e + s - 53)%Z).
Proof. intros e s e'. unfold e', emin. lia. Qed.

Lemma to_N_split : forall a b c : Z, (c <= b <= a)%Z -> Z.to_N (a - b) + Z.to_N (b - c) = Z.to_N (a - c).
Proof. intros. lia. Qed.

Lemma fround_le : forall m e My Ey, My < t53 -> (emin <= Ey <= 971)%Z -> dle m e My Ey ->
  exists q e2, fround m e = Fin q e2 /\ dle q e2 My Ey.
Proof.
  intros m e My Ey HMy HEy H. destruct (N.eq_dec m 0) as [->|Hm].
  { rewrite fround_zero. exists 0, emin. split; [reflexivity|]. unfold dle, sc. lia. }
  destruct (size_bounds m Hm) as [[Hlo Hhi] Hs1].
  destruct (fround_struct m e Hm) as (q0 & Hf & H53 & Hq52 & _ & Hcase). cbv zeta in *.
  destruct (exp_facts e (Z.of_N (N.size m))) as (He'1 & He'2 & He'3). cbv zeta in *.
  set (e' := Z.max (e + Z.of_N (N.size m) - 53) emin) in *. clearbody e'.
  (* the value before renormalisation is below the bound *)
  assert (Hv : dle q0 e' My Ey).
  { destruct Hcase as [[E ->]|[E Hq]].
    - assert (B1 : (Z.min e' Ey <= e')%Z) by (clear; lia). assert (B2 : (Z.min e' Ey <= Ey)%Z) by (clear; lia).
      assert (B3 : (Z.min e' Ey <= e)%Z) by (clear -E; lia).
      apply (dle_base (Z.min e' Ey)); [exact B1|exact B2|]. apply (dle_base (Z.min e' Ey)) in H; [|exact B3|exact B2].
      unfold sc in *. rewrite <- N.mul_assoc, <- pow2_add.
      rewrite to_N_split by (split; assumption). exact H.
    - destruct (Z_lt_ge_dec Ey e') as [Hlt|Hge].
      + (* the bound lies below the grid of the result: impossible *)
        exfalso.
        assert (B1 : (Z.min e Ey <= e)%Z) by (clear; lia). assert (B2 : (Z.min e Ey <= Ey)%Z) by (clear; lia).
        apply (dle_base (Z.min e Ey)) in H; [|exact B1|exact B2]. unfold sc in H.
        rewrite t53_pow in HMy.
        pose proof (below_grid _ _ _ _ _ Hlo Hs1 HMy H) as Hg.
        destruct He'3 as [_ He'3]; [clear -Hlt HEy; lia|].
        clear -Hg Hlt He'3 HEy. lia.
      + assert (B1 : (e <= e)%Z) by (clear; lia). assert (B2 : (e <= Ey)%Z) by (clear -E Hge; lia).
        assert (B3 : (e <= e')%Z) by (clear -E; lia).
        apply (dle_base e); [exact B3|exact B2|]. apply (dle_base e) in H; [|exact B1|exact B2]. unfold sc in *.
        rewrite Z.sub_diag in H. change (Z.to_N 0) with 0 in H. rewrite N.pow_0_r, N.mul_1_r in H.
        rewrite <- (to_N_split Ey e' e) in * by (clear -E Hge; lia).
        rewrite pow2_add, N.mul_assoc in *.
        apply N.mul_le_mono_r. eapply round_core; [apply pow2_pos|exact H|exact Hq]. }
  unfold norm in Hf. destruct HEy as [HEy1 HEy2].
  destruct (q0 =? t53) eqn:Eq.
  - apply N.eqb_eq in Eq. subst q0. apply dle_renorm in Hv.
    destruct (971 <? e' + 1)%Z eqn:E9.
    + apply Z.ltb_lt in E9. exfalso. apply (above_max _ _ _ _ Hv); [clear; unfold t52; lia|exact HMy|exact HEy2|exact E9].
    + exists t52, (e' + 1)%Z. split; assumption.
  - destruct (971 <? e')%Z eqn:E9.
    + apply Z.ltb_lt in E9. exfalso. apply (above_max _ _ _ _ Hv); [|exact HMy|exact HEy2|exact E9].
      apply Hq52. apply He'3. clear -E9. unfold emin. lia.
    + exists q0, e'. split; assumption.
Qed.

(** * x + 0.0 = x *)
Lemma size_mul_pow2 : forall m k, m <> 0 -> N.size (m * 2 ^ k) = N.size m + k.
Proof.
  intros m k Hm. pose proof (pow2_pos k).
  rewrite !N.size_log2 by nia. rewrite N.log2_mul_pow2 by lia. lia.
Qed.

Lemma size_normal : forall m, t52 <= m < t53 -> N.size m = 53.
Proof.
  intros m [H1 H2]. assert (Hm : m <> 0) by (unfold t52 in *; lia).
  destruct (size_bounds m Hm) as [[Hlo Hhi] Hs1]. rewrite t52_pow in H1. rewrite t53_pow in H2.
  assert (A : N.size m - 1 < 53) by (apply pow2_lt_inv; lia).
  assert (B : 52 < N.size m) by (apply pow2_lt_inv; lia). lia.
Qed.

Lemma size_subnormal : forall m, m <> 0 -> m < t52 -> N.size m <= 52.
Proof.
  intros m Hm H. destruct (size_bounds m Hm) as [[Hlo Hhi] Hs1]. rewrite t52_pow in H.
  assert (A : N.size m - 1 < 52) by (apply pow2_lt_inv; lia). lia.
Qed.

Lemma exp_normal : forall e, (emin <= e)%Z -> Z.max (emin + Z.of_N (53 + Z.to_N (e - emin)) - 53) emin = e.
Proof. intros. lia. Qed.
Lemma exp_sub : forall sz, sz <= 52 -> Z.max (emin + Z.of_N sz - 53) emin = emin.
Proof. intros. lia. Qed.

Lemma norm_id : forall m e, m < t53 -> (e <= 971)%Z -> norm m e = Fin m e.
Proof.
  intros m e Hm He. unfold norm. replace (m =? t53) with false by (symmetry; apply N.eqb_neq; lia).
  replace (971 <? e)%Z with false by (symmetry; apply Z.ltb_ge; exact He). reflexivity.
Qed.

Lemma fround_id : forall m e, fcan m e -> fround (m * 2 ^ Z.to_N (e - emin)) emin = Fin m e.
Proof.
  intros m e Hc. destruct (N.eq_dec m 0) as [->|Hm].
  { rewrite N.mul_0_l, fround_zero. destruct Hc as [[[H _] _]|[_ ->]]; [unfold t52 in H; lia|reflexivity]. }
  pose proof (pow2_pos (Z.to_N (e - emin))) as Hp.
  assert (HM : m * 2 ^ Z.to_N (e - emin) <> 0) by (clear -Hm Hp; nia).
  destruct (fround_struct _ emin HM) as (q0 & Hf & _ & _ & _ & Hcase). cbv zeta in *.
  rewrite size_mul_pow2 in * by exact Hm. rewrite Hf. clear Hf HM.
  destruct Hc as [[Hn [He1 He2]]|[Hs ->]].
  - rewrite (size_normal m Hn) in *. rewrite (exp_normal e He1) in *.
    assert (Hq : q0 = m).
    { destruct Hcase as [[E ->]|[E Hq]].
      - assert (e = emin) by (clear -E He1; lia). subst e. rewrite Z.sub_diag. change (Z.to_N 0) with 0.
        rewrite !N.pow_0_r, !N.mul_1_r. reflexivity.
      - rewrite N.div_mul in Hq by (clear -Hp; lia). rewrite N.mod_mul in Hq by (clear -Hp; lia).
        destruct Hq as [->|[_ Hq]]; [reflexivity|congruence]. }
    subst q0. apply norm_id; [apply Hn|exact He2].
  - pose proof (size_subnormal m Hm Hs) as Hsz. rewrite Z.sub_diag in *. change (Z.to_N 0) with 0 in *.
    rewrite N.pow_0_r, N.mul_1_r, N.add_0_r in *. rewrite (exp_sub _ Hsz) in *.
    destruct Hcase as [[_ ->]|[E _]]; [|clear -E; lia].
    rewrite Z.sub_diag. change (Z.to_N 0) with 0. rewrite N.pow_0_r, N.mul_1_r.
    apply norm_id; [clear -Hs; unfold t52, t53 in *; lia|clear; unfold emin; lia].
Qed.

(** values [fadd] / [fmul] can return and canonical inputs: canonical finite, or special *)
Definition fcs (x : f64w) : Prop :=
  match x with Fin m e => fcan m e | FInf | FNaN => True | FNeg => False end.

Lemma fadd_zero : forall x, fcs x -> fadd x (Fin 0 emin) = x.
Proof.
  intros [m e| | |] Hc; cbn [fadd]; try reflexivity; [|destruct Hc].
  cbn [fcs] in Hc. rewrite falign_sc.
  assert (He : (emin <= e)%Z) by (destruct Hc as [[_ [H _]]|[_ ->]]; lia).
  replace (Z.min e emin) with emin by lia. unfold sc at 2. rewrite N.mul_0_l, N.add_0_r.
  unfold sc. apply fround_id. exact Hc.
Qed.

Lemma fadd_fcs : forall a b, fcs (fadd a b).
Proof.
  intros [m1 e1| | |] [m2 e2| | |]; cbn [fadd fcs]; try exact Logic.I.
  destruct (falign m1 e1 m2 e2) as [[a1 a2] e]. destruct (fround (a1 + a2) e) as [q e'| | |] eqn:E; cbn [fcs]; try exact Logic.I.
  - eapply fround_canon; exact E.
  - unfold fround in E. destruct (a1 + a2 =? 0); [discriminate|]. cbv zeta in E.
    repeat match type of E with
           | (if ?c then _ else _) = _ => destruct c
           | (let '(_, _) := if ?c then _ else _ in _) = _ => destruct c
           end; discriminate.
Qed.

(** * [UniformFloat::<f64>::new(0.0, high)]: [new_bounded] never shrinks the scale *)
Lemma fcan_bounds : forall M E, fcan M E -> M < t53 /\ (emin <= E <= 971)%Z.
Proof. intros M E [[[_ H] H2]|[H ->]]; [split; assumption|]. unfold t52, t53, emin in *. split; lia. Qed.

Lemma mul_max_rand_le : forall M E, dle (M * 9007199254740990) (E + -53) M E.
Proof.
  intros M E. apply (dle_base (E + -53)); [lia|lia|]. unfold sc.
  replace (Z.to_N (E + -53 - (E + -53))) with 0 by lia. replace (Z.to_N (E - (E + -53))) with 53 by lia.
  rewrite N.pow_0_r, N.mul_1_r. change (2 ^ 53) with 9007199254740992. nia.
Qed.

Lemma new_bounded_noop : forall M E, fcan M E -> new_bounded 4 (Fin M E) (Fin M E) = Some (Fin M E).
Proof.
  intros M E Hc. destruct (fcan_bounds M E Hc) as [HM HE].
  cbn [new_bounded]. unfold max_rand. cbn [fmul].
  destruct (fround_le _ _ M E HM HE (mul_max_rand_le M E)) as (q & e2 & Hf & Hd).
  rewrite Hf. unfold f_zero. rewrite fadd_zero by (cbn [fcs]; eapply fround_canon; exact Hf).
  apply fgt_dle in Hd. rewrite Hd. reflexivity.
Qed.

(** * A sample of [0, total) stays one unit in the last place below a NORMAL total *)
Lemma mul_bound : forall qu eu u M E, dle qu eu u (-52) -> u < t52 -> t52 <= M ->
  dle (qu * M) (eu + E) (M - 1) E.
Proof.
  intros qu eu u M E H Hu HM. set (b := Z.min eu (-52)).
  assert (Hb1 : (b <= eu)%Z) by (unfold b; lia). assert (Hb2 : (b <= -52)%Z) by (unfold b; lia). clearbody b.
  apply (dle_base b) in H; [|lia|lia]. apply (dle_base (b + E)); [lia|lia|]. unfold sc in *.
  replace (Z.to_N (eu + E - (b + E))) with (Z.to_N (eu - b)) by (clear; lia).
  replace (Z.to_N (E - (b + E))) with (Z.to_N (-52 - b) + 52) by (clear -Hb2; lia).
  rewrite pow2_add. change (2 ^ 52) with t52.
  set (a := 2 ^ Z.to_N (eu - b)) in *. set (c := 2 ^ Z.to_N (-52 - b)) in *. clearbody a c. clear Hb1 Hb2 b.
  assert (A1 : qu * M * a <= u * c * M) by nia.
  assert (A2 : u * c * M <= (t52 - 1) * c * M) by (apply N.mul_le_mono_r, N.mul_le_mono_r; lia).
  assert (A3 : (t52 - 1) * M <= (M - 1) * t52) by (unfold t52 in *; lia).
  assert (A4 : (t52 - 1) * c * M <= (M - 1) * (c * t52)) by nia.
  lia.
Qed.

Lemma shiftr12_lt : forall x, x < 2 ^ 64 -> N.shiftr x 12 < t52.
Proof.
  intros x Hx. rewrite N.shiftr_div_pow2. apply N.div_lt_upper_bound; [discriminate|].
  change (2 ^ 12 * t52) with (2 ^ 64). exact Hx.
Qed.

Lemma sample_below : forall M E x, t52 <= M -> fcan M E -> x < 2 ^ 64 ->
  exists q e2, fadd (fmul (fround (N.shiftr x 12) (-52)) (Fin M E)) f_zero = Fin q e2 /\ dle q e2 (M - 1) E.
Proof.
  intros M E x HM Hc Hx. destruct (fcan_bounds M E Hc) as [HM53 HE].
  pose proof (shiftr12_lt x Hx) as Hu. set (u := N.shiftr x 12) in *. clearbody u.
  destruct (fround_le u (-52) u (-52)) as (qu & eu & Hf & Hd);
    [unfold t52, t53 in *; lia|unfold emin; lia|apply dle_refl|].
  rewrite Hf. cbn [fmul].
  destruct (fround_le (qu * M) (eu + E) (M - 1) E) as (q & e2 & Hf2 & Hd2);
    [lia|exact HE|apply (mul_bound _ _ u); assumption|].
  rewrite Hf2. unfold f_zero. rewrite fadd_zero by (cbn [fcs]; eapply fround_canon; exact Hf2).
  exists q, e2. split; [reflexivity|exact Hd2].
Qed.

Lemma not_le_pred : forall M E q e2, M <> 0 -> dle q e2 (M - 1) E -> fle (Fin M E) (Fin q e2) = false.
Proof.
  intros M E q e2 HM Hd. destruct (fle (Fin M E) (Fin q e2)) eqn:F; [|reflexivity]. exfalso.
  apply fle_dle in F. pose proof (dle_trans _ _ _ _ _ _ F Hd) as T.
  apply (dle_base E) in T; [|lia|lia]. unfold sc in T. rewrite Z.sub_diag in T. change (Z.to_N 0) with 0 in T.
  rewrite N.pow_0_r, !N.mul_1_r in T. lia.
Qed.

(** * The cumulative weights and [partition_point] *)
Fixpoint psum (t : f64w) (r : list f64w) : werr + (list f64w * f64w) :=
  match r with
  | [] => if fis_zero t then inl WInsufficientNonZero else inr ([], t)
  | w :: r' =>
    if fge0 w then
      match psum (fadd t w) r' with
      | inl e => inl e
      | inr (c, T) => inr (t :: c, T)
      end
    else inl WInvalidWeight
  end.

Lemma wcum_psum : forall r t acc,
  wcum_f r t acc = match psum t r with inl e => inl e | inr (c, T) => inr (rev acc ++ c, T) end.
Proof.
  induction r as [|w r IH]; intros t acc; cbn [wcum_f psum].
  - destruct (fis_zero t); [reflexivity|]. rewrite app_nil_r. reflexivity.
  - destruct (fge0 w); [|reflexivity]. rewrite IH. destruct (psum (fadd t w) r) as [e|[c T]]; [reflexivity|].
    cbn [rev]. rewrite <- app_assoc. reflexivity.
Qed.

Lemma psum_head : forall r t c T, psum t r = inr (c, T) -> (c = [] /\ T = t) \/ (exists c', c = t :: c').
Proof.
  intros [|w r] t c T H; cbn [psum] in H.
  - destruct (fis_zero t); [discriminate|]. injection H as <- <-. left. split; reflexivity.
  - destruct (fge0 w); [|discriminate]. destruct (psum (fadd t w) r) as [e|[c' T']]; [discriminate|].
    injection H as <- <-. right. eexists; reflexivity.
Qed.

(** a canonical weight that passed [w >= 0.0] and is not positive is +0.0 *)
Lemma nonpos_zero : forall w, fcanon w = true -> fpos w = false -> w = Fin 0 emin.
Proof.
  intros [m e| | |] Hc Hp; try discriminate. cbn [fpos] in Hp. apply Bool.negb_false_iff, N.eqb_eq in Hp. subst m.
  apply fcanon_iff in Hc. destruct Hc as [[[H _] _]|[_ ->]]; [unfold t52 in H; lia|reflexivity].
Qed.

Lemma psum_pos : forall r t c T x, psum t r = inr (c, T) -> fcs t -> forallb fcanon r = true ->
  fle T x = false -> (1 <= ppoint fle c x)%nat -> fpos (nth (ppoint fle c x - 1)%nat r FNaN) = true.
Proof.
  induction r as [|w r IH]; intros t c T x H Ht Hr HT Hi; cbn [psum] in H.
  - destruct (fis_zero t); [discriminate|]. injection H as <- <-. cbn [ppoint] in Hi. lia.
  - destruct (fge0 w) eqn:Eg; [|discriminate].
    destruct (psum (fadd t w) r) as [e|[c' T']] eqn:Ep; [discriminate|]. injection H as <- <-.
    cbn [forallb] in Hr. apply Bool.andb_true_iff in Hr as [Hw Hr].
    cbn [ppoint] in *. destruct (fle t x) eqn:Ft; [|lia].
    replace (S (ppoint fle c' x) - 1)%nat with (ppoint fle c' x) by lia.
    destruct (ppoint fle c' x) as [|i'] eqn:Ei.
    + (* the first weight: it moved the cumulative sum past x, so it is not +0.0 *)
      cbn [nth]. destruct (fpos w) eqn:Ew; [reflexivity|exfalso].
      rewrite (nonpos_zero w Hw Ew) in Ep. rewrite fadd_zero in Ep by exact Ht.
      destruct (psum_head _ _ _ _ Ep) as [[-> ->]|[c'' ->]].
      * congruence.
      * cbn [ppoint] in Ei. rewrite Ft in Ei. discriminate.
    + cbn [nth]. specialize (IH (fadd t w) c' T' x Ep (fadd_fcs t w) Hr HT).
      rewrite Ei in IH. replace (S i' - 1)%nat with i' in IH by lia. apply IH. lia.
Qed.

Lemma psum_total_fcs : forall r t c T, r <> [] -> psum t r = inr (c, T) -> fcs T.
Proof.
  induction r as [|w r IH]; intros t c T Hne Hp; [congruence|]. cbn [psum] in Hp.
  destruct (fge0 w); [|discriminate]. destruct (psum (fadd t w) r) as [e|[c1 T1]] eqn:Ep1; [discriminate|].
  injection Hp as _ <-. destruct r as [|w' r1].
  - cbn [psum] in Ep1. destruct (fis_zero (fadd t w)); [discriminate|]. injection Ep1 as _ <-. apply fadd_fcs.
  - eapply IH; [discriminate|exact Ep1].
Qed.

(** * The theorem *)
Theorem weighted_sample_f_pos : forall ws st i total st', wf st -> weights_ok ws = true ->
  weighted_sample_f ws st = inr (i, total, st') -> fpos (nth i ws FNaN) = true.
Proof.
  intros ws st i total st' Hw Hok H. unfold weights_ok in Hok. apply Bool.andb_true_iff in Hok as [Hcan Hok].
  unfold weighted_sample_f in H. destruct (windex_new_f ws) as [e|[[cum T] scale]] eqn:En; [discriminate|].
  destruct T as [M E| | |]; try discriminate. fold t52 in Hok. apply N.leb_le in Hok.
  unfold windex_new_f in En. destruct ws as [|w0 r]; [discriminate|].
  destruct (fge0 w0) eqn:Eg0; [|discriminate].
  rewrite wcum_psum in En. destruct (psum w0 r) as [e|[c T']] eqn:Ep; [discriminate|]. cbn [rev app] in En.
  cbn [forallb] in Hcan. apply Bool.andb_true_iff in Hcan as [Hc0 Hcr].
  assert (HcT : fcan M E).
  { destruct (uniform_f64_new T') as [u|sc] eqn:Eu; [destruct u; discriminate|]. injection En as <- -> <-.
    (* the total is w0 or a result of fadd *)
    destruct r as [|w1 r'].
    - cbn [psum] in Ep. destruct (fis_zero w0); [discriminate|]. injection Ep as _ ->. apply fcanon_iff. exact Hc0.
    - change (fcs (Fin M E)). eapply psum_total_fcs; [|exact Ep]. discriminate. }
  unfold uniform_f64_new in En.
  destruct (M =? 0) eqn:EM; [apply N.eqb_eq in EM; unfold t52 in Hok; lia|].
  destruct T' as [M' E'| | |]; try discriminate.
  assert (M' = M /\ E' = E) as [-> ->].
  { destruct (M' =? 0); [discriminate|]. destruct (new_bounded 4 (Fin M' E') (Fin M' E')); [|discriminate].
    injection En as _ -> -> _. split; reflexivity. }
  rewrite EM, (new_bounded_noop M E HcT) in En. injection En as <- <-.
  unfold uniform_f64_sample in H. destruct (next_u64 st) as [x st1] eqn:Ex.
  destruct (next_u64_spec _ _ _ Hw Ex) as [Hx _]. change p64 with (2 ^ 64) in Hx.
  destruct (sample_below M E x Hok HcT Hx) as (q & e2 & Hch & Hd). rewrite Hch in H. injection H as <- _ _.
  assert (HT : fle (Fin M E) (Fin q e2) = false) by (apply not_le_pred; [apply N.eqb_neq; exact EM|exact Hd]).
  destruct (ppoint fle c (Fin q e2)) as [|i'] eqn:Ei.
  - (* index 0 *)
    cbn [nth]. destruct (fpos w0) eqn:E0; [reflexivity|exfalso].
    rewrite (nonpos_zero w0 Hc0 E0) in Ep.
    destruct (psum_head _ _ _ _ Ep) as [[-> HT0]|[c' ->]].
    + injection HT0 as -> _. unfold t52 in Hok. lia.
    + cbn [ppoint] in Ei. replace (fle (Fin 0 emin) (Fin q e2)) with true in Ei; [discriminate|].
      symmetry. apply fle_dle. unfold dle, sc. lia.
  - cbn [nth].
    assert (Hcs0 : fcs w0).
    { destruct w0; try exact Logic.I; [apply fcanon_iff; exact Hc0|discriminate]. }
    pose proof (psum_pos r w0 c (Fin M E) (Fin q e2) Ep Hcs0 Hcr HT) as P.
    rewrite Ei in P. replace (S i' - 1)%nat with i' in P by lia. apply P. lia.
Qed.

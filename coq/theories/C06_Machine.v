(** C06 — machine-integer model of batching.  Definitions only.

    A second, literal model of src/data/loading.rs ([BatchLimit::from_items / update / limit],
    [Batched::new], [build_batch], [batch_from]) and of src/utils.rs
    [find_subsequences_of_max_size_k] in which [usize] is a 64-bit machine integer: EVERY [+],
    [-], [*] the code performs on a [usize] is an explicit operation ([madd] / [msub] / [mmul],
    one numbered site per occurrence in the source) that first computes the mathematical result as
    an [option N] ([None] = it does not fit into 64 bits) and then acts according to the cargo
    profile:

      [Checked]   (overflow-checks = on, the debug profile): [None] is a panic, the value
                  [MFault site];
      [Wrapping]  (overflow-checks = off, the release profile): [None] continues with the value
                  reduced modulo 2^64.

    [saturating_mul], [max] are the total operations the code uses.  Slice indexing
    [&values[a..b]], [values[a..=a]], [buf.splice(a..b, ..)], [buf.pop().unwrap()],
    [assert_eq!(buf.len(), 1)] and [sub_sequences[index]] are panics in BOTH profiles.

    Sites (source order):
      loading.rs   1  [count + 1]                     BatchLimit::update, BatchSize
                   2  [count + 1]                     BatchLimit::update, TotalItemSize
                   3  [*count * *max_length]          BatchLimit::limit   (pinned code; the repaired
                                                      code has [count.saturating_mul( *max_length)])
                   4  [batch_limit * prefetch_factor] build_batch, the condition of the fill loop
                                                      (pinned code; repaired: [saturating_mul])
      utils.rs    10  [start += 1]                    fast forward
                  11  [start + 1]                     [let mut end = start + 1]
                  12  [end += 1]                      arm (_, true)
                  13  [end - 1]                       arm (true, false)
                  14  [start += 1]                    arm (true, false)
                  15  [start += 1]                    arm (false, false)
                  16  [start + 1]                     arm (false, false), [end.max(start + 1)]
      panics      20  [&values[start..=start]]        21  [&values[start..end]] before the loop
                  22  [&values[start..end]] in the loop

    The flag [fixed] selects the arithmetic at sites 3 and 4: [true] = the code after the repair
    (saturating), [false] = the pinned code (plain [*]).

    The random generator enters through an interface [draws] (one [shuffle] of the buffer, one
    [random_range(0..m)]) with two instances: the oracle of C06_Model.v and the ChaCha8 generator of
    C06_Seeded.v / RNG_Model.v.  [gbuild_batch] / [gbatches_loop] is the UNBOUNDED model written
    over the same interface (it is [C06_Model.build_batch] resp. [C06_Seeded.build_batch_s] for
    the two instances: C06_MachineProofs.v); the machine model is compared with it. *)
From TU Require Import RNG_Model.
From TU Require Import Base C06_Model C06_Seeded.

Inductive profile := Checked | Wrapping.

(** 2^64 and usize::MAX *)
Definition W : N := 18446744073709551616.
Definition UMAX : N := 18446744073709551615.

Inductive mres (B : Type) := MOk (x : B) | MFault (site : N) | MPanic (site : N) | MErr (e : err).
Arguments MOk {B} x.
Arguments MFault {B} site.
Arguments MPanic {B} site.
Arguments MErr {B} e.

Definition mbind {B C} (r : mres B) (f : B -> mres C) : mres C :=
  match r with
  | MOk x => f x
  | MFault s => MFault s
  | MPanic s => MPanic s
  | MErr e => MErr e
  end.
Notation "'do' x <- e ; f" := (mbind e (fun x => f))
  (at level 200, x name, e at level 100, f at level 200, right associativity).

(** the unbounded model's result seen as a machine result *)
Definition lift {B} (r : res B) : mres B := match r with Ok x => MOk x | Err e => MErr e end.

(** the mathematical result of the three operations, [None] when it is not a [usize] *)
Definition add_o (a b : N) : option N := let s := (a + b)%N in if (s <? W)%N then Some s else None.
Definition sub_o (a b : N) : option N := if (b <=? a)%N then Some (a - b)%N else None.
Definition mul_o (a b : N) : option N := let s := (a * b)%N in if (s <? W)%N then Some s else None.

(** what an operation whose result does not fit does: the overflow panic, or the wrapped value *)
Definition ovf (p : profile) (site wrapped : N) : mres N :=
  match p with Checked => MFault site | Wrapping => MOk wrapped end.
Definition madd (p : profile) (site a b : N) : mres N :=
  match add_o a b with Some r => MOk r | None => ovf p site ((a + b) mod W)%N end.
Definition msub (p : profile) (site a b : N) : mres N :=
  match sub_o a b with Some r => MOk r | None => ovf p site ((a + (W - b mod W)) mod W)%N end.
Definition mmul (p : profile) (site a b : N) : mres N :=
  match mul_o a b with Some r => MOk r | None => ovf p site ((a * b) mod W)%N end.
Definition sat_mul (a b : N) : N := N.min (a * b) UMAX.

(** the random decisions of [build_batch]: [buf.shuffle(rng)], [rng.random_range(0..m)], and what
    happens to the state between two calls of [next()] *)
Record draws (A St : Type) := {
  d_shuf : St -> list A -> option (list A * St);
  d_pick : St -> nat -> option (nat * St);
  d_next : St -> St }.
Arguments d_shuf {A St} d.
Arguments d_pick {A St} d.
Arguments d_next {A St} d.

(** the oracle of C06_Model.v: the state is the call counter *)
Definition D_oracle {A} (o : oracle) : draws A nat :=
  {| d_shuf := fun t buf => option_map (fun sb => (sb, t)) (apply_shuf (shuf o t (length buf)) buf);
     d_pick := fun t m => Some (pick o t m, t);
     d_next := S |}.
(** the generator of C06_Seeded.v: the state is the ChaCha8 generator *)
Definition D_seeded {A} : draws A rng :=
  {| d_shuf := fun st buf => Some (RNG_Model.shuffle buf st);
     d_pick := fun st m => match random_range (N.of_nat m) st with
                           | Some (i, st') => Some (N.to_nat i, st')
                           | None => None
                           end;
     d_next := fun st => st |}.

(** * the unbounded model over the interface *)
Section Generic.
Context {A St : Type} (size : A -> nat) (D : draws A St).

Definition gbuild_batch (sort shuffle : bool) (L P : nat) (ty : limit_type) (st : St)
           (rest buf : list A) : @bres A * St :=
  if negb sort && negb shuffle then
    (match buf with
     | _ :: _ :: _ => BErr AssertFail
     | _ =>
         let '(b, rem, src') := batch_from size ty L [] (0, 0) (buf ++ rest) in
         BOk (if is_nil b then None else Some b) src' (opt_list rem)
     end, st)
  else
    let '(buf1, rest1) := fill size ty (L * P) (lim_from size buf) buf rest in
    if is_nil buf1 then (BOk None rest1 [], st)
    else if sort then
      let sb := sort_by size buf1 in
      if shuffle then
        match find_subseq (fun s e => limit size ty (slice sb s e)) L (length sb) with
        | None => (BErr OutOfFuel, st)
        | Some [] =>
            (match rev sb with
             | x :: r => BOk (Some [x]) rest1 (rev r)
             | [] => BErr AssertFail
             end, st)
        | Some subs =>
            match d_pick D st (length subs) with
            | None => (BErr BadOracle, st)
            | Some (i, st') =>
                (match nth_error subs i with
                 | None => BErr BadOracle
                 | Some (s, e) =>
                     if (s <=? e) && (e <=? length sb)
                     then BOk (Some (slice sb s e)) rest1 (firstn s sb ++ skipn e sb)
                     else BErr AssertFail
                 end, st')
            end
        end
      else (pop_batch size ty L sb rest1, st)
    else
      match d_shuf D st buf1 with
      | None => (BErr BadOracle, st)
      | Some (sb, st') => (pop_batch size ty L sb rest1, st')
      end.

Fixpoint gbatches_loop (sort shuffle : bool) (L P : nat) (ty : limit_type)
         (fuel : nat) (st : St) (rest buf : list A) : res (list (list A)) :=
  match fuel with
  | O => Err OutOfFuel
  | S f =>
    match gbuild_batch sort shuffle L P ty st rest buf with
    | (BErr e, _) => Err e
    | (BOk None _ _, _) => Ok []
    | (BOk (Some b) rest' buf', st') =>
        cons_res b (gbatches_loop sort shuffle L P ty f (d_next D st') rest' buf')
    end
  end.
End Generic.

(** * the machine model *)
Section Machine.
Context {A St : Type}.
Context (sizeN : A -> N).
Context (p : profile) (fixed : bool).
Context (D : draws A St).

Local Open Scope N_scope.

(** ** BatchLimit: (count, max item size); [ty] is the variant *)
Definition mlim := (N * N)%type.
(** [from_items]: [items.len()], [items.iter().map(|i| i.size()).max().unwrap_or(0)] *)
Definition mlim_from (items : list A) : mlim :=
  (N.of_nat (length items), fold_right N.max 0 (map sizeN items)).
(** [update]: [count + 1] is site 1 (BatchSize) / 2 (TotalItemSize) *)
Definition mlim_update (ty : limit_type) (l : mlim) (x : A) : mres mlim :=
  do c <- madd p (match ty with BatchSize => 1 | Padded => 2 end) (fst l) 1;
  MOk (c, N.max (snd l) (sizeN x)).
(** [limit]: site 3 *)
Definition mlim_val (ty : limit_type) (l : mlim) : mres N :=
  match ty with
  | BatchSize => MOk (fst l)
  | Padded => if fixed then MOk (sat_mul (fst l) (snd l))      (* count.saturating_mul( *max_length) *)
              else mmul p 3 (fst l) (snd l)                    (* *count * *max_length *)
  end.

(** ** batch_from: [f()] pops the head of [src]; [limit()] is evaluated for every item, before
    [!items.is_empty()] *)
Fixpoint mbatch_from (ty : limit_type) (L : N) (acc : list A) (bl : mlim) (src : list A)
  : mres (list A * option A * list A) :=
  match src with
  | [] => MOk (acc, None, [])
  | x :: src' =>
      do bl' <- mlim_update ty bl x;
      do v <- mlim_val ty bl';
      if (L <? v) && negb (is_nil acc) then MOk (acc, Some x, src')
      else mbatch_from ty L (acc ++ [x]) bl' src'
  end.

(** ** buffer fill: [while buffer_limit.limit() <= batch_limit * prefetch_factor { next() .. }]:
    the condition (sites 3 and 4) is evaluated before the upstream iterator is asked *)
Definition mbound (L P : N) : mres N :=
  if fixed then MOk (sat_mul L P)                              (* batch_limit.saturating_mul(prefetch_factor) *)
  else mmul p 4 L P.                                           (* batch_limit * prefetch_factor *)
Fixpoint mfill (ty : limit_type) (L P : N) (bl : mlim) (buf rest : list A) {struct rest}
  : mres (list A * list A) :=
  do v <- mlim_val ty bl;
  do bound <- mbound L P;
  if v <=? bound then
    match rest with
    | [] => MOk (buf, [])
    | x :: rest' => do bl' <- mlim_update ty bl x; mfill ty L P bl' (buf ++ [x]) rest'
    end
  else MOk (buf, rest).

(** ** [sort_by_key(|a| a.size())]: stable *)
Fixpoint minsert_by (x : A) (l : list A) : list A :=
  match l with
  | [] => [x]
  | y :: l' => if sizeN x <=? sizeN y then x :: l else y :: minsert_by x l'
  end.
Fixpoint msort_by (l : list A) : list A :=
  match l with [] => [] | x :: l' => minsert_by x (msort_by l') end.

(** ** find_subsequences_of_max_size_k(buf, batch_limit, |sub| BatchLimit::from_items(sub).limit()) *)
Section MSubseq.
Context (ty : limit_type) (sb : list A) (k : N).
Notation n := (N.of_nat (length sb)).

(** [size_fn(&values[s..e])]; the slice panics unless s <= e <= len *)
Definition msz (site s e : N) : mres N :=
  if (s <=? e) && (e <=? n)
  then mlim_val ty (mlim_from (slice sb (N.to_nat s) (N.to_nat e)))
  else MPanic site.
(** [size_fn(&values[s..=s])]; panics unless s < len *)
Definition msz1 (s : N) : mres N :=
  if s <? n then mlim_val ty (mlim_from (slice sb (N.to_nat s) (S (N.to_nat s)))) else MPanic 20.

(** [while start < values.len() && size_fn(&values[start..=start]) > k { start += 1 }] *)
Fixpoint mff (fuel : nat) (start : N) : mres N :=
  if start <? n then
    do v <- msz1 start;
    if k <? v then
      match fuel with
      | O => MErr OutOfFuel
      | S f => do s' <- madd p 10 start 1; mff f s'
      end
    else MOk start
  else MOk start.

(** the three-way loop *)
Fixpoint mfs_loop (fuel : nat) (s e prev : N) : mres (list (N * N)) :=
  match fuel with
  | O => MErr OutOfFuel
  | S f =>
    if (s <? n) && (e <=? n) then
      do cur <- msz 22 s e;
      if cur <=? k then                                        (* (_, true) *)
        do e' <- madd p 12 e 1;
        do r <- mfs_loop f s e' cur;
        MOk (if n <=? e then (s, e) :: r else r)
      else if prev <=? k then                                  (* (true, false) *)
        do e1 <- msub p 13 e 1;
        do s' <- madd p 14 s 1;
        do r <- mfs_loop f s' e cur;
        MOk ((s, e1) :: r)
      else                                                     (* (false, false) *)
        do s' <- madd p 15 s 1;
        do s2 <- madd p 16 s' 1;
        mfs_loop f s' (N.max e s2) cur
    else MOk []
  end.

Definition mfind_subseq : mres (list (N * N)) :=
  do s <- mff (length sb) 0;
  if n <=? s then MOk []
  else
    do e <- madd p 11 s 1;
    do prev <- msz 21 s e;
    mfs_loop (2 * length sb + 2) s e prev.
End MSubseq.

(** ** build_batch *)
Definition mstep := (option (list A) * list A * list A * St)%type.

Definition mpop_batch (ty : limit_type) (L : N) (st : St) (sb rest : list A) : mres mstep :=
  do r <- mbatch_from ty L [] (0, 0) (rev sb);
  let '(b, rem, src') := r in
  MOk (Some b, rest, rev src' ++ opt_list rem, st).

Definition mbuild_batch (sort shuffle : bool) (L P : N) (ty : limit_type) (st : St)
           (rest buf : list A) : mres mstep :=
  if negb sort && negb shuffle then
    match buf with
    | _ :: _ :: _ => MErr AssertFail                           (* assert_eq!(buf.len(), 1) *)
    | _ =>
        do r <- mbatch_from ty L [] (0, 0) (buf ++ rest);
        let '(b, rem, src') := r in
        MOk (if is_nil b then None else Some b, src', opt_list rem, st)
    end
  else
    do fr <- mfill ty L P (mlim_from buf) buf rest;
    let '(buf1, rest1) := fr in
    if is_nil buf1 then MOk (None, rest1, [], st)
    else if sort then
      let sb := msort_by buf1 in
      if shuffle then
        do subs <- mfind_subseq ty sb L;
        match subs with
        | [] =>
            match rev sb with
            | x :: r => MOk (Some [x], rest1, rev r, st)       (* vec![buf.pop().unwrap()] *)
            | [] => MErr AssertFail
            end
        | _ =>
            match d_pick D st (length subs) with               (* rng.random_range(0..sub_sequences.len()) *)
            | None => MErr BadOracle
            | Some (i, st') =>
                match nth_error subs i with                    (* sub_sequences[index] *)
                | None => MErr BadOracle
                | Some (s, e) =>
                    if (s <=? e) && (e <=? N.of_nat (length sb))   (* splice(s..e) panics otherwise *)
                    then MOk (Some (slice sb (N.to_nat s) (N.to_nat e)), rest1,
                              firstn (N.to_nat s) sb ++ skipn (N.to_nat e) sb, st')
                    else MErr AssertFail
                end
            end
        end
      else mpop_batch ty L st sb rest1
    else
      match d_shuf D st buf1 with                              (* buf.shuffle(rng) *)
      | None => MErr BadOracle
      | Some (sb, st') => mpop_batch ty L st' sb rest1
      end.

(** the consumer calls next() until None *)
Fixpoint mbatches_loop (sort shuffle : bool) (L P : N) (ty : limit_type)
         (fuel : nat) (st : St) (rest buf : list A) : mres (list (list A)) :=
  match fuel with
  | O => MErr OutOfFuel
  | S f =>
    do r <- mbuild_batch sort shuffle L P ty st rest buf;
    let '(ob, rest', buf', st') := r in
    match ob with
    | None => MOk []
    | Some b => do bs <- mbatches_loop sort shuffle L P ty f (d_next D st') rest' buf'; MOk (b :: bs)
    end
  end.

(** Batched::new ([batch_limit.max(1)], [prefetch_factor.max(1)]) + drain *)
Definition mbatches (sort shuffle : bool) (prefetch limit_ : N) (ty : limit_type) (st0 : St)
           (input : list A) : mres (list (list A)) :=
  mbatches_loop sort shuffle (N.max limit_ 1) (N.max prefetch 1) ty (length input + 1)%nat st0 input [].
End Machine.

(** the two instances *)
Definition mbatches_o {A} (sizeN : A -> N) p fixed sort shuffle prefetch limit_ ty (o : oracle) (input : list A) :=
  mbatches sizeN p fixed (D_oracle o) sort shuffle prefetch limit_ ty 0 input.
Definition mbatches_seeded {A} (sizeN : A -> N) p fixed sort shuffle prefetch limit_ ty (seed : N) (input : list A) :=
  mbatches sizeN p fixed D_seeded sort shuffle prefetch limit_ ty (seed_from_u64 seed) input.

(** * the parameters under which the unbounded model does what the machine does.
    [xmax]: an upper bound of every value [limit()] can take on sub-multisets of the input
    (item count, or item count x largest size).  With saturating arithmetic a threshold of
    usize::MAX is never exceeded and a saturated buffer bound never stops the fill: the unbounded
    model behaves like that when the threshold is at least [xmax]. *)
Definition xmax (ty : limit_type) (n smax : N) : N :=
  match ty with BatchSize => n | Padded => (n * smax)%N end.
Definition eff_limit (L X : N) : N := if ((L <? UMAX) || (X <=? UMAX))%N then L else X.
Definition eff_prefetch (L P X : N) : N := if ((L * P <? UMAX) || (X <=? L * P))%N then P else X.
Definition smax_of {A} (sizeN : A -> N) (l : list A) : N := fold_right N.max 0%N (map sizeN l).
(** for an input: the largest value [limit()] can take, the effective limit and prefetch factor *)
Definition eff_X {A} (sizeN : A -> N) (ty : limit_type) (input : list A) : N :=
  xmax ty (N.of_nat (length input)) (smax_of sizeN input).
Definition eff_lim {A} (sizeN : A -> N) (ty : limit_type) (limit_ : N) (input : list A) : N :=
  eff_limit (N.max limit_ 1) (eff_X sizeN ty input).
Definition eff_pre {A} (sizeN : A -> N) (ty : limit_type) (prefetch limit_ : N) (input : list A) : N :=
  eff_prefetch (N.max limit_ 1) (N.max prefetch 1) (eff_X sizeN ty input).
(** no threshold is reached by saturation: the (clamped) product limit * prefetch is below
    usize::MAX, or no value of [limit()] on the input exceeds usize::MAX *)
Definition no_sat {A} (sizeN : A -> N) (ty : limit_type) (prefetch limit_ : N) (input : list A) : Prop :=
  (N.max limit_ 1 * N.max prefetch 1 < UMAX \/ eff_X sizeN ty input <= UMAX)%N.
(** the limit itself is not reached by saturation: it is below usize::MAX, or no value of
    [limit()] on the input exceeds usize::MAX *)
Definition lim_exact {A} (sizeN : A -> N) (ty : limit_type) (limit_ : N) (input : list A) : Prop :=
  (limit_ < UMAX \/ eff_X sizeN ty input <= UMAX)%N.
(** the value of the limit clause over machine integers: item count, or count x largest size *)
Definition limitN {A} (sizeN : A -> N) (ty : limit_type) (b : list A) : N :=
  match ty with
  | BatchSize => N.of_nat (length b)
  | Padded => (N.of_nat (length b) * smax_of sizeN b)%N
  end.

(** * val glue.  input = (sort shuffle prefetch limit ty seed sizes) as in C06_Model.v, where
    prefetch, limit and the sizes may be written (hi lo) = hi * 2^32 + lo (values of 2^62 and more) *)
Definition v_big (v : val) : N :=
  match v with
  | I z => Z.to_N z
  | L [I hi; I lo] => (Z.to_N hi * 4294967296 + Z.to_N lo)%N
  | _ => 0%N
  end.
Definition mitem := (nat * N)%type.
Definition misize (x : mitem) : N := snd x.
Definition mk_mitems (sizes : list N) : list mitem := combine (seq 0 (length sizes)) sizes.
Definition v_mitems (v : val) : list mitem := mk_mitems (v_list v_big (v_nth 6 v)).

Definition run_machine (p : profile) (fixed : bool) (v : val) : mres (list (list mitem)) :=
  mbatches_seeded misize p fixed (v_bool (v_nth 0 v)) (v_bool (v_nth 1 v)) (v_big (v_nth 2 v))
                  (v_big (v_nth 3 v)) (v_ty (v_nth 4 v)) (in_seed v) (v_mitems v).

Definition mbatches_v (bs : list (list mitem)) : val := list_v (list_v (fun x : mitem => nat_v (fst x))) bs.

(** output as [run_C06s]: (batches 1 ()); an arithmetic fault or a panic is the implementation's (-777) *)
Definition run_M06s (p : profile) (fixed : bool) (v : val) : val :=
  match run_machine p fixed v with
  | MOk bs => L [mbatches_v bs; I 1%Z; L []]
  | MFault _ => v_panic
  | MPanic _ => v_panic
  | MErr OutOfFuel => L [I (-1)%Z]
  | MErr BadOracle => L [I (-2)%Z]
  | MErr AssertFail => L [I (-3)%Z]
  end.

(** every number of the input is a plain integer below 2^21: the domain on which the unbounded
    (unary) model is run next to the machine model *)
Definition small_nb (v : val) : bool :=
  match v with I z => (0 <=? z)%Z && (z <? 2097152)%Z | _ => false end.
Definition smallb (v : val) : bool :=
  small_nb (v_nth 2 v) && small_nb (v_nth 3 v)
  && match v_nth 6 v with L l => forallb small_nb l | _ => false end.

(** the correspondence clause: the machine model of the repaired code emits the implementation's
    batch sequence, batch for batch, order inside batches included.  Both profiles of the model are
    evaluated on the EXTREME domain; on the small domain (where the unary model runs too) one
    profile is: the two are equal for every input ([machine_profiles_agree]) *)
Definition machine_agree (v i : val) : bool :=
  seeded_ok (run_M06s Checked true v) i && (smallb v || seeded_ok (run_M06s Wrapping true v) i).

(** ** the executable statement over machine integers: the clauses of [check_C06] with the sizes,
    the limit and the products in [N] *)
Definition mlookup (items : list mitem) (i : nat) : mitem := nth i items (i, W).
Definition mlimitN (ty : limit_type) (b : list mitem) : N := limitN misize ty b.
Definition mlimit_okb (ty : limit_type) (L : N) (b : list mitem) : bool :=
  (length b <=? 1) || (mlimitN ty b <=? L)%N.
Fixpoint mgreedyb (ty : limit_type) (L : N) (bs : list (list mitem)) : bool :=
  match bs with
  | b :: ((b' :: _) as tl) =>
      match b' with
      | x :: _ => (L <? mlimitN ty (b ++ [x]))%N && mgreedyb ty L tl
      | [] => false
      end
  | _ => true
  end.
Definition check_M06 (v out : val) : bool :=
  let sort := v_bool (v_nth 0 v) in
  let shuffle := v_bool (v_nth 1 v) in
  let L := N.max (v_big (v_nth 3 v)) 1 in
  let ty := v_ty (v_nth 4 v) in
  let items := v_mitems v in
  let ids := v_batches (v_nth 0 out) in
  let bs := map (map (mlookup items)) ids in
  shape2 out
  && is_perm_ids (concat ids) (length items)
  && forallb (fun b => negb (is_nil b)) ids
  && forallb (mlimit_okb ty L) bs
  && v_bool (v_nth 1 out)
  && (if negb sort && negb shuffle
      then nat_list_eqb (concat ids) (seq 0 (length items)) && mgreedyb ty L bs
      else true).

(** C14 with the segmenter inside the model — definitions only.
    [corrupt_safe s] is the decidable condition on a whitespace-clean text under which EVERY
    string [corrupt_whitespace] can write re-segments to the clusters it was built from
    (SeamStable; exact, see C14_UAX29.v): the spaces of the text can be deleted ([seam_safe],
    C10_Seam.v) and a U+0020 can be written between any two neighbouring non-whitespace
    clusters ([ins_safe]: the left one does not end in a Prepend, the right one does not start
    with Extend / SpacingMark / ZWJ). [uax29_agree] / [xcheck] are the segmentation clause and
    the cross-check against the harness' class flag in the correspondence relation. *)
From TU Require Import Base UAX29_Model C10_Model C10_Seam C14_Model.
From TU Require C11_Model.
Open Scope N_scope.

Fixpoint ins_safe (t : list cluster) : bool :=
  match t with
  | c :: ((d :: _) as R) =>
      (if cl_ws c || cl_ws d then true
       else negb (is_prepend (last c 32)) && negb (ws_joinable (hd 32 d)))
      && ins_safe R
  | _ => true
  end.

Definition corrupt_safe (s : str) : bool := seam_safe s && ins_safe (segment s).

(** the category-only form: word boundaries by [seam_safe_cf] *)
Definition corrupt_safe_cf (s : str) : bool := seam_safe_cf s && ins_safe (segment s).

(** the KF1 class in model terms, for one corrupted cluster list [out] of the text [s]: the
    re-segmented corrupted text has other non-whitespace clusters than the text, or a mixed one *)
Definition kf1b (s : str) (out : list cluster) : bool :=
  negb (cll_eqb (strip (segment (concat out))) (strip (segment s)))
  || negb (no_mixedb (concat out)).

(** ** val glue: input = (g text cseg seed ks iw dw np ns kf1 ss)
      kf1: the harness' class flag (real segmentation of the corrupted text: non-whitespace
           clusters differ from the text's, or a mixed cluster);
      ss:  the harness' evaluation of [corrupt_safe text] (harness/src/seam.rs), compared here *)
Definition in_gb (v : val) : bool := v_bool (v_nth 0 v).
Definition in_tcl (v : val) : list cluster := v_clusters (v_nth 1 v).
Definition in_ccl (v : val) : list cluster := v_clusters (v_nth 2 v).

Definition uax29_agree (v : val) : bool :=
  if in_gb v then
    cll_eqb (segment (concat (in_tcl v))) (in_tcl v)
    && cll_eqb (segment (concat (in_ccl v))) (in_ccl v)
  else true.

(** the domain of [corrupt_labels_u]: grapheme mode, whitespace-clean text, [corrupt_safe] *)
Definition dom_C14 (v : val) : bool :=
  in_gb v && C11_Model.cleansb (concat (in_tcl v)) && corrupt_safe (concat (in_tcl v)).

Definition xcheck (v : val) : bool :=
  if in_gb v then
    Bool.eqb (v_bool (v_nth 10 v)) (corrupt_safe (concat (in_tcl v)))
    && negb (dom_C14 v && v_bool (v_nth 9 v))
  else true.

Definition agree_C14 (inp m i : val) : bool := val_eqb m i && uax29_agree inp && xcheck inp.

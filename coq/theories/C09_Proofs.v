From Coq Require Import Lia.
From TU Require Import Base Pipe_Model Pipe_Proofs Pipe_Proofs2 Pipe_Proofs3 C05_Model C09_Model.

Lemma pipe_lookahead_l (A B : Type) (f : A -> B) (d : A) (l : list A) (W : nat) tr (s : state A B) :
  run A B f d (init A B l W) tr = Some s -> dropped s = false -> next s <= length (out s) + 2 * W.
Proof.
  intros H Hd. pose proof (lookahead_l A B f d l W tr s H Hd).
  pose proof (reach_run A B f d W tr _ _ (reach_init A B f l W) H) as [_ _ _ Hl]. lia.
Qed.

Lemma pipe_drop_exit_l (A B : Type) (f : A -> B) (d : A) (l : list A) (W : nat) tr (s : state A B) :
  run A B f d (init A B l W) tr = Some s -> dropped s = true ->
  (forall lab, lab <> Drop -> step A B f d s lab = None) -> all_exited A B s = true.
Proof.
  intros H Hd Hno. pose proof (inv_reach A B f d _ _ _ _ H) as I.
  destruct (final A B s) eqn:E.
  - unfold final in E. apply andb_true_iff in E as [E _]. exact E.
  - destruct (progress A B f d s I E) as (lab & s' & Hne & Hs). rewrite (Hno lab Hne) in Hs. discriminate.
Qed.

Lemma buf_no_deadlock_l sof n cap tr s :
  brun sof (binit n cap) tr = Some s -> bfinal s = false ->
  exists l s', l <> BDrop /\ bstep sof s l = Some s'.
Proof. intros H. apply buf_progress_l. eapply binv_run; eauto. apply binv_init. Qed.

Lemma buf_final_of_stuck sof n cap tr s :
  brun sof (binit n cap) tr = Some s -> (forall l, l <> BDrop -> bstep sof s l = None) -> bfinal s = true.
Proof.
  intros H Hno. destruct (bfinal s) eqn:E; [reflexivity|].
  destruct (buf_no_deadlock_l _ _ _ _ _ H E) as (l & s' & Hne & Hs). rewrite (Hno l Hne) in Hs. discriminate.
Qed.

Lemma buf_terminal_top sof n cap tr s :
  brun sof (binit n cap) tr = Some s -> bdropped s = false ->
  (forall l, l <> BDrop -> bstep sof s l = None) -> bout s = seq 0 n /\ bthr s = BExited.
Proof.
  intros H Hd Hno. pose proof (buf_final_of_stuck _ _ _ _ _ H Hno) as Hf.
  pose proof (binv_run sof tr _ _ (binv_init sof n cap) H) as I.
  destruct (bconst_run _ _ _ _ H) as [Hn _]. cbn in Hn.
  split.
  - rewrite <- Hn. apply (buf_terminal_l sof s I Hd Hf).
  - unfold bfinal in Hf. destruct (bthr s); try discriminate. reflexivity.
Qed.

Lemma buf_drop_exit_l n cap tr s :
  brun true (binit n cap) tr = Some s -> bdropped s = true ->
  (forall l, l <> BDrop -> bstep true s l = None) -> bthr s = BExited.
Proof.
  intros H _ Hno. pose proof (buf_final_of_stuck _ _ _ _ _ H Hno) as Hf.
  unfold bfinal in Hf. destruct (bthr s); try discriminate. reflexivity.
Qed.

Lemma pipe_panic_wedges_l (A B : Type) (f : A -> B) (d a b : A) :
  (exists s, run A B f d (init A B [a; b] 2) [Pull 0; Pull 1] = Some s /\ set_thr A B s 0 Exited = wedge0 A B a b)
  /\ forall tr s', ~ In Drop tr -> run A B f d (wedge0 A B a b) tr = Some s' -> out s' = [] /\ final A B s' = false.
Proof.
  split; [apply wedge_reachable|]. intros tr s' Hnd H.
  apply (wedge_forever A B f d a b tr (wedge0 A B a b) s'); [left; reflexivity|exact Hnd|exact H].
Qed.

(** ** what an accepting verdict of the event walk means *)
Definition ev4 := (nat * nat * nat * nat)%type.
Definition e_actor (e : ev4) : nat := match e with (a, _, _, _) => a end.
Definition e_code (e : ev4) : nat := match e with (_, c, _, _) => c end.
Definition e_pulled (e : ev4) : nat := match e with (_, _, _, p) => p end.
Definition is_recv (e : ev4) : bool := Nat.eqb (e_code e) 10 || Nat.eqb (e_code e) 14.
Definition count_recv (l : list ev4) : nat := length (filter is_recv l).
Definition is_got (e : ev4) : bool := Nat.eqb (e_code e) 1.

Lemma count_recv_cons x l : count_recv (x :: l) = (if is_recv x then 1 else 0) + count_recv l.
Proof. unfold count_recv. cbn [filter]. destruct (is_recv x); reflexivity. Qed.

(** before the drop: every event's pulled count is within the bound of what was consumed so far *)
Lemma walk_before bf B E : forall pre evs consumed gots e post,
  walk bf B E evs consumed None gots = true ->
  evs = pre ++ e :: post -> (forall x, In x pre -> e_code x <> 11) ->
  e_pulled e <= consumed + count_recv (pre ++ [e]) + B /\ e_code e <> 13.
Proof.
  induction pre as [|x pre IH]; intros evs consumed gots e post H -> Hnd.
  - cbn [app] in *. destruct e as [[[a c] i] p]. cbn [walk] in H.
    apply andb_true_iff in H as [H _]. apply andb_true_iff in H as [H13 Hp].
    apply Nat.leb_le in Hp. apply negb_true_iff, Nat.eqb_neq in H13.
    rewrite count_recv_cons. unfold count_recv. cbn [filter length]. unfold is_recv. cbn [e_code e_pulled].
    split; [|exact H13]. destruct (Nat.eqb c 10 || Nat.eqb c 14)%bool; lia.
  - cbn [app] in H. destruct x as [[[a c] i] p]. cbn [walk] in H.
    apply andb_true_iff in H as [_ H].
    assert (Hc : Nat.eqb c 11 = false).
    { apply Nat.eqb_neq. apply (Hnd (a, c, i, p)). left. reflexivity. }
    rewrite Hc in H.
    destruct (IH _ _ _ e post H eq_refl) as [Hb H13].
    { intros y Hy. apply Hnd. right. exact Hy. }
    split; [|exact H13]. cbn [app]. rewrite count_recv_cons. unfold is_recv at 1. cbn [e_code].
    destruct (Nat.eqb c 10 || Nat.eqb c 14)%bool; lia.
Qed.

(** after the drop: nothing is received any more, the total number of pulls stays within the
    allowance, a producer never ignores the failed send (Buffered), and no actor pulls twice *)
Lemma walk_after bf B E p0 : forall evs consumed gots,
  walk bf B E evs consumed (Some p0) gots = true ->
  (forall e, In e evs -> e_pulled e <= p0 + E /\ e_code e <> 13 /\ is_recv e = false /\ (bf = true -> e_code e <> 5))
  /\ NoDup (map e_actor (filter is_got evs))
  /\ (forall e, In e evs -> is_got e = true -> ~ In (e_actor e) gots).
Proof.
  induction evs as [|[[[a c] i] p] evs IH]; intros consumed gots H.
  - cbn. repeat split; try constructor; intros; contradiction.
  - cbn [walk] in H.
    apply andb_true_iff in H as [H Hrec]. apply andb_true_iff in H as [H Hg]. apply andb_true_iff in H as [H Hp].
    apply andb_true_iff in H as [H H14]. apply andb_true_iff in H as [H H10]. apply andb_true_iff in H as [H13 H5].
    apply Nat.leb_le in Hp. apply negb_true_iff in H13, H10, H14, H5. apply Nat.eqb_neq in H13.
    destruct (IH _ _ Hrec) as (IH1 & IH2 & IH3).
    split; [|split].
    + intros e [<-|Hin]; [|apply IH1, Hin]. unfold is_recv. cbn [e_code e_pulled]. rewrite H10, H14.
      repeat split; auto. intros -> Hc. subst c. cbn in H5. discriminate.
    + cbn [filter]. unfold is_got at 1. cbn [e_code]. destruct (Nat.eqb c 1) eqn:E1; [|exact IH2].
      cbn [map e_actor]. constructor; [|exact IH2]. intros Hin.
      apply in_map_iff in Hin as (e & Ha & He). apply filter_In in He as [He Hg1].
      apply (IH3 e He Hg1). rewrite Ha. left. reflexivity.
    + intros e [<-|Hin] Hg1.
      * unfold is_got in Hg1. cbn [e_code e_actor] in *. rewrite Hg1 in Hg.
        apply negb_true_iff in Hg. intros Hin. assert (existsb (Nat.eqb a) gots = true).
        { apply existsb_exists. exists a. split; [exact Hin|apply Nat.eqb_refl]. } congruence.
      * intros Hin'. apply (IH3 e Hin Hg1). destruct (Nat.eqb c 1); [right; exact Hin'|exact Hin'].
Qed.

(** the drop event itself is judged by the before-drop rule; the events after it by [walk_after] *)
Lemma walk_split bf B E : forall pre evs consumed gots d post,
  walk bf B E evs consumed None gots = true ->
  evs = pre ++ d :: post -> (forall x, In x pre -> e_code x <> 11) -> e_code d = 11 ->
  exists consumed', walk bf B E post consumed' (Some (e_pulled d)) gots = true.
Proof.
  induction pre as [|x pre IH]; intros evs consumed gots d post H -> Hnd Hd.
  - cbn [app] in H. destruct d as [[[a c] i] p]. cbn [e_code e_pulled] in *. subst c. cbn [walk] in H.
    apply andb_true_iff in H as [_ H]. cbn in H. eexists. exact H.
  - cbn [app] in H. destruct x as [[[a c] i] p]. cbn [walk] in H. apply andb_true_iff in H as [_ H].
    assert (Hc : Nat.eqb c 11 = false).
    { apply Nat.eqb_neq. apply (Hnd (a, c, i, p)). left. reflexivity. }
    rewrite Hc in H. eapply IH; eauto. intros y Hy. apply Hnd. right. exact Hy.
Qed.

Lemma walk_sound_l bf B E evs : walk bf B E evs 0 None [] = true ->
  (forall pre e post, evs = pre ++ e :: post -> (forall x, In x pre -> e_code x <> 11) ->
     e_pulled e <= count_recv (pre ++ [e]) + B /\ e_code e <> 13)
  /\ (forall pre d post, evs = pre ++ d :: post -> (forall x, In x pre -> e_code x <> 11) -> e_code d = 11 ->
        (forall e, In e post -> e_pulled e <= e_pulled d + E /\ e_code e <> 13 /\ is_recv e = false
                                /\ (bf = true -> e_code e <> 5))
        /\ NoDup (map e_actor (filter is_got post))).
Proof.
  intros H. split.
  - intros pre e post Hev Hnd. destruct (walk_before bf B E pre evs 0 [] e post H Hev Hnd) as [H1 H2]. split; [lia|exact H2].
  - intros pre d post Hev Hnd Hd. destruct (walk_split bf B E pre evs 0 [] d post H Hev Hnd Hd) as (c' & Hw).
    destruct (walk_after bf B E (e_pulled d) post c' [] Hw) as (A1 & A2 & _). auto.
Qed.

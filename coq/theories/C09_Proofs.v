From Coq Require Import Lia.
From TU Require Import Base Pipe_Model Pipe_Proofs Pipe_Proofs2 Pipe_Proofs3 C05_Model C09_Model.

Lemma pipe_lookahead_l (A B : Type) (f : A -> B) (d : A) (l : list A) (W : nat) tr (s : state A B) :
  run A B f d (init A B l W) tr = Some s -> dropped s = false -> next s <= length (out s) + 2 * W.
Proof.
  intros H Hd. pose proof (lookahead_l A B f d l W tr s H Hd).
  pose proof (reach_run A B f d W tr _ _ (reach_init A B f l W) H) as [_ _ _ Hl]. lia.
Qed.

Lemma pipe_drop_exit_l (A B : Type) (f : A -> B) (d : A) (l : list A) (W : nat) tr (s : state A B) :
  run A B f d (init A B l W) tr = Some s -> dropped s = true ->
  (forall lab, lab <> Drop -> step A B f d s lab = None) -> all_exited A B s = true.
Proof.
  intros H Hd Hno. pose proof (inv_reach A B f d _ _ _ _ H) as I.
  destruct (final A B s) eqn:E.
  - unfold final in E. apply andb_true_iff in E as [E _]. exact E.
  - destruct (progress A B f d s I E) as (lab & s' & Hne & Hs). rewrite (Hno lab Hne) in Hs. discriminate.
Qed.

Lemma buf_no_deadlock_l sof n cap tr s :
  brun sof (binit n cap) tr = Some s -> bfinal s = false ->
  exists l s', l <> BDrop /\ bstep sof s l = Some s'.
Proof. intros H. apply buf_progress_l. eapply binv_run; eauto. apply binv_init. Qed.

Lemma buf_final_of_stuck sof n cap tr s :
  brun sof (binit n cap) tr = Some s -> (forall l, l <> BDrop -> bstep sof s l = None) -> bfinal s = true.
Proof.
  intros H Hno. destruct (bfinal s) eqn:E; [reflexivity|].
  destruct (buf_no_deadlock_l _ _ _ _ _ H E) as (l & s' & Hne & Hs). rewrite (Hno l Hne) in Hs. discriminate.
Qed.

Lemma buf_terminal_top sof n cap tr s :
  brun sof (binit n cap) tr = Some s -> bdropped s = false ->
  (forall l, l <> BDrop -> bstep sof s l = None) -> bout s = seq 0 n /\ bthr s = BExited.
Proof.
  intros H Hd Hno. pose proof (buf_final_of_stuck _ _ _ _ _ H Hno) as Hf.
  pose proof (binv_run sof tr _ _ (binv_init sof n cap) H) as I.
  destruct (bconst_run _ _ _ _ H) as [Hn _]. cbn in Hn.
  split.
  - rewrite <- Hn. apply (buf_terminal_l sof s I Hd Hf).
  - unfold bfinal in Hf. destruct (bthr s); try discriminate. reflexivity.
Qed.

Lemma buf_drop_exit_l n cap tr s :
  brun true (binit n cap) tr = Some s -> bdropped s = true ->
  (forall l, l <> BDrop -> bstep true s l = None) -> bthr s = BExited.
Proof.
  intros H _ Hno. pose proof (buf_final_of_stuck _ _ _ _ _ H Hno) as Hf.
  unfold bfinal in Hf. destruct (bthr s); try discriminate. reflexivity.
Qed.

Lemma pipe_panic_wedges_l (A B : Type) (f : A -> B) (d a b : A) :
  (exists s, run A B f d (init A B [a; b] 2) [Pull 0; Pull 1] = Some s /\ set_thr A B s 0 Exited = wedge0 A B a b)
  /\ forall tr s', ~ In Drop tr -> run A B f d (wedge0 A B a b) tr = Some s' -> out s' = [] /\ final A B s' = false.
Proof.
  split; [apply wedge_reachable|]. intros tr s' Hnd H.
  apply (wedge_forever A B f d a b tr (wedge0 A B a b) s'); [left; reflexivity|exact Hnd|exact H].
Qed.

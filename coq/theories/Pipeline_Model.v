(** Pipeline model: [PreprocessingFnConfig] and its interpreter [preprocessing(cfg)]
    (src/data/preprocessing.rs:49-83, 297-400, 675-734; [chain]/[switch] of src/data/utils.rs:17-93),
    the per-source/global dispatch and the task function of [train_pipeline] (src/data/mod.rs:641-690,
    src/data/task.rs:141-161).  Definitions only.

    Every randomised function of the code builds ITS OWN generator, [ChaCha8Rng::seed_from_u64(info.seed)]
    (preprocessing.rs:337, 367; utils.rs:39): nothing is threaded from one function to the next, so inside a
    [Chain] every stage sees the same stream from its start (the first draw of a [Switch] is also the first draw
    of the whitespace corruption it selects).  That is the code that exists, and what is modelled.

    Pieces taken from the other models (not redefined): [C11_Model.clean/remove/full/trim], [NFKC_Model.normalize_model],
    [C14_Model.corrupt_cl] on [C14_Seeded.stream] (the r-stream drawn from the item's seed) with [C14_Seeded.thr],
    [C06_Model.find_subseq] (= [find_subsequences_of_max_size_k], used by [possible_byte_substrings]),
    [RNG_Model.random_range], [RNG_Model.fadd]/[fgt] (binary64 for the cumulative switch probabilities),
    [UAX29_Model.segment], [C10_Model.operations], [C01_Model.byte_tokenize].

    Not modelled (constructor [COpaque]): SpellingCorruption, JsonDecode, ChatDecode — an arbitrary function of
    (id, item, info) supplied from outside ([opq]); every theorem holds for every such function.

    Outcomes: [ROk] / [RErr] (the [anyhow::Err] of the code: the loader drops the item) / [RPanic] (the code
    panics: index out of range, failed assertion, empty [random_range]). *)
From TU Require Import RNG_Model.
From TU Require Import Base UAX29_Model NFKC_Model C10_Model C14_Model C14_Seeded.
From TU Require Import C11_Model C06_Model C01_Model.
Open Scope N_scope.

Inductive res (A : Type) : Type :=
| ROk (a : A)
| RErr (code : N)      (* 1: substring not found in the target; 2: tokenizer error; 3: [operations] error; 9: opaque *)
| RPanic (site : N).   (* 1: switch index; 2: empty range; 3: slice; 4: char_range assert; 5: per-source lookup; 6: fuel; 7: r-stream *)
Arguments ROk {A} a.
Arguments RErr {A} code.
Arguments RPanic {A} site.

Definition rbind {A B} (r : res A) (f : A -> res B) : res B :=
  match r with ROk a => f a | RErr c => RErr c | RPanic s => RPanic s end.

Inductive part := PInput | PTarget.

(** [TrainData] and [TextDataInfo] *)
Record item := mk_item { it_in : str; it_tg : str }.
Record info := mk_info { i_seed : N; i_file : nat; i_marks : list (str * str) }.

(** [CharString::new(s, g)] is [C14_Seeded.seg_of g s] ([segment] or [singletons]) *)

(** [HashMap::insert] on the marks (an association list without duplicate keys, order irrelevant:
    compared as a sorted list) *)
Fixpoint mark_insert (k v : str) (m : list (str * str)) : list (str * str) :=
  match m with
  | [] => [(k, v)]
  | (k', v') :: r => if nlist_eqb k k' then (k, v) :: r else (k', v') :: mark_insert k v r
  end.

(** * from C14_Seeded.v: [stream seed n] = the first [n] draws of [rng.random::<f64>()] from [seed_from_u64 seed]
    (numerators over 2^53); [thr p] = ceil (p * 2^53), the integer threshold that makes [k <? thr p] the f64
    comparison [r < p] for r = k / 2^53 (+inf -> 2 * 2^53, NaN and negative -> 0; [C14_Model.clamp] is applied on top
    by [corrupt_cl] / [accepted]) *)

(** [corrupt_whitespace(iw, dw, g)(text, info)]: one draw per character, then C14's step function *)
Definition ws_corrupt (iw dw : f64w) (g : bool) (seed : N) (s : str) : res str :=
  let seg := seg_of g s in
  match corrupt_cl (thr iw) (thr dw) seg (stream seed (length seg)) with
  | Some out => ROk (concat out)
  | None => RPanic 7
  end.

(** * [switch]: cumulative probabilities in binary64, then the first index whose cumulative value is not below r *)
Fixpoint accum_from (total : f64w) (ps : list f64w) : list f64w :=
  match ps with
  | [] => []
  | p :: r => let t := fadd total p in t :: accum_from t r
  end.
(** [accumulate(&probs)] *)
Definition accum (ps : list f64w) : list f64w :=
  match ps with [] => [] | p :: r => p :: accum_from p r end.

(** [(x - 1.0).abs() < 1e-5] for a finite non-negative x = m * 2^e.  1e-5 is the binary64 value
    5902958103587057 * 2^-69.  For x in [1/2, 2] the subtraction is exact; outside, the exact difference and
    its rounding are both at least 1/2: the f64 test is the comparison of the real numbers. *)
Definition near_one (x : f64w) : bool :=
  match x with
  | Fin m e =>
      let E := Z.min e (-69) in
      let X := (Z.of_N m * 2 ^ (e - E))%Z in
      let One := (2 ^ (- E))%Z in
      let C := (5902958103587057 * 2 ^ (-69 - E))%Z in
      (Z.abs (X - One) <? C)%Z
  | _ => false
  end.

(** [while idx < num_fns - 1 && r > cum_p[idx] { idx += 1 }] *)
Fixpoint sw_idx (r : f64w) (cum : list f64w) : nat :=
  match cum with
  | [] => 0
  | c :: rest => match rest with
                 | [] => 0
                 | _ :: _ => if fgt r c then S (sw_idx r rest) else 0
                 end
  end.

(** the index a switch over [ps] chooses for an item seed: r = the first [random::<f64>()] *)
Definition switch_choice (ps : list f64w) (seed : N) : nat :=
  let (k, _) := random_f64 (seed_from_u64 seed) in sw_idx (Fin k (-53)) (accum ps).

(** * substrings *)
Definition sumnat (l : list nat) : nat := fold_right Nat.add 0%nat l.
Definition blen (c : cluster) : nat := length (utf8s c).
(** clusters [s, e) *)
Definition cslice (seg : list cluster) (s e : nat) : list cluster := firstn (e - s) (skipn s seg).

(** [possible_character_substrings]: (start, end) in characters; [char_range_to_byte_range] asserts start < end *)
Definition char_subs (n maxc : nat) : res (list (nat * nat)) :=
  if Nat.eqb n 0 then ROk [(0, 0)%nat]
  else let m := Nat.min maxc n in
       if Nat.eqb m 0 then RPanic 4
       else ROk (map (fun st => (st, Nat.min n (st + m))) (seq 0 (n - m + 1))).

(** [possible_byte_substrings] *)
Definition byte_subs (seg : list cluster) (maxb : nat) : res (list (nat * nat)) :=
  if Nat.eqb (length seg) 0 then ROk [(0, 0)%nat]
  else match find_subseq (fun s e => sumnat (map blen (cslice seg s e))) maxb (length seg) with
       | None => RPanic 6
       | Some subs => if forallb (fun p => Nat.ltb (fst p) (snd p) && Nat.leb (snd p) (length seg)) subs
                      then ROk subs else RPanic 4
       end.

(** [find_substring_ignoring_whitespace]: the regex  \s* L1 \s* L2 ... \s* Ln \s*  (Li = the escaped non-whitespace
    characters of the substring), leftmost-first semantics, greedy stars: a backtracking matcher. *)
Fixpoint strip_prefix (lit s : str) : option str :=
  match lit with
  | [] => Some s
  | a :: lit' => match s with
                 | b :: s' => if N.eqb a b then strip_prefix lit' s' else None
                 | [] => None
                 end
  end.
(** greedy [\s*] followed by the continuation [k] (longest run first, then shorter ones) *)
Fixpoint m_star (k : str -> option str) (s : str) : option str :=
  match s with
  | c :: r => if is_ws c then match m_star k r with Some x => Some x | None => k s end else k s
  | [] => k []
  end.
(** the rest of the text after a match of  \s* L1 ... \s* Ln \s*  at the start of [s] *)
Fixpoint m_pieces (pieces : list str) (s : str) : option str :=
  match pieces with
  | [] => m_star (fun x => Some x) s
  | p :: ps => m_star (fun s' => match strip_prefix p s' with Some s'' => m_pieces ps s'' | None => None end) s
  end.
(** leftmost match: (start offset, matched text) *)
Fixpoint re_find (pieces : list str) (s : str) : option str :=
  match m_pieces pieces s with
  | Some rest => Some (firstn (length s - length rest) s)
  | None => match s with [] => None | _ :: r => re_find pieces r end
  end.
Definition find_sub_ignoring_ws (target sub : str) (g : bool) : option str :=
  re_find (filter nonws_cl (seg_of g sub)) target.

(** [substring(name, substring_fn, g)] *)
Definition substring (subs : list cluster -> res (list (nat * nat))) (g : bool) (x : item) (i : info) : res (item * info) :=
  let seg := seg_of g (it_in x) in
  rbind (subs seg) (fun poss =>
  match random_range (N.of_nat (length poss)) (seed_from_u64 (i_seed i)) with
  | None => RPanic 2
  | Some (idx, _) =>
      match nth_error poss (N.to_nat idx) with
      | None => RPanic 3
      | Some (s, e) =>
          let inp := concat (cslice seg s e) in
          match find_sub_ignoring_ws (it_tg x) inp g with
          | Some t => ROk (mk_item inp (trim t), i)
          | None => RErr 1
          end
      end
  end).

(** * the configuration *)
Inductive cfg :=
| CNone
| CChain (l : list cfg)
| CClean (p : part) (g : bool)
| CNormalize (p : part) (f : form) (g : bool)
| COverwrite (p : part)
| CSwitch (l : list cfg) (probs : list f64w)
| CNoWs (p : part) (g : bool)
| CFullWs (p : part) (g : bool)
| CWsCorrupt (p : part) (iw dw : f64w) (g : bool)
| CCharSub (n : nat) (g : bool)
| CByteSub (n : nat) (g : bool)
| CMark (k v : str)
| CPrefix (p : part) (s : str)
| CSuffix (p : part) (s : str)
| COpaque (id : nat).

(** [apply(part, f)] *)
Definition apply_part (p : part) (f : str -> info -> res str) (x : item) (i : info) : res (item * info) :=
  match p with
  | PInput => rbind (f (it_in x) i) (fun s => ROk (mk_item s (it_tg x), i))
  | PTarget => rbind (f (it_tg x) i) (fun s => ROk (mk_item (it_in x) s, i))
  end.

(** [overwrite(part)] *)
Definition overwrite (p : part) (x : item) : item :=
  match p with
  | PInput => mk_item (it_tg x) (it_tg x)
  | PTarget => mk_item (it_in x) (it_in x)
  end.

Section Interp.
(** the functions that are not modelled *)
Variable opq : nat -> item -> info -> res (item * info).

(** [preprocessing(cfg)] applied to (item, info) *)
Fixpoint preproc (c : cfg) (x : item) (i : info) {struct c} : res (item * info) :=
  match c with
  | CNone => ROk (x, i)
  | CChain l =>
      (fix go (l : list cfg) (x : item) (i : info) {struct l} : res (item * info) :=
         match l with
         | [] => ROk (x, i)
         | c :: r => match preproc c x i with
                     | ROk (x', i') => go r x' i'
                     | RErr e => RErr e
                     | RPanic s => RPanic s
                     end
         end) l x i
  | CClean p g => apply_part p (fun s _ => ROk (clean (seg_of g s))) x i
  | CNormalize p f g => apply_part p (fun s _ => ROk (normalize_model f g s)) x i
  | COverwrite p => ROk (overwrite p x, i)
  | CSwitch l ps =>
      (fix pick (l : list cfg) (k : nat) {struct l} : res (item * info) :=
         match l with
         | [] => RPanic 1
         | c :: r => match k with O => preproc c x i | S k' => pick r k' end
         end) l (switch_choice ps (i_seed i))
  | CNoWs p g => apply_part p (fun s _ => ROk (remove (seg_of g s))) x i
  | CFullWs p g => apply_part p (fun s _ => ROk (full (seg_of g s))) x i
  | CWsCorrupt p iw dw g => apply_part p (fun s i => ws_corrupt iw dw g (i_seed i) s) x i
  | CCharSub n g => substring (fun seg => char_subs (length seg) n) g x i
  | CByteSub n g => substring (fun seg => byte_subs seg n) g x i
  | CMark k v => ROk (x, mk_info (i_seed i) (i_file i) (mark_insert k v (i_marks i)))
  | CPrefix p s => apply_part p (fun t _ => ROk (s ++ t)) x i
  | CSuffix p s => apply_part p (fun t _ => ROk (t ++ s)) x i
  | COpaque id => opq id x i
  end.

(** [chain(fns)] and the choice of [switch(fns, probs)] as functions of their own (the nested fixes above, named) *)
Fixpoint chain_run (l : list cfg) (x : item) (i : info) : res (item * info) :=
  match l with
  | [] => ROk (x, i)
  | c :: r => match preproc c x i with
              | ROk (x', i') => chain_run r x' i'
              | RErr e => RErr e
              | RPanic s => RPanic s
              end
  end.
Fixpoint pick_run (l : list cfg) (k : nat) (x : item) (i : info) : res (item * info) :=
  match l with
  | [] => RPanic 1
  | c :: r => match k with O => preproc c x i | S k' => pick_run r k' x i end
  end.
End Interp.

(** the constructor's assertions, evaluated when [preprocessing(cfg)] is called (all sub-configurations are
    built eagerly): [false] = the call panics *)
Definition all_fin (ps : list f64w) : bool := forallb (fun p => match p with Fin _ _ => true | _ => false end) ps.
Fixpoint cfg_ok (c : cfg) : bool :=
  match c with
  | CChain l => forallb cfg_ok l
  | CSwitch l ps =>
      forallb cfg_ok l
      && negb (Nat.eqb (length l) 0) && Nat.eqb (length l) (length ps)
      && near_one (lastn (Fin 0 emin) (accum ps))
  | CWsCorrupt _ iw dw _ => accepted (thr iw) (thr dw)
  | _ => true
  end.

(** the domain of the model: switch probabilities are finite and non-negative, +inf or NaN (the last two are
    rejected by the constructor anyway); a NEGATIVE switch probability is accepted by the code when the sum still
    is 1 and is outside the model ([f64w] carries no negative magnitudes) *)
Fixpoint cfg_dom (c : cfg) : bool :=
  match c with
  | CChain l => forallb cfg_dom l
  | CSwitch l ps => forallb cfg_dom l && forallb (fun p => match p with FNeg => false | _ => true end) ps
  | _ => true
  end.

(** * [train_pipeline]: preprocessing (global or per source), task, postprocessing *)
Inductive pcfg := PGlobal (c : cfg) | PPerSource (l : list cfg).

Definition pcfg_ok (p : pcfg) : bool :=
  match p with PGlobal c => cfg_ok c | PPerSource l => forallb cfg_ok l end.
Definition pcfg_dom (p : pcfg) : bool :=
  match p with PGlobal c => cfg_dom c | PPerSource l => forallb cfg_dom l end.

Definition preprocess (opq : nat -> item -> info -> res (item * info)) (p : pcfg) (x : item) (i : info)
  : res (item * info) :=
  match p with
  | PGlobal c => preproc opq c x i
  | PPerSource l => match nth_error l (i_file i) with
                    | Some c => preproc opq c x i
                    | None => RPanic 5
                    end
  end.

(** the whitespace-correction task (task.rs:141-161) over a byte tokenizer: token ids of the input
    (special tokens ignored), one label per input character between -1 paddings *)
Record titem := mk_titem { t_data : item; t_ids : list N; t_labels : list Z }.

Definition task_wsc (g : bool) (b : base) (x : item) : res titem :=
  match byte_tokenize b (it_in x) true with
  | None => RErr 2
  | Some ids =>
      match operations (seg_of g (it_in x)) (seg_of g (it_tg x)) with
      | None => RErr 3
      | Some ops => ROk (mk_titem x ids (labels (length (b_pre b)) (length (b_suf b)) ops))
      end
  end.

(** the pipeline closure of [train_pipeline] with postprocessing [None] *)
Definition pipeline (opq : nat -> item -> info -> res (item * info)) (p : pcfg) (g : bool) (b : base)
           (x : item) (i : info) : res titem :=
  rbind (preprocess opq p x i) (fun xi => task_wsc g b (fst xi)).

(** the [TextDataInfo] the loader builds for global position [idx] of file [file] (mod.rs:971, 990-994) *)
Definition item_info (seed epoch : N) (idx file : nat) : info :=
  mk_info (seed + epoch + N.of_nat idx) file [].

(** * val glue *)
Definition v_part (v : val) : part := if Z.eqb (v_z v) 0 then PInput else PTarget.
Definition v_form (v : val) : form := match form_of (v_n v) with Some f => f | None => NFKC end.
Definition v_str (v : val) : str := v_list v_n v.
Definition str_v (s : str) : val := list_v n_v s.

(** cfg = (0) | (1 (cfg ..)) | (2 part g) | (3 part form g) | (4 part) | (5 (cfg ..) (prob ..)) | (6 part g) | (7 part g)
        | (8 part iw dw g) | (9 n g) | (10 n g) | (11 key value) | (12 part str) | (13 part str) | (14 id)
    part: 0 input, 1 target; form: 1 NFC 2 NFD 3 NFKC 4 NFKD; probabilities: binary64 decomposed as in RNG_Model.v_f64w *)
Fixpoint v_cfg (v : val) : cfg :=
  match v with
  | L (I tag :: args) =>
      let a k := nth k args (L []) in
      match tag with
      | 1%Z => match args with L cs :: _ => CChain (map v_cfg cs) | _ => CNone end
      | 2%Z => CClean (v_part (a 0%nat)) (v_bool (a 1%nat))
      | 3%Z => CNormalize (v_part (a 0%nat)) (v_form (a 1%nat)) (v_bool (a 2%nat))
      | 4%Z => COverwrite (v_part (a 0%nat))
      | 5%Z => match args with L cs :: ps :: _ => CSwitch (map v_cfg cs) (v_list v_f64w ps) | _ => CNone end
      | 6%Z => CNoWs (v_part (a 0%nat)) (v_bool (a 1%nat))
      | 7%Z => CFullWs (v_part (a 0%nat)) (v_bool (a 1%nat))
      | 8%Z => CWsCorrupt (v_part (a 0%nat)) (v_f64w (a 1%nat)) (v_f64w (a 2%nat)) (v_bool (a 3%nat))
      | 9%Z => CCharSub (v_nat (a 0%nat)) (v_bool (a 1%nat))
      | 10%Z => CByteSub (v_nat (a 0%nat)) (v_bool (a 1%nat))
      | 11%Z => CMark (v_str (a 0%nat)) (v_str (a 1%nat))
      | 12%Z => CPrefix (v_part (a 0%nat)) (v_str (a 1%nat))
      | 13%Z => CSuffix (v_part (a 0%nat)) (v_str (a 1%nat))
      | 14%Z => COpaque (v_nat (a 0%nat))
      | _ => CNone
      end
  | _ => CNone
  end.

(** pcfg = (0 cfg) | (1 (cfg ..)) *)
Definition v_pcfg (v : val) : pcfg :=
  if Z.eqb (v_z (v_nth 0 v)) 0 then PGlobal (v_cfg (v_nth 1 v))
  else PPerSource (match v_nth 1 v with L cs => map v_cfg cs | _ => [] end).

(** the extracted model has no unmodelled functions to call: an opaque stage is an error of its own *)
Definition opq_none : nat -> item -> info -> res (item * info) := fun _ _ _ => RErr 9.
Fixpoint has_opaque (c : cfg) : bool :=
  match c with
  | COpaque _ => true
  | CChain l => existsb has_opaque l
  | CSwitch l _ => existsb has_opaque l
  | _ => false
  end.

Definition marks_v (m : list (str * str)) : val := list_v (fun kv => L [str_v (fst kv); str_v (snd kv)]) m.
Definition v_marks (v : val) : list (str * str) := v_list (fun kv => (v_str (v_nth 0 kv), v_str (v_nth 1 kv))) v.

(** insertion sort of the marks by key (the harness sorts the HashMap's entries the same way) *)
Fixpoint str_leb (a b : str) : bool :=
  match a, b with
  | [], _ => true
  | _ :: _, [] => false
  | x :: a', y :: b' => if x <? y then true else if y <? x then false else str_leb a' b'
  end.
Fixpoint mark_ins (kv : str * str) (l : list (str * str)) : list (str * str) :=
  match l with
  | [] => [kv]
  | kv' :: r => if str_leb (fst kv) (fst kv') then kv :: l else kv' :: mark_ins kv r
  end.
Definition marks_sorted (m : list (str * str)) : list (str * str) := fold_right mark_ins [] m.

Definition v_outside : val := L [I (-5)%Z].

(** direct line.  input = (-1 cfg input target (seed-hi seed-lo) file marks)
    output = (0) the constructor panics | (1 input target marks rep) | (2 rep) Err | (-777) the call panics
             | (-5) outside the model;  rep = 1: two more calls (one on another thread) returned the same *)
Definition res_item_v (r : res (item * info)) : val :=
  match r with
  | ROk (x, i) => L [I 1%Z; str_v (it_in x); str_v (it_tg x); marks_v (marks_sorted (i_marks i)); I 1%Z]
  | RErr _ => L [I 2%Z; I 1%Z]
  | RPanic _ => v_panic
  end.

Definition run_preproc (v : val) : val :=
  let c := v_cfg (v_nth 1 v) in
  if negb (cfg_dom c) || has_opaque c then v_outside
  else if negb (cfg_ok c) then L [I 0%Z]
  else res_item_v (preproc opq_none c (mk_item (v_str (v_nth 2 v)) (v_str (v_nth 3 v)))
                           (mk_info (v_hl (v_nth 4 v)) (v_nat (v_nth 5 v)) (v_marks (v_nth 6 v)))).

(** Pipeline proofs, part 1: the structure of [preproc] — a custom induction principle for the nested
    inductive [cfg], Chain as a monoid action (identity, associativity = flattening), Switch as the
    choice of exactly one in-range branch, what a result depends on (seed yes; file index and
    incoming marks only flow through). *)
From TU Require Import RNG_Model RNG_Proofs.
From TU Require Import Base C14_Model C14_Seeded Pipeline_Model.
Require Import Lia.
Local Open Scope nat_scope.

(** * induction over configurations *)
Section CfgInd.
Variable P : cfg -> Prop.
Hypothesis HNone : P CNone.
Hypothesis HChain : forall l, Forall P l -> P (CChain l).
Hypothesis HClean : forall p g, P (CClean p g).
Hypothesis HNorm : forall p f g, P (CNormalize p f g).
Hypothesis HOver : forall p, P (COverwrite p).
Hypothesis HSwitch : forall l ps, Forall P l -> P (CSwitch l ps).
Hypothesis HNoWs : forall p g, P (CNoWs p g).
Hypothesis HFullWs : forall p g, P (CFullWs p g).
Hypothesis HWs : forall p iw dw g, P (CWsCorrupt p iw dw g).
Hypothesis HChar : forall n g, P (CCharSub n g).
Hypothesis HByte : forall n g, P (CByteSub n g).
Hypothesis HMark : forall k v, P (CMark k v).
Hypothesis HPre : forall p s, P (CPrefix p s).
Hypothesis HSuf : forall p s, P (CSuffix p s).
Hypothesis HOpq : forall id, P (COpaque id).

Fixpoint cfg_ind' (c : cfg) : P c :=
  match c with
  | CNone => HNone
  | CChain l => HChain l ((fix go (l : list cfg) : Forall P l :=
                             match l with [] => Forall_nil P | c :: r => Forall_cons c (cfg_ind' c) (go r) end) l)
  | CClean p g => HClean p g
  | CNormalize p f g => HNorm p f g
  | COverwrite p => HOver p
  | CSwitch l ps => HSwitch l ps ((fix go (l : list cfg) : Forall P l :=
                             match l with [] => Forall_nil P | c :: r => Forall_cons c (cfg_ind' c) (go r) end) l)
  | CNoWs p g => HNoWs p g
  | CFullWs p g => HFullWs p g
  | CWsCorrupt p iw dw g => HWs p iw dw g
  | CCharSub n g => HChar n g
  | CByteSub n g => HByte n g
  | CMark k v => HMark k v
  | CPrefix p s => HPre p s
  | CSuffix p s => HSuf p s
  | COpaque id => HOpq id
  end.
End CfgInd.

Section Structure.
Variable opq : nat -> item -> info -> res (item * info).
Notation preproc := (preproc opq).
Notation chain_run := (chain_run opq).
Notation pick_run := (pick_run opq).

(** the nested fixes of [preproc] are [chain_run] and [pick_run] *)
Lemma preproc_chain : forall l x i, preproc (CChain l) x i = chain_run l x i.
Proof. induction l as [|c r IH]; intros x i; [reflexivity|]. cbn [Pipeline_Model.preproc Pipeline_Model.chain_run].
  destruct (Pipeline_Model.preproc opq c x i) as [[x' i']| |]; [|reflexivity|reflexivity]. apply (IH x' i'). Qed.

Lemma preproc_switch : forall l ps x i,
  preproc (CSwitch l ps) x i = pick_run l (switch_choice ps (i_seed i)) x i.
Proof.
  intros l ps x i. cbn [Pipeline_Model.preproc]. generalize (switch_choice ps (i_seed i)) as k.
  induction l as [|c r IH]; intros k; [reflexivity|]. cbn [Pipeline_Model.pick_run]. destruct k as [|k]; [reflexivity|]. apply IH.
Qed.

(** ** Chain: identity and associativity *)
Lemma chain_nil : forall x i, preproc (CChain []) x i = preproc CNone x i.
Proof. reflexivity. Qed.

Lemma chain_single : forall c x i, preproc (CChain [c]) x i = preproc c x i.
Proof. intros c x i. cbn [Pipeline_Model.preproc]. destruct (Pipeline_Model.preproc opq c x i) as [[x' i']| |]; reflexivity. Qed.

Lemma chain_app : forall l1 l2 x i,
  chain_run (l1 ++ l2) x i = rbind (chain_run l1 x i) (fun xi => chain_run l2 (fst xi) (snd xi)).
Proof.
  induction l1 as [|c r IH]; intros l2 x i; [reflexivity|]. cbn [app Pipeline_Model.chain_run].
  destruct (Pipeline_Model.preproc opq c x i) as [[x' i']| |]; [apply IH|reflexivity|reflexivity].
Qed.

(** a chain inside a chain is the flat chain (associativity), an empty chain / [None] stage is the unit *)
Lemma chain_flatten : forall l1 l2 l3 x i,
  preproc (CChain (l1 ++ CChain l2 :: l3)) x i = preproc (CChain (l1 ++ l2 ++ l3)) x i.
Proof.
  intros l1 l2 l3 x i. rewrite !preproc_chain, !chain_app.
  destruct (chain_run l1 x i) as [[x1 i1]| |]; cbn [rbind fst snd]; [|reflexivity|reflexivity].
  cbn [Pipeline_Model.chain_run]. rewrite preproc_chain, chain_app.
  destruct (chain_run l2 x1 i1) as [[x2 i2]| |]; reflexivity.
Qed.

Lemma chain_none_unit : forall l1 l2 x i,
  preproc (CChain (l1 ++ CNone :: l2)) x i = preproc (CChain (l1 ++ l2)) x i.
Proof.
  intros l1 l2 x i. rewrite !preproc_chain, !chain_app.
  destruct (chain_run l1 x i) as [[x1 i1]| |]; reflexivity.
Qed.

Lemma chain_chain_app : forall l1 l2 x i,
  preproc (CChain [CChain l1; CChain l2]) x i = preproc (CChain (l1 ++ l2)) x i.
Proof.
  intros l1 l2 x i. rewrite (chain_flatten [] l1 [CChain l2]). cbn [app].
  rewrite (chain_flatten l1 l2 []). rewrite app_nil_r. reflexivity.
Qed.

(** ** Switch: exactly one branch, chosen by an in-range index, for every seed *)
Lemma sw_idx_lt : forall r cum, cum <> [] -> sw_idx r cum < length cum.
Proof.
  intros r cum. induction cum as [|c rest IH]; intros Hne; [contradiction|].
  cbn [sw_idx length]. destruct rest as [|c' rest']; [lia|].
  destruct (fgt r c); [|lia]. assert (H : c' :: rest' <> []) by discriminate. specialize (IH H). cbn [length] in *. lia.
Qed.

Lemma accum_from_length : forall ps t, length (accum_from t ps) = length ps.
Proof. induction ps as [|p r IH]; intros t; cbn [accum_from length]; [reflexivity|]. rewrite IH. reflexivity. Qed.
Lemma accum_length : forall ps, length (accum ps) = length ps.
Proof. intros [|p r]; cbn [accum length]; [reflexivity|]. rewrite accum_from_length. reflexivity. Qed.

Lemma switch_choice_lt : forall ps seed, ps <> [] -> switch_choice ps seed < length ps.
Proof.
  intros ps seed Hne. unfold switch_choice. destruct (random_f64 (seed_from_u64 seed)) as [k st].
  rewrite <- (accum_length ps). apply sw_idx_lt. intros H. apply (f_equal (@length _)) in H.
  rewrite accum_length in H. destruct ps; [contradiction|discriminate].
Qed.

(** the index is the first whose cumulative probability is not exceeded by r (or the last one) *)
Lemma sw_idx_spec : forall r cum k, sw_idx r cum = k ->
  (forall j, j < k -> fgt r (nth j cum FNaN) = true) /\
  (S k < length cum -> fgt r (nth k cum FNaN) = false).
Proof.
  intros r cum. induction cum as [|c rest IH]; intros k H; cbn [sw_idx] in H.
  - subst k. split; [intros j Hj; lia|cbn; lia].
  - destruct rest as [|c' rest'].
    + subst k. split; [intros j Hj; lia|cbn; lia].
    + destruct (fgt r c) eqn:E.
      * destruct k as [|k]; [discriminate|]. injection H as H. destruct (IH k H) as [H1 H2]. split.
        -- intros [|j] Hj; cbn [nth]; [exact E|]. apply H1. lia.
        -- cbn [length nth] in *. intros Hk. apply H2. lia.
      * subst k. split; [intros j Hj; lia|]. intros _. exact E.
Qed.

Lemma pick_run_nth : forall l k c x i, nth_error l k = Some c -> pick_run l k x i = preproc c x i.
Proof.
  induction l as [|c0 r IH]; intros k c x i H; [destruct k; discriminate|].
  destruct k as [|k]; cbn [nth_error Pipeline_Model.pick_run] in *; [injection H as <-; reflexivity|]. apply IH. exact H.
Qed.

Lemma switch_exact : forall l ps x i, l <> [] -> length l = length ps ->
  exists c, nth_error l (switch_choice ps (i_seed i)) = Some c /\ switch_choice ps (i_seed i) < length l /\
            preproc (CSwitch l ps) x i = preproc c x i.
Proof.
  intros l ps x i Hne Hlen.
  assert (Hps : ps <> []) by (intros ->; destruct l; [contradiction|discriminate]).
  pose proof (switch_choice_lt ps (i_seed i) Hps) as Hk. rewrite <- Hlen in Hk.
  destruct (nth_error l (switch_choice ps (i_seed i))) as [c|] eqn:E.
  - exists c. split; [reflexivity|]. split; [exact Hk|]. rewrite preproc_switch. apply pick_run_nth. exact E.
  - apply nth_error_None in E. lia.
Qed.

(** what [cfg_ok] says about a switch *)
Lemma cfg_ok_switch : forall l ps, cfg_ok (CSwitch l ps) = true ->
  Forall (fun c => cfg_ok c = true) l /\ l <> [] /\ length l = length ps /\ near_one (lastn (Fin 0 emin) (accum ps)) = true.
Proof.
  intros l ps H. cbn [cfg_ok] in H. rewrite !andb_true_iff in H. destruct H as [[[H1 H2] H3] H4].
  split; [apply Forall_forall; intros c Hc; rewrite forallb_forall in H1; exact (H1 c Hc)|].
  split; [intros ->; discriminate|]. split; [apply Nat.eqb_eq; exact H3|exact H4].
Qed.
Lemma cfg_ok_chain : forall l, cfg_ok (CChain l) = true -> Forall (fun c => cfg_ok c = true) l.
Proof. intros l H. cbn [cfg_ok] in H. apply Forall_forall. intros c Hc. rewrite forallb_forall in H. exact (H c Hc). Qed.

End Structure.

(** C08 over modelled pipelines: proofs.  The Section variable [g] of C08_EndToEnd.v (the user pipeline as a
    function of (global position, item)) is instantiated with [pipe_fn]: Pipeline_Model's interpreter applied to
    the configuration, with the item seed  seed + epoch + position  the loader derives.  The statements of
    C08_Props.v about an arbitrary pure [g] become closed statements about the loader over modelled pipelines;
    the generator is C07's seeded one and the batcher C06's seeded one, so nothing random is left outside. *)
From Coq Require Import Sorting.Sorted Sorting.Permutation.
From TU Require Import RNG_Model RNG_Proofs.
From TU Require Import Base C01_Model C06_Model C06_Top C06_Seeded C06_Seeded_Proofs C07_Model C07_Top C07_Seeded.
From TU Require Import C08_Model C08_Proofs C08_EndToEnd C08_Sources Pipeline_Model Pipeline_Proofs Pipeline_Proofs2 C08_Pipeline.
Require Import Lia ZifyBool ZifyNat ZifyN.
Local Open Scope nat_scope.

(** * item level versions of the position theorems, for every [g] *)
Section Items.
Context {D B : Type}.
Variable data : list (option D).
Variable g : nat -> D -> option B.

Lemma item_at_fst : forall i j b, item_at data g i = Some (j, b) -> j = i.
Proof.
  intros i j b H. unfold item_at in H. destruct (nth i data None) as [d|]; [|discriminate].
  destruct (g i d); [|discriminate]. injection H as <- _. reflexivity.
Qed.

Lemma keep_some_filter (P : nat -> bool) : forall l,
  keep_some (map (item_at data g) (filter P l)) = filter (fun q => P (fst q)) (keep_some (map (item_at data g) l)).
Proof.
  induction l as [|i l IH]; [reflexivity|]. cbn [filter map].
  destruct (P i) eqn:E; cbn [map keep_some]; destruct (item_at data g i) as [[j b]|] eqn:Ei; try exact IH.
  - apply item_at_fst in Ei. subst j. cbn [filter fst]. rewrite E, IH. reflexivity.
  - apply item_at_fst in Ei. subst j. cbn [filter fst]. rewrite E. exact IH.
Qed.

Lemma sel_resume lim skip k N : sel lim skip k 0 1 N = filter (fun i => skip + k <=? i) (sel lim skip 0 0 1 N).
Proof.
  apply sorted_ext; [apply sel_sorted_l|apply filter_sorted, sel_sorted_l|].
  intros i. rewrite filter_In, !sel_mem_l by lia. rewrite Nat.leb_le. split.
  - intros (j & -> & H). split; [exists (k + j); lia|lia].
  - intros ((j & -> & H) & Hle). exists (j - k). lia.
Qed.

Lemma sel_rank lim skip ff rank W N : 1 <= W ->
  sel lim skip ff rank W N =
  filter (fun i => (skip + ff + rank <=? i) && Nat.eqb ((i - (skip + ff + rank)) mod W) 0) (sel lim skip 0 0 1 N).
Proof.
  intros HW. apply sorted_ext; [apply sel_sorted_l|apply filter_sorted, sel_sorted_l|].
  intros i. rewrite filter_In, (sel_mem_l _ _ _ _ W) by lia. rewrite (sel_mem_l _ _ _ _ 1) by lia.
  rewrite andb_true_iff, Nat.leb_le, Nat.eqb_eq. split.
  - intros (j & -> & H). split; [exists (ff + rank + j * W); lia|].
    split; [lia|]. replace (skip + ff + rank + j * W - (skip + ff + rank)) with (j * W) by lia.
    apply Nat.mod_mul. lia.
  - intros ((j & -> & H) & Hle & Hm).
    set (s := skip + ff + rank) in *. exists ((skip + 0 + 0 + j * 1 - s) / W). split; [|lia].
    pose proof (Nat.div_mod (skip + 0 + 0 + j * 1 - s) W ltac:(lia)) as E. rewrite Hm in E. nia.
Qed.

(** restarting with fast_forward(k): exactly the ITEMS (position and value) of the uninterrupted run from
    position skip + k on, in the same order *)
Lemma loader_items_resume lim skip k :
  loader_items data g lim skip k 0 1 = filter (fun q => skip + k <=? fst q) (loader_items data g lim skip 0 0 1).
Proof. unfold loader_items. rewrite sel_resume. apply keep_some_filter. Qed.

(** one rank with any fast-forward offset: exactly the items of the single-process run at the positions it owns *)
Lemma loader_items_rank lim skip ff rank W : 1 <= W ->
  loader_items data g lim skip ff rank W =
  filter (fun q => (skip + ff + rank <=? fst q) && Nat.eqb ((fst q - (skip + ff + rank)) mod W) 0)
         (loader_items data g lim skip 0 0 1).
Proof. intros HW. unfold loader_items. rewrite (sel_rank _ _ _ _ _ _ HW). apply (keep_some_filter (fun i => (skip + ff + rank <=? i) && Nat.eqb ((i - (skip + ff + rank)) mod W) 0)). Qed.

(** limit = k and skip = k split the items *)
Lemma loader_items_limit_skip k :
  Permutation (loader_items data g k 0 0 0 1 ++ loader_items data g (length data) k 0 0 1)
              (loader_items data g (length data) 0 0 0 1)
  /\ (forall q, In q (loader_items data g k 0 0 0 1) -> fst q < k)
  /\ (forall q, In q (loader_items data g (length data) k 0 0 1) -> k <= fst q).
Proof.
  assert (Hsplit : sel k 0 0 0 1 (length data) ++ sel (length data) k 0 0 1 (length data) = sel (length data) 0 0 0 1 (length data)).
  { unfold sel, select. rewrite !step_by_one_l. cbn [plus skipn]. rewrite !Nat.add_0_r.
    rewrite !firstn_seq, skipn_seq, Nat.min_id. cbn [plus].
    destruct (Nat.le_ge_cases k (length data)) as [H|H].
    - rewrite Nat.min_l by exact H. rewrite <- seq_app. f_equal. lia.
    - rewrite Nat.min_r by exact H. replace (length data - k) with 0 by lia. cbn [seq]. apply app_nil_r. }
  split; [|split].
  - unfold loader_items. rewrite <- Hsplit, map_app, keep_some_app. apply Permutation_refl.
  - intros [i b] Hq. apply (in_map fst) in Hq. rewrite loader_positions_l in Hq. apply stream_mem_l in Hq.
    destruct Hq as [Hq _]. apply limit_part_l in Hq. cbn [fst] in *. lia.
  - intros [i b] Hq. apply (in_map fst) in Hq. rewrite loader_positions_l in Hq. apply stream_mem_l in Hq.
    destruct Hq as [Hq _]. apply skip_part_l in Hq. cbn [fst] in *. lia.
Qed.

Lemma keep_some_length {X} (l : list (option X)) : length (keep_some l) <= length l.
Proof. induction l as [|[x|] l IH]; cbn [keep_some length]; lia. Qed.

Lemma sel_length lim skip ff rank W N : length (sel lim skip ff rank W N) <= N.
Proof.
  rewrite <- (seq_length N 0) at 2. apply NoDup_incl_length.
  - apply sorted_lt_nodup, sel_sorted_l.
  - intros i Hi. pose proof (sel_in_range lim skip ff rank W N) as HF. rewrite Forall_forall in HF.
    apply in_seq. specialize (HF i Hi). lia.
Qed.

Lemma loader_items_length lim skip ff rank W : length (loader_items data g lim skip ff rank W) <= length data.
Proof.
  unfold loader_items. eapply Nat.le_trans; [apply keep_some_length|]. rewrite map_length. apply sel_length.
Qed.
End Items.

(** * the pipeline of Pipeline_Model as [g] *)
Section Modelled.
Variable opq : nat -> item -> info -> res (item * info).
Variables (p : pcfg) (g : bool) (b : base) (seed epoch : N).
Notation pf := (pipe_fn opq p g b seed epoch).

(** a delivered item is the modelled pipeline's value for (line, file index, seed + epoch + position) — whatever rank,
    world size, skip or fast-forward offset delivers it: no purity premise, the pipeline is the interpreter *)
Lemma loader_item_by_index : forall data lim skip ff rank W i t,
  In (i, t) (loader_items data pf lim skip ff rank W) ->
  exists d, nth i data None = Some d /\
            pipeline opq p g b (snd d) (item_info seed epoch i (fst d)) = ROk t.
Proof.
  intros data lim skip ff rank W i t H. destruct (loader_item_value_l data pf lim skip ff rank W i t H) as (d & Hd & Hg).
  exists d. split; [exact Hd|]. unfold pipe_fn, pipe_res in Hg.
  destruct (pipeline opq p g b (snd d) (item_info seed epoch i (fst d))) as [t'| |]; [|discriminate|discriminate].
  injection Hg as <-. reflexivity.
Qed.

(** the same position is processed identically by every configuration that delivers it *)
Lemma loader_item_same : forall data lim skip ff rank W lim' skip' ff' rank' W' i t t',
  In (i, t) (loader_items data pf lim skip ff rank W) ->
  In (i, t') (loader_items data pf lim' skip' ff' rank' W') -> t = t'.
Proof.
  intros data lim skip ff rank W lim' skip' ff' rank' W' i t t' H H'.
  destruct (loader_item_by_index _ _ _ _ _ _ _ _ H) as (d & Hd & Ht).
  destruct (loader_item_by_index _ _ _ _ _ _ _ _ H') as (d' & Hd' & Ht').
  rewrite Hd in Hd'. injection Hd' as <-. rewrite Ht in Ht'. injection Ht' as <-. reflexivity.
Qed.
End Modelled.

(** the processed item is a function of (configuration, line, seed + epoch + position) alone: two infos with the
    same seed give the same result whatever their file index and marks (global configuration without opaque stages) *)
Lemma pipeline_function_of_seed : forall c g b x i i', has_opaque c = false -> i_seed i = i_seed i' ->
  pipeline opq_none (PGlobal c) g b x i = pipeline opq_none (PGlobal c) g b x i'.
Proof.
  intros c g b x i i' Hop Hs. unfold pipeline, preprocess.
  pose proof (preproc_same c Hop x i i' Hs) as H.
  destruct (preproc opq_none c x i) as [[a j]| |], (preproc opq_none c x i') as [[a' j']| |]; cbn [same_res] in H;
    try contradiction; cbn [rbind fst].
  - destruct H as [-> _]. reflexivity.
  - subst. reflexivity.
  - subst. reflexivity.
Qed.

(** * the loader run: all ranks of a world *)
Lemma total_len_concat : forall {A} (srcs : list (list A)), total_len srcs = length (concat srcs).
Proof.
  intros A srcs. unfold total_len. induction srcs as [|s r IH]; [reflexivity|].
  cbn [map sum_nat fold_right concat]. fold (sum_nat (map (@length A) r)). rewrite app_length, IH. reflexivity.
Qed.

Lemma data_of_out_length : forall out : list (nat * line), length (data_of_out out) = length out.
Proof. intros out. unfold data_of_out. apply map_length. Qed.

Lemma gen_lines_items : forall s seed files out, files <> [] ->
  (N.of_nat (total_len files) < RNG_Model.p64)%N ->
  gen_lines s seed files = Some (C07_Model.Ok out) ->
  (forall j, proj j out = nth j files []) /\ length out = total_len files /\ Forall (fun q => fst q < length files) out.
Proof.
  intros s seed files out Hne Hsum H. unfold gen_lines in H. destruct s.
  - injection H as H. exact (gen_items_l _ _ _ _ Hne H).
  - injection H as H. exact (gen_items_l _ _ _ _ Hne H).
  - destruct (gen_items_seeded_l seed files out Hne Hsum H) as (H1 & H2 & H3 & _). auto.
Qed.

Section World.
Variable opq : nat -> item -> info -> res (item * info).
Variables (p : pcfg) (g : bool) (b : base) (seed epoch : N).
Variables (s : strategy) (files : list (list line)).
Variables (sort shuffle : bool) (prefetch blim : nat) (ty : limit_type).
Notation pf := (pipe_fn opq p g b seed epoch).
Notation run := (loader_run opq p g b seed epoch s files).

Lemma loader_run_ok : forall lim skip ff rank W m bs,
  run lim skip ff rank W sort shuffle prefetch blim ty = LOk m bs ->
  exists out, gen_lines s (seed + epoch)%N files = Some (C07_Model.Ok out) /\
    m = min_items lim skip (length out) /\
    loader_panics opq p g b seed epoch (data_of_out out) lim skip ff rank W = false /\
    batches_seeded tsize sort shuffle prefetch blim ty (seed + epoch)%N
                   (loader_items (data_of_out out) pf lim skip ff rank W) = C06_Model.Ok bs.
Proof.
  intros lim skip ff rank W m bs H. unfold loader_run in H.
  destruct (negb (pcfg_ok p)); [discriminate|].
  destruct (gen_lines s (seed + epoch)%N files) as [[out|e]|]; [|destruct e; discriminate|discriminate].
  destruct (loader_panics _ _ _ _ _ _ _ _ _ _ _ _) eqn:Ep; [discriminate|].
  destruct (batches_seeded _ _ _ _ _ _ _ _) as [bs'|e] eqn:Eb; [|discriminate].
  injection H as <- <-. exists out. rewrite data_of_out_length. auto.
Qed.

(** All batches of all ranks of a world hold exactly the items of the single-process run, each once — every
    generation strategy, pipeline configuration, batching mode; generator, pipeline and batcher computed from the seed *)
Lemma world_partition_modelled : forall lim skip ff W ms bss, 1 <= W -> files <> [] ->
  (N.of_nat (total_len files) < 9223372036854775807)%N ->
  length bss = W ->
  (forall r, r < W -> run lim skip ff r W sort shuffle prefetch blim ty = LOk (nth r ms 0) (nth r bss [])) ->
  exists out, gen_lines s (seed + epoch)%N files = Some (C07_Model.Ok out) /\
    Permutation (concat (concat bss)) (loader_items (data_of_out out) pf lim skip ff 0 1) /\
    Forall (fun bs => Forall (fun bt => bt <> []) bs) bss.
Proof.
  intros lim skip ff W ms bss HW Hne Hfit Hlen Hall.
  destruct (loader_run_ok _ _ _ _ _ _ _ (Hall 0 ltac:(lia))) as (out & Hgen & _).
  exists out. split; [exact Hgen|].
  assert (Hr : forall r, r < W ->
            Permutation (concat (nth r bss [])) (loader_items (data_of_out out) pf lim skip ff r W) /\
            Forall (fun bt => bt <> []) (nth r bss [])).
  { intros r Hr. destruct (loader_run_ok _ _ _ _ _ _ _ (Hall r Hr)) as (out' & Hgen' & _ & _ & Hb).
    rewrite Hgen in Hgen'. injection Hgen' as <-.
    assert (Hf : fits (length (loader_items (data_of_out out) pf lim skip ff r W))).
    { unfold fits. pose proof (loader_items_length (data_of_out out) pf lim skip ff r W) as Hl.
      rewrite data_of_out_length in Hl.
      destruct (gen_lines_items s _ files out Hne ltac:(unfold RNG_Model.p64; lia) Hgen) as (_ & Ho & _).
      assert (Hl' : length (loader_items (data_of_out out) pf lim skip ff r W) <= total_len files) by (rewrite <- Ho; exact Hl).
      lia. }
    destruct (seeded_props_l tsize sort shuffle prefetch blim ty _ _ _ Hf Hb) as (Hp & Hn & _). auto. }
  split.
  - eapply Permutation_trans; [|apply world_items_perm_l; exact HW].
    assert (Hbss : bss = map (fun r => nth r bss []) (seq 0 W)).
    { rewrite <- Hlen. clear. induction bss as [|x l IH] using rev_ind; [reflexivity|].
      rewrite app_length. cbn [length]. rewrite Nat.add_1_r, seq_S, map_app. cbn [map plus].
      rewrite app_nth2 by lia. rewrite Nat.sub_diag. cbn [nth]. f_equal.
      rewrite IH at 1. apply map_ext_in. intros r Hr. apply in_seq in Hr.
      rewrite app_nth1 by lia. reflexivity. }
    rewrite Hbss at 1. rewrite concat_concat_map.
    apply concat_map_perm. intros r Hin. apply in_seq in Hin. apply (Hr r). lia.
  - apply Forall_forall. intros bs Hbs. apply In_nth with (d := []) in Hbs. destruct Hbs as (r & Hr' & <-).
    apply (Hr r). lia.
Qed.

(** ... and with a limit that does not cut, no skip and no offset, those items are the processed source lines: every
    line of every file that is an item and that the pipeline accepts, each exactly once; the generator's output is the
    files' lines, each once, in per-file order, tagged with its file *)
Lemma world_covers_sources_modelled : forall lim W ms bss, 1 <= W -> files <> [] ->
  (N.of_nat (total_len files) < 9223372036854775807)%N ->
  total_len files <= lim -> length bss = W ->
  (forall r, r < W -> run lim 0 0 r W sort shuffle prefetch blim ty = LOk (nth r ms 0) (nth r bss [])) ->
  exists out, gen_lines s (seed + epoch)%N files = Some (C07_Model.Ok out) /\
    Permutation (concat (concat bss))
                (keep_some (map (item_at (data_of_out out) pf) (seq 0 (length out)))) /\
    (forall j, proj j out = nth j files []) /\ length out = total_len files /\
    Forall (fun q => fst q < length files) out.
Proof.
  intros lim W ms bss HW Hne Hfit Hlim Hlen Hall.
  destruct (world_partition_modelled lim 0 0 W ms bss HW Hne Hfit Hlen Hall) as (out & Hgen & Hperm & _).
  exists out. split; [exact Hgen|].
  destruct (gen_lines_items s _ files out Hne ltac:(unfold RNG_Model.p64; lia) Hgen) as (H1 & H2 & H3).
  split; [|auto]. unfold loader_items in Hperm. rewrite data_of_out_length in Hperm.
  rewrite (sel_full lim (length out)) in Hperm by lia. exact Hperm.
Qed.
End World.

(** * the loader run is defined: no fuel runs out, nothing is out of range *)
Section Total.
Variable opq : nat -> item -> info -> res (item * info).
Variables (p : pcfg) (g : bool) (b : base) (seed epoch : N).
Variables (files : list (list line)).
Variables (sort shuffle : bool) (prefetch blim : nat) (ty : limit_type).
Notation run := (loader_run opq p g b seed epoch).

(** sequential and interleaved: whenever the constructors accept and no pipeline call panics, the run returns batches *)
Lemma loader_run_total_nw : forall s lim skip ff rank W, s <> Weighted -> pcfg_ok p = true -> files <> [] ->
  (N.of_nat (total_len files) < 9223372036854775807)%N ->
  exists out, gen_lines s (seed + epoch)%N files = Some (C07_Model.Ok out) /\
    (loader_panics opq p g b seed epoch (data_of_out out) lim skip ff rank W = false ->
     exists bs, run s files lim skip ff rank W sort shuffle prefetch blim ty = LOk (min_items lim skip (length out)) bs).
Proof.
  intros s lim skip ff rank W Hs Hok Hne Hfit.
  destruct (gen_total_nw_l s (fun _ _ => 0) files Hne Hs) as [out Hout].
  assert (Hgen : gen_lines s (seed + epoch)%N files = Some (C07_Model.Ok out)).
  { unfold gen_lines. destruct s; [rewrite Hout; reflexivity|rewrite Hout; reflexivity|congruence]. }
  exists out. split; [exact Hgen|]. intros Hp.
  destruct (gen_lines_items s _ files out Hne ltac:(unfold RNG_Model.p64; lia) Hgen) as (_ & Ho & _).
  assert (Hf : fits (length (loader_items (data_of_out out) (pipe_fn opq p g b seed epoch) lim skip ff rank W))).
  { unfold fits. pose proof (loader_items_length (data_of_out out) (pipe_fn opq p g b seed epoch) lim skip ff rank W) as Hl.
    rewrite data_of_out_length in Hl.
    assert (Hl' : length (loader_items (data_of_out out) (pipe_fn opq p g b seed epoch) lim skip ff rank W) <= total_len files)
      by (rewrite <- Ho; exact Hl).
    lia. }
  destruct (seeded_total_l tsize sort shuffle prefetch blim ty (seed + epoch)%N _ Hf) as [bs Hbs].
  exists bs. unfold loader_run. rewrite Hok. cbn [negb]. rewrite Hgen, Hp, Hbs, data_of_out_length. reflexivity.
Qed.

(** weighted: the same whenever the rejection sampler of the generator stays within its fuel *)
Lemma loader_run_total_w : forall lim skip ff rank W r, pcfg_ok p = true -> files <> [] ->
  existsb (@C07_Model.is_nil line) files = false ->
  (N.of_nat (total_len files) < 9223372036854775807)%N ->
  gen_lines Weighted (seed + epoch)%N files = Some r ->
  exists out, r = C07_Model.Ok out /\
    (loader_panics opq p g b seed epoch (data_of_out out) lim skip ff rank W = false ->
     exists bs, run Weighted files lim skip ff rank W sort shuffle prefetch blim ty = LOk (min_items lim skip (length out)) bs).
Proof.
  intros lim skip ff rank W r Hok Hne Hnil Hfit Hgen.
  destruct (gen_total_seeded_l (seed + epoch)%N files r Hne Hnil ltac:(unfold RNG_Model.p64; lia) Hgen) as [out ->].
  exists out. split; [reflexivity|]. intros Hp.
  destruct (gen_lines_items Weighted _ files out Hne ltac:(unfold RNG_Model.p64; lia) Hgen) as (_ & Ho & _).
  assert (Hf : fits (length (loader_items (data_of_out out) (pipe_fn opq p g b seed epoch) lim skip ff rank W))).
  { unfold fits. pose proof (loader_items_length (data_of_out out) (pipe_fn opq p g b seed epoch) lim skip ff rank W) as Hl.
    rewrite data_of_out_length in Hl.
    assert (Hl' : length (loader_items (data_of_out out) (pipe_fn opq p g b seed epoch) lim skip ff rank W) <= total_len files)
      by (rewrite <- Ho; exact Hl).
    lia. }
  destruct (seeded_total_l tsize sort shuffle prefetch blim ty (seed + epoch)%N _ Hf) as [bs Hbs].
  exists bs. unfold loader_run. rewrite Hok. cbn [negb]. rewrite Hgen, Hp, Hbs, data_of_out_length. reflexivity.
Qed.
End Total.

(** * the executable statements of the two new lines hold of the model's own output *)
Lemma check_preproc_run : forall v, kind v = (-1)%Z ->
  cfg_dom (v_cfg (v_nth 1 v)) = true -> has_opaque (v_cfg (v_nth 1 v)) = false ->
  check_C08x v (run_C08x v) = true.
Proof.
  intros v Hk Hd Ho. unfold check_C08x, run_C08x. rewrite Hk. cbn [Z.eqb Pos.eqb]. unfold run_preproc.
  rewrite Hd, Ho. cbn [negb orb]. destruct (negb (cfg_ok _)); [reflexivity|].
  destruct (preproc _ _ _ _) as [[x i]| |]; reflexivity.
Qed.

Lemma check_loader_ok : forall v m bs, check_loader v (L [I 1%Z; nat_v m; list_v (list_v titem_v) bs; I 1%Z; I 1%Z]) = true.
Proof. reflexivity. Qed.

(** C15 seeded, part 2: the seeded function picks one element of the relational model's choice set
    ([seeded_in_choices_l]), never faults on well-formed tables ([seeded_total_l]), moves the generator
    by exactly the draws of [edit_draws] ([seeded_draws_l], [seeded_words_l]), does not depend on the
    order / repetitions of the exclusion list ([seeded_set_ext_l]); chains and the corrupt_spelling
    closure thread the state and are chains of the relational model. *)
From TU Require Import RNG_Model RNG_Proofs.
From TU Require Import Base C15_Model C15_Proofs C15_Apply C15_Check C15_Chain C15_Seeded C15_SeededFloat.
From Coq Require Import Lia.

(** * Forgetting the weights commutes with the lookups *)
Lemma ins_lookup_erase t p s :
  ins_lookup (map erase_ient t) p s = option_map (map erase_edit) (wins_lookup t p s).
Proof.
  induction t as [|[[p' s'] es] t IH]; cbn [map erase_ient ins_lookup wins_lookup option_map]; [reflexivity|].
  destruct (nlist_eqb p p' && nlist_eqb s s'); [reflexivity|exact IH].
Qed.

Lemma rep_lookup_erase t p s n :
  rep_lookup (map erase_rent t) p s n = option_map (map erase_edit) (wrep_lookup t p s n).
Proof.
  induction t as [|[[[p' s'] n'] es] t IH]; cbn [map erase_rent rep_lookup wrep_lookup option_map]; [reflexivity|].
  destruct (nlist_eqb p p' && nlist_eqb s s' && nlist_eqb n n'); [reflexivity|exact IH].
Qed.

Definition erase_res (r : wctx_res) : ctx_res :=
  match r with WEmptyWord => EmptyWord | WFound o => Found (option_map (map erase_edit) o) end.

Lemma ins_ctx_erase t w i : ins_ctx (map erase_ient t) w i = erase_res (wins_ctx t w i).
Proof. unfold ins_ctx, wins_ctx. cbn [erase_res]. rewrite ins_lookup_erase. reflexivity. Qed.

Lemma rep_ctx_erase t w i : rep_ctx (map erase_rent t) w i = erase_res (wrep_ctx t w i).
Proof.
  unfold rep_ctx, wrep_ctx. destruct (nth_error w _); cbn [erase_res]; [|reflexivity].
  rewrite rep_lookup_erase. reflexivity.
Qed.

Definition erase_cand (c : nat * list wedit) : nat * list edit := (fst c, map erase_edit (snd c)).

Lemma collect_erase prov wprov idxs : (forall i, prov i = erase_res (wprov i)) ->
  collect prov idxs = option_map (map erase_cand) (wcollect wprov idxs).
Proof.
  intros Hp. induction idxs as [|i r IH]; cbn [collect wcollect option_map map]; [reflexivity|].
  rewrite Hp. destruct (wprov i) as [|[es|]]; cbn [erase_res option_map]; [reflexivity| |exact IH].
  rewrite IH. destruct (wcollect wprov r); reflexivity.
Qed.

(** * The candidates carry the weights of table entries *)
Lemma wins_lookup_In t p s es : wins_lookup t p s = Some es -> exists en, In en t /\ snd en = es.
Proof.
  induction t as [|[[p' s'] es'] t IH]; cbn [wins_lookup]; [discriminate|].
  destruct (nlist_eqb p p' && nlist_eqb s s').
  - intros H. injection H as <-. eexists. split; [left; reflexivity|reflexivity].
  - intros H. destruct (IH H) as (en & Hin & He). exists en. split; [right; exact Hin|exact He].
Qed.

Lemma wrep_lookup_In t p s n es : wrep_lookup t p s n = Some es -> exists en, In en t /\ snd en = es.
Proof.
  induction t as [|[[[p' s'] n'] es'] t IH]; cbn [wrep_lookup]; [discriminate|].
  destruct (nlist_eqb p p' && nlist_eqb s s' && nlist_eqb n n').
  - intros H. injection H as <-. eexists. split; [left; reflexivity|reflexivity].
  - intros H. destruct (IH H) as (en & Hin & He). exists en. split; [right; exact Hin|exact He].
Qed.

Lemma wcollect_In prov idxs l c :
  wcollect prov idxs = Some l -> In c l -> In (fst c) idxs /\ prov (fst c) = WFound (Some (snd c)).
Proof.
  revert l. induction idxs as [|j r IH]; intros l H Hin; cbn [wcollect] in H.
  - injection H as <-. destruct Hin.
  - destruct (prov j) as [|[es|]] eqn:E; [discriminate| |].
    + destruct (wcollect prov r) as [l'|]; cbn [option_map] in H; [|discriminate].
      injection H as <-. destruct Hin as [<-|Hin].
      * split; [left; reflexivity|exact E].
      * destruct (IH l' eq_refl Hin) as [H1 H2]. split; [right; exact H1|exact H2].
    + destruct (IH l H Hin) as [H1 H2]. split; [right; exact H1|exact H2].
Qed.

Definition cands_ok (l : list (nat * list wedit)) : Prop :=
  forall c, In c l -> weights_ok (map snd (snd c)) = true.

Lemma ins_cands_ok wc w idxs l : wtabs_ok wc = true ->
  wcollect (wins_ctx (witab wc) w) idxs = Some l -> cands_ok l.
Proof.
  intros Hok H c Hc. destruct (wcollect_In _ _ _ _ H Hc) as [_ Hp]. unfold wins_ctx in Hp.
  injection Hp as Hp. apply wins_lookup_In in Hp as (en & Hin & <-).
  unfold wtabs_ok in Hok. apply Bool.andb_true_iff in Hok as [Hok _].
  exact (proj1 (forallb_forall _ _) Hok en Hin).
Qed.

Lemma rep_cands_ok wc w idxs l : wtabs_ok wc = true ->
  wcollect (wrep_ctx (wrtab wc) w) idxs = Some l -> cands_ok l.
Proof.
  intros Hok H c Hc. destruct (wcollect_In _ _ _ _ H Hc) as [_ Hp]. unfold wrep_ctx in Hp.
  destruct (nth_error w _); [|discriminate].
  injection Hp as Hp. apply wrep_lookup_In in Hp as (en & Hin & <-).
  unfold wtabs_ok in Hok. apply Bool.andb_true_iff in Hok as [_ Hok].
  exact (proj1 (forallb_forall _ _) Hok en Hin).
Qed.

(** * [random_range] as an index *)
Lemma pick_idx_spec n st j st' : wf st -> pick_idx n st = Some (j, st') -> j < n /\ wf st'.
Proof.
  intros Hw H. unfold pick_idx in H. destruct (random_range (N.of_nat n) st) as [[x st1]|] eqn:E; [|discriminate].
  injection H as <- <-. destruct (random_range_spec _ _ _ _ Hw E) as [Hx Hw1]. split; [lia|exact Hw1].
Qed.

Lemma pick_idx_some n st : 0 < n -> (N.of_nat n < p64)%N -> exists j st', pick_idx n st = Some (j, st').
Proof.
  intros Hn Hb. unfold pick_idx.
  destruct (random_range (N.of_nat n) st) as [[x st1]|] eqn:E; [eexists _, _; reflexivity|].
  exfalso. apply (proj2 (random_range_some (N.of_nat n) st)); [lia|exact E].
Qed.

(** * [sample_edit] returns a positive-weight string of the entry *)
Lemma sample_edit_spec es st s st' : wf st -> weights_ok (map snd es) = true ->
  sample_edit es st = inr (s, st') -> wf st' /\ In (s, true) (map erase_edit es).
Proof.
  intros Hw Hok H. unfold sample_edit in H.
  destruct (weighted_sample_f (map snd es) st) as [e|[[i T] st1]] eqn:E; [discriminate|]. injection H as <- <-.
  destruct (weighted_sample_f_spec _ _ _ _ _ Hw E) as [Hi Hw1]. rewrite map_length in Hi.
  pose proof (weighted_sample_f_pos _ _ _ _ _ Hw Hok E) as Hp.
  split; [exact Hw1|]. apply in_map_iff. exists (nth i es ([], f_zero)). split; [|apply nth_In; exact Hi].
  unfold erase_edit. f_equal.
  rewrite (nth_indep _ FNaN (snd (@pair (list cluster) f64w [] f_zero))) in Hp by (rewrite map_length; exact Hi).
  rewrite map_nth in Hp. exact Hp.
Qed.

Lemma sample_edit_total es st : weights_ok (map snd es) = true -> exists s st', sample_edit es st = inr (s, st').
Proof.
  intros Hok. unfold sample_edit, weighted_sample_f. unfold weights_ok in Hok.
  apply Bool.andb_true_iff in Hok as [_ Hok].
  destruct (windex_new_f (map snd es)) as [e|[[cum T] scale]]; [discriminate|].
  destruct (uniform_f64_sample scale st). eexists _, _. reflexivity.
Qed.

(** * One call picks an element of the choice set *)
Definition tbl_choices (mk : nat -> list cluster -> ed) (cands : list (nat * list edit)) : list ed :=
  match cands with
  | [] => [ESame]
  | _ => flat_map (fun c => map (mk (fst c)) (pos_edits (snd c))) cands
  end.

Definition idx_choices (mk : nat -> ed) (l : list nat) : list ed :=
  match l with [] => [ESame] | _ => map mk l end.

Lemma tbl_choices_ne mk cands : cands <> [] ->
  tbl_choices mk cands = flat_map (fun c => map (mk (fst c)) (pos_edits (snd c))) cands.
Proof. destruct cands; [congruence|reflexivity]. Qed.

Lemma idx_choices_ne mk l : l <> [] -> idx_choices mk l = map mk l.
Proof. destruct l; [congruence|reflexivity]. Qed.

Lemma seeded_table_in mk l st1 k st' : wf st1 -> cands_ok l ->
  seeded_table mk (Some l) st1 = SOk k st' -> wf st' /\ In k (tbl_choices mk (map erase_cand l)).
Proof.
  intros Hw Hok H. unfold seeded_table in H. destruct l as [|c0 l'] eqn:El.
  - injection H as <- <-. split; [exact Hw|left; reflexivity].
  - rewrite <- El in *.
    destruct (pick_idx (length l) st1) as [[j st2]|] eqn:Ep; [|discriminate].
    destruct (pick_idx_spec _ _ _ _ Hw Ep) as [Hj Hw2].
    assert (Hc : In (nth j l (0, [])) l) by (apply nth_In; exact Hj).
    destruct (sample_edit (snd (nth j l (0, []))) st2) as [e|[s st3]] eqn:Es; [discriminate|]. injection H as <- <-.
    destruct (sample_edit_spec _ _ _ _ Hw2 (Hok _ Hc) Es) as [Hw3 Hs]. split; [exact Hw3|].
    rewrite tbl_choices_ne by (rewrite El; discriminate).
    apply in_flat_map. exists (erase_cand (nth j l (0, []))). split; [apply in_map; exact Hc|].
    cbn [erase_cand fst snd]. apply in_map. apply pos_edits_In. exact Hs.
Qed.

Lemma seeded_index_in mk l st1 k st' : wf st1 ->
  seeded_index mk l st1 = SOk k st' -> wf st' /\ In k (idx_choices mk l).
Proof.
  intros Hw H. unfold seeded_index in H. destruct l as [|i0 l'] eqn:El.
  - injection H as <- <-. split; [exact Hw|left; reflexivity].
  - rewrite <- El in *.
    destruct (pick_idx (length l) st1) as [[j st2]|] eqn:Ep; [|discriminate]. injection H as <- <-.
    destruct (pick_idx_spec _ _ _ _ Hw Ep) as [Hj Hw2]. split; [exact Hw2|].
    rewrite idx_choices_ne by (rewrite El; discriminate). apply in_map. apply nth_In. exact Hj.
Qed.

Lemma ins_choices_erase wc w ex l :
  wcollect (wins_ctx (witab wc) w) (ins_idxs w ex) = Some l ->
  ins_choices (ins_ctx (itab (erase wc)) w) w ex = Some (tbl_choices EIns (map erase_cand l)).
Proof.
  intros H. unfold ins_choices. rewrite (collect_erase _ (wins_ctx (witab wc) w)) by (intros i; apply ins_ctx_erase).
  rewrite H. cbn [option_map]. destruct l; reflexivity.
Qed.

Lemma rep_choices_erase wc w ex l :
  wcollect (wrep_ctx (wrtab wc) w) (rep_idxs w ex) = Some l ->
  rep_choices (rep_ctx (rtab (erase wc)) w) w ex = Some (tbl_choices ERep (map erase_cand l)).
Proof.
  intros H. unfold rep_choices. rewrite (collect_erase _ (wrep_ctx (wrtab wc) w)) by (intros i; apply rep_ctx_erase).
  rewrite H. cbn [option_map]. destruct l; reflexivity.
Qed.

(** the repaired providers never fault: the candidate collection is defined *)
Lemma wcollect_ins_some wc w ex : exists l, wcollect (wins_ctx (witab wc) w) (ins_idxs w ex) = Some l.
Proof.
  destruct (collect_total (ins_ctx (itab (erase wc)) w) (ins_idxs w ex)) as [l Hl].
  { intros i _. apply ins_ctx_found. }
  rewrite (collect_erase _ (wins_ctx (witab wc) w)) in Hl by (intros i; apply ins_ctx_erase).
  destruct (wcollect _ _) as [l'|]; [eexists; reflexivity|discriminate].
Qed.

Lemma wcollect_rep_some wc w ex : exists l, wcollect (wrep_ctx (wrtab wc) w) (rep_idxs w ex) = Some l.
Proof.
  destruct (collect_total (rep_ctx (rtab (erase wc)) w) (rep_idxs w ex)) as [l Hl].
  { intros i Hi. apply rep_ctx_found. apply rep_idxs_In in Hi as [Hi _]. destruct w; [cbn in Hi; lia|discriminate]. }
  rewrite (collect_erase _ (wrep_ctx (wrtab wc) w)) in Hl by (intros i; apply rep_ctx_erase).
  destruct (wcollect _ _) as [l'|]; [eexists; reflexivity|discriminate].
Qed.

(** the drawn kind is an enabled one *)
Lemma kinds_nth wc r : r < length (kinds_of wc) ->
  match nth r (kinds_of wc) 4 with
  | 0 => wk_ins wc = true
  | 1 => wk_del wc = true
  | 2 => wk_rep wc = true
  | 3 => wk_swap wc = true
  | _ => False
  end.
Proof.
  unfold kinds_of. destruct (wk_ins wc), (wk_del wc), (wk_rep wc), (wk_swap wc); cbn [app length];
    intros Hr; repeat (destruct r as [|r]; [cbn [nth]; reflexivity|]); cbn [length] in Hr; lia.
Qed.

Lemma kinds_nil wc : kinds_of wc = [] ->
  wk_ins wc = false /\ wk_del wc = false /\ wk_rep wc = false /\ wk_swap wc = false.
Proof. unfold kinds_of. destruct (wk_ins wc), (wk_del wc), (wk_rep wc), (wk_swap wc); cbn; intros H; try discriminate; auto. Qed.

Lemma kinds_cons wc a ks : kinds_of wc = a :: ks ->
  negb (k_ins (erase wc) || k_del (erase wc) || k_rep (erase wc) || k_swap (erase wc)) = false.
Proof.
  cbn [erase k_ins k_del k_rep k_swap]. unfold kinds_of.
  destruct (wk_ins wc), (wk_del wc), (wk_rep wc), (wk_swap wc); cbn; intros H; try discriminate; reflexivity.
Qed.

Lemma kinds_length wc : length (kinds_of wc) <= 4.
Proof. unfold kinds_of. destruct (wk_ins wc), (wk_del wc), (wk_rep wc), (wk_swap wc); cbn; lia. Qed.

Lemma idx_choices_eta mk l : idx_choices mk l = match l with [] => [ESame] | n :: l0 => map mk (n :: l0) end.
Proof. destruct l; reflexivity. Qed.

Lemma del_choices_idx fd cd w ex : del_choices fd cd w ex = idx_choices EDel (del_idxs fd cd w ex).
Proof. unfold del_choices. rewrite idx_choices_eta. reflexivity. Qed.

(** the body of [edit_word_seeded] once a kind is enabled *)
Definition seeded_kind (c : wcfg) (cd cs : list bool) (w : word) (ex : list nat) (r : nat) (st1 : rng) : sres :=
  match nth r (kinds_of c) 4 with
  | 0 => seeded_table EIns (wcollect (wins_ctx (witab c) w) (ins_idxs w ex)) st1
  | 1 => seeded_index EDel (del_idxs (wfull_del c) cd w ex) st1
  | 2 => seeded_table ERep (wcollect (wrep_ctx (wrtab c) w) (rep_idxs w ex)) st1
  | 3 => if 1 <? length w then seeded_index ESwap (swap_idxs cs w ex) st1 else SOk ESame st1
  | _ => SOk ESame st1
  end.

Lemma edit_word_seeded_ne wc cd cs w ex st : kinds_of wc <> [] ->
  edit_word_seeded wc cd cs w ex st =
  match pick_idx (length (kinds_of wc)) st with
  | None => SEmptyRange
  | Some (r, st1) => seeded_kind wc cd cs w ex r st1
  end.
Proof. intros Hne. unfold edit_word_seeded, seeded_kind. destruct (kinds_of wc); [congruence|reflexivity]. Qed.

Lemma edit_word_seeded_nil wc cd cs w ex st : kinds_of wc = [] -> edit_word_seeded wc cd cs w ex st = SOk ESame st.
Proof. intros E. unfold edit_word_seeded. rewrite E. reflexivity. Qed.

Lemma seeded_in_choices_l wc cd cs w ex st k st' : wf st -> wtabs_ok wc = true ->
  edit_word_seeded wc cd cs w ex st = SOk k st' ->
  wf st' /\ exists l, choices (erase wc) cd cs w ex = Some l /\ In k l.
Proof.
  intros Hw Hok H. unfold choices, choices_gen.
  destruct (kinds_of wc) as [|a ks] eqn:Ek.
  - unfold edit_word_seeded in H. rewrite Ek in H. injection H as <- <-. destruct (kinds_nil wc Ek) as (E1 & E2 & E3 & E4).
    cbn [erase k_ins k_del k_rep k_swap]. rewrite E1, E2, E3, E4. cbn [orb negb].
    split; [exact Hw|]. eexists. split; [reflexivity|left; reflexivity].
  - rewrite (kinds_cons wc a ks Ek).
    rewrite edit_word_seeded_ne in H by (rewrite Ek; discriminate).
    destruct (pick_idx (length (kinds_of wc)) st) as [[r st1]|] eqn:Ep; [|discriminate].
    rename H into H'. unfold seeded_kind in H'.
    destruct (pick_idx_spec _ _ _ _ Hw Ep) as [Hr Hw1].
    pose proof (kinds_nth wc r Hr) as Hk.
    destruct (wcollect_ins_some wc w ex) as [li Hli]. destruct (wcollect_rep_some wc w ex) as [lr Hlr].
    cbn [erase k_ins k_del k_rep k_swap full_del].
    pose proof (ins_choices_erase wc w ex li Hli) as Ei. pose proof (rep_choices_erase wc w ex lr Hlr) as Er.
    cbn [erase itab rtab] in Ei, Er.
    assert (Hall : exists l1 l2 l3 l4,
      opt_app (if wk_ins wc then ins_choices (ins_ctx (map erase_ient (witab wc)) w) w ex else Some [])
        (opt_app (Some (if wk_del wc then del_choices (wfull_del wc) cd w ex else []))
          (opt_app (if wk_rep wc then rep_choices (rep_ctx (map erase_rent (wrtab wc)) w) w ex else Some [])
            (Some (if wk_swap wc then swap_choices cs w ex else [])))) = Some (l1 ++ l2 ++ l3 ++ l4)
      /\ (wk_ins wc = true -> l1 = tbl_choices EIns (map erase_cand li))
      /\ (wk_del wc = true -> l2 = del_choices (wfull_del wc) cd w ex)
      /\ (wk_rep wc = true -> l3 = tbl_choices ERep (map erase_cand lr))
      /\ (wk_swap wc = true -> l4 = swap_choices cs w ex)).
    { rewrite Ei, Er. destruct (wk_ins wc), (wk_del wc), (wk_rep wc), (wk_swap wc); cbn [opt_app];
        eexists _, _, _, _; (split; [reflexivity|]); repeat split; intros; try reflexivity; discriminate. }
    destruct Hall as (l1 & l2 & l3 & l4 & Hsome & A1 & A2 & A3 & A4).
    destruct (nth r (kinds_of wc) 4) as [|[|[|[|n]]]] eqn:En; try contradiction.
    + rewrite Hli in H'. destruct (seeded_table_in _ _ _ _ _ Hw1 (ins_cands_ok _ _ _ _ Hok Hli) H') as [Hw' Hin].
      split; [exact Hw'|]. eexists. split; [exact Hsome|]. rewrite (A1 Hk). apply in_or_app. left. exact Hin.
    + destruct (seeded_index_in _ _ _ _ _ Hw1 H') as [Hw' Hin].
      split; [exact Hw'|]. eexists. split; [exact Hsome|]. rewrite (A2 Hk).
      apply in_or_app. right. apply in_or_app. left. rewrite del_choices_idx. exact Hin.
    + rewrite Hlr in H'. destruct (seeded_table_in _ _ _ _ _ Hw1 (rep_cands_ok _ _ _ _ Hok Hlr) H') as [Hw' Hin].
      split; [exact Hw'|]. eexists. split; [exact Hsome|]. rewrite (A3 Hk).
      apply in_or_app. right. apply in_or_app. right. apply in_or_app. left. exact Hin.
    + assert (Hw' : wf st' /\ In k (swap_choices cs w ex)).
      { unfold swap_choices. destruct (1 <? length w).
        - fold (idx_choices ESwap (swap_idxs cs w ex)). rewrite <- idx_choices_eta.
          apply (seeded_index_in _ _ _ _ _ Hw1 H').
        - injection H' as <- <-. split; [exact Hw1|left; reflexivity]. }
      destruct Hw' as [Hw' Hin]. split; [exact Hw'|]. eexists. split; [exact Hsome|]. rewrite (A4 Hk).
      apply in_or_app. right. apply in_or_app. right. apply in_or_app. right. exact Hin.
Qed.

(** * Totality: on well-formed tables a call never faults *)
Lemma wcollect_length prov idxs l : wcollect prov idxs = Some l -> length l <= length idxs.
Proof.
  revert l. induction idxs as [|i r IH]; intros l H; cbn [wcollect] in H.
  - injection H as <-. cbn. lia.
  - destruct (prov i) as [|[es|]]; [discriminate| |].
    + destruct (wcollect prov r) as [l'|]; [|discriminate]. cbn [option_map] in H. injection H as <-.
      specialize (IH l' eq_refl). cbn [length]. lia.
    + specialize (IH l H). cbn [length]. lia.
Qed.

Lemma filter_length_le {A} (f : A -> bool) l : length (filter f l) <= length l.
Proof. induction l as [|a l IH]; cbn [filter length]; [lia|]. destruct (f a); cbn [length]; lia. Qed.

Lemma ins_idxs_length w ex : length (ins_idxs w ex) <= S (length w).
Proof. unfold ins_idxs. etransitivity; [apply filter_length_le|]. rewrite seq_length. lia. Qed.
Lemma rep_idxs_length w ex : length (rep_idxs w ex) <= length w.
Proof. unfold rep_idxs. etransitivity; [apply filter_length_le|]. rewrite seq_length. lia. Qed.
Lemma del_idxs_length fd cd w ex : length (del_idxs fd cd w ex) <= length w.
Proof. unfold del_idxs. etransitivity; [apply filter_length_le|]. rewrite seq_length. lia. Qed.
Lemma swap_idxs_length cs w ex : length (swap_idxs cs w ex) <= length w.
Proof. unfold swap_idxs. etransitivity; [apply filter_length_le|]. rewrite seq_length. lia. Qed.

Lemma seeded_table_total mk l st1 : wf st1 -> cands_ok l -> (N.of_nat (length l) < p64)%N ->
  exists k st', seeded_table mk (Some l) st1 = SOk k st'.
Proof.
  intros Hw Hok Hb. unfold seeded_table. destruct l as [|c0 l'] eqn:El; [eexists _, _; reflexivity|]. rewrite <- El in *.
  destruct (pick_idx_some (length l) st1) as (j & st2 & Ep); [rewrite El; cbn; lia|exact Hb|]. rewrite Ep.
  destruct (pick_idx_spec _ _ _ _ Hw Ep) as [Hj _].
  destruct (sample_edit_total (snd (nth j l (0, []))) st2) as (s & st3 & Es); [apply Hok, nth_In; exact Hj|].
  rewrite Es. eexists _, _. reflexivity.
Qed.

Lemma seeded_index_total mk l st1 : (N.of_nat (length l) < p64)%N -> exists k st', seeded_index mk l st1 = SOk k st'.
Proof.
  intros Hb. unfold seeded_index. destruct l as [|i0 l'] eqn:El; [eexists _, _; reflexivity|]. rewrite <- El in *.
  destruct (pick_idx_some (length l) st1) as (j & st2 & Ep); [rewrite El; cbn; lia|exact Hb|]. rewrite Ep.
  eexists _, _. reflexivity.
Qed.

Lemma seeded_total_l wc cd cs w ex st : wf st -> wtabs_ok wc = true -> (N.of_nat (S (length w)) < p64)%N ->
  exists k st', edit_word_seeded wc cd cs w ex st = SOk k st'.
Proof.
  intros Hw Hok Hb. destruct (kinds_of wc) as [|a ks] eqn:Ek.
  - rewrite edit_word_seeded_nil by exact Ek. eexists _, _. reflexivity.
  - rewrite edit_word_seeded_ne by (rewrite Ek; discriminate).
    pose proof (kinds_length wc) as Hl4.
    destruct (pick_idx_some (length (kinds_of wc)) st) as (r & st1 & Ep);
      [rewrite Ek; cbn; lia|unfold p64; lia|]. rewrite Ep.
    destruct (pick_idx_spec _ _ _ _ Hw Ep) as [_ Hw1]. unfold seeded_kind.
    destruct (wcollect_ins_some wc w ex) as [li Hli]. destruct (wcollect_rep_some wc w ex) as [lr Hlr].
    destruct (nth r (kinds_of wc) 4) as [|[|[|[|n]]]].
    + rewrite Hli. apply seeded_table_total; [exact Hw1|eapply ins_cands_ok; eassumption|].
      pose proof (wcollect_length _ _ _ Hli). pose proof (ins_idxs_length w ex). lia.
    + apply seeded_index_total. pose proof (del_idxs_length (wfull_del wc) cd w ex). lia.
    + rewrite Hlr. apply seeded_table_total; [exact Hw1|eapply rep_cands_ok; eassumption|].
      pose proof (wcollect_length _ _ _ Hlr). pose proof (rep_idxs_length w ex). lia.
    + destruct (1 <? length w); [|eexists _, _; reflexivity].
      apply seeded_index_total. pose proof (swap_idxs_length cs w ex). lia.
    + eexists _, _. reflexivity.
Qed.

(** * The generator moves by exactly the sampler calls of [edit_draws] *)
Lemma run_calls_cons c cs st : snd (run_calls (c :: cs) st) = snd (run_calls cs (snd (run_call c st))).
Proof. cbn [run_calls]. destruct (run_call c st) as [v st1]. cbn [snd]. destruct (run_calls cs st1). reflexivity. Qed.

Lemma run_range n st j st' : pick_idx n st = Some (j, st') -> snd (run_call (CRange (N.of_nat n)) st) = st'.
Proof.
  unfold pick_idx. cbn [run_call]. destruct (random_range (N.of_nat n) st) as [[x s]|]; [|discriminate].
  intros H. injection H as _ <-. reflexivity.
Qed.

Lemma run_weighted es st s st' : sample_edit es st = inr (s, st') -> snd (run_call (CWeightedF (map snd es)) st) = st'.
Proof.
  unfold sample_edit. cbn [run_call]. destruct (weighted_sample_f (map snd es) st) as [e|[[i T] s1]]; [discriminate|].
  intros H. injection H as _ <-. reflexivity.
Qed.

Lemma table_draws_run mk l st1 k st' : seeded_table mk (Some l) st1 = SOk k st' ->
  snd (run_calls (table_draws (Some l) st1) st1) = st'.
Proof.
  unfold seeded_table, table_draws. destruct l as [|c0 l'] eqn:El.
  - intros H. injection H as _ <-. reflexivity.
  - rewrite <- El. destruct (pick_idx (length l) st1) as [[j st2]|] eqn:Ep; [|discriminate].
    destruct (sample_edit (snd (nth j l (0, []))) st2) as [e|[s st3]] eqn:Es; [discriminate|].
    intros H. injection H as _ <-. rewrite run_calls_cons, (run_range _ _ _ _ Ep), run_calls_cons, (run_weighted _ _ _ _ Es).
    reflexivity.
Qed.

Lemma index_draws_run mk l st1 k st' : seeded_index mk l st1 = SOk k st' ->
  snd (run_calls (index_draws l) st1) = st'.
Proof.
  unfold seeded_index, index_draws. destruct l as [|i0 l'] eqn:El.
  - intros H. injection H as _ <-. reflexivity.
  - rewrite <- El. destruct (pick_idx (length l) st1) as [[j st2]|] eqn:Ep; [|discriminate].
    intros H. injection H as _ <-. rewrite run_calls_cons, (run_range _ _ _ _ Ep). reflexivity.
Qed.

Lemma seeded_draws_l wc cd cs w ex st k st' : edit_word_seeded wc cd cs w ex st = SOk k st' ->
  snd (run_calls (edit_draws wc cd cs w ex st) st) = st' /\ length (edit_draws wc cd cs w ex st) <= 3 /\
  (kinds_of wc = [] <-> edit_draws wc cd cs w ex st = []).
Proof.
  intros H. unfold edit_draws. destruct (kinds_of wc) as [|a ks] eqn:Ek.
  - rewrite edit_word_seeded_nil in H by exact Ek. injection H as _ <-.
    split; [reflexivity|]. split; [cbn; lia|]. split; reflexivity.
  - rewrite edit_word_seeded_ne in H by (rewrite Ek; discriminate). rewrite <- Ek.
    destruct (pick_idx (length (kinds_of wc)) st) as [[r st1]|] eqn:Ep; [|discriminate].
    unfold seeded_kind in H. rewrite run_calls_cons, (run_range _ _ _ _ Ep).
    assert (L2 : forall o s, length (table_draws o s) <= 2).
    { intros [[|c l]|] s; cbn [table_draws length]; try lia. destruct (pick_idx _ s) as [[j s2]|]; cbn [length]; lia. }
    assert (L1 : forall l, length (index_draws l) <= 1) by (intros [|i l]; cbn; lia).
    split; [|split; [|split; [rewrite Ek; discriminate|discriminate]]].
    + destruct (nth r (kinds_of wc) 4) as [|[|[|[|n]]]].
      * destruct (wcollect _ _) as [l|] eqn:El; [|discriminate]. eapply table_draws_run; exact H.
      * eapply index_draws_run; exact H.
      * destruct (wcollect _ _) as [l|] eqn:El; [|discriminate]. eapply table_draws_run; exact H.
      * destruct (1 <? length w); [eapply index_draws_run; exact H|]. injection H as _ <-. reflexivity.
      * injection H as _ <-. reflexivity.
    + cbn [length]. destruct (nth r (kinds_of wc) 4) as [|[|[|[|n]]]]; cbn [length].
      * specialize (L2 (wcollect (wins_ctx (witab wc) w) (ins_idxs w ex)) st1). lia.
      * specialize (L1 (del_idxs (wfull_del wc) cd w ex)). lia.
      * specialize (L2 (wcollect (wrep_ctx (wrtab wc) w) (rep_idxs w ex)) st1). lia.
      * destruct (1 <? length w); [specialize (L1 (swap_idxs cs w ex))|cbn [length]]; lia.
      * lia.
Qed.

(** ... and in 32-bit words: a range draw below 2^32 takes one word, or two when Canon's method
    draws again; a weighted sample takes two (one u64) *)
Lemma skip_add a b st : skip (a + b) st = skip b (skip a st).
Proof. revert st. induction a as [|a IH]; intros st; cbn [skip Nat.add]; [reflexivity|apply IH]. Qed.

Lemma canon32_words n st x st' : canon next_u32 32 n st = (x, st') -> st' = skip 1 st \/ st' = skip 2 st.
Proof.
  unfold canon. cbv zeta. destruct (next_u32 st) as [a st1] eqn:E1. cbn [skip]. rewrite E1. cbn [snd].
  destruct (N.ltb _ _).
  - destruct (next_u32 st1) as [b st2] eqn:E2. intros H. apply (f_equal snd) in H. cbn [snd] in H. subst st'.
    right. reflexivity.
  - intros H. apply (f_equal snd) in H. cbn [snd] in H. subst st'. left. reflexivity.
Qed.

Lemma pick_idx_words n st j st' : (N.of_nat n <= mask32)%N -> pick_idx n st = Some (j, st') ->
  st' = skip 1 st \/ st' = skip 2 st.
Proof.
  intros Hn H. unfold pick_idx in H. destruct (random_range (N.of_nat n) st) as [[x s]|] eqn:E; [|discriminate].
  injection H as _ <-. unfold random_range in E.
  destruct ((N.of_nat n =? 0)%N || (p64 <=? N.of_nat n)%N); [discriminate|].
  replace (N.ltb mask32 (N.of_nat n)) with false in E by (symmetry; apply N.ltb_ge; exact Hn).
  injection E as E. eapply canon32_words; exact E.
Qed.

Lemma sample_edit_words es st s st' : sample_edit es st = inr (s, st') -> st' = skip 2 st.
Proof.
  unfold sample_edit, weighted_sample_f. destruct (windex_new_f (map snd es)) as [e|[[cum T] scale]]; [discriminate|].
  unfold uniform_f64_sample. rewrite next_u64_as_u32s.
  destruct (next_u32 st) as [lo st1] eqn:E1. destruct (next_u32 st1) as [hi st2] eqn:E2.
  intros H. apply (f_equal (fun r => match r with inr (_, s) => s | inl _ => st end)) in H. cbn beta iota in H.
  subst st'. cbn [skip]. rewrite E1. cbn [snd]. rewrite E2. reflexivity.
Qed.

Lemma seeded_words_l wc cd cs w ex st k st' : (N.of_nat (S (length w)) <= mask32)%N ->
  edit_word_seeded wc cd cs w ex st = SOk k st' ->
  exists n, st' = skip n st /\ n <= 6 /\ (kinds_of wc = [] -> n = 0) /\ (kinds_of wc <> [] -> 1 <= n).
Proof.
  intros Hb H. destruct (kinds_of wc) as [|a ks] eqn:Ek.
  - rewrite edit_word_seeded_nil in H by exact Ek. injection H as _ <-. exists 0. repeat split; try lia. congruence.
  - rewrite edit_word_seeded_ne in H by (rewrite Ek; discriminate).
    destruct (pick_idx (length (kinds_of wc)) st) as [[r st1]|] eqn:Ep; [|discriminate].
    pose proof (kinds_length wc) as Hl4.
    assert (P1 : exists n1, st1 = skip n1 st /\ 1 <= n1 <= 2).
    { assert (Hk4 : (N.of_nat (length (kinds_of wc)) <= mask32)%N) by (unfold mask32; lia).
      destruct (pick_idx_words _ _ _ _ Hk4 Ep) as [->| ->]; eexists; (split; [reflexivity|lia]). }
    destruct P1 as (n1 & -> & Hn1).
    (* the rest of the call: at most four more words *)
    assert (T : forall mk l s k st', (N.of_nat (length l) <= mask32)%N -> seeded_table mk (Some l) s = SOk k st' ->
                exists n2, st' = skip n2 s /\ n2 <= 4).
    { intros mk l s k0 s' Hl Ht. unfold seeded_table in Ht. destruct l as [|c0 l'] eqn:El.
      - injection Ht as _ <-. exists 0. split; [reflexivity|lia].
      - rewrite <- El in *. destruct (pick_idx (length l) s) as [[j s2]|] eqn:Ep2; [|discriminate].
        destruct (sample_edit _ s2) as [e|[str s3]] eqn:Es; [discriminate|]. injection Ht as _ <-.
        rewrite (sample_edit_words _ _ _ _ Es).
        destruct (pick_idx_words _ _ _ _ Hl Ep2) as [->| ->]; rewrite <- skip_add; eexists; (split; [reflexivity|lia]). }
    assert (I : forall mk l s k st', (N.of_nat (length l) <= mask32)%N -> seeded_index mk l s = SOk k st' ->
                exists n2, st' = skip n2 s /\ n2 <= 4).
    { intros mk l s k0 s' Hl Ht. unfold seeded_index in Ht. destruct l as [|c0 l'] eqn:El.
      - injection Ht as _ <-. exists 0. split; [reflexivity|lia].
      - rewrite <- El in *. destruct (pick_idx (length l) s) as [[j s2]|] eqn:Ep2; [|discriminate].
        injection Ht as _ <-.
        destruct (pick_idx_words _ _ _ _ Hl Ep2) as [->| ->]; eexists; (split; [reflexivity|lia]). }
    assert (R : exists n2, st' = skip n2 (skip n1 st) /\ n2 <= 4).
    { unfold seeded_kind in H. destruct (nth r (kinds_of wc) 4) as [|[|[|[|n]]]].
      - destruct (wcollect _ _) as [l|] eqn:El; [|discriminate]. eapply T; [|exact H].
        pose proof (wcollect_length _ _ _ El). pose proof (ins_idxs_length w ex). lia.
      - eapply I; [|exact H]. pose proof (del_idxs_length (wfull_del wc) cd w ex). lia.
      - destruct (wcollect _ _) as [l|] eqn:El; [|discriminate]. eapply T; [|exact H].
        pose proof (wcollect_length _ _ _ El). pose proof (rep_idxs_length w ex). lia.
      - destruct (1 <? length w).
        + eapply I; [|exact H]. pose proof (swap_idxs_length cs w ex). lia.
        + injection H as _ <-. exists 0. split; [reflexivity|lia].
      - injection H as _ <-. exists 0. split; [reflexivity|lia]. }
    destruct R as (n2 & -> & Hn2). rewrite <- skip_add. exists (n1 + n2). repeat split; try lia. discriminate.
Qed.

(** * The exclusion set is used as a set: order and repetitions do not influence a draw *)
Lemma filter_ext_in_l {A} (f g : A -> bool) l : (forall a, f a = g a) -> filter f l = filter g l.
Proof. intros H. apply filter_ext. exact H. Qed.

Lemma seeded_set_ext_l wc cd cs w ex ex2 st : (forall x, In x ex <-> In x ex2) ->
  edit_word_seeded wc cd cs w ex st = edit_word_seeded wc cd cs w ex2 st.
Proof.
  intros Hs. assert (Hm : forall i, mem i ex = mem i ex2) by (intros i; apply mem_ext; apply Hs).
  unfold edit_word_seeded.
  replace (ins_idxs w ex2) with (ins_idxs w ex) by (unfold ins_idxs; apply filter_ext; intros i; rewrite !Hm; reflexivity).
  replace (del_idxs (wfull_del wc) cd w ex2) with (del_idxs (wfull_del wc) cd w ex)
    by (unfold del_idxs; apply filter_ext; intros i; rewrite !Hm; reflexivity).
  replace (rep_idxs w ex2) with (rep_idxs w ex) by (unfold rep_idxs; apply filter_ext; intros i; rewrite !Hm; reflexivity).
  replace (swap_idxs cs w ex2) with (swap_idxs cs w ex)
    by (unfold swap_idxs; apply filter_ext; intros i; rewrite !Hm; reflexivity).
  reflexivity.
Qed.

Lemma apply_excl_ext k ex ex2 : (forall x, In x ex <-> In x ex2) ->
  forall x, In x (apply_excl k ex) <-> In x (apply_excl k ex2).
Proof.
  intros Hs x. destruct k; cbn [apply_excl]; try apply Hs;
    rewrite !in_app_iff, !in_map_iff; split; (intros [(p & E & Hp)|H]; [left; exists p; split; [exact E|apply Hs; exact Hp]|right; exact H]).
Qed.

(** * Chains *)
Lemma outcomes_of_choices c cd cs w ex l k :
  choices c cd cs w ex = Some l -> In k l ->
  exists lo, outcomes c cd cs w ex = Some lo /\ In (apply_ed w ex k) lo.
Proof.
  intros H Hin. unfold outcomes. rewrite H. cbn [option_map]. eexists. split; [reflexivity|]. apply in_map. exact Hin.
Qed.

Lemma chain_seeded_chain wc pf n : forall w ex st w' ex' st', wf st -> wtabs_ok wc = true ->
  chain_seeded wc pf n w ex st = Some (w', ex', st') ->
  chain (erase wc) n (w, ex) (w', ex') /\ wf st'.
Proof.
  induction n as [|n IH]; intros w ex st w' ex' st' Hw Hok H; cbn [chain_seeded] in H.
  - injection H as <- <- <-. split; [apply chain_0|exact Hw].
  - destruct (edit_word_seeded wc (fst (pf w)) (snd (pf w)) w ex st) as [k st1| | |] eqn:E; try discriminate.
    destruct (seeded_in_choices_l _ _ _ _ _ _ _ _ Hw Hok E) as (Hw1 & l & Hl & Hin).
    destruct (outcomes_of_choices _ _ _ _ _ _ _ Hl Hin) as (lo & Hlo & Hino).
    destruct (IH _ _ _ _ _ _ Hw1 Hok H) as [Hc Hw']. split; [|exact Hw'].
    eapply chain_S; [exact Hlo|exact Hino|exact Hc].
Qed.

(** k edits = a edits, then b edits from the word, exclusion set and generator state they left *)
Lemma chain_seeded_split wc pf a b : forall w ex st,
  chain_seeded wc pf (a + b) w ex st =
  match chain_seeded wc pf a w ex st with
  | Some (w1, ex1, st1) => chain_seeded wc pf b w1 ex1 st1
  | None => None
  end.
Proof.
  induction a as [|a IH]; intros w ex st; cbn [chain_seeded Nat.add]; [reflexivity|].
  destruct (edit_word_seeded wc (fst (pf w)) (snd (pf w)) w ex st); try reflexivity. apply IH.
Qed.

Lemma chain_seeded_total wc pf n : forall w ex st, wf st -> wtabs_ok wc = true ->
  (forall m w1 ex1 st1, m <= n -> chain_seeded wc pf m w ex st = Some (w1, ex1, st1) -> (N.of_nat (S (length w1)) < p64)%N) ->
  exists r, chain_seeded wc pf n w ex st = Some r.
Proof.
  induction n as [|n IH]; intros w ex st Hw Hok Hb; cbn [chain_seeded]; [eexists; reflexivity|].
  destruct (seeded_total_l wc (fst (pf w)) (snd (pf w)) w ex st Hw Hok (Hb 0 w ex st ltac:(lia) eq_refl)) as (k & st1 & E).
  rewrite E. destruct (seeded_in_choices_l _ _ _ _ _ _ _ _ Hw Hok E) as (Hw1 & _).
  apply IH; [exact Hw1|exact Hok|]. intros m w1 ex1 s1 Hm Hc. apply (Hb (S m) w1 ex1 s1 ltac:(lia)).
  cbn [chain_seeded]. rewrite E. exact Hc.
Qed.

(** * corrupt_spelling *)
Lemma count_draws_spec n pc : forall st c st', wf st -> count_draws n pc st = (c, st') -> c <= n /\ wf st'.
Proof.
  induction n as [|n IH]; intros st c st' Hw H; cbn [count_draws] in H.
  - injection H as <- <-. split; [lia|exact Hw].
  - destruct (random_f64 st) as [k st1] eqn:E1. destruct (random_f64_spec _ _ _ Hw E1) as [_ Hw1].
    destruct (count_draws n pc st1) as [c1 st2] eqn:E2. destruct (IH _ _ _ Hw1 E2) as [Hc Hw2].
    injection H as <- <-. split; [destruct (fgt _ _); lia|exact Hw2].
Qed.

Lemma spell_word_chain wc pf pw pc w st o st' : wf st -> wtabs_ok wc = true ->
  spell_word wc pf pw pc w st = Some (o, st') ->
  wf st' /\
  (o = Some w \/
   exists n w' ex', 1 <= n <= Nat.max 1 (length w) /\ chain (erase wc) n (w, []) (w', ex') /\
                    o = match concat w' with [] => None | _ => Some w' end).
Proof.
  intros Hw Hok H. unfold spell_word in H. destruct (random_f64 st) as [k st1] eqn:E1.
  destruct (random_f64_spec _ _ _ Hw E1) as [_ Hw1].
  destruct (fgt (Fin k (-53)) pw).
  - injection H as <- <-. split; [exact Hw1|left; reflexivity].
  - destruct (count_draws (length w) pc st1) as [n st2] eqn:E2. destruct (count_draws_spec _ _ _ _ _ Hw1 E2) as [Hn Hw2].
    destruct (chain_seeded wc pf (Nat.max n 1) w [] st2) as [[[w' ex'] st3]|] eqn:E3; [|discriminate].
    injection H as <- <-. destruct (chain_seeded_chain _ _ _ _ _ _ _ _ _ Hw2 Hok E3) as [Hc Hw3].
    split; [exact Hw3|]. right. exists (Nat.max n 1), w', ex'. split; [lia|]. split; [exact Hc|reflexivity].
Qed.

(** the whole text: every word goes through [word_result], the generator threaded from word to word *)
Lemma spell_words_spec wc pf pw pc : forall ws st l st', wf st -> wtabs_ok wc = true ->
  spell_words wc pf pw pc ws st = Some (l, st') ->
  wf st' /\ exists os, Forall2 (word_result wc) ws os /\ l = keep_some os.
Proof.
  induction ws as [|w r IH]; intros st l st' Hw Hok H; cbn [spell_words] in H.
  - injection H as <- <-. split; [exact Hw|]. exists []. split; [constructor|reflexivity].
  - destruct (spell_word wc pf pw pc w st) as [[o st1]|] eqn:E1; [|discriminate].
    destruct (spell_word_chain _ _ _ _ _ _ _ _ Hw Hok E1) as [Hw1 Ho].
    destruct (spell_words wc pf pw pc r st1) as [[l2 st2]|] eqn:E2; [|discriminate]. injection H as <- <-.
    destruct (IH _ _ _ Hw1 Hok E2) as (Hw2 & os & Hf & ->). split; [exact Hw2|].
    exists (o :: os). split; [constructor; [exact Ho|exact Hf]|]. destruct o; reflexivity.
Qed.

Lemma spell_seeded_spec wc pf pw pc seed ws l : wtabs_ok wc = true ->
  spell_seeded wc pf pw pc seed ws = Some l ->
  exists os, Forall2 (word_result wc) ws os /\ l = keep_some os.
Proof.
  intros Hok H. unfold spell_seeded in H.
  destruct (spell_words wc pf pw pc ws (seed_from_u64 seed)) as [[l' st']|] eqn:E; [|discriminate].
  injection H as <-. destruct (spell_words_spec _ _ _ _ _ _ _ _ (wf_seed seed) Hok E) as (_ & os & H1 & H2).
  exists os. split; assumption.
Qed.

(** * The statements as pinned *)
Lemma seeded_in_outcomes_l wc cd cs w ex st k st' : wf st -> wtabs_ok wc = true ->
  edit_word_seeded wc cd cs w ex st = SOk k st' ->
  wf st' /\ valid_ed (erase wc) w ex k /\
  exists l, outcomes (erase wc) cd cs w ex = Some l /\ In (apply_word k w, apply_excl k ex) l.
Proof.
  intros Hw Hok H. destruct (seeded_in_choices_l _ _ _ _ _ _ _ _ Hw Hok H) as (Hw' & l & Hl & Hin).
  split; [exact Hw'|]. split; [eapply choices_valid; eassumption|].
  destruct (outcomes_of_choices _ _ _ _ _ _ _ Hl Hin) as (lo & Hlo & Hino). exists lo. split; [exact Hlo|exact Hino].
Qed.

Lemma chain_seeded_props_l wc pf n w ex st w' ex' st' : wf st -> wtabs_ok wc = true ->
  chain_seeded wc pf n w ex st = Some (w', ex', st') ->
  wf st' /\ chain (erase wc) n (w, ex) (w', ex') /\
  (in_range w ex -> in_range w' ex') /\ subseq (unprot w' ex') (unprot w ex).
Proof.
  intros Hw Hok H. destruct (chain_seeded_chain _ _ _ _ _ _ _ _ _ Hw Hok H) as [Hc Hw'].
  split; [exact Hw'|]. split; [exact Hc|]. split.
  - apply (chain_inv_l _ _ _ _ Hc).
  - apply (chain_fresh_l _ _ _ _ Hc).
Qed.

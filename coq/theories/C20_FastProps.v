(** C20 with the fast edit distance — pinned statements: what C20_Extract.v extracts ([run_C20f_f], [check_C20f_f],
    [agree_C20f_f]: the float-level functions of C20_Float.v with the distances computed by the binary-number dynamic
    programme of C12_Fast.v) is, for every input, what C20_Props.v / C20_FloatProps.v speak about.  The statements
    mention Flocq's operations (which carry proofs over the real numbers), hence the four standard-library axioms of
    C20_FloatProps.v; [check_closest_fast_eq] and [check_C20f_fast_eq] (no float operation in the statement) are closed under
    the global context. *)
From TU Require Import Base C12_Model C12_Float C12_Fast C20_Model C20_Words C20_Bytes C20_Float C20_Fast.

Theorem dists_fl_fast_eq : forall norm q d, dists_fl_f norm q d = dists_fl norm q d.
Proof. exact dists_fl_f_eq. Qed.
Print Assumptions dists_fl_fast_eq.

(** the closest entry computed from the fast distances (computed once per query) is [closest_fl] *)
Theorem closest_fast_eq : forall norm q d, closest_of (dists_fl_f norm q d) d = closest_fl norm q d.
Proof. intros. rewrite dists_fl_f_eq. apply closest_of_eq. Qed.
Print Assumptions closest_fast_eq.

Theorem check_closest_fast_eq : forall d q a, check_closest_m_f d q a = check_closest_m d q a.
Proof. exact check_closest_m_f_eq. Qed.
Print Assumptions check_closest_fast_eq.

Theorem run_C20f_fast_eq : forall v, run_C20f_f v = run_C20f v.
Proof. exact run_C20f_f_eq. Qed.
Print Assumptions run_C20f_fast_eq.

Theorem check_C20f_fast_eq : forall v out, check_C20f_f v out = check_C20f v out.
Proof. exact check_C20f_f_eq. Qed.
Print Assumptions check_C20f_fast_eq.

Theorem agree_C20f_fast_eq : forall v m i, agree_C20f_f v m i = agree_C20f v m i.
Proof. exact agree_C20f_f_eq. Qed.
Print Assumptions agree_C20f_fast_eq.

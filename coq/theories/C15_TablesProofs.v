(** C15: proofs about the dictionary-to-table step (C15_Tables).
    1. The table order is a function of the dictionary CONTENT: for two listings of the same items
       (distinct keys, scalar strings) [build_tables] returns the same tables ([tables_content_l]) — the
       repaired sort key [(Reverse(freq), s)] is a total order that is antisymmetric on items with
       distinct keys, so the sorted sequence is unique.  For the pinned key [Reverse(freq)] this is false
       ([tables_pinned_refuted_l]: D13).
    2. What the tables contain: [itab_lookup_spec] (the entry of a context is exactly the kept 3-grams
       with that context, in sorted order, each with its own weight), [rtab_In] (every replacement
       entry is an insertion entry with one position removed), no empty edit list. *)
From TU Require Import RNG_Model.
From TU Require Import Base C01_Model C01_Proofs UCD_Model UAX29_Model C15_Model C15_Proofs C15_Seeded C15_Tables.
From Coq Require Import Lia Permutation Sorting.Sorted.
Close Scope N_scope.
Open Scope nat_scope.

(** * the byte order *)
Lemma lex_leb_refl a : lex_leb a a = true.
Proof. induction a as [|x a IH]; [reflexivity|]. cbn [lex_leb]. rewrite N.eqb_refl, IH, Bool.orb_true_r. reflexivity. Qed.

Lemma lex_leb_total a : forall b, lex_leb a b = false -> lex_leb b a = true.
Proof.
  induction a as [|x a IH]; intros [|y b] H; cbn [lex_leb] in *; try discriminate; try reflexivity.
  apply Bool.orb_false_iff in H as [H1 H2]. apply N.ltb_ge in H1.
  destruct (N.eqb x y) eqn:E.
  - apply N.eqb_eq in E. subst y. cbn [andb] in H2. rewrite N.eqb_refl, (IH _ H2), Bool.orb_true_r. reflexivity.
  - apply N.eqb_neq in E. assert (L : (y <? x)%N = true) by (apply N.ltb_lt; lia). rewrite L. reflexivity.
Qed.

Lemma lex_leb_antisym a : forall b, lex_leb a b = true -> lex_leb b a = true -> a = b.
Proof.
  induction a as [|x a IH]; intros [|y b] H1 H2; cbn [lex_leb] in *; try discriminate; try reflexivity.
  apply Bool.orb_true_iff in H1. apply Bool.orb_true_iff in H2.
  destruct H1 as [H1|H1]; destruct H2 as [H2|H2];
    try apply N.ltb_lt in H1; try apply N.ltb_lt in H2;
    try (apply Bool.andb_true_iff in H1 as [E1 L1]; apply N.eqb_eq in E1);
    try (apply Bool.andb_true_iff in H2 as [E2 L2]; apply N.eqb_eq in E2); try lia.
  subst y. f_equal. apply IH; assumption.
Qed.

Lemma lex_leb_trans a : forall b c, lex_leb a b = true -> lex_leb b c = true -> lex_leb a c = true.
Proof.
  induction a as [|x a IH]; intros [|y b] [|z c] H1 H2; cbn [lex_leb] in *; try discriminate; try reflexivity.
  apply Bool.orb_true_iff in H1. apply Bool.orb_true_iff in H2. apply Bool.orb_true_iff.
  destruct H1 as [H1|H1]; destruct H2 as [H2|H2];
    try apply N.ltb_lt in H1; try apply N.ltb_lt in H2;
    try (apply Bool.andb_true_iff in H1 as [E1 L1]; apply N.eqb_eq in E1);
    try (apply Bool.andb_true_iff in H2 as [E2 L2]; apply N.eqb_eq in E2).
  - left. apply N.ltb_lt. lia.
  - left. apply N.ltb_lt. lia.
  - left. apply N.ltb_lt. lia.
  - right. subst. rewrite N.eqb_refl. cbn [andb]. eapply IH; eassumption.
Qed.

(** * the sort key of the repaired code: a total preorder *)
Lemma item_leb_total x y : item_leb x y = false -> item_leb y x = true.
Proof.
  unfold item_leb. intros H. apply Bool.orb_false_iff in H as [H1 H2]. apply N.ltb_ge in H1.
  destruct (N.eqb (it_freq x) (it_freq y)) eqn:E.
  - apply N.eqb_eq in E. cbn [andb] in H2. rewrite <- E, N.eqb_refl, (lex_leb_total _ _ H2). apply Bool.orb_true_r.
  - apply N.eqb_neq in E. assert (L : (it_freq x <? it_freq y)%N = true) by (apply N.ltb_lt; lia). rewrite L. reflexivity.
Qed.

Lemma item_leb_trans x y z : item_leb x y = true -> item_leb y z = true -> item_leb x z = true.
Proof.
  unfold item_leb. intros H1 H2. apply Bool.orb_true_iff in H1. apply Bool.orb_true_iff in H2. apply Bool.orb_true_iff.
  destruct H1 as [H1|H1]; destruct H2 as [H2|H2];
    try apply N.ltb_lt in H1; try apply N.ltb_lt in H2;
    try (apply Bool.andb_true_iff in H1 as [E1 L1]; apply N.eqb_eq in E1);
    try (apply Bool.andb_true_iff in H2 as [E2 L2]; apply N.eqb_eq in E2).
  - left. apply N.ltb_lt. lia.
  - left. apply N.ltb_lt. lia.
  - left. apply N.ltb_lt. lia.
  - right. rewrite E1, E2, N.eqb_refl. cbn [andb]. eapply lex_leb_trans; eassumption.
Qed.

(** UTF-8 encoding is injective on scalar strings (C01: the decoder inverts it) *)
Lemma utf8s_inj a b : scalars a = true -> scalars b = true -> utf8s a = utf8s b -> a = b.
Proof.
  intros Ha Hb E. pose proof (utf8_decode_utf8s a Ha) as Da. pose proof (utf8_decode_utf8s b Hb) as Db.
  rewrite E in Da. rewrite Da in Db. injection Db as ->. reflexivity.
Qed.

Lemma item_leb_antisym x y : scalars (it_key x) = true -> scalars (it_key y) = true ->
  item_leb x y = true -> item_leb y x = true -> it_key x = it_key y.
Proof.
  unfold item_leb. intros Sx Sy H1 H2. apply Bool.orb_true_iff in H1. apply Bool.orb_true_iff in H2.
  destruct H1 as [H1|H1]; destruct H2 as [H2|H2];
    try apply N.ltb_lt in H1; try apply N.ltb_lt in H2;
    try (apply Bool.andb_true_iff in H1 as [E1 L1]; apply N.eqb_eq in E1);
    try (apply Bool.andb_true_iff in H2 as [E2 L2]; apply N.eqb_eq in E2); try lia.
  apply utf8s_inj; try assumption. apply lex_leb_antisym; assumption.
Qed.

(** * insertion sort: a sorted permutation, and sorted permutations are unique *)
Section Sort.
  Context {A : Type} (le : A -> A -> bool).
  Definition R (a b : A) : Prop := le a b = true.

  Lemma insert_perm x l : Permutation (x :: l) (insert_by le x l).
  Proof.
    induction l as [|y r IH]; [apply Permutation_refl|]. cbn [insert_by]. destruct (le x y).
    - apply Permutation_refl.
    - eapply perm_trans; [apply perm_swap|]. apply perm_skip. exact IH.
  Qed.

  Lemma sort_perm l : Permutation l (sort_by le l).
  Proof.
    induction l as [|x r IH]; [apply Permutation_refl|]. cbn [sort_by].
    eapply perm_trans; [apply perm_skip; exact IH|]. apply insert_perm.
  Qed.

  Hypothesis le_total : forall a b, le a b = false -> le b a = true.
  Hypothesis le_trans : forall a b c, le a b = true -> le b c = true -> le a c = true.

  Lemma insert_sorted x l : StronglySorted R l -> StronglySorted R (insert_by le x l).
  Proof.
    induction 1 as [|y r Hs IH Hall]; cbn [insert_by].
    - constructor; constructor.
    - destruct (le x y) eqn:E.
      + constructor; [constructor; assumption|]. constructor; [exact E|].
        eapply Forall_impl; [|exact Hall]. intros z Hz. eapply le_trans; eassumption.
      + constructor; [exact IH|]. apply le_total in E.
        eapply Permutation_Forall; [apply insert_perm|]. constructor; assumption.
  Qed.

  Lemma sort_sorted l : StronglySorted R (sort_by le l).
  Proof. induction l as [|x r IH]; [constructor|]. cbn [sort_by]. apply insert_sorted. exact IH. Qed.

  Lemma sorted_unique l : forall l', StronglySorted R l -> StronglySorted R l' -> Permutation l l' ->
    (forall a b, In a l -> In b l -> le a b = true -> le b a = true -> a = b) -> l = l'.
  Proof.
    induction l as [|a t IH]; intros l' Hs Hs' Hp Hanti.
    - apply Permutation_nil in Hp. subst. reflexivity.
    - destruct l' as [|a' t']; [apply Permutation_sym, Permutation_nil in Hp; discriminate|].
      inversion Hs as [|? ? Hst Hall]; subst. inversion Hs' as [|? ? Hst' Hall']; subst.
      assert (Ea : a = a').
      { assert (I1 : In a (a' :: t')) by (eapply Permutation_in; [exact Hp|left; reflexivity]).
        assert (I2 : In a' (a :: t)) by (eapply Permutation_in; [apply Permutation_sym; exact Hp|left; reflexivity]).
        destruct I1 as [E|I1]; [symmetry; exact E|]. destruct I2 as [E|I2]; [exact E|].
        apply Hanti; [left; reflexivity|right; exact I2| |].
        - exact (proj1 (Forall_forall _ _) Hall _ I2).
        - exact (proj1 (Forall_forall _ _) Hall' _ I1). }
      subst a'. f_equal. apply IH; try assumption.
      + eapply Permutation_cons_inv. exact Hp.
      + intros x y Hx Hy. apply Hanti; right; assumption.
  Qed.
End Sort.

(** two items of a listing with distinct keys that have the same key are the same item *)
Lemma key_inj (items : list item) x y : NoDup (map it_key items) -> In x items -> In y items ->
  it_key x = it_key y -> x = y.
Proof.
  induction items as [|z r IH]; intros Hnd Hx Hy E; [destruct Hx|].
  cbn [map] in Hnd. inversion Hnd as [|? ? Hni Hnd']; subst.
  destruct Hx as [->|Hx]; destruct Hy as [->|Hy].
  - reflexivity.
  - exfalso. apply Hni. rewrite E. apply in_map. exact Hy.
  - exfalso. apply Hni. rewrite <- E. apply in_map. exact Hx.
  - apply IH; assumption.
Qed.

Lemma freq_sum_perm a b : Permutation a b -> freq_sum a = freq_sum b.
Proof.
  induction 1 as [|x l l' _ IH|x y l|l l' l'' _ IH1 _ IH2]; cbn [freq_sum fold_right] in *.
  - reflexivity.
  - unfold freq_sum in IH. rewrite IH. reflexivity.
  - lia.
  - congruence.
Qed.

(** ** the sorted sequence is a function of the content *)
Definition items_wf (items : list item) : Prop :=
  NoDup (map it_key items) /\ Forall (fun x => scalars (it_key x) = true) items.

Lemma sort_content items items' : items_wf items -> Permutation items items' ->
  sort_by item_leb items = sort_by item_leb items'.
Proof.
  intros [Hnd Hsc] Hp.
  apply (sorted_unique item_leb).
  - apply sort_sorted; [exact item_leb_total|exact item_leb_trans].
  - apply sort_sorted; [exact item_leb_total|exact item_leb_trans].
  - eapply perm_trans; [apply Permutation_sym, sort_perm|]. eapply perm_trans; [exact Hp|apply sort_perm].
  - intros a b Ha Hb L1 L2.
    assert (Ia : In a items) by (eapply Permutation_in; [apply Permutation_sym, sort_perm|exact Ha]).
    assert (Ib : In b items) by (eapply Permutation_in; [apply Permutation_sym, sort_perm|exact Hb]).
    apply (key_inj items); try assumption.
    apply item_leb_antisym; try assumption.
    + exact (proj1 (Forall_forall _ _) Hsc _ Ia).
    + exact (proj1 (Forall_forall _ _) Hsc _ Ib).
Qed.

Lemma tables_content_l items items' : items_wf items -> Permutation items items' ->
  build_tables items = build_tables items'.
Proof.
  intros Hwf Hp. unfold build_tables, build_tables_by, kept_sorted.
  rewrite (sort_content _ _ Hwf Hp), (freq_sum_perm _ _ Hp). reflexivity.
Qed.

(** ** D13: with the pinned key the tables depend on the listing.  The dictionary
    {c c <eow>: 4, c b <eow>: 4}: the entry of the context (c, <eow>) is [c; b] for one listing and
    [b; c] for the other, so a sampled index names a different edit. *)
Definition d13_a : item := ([99; 32; 99; 32; 60; 101; 111; 119; 62]%N, 4%N, Fin 4503599627370496 (-51)).
Definition d13_b : item := ([99; 32; 98; 32; 60; 101; 111; 119; 62]%N, 4%N, Fin 4503599627370496 (-51)).

Lemma tables_pinned_refuted_l :
  exists items items', items_wf items /\ Permutation items items' /\
    build_tables_pinned items <> build_tables_pinned items' /\
    build_tables items = build_tables items'.
Proof.
  exists [d13_a; d13_b], [d13_b; d13_a]. split; [|split; [|split]].
  - split.
    + repeat constructor; cbn; intuition discriminate.
    + repeat constructor.
  - apply perm_swap.
  - vm_compute. discriminate.
  - vm_compute. reflexivity.
Qed.

(** * what the insertion table contains *)
Definition g_edit (g : gram) : sedit := match g with (_, c, _, w) => (c, w) end.
Definition g_ctx (p n : str) (g : gram) : bool :=
  match g with (p', _, n', _) => nlist_eqb p p' && nlist_eqb n n' end.

Lemma nlist_eqb_sym a b : nlist_eqb a b = nlist_eqb b a.
Proof.
  destruct (nlist_eqb a b) eqn:E1, (nlist_eqb b a) eqn:E2; try reflexivity.
  - apply nlist_eqb_eq in E1. subst. rewrite nlist_eqb_refl in E2. discriminate.
  - apply nlist_eqb_eq in E2. subst. rewrite nlist_eqb_refl in E1. discriminate.
Qed.

Lemma key_eqb_trans p n p1 n1 p2 n2 :
  nlist_eqb p1 p2 && nlist_eqb n1 n2 = true ->
  nlist_eqb p p1 && nlist_eqb n n1 = nlist_eqb p p2 && nlist_eqb n n2.
Proof.
  intros H. apply Bool.andb_true_iff in H as [H1 H2]. apply nlist_eqb_eq in H1, H2. subst. reflexivity.
Qed.

Definition or_nil (o : option (list sedit)) : list sedit := match o with Some es => es | None => [] end.

Lemma push_lookup t g p n :
  sins_lookup (push_ins t g) p n =
  if g_ctx p n g then Some (or_nil (sins_lookup t p n) ++ [g_edit g]) else sins_lookup t p n.
Proof.
  destruct g as [[[gp gc] gn] gw]. cbn [g_ctx g_edit].
  induction t as [|[[p' n'] es] t IH]; cbn [push_ins sins_lookup].
  - destruct (nlist_eqb p gp && nlist_eqb n gn); reflexivity.
  - destruct (nlist_eqb gp p' && nlist_eqb gn n') eqn:E; cbn [sins_lookup].
    + rewrite <- (key_eqb_trans p n _ _ _ _ E).
      destruct (nlist_eqb p gp && nlist_eqb n gn); reflexivity.
    + destruct (nlist_eqb p p' && nlist_eqb n n') eqn:E2.
      * destruct (nlist_eqb p gp && nlist_eqb n gn) eqn:E3; [|reflexivity]. exfalso.
        apply Bool.andb_true_iff in E2 as [A1 A2]. apply Bool.andb_true_iff in E3 as [B1 B2].
        apply nlist_eqb_eq in A1, A2, B1, B2. subst. rewrite !nlist_eqb_refl in E. discriminate.
      * exact IH.
Qed.

Lemma fold_lookup p n : forall gs t,
  sins_lookup (fold_left push_ins gs t) p n =
  match filter (g_ctx p n) gs with
  | [] => sins_lookup t p n
  | l => Some (or_nil (sins_lookup t p n) ++ map g_edit l)
  end.
Proof.
  induction gs as [|g gs IH]; intros t; cbn [fold_left filter]; [reflexivity|].
  rewrite IH, push_lookup. destruct (g_ctx p n g) eqn:E.
  - cbn [or_nil]. destruct (filter (g_ctx p n) gs) as [|g' l]; cbn [map].
    + reflexivity.
    + rewrite <- app_assoc. reflexivity.
  - reflexivity.
Qed.

(** the entry of a context = the 3-grams with that context, in order, each with its own weight *)
Lemma itab_lookup_spec gs p n :
  sins_lookup (build_itab gs) p n =
  match filter (g_ctx p n) gs with [] => None | l => Some (map g_edit l) end.
Proof. unfold build_itab. rewrite fold_lookup. cbn [sins_lookup or_nil app]. reflexivity. Qed.

(** the keys of the table are distinct, so its entries are its lookups *)
Lemma push_keys_In t g k : In k (map fst (push_ins t g)) ->
  In k (map fst t) \/ k = (fst (fst (fst g)), snd (fst g)).
Proof.
  destruct g as [[[gp gc] gn] gw]. cbn [fst snd].
  induction t as [|[[p' n'] es] t IH]; cbn [push_ins map]; intros H.
  - destruct H as [<-|[]]. right. reflexivity.
  - destruct (nlist_eqb gp p' && nlist_eqb gn n') eqn:E; cbn [map fst] in H.
    + left. exact H.
    + destruct H as [<-|H]; [left; left; reflexivity|].
      destruct (IH H) as [H'|H']; [left; right; exact H'|right; exact H'].
Qed.

Lemma push_keys_NoDup t g : NoDup (map fst t) -> NoDup (map fst (push_ins t g)).
Proof.
  destruct g as [[[gp gc] gn] gw].
  induction t as [|[[p' n'] es] t IH]; cbn [push_ins map fst]; intros Hnd.
  - constructor; [intros []|constructor].
  - destruct (nlist_eqb gp p' && nlist_eqb gn n') eqn:E; cbn [map fst].
    + exact Hnd.
    + inversion Hnd as [|? ? Hni Hnd']; subst. constructor; [|apply IH; exact Hnd'].
      intros Hin. apply push_keys_In in Hin as [Hin|Hin]; [contradiction|]. cbn [fst snd] in Hin.
      injection Hin as -> ->. rewrite !nlist_eqb_refl in E. discriminate.
Qed.

Lemma itab_keys_NoDup gs : NoDup (map fst (build_itab gs)).
Proof.
  unfold build_itab. assert (H : NoDup (map fst (@nil sins))) by constructor.
  revert H. generalize (@nil sins). induction gs as [|g gs IH]; intros t Ht; cbn [fold_left]; [exact Ht|].
  apply IH. apply push_keys_NoDup. exact Ht.
Qed.

Lemma lookup_of_In t : NoDup (map fst t) -> forall p n es, In (p, n, es) t -> sins_lookup t p n = Some es.
Proof.
  induction t as [|[[p' n'] es'] t IH]; intros Hnd p n es Hin; [destruct Hin|].
  cbn [map fst] in Hnd. inversion Hnd as [|? ? Hni Hnd']; subst. cbn [sins_lookup].
  destruct Hin as [E|Hin].
  - injection E as -> -> ->. rewrite !nlist_eqb_refl. reflexivity.
  - destruct (nlist_eqb p p' && nlist_eqb n n') eqn:E.
    + exfalso. apply Bool.andb_true_iff in E as [A1 A2]. apply nlist_eqb_eq in A1, A2. subst.
      apply Hni. change (p', n') with (fst (p', n', es)). apply in_map. exact Hin.
    + apply IH; assumption.
Qed.

Lemma In_of_lookup t p n es : sins_lookup t p n = Some es -> In (p, n, es) t.
Proof.
  induction t as [|[[p' n'] es'] t IH]; cbn [sins_lookup]; intros H; [discriminate|].
  destruct (nlist_eqb p p' && nlist_eqb n n') eqn:E.
  - injection H as ->. apply Bool.andb_true_iff in E as [A1 A2]. apply nlist_eqb_eq in A1, A2. subst. left. reflexivity.
  - right. apply IH. exact H.
Qed.

(** every entry of the insertion table: the 3-grams of its context, in order; never empty *)
Lemma itab_entry_spec gs p n es : In (p, n, es) (build_itab gs) ->
  es = map g_edit (filter (g_ctx p n) gs) /\ es <> [].
Proof.
  intros Hin. pose proof (lookup_of_In _ (itab_keys_NoDup gs) _ _ _ Hin) as L.
  rewrite itab_lookup_spec in L. destruct (filter (g_ctx p n) gs) as [|g l]; [discriminate|].
  injection L as <-. split; [reflexivity|discriminate].
Qed.

(** * the replacement table: every entry is an insertion entry with one position removed *)
Lemma rep_of_In en x : In x (rep_of en) <->
  exists i cur w, nth_error (snd en) i = Some (cur, w) /\ remove_nth i (snd en) <> [] /\
                  x = (fst (fst en), cur, snd (fst en), remove_nth i (snd en)).
Proof.
  destruct en as [[p n] es]. cbn [rep_of fst snd]. rewrite in_flat_map. split.
  - intros (i & Hi & Hx). destruct (nth_error es i) as [[cur w]|] eqn:E; [|destruct Hx].
    destruct (remove_nth i es) as [|o r] eqn:Er; [destruct Hx|]. destruct Hx as [<-|[]].
    exists i, cur, w. rewrite Er. split; [exact E|split; [discriminate|reflexivity]].
  - intros (i & cur & w & Hn & Hne & ->). exists i. split.
    + apply in_seq. split; [lia|]. cbn. apply nth_error_Some. congruence.
    + rewrite Hn. destruct (remove_nth i es) as [|o r]; [congruence|]. left. reflexivity.
Qed.

Lemma rtab_In it p cur n es : In (p, cur, n, es) (build_rtab it) <->
  exists es0 i w, In (p, n, es0) it /\ nth_error es0 i = Some (cur, w) /\ es = remove_nth i es0 /\ es <> [].
Proof.
  unfold build_rtab. rewrite <- in_rev, in_flat_map. split.
  - intros ([[p' n'] es0] & Hen & Hx). apply rep_of_In in Hx as (i & c & w & Hn & Hne & E). cbn [fst snd] in *.
    injection E as -> -> -> ->. exists es0, i, w. repeat split; assumption.
  - intros (es0 & i & w & Hen & Hn & -> & Hne). exists (p, n, es0). split; [exact Hen|].
    apply rep_of_In. exists i, cur, w. cbn [fst snd]. repeat split; assumption.
Qed.

Lemma remove_nth_incl {A} (l : list A) : forall i x, In x (remove_nth i l) -> In x l.
Proof.
  induction l as [|a l IH]; intros [|i] x H; cbn [remove_nth] in H; try (destruct H; fail).
  - right. exact H.
  - destruct H as [<-|H]; [left; reflexivity|right; eapply IH; exact H].
Qed.

Lemma remove_nth_length {A} (l : list A) : forall i, length (remove_nth i l) <= length l.
Proof. induction l as [|a l IH]; intros [|i]; cbn [remove_nth length]; try lia. specialize (IH i). lia. Qed.

(** * the 3-grams are the kept items *)
Lemma grams_of_spec l : forall gs, grams_of l = Some gs ->
  Forall2 (fun x g => exists p c n, split3 (it_key x) = Some (p, c, n) /\ g = (p, c, n, it_w x)) l gs.
Proof.
  induction l as [|x r IH]; intros gs H; cbn [grams_of] in H.
  - injection H as <-. constructor.
  - destruct (split3 (it_key x)) as [[[p c] n]|] eqn:E; [|discriminate].
    destruct (grams_of r) as [gs'|]; [|discriminate]. injection H as <-.
    constructor; [exists p, c, n; split; [exact E|reflexivity]|apply IH; reflexivity].
Qed.

Lemma Forall2_In_r {A B} (P : A -> B -> Prop) l l' y : Forall2 P l l' -> In y l' -> exists x, In x l /\ P x y.
Proof.
  induction 1 as [|a b l l' Hab _ IH]; intros Hin; [destruct Hin|].
  destruct Hin as [<-|Hin]; [exists a; split; [left; reflexivity|exact Hab]|].
  destruct (IH Hin) as (x & Hx & Hp). exists x. split; [right; exact Hx|exact Hp].
Qed.

(** every edit of every insertion entry comes from a kept dictionary item whose key is the 3-gram
    (prev, edit, next) of that entry's context, and carries that item's weight *)
Lemma itab_edit_origin items it rt p n es c w :
  build_tables items = TOk it rt -> In (p, n, es) it -> In (c, w) es ->
  exists x, In x items /\ keep_item (f_of_N (freq_sum items)) x = true /\
            split3 (it_key x) = Some (p, c, n) /\ it_w x = w.
Proof.
  unfold build_tables, build_tables_by. intros H Hen Hc.
  destruct (grams_of (kept_sorted item_leb items)) as [gs|] eqn:Eg; [|discriminate]. injection H as <- <-.
  destruct (itab_entry_spec _ _ _ _ Hen) as [-> _].
  apply in_map_iff in Hc as (g & Eg' & Hg). apply filter_In in Hg as [Hg Hctx].
  destruct (Forall2_In_r _ _ _ _ (grams_of_spec _ _ Eg) Hg) as (x & Hx & p' & c' & n' & Hs & ->).
  cbn [g_edit] in Eg'. injection Eg' as E1 E2. subst c'. cbn [g_ctx] in Hctx.
  apply Bool.andb_true_iff in Hctx as [A1 A2]. apply nlist_eqb_eq in A1, A2. subst p' n'.
  unfold kept_sorted in Hx. apply filter_In in Hx as [Hx Hk].
  exists x. repeat split; try assumption.
  eapply Permutation_in; [apply Permutation_sym, sort_perm|exact Hx].
Qed.

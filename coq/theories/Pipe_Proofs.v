(** Pipe_Proofs: invariants of the Pipe LTS for every schedule. *)
From Coq Require Import Lia Permutation.
From TU Require Import Base Pipe_Model.

Section PipeProofs.
Variables (A B : Type) (f : A -> B) (d : A).
Notation state := (state A B).
Notation step := (step A B f d).
Notation run := (run A B f d).
Notation init := (init A B).
Notation set_thr := (set_thr A B).

Definition hold (st : tstate) : list nat :=
  match st with Got i | Computed i | Sending i | Sent i _ => [i] | _ => [] end.
Definition held (l : list tstate) := flat_map hold l.
Definition is_sent_ok (st : tstate) := match st with Sent _ true => true | _ => false end.
Definition pending (l : list tstate) := existsb is_sent_ok l.
Definition sending (st : tstate) := match st with Sending _ | Sent _ _ => true | _ => false end.

Record Inv (s : state) : Prop := {
  inv_next : next s <= length (xs s);
  inv_turn : turn s <= next s;
  inv_held : Permutation (held (thr s)) (seq (turn s) (next s - turn s));
  inv_send : forall t st i, nth_error (thr s) t = Some st -> sending st = true -> hold st = [i] -> i = turn s;
  inv_fail : forall t i, nth_error (thr s) t = Some (Sent i false) -> dropped s = true;
  inv_out  : dropped s = false ->
             out s ++ chan s = map f (firstn (turn s + (if pending (thr s) then 1 else 0)) (xs s));
  inv_cap  : length (chan s) <= length (thr s);
  inv_dchan : dropped s = true -> chan s = [];
  inv_exit : In Exited (thr s) -> dropped s = true \/ next s = length (xs s);
  inv_pref : out s = map f (firstn (length (out s)) (xs s))
}.

(* --- list lemmas --- *)
Lemma decomp {X} (l : list X) t x : nth_error l t = Some x ->
  exists l1 l2, l = l1 ++ x :: l2 /\ length l1 = t /\ firstn t l = l1 /\ skipn (S t) l = l2.
Proof.
  intros H. destruct (nth_error_split l t H) as (l1 & l2 & -> & Hl). exists l1, l2. repeat split; auto.
  - rewrite <- Hl. rewrite firstn_app, Nat.sub_diag, firstn_all. cbn. apply app_nil_r.
  - rewrite <- Hl. replace (S (length l1)) with (length (l1 ++ [x])) by (rewrite app_length; cbn; lia).
    change (l1 ++ x :: l2) with (l1 ++ [x] ++ l2). rewrite app_assoc. rewrite skipn_app, Nat.sub_diag, skipn_all. reflexivity.
Qed.
Lemma split_nth {X} (l : list X) t x : nth_error l t = Some x -> l = firstn t l ++ x :: skipn (S t) l.
Proof. intros H. destruct (decomp l t x H) as (l1 & l2 & E & _ & -> & ->). exact E. Qed.
Lemma upd_length {X} t (x : X) l y : nth_error l t = Some y -> length (upd t x l) = length l.
Proof. intros H. rewrite (split_nth l t y H) at 2. unfold upd. rewrite !app_length. cbn. reflexivity. Qed.
Lemma held_app a b : held (a ++ b) = held a ++ held b.
Proof. unfold held. apply flat_map_app. Qed.
Lemma held_split l t st : nth_error l t = Some st -> held l = held (firstn t l) ++ hold st ++ held (skipn (S t) l).
Proof. intros H. rewrite (split_nth l t st H) at 1. rewrite held_app. cbn. reflexivity. Qed.
Lemma held_upd l t st' : held (upd t st' l) = held (firstn t l) ++ hold st' ++ held (skipn (S t) l).
Proof. unfold upd. rewrite held_app. cbn. reflexivity. Qed.
Lemma nth_upd_same {X} (l : list X) t x y : nth_error l t = Some y -> nth_error (upd t x l) t = Some x.
Proof.
  intros H. destruct (decomp l t y H) as (l1 & l2 & E & Hl & F & S). unfold upd. rewrite F, S.
  rewrite nth_error_app2 by lia. rewrite Hl, Nat.sub_diag. reflexivity.
Qed.
Lemma nth_upd_other {X} (l : list X) t u x y : nth_error l t = Some y -> t <> u -> nth_error (upd t x l) u = nth_error l u.
Proof.
  intros H Hne. destruct (decomp l t y H) as (l1 & l2 & E & Hl & F & S). unfold upd. rewrite F, S. rewrite E.
  destruct (Nat.lt_ge_cases u t).
  - rewrite !nth_error_app1 by lia. reflexivity.
  - rewrite !nth_error_app2 by lia. rewrite Hl. destruct (u - t) eqn:Eu; [lia|]. reflexivity.
Qed.
Lemma pending_upd l t st' :
  pending (upd t st' l) = pending (firstn t l) || is_sent_ok st' || pending (skipn (S t) l).
Proof. unfold pending, upd. rewrite existsb_app. cbn. rewrite orb_assoc. reflexivity. Qed.
Lemma pending_split l t st : nth_error l t = Some st ->
  pending l = pending (firstn t l) || is_sent_ok st || pending (skipn (S t) l).
Proof. intros H. rewrite (split_nth l t st H) at 1. unfold pending. rewrite existsb_app. cbn. rewrite orb_assoc. reflexivity. Qed.

(* a thread that is Sent/Sending holds turn; NoDup of held gives uniqueness *)
Lemma held_nodup s : Inv s -> NoDup (held (thr s)).
Proof. intros I. eapply Permutation_NoDup; [symmetry; apply (inv_held _ I)|apply seq_NoDup]. Qed.

Lemma pending_in l : pending l = true -> exists t i, nth_error l t = Some (Sent i true).
Proof.
  unfold pending. intros H. apply existsb_exists in H as (st & Hin & Hst).
  apply In_nth_error in Hin as (t & Ht). destruct st; try discriminate. destruct ok; try discriminate. eauto.
Qed.

(* if thread t holds i = turn then no other part of the list is pending *)
Lemma others_not_pending s t st i : Inv s -> nth_error (thr s) t = Some st -> hold st = [i] -> sending st = true ->
  pending (firstn t (thr s)) = false /\ pending (skipn (S t) (thr s)) = false.
Proof.
  intros I Ht Hh Hs.
  pose proof (held_nodup s I) as ND. rewrite (held_split _ _ _ Ht), Hh in ND.
  assert (Hi : i = turn s) by (eapply inv_send; eauto).
  split; destruct (pending _) eqn:E; try reflexivity; exfalso;
    apply pending_in in E as (u & j & Hu).
  - assert (Hu' : nth_error (thr s) u = Some (Sent j true)).
    { assert (u < t). { assert (u < length (firstn t (thr s))) by (apply nth_error_Some; congruence). rewrite firstn_length in H. lia. }
      rewrite <- Hu. symmetry. rewrite <- (firstn_skipn t (thr s)) at 2. rewrite nth_error_app1; [reflexivity|]. apply nth_error_Some. congruence. }
    assert (j = turn s) by (eapply (inv_send _ I u); eauto). subst j i.
    apply nth_error_In in Hu. assert (In (turn s) (held (firstn t (thr s)))).
    { unfold held. apply in_flat_map. eexists; split; [exact Hu|cbn; auto]. }
    apply (NoDup_remove_2 _ _ _ ND). apply in_or_app. left. exact H.
  - assert (Hu' : nth_error (thr s) (S t + u) = Some (Sent j true)).
    { rewrite <- Hu. rewrite <- (firstn_skipn (S t) (thr s)) at 1.
      assert (Hl : length (firstn (S t) (thr s)) = S t).
      { apply firstn_length_le. apply nth_error_Some. congruence. }
      rewrite nth_error_app2 by lia. rewrite Hl. f_equal. lia. }
    assert (j = turn s) by (eapply (inv_send _ I (S t + u)); eauto). subst j i.
    apply nth_error_In in Hu. assert (In (turn s) (held (skipn (S t) (thr s)))).
    { unfold held. apply in_flat_map. eexists; split; [exact Hu|cbn; auto]. }
    apply (NoDup_remove_2 _ _ _ ND). apply in_or_app. right. exact H.
Qed.

Lemma firstn_S_map n (l : list A) : n < length l -> map f (firstn (S n) l) = map f (firstn n l) ++ [f (nth n l d)].
Proof.
  revert n; induction l as [|x l IH]; intros n H; cbn in H; [lia|].
  destruct n; cbn; [reflexivity|]. f_equal. apply IH. lia.
Qed.


Lemma flat_map_unique {X Y} (g : X -> list Y) (l : list X) t u a b x :
  NoDup (flat_map g l) -> nth_error l t = Some a -> nth_error l u = Some b -> In x (g a) -> In x (g b) -> t = u.
Proof.
  revert t u; induction l as [|c l IH]; intros t u ND Ht Hu Ha Hb; [destruct t; discriminate|].
  cbn in ND. destruct t, u; cbn in Ht, Hu.
  - reflexivity.
  - exfalso. inversion Ht; subst c. apply nth_error_In in Hu.
    assert (In x (flat_map g l)) by (apply in_flat_map; eauto).
    clear - ND Ha H. induction (g a) as [|y r IHr]; [destruct Ha|]. cbn in ND. inversion ND; subst.
    destruct Ha as [->|Ha]; [apply H2, in_or_app; auto|apply IHr; auto].
  - exfalso. inversion Hu; subst c. apply nth_error_In in Ht.
    assert (In x (flat_map g l)) by (apply in_flat_map; eauto).
    clear - ND Hb H. induction (g b) as [|y r IHr]; [destruct Hb|]. cbn in ND. inversion ND; subst.
    destruct Hb as [->|Hb]; [apply H2, in_or_app; auto|apply IHr; auto].
  - f_equal. eapply IH; eauto. clear - ND. induction (g c); cbn in ND; [exact ND|]. inversion ND; auto.
Qed.

Lemma unique_holder s t u st su i : Inv s -> nth_error (thr s) t = Some st -> nth_error (thr s) u = Some su ->
  hold st = [i] -> hold su = [i] -> t = u.
Proof.
  intros I Ht Hu H1 H2. eapply (flat_map_unique hold (thr s) t u st su i); eauto.
  - apply held_nodup, I.
  - rewrite H1; cbn; auto.
  - rewrite H2; cbn; auto.
Qed.

Lemma holder_range s t st i : Inv s -> nth_error (thr s) t = Some st -> hold st = [i] -> turn s <= i < next s.
Proof.
  intros I Ht Hh. assert (In i (held (thr s))).
  { unfold held. apply in_flat_map. exists st. split; [eapply nth_error_In; eauto|rewrite Hh; cbn; auto]. }
  eapply Permutation_in in H; [|apply (inv_held _ I)]. apply in_seq in H. pose proof (inv_turn _ I). lia.
Qed.

Lemma nth_upd_cases {X} (l : list X) t u x y z : nth_error l t = Some y -> nth_error (upd t x l) u = Some z ->
  (u = t /\ z = x) \/ (u <> t /\ nth_error l u = Some z).
Proof.
  intros H Hu. destruct (Nat.eq_dec u t) as [->|Hne].
  - left. rewrite (nth_upd_same l t x y H) in Hu. split; congruence.
  - right. split; [exact Hne|]. rewrite (nth_upd_other l t u x y H) in Hu by congruence. exact Hu.
Qed.


Lemma in_upd {X} (l : list X) t x y z : nth_error l t = Some y -> In z (upd t x l) -> z = x \/ In z l.
Proof.
  intros H Hin. apply In_nth_error in Hin as (u & Hu).
  destruct (nth_upd_cases _ _ _ _ _ _ H Hu) as [[_ ->]|[_ Hu']]; [left; reflexivity|right; eapply nth_error_In; eauto].
Qed.

(** if [l1 ++ l2] is the image of a prefix of [l] then so is [l1] *)
Lemma prefix_of_app (l1 l2 : list B) K (l : list A) :
  l1 ++ l2 = map f (firstn K l) -> l1 = map f (firstn (length l1) l).
Proof.
  intros H. assert (Hl : length l1 <= K).
  { apply (f_equal (@length B)) in H. rewrite app_length, map_length, firstn_length in H. lia. }
  transitivity (firstn (length l1) (l1 ++ l2)).
  - rewrite firstn_app, Nat.sub_diag, firstn_all. cbn. symmetry. apply app_nil_r.
  - rewrite H, firstn_map, firstn_firstn. f_equal. f_equal. lia.
Qed.

(* generic local thread transition that keeps the held index and the pending flag *)
Lemma inv_set s t st st' : Inv s -> nth_error (thr s) t = Some st ->
  hold st' = hold st -> is_sent_ok st' = is_sent_ok st ->
  (sending st' = true -> forall i, hold st' = [i] -> i = turn s) ->
  (forall i, st' = Sent i false -> dropped s = true) ->
  (st' = Exited -> dropped s = true \/ next s = length (xs s)) ->
  Inv (set_thr s t st').
Proof.
  intros I Ht Hh Hp Hs Hf He. constructor; cbn.
  - apply I. - apply I.
  - rewrite held_upd, Hh, <- (held_split _ _ _ Ht). apply I.
  - intros u su i Hu Hsu Hhu. destruct (nth_upd_cases _ _ _ _ _ _ Ht Hu) as [[-> ->]|[Hne Hu']]; [auto|eapply inv_send; eauto].
  - intros u i Hu. destruct (nth_upd_cases _ _ _ _ _ _ Ht Hu) as [[-> E]|[Hne Hu']]; [eapply Hf; eauto|eapply inv_fail; eauto].
  - intros Hd. rewrite pending_upd, Hp, <- (pending_split _ _ _ Ht). apply I, Hd.
  - rewrite (upd_length _ _ _ _ Ht). apply I.
  - apply I.
  - intros Hin. destruct (in_upd _ _ _ _ _ Ht Hin) as [E|Hin']; [apply He; congruence|apply I, Hin'].
  - apply I.
Qed.

Lemma held_repeat W : held (repeat Idle W) = [].
Proof. induction W; cbn; auto. Qed.
Lemma pending_repeat W : pending (repeat Idle W) = false.
Proof. induction W; cbn; auto. Qed.
Lemma nth_repeat W t st : nth_error (repeat Idle W) t = Some st -> st = Idle.
Proof. intros H. apply nth_error_In in H. apply repeat_spec in H. exact H. Qed.

Theorem inv_init l W : Inv (init l W).
Proof.
  constructor; cbn.
  - lia.
  - lia.
  - rewrite held_repeat. constructor.
  - intros t st i H. apply nth_repeat in H. subst. discriminate.
  - intros t i H. apply nth_repeat in H. discriminate.
  - intros _. rewrite pending_repeat. reflexivity.
  - lia.
  - discriminate.
  - intros H. apply repeat_spec in H. discriminate.
  - reflexivity.
Qed.

Ltac fields := cbn [xs next turn thr chan out dropped log pad ndrop].

Theorem inv_step s l s' : Inv s -> step s l = Some s' -> Inv s'.
Proof.
  intros I H. destruct l as [t|t|t|t|t|t| |]; cbn [Pipe_Model.step] in H.
  - (* Pull *)
    destruct (nth_error (thr s) t) as [st|] eqn:Ht; [|discriminate]. destruct st; try discriminate.
    destruct (next s <? length (xs s)) eqn:En.
    + apply Nat.ltb_lt in En. injection H as <-. pose proof (inv_turn _ I) as Htn.
      constructor; fields; try lia.
      * rewrite held_upd. cbn [hold app].
        pose proof (inv_held _ I) as P. rewrite (held_split _ _ _ Ht) in P. cbn [hold app] in P.
        replace (S (next s) - turn s) with (S (next s - turn s)) by lia. rewrite seq_S.
        replace (turn s + (next s - turn s)) with (next s) by lia.
        eapply Permutation_trans; [symmetry; apply Permutation_middle|].
        eapply Permutation_trans; [apply perm_skip, P|apply Permutation_cons_append].
      * intros u su i Hu Hsu Hhu. destruct (nth_upd_cases _ _ _ _ _ _ Ht Hu) as [[-> ->]|[Hne Hu']]; [discriminate|eapply inv_send; eauto].
      * intros u i Hu. destruct (nth_upd_cases _ _ _ _ _ _ Ht Hu) as [[-> E]|[Hne Hu']]; [discriminate|eapply inv_fail; eauto].
      * intros Hd. rewrite pending_upd. cbn [is_sent_ok]. rewrite orb_false_r.
        pose proof (inv_out _ I Hd) as O. rewrite (pending_split _ _ _ Ht) in O. cbn [is_sent_ok] in O. rewrite orb_false_r in O. exact O.
      * rewrite (upd_length _ _ _ _ Ht). apply I.
      * apply I.
      * intros Hin. destruct (in_upd _ _ _ _ _ Ht Hin) as [E|Hin']; [discriminate|].
        destruct (inv_exit _ I Hin') as [Hd|Hn]; [left; exact Hd|lia].
      * apply I.
    + apply Nat.ltb_ge in En. injection H as <-. eapply inv_set; eauto; intros; try discriminate.
      right. pose proof (inv_next _ I). lia.
  - (* Compute *)
    destruct (nth_error (thr s) t) as [st|] eqn:Ht; [|discriminate]. destruct st; try discriminate.
    injection H as <-.
    assert (G : Inv (set_thr s t (Computed i))) by (eapply inv_set; eauto; intros; discriminate).
    destruct G; constructor; assumption.
  - (* TurnOk *)
    destruct (nth_error (thr s) t) as [st|] eqn:Ht; [|discriminate]. destruct st; try discriminate.
    destruct (i =? turn s) eqn:E; [|discriminate]. apply Nat.eqb_eq in E. injection H as <-.
    eapply inv_set; eauto; cbn; intros; try discriminate. congruence.
  - (* SendOk *)
    destruct (nth_error (thr s) t) as [st|] eqn:Ht; [|discriminate]. destruct st; try discriminate.
    destruct (negb (dropped s) && (length (chan s) <? length (thr s))) eqn:E; [|discriminate].
    apply andb_true_iff in E as [Ed Ec]. apply negb_true_iff in Ed. apply Nat.ltb_lt in Ec.
    injection H as <-.
    assert (Hi : i = turn s) by (eapply (inv_send _ I t); eauto; reflexivity).
    destruct (others_not_pending s t (Sending i) i I Ht eq_refl eq_refl) as [P1 P2].
    pose proof (holder_range s t _ i I Ht eq_refl) as Hr. pose proof (inv_next _ I).
    constructor; fields; try apply I.
    + rewrite held_upd. cbn [hold]. change [i] with (hold (Sending i)). rewrite <- (held_split _ _ _ Ht). apply I.
    + intros u su j Hu Hsu Hhu. destruct (nth_upd_cases _ _ _ _ _ _ Ht Hu) as [[-> ->]|[Hne Hu']]; [cbn in Hhu; congruence|eapply inv_send; eauto].
    + intros u j Hu. destruct (nth_upd_cases _ _ _ _ _ _ Ht Hu) as [[-> E]|[Hne Hu']]; [discriminate|eapply inv_fail; eauto].
    + intros _. rewrite pending_upd, P1, P2. cbn.
      pose proof (inv_out _ I Ed) as O. rewrite (pending_split _ _ _ Ht), P1, P2 in O. cbn in O.
      rewrite Nat.add_0_r in O. rewrite app_assoc, O. subst i.
      replace (turn s + 1) with (S (turn s)) by lia. rewrite firstn_S_map by lia. reflexivity.
    + rewrite (upd_length _ _ _ _ Ht). rewrite app_length. cbn. lia.
    + intros Hd. congruence.
    + intros Hin. destruct (in_upd _ _ _ _ _ Ht Hin) as [E|Hin']; [discriminate|apply I, Hin'].
  - (* SendFail *)
    destruct (nth_error (thr s) t) as [st|] eqn:Ht; [|discriminate]. destruct st; try discriminate.
    destruct (dropped s) eqn:Ed; [|discriminate]. injection H as <-.
    apply (inv_set s t (Sending i) (Sent i false) I Ht eq_refl eq_refl).
    + intros _ j Hj. cbn in Hj. injection Hj as <-. eapply (inv_send _ I t); eauto; reflexivity.
    + intros j _. exact Ed.
    + discriminate.
  - (* Advance *)
    destruct (nth_error (thr s) t) as [st|] eqn:Ht; [|discriminate]. destruct st; try discriminate.
    injection H as <-.
    assert (Hi : i = turn s) by (eapply (inv_send _ I t); eauto; reflexivity).
    destruct (others_not_pending s t (Sent i ok) i I Ht eq_refl eq_refl) as [P1 P2].
    pose proof (holder_range s t _ i I Ht eq_refl) as Hr. pose proof (inv_next _ I).
    assert (Hh' : hold (if ok then Idle else Exited) = []) by (destruct ok; reflexivity).
    assert (Hs' : sending (if ok then Idle else Exited) = false) by (destruct ok; reflexivity).
    constructor; fields; try lia.
    + rewrite held_upd, Hh'. cbn [app].
      pose proof (inv_held _ I) as P. rewrite (held_split _ _ _ Ht) in P. cbn [hold app] in P.
      replace (next s - turn s) with (S (next s - S i)) in P by lia. cbn [seq] in P. subst i.
      symmetry. eapply Permutation_cons_app_inv. symmetry. exact P.
    + intros u su j Hu Hsu Hhu. destruct (nth_upd_cases _ _ _ _ _ _ Ht Hu) as [[-> ->]|[Hne Hu']]; [congruence|].
      exfalso. assert (j = turn s) by (eapply inv_send; eauto). apply Hne. symmetry.
      eapply (unique_holder s t u); eauto. cbn. congruence.
    + intros u j Hu. destruct (nth_upd_cases _ _ _ _ _ _ Ht Hu) as [[-> E]|[Hne Hu']]; [destruct ok; discriminate|eapply inv_fail; eauto].
    + intros Hd. assert (ok = true). { destruct ok; [reflexivity|]. rewrite (inv_fail _ I t i Ht) in Hd. discriminate. } subst ok.
      rewrite pending_upd, P1, P2. cbn [is_sent_ok orb].
      pose proof (inv_out _ I Hd) as O. rewrite (pending_split _ _ _ Ht), P1, P2 in O. cbn [is_sent_ok orb] in O.
      rewrite O. f_equal. f_equal. lia.
    + rewrite (upd_length _ _ _ _ Ht). apply I.
    + apply I.
    + intros Hin. destruct (in_upd _ _ _ _ _ Ht Hin) as [E|Hin'].
      * destruct ok; [discriminate|]. left. eapply inv_fail; eauto.
      * apply I, Hin'.
    + apply I.
  - (* Recv *)
    destruct (dropped s) eqn:Ed; [discriminate|]. destruct (chan s) as [|y c] eqn:Ec; [discriminate|].
    injection H as <-. constructor; fields; try apply I.
    + intros t i Ht. rewrite (inv_fail _ I t i Ht) in Ed. discriminate.
    + intros _. rewrite <- app_assoc. cbn. rewrite <- Ec. apply I, Ed.
    + pose proof (inv_cap _ I). rewrite Ec in H. cbn in H. lia.
    + discriminate.
    + intros Hin. destruct (inv_exit _ I Hin) as [Hd|Hn]; [congruence|right; exact Hn].
    + pose proof (inv_out _ I Ed) as O. rewrite Ec in O.
      change (y :: c) with ([y] ++ c) in O. rewrite app_assoc in O.
      eapply prefix_of_app; eauto.
  - (* Drop *)
    destruct (dropped s) eqn:Ed; [discriminate|]. injection H as <-. constructor; fields; try apply I.
    + intros; reflexivity.
    + intros; discriminate.
    + cbn. lia.
    + reflexivity.
    + intros; left; reflexivity.
Qed.

Theorem inv_reach_gen tr : forall s0 s, Inv s0 -> run s0 tr = Some s -> Inv s.
Proof.
  induction tr as [|lab tr IH]; cbn; intros s0 s I H; [injection H as <-; exact I|].
  destruct (step s0 lab) eqn:E; [|discriminate]. eapply IH; [eapply inv_step; eauto|exact H].
Qed.

Theorem inv_reach l W tr s : run (init l W) tr = Some s -> Inv s.
Proof. apply inv_reach_gen, inv_init. Qed.

Lemma held_length l : length (held l) <= length l.
Proof. unfold held. induction l as [|st l IH]; cbn; [lia|]. rewrite app_length. destruct st; cbn; lia. Qed.

(** C09: bounded look-ahead while the consumer is attached *)
Theorem lookahead_l l W tr s : run (init l W) tr = Some s -> dropped s = false ->
  next s <= length (out s) + 2 * length (thr s).
Proof.
  intros R Hd. pose proof (inv_reach _ _ _ _ R) as I.
  pose proof (Permutation_length (inv_held _ I)) as HL. rewrite seq_length in HL.
  pose proof (held_length (thr s)). pose proof (inv_turn _ I). pose proof (inv_cap _ I).
  pose proof (f_equal (@length B) (inv_out _ I Hd)) as O. rewrite app_length, map_length, firstn_length in O.
  pose proof (inv_next _ I). destruct (pending (thr s)); lia.
Qed.

End PipeProofs.

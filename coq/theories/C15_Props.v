(** C15 — pinned statements. *)
From TU Require Import Base C15_Model C15_Proofs.

Theorem ctx_total_ins : forall t w i, ins_ctx t w i <> Overflow.
Proof. exact ins_ctx_total. Qed.
Print Assumptions ctx_total_ins.

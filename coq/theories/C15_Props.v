(** C15 — pinned statements. Nothing but statements, [exact], assumption audits and examples.

    Vocabulary (C15_Model.v): a word is a list of clusters; [outcomes c cd cs w ex] is the
    set of (word, exclusion set) pairs one [edit_word] call can return over all rng values
    ([None] = a provider faulted); an [ed] names one edit; [valid_ed c w ex k] says that
    [k] is of an enabled kind, in range, drawn from the context entry of its position, and
    consumes no excluded position; [apply_word]/[apply_excl] perform it; [shift_of k] is the
    re-indexing of old positions, [old_pos k] the old positions the edit consumed,
    [new_pos k] the new positions it wrote. Exclusion sets are lists read as sets. *)
From TU Require Import Base C15_Model C15_Proofs C15_Apply C15_Check C15_Chain.
From Coq Require Import Lia.

(** one_edit: every outcome is the word with at most one valid edit applied, and the
    exclusion set that edit induces ... *)
Theorem one_edit : forall c cd cs w ex l o,
  outcomes c cd cs w ex = Some l -> In o l ->
  exists k, valid_ed c w ex k /\ o = (apply_word k w, apply_excl k ex).
Proof. exact outcomes_In. Qed.
Print Assumptions one_edit.

(** ... where applying a valid edit is literally: nothing / one inserted table string /
    one deleted character / one character replaced by a table string / one adjacent swap *)
Theorem edit_shape : forall c w ex k,
  valid_ed c w ex k ->
  match k with
  | ESame => apply_word k w = w
  | EIns i e => exists a b, w = a ++ b /\ length a = i /\ apply_word k w = a ++ e ++ b
  | EDel i => exists a x b, w = a ++ x :: b /\ length a = i /\ apply_word k w = a ++ b
  | ERep i e => exists a x b, w = a ++ x :: b /\ length a = i /\ apply_word k w = a ++ e ++ b
  | ESwap i => exists a x y b, w = a ++ x :: y :: b /\ length a = i /\ apply_word k w = a ++ y :: x :: b
  end.
Proof. exact edit_shape_l. Qed.
Print Assumptions edit_shape.

(** excluded_untouched: a protected position is not consumed by the edit, its character
    reappears unchanged at the re-indexed position, that position was not written by the
    edit and is protected again *)
Theorem excluded_untouched : forall c w ex k p,
  valid_ed c w ex k -> In p ex -> p < length w ->
  ~ In p (old_pos k) /\
  nth_error (apply_word k w) (shift_of k p) = nth_error w p /\
  ~ In (shift_of k p) (new_pos k) /\
  In (shift_of k p) (apply_excl k ex).
Proof. exact excluded_untouched_l. Qed.
Print Assumptions excluded_untouched.

(** more generally every character the edit did not consume is kept, in order *)
Theorem unedited_kept : forall c w ex k p,
  valid_ed c w ex k -> p < length w -> ~ In p (old_pos k) ->
  nth_error (apply_word k w) (shift_of k p) = nth_error w p.
Proof. exact untouched_l. Qed.
Print Assumptions unedited_kept.

(** and the written positions hold exactly the edit material *)
Theorem edit_written : forall c w ex k,
  valid_ed c w ex k ->
  match k with
  | ESame | EDel _ => True
  | EIns i e | ERep i e => forall j, j < length e -> nth_error (apply_word k w) (i + j) = nth_error e j
  | ESwap i => nth_error (apply_word k w) i = nth_error w (S i) /\
               nth_error (apply_word k w) (S i) = nth_error w i
  end.
Proof. exact written_l. Qed.
Print Assumptions edit_written.

(** excl_reindexed: new set = image of the old set under the shift ∪ written positions;
    it stays inside the new word; the new length is the old one adjusted by the edit *)
Theorem excl_reindexed : forall c w ex k,
  valid_ed c w ex k ->
  (forall x, In x (apply_excl k ex) <-> (exists p, In p ex /\ x = shift_of k p) \/ In x (new_pos k)) /\
  (in_range w ex -> in_range (apply_word k w) (apply_excl k ex)) /\
  len_spec k (length w) (length (apply_word k w)).
Proof. exact excl_reindexed_l. Qed.
Print Assumptions excl_reindexed.

(** ctx_total: the repaired providers never produce the overflow value, at any index
    (also beyond the word); ReplaceEdits faults only by its own [expect] on the empty word *)
Theorem ctx_total : forall t r w i,
  ins_ctx t w i <> Overflow /\ ins_ctx t w i <> EmptyWord /\
  rep_ctx r w i <> Overflow /\ (w <> [] -> rep_ctx r w i <> EmptyWord).
Proof. exact ctx_total_l. Qed.
Print Assumptions ctx_total.

(** hence a call of the repaired [edit_word] never faults, for any configuration *)
Theorem outcomes_total : forall c cd cs w ex, exists l, outcomes c cd cs w ex = Some l.
Proof. exact outcomes_total_l. Qed.
Print Assumptions outcomes_total.

(** ctx_pinned_overflow: the arithmetic of the pinned commit ([cs.get(idx - 1)] on usize)
    overflows at index 0, for every table and word (defect D7) ... *)
Theorem ctx_pinned_overflow : forall t r w,
  ins_ctx_pinned t w 0 = Overflow /\ rep_ctx_pinned r w 0 = Overflow.
Proof. exact ctx_pinned_overflow_l. Qed.
Print Assumptions ctx_pinned_overflow.

(** ... so the pinned [edit_word] can fault whenever position 0 is not excluded and insert is
    enabled, or replace is enabled on a non-empty word *)
Theorem pinned_call_faults : forall c cd cs w ex,
  ~ In 0 ex -> (k_ins c = true \/ (k_rep c = true /\ w <> [])) -> choices_pinned c cd cs w ex = None.
Proof. exact choices_pinned_fault_l. Qed.
Print Assumptions pinned_call_faults.

(** ... while away from index 0 the pinned and the repaired lookups agree (the repair changes nothing else) *)
Theorem pinned_agrees_elsewhere : forall t r w i,
  0 < i ->
  (w <> [] -> ins_ctx_pinned t w i = ins_ctx t w i) /\
  (1 < length w -> rep_ctx_pinned r w i = rep_ctx r w i).
Proof. exact pinned_agrees_elsewhere_l. Qed.
Print Assumptions pinned_agrees_elsewhere.

(** chain_inv: "exclusion set inside the word" survives any number of chained calls,
    whatever the per-position predicates of the intermediate words are *)
Theorem chain_inv : forall c n s s',
  chain c n s s' -> in_range (fst s) (snd s) -> in_range (fst s') (snd s').
Proof. exact chain_inv_l. Qed.
Print Assumptions chain_inv.

(** edit_consumes: after a valid edit the characters at unprotected positions are exactly the
    previously unprotected ones minus those the edit consumed (everything the edit wrote is
    protected, nothing else became protected) *)
Theorem edit_consumes : forall c w ex k,
  valid_ed c w ex k ->
  unprot (apply_word k w) (apply_excl k ex) = unprot w (old_pos k ++ ex).
Proof. exact unprot_step. Qed.
Print Assumptions edit_consumes.

(** chain_fresh: after any number of chained calls the unprotected characters are a
    subsequence of the originally unprotected ones: no call edits what an earlier call wrote,
    and what is still unprotected is original text in original order *)
Theorem chain_fresh : forall c n s s',
  chain c n s s' -> subseq (unprot (fst s') (snd s')) (unprot (fst s) (snd s)).
Proof. exact chain_fresh_l. Qed.
Print Assumptions chain_fresh.

(** check_run: the executable statement evaluated on implementation outputs holds of every
    output whose provider probe equals the model's and whose chain results are elements of
    the model's outcome sets (no premise on the input needed) *)
Theorem check_run : forall v out, agree_C15 true v out = true -> check_C15 v out = true.
Proof. exact check_run_l. Qed.
Print Assumptions check_run.

(** the cluster-level membership implies the text-level membership the runner uses *)
Theorem agree_strict_weak : forall v out, agree_C15 true v out = true -> agree_C15 false v out = true.
Proof. exact agree_strict_weak. Qed.
Print Assumptions agree_strict_weak.

(** code-point mode (all clusters single code points): the text-level membership is the
    cluster-level one, so [check_run] applies to exactly what the runner compares *)
Theorem cp_agree_strict : forall c s wv exv,
  cp_cfg c -> singles (s_w s) -> singles (v_cls wv) ->
  step_agree false c s (L [wv; exv]) = true -> step_agree true c s (L [wv; exv]) = true.
Proof. exact step_agree_cp. Qed.
Print Assumptions cp_agree_strict.

(** reach_sound: the states the model lists for the corrupt_spelling stream ([reach], k chained
    calls from one word) are ends of chains of exactly k calls, so [chain_inv] applies to them *)
Theorem reach_sound : forall c ci k w ex l s',
  reach c ci k [(w, ex)] = Some l -> In s' l -> chain c k (w, ex) s'.
Proof. exact reach_sound_l. Qed.
Print Assumptions reach_sound.

(** * Non-vacuity *)
Definition c_ex : cfg :=
  {| k_ins := true; k_del := true; k_rep := true; k_swap := true; full_del := false;
     itab := [(bow, [97]%N, [([[120]%N], true); ([], true)]);
              ([98]%N, eow, [([[121]%N; [122]%N], true); ([[113]%N], false)])];
     rtab := [(bow, [97]%N, [98]%N, [([[113]%N], true)]); ([97]%N, [98]%N, eow, [([], true)])] |}.

(** "ab", position 1 protected: insert "x" at 0 under the <bow> context, delete 'a',
    replace 'a' by "q" under (<bow>, a, b); no swap, no edit next to or at position 1 *)
Example outcomes_witness :
  outcomes c_ex [true; true] [true] [[97]; [98]]%N [1] =
  Some [ ([[120]; [97]; [98]]%N, [2; 0]); ([[97]; [98]]%N, [1]);
         ([[98]]%N, [0]); ([[113]; [98]]%N, [1; 0]); ([[97]; [98]]%N, [1]) ].
Proof. vm_compute. reflexivity. Qed.

(** two more complete outcome sets. The harness' self check runs the real [edit_word] on these
    three inputs over 800 seeds and requires the set of observed results to be EXACTLY the set
    listed here (both inclusions), so an implementation that silently loses an outcome (never
    inserts at the end, never deletes the last character, ...) is noticed although the
    per-case correspondence is only a membership test. *)
Example outcomes_witness_2 :
  outcomes c_ex [true; true] [true] [[97]; [98]]%N [] =
  Some [ ([[120]; [97]; [98]]%N, [0]); ([[97]; [98]]%N, []); ([[97]; [98]; [121]; [122]]%N, [2; 3]);
         ([[98]]%N, []); ([[97]]%N, []); ([[113]; [98]]%N, [0]); ([[97]]%N, []);
         ([[98]; [97]]%N, [0; 1]) ].
Proof. vm_compute. reflexivity. Qed.

Definition c_fd : cfg :=
  {| k_ins := false; k_del := true; k_rep := false; k_swap := true; full_del := true;
     itab := []; rtab := [] |}.
Example outcomes_witness_3 : outcomes c_fd [true] [] [[97]]%N [] = Some [([], []); ([[97]]%N, [])].
Proof. vm_compute. reflexivity. Qed.

(** the same call on the pinned code can fault *)
Example pinned_witness : outcomes_pinned c_ex [true; true] [true] [[97]; [98]]%N [1] = None.
Proof. vm_compute. reflexivity. Qed.

(** valid edits of every kind, incl. a two-cluster insertion under the <eow> context and an
    empty replacement *)
Example valid_witness :
  valid_ed c_ex [[97]; [98]]%N [] (EIns 0 [[120]%N]) /\
  valid_ed c_ex [[97]; [98]]%N [] (EIns 2 [[121]; [122]]%N) /\
  valid_ed c_ex [[97]; [98]]%N [0] (EDel 1) /\
  valid_ed c_ex [[97]; [98]]%N [0] (ERep 1 []) /\
  valid_ed c_ex [[97]; [98]]%N [] (ESwap 0).
Proof.
  assert (N0 : forall i : nat, ~ In i []) by (intros i []).
  assert (N1 : ~ In 1 [0]) by (intros [H|[]]; discriminate H).
  split; [|split; [|split; [|split]]]; cbn [valid_ed].
  - split; [reflexivity|]. split; [cbn; lia|]. split; [apply N0|]. split; [intros _; apply N0|].
    eexists. split; [vm_compute; reflexivity | left; reflexivity].
  - split; [reflexivity|]. split; [cbn; lia|]. split; [apply N0|]. split; [intros _; apply N0|].
    eexists. split; [vm_compute; reflexivity | left; reflexivity].
  - split; [reflexivity|]. split; [cbn; lia | exact N1].
  - split; [reflexivity|]. split; [cbn; lia|]. split; [exact N1|].
    eexists _, _. split; [reflexivity|]. split; [vm_compute; reflexivity | left; reflexivity].
  - split; [reflexivity|]. split; [cbn; lia|]. split; apply N0.
Qed.

(** a chain of two calls: insert "x" at the start, then delete 'b' (position 2 after the shift) *)
Example chain_witness :
  chain c_ex 2 ([[97]; [98]]%N, []) ([[120]; [97]]%N, [0]) /\ in_range [[97]; [98]]%N [].
Proof.
  split; [|constructor].
  eapply chain_S with (cd := [true; true]) (cs := [true]) (o := ([[120]; [97]; [98]]%N, [0])).
  - vm_compute. reflexivity.
  - left. reflexivity.
  - eapply chain_S with (cd := [true; true; true]) (cs := [true; true]) (o := ([[120]; [97]]%N, [0])).
    + vm_compute. reflexivity.
    + vm_compute. tauto.
    + apply chain_0.
Qed.

(** an output in the model's outcome sets, as the harness would print it *)
Example agree_witness :
  agree_C15 true
    (L [I 0; L [I 1; I 1; I 0; I 0]; I 0; I 0;
        L [L [L [I 60; I 98; I 111; I 119; I 62]; L [I 97]; L [L [L [L [I 120]]; I 1]]]]; L [];
        I 7; L [L [L [L [I 97]; L [I 98]]; L [I 1]; L [I 1; I 1]; L [I 1]]]])
    (L [L [L [L [L [L [L [I 120]; I 1]]]; L []]; L [L []; L []]; L [L []; L []]; L [L []; L []]];
        L [L [L [L [I 120]; L [I 97]; L [I 98]]; L [I 0; I 2]]]]) = true.
Proof. vm_compute. reflexivity. Qed.

(** the code-point premise of [cp_agree_strict] *)
Example cp_witness : cp_cfg c_ex /\ singles [[97]; [98]]%N.
Proof.
  split; [split|]; [intros e H; cbn in H .. | repeat constructor].
  - repeat (destruct H as [<-|H]; [repeat constructor|]). destruct H.
  - repeat (destruct H as [<-|H]; [repeat constructor|]). destruct H.
Qed.

(** [reach] on a concrete word: the states after two chained calls on "a" with the class
    oracle "a is alphabetic" (insert "x" or "" at the start, then what is still allowed) *)
Example reach_witness :
  exists l, reach c_ex [([97]%N, true, false)] 2 [([[97]]%N, [])] = Some l /\
            In ([[120]; [97]]%N, [0]) l /\ length l = 24.
Proof. eexists. split; [vm_compute; reflexivity|]. split; [vm_compute; tauto | reflexivity]. Qed.

(** ** grapheme mode with the segmenter inside the model ([segment], UAX29_Model.v).
    [edit_word] counts the exclusion set in the clusters of the pieces it glues together. The
    cluster-level theorems above are statements about the segmentation of the NEW word exactly
    when that cluster list re-segments to itself, and this is decided by the seams of the edit. *)
From TU Require Import UAX29_Model C10_Seam C15_Seam C15_UAX29.

(** the chain condition of the edited word is the (one to three) seams of the edit *)
Theorem edit_seams_chain : forall k w,
  C10_Seam.chain w = true -> C10_Seam.chain (ed_str k) = true ->
  C10_Seam.chain (apply_word k w) = edit_seams k w.
Proof. exact edit_seams_spec. Qed.
Print Assumptions edit_seams_chain.

(** SeamStable for one edit, exactly: for a word and an edit string that are segmentations of
    their texts, the edited cluster list is the segmentation of the new text iff the seams are glued *)
Theorem edit_stable_iff : forall k w,
  segment (concat w) = w -> segment (concat (ed_str k)) = ed_str k ->
  (segment (concat (apply_word k w)) = apply_word k w <-> edit_seams k w = true).
Proof. exact edit_stable_iff_l. Qed.
Print Assumptions edit_stable_iff.

(** one call on the word [x] (a string): every outcome is one valid edit of [segment x], and the
    returned word re-segments to the clusters the returned exclusion set is counted in iff the
    seams of that edit are glued *)
Theorem one_edit_u : forall c cd cs x ex l o,
  tabs_ok c = true ->
  outcomes c cd cs (segment x) ex = Some l -> In o l ->
  exists k, valid_ed c (segment x) ex k /\ o = (apply_word k (segment x), apply_excl k ex)
            /\ (segment (concat (fst o)) = fst o <-> edit_seams k (segment x) = true).
Proof. exact one_edit_u_l. Qed.
Print Assumptions one_edit_u.

(** ... and then the exclusion set is re-indexed correctly w.r.t. [segment] of the NEW word [x']:
    protected characters reappear unchanged at the shifted positions, which are not written and
    protected again; new set = shifted old set + written positions; it stays inside the new word;
    the new cluster count is the old one adjusted by the edit *)
Theorem excl_reindexed_u : forall c x ex k,
  tabs_ok c = true -> valid_ed c (segment x) ex k -> edit_seams k (segment x) = true ->
  let x' := concat (apply_word k (segment x)) in
  (forall p, In p ex -> p < length (segment x) ->
     nth_error (segment x') (shift_of k p) = nth_error (segment x) p
     /\ ~ In (shift_of k p) (new_pos k) /\ In (shift_of k p) (apply_excl k ex))
  /\ (forall y, In y (apply_excl k ex) <-> (exists p, In p ex /\ y = shift_of k p) \/ In y (new_pos k))
  /\ (in_range (segment x) ex -> in_range (segment x') (apply_excl k ex))
  /\ len_spec k (length (segment x)) (length (segment x')).
Proof. exact excl_reindexed_u_l. Qed.
Print Assumptions excl_reindexed_u.

(** one call, exactly: every (word, exclusion set) the call can return has a word that is the
    segmentation of its text iff every edit the call can make has glued seams ([call_safe]:
    decidable from the word, the tables, the predicates and the exclusion set) *)
Theorem call_stable_iff : forall c cd cs w ex l,
  tabs_ok c = true -> segment (concat w) = w -> outcomes c cd cs w ex = Some l ->
  (call_safe c cd cs w ex = true <-> forall o, In o l -> segment (concat (fst o)) = fst o).
Proof. exact call_stable_iff_l. Qed.
Print Assumptions call_stable_iff.

(** [edit_safe c w] — all clusters of the word and of the edit strings the enabled kinds can
    draw are clusters on their own and glued in every order — is a condition on the input alone
    under which every valid edit has glued seams ... *)
Theorem edit_safe_seams : forall c w ex k,
  tabs_ok c = true -> segment (concat w) = w ->
  edit_safe c w = true -> valid_ed c w ex k -> edit_seams k w = true.
Proof. exact C15_UAX29.edit_safe_seams. Qed.
Print Assumptions edit_safe_seams.

(** ... and every word along every chain of calls is the segmentation of its text. Sufficient,
    not necessary (hence [_partial]): it also asks for orders of clusters no edit produces *)
Theorem chain_stable_partial : forall c n w ex s',
  edit_safe c w = true -> C15_Model.chain c n (w, ex) s' -> segment (concat (fst s')) = fst s'.
Proof. exact chain_stable_l. Qed.
Print Assumptions chain_stable_partial.

(** the text-level membership the runner compares is the cluster-level one of [check_run] when
    the word is edit-safe and the returned clusters are the model's segmentation (the grapheme-mode
    counterpart of [cp_agree_strict]) ... *)
Theorem agree_text_strict_u : forall c s wv exv,
  edit_safe c (s_w s) = true -> seg_ok (v_cls wv) = true ->
  step_agree false c s (L [wv; exv]) = true -> step_agree true c s (L [wv; exv]) = true.
Proof. exact step_agree_u. Qed.
Print Assumptions agree_text_strict_u.

(** ... so for a whole case: text-level agreement + the segmentation clause give the executable statement *)
Theorem check_run_u : forall v out,
  in_g15 v = true ->
  forallb (fun s => edit_safe (v_cfg v) (s_w s)) (v_steps v) = true ->
  C15_Seam.uax29_agree v out = true -> agree_C15 false v out = true ->
  agree_C15 true v out = true /\ check_C15 v out = true.
Proof. exact agree_u_l. Qed.
Print Assumptions check_run_u.

(** the KF1-seam class through the model: a text-level explanation [k] of a returned pair has the
    real clusters of the returned word as its cluster list iff that list is a chain — the class
    ("explained as text, but by no candidate whose clusters are the real ones") is "no explaining
    candidate is a chain" *)
Theorem kf1_seam_class : forall c s w' ex' k,
  tabs_ok c = true -> seg_ok (s_w s) = true -> seg_ok w' = true ->
  In k (all_cands c (s_w s)) ->
  expl_text (s_w s) (s_ex s) w' ex' k = true ->
  (C10_Seam.chain (apply_word k (s_w s)) = true <-> apply_word k (s_w s) = w').
Proof. exact expl_chain_stable. Qed.
Print Assumptions kf1_seam_class.

(** non-vacuity. "ab" with the tables of [c_ex] is edit-safe; the KF1-seam witnesses are edits
    whose seams are not glued: "e" + U+0301 inserted; 🇩x🇪 with x deleted; a ZWJ swapped behind
    a letter in front of an emoji *)
Example edit_safe_witness : tabs_ok c_ex = true /\ edit_safe c_ex [[97]; [98]]%N = true.
Proof. vm_compute. split; reflexivity. Qed.
Example kf1_seam_witness :
  edit_seams (EIns 1 [[769]%N]) [[101]]%N = false
  /\ segment (concat (apply_word (EIns 1 [[769]%N]) [[101]]%N)) = [[101; 769]]%N
  /\ edit_seams (EDel 1) [[127465]; [120]; [127466]]%N = false
  /\ edit_seams (ESwap 0) [[8205]; [97]; [128187]]%N = false
  /\ edit_seams (ESwap 0) [[97]; [128187]]%N = true.
Proof. vm_compute. repeat split; reflexivity. Qed.
Example edit_seams_witness :
  edit_seams (EIns 1 [[101; 769]%N]) [[97]; [98]]%N = true
  /\ edit_seams (ERep 0 [[127462; 127463]%N]) [[97]; [127464]]%N = true
  /\ edit_seams (ERep 0 [[127462]%N]) [[97]; [127464]]%N = false.
Proof. vm_compute. repeat split; reflexivity. Qed.
